// Shared by the correspondence harnesses: script parsing (same line protocol as
// lean/Driver/Main.lean), behaviour tables, canonical output.
#pragma once
#include <cstdio>
#include <cstdlib>
#include <cstring>
#include <string>
#include <vector>
#include <map>
#include <sstream>
#include <iostream>
#include <functional>
#include <memory>
#include <atomic>
#include <condition_variable>

// A mutex for the single-threaded script harnesses (threading variant "checked"): every lock / unlock reads a
// field of the mutex object, so that using the mutex of a destroyed list / dispatcher / queue is a heap-use-after-free
// for AddressSanitizer (it does not flag pthread_mutex_lock on freed memory), and a lock by the holder itself - which
// with std::mutex is a silent self-deadlock - is reported at once.
struct CheckedMutex {
	volatile unsigned magic;
	volatile bool held;
	CheckedMutex() : magic(0xC0DEC0DEu), held(false) {}
	~CheckedMutex() { magic = 0xDEADDEADu; }
	CheckedMutex(const CheckedMutex &) = delete;
	CheckedMutex & operator=(const CheckedMutex &) = delete;
	void touch(const char * what) {
		if(magic != 0xC0DEC0DEu) { std::fprintf(stderr, "CheckedMutex: %s on a destroyed mutex (the object that owns it is gone)\n", what); std::fflush(stderr); std::abort(); }
	}
	void lock() {
		touch("lock");
		if(held) { std::fprintf(stderr, "CheckedMutex: lock by the thread that already holds it (self-deadlock)\n"); std::fflush(stderr); std::abort(); }
		held = true;
	}
	bool try_lock() { touch("try_lock"); if(held) return false; held = true; return true; }
	void unlock() { touch("unlock"); held = false; }
};
#include <algorithm>

namespace vh {

struct Cmd {
	std::vector<std::string> t; // tokens
	long n(size_t i) const { return i < t.size() ? std::strtol(t[i].c_str(), nullptr, 10) : 0; }
	const std::string & op() const { static std::string e; return t.empty() ? e : t[0]; }
};

struct BehEntry {
	long cb;
	long nth; // -1 = any
	bool verdict;
	std::vector<Cmd> cmds;
};

struct Script {
	std::string name;
	int nlists = 1;
	std::vector<std::string> cfg; // free-form "cfg" lines
	std::vector<BehEntry> beh;
	std::vector<Cmd> dos;
};

inline std::vector<std::string> toks(const std::string & line) {
	std::vector<std::string> r;
	std::istringstream is(line);
	std::string w;
	while(is >> w) r.push_back(w);
	return r;
}

inline std::vector<Cmd> splitSemi(const std::vector<std::string> & ts, size_t from) {
	std::vector<Cmd> r;
	Cmd cur;
	for(size_t i = from; i < ts.size(); ++i) {
		if(ts[i] == ";") { if(!cur.t.empty()) r.push_back(cur); cur = Cmd(); }
		else cur.t.push_back(ts[i]);
	}
	if(!cur.t.empty()) r.push_back(cur);
	return r;
}

inline std::vector<Script> readScripts(std::istream & in) {
	std::vector<Script> all;
	std::string line;
	while(std::getline(in, line)) {
		auto t = toks(line);
		if(t.empty()) continue;
		if(t[0] == "---") { Script s; s.name = t.size() > 1 ? t[1] : ""; all.push_back(s); continue; }
		if(all.empty()) continue;
		Script & s = all.back();
		if(t[0] == "lists" && t.size() > 1) s.nlists = std::atoi(t[1].c_str());
		else if(t[0] == "cfg") s.cfg.push_back(line);
		else if(t[0] == "beh" && t.size() >= 4) {
			BehEntry e;
			e.cb = std::atol(t[1].c_str());
			e.nth = t[2] == "*" ? -1 : std::atol(t[2].c_str());
			e.verdict = t[3] != "0";
			e.cmds = splitSemi(t, 4);
			s.beh.push_back(e);
		}
		else if(t[0] == "do") { Cmd c; c.t.assign(t.begin() + 1, t.end()); s.dos.push_back(c); }
	}
	return all;
}

// `self`, `self+d`, `self-d` in a behaviour denote handles relative to the called node
inline Cmd substSelf(const Cmd & c, long h) {
	Cmd r;
	for(auto & t : c.t) {
		if(t == "self") r.t.push_back(std::to_string(h));
		else if(t.rfind("self+", 0) == 0) r.t.push_back(std::to_string(h + std::atol(t.c_str() + 5)));
		else if(t.rfind("self-", 0) == 0) { long d = std::atol(t.c_str() + 5); r.t.push_back(d <= h ? std::to_string(h - d) : std::string("999999")); }
		else r.t.push_back(t);
	}
	return r;
}

inline const BehEntry * findBeh(const Script & s, long cb, long nth) {
	for(auto & e : s.beh) if(e.cb == cb && e.nth == nth) return &e;
	for(auto & e : s.beh) if(e.cb == cb && e.nth == -1) return &e;
	return nullptr;
}

} // namespace vh
