// H-conc for eventpp::CallbackList (C03): same baton scheduler as conc_q.cpp; micro-steps of Conc/CList.lean.
//
// The queue is instantiated with GeneralThreading<VMutex, VAtomic, VCondVar>.  Exactly one real
// thread runs at a time (baton); a thread gives the baton back right before every micro-step of the
// Lean model Conc/Queue.lean: the unlocked `queueList.empty()` reads (EVENTPP_VERIF_POINT markers),
// every access to the two atomic counters, every acquisition of queueListMutex, notify_one, parking,
// each listener / predicate call.  The global order of the performed steps is logged
// (`step <tid> <tag> <choice>`); the Lean driver (mode `conc`) replays exactly that order on the
// model and the results / final state are compared.
//
// input:  one run per `--- name` section:
//   seed <n>          schedule seed
//   spur <permille>   probability of a spurious wake-up / time-out choice
//   thread <call> <call> ...     calls: enq proc one ifE ifO take peek clear empty wait waitfor dqnb dqne
#include <eventpp/callbacklist.h>
#include <atomic>
#include <condition_variable>
#include <cstdio>
#include <iostream>
#include <map>
#include <mutex>
#include <sstream>
#include <string>
#include <thread>
#include <vector>
#include <functional>
#include <chrono>

struct AbortRun {};

struct Sched;
static Sched * g = nullptr;
static thread_local int tl_tid = -1;
static thread_local bool tl_inPred = false;
static thread_local int tl_held = 0;          // list-level mutexes held by this thread (a critical section is one step)
static thread_local int tl_heldMap = 0;       // the dispatcher's listenerMutex (variant VC_DISP): holding it does not make the code atomic
static thread_local const char * tl_call = ""; // current call kind
static thread_local long tl_payload = -1;      // payload of the enqueue in progress

enum TState { T_RUNNING, T_READY, T_WANT_LOCK, T_PARKED, T_WOKEN, T_FINISHED };

struct Sched {
	std::mutex m;
	std::condition_variable cv;
	int n = 0;
	int current = -1;               // who holds the baton (-1: main)
	bool active = false;
	bool abort = false;
	bool terminal = false;          // nobody can run, somebody is parked
	std::vector<TState> st;
	std::vector<bool> timed;        // parked in waitFor
	std::vector<bool> timedOut;
	const void * qm = nullptr;      // address of the list mutex
	bool qmHeld = false;
	const void * qm2 = nullptr;     // address of the dispatcher's listenerMutex (variant VC_DISP)
	bool qm2Held = false;
	std::vector<int> want;          // which of the two a T_WANT_LOCK thread waits for
	const void * ec = nullptr;
	const void * nc = nullptr;
	unsigned long long rng = 1;
	int spur = 20;                  // permille
	std::vector<std::string> log;
	long nextGid = 0;
	std::map<long, long> gidOf;     // payload -> global event id (splice order)

	unsigned next() { rng = rng * 6364136223846793005ULL + 1442695040888963407ULL; return (unsigned)(rng >> 33); }

	bool enabled(int t) const {
		switch(st[t]) {
		case T_READY: return true;
		case T_WANT_LOCK: return (!want.empty() && want[t] == 1) ? !qm2Held : !qmHeld;
		case T_WOKEN: return !qmHeld;
		default: return false;
		}
	}

	// called with m held by the thread giving up the baton; chooses who runs next
	void pickNext() {
		for(;;) {
			std::vector<int> en, parked;
			for(int t = 0; t < n; ++t) { if(enabled(t)) en.push_back(t); if(st[t] == T_PARKED) parked.push_back(t); }
			// scheduler choices on parked waiters: spurious wake-up, time-out
			if(!parked.empty() && (int)(next() % 1000) < spur) {
				int w = parked[next() % parked.size()];
				if(timed[w] && (next() & 1)) { timedOut[w] = true; log.push_back("step " + std::to_string(w) + " timeout 1"); }
				else log.push_back("step " + std::to_string(w) + " spurious 0");
				st[w] = T_WOKEN;
				continue;
			}
			if(en.empty()) {
				bool unfinished = false;
				for(int t = 0; t < n; ++t) if(st[t] != T_FINISHED) unfinished = true;
				terminal = unfinished;
				current = -1;         // back to main
				cv.notify_all();
				return;
			}
			current = en[next() % en.size()];
			cv.notify_all();
			return;
		}
	}

	// give up the baton in state `s`, come back when scheduled
	void switchOut(TState s) {
		std::unique_lock<std::mutex> lk(m);
		st[tl_tid] = s;
		pickNext();
		cv.wait(lk, [&] { return current == tl_tid || abort; });
		if(abort && current != tl_tid) throw AbortRun();
		st[tl_tid] = T_RUNNING;
	}

	void step(const char * tag, long ch = 0) {
		std::lock_guard<std::mutex> lk(m);
		log.push_back("step " + std::to_string(tl_tid) + " " + tag + " " + std::to_string(ch));
	}
};

// a model micro-step is about to be performed by this thread
static void yieldPoint() { g->switchOut(T_READY); }
static bool schedulable() { return g && g->active && tl_tid >= 0 && (tl_held == 0 || tl_inPred); }

struct VMutex {
	bool held = false;
	void lock() {
		if(g && g->active && tl_tid >= 0 && (const void *)this == g->qm) {
			{ std::lock_guard<std::mutex> lk(g->m); g->want[tl_tid] = 0; }
			g->switchOut(T_WANT_LOCK);   // resumed only when the mutex is free
			{ std::lock_guard<std::mutex> lk(g->m); g->qmHeld = true; }
			held = true; ++tl_held;
			g->step("cs");
			return;
		}
		if(g && g->active && tl_tid >= 0 && (const void *)this == g->qm2) {
			{ std::lock_guard<std::mutex> lk(g->m); g->want[tl_tid] = 1; }
			g->switchOut(T_WANT_LOCK);
			{ std::lock_guard<std::mutex> lk(g->m); g->qm2Held = true; }
			held = true; ++tl_heldMap;
			g->step("map");
			return;
		}
		if(held) { std::fprintf(stderr, "VMutex: uninstrumented mutex contended\n"); std::abort(); }
		held = true; ++tl_held;
	}
	void unlock() {
		held = false;
		if(g && (const void *)this == g->qm2) { --tl_heldMap; std::lock_guard<std::mutex> lk(g->m); g->qm2Held = false; return; }
		--tl_held;
		if(g && (const void *)this == g->qm) { std::lock_guard<std::mutex> lk(g->m); g->qmHeld = false; }
	}
	bool try_lock() { if(held) return false; lock(); return true; }
};

template <typename T>
struct VAtomic {
	T value;
	VAtomic() : value() {}
	VAtomic(T v) : value(v) {}
	const char * name() const {
		if(g && (const void *)this == g->ec) return "cur";
#ifdef VC_HSLOT
		if(g) return "cur";     // the generation counter of a lazily created list (its address is not known beforehand)
#endif
		return nullptr;
	}
	void pre(const char * op) const {
		const char * nm = name();
		if(nm && schedulable()) {
			yieldPoint();
			// the draw of a generation numbers the node (the model allocates the node id at this step)
			if(std::string(op) == "++" && tl_payload >= 0) { std::lock_guard<std::mutex> lk(g->m); g->gidOf[tl_payload] = g->nextGid++; tl_payload = -1; }
			g->step((std::string(nm) + op).c_str());
		}
	}
	T load(std::memory_order = std::memory_order_seq_cst) const { pre(".load"); return value; }
	void store(T v, std::memory_order = std::memory_order_seq_cst) { pre(".store"); value = v; }
	T exchange(T v, std::memory_order = std::memory_order_seq_cst) { pre(".xchg"); T o = value; value = v; return o; }
	T operator++() {
		// a decrement/increment inside a critical section of queueListMutex is part of that model step
		pre("++"); return ++value;
	}
	T operator--() { pre("--"); return --value; }
};


#ifndef VC_MAP
#define VC_MAP 0
#endif
struct Policies {
	using Threading = eventpp::GeneralThreading<VMutex, VAtomic>;
#if VC_MAP == 1
	template <typename Key, typename T> using Map = std::map<Key, T>;
#endif
};
#ifdef VC_DISP
// variant: the same calls through an EventDispatcher (event 1): every call first takes the dispatcher's listenerMutex
// (step "map", silent in Conc/CList.lean); the adding calls keep it while they work on the list.  `other` adds a
// listener for a fresh event: the map grows / rehashes while the other threads look event 1 up.
#include <eventpp/eventdispatcher.h>
using Disp = eventpp::EventDispatcher<int, void(int), Policies>;
using CL = Disp::CallbackList_;
#else
using CL = eventpp::CallbackList<void(int), Policies>;
#endif

static void hookPoint(const char * tag) {
	if(tag[0] == 'c' && tag[1] == 'l' && schedulable()) { yieldPoint(); g->step(tag); }
#ifdef VC_HSLOT
	if(tag[0] == 'h' && tag[1] == 'l' && schedulable()) { yieldPoint(); g->step(tag); }
#endif
}

struct Run {
	std::string name;
	unsigned long long seed = 1;
	std::vector<std::string> setup;                       // callbacks appended before the threads start
	std::vector<std::vector<std::vector<std::string>>> progs;   // thread -> calls -> tokens
};

struct CbFn {
	long local;      // index into the run's node table
	void operator()(int) const;
};
static std::vector<std::string> * g_visits = nullptr;  // per thread visit log (thread-local pointer set by the thread)
static thread_local std::string * tl_visit = nullptr;
static std::map<long, long> * g_cbOf = nullptr;
void CbFn::operator()(int) const {
	if(schedulable()) { yieldPoint(); g->step("cb"); }
	long gid; { std::lock_guard<std::mutex> lk(g->m); gid = g->gidOf[local]; }
	if(tl_visit) *tl_visit += " " + std::to_string(gid);
}

static void runOne(const Run & r) {
	Sched s;
	g = &s;
	s.n = (int)r.progs.size();
	s.st.assign(s.n, T_READY);
	s.timed.assign(s.n, false);
	s.timedOut.assign(s.n, false);
	s.rng = r.seed * 2654435761ULL + 12345;
	s.spur = 0;
	std::vector<std::vector<std::string>> rets(s.n);
	std::vector<std::vector<std::string>> visits(s.n);
	s.want.assign(s.n, 0);
	{
#ifdef VC_DISP
		Disp disp;
		{   // make the list of event 1 exist (its address is needed before the threads start)
			auto h0 = disp.appendListener(1, CbFn{-1});
			disp.removeListener(1, h0);
		}
		CL & list = disp.eventCallbackListMap[1];
		s.qm2 = &disp.listenerMutex;
		std::atomic<int> otherKey{100};
#else
		CL list;
#endif
		s.qm = &list.mutex;
		s.ec = &list.currentCounter;
		std::map<long, CL::Handle> handleOfGid;   // filled when a handle is returned
		std::mutex hm;
		long nextLocal = 0;
		// setup: scheduler inactive, ids assigned directly
		for(auto & c : r.setup) {
			long local = nextLocal++;
			s.gidOf[local] = s.nextGid++;
#ifdef VC_DISP
			auto h = disp.appendListener(1, CbFn{local});
#else
			auto h = list.append(CbFn{local});
#endif
			handleOfGid[s.gidOf[local]] = h;
			(void)c;
		}
		eventpp::verif_::pointHook() = &hookPoint;
		std::vector<std::thread> th;
		s.active = true;
		std::vector<long> localBase(s.n);
		for(int t = 0; t < s.n; ++t) { localBase[t] = nextLocal; nextLocal += 100; }
		for(int t = 0; t < s.n; ++t) {
			th.emplace_back([&, t]() {
				tl_tid = t; tl_held = 0; tl_heldMap = 0; tl_inPred = false;
				try {
					{
						std::unique_lock<std::mutex> lk(s.m);
						s.cv.wait(lk, [&] { return s.current == t || s.abort; });
						if(s.abort && s.current != t) throw AbortRun();
						s.st[t] = T_RUNNING;
					}
					long k = 0;
					auto hOf = [&](long gid) -> CL::Handle { std::lock_guard<std::mutex> lk(hm); auto it = handleOfGid.find(gid); return it == handleOfGid.end() ? CL::Handle() : it->second; };
					long callNo = 0;
					for(auto & c : r.progs[t]) {
						const std::string & op = c[0];
						tl_call = op.c_str();
#ifdef VC_DISP
						// not a call of the list model: no result, no begin / end notes
						if(op == "other") { disp.appendListener(otherKey++, CbFn{-1}); continue; }
#endif
						{ std::lock_guard<std::mutex> lk(s.m); s.log.push_back("note " + std::to_string(t) + " begin " + std::to_string(callNo)); }
						struct EndNote { Sched & s; int t; long k; ~EndNote() { std::lock_guard<std::mutex> lk(s.m); s.log.push_back("note " + std::to_string(t) + " end " + std::to_string(k)); } } endNote{s, t, callNo};
						++callNo;
						if(op == "append" || op == "prepend" || op == "insert") {
							long local = localBase[t] + k++;
							tl_payload = local;
							CL::Handle h;
#ifdef VC_DISP
							if(op == "append") h = disp.appendListener(1, CbFn{local});
							else if(op == "prepend") h = disp.prependListener(1, CbFn{local});
							else h = disp.insertListener(1, CbFn{local}, hOf(std::atol(c[1].c_str())));
#else
							if(op == "append") h = list.append(CbFn{local});
							else if(op == "prepend") h = list.prepend(CbFn{local});
							else h = list.insert(CbFn{local}, hOf(std::atol(c[1].c_str())));
#endif
							long gid; { std::lock_guard<std::mutex> lk(s.m); gid = s.gidOf[local]; }
							{ std::lock_guard<std::mutex> lk(hm); handleOfGid[gid] = h; }
							rets[t].push_back("h" + std::to_string(gid));
						}
#ifdef VC_DISP
						else if(op == "remove") rets[t].push_back(disp.removeListener(1, hOf(std::atol(c[1].c_str()))) ? "true" : "false");
						else if(op == "owns") rets[t].push_back(disp.ownsHandle(1, hOf(std::atol(c[1].c_str()))) ? "true" : "false");
						else if(op == "empty") rets[t].push_back(disp.hasAnyListener(1) ? "false" : "true");
#else
						else if(op == "remove") rets[t].push_back(list.remove(hOf(std::atol(c[1].c_str()))) ? "true" : "false");
						else if(op == "owns") rets[t].push_back(list.ownsHandle(hOf(std::atol(c[1].c_str()))) ? "true" : "false");
						else if(op == "empty") rets[t].push_back(list.empty() ? "true" : "false");
#endif
						else if(op == "invoke") {
							std::string v;
							tl_visit = &v;
#ifdef VC_DISP
							disp.dispatch(1, 0);
#else
							list(0);
#endif
							tl_visit = nullptr;
							visits[t].push_back(v);
							rets[t].push_back("unit");
						}
					}
					tl_call = "";
					{
						std::unique_lock<std::mutex> lk(s.m);
						s.st[t] = T_FINISHED;
						s.pickNext();
					}
					tl_tid = -1;
				}
				catch(const AbortRun &) { tl_tid = -1; }
			});
		}
		{
			std::unique_lock<std::mutex> lk(s.m);
			s.pickNext();
			s.cv.wait(lk, [&] { return s.current == -1; });
			s.active = false;
			s.abort = true;
			s.cv.notify_all();
		}
		for(auto & t : th) t.join();
		eventpp::verif_::pointHook() = nullptr;
		g = nullptr;
		std::printf("--- %s\n", r.name.c_str());
		for(auto & l : s.log) std::puts(l.c_str());
		for(int t = 0; t < s.n; ++t) {
			std::string l = "rets " + std::to_string(t) + " :";
			for(auto & x : rets[t]) l += " " + x;
			std::puts(l.c_str());
			for(auto & v : visits[t]) std::printf("visit %d :%s\n", t, v.c_str());
		}
		// final list content (node ids in order) read through head/next, and the backward walk through tail/prev
		std::map<const void *, long> idOfNode;
		for(auto & p : handleOfGid) { auto sp = p.second.lock(); if(sp) idOfNode[sp.get()] = p.first; }
		std::string fl = "final :", bl = "back :";
		int guard = 0;
		for(auto n = list.head; n && guard++ < 100000; n = n->next) fl += " " + std::to_string(idOfNode.count(n.get()) ? idOfNode[n.get()] : -1);
		guard = 0;
		for(auto n = list.tail; n && guard++ < 100000; n = n->previous) bl += " " + std::to_string(idOfNode.count(n.get()) ? idOfNode[n.get()] : -1);
		std::puts(fl.c_str());
		std::puts(bl.c_str());
		std::printf("terminal %d\n", s.terminal ? 1 : 0);
		std::fflush(stdout);
	}
}

#ifdef VC_HSLOT
// variant: first use of a prototype slot of a HeterCallbackList by several threads (Conc/HeterSlot.lean).
// Every thread appends its callbacks (kind void(int)) to ONE heterogeneous list; the steps are the unlocked reads of
// the slot (markers "hl.slot"), the critical section of callbackListListMutex ("map") and the completed append ("app").
#include <eventpp/hetercallbacklist.h>
using HL = eventpp::HeterCallbackList<eventpp::HeterTuple<void(int), void(const std::string &)>, Policies>;
struct SlotCb { long id; void operator()(int) const {} };

static void runSlot(const Run & r) {
	Sched s;
	g = &s;
	s.n = (int)r.progs.size();
	s.st.assign(s.n, T_READY);
	s.timed.assign(s.n, false);
	s.timedOut.assign(s.n, false);
	s.want.assign(s.n, 0);
	s.rng = r.seed * 2654435761ULL + 12345;
	s.spur = 0;
	std::vector<std::vector<std::string>> done(s.n);
	{
		HL hl;
		s.qm2 = &hl.callbackListListMutex;
		eventpp::verif_::pointHook() = &hookPoint;
		std::vector<std::thread> th;
		s.active = true;
		for(int t = 0; t < s.n; ++t) {
			th.emplace_back([&, t]() {
				tl_tid = t; tl_held = 0; tl_heldMap = 0; tl_inPred = false;
				try {
					{
						std::unique_lock<std::mutex> lk(s.m);
						s.cv.wait(lk, [&] { return s.current == t || s.abort; });
						if(s.abort && s.current != t) throw AbortRun();
						s.st[t] = T_RUNNING;
					}
					for(auto & c : r.progs[t]) {
						if(c[0] != "append" || c.size() < 2) continue;
						long id = std::atol(c[1].c_str());
						hl.append(SlotCb{id});
						// the append has returned: one model step (nothing can run between the list's critical section and here)
						g->step("app");
						done[t].push_back(c[1]);
					}
					{
						std::unique_lock<std::mutex> lk(s.m);
						s.st[t] = T_FINISHED;
						s.pickNext();
					}
					tl_tid = -1;
				}
				catch(const AbortRun &) { tl_tid = -1; }
			});
		}
		{
			std::unique_lock<std::mutex> lk(s.m);
			s.pickNext();
			s.cv.wait(lk, [&] { return s.current == -1; });
			s.active = false;
			s.abort = true;
			s.cv.notify_all();
		}
		for(auto & t : th) t.join();
		eventpp::verif_::pointHook() = nullptr;
		g = nullptr;
		std::printf("--- %s\n", r.name.c_str());
		for(auto & l : s.log) std::puts(l.c_str());
		for(int t = 0; t < s.n; ++t) {
			std::string l = "done " + std::to_string(t) + " :";
			for(auto & x : done[t]) l += " " + x;
			std::puts(l.c_str());
		}
		std::string fl = "final :";
		hl.forEach<void(int)>([&fl](const std::function<void(int)> & cb) { const SlotCb * p = cb.target<SlotCb>(); fl += " " + std::to_string(p ? p->id : -1); });
		std::puts(fl.c_str());
		std::printf("terminal %d\n", s.terminal ? 1 : 0);
		std::fflush(stdout);
	}
}
#define runOne runSlot
#endif

int main() {
	std::string line;
	Run cur;
	bool have = false;
	while(std::getline(std::cin, line)) {
		std::istringstream is(line);
		std::string w; is >> w;
		if(w == "---") { if(have) runOne(cur); cur = Run(); is >> cur.name; have = true; }
		else if(w == "seed") is >> cur.seed;
		else if(w == "setup") { std::string c; while(is >> c) cur.setup.push_back(c); }
		else if(w == "thread") {
			// calls separated by ';' : append | prepend | insert H | remove H | owns H | empty | invoke
			std::vector<std::vector<std::string>> p; std::vector<std::string> c; std::string tok;
			while(is >> tok) { if(tok == ";") { if(!c.empty()) p.push_back(c); c.clear(); } else c.push_back(tok); }
			if(!c.empty()) p.push_back(c);
			cur.progs.push_back(p);
		}
	}
	if(have) runOne(cur);
	return 0;
}
