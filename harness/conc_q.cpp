// H-conc: controlled-scheduler harness for eventpp::EventQueue (C06, C07, C11).
//
// The queue is instantiated with GeneralThreading<VMutex, VAtomic, VCondVar>.  Exactly one real
// thread runs at a time (baton); a thread gives the baton back right before every micro-step of the
// Lean model Conc/Queue.lean: the unlocked `queueList.empty()` reads (EVENTPP_VERIF_POINT markers),
// every access to the two atomic counters, every acquisition of queueListMutex, notify_one, parking,
// each listener / predicate call.  The global order of the performed steps is logged
// (`step <tid> <tag> <choice>`); the Lean driver (mode `conc`) replays exactly that order on the
// model and the results / final state are compared.
//
// input:  one run per `--- name` section:
//   seed <n>          schedule seed
//   spur <permille>   probability of a spurious wake-up / time-out choice
//   thread <call> <call> ...     calls: enq proc one ifE ifO untE untO take peek clear empty wait waitfor dqnb dqne dqnc dqna
//                                (ifE / ifO: processIf declining even / odd event ids;
//                                 untE / untO: processUntil stopping at the first even / odd event id)
#include <eventpp/eventqueue.h>
#include <atomic>
#include <condition_variable>
#include <cstdio>
#include <iostream>
#include <map>
#include <mutex>
#include <sstream>
#include <string>
#include <thread>
#include <vector>
#include <functional>
#include <chrono>

struct AbortRun {};

struct Sched;
static Sched * g = nullptr;
static thread_local int tl_tid = -1;
static thread_local bool tl_inPred = false;
static thread_local int tl_held = 0;          // interesting+other mutexes held by this thread
static thread_local const char * tl_call = ""; // current call kind
static thread_local long tl_payload = -1;      // payload of the enqueue in progress

enum TState { T_RUNNING, T_READY, T_WANT_LOCK, T_PARKED, T_WOKEN, T_FINISHED };

struct Sched {
	std::mutex m;
	std::condition_variable cv;
	int n = 0;
	int current = -1;               // who holds the baton (-1: main)
	bool active = false;
	bool abort = false;
	bool terminal = false;          // nobody can run, somebody is parked
	std::vector<TState> st;
	std::vector<bool> timed;        // parked in waitFor
	std::vector<bool> timedOut;
	const void * qm = nullptr;      // address of queueListMutex
	bool qmHeld = false;
	const void * ec = nullptr;
	const void * nc = nullptr;
	unsigned long long rng = 1;
	int spur = 20;                  // permille
	std::vector<std::string> log;
	long nextGid = 0;
	std::map<long, long> gidOf;     // payload -> global event id (splice order)

	unsigned next() { rng = rng * 6364136223846793005ULL + 1442695040888963407ULL; return (unsigned)(rng >> 33); }

	bool enabled(int t) const {
		switch(st[t]) {
		case T_READY: return true;
		case T_WANT_LOCK: case T_WOKEN: return !qmHeld;
		default: return false;
		}
	}

	// called with m held by the thread giving up the baton; chooses who runs next
	void pickNext() {
		for(;;) {
			std::vector<int> en, parked;
			for(int t = 0; t < n; ++t) { if(enabled(t)) en.push_back(t); if(st[t] == T_PARKED) parked.push_back(t); }
			// scheduler choices on parked waiters: spurious wake-up, time-out
			if(!parked.empty() && (int)(next() % 1000) < spur) {
				int w = parked[next() % parked.size()];
				if(timed[w] && (next() & 1)) { timedOut[w] = true; log.push_back("step " + std::to_string(w) + " timeout 1"); }
				else log.push_back("step " + std::to_string(w) + " spurious 0");
				st[w] = T_WOKEN;
				continue;
			}
			if(en.empty()) {
				bool unfinished = false;
				for(int t = 0; t < n; ++t) if(st[t] != T_FINISHED) unfinished = true;
				terminal = unfinished;
				current = -1;         // back to main
				cv.notify_all();
				return;
			}
			current = en[next() % en.size()];
			cv.notify_all();
			return;
		}
	}

	// give up the baton in state `s`, come back when scheduled
	void switchOut(TState s) {
		std::unique_lock<std::mutex> lk(m);
		st[tl_tid] = s;
		pickNext();
		cv.wait(lk, [&] { return current == tl_tid || abort; });
		if(abort && current != tl_tid) throw AbortRun();
		st[tl_tid] = T_RUNNING;
	}

	void step(const char * tag, long ch = 0) {
		std::lock_guard<std::mutex> lk(m);
		log.push_back("step " + std::to_string(tl_tid) + " " + tag + " " + std::to_string(ch));
	}
};

// a model micro-step is about to be performed by this thread
static void yieldPoint() { g->switchOut(T_READY); }
static bool schedulable() { return g && g->active && tl_tid >= 0 && (tl_held == 0 || tl_inPred); }

struct VMutex {
	bool held = false;
	void lock() {
		if(g && g->active && tl_tid >= 0 && (const void *)this == g->qm) {
			g->switchOut(T_WANT_LOCK);   // resumed only when the mutex is free
			{ std::lock_guard<std::mutex> lk(g->m); g->qmHeld = true; }
			held = true; ++tl_held;
			// the enqueue splice assigns the global event id (the model numbers events in splice order)
			if(std::string(tl_call) == "enq" && tl_payload >= 0) { g->gidOf[tl_payload] = g->nextGid++; tl_payload = -1; }
			g->step("cs");
			return;
		}
		if(held) { std::fprintf(stderr, "VMutex: uninstrumented mutex contended\n"); std::abort(); }
		held = true; ++tl_held;
	}
	void unlock() {
		held = false; --tl_held;
		if(g && (const void *)this == g->qm) { std::lock_guard<std::mutex> lk(g->m); g->qmHeld = false; }
	}
	bool try_lock() { if(held) return false; lock(); return true; }
};

template <typename T>
struct VAtomic {
	T value;
	VAtomic() : value() {}
	VAtomic(T v) : value(v) {}
	const char * name() const {
		if(g && (const void *)this == g->ec) return "ec";
		if(g && (const void *)this == g->nc) return "nc";
		return nullptr;
	}
	void pre(const char * op) const {
		const char * nm = name();
		if(nm && schedulable()) { yieldPoint(); g->step((std::string(nm) + op).c_str()); }
	}
	T load(std::memory_order = std::memory_order_seq_cst) const { pre(".load"); return value; }
	void store(T v, std::memory_order = std::memory_order_seq_cst) { pre(".store"); value = v; }
	T exchange(T v, std::memory_order = std::memory_order_seq_cst) { pre(".xchg"); T o = value; value = v; return o; }
	T operator++() {
		// a decrement/increment inside a critical section of queueListMutex is part of that model step
		pre("++"); return ++value;
	}
	T operator--() { pre("--"); return --value; }
};

struct VCondVar {
	void notify_one() {
		if(!(g && g->active && tl_tid >= 0)) return;
		if(schedulable()) yieldPoint();
		long ch = 0;
		{
			std::lock_guard<std::mutex> lk(g->m);
			std::vector<int> parked;
			for(int t = 0; t < g->n; ++t) if(g->st[t] == T_PARKED) parked.push_back(t);
			if(!parked.empty()) { ch = g->next() % parked.size(); g->st[parked[ch]] = T_WOKEN; }
			g->log.push_back("step " + std::to_string(tl_tid) + " notify " + std::to_string(ch));
		}
	}
	void notify_all() { notify_one(); }

	template <typename Lock>
	void park(Lock & lock, bool isTimed) {
		yieldPoint();                       // the model's waitPark step: atomically unlock and block
		lock.mutex()->held = false; --tl_held;
		{
			std::lock_guard<std::mutex> lk(g->m);
			g->qmHeld = false;
			g->timed[tl_tid] = isTimed;
			g->log.push_back("step " + std::to_string(tl_tid) + " park 0");
		}
		g->switchOut(T_PARKED);             // resumed only after a notify / spurious wake-up / time-out, with the mutex free
		{ std::lock_guard<std::mutex> lk(g->m); g->qmHeld = true; }
		lock.mutex()->held = true; ++tl_held;
		g->step("cs");                      // the model's `woken` step: re-acquire the mutex
	}

	template <typename Lock, typename Pred>
	void wait(Lock & lock, Pred pred) {
		for(;;) {
			tl_inPred = true; bool p = pred(); tl_inPred = false;
			if(p) return;
			park(lock, false);
		}
	}

	template <typename Lock, typename Rep, typename Period, typename Pred>
	bool wait_for(Lock & lock, const std::chrono::duration<Rep, Period> & d, Pred pred) {
		// the caller's time-out must arrive unchanged (the harness always passes 1500 microseconds): a truncated
		// duration makes waitFor give up before its time-out
		if(std::chrono::duration_cast<std::chrono::nanoseconds>(d).count() != 1500000LL) {
			std::lock_guard<std::mutex> lk(g->m);
			g->log.push_back("note " + std::to_string(tl_tid) + " waitfor-duration-altered " + std::to_string((long long)std::chrono::duration_cast<std::chrono::nanoseconds>(d).count()));
		}
		for(;;) {
			tl_inPred = true; bool p = pred(); tl_inPred = false;
			if(p) return true;
			park(lock, true);
			bool to;
			{ std::lock_guard<std::mutex> lk(g->m); to = g->timedOut[tl_tid]; g->timedOut[tl_tid] = false; }
			if(to) { tl_inPred = true; bool r = pred(); tl_inPred = false; return r; }
		}
	}
};

struct Policies {
	using Threading = eventpp::GeneralThreading<VMutex, VAtomic, VCondVar>;
};

// payload of the homogeneous variants: converts from / to long; a copy or move of a queued payload made by peekEvent
// while the queue mutex is NOT held is a step of its own ("peek-copy-unlocked"): the model has no such step - peekEvent
// reads the front event inside its critical section - so the replay reports it
struct Pay {
	long v;
	Pay(long x = 0) : v(x) {}
	static void touch() {
		if(g && g->active && tl_tid >= 0 && tl_held == 0 && std::string(tl_call) == "peek") { yieldPoint(); g->step("peek-copy-unlocked"); }
	}
	Pay(const Pay & o) : v(o.v) { touch(); }
	Pay(Pay && o) noexcept : v(o.v) { touch(); }
	Pay & operator=(const Pay & o) { touch(); v = o.v; return *this; }
	Pay & operator=(Pay && o) noexcept { touch(); v = o.v; return *this; }
	operator long() const { return v; }
};
#ifdef VQ_HETER
// the heterogeneous queue has the same synchronisation skeleton (Conc/Queue.lean models both): the same runs
// are replayed on the same model; calls it does not have (processUntil, takeEvent, peekEvent, DisableQueueNotify)
// are not generated for this variant.  A second prototype is present so that slots are re-typed.
#include <eventpp/hetereventqueue.h>
using Queue = eventpp::HeterEventQueue<int, eventpp::HeterTuple<void(long), void(const std::string &)>, Policies>;
#elif defined(VQ_INCLUDE)
// the event is part of the prototype: enqueue(1, payload) goes through the OTHER enqueue overload (event included)
using Queue = eventpp::EventQueue<int, void(int, Pay), Policies>;
#else
using Queue = eventpp::EventQueue<int, void(Pay), Policies>;
#endif
#ifdef VQ_INCLUDE
#define CBARGS int, long payload
#define PAYLOAD_IDX 1
#else
#define CBARGS long payload
#define PAYLOAD_IDX 0
#endif

static void hookPoint(const char * tag) {
	// only the queue's markers are micro-steps of Conc/Queue.lean (the callback-list markers are for C03)
	if(tag[0] == 'q' && schedulable()) { yieldPoint(); g->step(tag); }
}

struct Run {
	std::string name;
	unsigned long long seed = 1;
	int spur = 20;
	std::vector<std::vector<std::string>> progs;
};

static void runOne(const Run & r) {
	Sched s;
	g = &s;
	s.n = (int)r.progs.size();
	s.st.assign(s.n, T_READY);
	s.timed.assign(s.n, false);
	s.timedOut.assign(s.n, false);
	s.rng = r.seed * 2654435761ULL + 12345;
	s.spur = r.spur;
	std::vector<std::vector<std::string>> rets(s.n);
	std::vector<std::string> consumed;   // "<gid> <how> <tid>" in consumption order
	{
		Queue q;
		s.qm = &q.queueListMutex;
		s.ec = &q.queueEmptyCounter;
		s.nc = &q.queueNotifyCounter;
		q.appendListener(1, [&](CBARGS) {
			// a dispatch is one model step (for processIf / processUntil the predicate call is the step)
			std::string call = tl_call;
			if(call == "proc" || call == "one") { yieldPoint(); g->step("cb"); }
			std::lock_guard<std::mutex> lk(s.m);
			consumed.push_back(std::to_string(s.gidOf[payload]) + " dispatched " + std::to_string(tl_tid));
			s.log.push_back("note " + std::to_string(tl_tid) + " dispatched " + std::to_string(s.gidOf[payload]));
		});
		eventpp::verif_::pointHook() = &hookPoint;
		std::vector<std::thread> th;
		s.active = true;
		for(int t = 0; t < s.n; ++t) {
			th.emplace_back([&, t]() {
				tl_tid = t; tl_held = 0; tl_inPred = false;
				try {
					{   // wait for the first scheduling
						std::unique_lock<std::mutex> lk(s.m);
						s.cv.wait(lk, [&] { return s.current == t || s.abort; });
						if(s.abort && s.current != t) throw AbortRun();
						s.st[t] = T_RUNNING;
					}
					long k = 0;
#ifndef VQ_HETER
					std::vector<std::unique_ptr<Queue::DisableQueueNotify>> dqn;
#endif
					for(auto & c : r.progs[t]) {
						tl_call = c.c_str();
						// call boundaries in the global order of the run (only the thread that holds the baton runs), for the
						// oracles that are evaluated on the implementation's own trace (C11)
						auto mark = [&](const std::string & what) { std::lock_guard<std::mutex> lk(s.m); s.log.push_back("mark " + std::to_string(t) + " " + what); };
						mark("begin " + c);
						struct MarkEnd { decltype(mark) & m; std::vector<std::string> & r; size_t n0; const std::string & c; long pay; Sched & s;
							~MarkEnd() { if(r.size() > n0) { std::string x = "end " + c + " " + r.back(); if(c == "enq") { long g; { std::lock_guard<std::mutex> lk(s.m); g = s.gidOf.count(pay) ? s.gidOf[pay] : -1; } x += " " + std::to_string(g); } m(x); } } }
							markEnd{mark, rets[t], rets[t].size(), c, (long)(t * 1000 + k), s};
						if(c == "enq") { tl_payload = t * 1000 + k; q.enqueue(1, (long)(t * 1000 + k)); ++k; rets[t].push_back("unit"); }
						else if(c == "proc") rets[t].push_back(q.process() ? "true" : "false");
						else if(c == "one") rets[t].push_back(q.processOne() ? "true" : "false");
						else if(c == "ifE" || c == "ifO") {
							bool keepOdd = c == "ifO";
							bool res = q.processIf([&](CBARGS) -> bool {
								yieldPoint(); g->step("pred");
								long gid; { std::lock_guard<std::mutex> lk(s.m); gid = s.gidOf[payload]; }
								bool keep = keepOdd ? (gid % 2 == 1) : (gid % 2 == 0);
								return !keep;
							});
							rets[t].push_back(res ? "true" : "false");
						}
#ifndef VQ_HETER
						else if(c == "untE" || c == "untO") {
							bool stopOdd = c == "untO";
							bool res = q.processUntil([&](CBARGS) -> bool {
								yieldPoint(); g->step("pred");
								long gid; { std::lock_guard<std::mutex> lk(s.m); gid = s.gidOf[payload]; }
								// true = stop here: this event and everything behind it go back to the queue
								return stopOdd ? (gid % 2 == 1) : (gid % 2 == 0);
							});
							rets[t].push_back(res ? "true" : "false");
						}
						else if(c == "take") {
							Queue::QueuedEvent ev;
							bool res = q.takeEvent(&ev);
							if(res) {
								std::lock_guard<std::mutex> lk(s.m);
								consumed.push_back(std::to_string(s.gidOf[std::get<PAYLOAD_IDX>(ev.arguments)]) + " taken " + std::to_string(t));
								s.log.push_back("note " + std::to_string(t) + " taken " + std::to_string(s.gidOf[std::get<PAYLOAD_IDX>(ev.arguments)]));
							}
							rets[t].push_back(res ? "true" : "false");
						}
						else if(c == "peek") { Queue::QueuedEvent ev; rets[t].push_back(q.peekEvent(&ev) ? "true" : "false"); }
						else if(c == "dqnb") { dqn.emplace_back(new Queue::DisableQueueNotify(&q)); rets[t].push_back("unit"); }
						else if(c == "dqne") { if(!dqn.empty()) dqn.pop_back(); rets[t].push_back("unit"); }
						// a COPY of the newest live object is one more live object (for the model: another dqnb)
						else if(c == "dqnc") { if(dqn.empty()) dqn.emplace_back(new Queue::DisableQueueNotify(&q)); else dqn.emplace_back(new Queue::DisableQueueNotify(*dqn.back())); rets[t].push_back("unit"); }
						// a temporary assigned to the newest live object: the temporary comes and goes, the count is what it was
						// (for the model: dqnb followed by dqne, hence two results)
						else if(c == "dqna") { if(dqn.empty()) { Queue::DisableQueueNotify tmp(&q); } else { *dqn.back() = Queue::DisableQueueNotify(&q); } rets[t].push_back("unit"); rets[t].push_back("unit"); }
#endif
						else if(c == "clear") { q.clearEvents(); rets[t].push_back("unit"); }
						else if(c == "empty") rets[t].push_back(q.emptyQueue() ? "true" : "false");
						else if(c == "wait") { q.wait(); rets[t].push_back("unit"); }
						else if(c == "waitfor") rets[t].push_back(q.waitFor(std::chrono::microseconds(1500)) ? "true" : "false");
						else { std::lock_guard<std::mutex> lk(s.m); s.log.push_back("note " + std::to_string(t) + " unsupported-call " + c); }
					}
					tl_call = "";
					// objects still alive at the end of the program are destroyed now (not part of the program)
					s.active = s.active; // (no-op)
					{
						std::unique_lock<std::mutex> lk(s.m);
						s.st[t] = T_FINISHED;
						s.pickNext();
					}
					// leftover DisableQueueNotify objects must not run the scheduler: drop them after the run
					tl_tid = -1;
				}
				catch(const AbortRun &) { tl_tid = -1; }
			});
		}
		{
			std::unique_lock<std::mutex> lk(s.m);
			s.pickNext();
			s.cv.wait(lk, [&] { return s.current == -1; });
			// the run is over: everybody finished, or nobody can run
			s.active = false;
			s.abort = true;
			s.cv.notify_all();
		}
		for(auto & t : th) t.join();
		eventpp::verif_::pointHook() = nullptr;
		g = nullptr;
		// final state
		std::printf("--- %s\n", r.name.c_str());
		for(auto & l : s.log) std::puts(l.c_str());
		for(int t = 0; t < s.n; ++t) {
			std::string l = "rets " + std::to_string(t) + " :";
			for(auto & x : rets[t]) l += " " + x;
			std::puts(l.c_str());
		}
		std::string ql = "queue :";
#ifdef VQ_HETER
		for(auto it = q.queueList.begin(); it != q.queueList.end(); ++it)
			ql += " " + std::to_string(s.gidOf[std::get<0>(it->template get<Queue::QueuedItem<std::tuple<long>>>().arguments)]);
#else
		for(auto it = q.queueList.begin(); it != q.queueList.end(); ++it) ql += " " + std::to_string(s.gidOf[std::get<PAYLOAD_IDX>(it->get().arguments)]);
#endif
		std::puts(ql.c_str());
		std::printf("counters %d %d\n", (int)q.queueEmptyCounter.value, (int)q.queueNotifyCounter.value);
		for(auto & c : consumed) std::printf("consumed %s\n", c.c_str());
		std::string pl = "parked :";
		for(int t = 0; t < s.n; ++t) if(s.st[t] == T_PARKED || s.st[t] == T_WOKEN) pl += " " + std::to_string(t);
		std::puts(pl.c_str());
		std::printf("terminal %d\n", s.terminal ? 1 : 0);
		std::fflush(stdout);
	}
}

int main() {
	std::string line;
	Run cur;
	bool have = false;
	while(std::getline(std::cin, line)) {
		std::istringstream is(line);
		std::string w; is >> w;
		if(w == "---") { if(have) runOne(cur); cur = Run(); is >> cur.name; have = true; }
		else if(w == "seed") is >> cur.seed;
		else if(w == "spur") is >> cur.spur;
		else if(w == "thread") { std::vector<std::string> p; std::string c; while(is >> c) p.push_back(c); cur.progs.push_back(p); }
	}
	if(have) runOne(cur);
	return 0;
}
