// H-fault (C09): for every operation of a fixed catalogue, in generated states, make the k-th
// allocation / the k-th user-code point (callback copy, callback call, payload copy, payload move,
// predicate call, filter call) throw, for every k until the operation completes unfaulted.
// After each injection print: what the caller saw, the state, the ledger, and the result of a fixed
// follow-up; tools/reg_c09.py checks them against the property.
//
// input: lines  `state <seed>`  (build the state with that seed) ; everything else is enumerated here.
#include <eventpp/callbacklist.h>
#include <eventpp/eventqueue.h>
#include <eventpp/hetercallbacklist.h>
#include <eventpp/hetereventqueue.h>
#include <eventpp/mixins/mixinfilter.h>
#include <eventpp/utilities/scopedremover.h>
#include <eventpp/utilities/counterremover.h>
#include <eventpp/utilities/conditionalremover.h>
#include <eventpp/utilities/anydata.h>
#include <cstdio>
#include <cstdlib>
#include <iostream>
#include <new>
#include <sstream>
#include <string>
#include <vector>
#include <functional>

// ---------------------------------------------------------------- fault plan
enum Kind { K_ALLOC, K_CBCOPY, K_CBCALL, K_PCOPY, K_PMOVE, K_PRED, K_FILTER, K_NKINDS };
static const char * kindName[] = { "alloc", "cbcopy", "cbcall", "pcopy", "pmove", "pred", "filter" };
static long g_countdown[K_NKINDS];
static long g_fired = 0;
static bool g_armed = false;
struct Fault { int kind; };

static void disarm() { g_armed = false; for(int i = 0; i < K_NKINDS; ++i) g_countdown[i] = -1; }
static void arm(int kind, long k) { disarm(); g_countdown[kind] = k; g_armed = true; g_fired = 0; }
static inline void point(int kind) {
	if(g_armed && g_countdown[kind] >= 0 && g_countdown[kind]-- == 0) { ++g_fired; g_armed = false; throw Fault{kind}; }
}

void * operator new(std::size_t n) {
	if(g_armed && g_countdown[K_ALLOC] >= 0 && g_countdown[K_ALLOC]-- == 0) { ++g_fired; g_armed = false; throw std::bad_alloc(); }
	void * p = std::malloc(n ? n : 1);
	if(!p) throw std::bad_alloc();
	return p;
}
void operator delete(void * p) noexcept { std::free(p); }
void operator delete(void * p, std::size_t) noexcept { std::free(p); }

// ---------------------------------------------------------------- ledger types
static long g_liveCb = 0, g_livePayload = 0, g_bad = 0;
static std::vector<std::string> * g_trace = nullptr;

struct Cb {
	int id; unsigned magic;
	explicit Cb(int i) : id(i), magic(0xC0FFEE) { ++g_liveCb; }
	Cb(const Cb & o) : id(o.id), magic(0xC0FFEE) { point(K_CBCOPY); ++g_liveCb; }
	~Cb() { if(magic != 0xC0FFEE) ++g_bad; magic = 0; --g_liveCb; }
	void operator()(int v) const { point(K_CBCALL); if(g_trace) g_trace->push_back("call " + std::to_string(id) + " " + std::to_string(v)); }
};
struct Payload {
	int v; unsigned magic;
	explicit Payload(int x = 0) : v(x), magic(0xA11CE) { ++g_livePayload; }
	Payload(const Payload & o) : v(o.v), magic(0xA11CE) { point(K_PCOPY); ++g_livePayload; }
	Payload(Payload && o) : v(o.v), magic(0xA11CE) { point(K_PMOVE); ++g_livePayload; }
	Payload & operator=(const Payload & o) { point(K_PCOPY); v = o.v; return *this; }
	Payload & operator=(Payload && o) { point(K_PMOVE); v = o.v; return *this; }
	~Payload() { if(magic != 0xA11CE) ++g_bad; magic = 0; --g_livePayload; }
};
struct PCb {
	int id; unsigned magic;
	explicit PCb(int i) : id(i), magic(0xC0FFEE) { ++g_liveCb; }
	PCb(const PCb & o) : id(o.id), magic(0xC0FFEE) { point(K_CBCOPY); ++g_liveCb; }
	~PCb() { if(magic != 0xC0FFEE) ++g_bad; magic = 0; --g_liveCb; }
	void operator()(const Payload & p) const { point(K_CBCALL); if(g_trace) g_trace->push_back("call " + std::to_string(id) + " " + std::to_string(p.v)); }
};
struct Filt {
	int id;
	bool operator()(const Payload & p) const { point(K_FILTER); return p.v % 7 != 0; }
};

using CL = eventpp::CallbackList<void(int)>;
struct QPol { using Mixins = eventpp::MixinList<eventpp::MixinFilter>; };
using Queue = eventpp::EventQueue<int, void(const Payload &), QPol>;
using HCL = eventpp::HeterCallbackList<eventpp::HeterTuple<void(int), void(const Payload &)>>;
using HQ = eventpp::HeterEventQueue<int, eventpp::HeterTuple<void(const Payload &), void(int)>>;
// the documented use of AnyData: the queue stores an AnyData built from whatever is enqueued (here a Payload, held inline)
using AD = eventpp::AnyData<32>;
using AQ = eventpp::EventQueue<int, void(const AD &)>;

struct Rng { unsigned long long s; unsigned next() { s = s * 6364136223846793005ULL + 1442695040888963407ULL; return (unsigned)(s >> 33); } };

// ---------------------------------------------------------------- worlds
struct World {
	CL list, other;
	std::vector<CL::Handle> h;
	Queue q;
	HCL hl, hother;
	HQ hq;
	AQ aq;
	std::unique_ptr<eventpp::ScopedRemover<CL>> rem;
	std::vector<std::string> trace;

	explicit World(unsigned long long seed) {
		Rng r{seed * 77 + 5};
		// the sizes of the two callback lists are enumerated, not drawn: any 12 consecutive seeds cover every pair
		// (destination of 0..3 callbacks, source of 0..2), among them the empty destination with a source of two
		int n = (int)(seed % 4);
		for(int i = 0; i < n; ++i) h.push_back(list.append(Cb(10 + i)));
		if(n > 1 && r.next() % 2) list.remove(h[r.next() % n]);
		int m = (int)((seed / 4) % 3);
		for(int i = 0; i < m; ++i) other.append(Cb(20 + i));
		int nl = 1 + r.next() % 2;
		for(int i = 0; i < nl; ++i) q.appendListener(1, PCb(30 + i));
		if(r.next() % 2) q.appendListener(2, PCb(35));
		if(r.next() % 2) q.appendFilter(Filt{1});
		int ne = r.next() % 4;
		for(int i = 0; i < ne; ++i) q.enqueue(1 + (int)(r.next() % 2), Payload((int)(r.next() % 20)));
		if(ne > 1 && r.next() % 2) { q.processOne(); }   // leaves a recycled slot
		hl.append(Cb(40)); hl.append(PCb(41));
		// the source of hl.assign: callbacks under the first prototype, the second, or both (a copy that fails in a
		// later slot must not leave earlier slots of the destination overwritten)
		{
			unsigned k = r.next() % 4;
			if(k & 1) hother.append(Cb(42));
			if(k & 2) { hother.append(PCb(43)); if(r.next() % 2) hother.append(PCb(44)); }
			if(k == 3 && r.next() % 2) hother.append(Cb(45));
		}
		rem.reset(new eventpp::ScopedRemover<CL>(list));
		if(r.next() % 2) rem->append(Cb(50));
		// heterogeneous queue: listeners of both prototypes, pending events of both prototypes, maybe a recycled slot
		hq.appendListener(1, PCb(70));
		if(r.next() % 2) hq.appendListener(1, Cb(71));
		{
			int nh = r.next() % 4;
			for(int i = 0; i < nh; ++i) { if(r.next() % 2) hq.enqueue(1, Payload(40 + i)); else hq.enqueue(1, 80 + i); }
			if(nh > 1 && r.next() % 2) hq.processOne();
		}
		// AnyData queue: a listener, pending events, maybe a recycled slot
		aq.appendListener(1, [](const AD & d) { point(K_CBCALL); if(g_trace) g_trace->push_back("acall " + std::to_string(d.get<Payload>().v)); });
		{
			int na = r.next() % 3;
			for(int i = 0; i < na; ++i) aq.enqueue(1, Payload(60 + i));
			if(na > 1 && r.next() % 2) aq.processOne();
		}
	}

	std::string dump() {
		std::string s = "L:";
		list.forEach([&s](const CL::Callback & cb) { s += " " + std::to_string(cb.target<Cb>() ? cb.target<Cb>()->id : -1); });
		s += " | O:";
		other.forEach([&s](const CL::Callback & cb) { s += " " + std::to_string(cb.target<Cb>() ? cb.target<Cb>()->id : -1); });
		s += " | Q1:";
		q.forEach(1, [&s](const Queue::Callback & cb) { s += " " + std::to_string(cb.target<PCb>()->id); });
		s += " Q2:";
		q.forEach(2, [&s](const Queue::Callback & cb) { s += " " + std::to_string(cb.target<PCb>()->id); });
		s += " | pending:";
		for(auto it = q.queueList.begin(); it != q.queueList.end(); ++it) {
			if(it->empty()) s += " <empty-slot>";
			else s += " " + std::to_string(it->get().event) + ":" + std::to_string(std::get<0>(it->get().arguments).v);
		}
		bool freeBad = false;
		for(auto it = q.freeList.begin(); it != q.freeList.end(); ++it) if(!it->empty()) freeBad = true;
		s += std::string(" | ec=") + std::to_string((int)q.queueEmptyCounter.load()) + " nc=" + std::to_string((int)q.queueNotifyCounter.load())
			+ " emptyQueue=" + (q.emptyQueue() ? "1" : "0") + (freeBad ? " FREE-SLOT-OCCUPIED" : "");
		int hn = 0;
		std::string hids;
		hl.forEach<void(int)>([&](const std::function<void(int)> & cb) { ++hn; hids += "," + std::to_string(cb.target<Cb>() ? cb.target<Cb>()->id : -1); });
		hids += ";";
		hl.forEach<void(const Payload &)>([&](const std::function<void(const Payload &)> & cb) { ++hn; hids += "," + std::to_string(cb.target<PCb>() ? cb.target<PCb>()->id : -1); });
		// heterogeneous queue: listeners per prototype, pending events (prototype index : value), counters
		{
			std::string hs = " | HQ:";
			hq.forEach<void(const Payload &)>(1, [&hs](const std::function<void(const Payload &)> & cb) { hs += " " + std::to_string(cb.target<PCb>() ? cb.target<PCb>()->id : -1); });
			hs += " ;";
			hq.forEach<void(int)>(1, [&hs](const std::function<void(int)> & cb) { hs += " " + std::to_string(cb.target<Cb>() ? cb.target<Cb>()->id : -1); });
			hs += " | hpending:";
			for(auto it = hq.queueList.begin(); it != hq.queueList.end(); ++it) {
				if(it->empty()) { hs += " <empty-slot>"; continue; }
				const auto & b = it->template get<HQ::QueuedItemBase>();
				if(b.callableIndex == 0) hs += " P" + std::to_string(std::get<0>(it->template get<HQ::QueuedItem<std::tuple<Payload>>>().arguments).v);
				else hs += " I" + std::to_string(std::get<0>(it->template get<HQ::QueuedItem<std::tuple<int>>>().arguments));
			}
			bool hfreeBad = false;
			for(auto it = hq.freeList.begin(); it != hq.freeList.end(); ++it) if(!it->empty()) hfreeBad = true;
			hs += std::string(" | hec=") + std::to_string((int)hq.queueEmptyCounter.load()) + " hempty=" + (hq.emptyQueue() ? "1" : "0") + (hfreeBad ? " HFREE-SLOT-OCCUPIED" : "");
			s += hs;
		}
		{
			std::string as = " | apending:";
			for(auto it = aq.queueList.begin(); it != aq.queueList.end(); ++it) {
				if(it->empty()) { as += " <empty-slot>"; continue; }
				const AD & d = std::get<0>(it->get().arguments);
				as += d.isType<Payload>() ? " " + std::to_string(d.get<Payload>().v) : " NOT-A-PAYLOAD";
			}
			bool afreeBad = false;
			for(auto it = aq.freeList.begin(); it != aq.freeList.end(); ++it) if(!it->empty()) afreeBad = true;
			as += std::string(" | aec=") + std::to_string((int)aq.queueEmptyCounter.load()) + " aempty=" + (aq.emptyQueue() ? "1" : "0") + (afreeBad ? " AFREE-SLOT-OCCUPIED" : "");
			s += as;
		}
		s += " | HL=" + std::to_string(hn) + hids + " | remItems=" + std::to_string(rem ? rem->itemList.size() : 0);
		return s;
	}

	// fixed follow-up: everything must still work
	std::string followUp() {
		trace.clear(); g_trace = &trace;
		std::string s;
		try {
			auto hh = list.append(Cb(90));
			list(5);
			s += std::string("remove=") + (list.remove(hh) ? "1" : "0");
			q.enqueue(1, Payload(99));
			s += std::string(" process=") + (q.process() ? "1" : "0");
			s += std::string(" empty=") + (q.emptyQueue() ? "1" : "0");
			s += std::string(" waitFor=") + (q.waitFor(std::chrono::milliseconds(0)) ? "1" : "0");
			hl(3);
			hq.enqueue(1, Payload(98));
			s += std::string(" hprocess=") + (hq.process() ? "1" : "0");
			s += std::string(" hempty=") + (hq.emptyQueue() ? "1" : "0");
			aq.enqueue(1, Payload(97));
			s += std::string(" aprocess=") + (aq.process() ? "1" : "0");
			s += std::string(" aempty=") + (aq.emptyQueue() ? "1" : "0");
		}
		catch(...) { s += " FOLLOWUP-THREW"; }
		g_trace = nullptr;
		for(auto & t : trace) s += " [" + t + "]";
		return s;
	}
};

struct Op { const char * name; bool strong; std::function<void(World &)> run; };

static std::vector<Op> catalogue() {
	return {
		{ "cl.append", true, [](World & w) { Cb c(60); w.list.append(c); } },
		{ "cl.prepend", true, [](World & w) { Cb c(61); w.list.prepend(c); } },
		{ "cl.insert", true, [](World & w) { Cb c(62); w.list.insert(c, w.h.empty() ? CL::Handle() : w.h[0]); } },
		{ "cl.assign", true, [](World & w) { w.list = w.other; } },
		{ "cl.copyctor", true, [](World & w) { CL copy(w.list); (void)copy; } },
		{ "cl.invoke", false, [](World & w) { g_trace = &w.trace; w.list(7); g_trace = nullptr; } },
		{ "q.appendListener", true, [](World & w) { PCb c(63); w.q.appendListener(1, c); } },
		{ "q.appendListenerNewEvent", true, [](World & w) { PCb c(64); w.q.appendListener(9, c); } },
		{ "q.enqueue", true, [](World & w) { Payload p(55); w.q.enqueue(1, p); } },
		{ "q.enqueueTemp", true, [](World & w) { w.q.enqueue(2, Payload(56)); } },
		{ "q.peekEvent", true, [](World & w) { Queue::QueuedEvent ev; w.q.peekEvent(&ev); } },
		{ "q.dispatch", false, [](World & w) { Payload p(57); g_trace = &w.trace; w.q.dispatch(1, p); g_trace = nullptr; } },
		{ "q.process", false, [](World & w) { g_trace = &w.trace; w.q.process(); g_trace = nullptr; } },
		{ "q.processOne", false, [](World & w) { g_trace = &w.trace; w.q.processOne(); g_trace = nullptr; } },
		{ "q.processIf", false, [](World & w) { g_trace = &w.trace; w.q.processIf([](const Payload & p) { point(K_PRED); return p.v % 2 == 0; }); g_trace = nullptr; } },
		{ "q.copyctor", true, [](World & w) { Queue copy(w.q); (void)copy; } },
		{ "rem.append", true, [](World & w) { Cb c(65); w.rem->append(c); } },
		{ "counter.append", true, [](World & w) { Cb c(66); eventpp::counterRemover(w.list).append(c, 2); } },
		{ "conditional.append", true, [](World & w) { Cb c(67); eventpp::conditionalRemover(w.list).append(c, []() { return false; }); } },
		{ "q.prependListener", true, [](World & w) { PCb c(69); w.q.prependListener(1, c); } },
		{ "q.processUntil", false, [](World & w) { g_trace = &w.trace; w.q.processUntil([](const Payload & p) { point(K_PRED); return p.v % 3 == 0; }); g_trace = nullptr; } },
		{ "q.takeEvent", false, [](World & w) { Queue::QueuedEvent ev; w.q.takeEvent(&ev); } },
		{ "q.clearEvents", false, [](World & w) { w.q.clearEvents(); } },
		{ "hq.appendListener", true, [](World & w) { PCb c(72); w.hq.appendListener(1, c); } },
		{ "hq.enqueue", true, [](World & w) { Payload p(58); w.hq.enqueue(1, p); } },
		{ "hq.enqueueTemp", true, [](World & w) { w.hq.enqueue(1, Payload(59)); } },
		{ "hq.process", false, [](World & w) { g_trace = &w.trace; w.hq.process(); g_trace = nullptr; } },
		{ "hq.processOne", false, [](World & w) { g_trace = &w.trace; w.hq.processOne(); g_trace = nullptr; } },
		{ "hq.processIf", false, [](World & w) { g_trace = &w.trace; w.hq.processIf([](const Payload & p) { point(K_PRED); return p.v % 2 == 0; }); g_trace = nullptr; } },
		{ "aq.enqueue", true, [](World & w) { Payload p(75); w.aq.enqueue(1, p); } },
		{ "aq.enqueueTemp", true, [](World & w) { w.aq.enqueue(1, Payload(76)); } },
		// (AnyData has no assignment: peekEvent / takeEvent do not exist for this queue)
		{ "aq.process", false, [](World & w) { g_trace = &w.trace; w.aq.process(); g_trace = nullptr; } },
		{ "hl.append", true, [](World & w) { Cb c(68); w.hl.append(c); } },
		{ "hl.assign", true, [](World & w) { w.hl = w.hother; } },
	};
}

int main(int argc, char ** argv) {
	disarm();
	std::string only = argc > 1 ? argv[1] : "";
	std::string line;
	auto ops = catalogue();
	while(std::getline(std::cin, line)) {
		std::istringstream is(line);
		std::string w0; unsigned long long seed = 0; is >> w0 >> seed;
		if(w0 != "state") continue;
		for(auto & op : ops) {
			if(!only.empty() && only != op.name) continue;
			std::string before, followBefore;
			long cb0, p0;
			{
				World w(seed);
				before = w.dump(); cb0 = g_liveCb; p0 = g_livePayload;
				followBefore = w.followUp();
			}
			std::printf("--- %llu %s %s\nbefore %s\nledger-before %ld %ld\nfollow-before %s\n", seed, op.name, op.strong ? "strong" : "basic",
				before.c_str(), cb0, p0, followBefore.c_str());
			std::fflush(stdout);
			for(int kind = 0; kind < K_NKINDS; ++kind) {
				for(long k = 0; k < 200; ++k) {
					World w(seed);
					long cbS = g_liveCb, pS = g_livePayload;
					std::string seen = "completed";
					arm(kind, k);
					try { op.run(w); }
					catch(const Fault & f) { seen = std::string("threw Fault:") + kindName[f.kind]; }
					catch(const std::bad_alloc &) { seen = "threw bad_alloc"; }
					catch(...) { seen = "threw other"; }
					bool fired = g_fired > 0;
					disarm(); g_trace = nullptr;
					if(!fired) break;          // the operation has fewer than k+1 fault points of this kind
					std::string after = w.dump();
					long cbA = g_liveCb - cbS, pA = g_livePayload - pS;
					std::string tr; for(auto & t : w.trace) tr += " [" + t + "]";
					std::printf("inject %s %ld : %s\nafter %s\nledger-delta %ld %ld bad %ld\ntrace%s\nfollow-after %s\n", kindName[kind], k, seen.c_str(),
						after.c_str(), cbA, pA, g_bad, tr.c_str(), w.followUp().c_str());
					std::fflush(stdout);
				}
			}
		}
	}
	std::printf("final-ledger %ld %ld %ld\n", g_liveCb, g_livePayload, g_bad);
	return 0;
}
