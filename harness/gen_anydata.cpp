// H-gen for eventpp::AnyData (C17): Blob<N> payloads of every size around the capacity, moved
// through AnyData objects and through an EventQueue, with a ledger of live payload objects.
// VH_CAP = the template argument of AnyData.
#include <eventpp/utilities/anydata.h>
#include <eventpp/eventqueue.h>
#include <iostream>
#include <sstream>
#include <map>
#include <memory>
#include <vector>
#include <string>

#ifndef VH_CAP
#define VH_CAP 16
#endif

static long g_live = 0, g_bad = 0;

template <int N>
struct Blob {
	unsigned char b[N];
	explicit Blob(int v) { for(int i = 0; i < N; ++i) b[i] = (unsigned char)(v + i); ++g_live; }
	Blob(const Blob & o) { for(int i = 0; i < N; ++i) b[i] = o.b[i]; ++g_live; }
	Blob(Blob && o) noexcept { for(int i = 0; i < N; ++i) { b[i] = o.b[i]; o.b[i] = 255; } ++g_live; }
	~Blob() { --g_live; }
	// value, or -1 if moved from, -2 if the bytes are not what was stored
	int value() const {
		if(b[0] == 255) return -1;
		for(int i = 1; i < N; ++i) if(b[i] != (unsigned char)(b[0] + i)) return -2;
		return b[0];
	}
};
static_assert(sizeof(Blob<1>) == 1 && sizeof(Blob<17>) == 17 && sizeof(Blob<64>) == 64, "Blob<N> is N bytes");

// like Blob, but the move constructor is not noexcept (a hand-written `T(T &&)`): an AnyData must still MOVE it
template <int N>
struct BlobX {
	unsigned char b[N];
	explicit BlobX(int v) { for(int i = 0; i < N; ++i) b[i] = (unsigned char)(v + i); ++g_live; }
	BlobX(const BlobX & o) { for(int i = 0; i < N; ++i) b[i] = o.b[i]; ++g_live; }
	BlobX(BlobX && o) { for(int i = 0; i < N; ++i) { b[i] = o.b[i]; o.b[i] = 255; } ++g_live; }
	~BlobX() { --g_live; }
	int value() const {
		if(b[0] == 255) return -1;
		for(int i = 1; i < N; ++i) if(b[i] != (unsigned char)(b[0] + i)) return -2;
		return b[0];
	}
};

// move-only payload holding shared ownership (non-trivial members)
template <int N>
struct Owner {
	std::shared_ptr<int> p;
	unsigned char pad[N - sizeof(std::shared_ptr<int>)];
	explicit Owner(int v) : p(std::make_shared<int>(v)) { ++g_live; }
	Owner(Owner && o) noexcept : p(std::move(o.p)) { ++g_live; }
	Owner(const Owner &) = delete;
	~Owner() { --g_live; }
	int value() const { return p ? *p : -1; }
};

// trivially copyable payloads; two DIFFERENT types for each size (isType must tell them apart)
template <int N, int Tag>
struct Pod {
	unsigned char b[N];
	explicit Pod(int v) { for(int i = 0; i < N; ++i) b[i] = (unsigned char)(v + i); }
	int value() const {
		for(int i = 1; i < N; ++i) if(b[i] != (unsigned char)(b[0] + i)) return -2;
		return b[0];
	}
};
static_assert(std::is_trivially_copyable<Pod<8, 0>>::value && sizeof(Pod<24, 1>) == 24, "Pod<N,Tag> is a trivially copyable N byte type");

using Any = eventpp::AnyData<VH_CAP>;

// type table: tag -> (constructor, reader, isType)
struct TypeOps {
	int size;
	std::function<Any *(int)> make;
	std::function<Any *(int)> makeConst;   // from a const lvalue (copyable types; move-only types: as make)
	std::function<int(const Any &)> read;
	std::function<bool(const Any &)> isType;
};

template <typename T>
static typename std::enable_if<std::is_copy_constructible<T>::value, Any *>::type makeFromConst(int v) { const T tmp(v); return new Any(tmp); }
template <typename T>
static typename std::enable_if<!std::is_copy_constructible<T>::value, Any *>::type makeFromConst(int v) { return new Any(T(v)); }

template <typename T>
static TypeOps opsFor() {
	return TypeOps{
		(int)sizeof(T),
		[](int v) { return new Any(T(v)); },
		[](int v) { return makeFromConst<T>(v); },
		[](const Any & a) { return a.template get<T>().value(); },
		[](const Any & a) { return a.template isType<T>(); }
	};
}

static std::vector<TypeOps> types() {
	return {
		opsFor<Blob<1>>(), opsFor<Blob<2>>(), opsFor<Blob<7>>(), opsFor<Blob<8>>(), opsFor<Blob<15>>(), opsFor<Blob<16>>(),
		opsFor<Blob<17>>(), opsFor<Blob<23>>(), opsFor<Blob<24>>(), opsFor<Blob<25>>(), opsFor<Blob<31>>(), opsFor<Blob<32>>(),
		opsFor<Blob<33>>(), opsFor<Blob<63>>(), opsFor<Blob<64>>(), opsFor<Blob<65>>(), opsFor<Blob<80>>(),
		opsFor<Owner<16>>(), opsFor<Owner<24>>(), opsFor<Owner<40>>(), opsFor<Owner<72>>(),
		// from here on: trivially copyable types (not ledger-counted by themselves, see podHeld)
		opsFor<Pod<8, 0>>(), opsFor<Pod<8, 1>>(), opsFor<Pod<16, 0>>(), opsFor<Pod<16, 1>>(), opsFor<Pod<24, 0>>(), opsFor<Pod<24, 1>>(),
		// ledger-counted again: copyable types whose move constructor is not noexcept
		opsFor<BlobX<4>>(), opsFor<BlobX<12>>(), opsFor<BlobX<40>>()
	};
}
static const int FIRST_POD = 21, END_POD = 27;

struct SlotRec { Any * any; int ty; const void * addr; bool movedFrom; };

int main(int argc, char ** argv) {
	auto T = types();
	if(argc > 1 && std::string(argv[1]) == "--types") {
		for(size_t i = 0; i < T.size(); ++i) std::cout << i << " " << T[i].size << "\n";
		std::cout << "largedata " << sizeof(eventpp::anydata_internal_::LargeData) << "\n";
		return 0;
	}
	std::string line;
	std::map<int, SlotRec> slots;
	using Queue = eventpp::EventQueue<int, void(const Any &), eventpp::DefaultPolicies>;
	std::unique_ptr<Queue> q;
	std::vector<int> qtypes; // type tags of queued payloads, FIFO
	auto reset = [&]() {
		for(auto & s : slots) delete s.second.any;
		slots.clear();
		q.reset(new Queue());
		qtypes.clear();
		q->appendListener(1, [&](const Any & a) {
			int ty = qtypes.front(); qtypes.erase(qtypes.begin());
			std::cout << "val " << T[ty].read(a) << " type " << (T[ty].isType(a) ? 1 : 0) << "\n";
		});
	};
	reset();
	while(std::getline(std::cin, line)) {
		std::istringstream is(line);
		std::string op; is >> op;
		if(op.empty()) continue;
		if(op == "---") {
			reset();
			if(g_live != 0) { std::cout << "leak-at-reset " << g_live << "\n"; g_live = 0; }
			std::string nm; is >> nm; std::cout << "--- " << nm << "\n"; continue;
		}
		if(op == "new" || op == "newc") {
			int a, ty, size, v; is >> a >> ty >> size >> v;
			if(slots.count(a)) std::cout << "skip\n";
			else { Any * p = op == "new" ? T[ty].make(v) : T[ty].makeConst(v); slots[a] = SlotRec{p, ty, p->getAddress(), false}; std::cout << "ok\n"; }
		}
		else if(op == "husk") {
			// what a moved-from AnyData still holds: a moved-from object if the object is stored inline, nothing otherwise
			int a; is >> a;
			const int effCap0 = (int)(VH_CAP > sizeof(eventpp::anydata_internal_::LargeData) ? VH_CAP : sizeof(eventpp::anydata_internal_::LargeData));
			if(!slots.count(a) || !slots[a].movedFrom) std::cout << "skip\n";
			else if(T[slots[a].ty].size > effCap0) std::cout << "husk none\n";
			else if(slots[a].ty >= FIRST_POD && slots[a].ty < END_POD) std::cout << "husk moved\n";   // trivially copyable: moving is copying
			else { int v = T[slots[a].ty].read(*slots[a].any); if(v == -1) std::cout << "husk moved\n"; else std::cout << "husk intact-" << v << "\n"; }
		}
		else if(op == "move") {
			int b, a; is >> b >> a;
			if(slots.count(b) || !slots.count(a)) std::cout << "skip\n";
			else {
				SlotRec & s = slots[a];
				Any * p = new Any(std::move(*s.any));
				slots[b] = SlotRec{p, s.ty, s.movedFrom ? nullptr : p->getAddress(), s.movedFrom};
				s.movedFrom = true;
				std::cout << "ok\n";
			}
		}
		else if(op == "get") {
			int a; is >> a;
			if(!slots.count(a) || slots[a].movedFrom) std::cout << "skip\n";
			else {
				SlotRec & s = slots[a];
				if(s.any->getAddress() != s.addr) std::cout << "addrchanged\n";
				else std::cout << "val " << T[s.ty].read(*s.any) << "\n";
			}
		}
		else if(op == "istype") {
			int a, ty; is >> a >> ty;
			if(!slots.count(a) || slots[a].movedFrom) std::cout << "skip\n";
			else std::cout << "bool " << (T[ty].isType(*slots[a].any) ? 1 : 0) << "\n";
		}
		else if(op == "del") {
			int a; is >> a;
			if(!slots.count(a)) std::cout << "skip\n";
			else { delete slots[a].any; slots.erase(a); std::cout << "ok\n"; }
		}
		else if(op == "qput") {
			// move the AnyData into a queued event (several internal moves), source becomes moved-from
			int a; is >> a;
			if(!slots.count(a) || slots[a].movedFrom) std::cout << "skip\n";
			else { qtypes.push_back(slots[a].ty); q->enqueue(1, std::move(*slots[a].any)); slots[a].movedFrom = true; std::cout << "ok\n"; }
		}
		else if(op == "qproc") { q->process(); std::cout << "ok\n"; }
		else { std::cout << "bad-op\n"; continue; }
		// Pod objects have no counting constructors: every AnyData that was given one (slot, husk or queued) holds one
		// (a moved-from AnyData still holds a - moved-from - object only if the object is stored inline)
		const int effCap = (int)(VH_CAP > sizeof(eventpp::anydata_internal_::LargeData) ? VH_CAP : sizeof(eventpp::anydata_internal_::LargeData));
		long podHeld = 0;
		for(auto & sl : slots) if(sl.second.ty >= FIRST_POD && sl.second.ty < END_POD && (!sl.second.movedFrom || T[sl.second.ty].size <= effCap)) ++podHeld;
		for(int ty : qtypes) if(ty >= FIRST_POD && ty < END_POD) ++podHeld;
		std::cout << "live " << (g_live + podHeld) << "\n";
	}
	reset();
	q.reset();
	std::cout << "final-live " << g_live << "\n";
	return 0;
}
