// H-gen for eventpp::AnyId (C18): builds ids from values of mixed types with a digester reduced
// modulo a small K (forced collisions), prints every pair's ==, <, hash agreement and which
// listeners an ordered / hashed dispatcher reaches.  VH_STORAGE: 0 EmptyAnyStorage, 1 comparable.
#include <eventpp/utilities/anyid.h>
#include <eventpp/eventdispatcher.h>
#include <iostream>
#include <sstream>
#include <string>
#include <vector>
#include <map>

#ifndef VH_STORAGE
#define VH_STORAGE 1
#endif
#ifndef VH_K
#define VH_K 5
#endif

template <typename T>
struct ModDigest {
	// not idempotent on purpose: digesting an id once more (an id taken for a raw value) gives a different digest
	std::size_t operator()(const T & v) const { return (std::hash<T>()(v) * 7 + 3) % VH_K; }
};

// a value storage supporting both == and <: remembers (type tag, canonical text)
struct CmpStorage {
	int type = -1;
	long code = 0;
	CmpStorage() {}
	CmpStorage(const int & v) : type(0), code(v) {}
	CmpStorage(const long & v) : type(2), code(v) {}
	CmpStorage(const std::string & v) : type(1), code(std::stol(v.substr(1))) {}
	long key() const { return (long)type * 100000 + code; }
};
inline bool operator==(const CmpStorage & a, const CmpStorage & b) { return a.key() == b.key(); }
inline bool operator<(const CmpStorage & a, const CmpStorage & b) { return a.key() < b.key(); }

#if VH_STORAGE
using Storage = CmpStorage;
#else
using Storage = eventpp::EmptyAnyStorage;
#endif
using Id = eventpp::AnyId<ModDigest, Storage>;

struct MapPolicies {
	template <typename Key, typename T> using Map = std::map<Key, T>;
};

static Id mk(int type, long val) {
	if(type == 0) return Id((int)val);
	if(type == 2) return Id((long)val);
	return Id(std::string("s") + std::to_string(val));
}

int main() {
	std::string line;
	std::vector<std::pair<int, long>> vals;
	std::string name;
	auto flush = [&]() {
		if(name.empty()) return;
		std::cout << "--- " << name << "\n";
		std::vector<Id> ids;
		for(auto & v : vals) ids.push_back(mk(v.first, v.second));
		for(size_t i = 0; i < ids.size(); ++i) {
			long vcode = VH_STORAGE ? ((long)vals[i].first * 100000 + vals[i].second) : 0;
			std::cout << "dg " << i << " " << ids[i].getDigest() << " " << vcode << "\n";
		}
		std::hash<Id> hasher;
		for(size_t i = 0; i < ids.size(); ++i)
			for(size_t j = 0; j < ids.size(); ++j) {
				bool e = ids[i] == ids[j];
				std::cout << "eq " << i << " " << j << " " << e << "\n";
				std::cout << "lt " << i << " " << j << " " << (ids[i] < ids[j]) << "\n";
				if(e) std::cout << "heq " << i << " " << j << " " << (hasher(ids[i]) == hasher(ids[j])) << "\n";
			}
		// dispatchers: one listener per id position; which listeners does dispatching id i reach?
		std::vector<int> fired;
		eventpp::EventDispatcher<Id, void(), MapPolicies> dm;
		eventpp::EventDispatcher<Id, void()> du;
		for(size_t j = 0; j < ids.size(); ++j) {
			dm.appendListener(ids[j], [&fired, j]() { fired.push_back((int)j); });
			du.appendListener(ids[j], [&fired, j]() { fired.push_back((int)j); });
		}
		for(size_t i = 0; i < ids.size(); ++i) {
			fired.clear(); dm.dispatch(ids[i]);
			std::cout << "fire_map " << i << " :"; for(int f : fired) std::cout << " " << f; std::cout << "\n";
			fired.clear(); du.dispatch(ids[i]);
			std::cout << "fire_umap " << i << " :"; for(int f : fired) std::cout << " " << f; std::cout << "\n";
		}
		vals.clear();
	};
	while(std::getline(std::cin, line)) {
		std::istringstream is(line);
		std::string t; is >> t;
		if(t == "---") { flush(); is >> name; }
		else if(t == "id") { int ty; long v; is >> ty >> v; vals.push_back({ty, v}); }
	}
	flush();
	return 0;
}
