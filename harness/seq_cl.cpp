// H-seq for eventpp::CallbackList: runs scripts (harness/common.h protocol) against the real
// library as it is in /repo now, printing the canonical event/state lines that the Lean
// driver prints for the Model and the Spec, plus raw pointer dumps for the invariant checker.
//
// Built by tools/check.py with -fno-access-control (reads private members, never writes them
// except `setcounter`, which places currentCounter near the wrap as the unit tests do).
#include "common.h"
#include <eventpp/callbacklist.h>
#include <eventpp/utilities/eventutil.h>
#include <eventpp/utilities/counterremover.h>
#include <eventpp/utilities/conditionalremover.h>
#include <eventpp/utilities/scopedremover.h>

#ifndef VH_THREADING
#define VH_THREADING eventpp::SingleThreading
#endif

struct Policies { using Threading = VH_THREADING; };

using namespace vh;

struct World;
static World * g_world = nullptr;

// ledger: every CbFn object alive (the library keeps exactly one per attached callback at quiescence)
static long g_liveCb = 0, g_cbDoubleDtor = 0;
struct CbFn {
	long cb;
	long hid;
	int list;
	unsigned magic;
	CbFn(long cb_, long hid_, int list_) : cb(cb_), hid(hid_), list(list_), magic(0xC0FFEE) { ++g_liveCb; }
	CbFn(const CbFn & o) : cb(o.cb), hid(o.hid), list(o.list), magic(0xC0FFEE) { ++g_liveCb; }
	CbFn & operator=(const CbFn &) = default;
	~CbFn() { if(magic != 0xC0FFEE) ++g_cbDoubleDtor; else { magic = 0xDEAD; --g_liveCb; } }
	void operator()(int arg) const;
};

using CL = eventpp::CallbackList<void(int), Policies>;
using SR = eventpp::ScopedRemover<CL>;

// condition of a ConditionalRemover: a function of the trigger's argument; counts its evaluations
struct CondFn {
	long m, r;
	std::shared_ptr<long> evals;
	bool operator()(int arg) const { ++*evals; return m > 0 && (arg % m) == r; }
};

// the CbFn inside a stored callable: plain, or wrapped by CounterRemover / ConditionalRemover
// the same condition with a second, parameterless call operator (a functor usable as a condition for several
// prototypes): the trigger's arguments are there, so the overload that takes them is the one to evaluate
static long g_condWithoutArgs = 0;
struct CondBoth {
	long m, r;
	std::shared_ptr<long> evals;
	bool operator()(int arg) const { ++*evals; return m > 0 && (arg % m) == r; }
	bool operator()() const { ++g_condWithoutArgs; return false; }
};

static CbFn * fnOf(CL::Callback & cb);

struct World {
	const Script * script;
	std::vector<std::unique_ptr<CL>> lists;
	std::vector<CL::Handle> handles;     // by node id
	std::map<const void *, long> idOf;    // node address -> id (only for live registration)
	std::map<long, long> calls;           // cb -> number of calls so far
	std::vector<std::string> out;

	explicit World(const Script & s) : script(&s) {
		for(int i = 0; i < s.nlists; ++i) lists.emplace_back(new CL());
	}

	CL::Handle handleOf(long h) { return (h >= 0 && (size_t)h < handles.size()) ? handles[h] : CL::Handle(); }

	void reg(const CL::Handle & h) {
		auto sp = h.lock();
		idOf[sp.get()] = (long)handles.size();
		handles.push_back(h);
	}

	void res(const std::string & r) { out.push_back("ev res " + r); }

	void runBeh(int list, long hid, long cb, int arg, bool en, bool & verdict) {
		out.push_back("ev call " + std::to_string(list) + " " + std::to_string(hid) + " " + std::to_string(cb)
			+ " " + std::to_string(arg) + " " + (en ? "1" : "0"));
		long nth = calls[cb]++;
		const BehEntry * e = findBeh(*script, cb, nth);
		verdict = true;
		if(e) {
			for(auto & c : e->cmds) exec(substSelf(c, hid));
			verdict = e->verdict;
		}
	}

	bool busy(int l) const { return busyCount.count(l) && busyCount.at(l) > 0; }
	std::map<int, int> busyCount;

	// the handle is currently a callback of another list: using it on list l is outside every
	// property; the command is skipped (the Lean machines skip it by the same rule)
	bool foreign(int l, long h) {
		auto sp = handleOf(h).lock();
		if(!sp || sp->counter == 0) return false;
		for(int o = 0; o < (int)lists.size(); ++o) {
			if(o == l) continue;
			auto node = lists[o]->head;
			while(node) { if(node == sp) return true; node = node->next; }
		}
		return false;
	}

	void exec(const Cmd & c) {
		const std::string & op = c.op();
		if((op == "insert" && foreign((int)c.n(1), c.n(3))) || ((op == "remove" || op == "owns") && foreign((int)c.n(1), c.n(2)))) {
			res("unit");
			return;
		}
		if(op == "append" || op == "prepend" || op == "insert") {
			int l = (int)c.n(1);
			long id = (long)handles.size();
			CbFn fn{c.n(2), id, l};
			CL::Handle h;
			if(op == "append") h = lists[l]->append(fn);
			else if(op == "prepend") h = lists[l]->prepend(fn);
			else h = lists[l]->insert(fn, handleOf(c.n(3)));
			reg(h);
			res("h" + std::to_string(id));
		}
		else if(op == "counted" || op == "conditional") {
			int l = (int)c.n(1);
			long id = (long)handles.size();
			CbFn fn{c.n(2), id, l};
			CL::Handle h;
			if(op == "counted") h = eventpp::counterRemover(*lists[l]).append(fn, (int)c.n(3));
			else if(id % 2) h = eventpp::conditionalRemover(*lists[l]).append(fn, CondBoth{c.n(3), c.n(4), std::make_shared<long>(0)});
			else h = eventpp::conditionalRemover(*lists[l]).append(fn, CondFn{c.n(3), c.n(4), std::make_shared<long>(0)});
			reg(h);
			res("h" + std::to_string(id));
		}
		else if(op.size() > 1 && op[0] == 'r' && op != "remove") { execRemover(c); }
		else if(op == "remove") { res(lists[c.n(1)]->remove(handleOf(c.n(2))) ? "true" : "false"); }
		else if(op == "owns") { res(lists[c.n(1)]->ownsHandle(handleOf(c.n(2))) ? "true" : "false"); }
		else if(op == "empty") { res(lists[c.n(1)]->empty() ? "true" : "false"); }
		else if(op == "invoke") {
			int l = (int)c.n(1);
			++busyCount[l];
			(*lists[l])((int)c.n(2));
			--busyCount[l];
			res("unit");
		}
		else if(op == "enum") {
			int l = (int)c.n(1);
			int arg = (int)c.n(2);
			++busyCount[l];
			bool r = lists[l]->forEachIf([this, l, arg](const CL::Handle & h, CL::Callback & cb) -> bool {
				(void)h;
				CbFn * fn = fnOf(cb);
				bool v = true;
				runBeh(l, fn->hid, fn->cb, arg, true, v);
				return v;
			});
			--busyCount[l];
			res(r ? "true" : "false");
		}
		else if(op == "copy" || op == "move" || op == "swap") {
			int a = (int)c.n(1), b = (int)c.n(2);
			bool rejected = busy(a) || busy(b) || (op != "swap" && a == b);
			if(!rejected) {
				if(op == "copy") { *lists[a] = *lists[b]; relabel(a); }
				else if(op == "move") { *lists[a] = std::move(*lists[b]); retarget(a); }
				else { using std::swap; swap(*lists[a], *lists[b]); retarget(a); retarget(b); }
			}
			res("unit");
		}
		else if(op == "setcounter") {
			CL & l = *lists[c.n(1)];
			unsigned int target = (unsigned int)(0u - (unsigned int)c.n(2)); // 2^32 - k
			if(l.currentCounter.load() < target) l.currentCounter.store(target);
			res("unit");
		}
		else { out.push_back("bad-op " + op); }
	}

	// ---- ScopedRemover commands (top level only) ----
	// removers are constructed over storage that held other bytes before (C20: no result may depend on what the
	// memory held; e.g. a mutex member that is neither named in the constructor nor self-initialising)
	struct SRDel { void operator()(SR * p) const { p->~SR(); ::operator delete((void *)p); } };
	template <typename ...A> static SR * newSR(A && ...a) {
		void * mem = ::operator new(sizeof(SR));
		std::memset(mem, 0xA5, sizeof(SR));
		return new (mem) SR(std::forward<A>(a)...);
	}
	std::map<int, std::unique_ptr<SR, SRDel>> rems;
	std::map<int, int> rtarget;
	void execRemover(const Cmd & c) {
		const std::string & op = c.op();
		int r = (int)c.n(1);
		bool has = rems.count(r) > 0;
		if(op == "rnew") {
			if(has) { res("skip"); return; }
			rems[r].reset(newSR(*lists[c.n(2)])); rtarget[r] = (int)c.n(2); res("unit");
		}
		else if(op == "rappend" || op == "rprepend" || op == "rinsert") {
			if(!has) { res("skip"); return; }
			long id = (long)handles.size();
			CbFn fn{c.n(2), id, rtarget[r]};
			CL::Handle h;
			if(op == "rappend") h = rems[r]->append(fn);
			else if(op == "rprepend") h = rems[r]->prepend(fn);
			else h = rems[r]->insert(fn, handleOf(c.n(3)));
			reg(h);
			res("h" + std::to_string(id));
		}
		else if(op == "rremove" || op == "rremoveeq") { if(!has) { res("skip"); return; } res(rems[r]->remove(handleOf(c.n(2))) ? "true" : "false"); }
		// (a callback list has no events: removal "for another event" exists for dispatcher / queue targets only, seq_rem.cpp)
		else if(op == "rremoveother") { res(has ? "false" : "skip"); }
		else if(op == "rremoveheld") {
			// the user holds the node (handle.lock() is public API), detaches the listener directly, then asks the
			// remover: "reports whether it was attached" must be false although the remover still tracked the handle
			auto hd = handleOf(c.n(3));
			auto keep = hd.lock();
			lists[c.n(2)]->remove(hd);
			if(!has) { res("skip"); return; }
			res(rems[r]->remove(hd) ? "true" : "false");
		}
		else if(op == "rreset") { if(!has) { res("skip"); return; } rems[r]->reset(); res("unit"); }
		else if(op == "rtarget") { if(!has) { res("skip"); return; } rems[r]->setCallbackList(*lists[c.n(2)]); rtarget[r] = (int)c.n(2); res("unit"); }
		else if(op == "rmovector") {
			int src = (int)c.n(2);
			if(has || !rems.count(src)) { res("skip"); return; }
			rems[r].reset(newSR(std::move(*rems[src]))); rtarget[r] = rtarget[src]; res("unit");
		}
		else if(op == "rmoveassign") {
			int src = (int)c.n(2);
			if(!has || !rems.count(src)) { res("skip"); return; }
			if(r != src) { *rems[r] = std::move(*rems[src]); rtarget[r] = rtarget[src]; }
			res("unit");
		}
		else if(op == "rswap") {
			int b = (int)c.n(2);
			if(!has || !rems.count(b)) { res("skip"); return; }
			rems[r]->swap(*rems[b]); std::swap(rtarget[r], rtarget[b]); res("unit");
		}
		else if(op == "rdestroy") { if(!has) { res("skip"); return; } rems.erase(r); res("unit"); }
		else out.push_back("bad-op " + op);
	}

	// after a copy: the clones are new nodes; give them ids in list order and fix the ids the
	// copied functors carry
	void relabel(int l) {
		auto node = lists[l]->head;
		while(node) {
			long id = (long)handles.size();
			CbFn * fn = fnOf(node->callback);
			fn->hid = id; fn->list = l;
			reg(CL::Handle(node));
			node = node->next;
		}
	}
	void retarget(int l) {
		auto node = lists[l]->head;
		while(node) { fnOf(node->callback)->list = l; node = node->next; }
	}

	long idOfNode(const void * p) { auto it = idOf.find(p); return it == idOf.end() ? -1 : it->second; }

	void state() {
		for(int l = 0; l < (int)lists.size(); ++l) {
			std::string s = "state " + std::to_string(l) + " :";
			auto node = lists[l]->head;
			int guard = 0;
			while(node && guard++ < 100000) {
				CbFn * fn = fnOf(node->callback);
				s += " " + std::to_string(idOfNode(node.get())) + ":" + std::to_string(fn->cb);
				node = node->next;
			}
			out.push_back(s);
			// raw dump: head tail cur | id prev next counter cb (every node that can still be locked)
			std::string d = "dump " + std::to_string(l) + " " + opt(lists[l]->head.get()) + " " + opt(lists[l]->tail.get())
				+ " " + std::to_string(lists[l]->currentCounter.load()) + " |";
			out.push_back(d);
		}
		std::string nodes = "nodes";
		for(size_t i = 0; i < handles.size(); ++i) {
			auto sp = handles[i].lock();
			if(!sp) continue;
			nodes += " " + std::to_string(i) + "," + opt(sp->previous.get()) + "," + opt(sp->next.get()) + ","
				+ std::to_string(sp->counter) + "," + std::to_string(fnOf(sp->callback)->cb);
		}
		out.push_back(nodes);
		out.push_back("ledger " + std::to_string(g_liveCb) + " " + std::to_string(g_cbDoubleDtor));
	}
	std::string opt(const void * p) { return p ? std::to_string(idOfNode(p)) : std::string("-"); }
};

static CbFn * fnOf(CL::Callback & cb) {
	if(CbFn * f = cb.target<CbFn>()) return f;
	using CW = eventpp::CounterRemover<CL>::Wrapper<CbFn>;
	if(CW * w = cb.target<CW>()) return &w->data->listener;
	using DW = eventpp::ConditionalRemover<CL>::ItemByCondition<CbFn, CondFn>;
	if(DW * w = cb.target<DW>()) return &w->data->listener;
	using DW2 = eventpp::ConditionalRemover<CL>::ItemByCondition<CbFn, CondBoth>;
	if(DW2 * w = cb.target<DW2>()) return &w->data->listener;
	return nullptr;
}

void CbFn::operator()(int arg) const {
	bool v;
	g_world->runBeh(list, hid, cb, arg, false, v);
}

int main() {
	auto scripts = readScripts(std::cin);
	for(auto & s : scripts) {
		g_liveCb = 0; g_cbDoubleDtor = 0;
		World w(s);
		g_world = &w;
		std::printf("--- %s\n", s.name.c_str());
		for(auto & c : s.dos) {
			w.exec(c);
			w.state();
			for(auto & l : w.out) std::puts(l.c_str());
			w.out.clear();
			std::fflush(stdout);
		}
		g_world = nullptr;
	}
	return 0;
}
