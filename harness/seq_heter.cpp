// H-seq / H-gen for the heterogeneous classes (C14): HeterEventQueue (which contains the dispatcher and
// the per-prototype callback lists) over prototypes with argument types of different sizes.
// Prints the measured "callable" matrices (CanInvoke) and the prototype index the library selects, then
// runs scripts:  hlisten K cbkind cb | hremove K h | hdispatch K argkind v | henqueue K argkind v |
//                hprocess | hprocessone | hprocessif predkind m r   (predicate true iff v % m == r)
#include <eventpp/hetereventqueue.h>
#include <iostream>
#include <sstream>
#include <string>
#include <vector>
#include <map>

static long g_liveBig = 0;
struct Big {
	long v; std::string s; std::vector<int> pad;
	explicit Big(long x = 0) : v(x), s("big-" + std::to_string(x) + "-with-a-long-tail-beyond-sso"), pad(7, (int)x) { ++g_liveBig; }
	Big(const Big & o) : v(o.v), s(o.s), pad(o.pad) { ++g_liveBig; }
	Big(Big && o) noexcept : v(o.v), s(std::move(o.s)), pad(std::move(o.pad)) { ++g_liveBig; }
	Big & operator=(const Big &) = default;
	~Big() { --g_liveBig; }
	bool ok() const { return s == "big-" + std::to_string(v) + "-with-a-long-tail-beyond-sso" && pad.size() == 7 && pad[3] == (int)v; }
};

#ifndef VH_ORDER
#define VH_ORDER 0
#endif
#if VH_ORDER == 0
using Protos = eventpp::HeterTuple<void(), void(int), void(const std::string &), void(const Big &), void(long)>;
#elif VH_ORDER == 1
// another listing order: the overlapping prototypes void(long) / void(int) swapped, Big first
using Protos = eventpp::HeterTuple<void(const Big &), void(long), void(), void(int), void(const std::string &)>;
#else
// a prototype taking a non-const lvalue reference, listed before the const one: it is selected by callbacks
// taking Big & or const Big &, and by calls passing a Big lvalue (argument kind 6), never by a temporary
using Protos = eventpp::HeterTuple<void(), void(Big &), void(int), void(const std::string &), void(const Big &)>;
#endif
static const int NP = 5;

using Queue = eventpp::HeterEventQueue<int, Protos>;
using HCL = eventpp::HeterCallbackList<Protos>;   // the stand-alone list of the scripts (event key 7 of the model)
using eventpp::internal_::CanInvoke;
using eventpp::internal_::FindPrototypeByArgs;
using eventpp::internal_::FindPrototypeByCallable;

struct World;
static World * gw = nullptr;
static void called(int key, long hid, long cb, const std::string & val);

// a listener whose callback id ends in 9, called with a value v with v % 4 != 3, enqueues (key, int, v + 1)
// while it runs (Util/HeterSpawn.lean, `harnessSpawn`)
static void maybeSpawn(int key, long cb, long v);
// a callback of the stand-alone list whose id ends in 8 assigns an empty list to it while it runs ("remove everything"):
// the invocation in flight goes on over the callbacks it started on (Util/HeterSpawn.lean, `stepC`)
static void maybeClear(int key, long cb);
// callback kinds
struct K0 { int key; long hid, cb; void operator()() const { called(key, hid, cb, "-"); maybeSpawn(key, cb, 0); maybeClear(key, cb); } };
struct K1 { int key; long hid, cb; void operator()(int v) const { called(key, hid, cb, std::to_string(v)); maybeSpawn(key, cb, v); maybeClear(key, cb); } };
struct K2 { int key; long hid, cb; void operator()(const std::string & v) const { called(key, hid, cb, v); maybeSpawn(key, cb, std::atol(v.c_str() + 1)); maybeClear(key, cb); } };
struct K3 { int key; long hid, cb; void operator()(const Big & v) const { called(key, hid, cb, v.ok() ? "B" + std::to_string(v.v) : "corrupt"); maybeSpawn(key, cb, v.v); maybeClear(key, cb); } };
struct K4 { int key; long hid, cb; void operator()(long v) const { called(key, hid, cb, std::to_string(v)); maybeSpawn(key, cb, v); maybeClear(key, cb); } };
struct K5 { int key; long hid, cb; void operator()(Big & v) const { called(key, hid, cb, v.ok() ? "B" + std::to_string(v.v) : "corrupt"); maybeSpawn(key, cb, v.v); maybeClear(key, cb); } };

template <typename Proto> struct ProtoArgs;
template <typename R, typename ...A> struct ProtoArgs<R(A...)> {
	template <typename C> static constexpr bool callableBy() { return CanInvoke<C, A...>::value; }
};
template <typename List> struct Matrix;
template <typename ...Ps> struct Matrix<eventpp::HeterTuple<Ps...>> {
	template <typename C> static std::string cbRow() { std::string r; bool v[] = { ProtoArgs<Ps>::template callableBy<C>()... }; for(bool b : v) r += b ? " 1" : " 0"; return r; }
	template <typename ...In> static std::string argRow() { std::string r; bool v[] = { CanInvoke<Ps, In...>::value... }; for(bool b : v) r += b ? " 1" : " 0"; return r; }
};
using M = Matrix<Protos>;

struct PredBase { long m, r; bool test(long v) const { return m > 0 && v % m == r; } };
struct F0 : PredBase { bool operator()() const; };
struct F1 : PredBase { bool operator()(int v) const; };
struct F2 : PredBase { bool operator()(const std::string & v) const; };
struct F3 : PredBase { bool operator()(const Big & v) const; };

struct World {
	Queue q;
	std::unique_ptr<Queue> shadow;     // a copy of q taken by `hcopy`: independent of q from then on
	std::vector<Queue::Handle> handles;
	HCL hl;
	std::map<long, HCL::Handle> hlHandles;
	std::vector<std::string> out;
	void res(const std::string & r) { out.push_back("ev res " + r); }
};
static void called(int key, long hid, long cb, const std::string & val) {
	gw->out.push_back("ev call " + std::to_string(key) + " " + std::to_string(hid) + " " + std::to_string(cb) + " " + val);
}
static void maybeSpawn(int key, long cb, long v) {
	if(cb % 10 == 9 && v >= 0 && v % 4 != 3) gw->q.enqueue(key, (int)(v + 1));
}
static void maybeClear(int key, long cb) {
	if(key == 7 && cb % 10 == 8) gw->hl = HCL();
}
static void predCalled(const char * kind, const std::string & val) { gw->out.push_back(std::string("ev pred ") + kind + " " + val); }
bool F0::operator()() const { predCalled("0", "-"); return test(0); }
bool F1::operator()(int v) const { predCalled("1", std::to_string(v)); return test(v); }
bool F2::operator()(const std::string & v) const { predCalled("2", v); return test(std::stol(v.substr(1))); }
bool F3::operator()(const Big & v) const { predCalled("3", v.ok() ? "B" + std::to_string(v.v) : "corrupt"); return test(v.v); }

// listeners of a heterogeneous queue as "key:prototype:handle", in (key, prototype, list) order
template <typename F> static long hidOfFn(const F & cb) {
	if(auto p = cb.template target<K0>()) return p->hid;
	if(auto p = cb.template target<K1>()) return p->hid;
	if(auto p = cb.template target<K2>()) return p->hid;
	if(auto p = cb.template target<K3>()) return p->hid;
	if(auto p = cb.template target<K4>()) return p->hid;
	if(auto p = cb.template target<K5>()) return p->hid;
	return -1;
}
template <typename List> struct ListenerDump;
template <typename ...Ps> struct ListenerDump<eventpp::HeterTuple<Ps...>> {
	// read slot p of the event's heterogeneous list directly (forEach<Prototype> selects a slot by callability, which is
	// not one-to-one when two prototypes accept the same arguments)
	template <typename Proto, typename HL> static int one(const HL & hl, int key, int p, std::string & out) {
		auto base = hl.callbackListList[p];
		if(!base) return 0;
		using CLT = typename HL::template HomoCallbackListType<Proto>;
		auto lst = std::static_pointer_cast<CLT>(base);
		lst->forEach([&](const typename CLT::Callback & cb) {
			out += " " + std::to_string(key) + ":" + std::to_string(p) + ":" + std::to_string(hidOfFn(cb));
		});
		return 0;
	}
	static std::string run(const Queue & qq, int nkeys) {
		std::string out;
		for(int key = 0; key < nkeys; ++key) {
			auto it = qq.eventCallbackListMap.find(key);
			if(it == qq.eventCallbackListMap.end()) continue;
			int p = 0; int dummy[] = { one<Ps>(it->second, key, p++, out)... }; (void)dummy;
		}
		return out;
	}
};

static void printMatrix() {
	std::cout << "protos " << NP << "\n";
	std::cout << "cbrow 0" << M::cbRow<K0>() << " sel " << FindPrototypeByCallable<Protos, K0>::index << "\n";
	std::cout << "cbrow 1" << M::cbRow<K1>() << " sel " << FindPrototypeByCallable<Protos, K1>::index << "\n";
	std::cout << "cbrow 2" << M::cbRow<K2>() << " sel " << FindPrototypeByCallable<Protos, K2>::index << "\n";
	std::cout << "cbrow 3" << M::cbRow<K3>() << " sel " << FindPrototypeByCallable<Protos, K3>::index << "\n";
	std::cout << "cbrow 4" << M::cbRow<K4>() << " sel " << FindPrototypeByCallable<Protos, K4>::index << "\n";
#if VH_ORDER == 2
	std::cout << "cbrow 5" << M::cbRow<K5>() << " sel " << FindPrototypeByCallable<Protos, K5>::index << "\n";
#endif
	std::cout << "argrow 0" << M::argRow<>() << " sel " << FindPrototypeByArgs<Protos>::index << "\n";
	std::cout << "argrow 1" << M::argRow<int>() << " sel " << FindPrototypeByArgs<Protos, int>::index << "\n";
	std::cout << "argrow 2" << M::argRow<std::string>() << " sel " << FindPrototypeByArgs<Protos, std::string>::index << "\n";
	std::cout << "argrow 3" << M::argRow<Big>() << " sel " << FindPrototypeByArgs<Protos, Big>::index << "\n";
	std::cout << "argrow 4" << M::argRow<long>() << " sel " << FindPrototypeByArgs<Protos, long>::index << "\n";
	std::cout << "argrow 5" << M::argRow<short>() << " sel " << FindPrototypeByArgs<Protos, short>::index << "\n";
	std::cout << "argrow 6" << M::argRow<Big &>() << " sel " << FindPrototypeByArgs<Protos, Big &>::index << "\n";
	std::cout << "predrow 0" << M::cbRow<F0>() << "\n";
	std::cout << "predrow 1" << M::cbRow<F1>() << "\n";
	std::cout << "predrow 2" << M::cbRow<F2>() << "\n";
	std::cout << "predrow 3" << M::cbRow<F3>() << "\n";
}

int main(int argc, char ** argv) {
	if(argc > 1 && std::string(argv[1]) == "--matrix") { printMatrix(); return 0; }
	std::string line;
	std::unique_ptr<World> w;
	auto flushOut = [&]() { for(auto & l : w->out) std::cout << l << "\n"; w->out.clear(); };
	while(std::getline(std::cin, line)) {
		std::istringstream is(line);
		std::string op; is >> op;
		if(op.empty()) continue;
		if(op == "---") {
			if(w) { w.reset(); std::cout << "final-big " << g_liveBig << "\n"; }
			std::string nm; is >> nm; std::cout << "--- " << nm << "\n";
			w.reset(new World()); gw = w.get(); continue;
		}
		if(op != "do") continue;
		is >> op;
		if(op == "hlisten") {
			int key, kind; long cb; is >> key >> kind >> cb;
			long hid = (long)w->handles.size();
			Queue::Handle h;
			switch(kind) {
			case 0: h = w->q.appendListener(key, K0{key, hid, cb}); break;
			case 1: h = w->q.appendListener(key, K1{key, hid, cb}); break;
			case 2: h = w->q.appendListener(key, K2{key, hid, cb}); break;
			case 3: h = w->q.appendListener(key, K3{key, hid, cb}); break;
#if VH_ORDER == 2
			case 5: h = w->q.appendListener(key, K5{key, hid, cb}); break;
#endif
			default: h = w->q.appendListener(key, K4{key, hid, cb}); break;
			}
			w->handles.push_back(h);
			w->res("h" + std::to_string(hid));
		}
		else if(op == "hlappend") {
			int kind; long cb; is >> kind >> cb;
			long hid = (long)w->handles.size();
			HCL::Handle h;
			switch(kind) {
			case 0: h = w->hl.append(K0{7, hid, cb}); break;
			case 1: h = w->hl.append(K1{7, hid, cb}); break;
			case 2: h = w->hl.append(K2{7, hid, cb}); break;
			case 3: h = w->hl.append(K3{7, hid, cb}); break;
#if VH_ORDER == 2
			case 5: h = w->hl.append(K5{7, hid, cb}); break;
#endif
			default: h = w->hl.append(K4{7, hid, cb}); break;
			}
			w->hlHandles[hid] = h;
			w->handles.push_back(Queue::Handle());   // keeps the numbering; never handed to the queue
			w->res("h" + std::to_string(hid));
		}
		else if(op == "hlinvoke") {
			int kind; long v; is >> kind >> v;
			switch(kind) {
			case 0: w->hl(); break;
			case 1: w->hl((int)v); break;
			case 2: w->hl(std::string("s") + std::to_string(v)); break;
			case 3: w->hl(Big(v)); break;
			case 4: w->hl((long)v); break;
			case 6: { Big lv(v); w->hl(lv); break; }
			default: w->hl((short)v); break;
			}
			w->res("unit");
		}
		else if(op == "hremove") {
			int key; long h; is >> key >> h;
			bool isHl = w->hlHandles.count(h) != 0;
			if(key == 7) w->res(isHl && w->hl.remove(w->hlHandles[h]) ? "true" : "false");
			else if(isHl) w->res("false");
			else if(h < 0 || (size_t)h >= w->handles.size()) w->res("false");
			else w->res(w->q.removeListener(key, w->handles[h]) ? "true" : "false");
		}
		else if(op == "hdispatch" || op == "henqueue") {
			int key, kind; long v; is >> key >> kind >> v;
			bool d = op == "hdispatch";
			switch(kind) {
			case 0: d ? w->q.dispatch(key) : w->q.enqueue(key); break;
			case 1: d ? w->q.dispatch(key, (int)v) : w->q.enqueue(key, (int)v); break;
			case 2: d ? w->q.dispatch(key, std::string("s") + std::to_string(v)) : w->q.enqueue(key, std::string("s") + std::to_string(v)); break;
			case 3: d ? w->q.dispatch(key, Big(v)) : w->q.enqueue(key, Big(v)); break;
			case 4: d ? w->q.dispatch(key, (long)v) : w->q.enqueue(key, (long)v); break;
			case 6: { Big lv(v); d ? w->q.dispatch(key, lv) : w->q.enqueue(key, lv); break; }
			default: d ? w->q.dispatch(key, (short)v) : w->q.enqueue(key, (short)v); break;
			}
			w->res("unit");
		}
		else if(op == "hprocess") w->res(w->q.process() ? "true" : "false");
		else if(op == "hprocessone") w->res(w->q.processOne() ? "true" : "false");
		else if(op == "hprocessif") {
			int kind; long m, r; is >> kind >> m >> r;
			bool res;
			switch(kind) {
			case 0: { F0 f; f.m = m; f.r = r; res = w->q.processIf(f); break; }
			case 1: { F1 f; f.m = m; f.r = r; res = w->q.processIf(f); break; }
			case 2: { F2 f; f.m = m; f.r = r; res = w->q.processIf(f); break; }
			default: { F3 f; f.m = m; f.r = r; res = w->q.processIf(f); break; }
			}
			w->res(res ? "true" : "false");
		}
		else if(op == "hempty") w->res(w->q.emptyQueue() ? "true" : "false");
		else if(op == "hcopy") { w->shadow.reset(new Queue(w->q)); w->res("unit"); }
		else { w->out.push_back("bad-op " + op); }
		// state: pending events as (key, prototype index), slot discipline, live Big objects
		std::string s = "q :";
		for(auto it = w->q.queueList.begin(); it != w->q.queueList.end(); ++it) {
			if(it->empty()) { s += " <empty-slot>"; continue; }
			const auto & b = it->template get<Queue::QueuedItemBase>();
			s += " " + std::to_string(b.event) + ":" + std::to_string(b.callableIndex);
		}
		w->out.push_back(s);
		bool bad = false; int nfree = 0;
		for(auto it = w->q.freeList.begin(); it != w->q.freeList.end(); ++it) { ++nfree; if(!it->empty()) bad = true; }
		w->out.push_back("slots " + std::to_string(nfree) + (bad ? " slotbad" : "") + " big " + std::to_string(g_liveBig));
		// the copy taken by the last `hcopy` keeps the listeners it had then, whatever happens to the original
		w->out.push_back("shadow :" + (w->shadow ? ListenerDump<Protos>::run(*w->shadow, 2) : std::string()));
		flushOut();
	}
	if(w) { w.reset(); std::cout << "final-big " << g_liveBig << "\n"; }
	return 0;
}
