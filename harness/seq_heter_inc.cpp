// H-seq for the heterogeneous classes in the event-INCLUDED argument passing form (ArgumentPassingIncludeEvent) with a
// std::string event longer than the small-string buffer: the event is itself the first argument of every prototype, and is
// handed to dispatch / enqueue as an rvalue.  Same script language and output format as seq_heter.cpp (driver mode `heter`):
// argument / callback / predicate kind 0 = (event), kind 1 = (event, int).  Every listener and predicate checks that the
// event it receives is intact (a moved-from event shows up as `keybad`).
#include <eventpp/hetereventqueue.h>
#include <iostream>
#include <sstream>
#include <string>
#include <vector>
#include <memory>

struct PolInc { using ArgumentPassingMode = eventpp::ArgumentPassingIncludeEvent; };
using Protos = eventpp::HeterTuple<void(std::string), void(std::string, int)>;
using Queue = eventpp::HeterEventQueue<std::string, Protos, PolInc>;
using eventpp::internal_::CanInvoke;
using eventpp::internal_::FindPrototypeByArgs;
using eventpp::internal_::FindPrototypeByCallable;

static std::string keyStr(int k) { return std::string("an-event-name-longer-than-the-small-string-buffer-") + std::to_string(k); }
static int keyNum(const std::string & s) {
	const std::string p = "an-event-name-longer-than-the-small-string-buffer-";
	if(s.compare(0, p.size(), p) != 0) return -1;
	return std::atoi(s.c_str() + p.size());
}

struct World;
static World * gw = nullptr;
static void called(int key, long hid, long cb, const std::string & got, const std::string & val);
static void predCalled(const char * kind, const std::string & got, const std::string & val);

struct K0 { int key; long hid, cb; void operator()(std::string e) const { called(key, hid, cb, e, "-"); } };
struct K1 { int key; long hid, cb; void operator()(std::string e, int v) const { called(key, hid, cb, e, std::to_string(v)); } };
struct PredBase { long m, r; bool test(long v) const { return m > 0 && v % m == r; } };
struct F0 : PredBase { bool operator()(std::string e) const { predCalled("0", e, "-"); return test(0); } };
struct F1 : PredBase { bool operator()(std::string e, int v) const { predCalled("1", e, std::to_string(v)); return test(v); } };

struct World {
	Queue q;
	std::vector<Queue::Handle> handles;
	std::vector<std::string> out;
	void res(const std::string & r) { out.push_back("ev res " + r); }
};
static void called(int key, long hid, long cb, const std::string & got, const std::string & val) {
	if(keyNum(got) != key) gw->out.push_back("keybad listener-of " + std::to_string(key) + " got '" + got.substr(0, 20) + "'");
	gw->out.push_back("ev call " + std::to_string(key) + " " + std::to_string(hid) + " " + std::to_string(cb) + " " + val);
}
static void predCalled(const char * kind, const std::string & got, const std::string & val) {
	if(keyNum(got) < 0) gw->out.push_back(std::string("keybad predicate got '") + got.substr(0, 20) + "'");
	gw->out.push_back(std::string("ev pred ") + kind + " " + val);
}

template <typename C> static std::string cbRow() {
	return std::string(CanInvoke<C, std::string>::value ? " 1" : " 0") + (CanInvoke<C, std::string, int>::value ? " 1" : " 0");
}
static void printMatrix() {
	std::cout << "protos 2\n";
	std::cout << "cbrow 0" << cbRow<K0>() << " sel " << FindPrototypeByCallable<Protos, K0>::index << "\n";
	std::cout << "cbrow 1" << cbRow<K1>() << " sel " << FindPrototypeByCallable<Protos, K1>::index << "\n";
	std::cout << "argrow 0 1 0 sel " << FindPrototypeByArgs<Protos, std::string>::index << "\n";
	std::cout << "argrow 1 0 1 sel " << FindPrototypeByArgs<Protos, std::string, int>::index << "\n";
	std::cout << "predrow 0" << cbRow<F0>() << "\n";
	std::cout << "predrow 1" << cbRow<F1>() << "\n";
}

int main(int argc, char ** argv) {
	if(argc > 1 && std::string(argv[1]) == "--matrix") { printMatrix(); return 0; }
	std::string line;
	std::unique_ptr<World> w;
	while(std::getline(std::cin, line)) {
		std::istringstream is(line);
		std::string op; is >> op;
		if(op.empty()) continue;
		if(op == "---") {
			if(w) { w.reset(); std::cout << "final-big 0\n"; }
			std::string nm; is >> nm; std::cout << "--- " << nm << "\n";
			w.reset(new World()); gw = w.get(); continue;
		}
		if(op != "do") continue;
		is >> op;
		if(op == "hlisten") {
			int key, kind; long cb; is >> key >> kind >> cb;
			long hid = (long)w->handles.size();
			Queue::Handle h = kind == 0 ? w->q.appendListener(keyStr(key), K0{key, hid, cb}) : w->q.appendListener(keyStr(key), K1{key, hid, cb});
			w->handles.push_back(h);
			w->res("h" + std::to_string(hid));
		}
		else if(op == "hremove") {
			int key; long h; is >> key >> h;
			if(h < 0 || (size_t)h >= w->handles.size()) w->res("false");
			else w->res(w->q.removeListener(keyStr(key), w->handles[h]) ? "true" : "false");
		}
		else if(op == "hdispatch" || op == "henqueue") {
			int key, kind; long v; is >> key >> kind >> v;
			bool d = op == "hdispatch";
			// the event is passed as an rvalue (a temporary std::string)
			if(kind == 0) { if(d) w->q.dispatch(keyStr(key)); else w->q.enqueue(keyStr(key)); }
			else { if(d) w->q.dispatch(keyStr(key), (int)v); else w->q.enqueue(keyStr(key), (int)v); }
			w->res("unit");
		}
		else if(op == "hprocess") w->res(w->q.process() ? "true" : "false");
		else if(op == "hprocessone") w->res(w->q.processOne() ? "true" : "false");
		else if(op == "hprocessif") {
			int kind; long m, r; is >> kind >> m >> r;
			bool res;
			if(kind == 0) { F0 f; f.m = m; f.r = r; res = w->q.processIf(f); }
			else { F1 f; f.m = m; f.r = r; res = w->q.processIf(f); }
			w->res(res ? "true" : "false");
		}
		else { w->out.push_back("bad-op " + op); }
		std::string s = "q :";
		for(auto it = w->q.queueList.begin(); it != w->q.queueList.end(); ++it) {
			if(it->empty()) { s += " <empty-slot>"; continue; }
			const auto & b = it->template get<Queue::QueuedItemBase>();
			s += " " + std::to_string(keyNum(b.event)) + ":" + std::to_string(b.callableIndex);
		}
		w->out.push_back(s);
		bool bad = false; int nfree = 0;
		for(auto it = w->q.freeList.begin(); it != w->q.freeList.end(); ++it) { ++nfree; if(!it->empty()) bad = true; }
		w->out.push_back("slots " + std::to_string(nfree) + (bad ? " slotbad" : "") + " big 0");
		w->out.push_back("shadow :");
		for(auto & l : w->out) std::cout << l << "\n";
		w->out.clear();
	}
	if(w) { w.reset(); std::cout << "final-big 0\n"; }
	return 0;
}
