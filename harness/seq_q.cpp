// H-seq for eventpp::EventQueue / EventDispatcher with MixinFilter: runs scripts against the real
// library as it is in /repo now and prints the canonical lines the Lean driver prints for
// Q/Machine.lean (mode `q`).
//
// Variants (macros): VH_THREADING, VH_KEY (0 int, 1 long std::string), VH_INCLUDE (1: the event is
// the first argument of the prototype, dispatch/enqueue use the `Args...` forms),
// VH_PROTO (0 by value, 1 const reference), VH_ORDERED (0 std::list, 1 ascending, 2 descending),
// VH_GETEVENT (2: a getEvent policy that returns std::cref of the key argument; 1: a user getEvent policy that maps the raw key of the call to the event, with an explicit
// ArgumentPassingInclude/ExcludeEvent mode; the script's key k is passed as a raw key that the policy maps
// back to k), VH_CCI (1: a canContinueInvoking policy, configured per script by `cfg cci M R`:
// continue iff M == 0 or value % M != R).
#include "common.h"
#include <eventpp/eventqueue.h>
#include <eventpp/mixins/mixinfilter.h>
#include <eventpp/utilities/orderedqueuelist.h>
#include <eventpp/utilities/conditionalfunctor.h>
#include <eventpp/utilities/argumentadapter.h>
#include <eventpp/utilities/counterremover.h>
#include <eventpp/utilities/conditionalremover.h>

#ifndef VH_THREADING
#define VH_THREADING eventpp::SingleThreading
#endif
#ifndef VH_KEY
#define VH_KEY 0
#endif
#ifndef VH_INCLUDE
#define VH_INCLUDE 0
#endif
#ifndef VH_PROTO
#define VH_PROTO 0
#endif
#ifndef VH_ORDERED
#define VH_ORDERED 0
#endif
#ifndef VH_GETEVENT
#define VH_GETEVENT 0
#endif
#ifndef VH_CCI
#define VH_CCI 0
#endif
#ifndef VH_MIXINS
#define VH_MIXINS 1
#endif

using namespace vh;

// ---- ledger-counted payload: every construction / destruction / use-after-destruction counted
static long g_livePayload = 0, g_doubleDtor = 0, g_useAfter = 0, g_liveCb = 0;

struct Payload {
	int v;
	bool valid;     // false after being moved from
	unsigned magic;
	Payload() : v(0), valid(true), magic(0xA11CE) { ++g_livePayload; }
	explicit Payload(int x) : v(x), valid(true), magic(0xA11CE) { ++g_livePayload; }
	Payload(const Payload & o) : v(o.v), valid(o.valid), magic(0xA11CE) { o.check(); ++g_livePayload; }
	Payload(Payload && o) noexcept : v(o.v), valid(o.valid), magic(0xA11CE) { o.check(); o.valid = false; o.v = -777; ++g_livePayload; }
	Payload & operator=(const Payload & o) { o.check(); check(); v = o.v; valid = o.valid; return *this; }
	Payload & operator=(Payload && o) noexcept { o.check(); check(); v = o.v; valid = o.valid; o.valid = false; o.v = -777; return *this; }
	~Payload() { if(magic != 0xA11CE) ++g_doubleDtor; else { magic = 0xDEAD; --g_livePayload; } }
	void check() const { if(magic != 0xA11CE) ++g_useAfter; }
	std::string show() const { check(); return valid ? std::to_string(v) : std::string("moved"); }
};

#if VH_KEY == 0
using KeyT = int;
static KeyT mkKey(long k) { return (int)k; }
// the key as an event of the dispatcher (what the policy yields): never masked
static long keyNum(const KeyT & k) { return k; }
#if VH_GETEVENT == 1
static KeyT mkRaw(long k, long v) { return (int)(k + 256 * (1 + ((v % 3) + 3) % 3)); }
static KeyT maskKey(const KeyT & raw) { return raw & 0xff; }
#elif VH_GETEVENT == 2
static KeyT mkRaw(long k, long) { return mkKey(k); }
static KeyT maskKey(const KeyT & raw) { return raw; }
#endif
#else
using KeyT = std::string;
static KeyT mkKey(long k) { return std::string("a-rather-long-event-key-beyond-sso-") + std::to_string(k); }
static long keyNum(const KeyT & k) {
	const std::string p = "a-rather-long-event-key-beyond-sso-";
	if(k.compare(0, p.size(), p) != 0) return -1; // moved-from / corrupted key
	if(k.find('#') != std::string::npos) return -2; // a raw key that was not mapped by the policy
	return std::atol(k.c_str() + p.size());
}
#if VH_GETEVENT == 1
static KeyT mkRaw(long k, long v) { return mkKey(k) + "#raw-suffix-of-the-call-" + std::to_string(v % 3); }
static KeyT maskKey(const KeyT & raw) { return raw.substr(0, raw.find('#')); }
#elif VH_GETEVENT == 2
// the policy hands back a reference INTO the call's own arguments (std::cref of the key argument): the raw key is the event
static KeyT mkRaw(long k, long) { return mkKey(k); }
static KeyT maskKey(const KeyT & raw) { return raw; }
#endif
#endif
#if !VH_GETEVENT
static KeyT mkRaw(long k, long) { return mkKey(k); }
static KeyT maskKey(const KeyT & raw) { return raw; }
#endif
// the key argument a listener / filter / predicate received (include form): the raw key of the call
static long argKeyNum(const KeyT & k) { return keyNum(maskKey(k)); }

#if VH_ORDERED == 2
struct DescCompare {
	template <typename T> bool operator()(const T & a, const T & b) const { return b.event < a.event; }
};
template <typename Item> using OrderedDesc = eventpp::OrderedQueueList<Item, DescCompare>;
#endif

#ifndef VH_MAP
#define VH_MAP 0
#endif
// VH_MIXINS == 2: a mixin that lets everything pass, listed BEFORE MixinFilter (several mixins: each one's verdict counts)
static long g_passMixinCalls = 0;
template <typename Base>
class PassMixin : public Base {
public:
	template <typename ...A>
	bool mixinBeforeDispatch(A && ...) const { ++g_passMixinCalls; return true; }
};
// VH_MIXINS == 3: a mixin WITHOUT a mixinBeforeDispatch hook listed before MixinFilter (known finding D12: the hook
// detection finds MixinFilter's hook through inheritance once more, the filters run twice per dispatch)
template <typename Base>
class HooklessMixin : public Base {
public:
	int hooklessMixinMarker() const { return 1; }
};
static long g_cciM = 0, g_cciR = 0;
static long g_policyMoved = 0; // a policy received a moved-from argument
static bool cciVerdict(const Payload & a) {
	if(!a.valid) ++g_policyMoved;
	return g_cciM == 0 || ((a.v % g_cciM) + g_cciM) % g_cciM != g_cciR;
}
struct Policies {
	using Threading = VH_THREADING;
#if VH_GETEVENT
	// parameters by value on purpose (VH_PROTO == 0): whatever the library passes in is consumed here
#if VH_GETEVENT == 2
	// a result that is not the event itself but converts to a reference to it (what `return std::cref(message.topic)`
	// gives): the library must have its own copy of the event before it forwards the arguments on
	static std::reference_wrapper<const KeyT> getEvent(const KeyT & raw, const Payload & a) { if(!a.valid) ++g_policyMoved; return std::cref(raw); }
#elif VH_PROTO == 0
	static KeyT getEvent(KeyT raw, Payload a) { if(!a.valid) ++g_policyMoved; return maskKey(raw); }
#else
	static KeyT getEvent(const KeyT & raw, const Payload & a) { if(!a.valid) ++g_policyMoved; return maskKey(raw); }
#endif
#if VH_INCLUDE
	using ArgumentPassingMode = eventpp::ArgumentPassingIncludeEvent;
#else
	using ArgumentPassingMode = eventpp::ArgumentPassingExcludeEvent;
#endif
#endif
#if VH_CCI
#if VH_PROTO == 0
#if VH_INCLUDE
	static bool canContinueInvoking(KeyT, Payload a) { return cciVerdict(a); }
#else
	static bool canContinueInvoking(Payload a) { return cciVerdict(a); }
#endif
#else
#if VH_INCLUDE
	static bool canContinueInvoking(const KeyT &, const Payload & a) { return cciVerdict(a); }
#else
	static bool canContinueInvoking(const Payload & a) { return cciVerdict(a); }
#endif
#endif
#endif
#if VH_MIXINS == 3
	using Mixins = eventpp::MixinList<HooklessMixin, eventpp::MixinFilter>;
#elif VH_MIXINS == 2
	using Mixins = eventpp::MixinList<PassMixin, eventpp::MixinFilter>;
#else
	using Mixins = eventpp::MixinList<eventpp::MixinFilter>;
#endif
#if VH_MAP == 1
	template <typename Key, typename T> using Map = std::map<Key, T>;   // ordered map instead of the default hashed one
#endif
#if VH_ORDERED == 1
	template <typename Item> using QueueList = eventpp::OrderedQueueList<Item>;
#elif VH_ORDERED == 2
	template <typename Item> using QueueList = OrderedDesc<Item>;
#endif
};

#if VH_PROTO == 0
#define ARGT Payload
#else
#define ARGT const Payload &
#endif

#if VH_INCLUDE
using Queue = eventpp::EventQueue<KeyT, void(KeyT, ARGT), Policies>;
#define LARGS KeyT k, ARGT a
#else
using Queue = eventpp::EventQueue<KeyT, void(ARGT), Policies>;
#define LARGS ARGT a
#endif

struct World;
static World * g_world = nullptr;

struct CbFn {
	long cb; long hid; long key; int kind; // kind 0 listener 1 filter
	CbFn(long cb, long hid, long key, int kind) : cb(cb), hid(hid), key(key), kind(kind) { ++g_liveCb; }
	CbFn(const CbFn & o) : cb(o.cb), hid(o.hid), key(o.key), kind(o.kind) { ++g_liveCb; }
	~CbFn() { --g_liveCb; }
	void operator()(LARGS) const;
};

// a listener registered through eventpp::conditionalFunctor: runs iff value % m == r
struct CondFn {
	long m, r;
#if VH_INCLUDE
	bool operator()(const KeyT &, const Payload & a) const { return m != 0 && ((a.v % m) + m) % m == r; }
#else
	bool operator()(const Payload & a) const { return m != 0 && ((a.v % m) + m) % m == r; }
#endif
};
using CondWrapped = eventpp::ConditionalFunctor<CbFn, CondFn>;

// a listener registered through eventpp::argumentAdapter: its own parameter type is Wide, converted from the payload
struct Wide {
	long v; bool valid;
	explicit Wide(const Payload & p) : v(p.v), valid(p.valid) { p.check(); }
	std::string show() const { return valid ? std::to_string(v) : std::string("moved"); }
};
struct WideFn {
	CbFn inner;
#if VH_INCLUDE
	void operator()(KeyT k, Wide w) const;
	typedef void Proto(KeyT, Wide);
#else
	void operator()(Wide w) const;
	typedef void Proto(Wide);
#endif
};
using Adapted = eventpp::ArgumentAdapter<WideFn, WideFn::Proto>;

#if VH_PROTO == 0
#define FARG Payload &
#else
#define FARG const Payload &
#endif
struct FilterFn {
	long cb; long hid;
	FilterFn(long cb, long hid) : cb(cb), hid(hid) { ++g_liveCb; }
	FilterFn(const FilterFn & o) : cb(o.cb), hid(o.hid) { ++g_liveCb; }
	~FilterFn() { --g_liveCb; }
#if VH_INCLUDE
	bool operator()(KeyT & k, FARG a) const;
#else
	bool operator()(FARG a) const;
#endif
};

// the queue object lives in explicit storage so that a copy / move can be constructed over memory that
// previously held arbitrary bytes (C10 / C20: no result may depend on what the storage held before)
struct QueueBox {
	alignas(Queue) unsigned char storage[2][sizeof(Queue)];
	int cur = 0;
	Queue * p;
	QueueBox() { std::memset(storage, 0, sizeof(storage)); p = new (storage[0]) Queue(); }
	~QueueBox() { p->~Queue(); }
	Queue & get() { return *p; }
	// replace the queue by a copy (or move) of itself constructed in storage filled with `fill`
	template <typename F>
	void rebuild(bool move, int fill, F beforeDestroy, bool assign = false) {
		int o = 1 - cur;
		std::memset(storage[o], fill, sizeof(Queue));
		Queue * n;
		if(assign) {
			// default-construct, then copy- / move-ASSIGN (the other way to obtain a copy)
			n = new (storage[o]) Queue();
			if(move) *n = std::move(*p); else *n = *p;
		}
		else n = move ? new (storage[o]) Queue(std::move(*p)) : new (storage[o]) Queue(*p);
		beforeDestroy();     // objects that refer to the old queue (DisableQueueNotify) end before it does
		p->~Queue();
		p = n; cur = o;
	}
};

// condition of a ConditionalRemover with the queue as target: remove when value % m == r
struct CondRem {
	long m, r;
#if VH_INCLUDE
	bool operator()(const KeyT &, const Payload & a) const { return m != 0 && ((a.v % m) + m) % m == r; }
#else
	bool operator()(const Payload & a) const { return m != 0 && ((a.v % m) + m) % m == r; }
#endif
};

// the same condition with a parameterless call operator next to the one that takes the trigger's arguments
struct CondRemBoth : CondRem {
	CondRemBoth(long m_, long r_) : CondRem{m_, r_} {}
	using CondRem::operator();
	bool operator()() const { return false; }
};

// the ledger-counted callback object inside a stored listener, whatever it is wrapped in
static CbFn * cbOf(Queue::Callback & cb) {
	if(auto p = cb.target<CbFn>()) return p;
	using CW = eventpp::CounterRemover<Queue>::Wrapper<CbFn>;
	if(auto p = cb.target<CW>()) return &p->data->listener;
	using DW = eventpp::ConditionalRemover<Queue>::ItemByCondition<CbFn, CondRem>;
	if(auto p = cb.target<DW>()) return &p->data->listener;
	using DW2 = eventpp::ConditionalRemover<Queue>::ItemByCondition<CbFn, CondRemBoth>;
	if(auto p = cb.target<DW2>()) return &p->data->listener;
	if(auto p = cb.target<CondWrapped>()) return &p->func;
	if(auto p = cb.target<Adapted>()) return &p->func.inner;
	return nullptr;
}
static const CbFn * cbOf(const Queue::Callback & cb) { return cbOf(const_cast<Queue::Callback &>(cb)); }

#define q (*box.p)
struct World {
	const Script * script;
	QueueBox box;
	int nkeys;
	std::vector<Queue::Handle> handles;               // listener handles by id (filters use fhandles)
	std::map<long, Queue::FilterHandle> fhandles;
	long nextId = 0;
	std::map<long, long> calls;
	std::map<long, long> rw;                          // filter cb -> delta
	std::vector<std::string> out;
	std::vector<long> dispatchKeyStack;               // key of the dispatch currently running (for key integrity)
	std::vector<std::unique_ptr<Queue::DisableQueueNotify>> dqn;   // live DisableQueueNotify objects of the current queue

	explicit World(const Script & s) : script(&s), box(), nkeys(s.nlists) {
		g_cciM = g_cciR = 0; g_policyMoved = 0;
		for(auto & l : s.cfg) {
			auto t = toks(l);
			if(t.size() >= 4 && t[1] == "rw") rw[std::atol(t[2].c_str())] = std::atol(t[3].c_str());
			if(t.size() >= 4 && t[1] == "cci") { g_cciM = VH_CCI ? std::atol(t[2].c_str()) : 0; g_cciR = std::atol(t[3].c_str()); }
		}
	}

	void res(const std::string & r) { out.push_back("ev res " + r); }

	bool runBeh(const char * kind, long key, long hid, long cb, const std::string & arg) {
		out.push_back(std::string("ev call ") + kind + " " + std::to_string(key) + " " + std::to_string(hid) + " "
			+ std::to_string(cb) + " " + arg);
		long nth = calls[cb]++;
		const BehEntry * e = findBeh(*script, cb, nth);
		if(e) {
			for(auto & c : e->cmds) exec(substSelf(c, hid));
			return e->verdict;
		}
		return true;
	}

	Queue::Handle handleOf(long h) {
		if(h >= 0 && (size_t)h < handles.size()) return handles[h];
		return Queue::Handle();
	}

	void doDispatch(long key, int arg) {
		q.dispatch(mkRaw(key, arg), Payload(arg));
	}
	void doEnqueue(long key, int arg) {
		q.enqueue(mkRaw(key, arg), Payload(arg));
	}

	// the handle is currently a listener of another event: outside every property, skipped
	// (Q/Machine.lean skips it by the same rule)
	bool foreign(long key, long h) {
		Queue::Handle hd = handleOf(h);
		for(int k = 0; k < nkeys; ++k) {
			if(k != key && q.ownsHandle(mkKey(k), hd)) return true;
		}
		return false;
	}

	void exec(const Cmd & c) {
		const std::string & op = c.op();
		if((op == "listenbefore" && foreign(c.n(1), c.n(3))) || (op == "unlisten" && foreign(c.n(1), c.n(2)))) {
			res("unit");
			return;
		}
		if(op == "listen" || op == "listenfront" || op == "listenbefore" || op == "listencond" || op == "listenadapt"
			|| op == "listencounted" || op == "listencondrem") {
			long key = c.n(1);
			long id = nextId++;
			CbFn fn(c.n(2), id, key, 0);
			Queue::Handle h;
			if(op == "listen") h = q.appendListener(mkKey(key), fn);
			else if(op == "listencond") h = q.appendListener(mkKey(key), eventpp::conditionalFunctor(fn, CondFn{c.n(3), c.n(4)}));
			else if(op == "listenadapt") h = q.appendListener(mkKey(key), eventpp::argumentAdapter<WideFn::Proto>(WideFn{fn}));
			else if(op == "listencounted" || op == "listencondrem") {
				// the event is handed over in a variable of the caller that changes right afterwards: the remover keeps its own copy
				KeyT keyVar = mkKey(key);
				if(op == "listencounted") h = eventpp::counterRemover(q).appendListener(keyVar, fn, (int)c.n(3));
				else if(id % 2) h = eventpp::conditionalRemover(q).appendListener(keyVar, fn, CondRemBoth(c.n(3), c.n(4)));
				else h = eventpp::conditionalRemover(q).appendListener(keyVar, fn, CondRem{c.n(3), c.n(4)});
				keyVar = mkKey(nkeys + 7);
			}
			else if(op == "listenfront") h = q.prependListener(mkKey(key), fn);
			else h = q.insertListener(mkKey(key), fn, handleOf(c.n(3)));
			if((size_t)id >= handles.size()) handles.resize(id + 1);
			handles[id] = h;
			res("h" + std::to_string(id));
		}
		else if(op == "unlisten") res(q.removeListener(mkKey(c.n(1)), handleOf(c.n(2))) ? "true" : "false");
		else if(op == "hasany") res(q.hasAnyListener(mkKey(c.n(1))) ? "true" : "false");
		else if(op == "addfilter") {
			long id = nextId++;
			if((size_t)id >= handles.size()) handles.resize(id + 1);
			fhandles[id] = q.appendFilter(FilterFn(c.n(1), id));
			res("h" + std::to_string(id));
		}
		else if(op == "removefilter") {
			auto it = fhandles.find(c.n(1));
			res(q.removeFilter(it == fhandles.end() ? Queue::FilterHandle() : it->second) ? "true" : "false");
		}
		else if(op == "dispatch") { doDispatch(c.n(1), (int)c.n(2)); res("unit"); }
		else if(op == "enqueue") { doEnqueue(c.n(1), (int)c.n(2)); res("unit"); }
		else if(op == "process") res(q.process() ? "true" : "false");
		else if(op == "processone") res(q.processOne() ? "true" : "false");
		else if(op == "processif" || op == "processuntil") {
			long p = c.n(1);
			auto pred = [this, p](LARGS) -> bool {
#if VH_INCLUDE
				return runBeh("pred", argKeyNum(k), 0, p, a.show());
#else
				return runBeh("pred", -1, 0, p, a.show());
#endif
			};
			bool r = op == "processif" ? q.processIf(pred) : q.processUntil(pred);
			res(r ? "true" : "false");
		}
		else if(op == "peek" || op == "take") {
			Queue::QueuedEvent ev;
			bool r = op == "peek" ? q.peekEvent(&ev) : q.takeEvent(&ev);
			if(r) res("ev " + std::to_string(keyNum(ev.event)) + " " + std::get<VH_INCLUDE ? 1 : 0>(ev.arguments).show());
			else res("false");
		}
		else if(op == "clear") { q.clearEvents(); res("unit"); }
		else if(op == "qselfassign") {
			// copy-assignment from itself changes nothing (through an alias, so that the compiler does not see it)
			Queue * alias = box.p;
			*box.p = *alias;
			res("unit");
		}
		else if(op == "qcopy" || op == "qmove" || op == "qassign" || op == "qmoveassign") {
			// replace the queue by a copy / move of itself built over storage filled with the given byte;
			// pending events are not copied; listeners and filters are, as new nodes: they get fresh ids in
			// (event, list) order, filters last
			bool mv = op == "qmove" || op == "qmoveassign";
			box.rebuild(mv, (int)c.n(1), [this]() { dqn.clear(); }, op == "qassign" || op == "qmoveassign");
			if(!mv) {
				handles.clear(); fhandles.clear();
				long base = nextId;
				std::vector<Queue::Handle> nh;
				for(int k = 0; k < nkeys; ++k) {
					q.forEach(mkKey(k), [&](const Queue::Handle & h, Queue::Callback & cb) {
						CbFn * fn = cbOf(cb);
						fn->hid = nextId++;
						nh.push_back(h);
					});
				}
				handles.resize(base); for(auto & h : nh) handles.push_back(h);
				q.filterList.forEach([&](const decltype(q.filterList)::Handle & h, decltype(q.filterList)::Callback & cb) {
					FilterFn * fn = cb.target<FilterFn>();
					fn->hid = nextId++;
					fhandles[fn->hid] = h;
				});
			}
			res("unit");
		}
		else if(op == "emptyq") res(q.emptyQueue() ? "true" : "false");
		else if(op == "dqnb") { dqn.emplace_back(new Queue::DisableQueueNotify(box.p)); res("unit"); }
		else if(op == "dqne") { if(!dqn.empty()) dqn.pop_back(); res("unit"); }
		// a copy of the newest live DisableQueueNotify is one more live object; a temporary assigned to it comes and goes
		else if(op == "dqnc") { if(dqn.empty()) dqn.emplace_back(new Queue::DisableQueueNotify(box.p)); else dqn.emplace_back(new Queue::DisableQueueNotify(*dqn.back())); res("unit"); }
		else if(op == "dqna") { if(!dqn.empty()) *dqn.back() = Queue::DisableQueueNotify(box.p); res("unit"); }
		else out.push_back("bad-op " + op);
	}

	void state() {
		// pending events, in queue order
		std::string s = "q :";
		int nq = 0, nfree = 0;
		bool bad = false;
		for(auto it = q.queueList.begin(); it != q.queueList.end(); ++it) {
			++nq;
			if(it->empty()) { bad = true; s += " <empty-slot>"; continue; }
			const auto & ev = it->get();
			s += " " + std::to_string(keyNum(ev.event)) + ":" + std::get<VH_INCLUDE ? 1 : 0>(ev.arguments).show();
		}
		out.push_back(s);
		for(auto it = q.freeList.begin(); it != q.freeList.end(); ++it) { ++nfree; if(!it->empty()) bad = true; }
		out.push_back("slots " + std::to_string(nq) + " " + std::to_string(nfree) + " " + std::to_string((int)q.queueEmptyCounter.load())
			+ " " + std::to_string((int)q.queueNotifyCounter.load()) + (bad ? " slotbad" : ""));
		for(int k = 0; k < nkeys; ++k) {
			std::string l = "lst " + std::to_string(k) + " :";
			q.forEach(mkKey(k), [&l](const Queue::Handle &, const Queue::Callback & cb) {
				const CbFn * fn = cbOf(cb);
				l += " " + std::to_string(fn->hid) + ":" + std::to_string(fn->cb);
			});
			out.push_back(l);
		}
		std::string f = "flt :";
		q.filterList.forEach([&f](const decltype(q.filterList)::Callback & cb) {
			const FilterFn * fn = cb.target<FilterFn>();
			f += " " + std::to_string(fn->hid) + ":" + std::to_string(fn->cb);
		});
		out.push_back(f);
		out.push_back("ledger " + std::to_string(g_livePayload) + " " + std::to_string(g_liveCb) + " " + std::to_string(g_doubleDtor)
			+ " " + std::to_string(g_useAfter));
		if(g_policyMoved) out.push_back("policy-got-moved-from-argument " + std::to_string(g_policyMoved));
	}
};

#undef q
void CbFn::operator()(LARGS) const {
#if VH_INCLUDE
	if(argKeyNum(k) != key) g_world->out.push_back("keymismatch listener-of " + std::to_string(key) + " got " + std::to_string(argKeyNum(k)));
#endif
	g_world->runBeh("listener", key, hid, cb, a.show());
}

#if VH_INCLUDE
void WideFn::operator()(KeyT k, Wide w) const {
	if(argKeyNum(k) != inner.key) g_world->out.push_back("keymismatch adapted-listener-of " + std::to_string(inner.key) + " got " + std::to_string(argKeyNum(k)));
#else
void WideFn::operator()(Wide w) const {
#endif
	g_world->runBeh("listener", inner.key, inner.hid, inner.cb, w.show());
}

#if VH_INCLUDE
bool FilterFn::operator()(KeyT & k, FARG a) const {
	long key = argKeyNum(k);
#else
bool FilterFn::operator()(FARG a) const {
	long key = -1;
#endif
	bool v = g_world->runBeh("filter", key, hid, cb, a.show());
#if VH_PROTO == 0
	if(v) { auto it = g_world->rw.find(cb); if(it != g_world->rw.end()) a.v += (int)it->second; }
#endif
	return v;
}

int main() {
	auto scripts = readScripts(std::cin);
	for(auto & s : scripts) {
		g_livePayload = g_liveCb = g_doubleDtor = g_useAfter = 0;
		{
			World w(s);
			g_world = &w;
			std::printf("--- %s\n", s.name.c_str());
			for(auto & c : s.dos) {
				w.exec(c);
				w.state();
				for(auto & l : w.out) std::puts(l.c_str());
				w.out.clear();
				std::fflush(stdout);
			}
			g_world = nullptr;
		}
		// everything the queue still held is released by its destructor
		std::printf("final-ledger %ld %ld %ld %ld\n", g_livePayload, g_liveCb, g_doubleDtor, g_useAfter);
	}
	return 0;
}
