// H-seq for eventpp::ScopedRemover with an EventDispatcher (VR_TARGET=1) or an EventQueue (VR_TARGET=2) as target -
// the other specialisation of the class; the CallbackList specialisation is driven by seq_cl.cpp.
// Runs the ScopedRemover scripts of tools/suite_cl.py (gen_rem_script): "list l" of the script is event EV of
// dispatcher / queue object number l.  Output format as seq_cl.cpp for these scripts (results, state per list, ledger),
// compared with Util/Removers.lean (driver mode `rem`).
#include "common.h"
#include <eventpp/eventqueue.h>
#include <eventpp/eventdispatcher.h>
#include <eventpp/utilities/scopedremover.h>
using namespace vh;

#ifndef VH_THREADING
#define VH_THREADING eventpp::SingleThreading
#endif
#ifndef VR_TARGET
#define VR_TARGET 1
#endif
// events are identified by the Map policy's notion of equivalence, not by ==: here two keys are the same event when they
// agree modulo 1000 (EV and EV + 1000 are one event, EV + 1 is another)
struct ModLess { bool operator()(int a, int b) const { return a % 1000 < b % 1000; } };
struct Policies {
	using Threading = VH_THREADING;
	template <typename Key, typename T> using Map = std::map<Key, T, ModLess>;
};

static long g_liveCb = 0, g_cbDoubleDtor = 0;
struct CbFn {
	long cb; long hid; unsigned magic;
	CbFn(long cb_, long hid_) : cb(cb_), hid(hid_), magic(0xC0FFEE) { ++g_liveCb; }
	CbFn(const CbFn & o) : cb(o.cb), hid(o.hid), magic(0xC0FFEE) { ++g_liveCb; }
	CbFn & operator=(const CbFn &) = default;
	~CbFn() { if(magic != 0xC0FFEE) ++g_cbDoubleDtor; else { magic = 0xDEAD; --g_liveCb; } }
	void operator()(int) const {}
};

#if VR_TARGET == 1
using Target = eventpp::EventDispatcher<int, void(int), Policies>;
#else
using Target = eventpp::EventQueue<int, void(int), Policies>;
#endif
using SR = eventpp::ScopedRemover<Target>;
static const int EV = 7;

struct World {
	std::vector<std::unique_ptr<Target>> lists;
	std::vector<Target::Handle> handles;
	std::vector<std::string> out;
	struct SRDel { void operator()(SR * p) const { p->~SR(); ::operator delete((void *)p); } };
	template <typename ...A> static SR * newSR(A && ...a) {
		void * mem = ::operator new(sizeof(SR));
		std::memset(mem, 0xA5, sizeof(SR));
		return new (mem) SR(std::forward<A>(a)...);
	}
	std::map<int, std::unique_ptr<SR, SRDel>> rems;

	explicit World(int n) { for(int i = 0; i < n; ++i) lists.emplace_back(new Target()); }
	~World() { rems.clear(); }
	Target::Handle handleOf(long h) { return (h >= 0 && (size_t)h < handles.size()) ? handles[h] : Target::Handle(); }
	void res(const std::string & r) { out.push_back("ev res " + r); }

	void exec(const Cmd & c) {
		const std::string & op = c.op();
		if(op == "append") {
			long id = (long)handles.size();
			handles.push_back(lists[c.n(1)]->appendListener(EV, CbFn(c.n(2), id)));
			res("h" + std::to_string(id));
			return;
		}
		if(op == "remove") { res(lists[c.n(1)]->removeListener(EV, handleOf(c.n(2))) ? "true" : "false"); return; }
		int r = (int)c.n(1);
		bool has = rems.count(r) > 0;
		if(op == "rnew") {
			if(has) { res("skip"); return; }
			rems[r].reset(newSR(*lists[c.n(2)])); res("unit");
		}
		else if(op == "rappend" || op == "rprepend" || op == "rinsert") {
			if(!has) { res("skip"); return; }
			long id = (long)handles.size();
			CbFn fn(c.n(2), id);
			Target::Handle h;
			if(op == "rappend") h = rems[r]->appendListener(EV, fn);
			else if(op == "rprepend") h = rems[r]->prependListener(EV, fn);
			else h = rems[r]->insertListener(EV, fn, handleOf(c.n(3)));
			handles.push_back(h);
			res("h" + std::to_string(id));
		}
		else if(op == "rremove") { if(!has) { res("skip"); return; } res(rems[r]->removeListener(EV, handleOf(c.n(2))) ? "true" : "false"); }
		// the same event under another, equivalent key: detaches at once and reports it, exactly as `rremove`
		else if(op == "rremoveeq") { if(!has) { res("skip"); return; } res(rems[r]->removeListener(EV + 1000, handleOf(c.n(2))) ? "true" : "false"); }
		// another event: nothing is detached, false is reported, and the remover stays responsible for the listener
		else if(op == "rremoveother") { if(!has) { res("skip"); return; } res(rems[r]->removeListener(EV + 1, handleOf(c.n(2))) ? "true" : "false"); }
		else if(op == "rremoveheld") {
			auto hd = handleOf(c.n(3));
			auto keep = hd.lock();
			lists[c.n(2)]->removeListener(EV, hd);
			if(!has) { res("skip"); return; }
			res(rems[r]->removeListener(EV, hd) ? "true" : "false");
		}
		else if(op == "rreset") { if(!has) { res("skip"); return; } rems[r]->reset(); res("unit"); }
		else if(op == "rtarget") { if(!has) { res("skip"); return; } rems[r]->setDispatcher(*lists[c.n(2)]); res("unit"); }
		else if(op == "rmovector") {
			int src = (int)c.n(2);
			if(has || !rems.count(src)) { res("skip"); return; }
			rems[r].reset(newSR(std::move(*rems[src]))); res("unit");
		}
		else if(op == "rmoveassign") {
			int src = (int)c.n(2);
			if(!has || !rems.count(src)) { res("skip"); return; }
			if(r != src) *rems[r] = std::move(*rems[src]);
			res("unit");
		}
		else if(op == "rswap") {
			int b = (int)c.n(2);
			if(!has || !rems.count(b)) { res("skip"); return; }
			rems[r]->swap(*rems[b]); res("unit");
		}
		else if(op == "rdestroy") { if(!has) { res("skip"); return; } rems.erase(r); res("unit"); }
		else out.push_back("bad-op " + op);
	}

	void state() {
		for(int l = 0; l < (int)lists.size(); ++l) {
			std::string s = "state " + std::to_string(l) + " :";
			lists[l]->forEach(EV, [&s](const Target::Handle &, const Target::Callback & cb) {
				const CbFn * fn = cb.target<CbFn>();
				s += " " + std::to_string(fn ? fn->hid : -1) + ":" + std::to_string(fn ? fn->cb : -1);
			});
			out.push_back(s);
		}
		out.push_back("ledger " + std::to_string(g_liveCb) + " " + std::to_string(g_cbDoubleDtor));
	}
};

int main() {
	auto scripts = readScripts(std::cin);
	for(auto & s : scripts) {
		g_liveCb = g_cbDoubleDtor = 0;
		{
			World w(s.nlists);
			std::printf("--- %s\n", s.name.c_str());
			for(auto & c : s.dos) {
				w.exec(c);
				w.state();
				for(auto & l : w.out) std::puts(l.c_str());
				w.out.clear();
				std::fflush(stdout);
			}
		}
		if(g_liveCb != 0 || g_cbDoubleDtor != 0) std::printf("leak-after-destruction %ld %ld\n", g_liveCb, g_cbDoubleDtor);
	}
	return 0;
}
