// Real threads on the real eventpp::SpinLock (the baton scheduler cannot interpose on its std::atomic_flag):
// N threads enter a critical section ROUNDS times each; inside, a plain (non-atomic) occupancy counter must be exactly 1
// and a plain counter is incremented - lost updates or occupancy 2 mean the lock does not exclude.
// Also used through an EventQueue with the SpinLock policy: producers and a consumer, every event consumed once.
#include <eventpp/eventqueue.h>
#include <atomic>
#include <cstdio>
#include <thread>
#include <vector>

int main(int argc, char ** argv) {
	const int threads = argc > 1 ? std::atoi(argv[1]) : 4;
	const long rounds = argc > 2 ? std::atol(argv[2]) : 100000;
	eventpp::SpinLock lock;
	volatile long inside = 0, total = 0;
	long overlaps = 0;
	std::atomic<bool> go{false};
	std::vector<std::thread> th;
	for(int t = 0; t < threads; ++t) th.emplace_back([&]() {
		while(!go.load()) {}
		for(long i = 0; i < rounds; ++i) {
			lock.lock();
			long now = inside + 1; inside = now;
			if(now != 1) ++overlaps;
			total = total + 1;
			for(volatile int spin = 0; spin < 40; spin = spin + 1) {}   // stay inside for a while: contention is the point
			inside = inside - 1;
			lock.unlock();
		}
	});
	go.store(true);
	for(auto & t : th) t.join();
	std::printf("spin threads %d rounds %ld total %ld expected %ld overlaps %ld\n", threads, rounds, (long)total, threads * rounds, overlaps);

	// the queue with the SpinLock policy: conservation under real contention
	struct P { using Threading = eventpp::GeneralThreading<eventpp::SpinLock>; };
	eventpp::EventQueue<int, void(long), P> q;
	std::atomic<long> sum{0}, count{0};
	q.appendListener(1, [&](long v) { sum += v; ++count; });
	const long per = rounds / 10 + 1;
	std::atomic<int> producersLeft{threads};
	std::vector<std::thread> prod;
	for(int t = 0; t < threads; ++t) prod.emplace_back([&, t]() { for(long i = 1; i <= per; ++i) q.enqueue(1, i); --producersLeft; });
	std::thread cons([&]() { while(producersLeft.load() > 0 || !q.emptyQueue()) q.process(); });
	for(auto & t : prod) t.join();
	cons.join();
	q.process();
	std::printf("queue events %ld expected %ld sum %ld expected %ld\n", count.load(), threads * per, sum.load(), threads * per * (per + 1) / 2);
	bool ok = total == threads * rounds && overlaps == 0 && count.load() == threads * per && sum.load() == threads * per * (per + 1) / 2;
	std::puts(ok ? "ok" : "VIOLATED");
	return ok ? 0 : 1;
}
