import EventppVerif.Conc.Queue
/- Driver mode `conc`: replays the global step order logged by harness/conc_q.cpp on Conc/Queue.lean. -/
open Evp.Conc

namespace CD

def toks (line : String) : List String :=
  (line.trimAscii.toString.splitOn " ").filter (· ≠ "")
def nat! (s : String) : Nat := s.toNat?.getD 0

def parseCall : String → Option Call
  | "enq" => some .enqueue | "proc" => some .process | "one" => some .processOne
  | "ifE" => some (.processIf false) | "ifO" => some (.processIf true)
  -- processUntil: stop at the first even / odd event id
  | "untE" => some (.processUntil false) | "untO" => some (.processUntil true)
  | "take" => some .takeEvent | "peek" => some .peekEvent | "clear" => some .clearEvents
  | "empty" => some .emptyQueue | "wait" => some .wait | "waitfor" => some .waitFor
  | "dqnb" => some .dqnBegin | "dqne" => some .dqnEnd
  | _ => none

/-- steps of the model that have no counterpart among the harness's scheduling points (they touch
    no shared state): selecting the next call, noticing that the taken list is exhausted -/
def silent (th : Thread) : Bool :=
  match th.pc with
  | .idle => !th.prog.isEmpty
  | .procLoop _ [] _ _ => true
  | _ => false

/-- the tag the harness logs for the micro-step the thread is about to perform -/
def tagOf (locked : Bool) (pc : PC) : String :=
  match pc with
  | .enqSplice => "cs" | .enqReadEmpty => "q.empty" | .enqReadEc => "ec.load" | .enqReadNc => "nc.load" | .enqNotify => "notify"
  | .procPre _ => "q.empty" | .procInc _ => "ec++" | .procTake _ => "cs"
  | .procLoop m _ _ _ => if m ≥ 2 then "pred" else "cb"
  | .procPutBack _ _ => "cs" | .procPbReadNc _ => "nc.load" | .procPbNotify _ => "notify" | .procDec _ => "ec--"
  | .takePre | .peekPre | .clearPre => "q.empty" | .takeLocked | .peekLocked | .clearLocked => "cs"
  | .emptyRead1 _ => "q.empty" | .emptyRead2 _ => "ec.load"
  | .waitLock _ => "cs" | .waitRead1 _ _ => "q.empty" | .waitRead2 _ _ => "ec.load" | .waitRead3 _ _ _ => "nc.load"
  | .waitPark _ => "park" | .parked _ => "wake" | .woken _ _ => "cs"
  | .dqnInc => "nc++" | .dqnDec => if locked then "cs" else "nc--" | .dqnReadNc => "nc.load" | .dqnReadEmpty => "q.empty"
  | .dqnReadEc => "ec.load" | .dqnNotify => "notify"
  | .idle => "idle"

partial def runSilent (s : State) (t : Nat) : State :=
  match getT s t with
  | some th => if silent th then (match step s t 0 with
      | some s' => runSilent s' t
      | none => s) else s
  | none => s

def showRet : Ret → String
  | .unit => "unit" | .bool b => if b then "true" else "false"

def showHow : How → String
  | .dispatched => "dispatched" | .taken => "taken" | .cleared => "cleared"

def finishSection (out : IO.FS.Stream) (name : String) (s : State) (mism : List String) : IO Unit := do
  out.putStrLn s!"--- {name}"
  let n := s.threads.length
  let s := (List.range n).foldl runSilent s
  for m in mism do
    if m.startsWith "c11bad" then out.putStrLn m else out.putStrLn s!"mismatch {m}"
  for t in List.range n do
    match getT s t with
    | some th => out.putStrLn (s!"rets {t} : " ++ " ".intercalate (th.rets.map showRet)).trimAsciiEnd.toString
    | none => pure ()
  out.putStrLn ("queue : " ++ " ".intercalate (s.queue.map toString)).trimAsciiEnd.toString
  out.putStrLn s!"counters {s.ec} {s.nc}"
  for c in s.consumed do
    if c.2.1 != How.cleared then out.putStrLn s!"consumed {c.1} {showHow c.2.1} {c.2.2}"
  let cleared := (s.consumed.filter (fun c => c.2.1 == How.cleared)).map (·.1)
  out.putStrLn ("cleared : " ++ " ".intercalate (cleared.map toString)).trimAsciiEnd.toString
  let parked := (List.range n).filter (fun t => match getT s t with
    | some th => (match th.pc with | .parked _ => true | .woken _ _ => true | _ => false)
    | none => false)
  out.putStrLn ("parked : " ++ " ".intercalate (parked.map toString)).trimAsciiEnd.toString

def main (lines : Array String) : IO Unit := do
  let out ← IO.getStdout
  let mut name : Option String := none
  let mut progs : List (List Call) := []
  let mut locked := true
  let mut st : Option State := none
  let mut mism : List String := []
  for line in lines do
    match toks line with
    | "---" :: nm :: _ =>
      if let (some n, some s) := (name, st) then finishSection out n s mism.reverse
      name := some nm; progs := []; st := none; mism := []
    | ["flag", v] => locked := v != "0"
    | "thread" :: calls => progs := progs ++ [calls.filterMap parseCall]
    | ["step", t, tag, ch] =>
      let s0 := st.getD (init progs locked)
      let t := nat! t
      let s1 := runSilent s0 t
      let pc := ((getT s1 t).map (·.pc)).getD .idle
      -- C11 along the implementation's own schedule: an emptyQueue() about to return true must find every
      -- event spliced in before the call began consumed
      match pc with
      | .emptyRead2 seen =>
        if s1.ec == 0 then
          let cons := s1.consumed.map (·.1)
          let missing := (List.range seen).filter (fun e => !cons.contains e)
          if !missing.isEmpty then mism := s!"c11bad thread {t}: emptyQueue returns true while events {missing} (enqueued before the call) are not consumed" :: mism
      | _ => pure ()
      let want := tagOf locked pc
      let tagOk := want == tag || (want == "wake" && (tag == "spurious" || tag == "timeout"))
      if !tagOk then mism := s!"thread {t}: implementation performed '{tag}', model expects '{want}'" :: mism
      match step s1 t (nat! ch) with
      | some s2 => st := some s2
      | none =>
        mism := s!"thread {t}: model cannot step at '{tag}' (blocked or finished)" :: mism
        st := some s1
    | _ => pure ()
  if let some n := name then
    finishSection out n (st.getD (init progs locked)) mism.reverse

end CD
