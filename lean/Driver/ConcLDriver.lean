import EventppVerif.Conc.CList
/- Driver mode `concl`: replays the step order logged by harness/conc_cl.cpp on Conc/CList.lean. -/
open Evp Evp.ConcL

namespace CLD

def toks (line : String) : List String :=
  (line.trimAscii.toString.splitOn " ").filter (· ≠ "")
def nat! (s : String) : Nat := s.toNat?.getD 0

def parseCall : List String → Option ConcL.Call
  | ["append"] => some (.append 0)
  | ["prepend"] => some (.prepend 0)
  | ["insert", h] => some (.insert 0 (nat! h))
  | ["remove", h] => some (.remove (nat! h))
  | ["owns", h] => some (.owns (nat! h))
  | ["empty"] => some .empty
  | ["invoke"] => some .invoke
  | _ => none

def splitSemi (ts : List String) : List (List String) :=
  let rec go (acc : List (List String)) (cur : List String) : List String → List (List String)
    | [] => (acc ++ [cur]).filter (· ≠ [])
    | t :: r => if t = ";" then go (acc ++ [cur]) [] r else go acc (cur ++ [t]) r
  go [] [] ts

def tagOf : PC → String
  | .idle => "idle" | .insBefore _ _ => "cl.before" | .draw _ _ _ => "cur++" | .link _ _ _ _ _ => "cs"
  | .removeCs _ => "cs" | .ownsCs _ => "cs" | .emptyRead => "cl.head" | .travStart => "cs"
  | .travCap _ => "cur.load" | .travCheck _ _ => "cl.counter" | .travCall _ _ => "cb" | .travNext _ _ => "cs"

partial def runSilent (s : State) (t : Nat) : State :=
  match getT s t with
  | some th => if th.pc == .idle && !th.prog.isEmpty then (match step s t with
      | some s' => runSilent s' t
      | none => s) else s
  | none => s

def showRet : Ret → String
  | .unit => "unit" | .bool b => if b then "true" else "false" | .handle h => s!"h{h}"

def walkBack (h : Heap) : Nat → Option Nat → List Nat
  | 0, _ => []
  | _ + 1, none => []
  | f + 1, some n => n :: walkBack h f (h n).prev

def finishSection (out : IO.FS.Stream) (name : String) (s : State) (mism : List String) : IO Unit := do
  out.putStrLn s!"--- {name}"
  let n := s.threads.length
  let s := (List.range n).foldl runSilent s
  for m in mism do out.putStrLn s!"mismatch {m}"
  if s.unsupported then out.putStrLn "mismatch counter wrap is outside the concurrent model"
  for t in List.range n do
    match getT s t with
    | some th =>
      out.putStrLn (s!"rets {t} : " ++ " ".intercalate (th.rets.map showRet)).trimAsciiEnd.toString
      for v in th.visits do
        out.putStrLn (s!"visit {t} : " ++ " ".intercalate (v.map (fun p => toString p.1))).trimAsciiEnd.toString
    | none => pure ()
  out.putStrLn ("final : " ++ " ".intercalate ((chainOf s.list.heap (s.nextId + 1) s.list.head).map toString)).trimAsciiEnd.toString
  out.putStrLn ("back : " ++ " ".intercalate ((walkBack s.list.heap (s.nextId + 1) s.list.tail).map toString)).trimAsciiEnd.toString

def main (lines : Array String) : IO Unit := do
  let out ← IO.getStdout
  let mut name : Option String := none
  let mut progs : List (List ConcL.Call) := []
  let mut nsetup := 0
  let mut st : Option State := none
  let mut mism : List String := []
  let mkInit (progs : List (List ConcL.Call)) (nsetup : Nat) : State := Id.run do
    -- the setup callbacks are appended before the threads start
    let mut l : CL := {}
    for i in List.range nsetup do
      l := l.append (i + 1) i 0
    return { init progs with list := l, nextId := nsetup }
  for line in lines do
    match toks line with
    | "---" :: nm :: _ =>
      if let (some n, some s) := (name, st) then finishSection out n s mism.reverse
      else if let some n := name then finishSection out n (mkInit progs nsetup) mism.reverse
      name := some nm; progs := []; st := none; mism := []; nsetup := 0
    | "setup" :: rest => nsetup := rest.length
    | "thread" :: rest => progs := progs ++ [(splitSemi rest).filterMap parseCall]
    -- dispatcher variant of the harness: taking the dispatcher's listenerMutex (map look-up / creation of the
    -- event's list) is not a step of the list model; that every call takes it exactly once is checked by the suite
    | ["step", _, "map", _] => pure ()
    | ["step", t, tag, _] =>
      let s0 := st.getD (mkInit progs nsetup)
      let t := nat! t
      let s1 := runSilent s0 t
      let pc := ((getT s1 t).map (·.pc)).getD .idle
      let want := tagOf pc
      if want != tag then mism := s!"thread {t}: implementation performed '{tag}', model expects '{want}'" :: mism
      match step s1 t with
      | some s2 => st := some s2
      | none =>
        mism := s!"thread {t}: model cannot step at '{tag}'" :: mism
        st := some s1
    | _ => pure ()
  if let some n := name then
    finishSection out n (st.getD (mkInit progs nsetup)) mism.reverse

end CLD
