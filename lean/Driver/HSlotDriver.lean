import EventppVerif.Conc.HeterSlot
/- Driver mode `hslot`: replays the step order logged by harness/conc_cl.cpp (variant VC_HSLOT) on
   Conc/HeterSlot.lean. -/
open Evp Evp.HSlot

namespace HSD

def toks (line : String) : List String :=
  (line.trimAscii.toString.splitOn " ").filter (· ≠ "")
def nat! (s : String) : Nat := s.toNat?.getD 0

def splitSemi (ts : List String) : List (List String) :=
  let rec go (acc : List (List String)) (cur : List String) : List String → List (List String)
    | [] => (acc ++ [cur]).filter (· ≠ [])
    | t :: r => if t = ";" then go (acc ++ [cur]) [] r else go acc (cur ++ [t]) r
  go [] [] ts

/-- the tag the implementation logs for the step the model is about to take -/
def tagOf (th : Thread) : String :=
  match th.pc with
  | .idle => "hl.slot"
  | .afterRead1 true => "map"
  | .afterRead1 false => "hl.slot"
  | .afterCs => "hl.slot"
  | .afterRead2 _ => "app"

def finish (out : IO.FS.Stream) (name : String) (s : State) (mism : List String) : IO Unit := do
  out.putStrLn s!"--- {name}"
  for m in mism do out.putStrLn s!"mismatch {m}"
  let mut t := 0
  for th in s.threads do
    out.putStrLn (s!"done {t} : " ++ " ".intercalate (th.done.map toString)).trimAsciiEnd.toString
    t := t + 1
  out.putStrLn ("final : " ++ " ".intercalate ((current s).map toString)).trimAsciiEnd.toString
  out.putStrLn s!"lists {s.lists.length}"

def main (lines : Array String) : IO Unit := do
  let out ← IO.getStdout
  let mut name : Option String := none
  let mut progs : List (List Nat) := []
  let mut st : Option State := none
  let mut mism : List String := []
  for line in lines do
    match toks line with
    | "---" :: nm :: _ =>
      if let some n := name then finish out n (st.getD (init progs)) mism.reverse
      name := some nm; progs := []; st := none; mism := []
    | "thread" :: rest =>
      progs := progs ++ [(splitSemi rest).filterMap (fun c => match c with
        | ["append", id] => some (nat! id)
        | _ => none)]
    | ["step", t, tag, _] =>
      let s0 := st.getD (init progs)
      let t := nat! t
      match getT s0 t with
      | none => mism := s!"thread {t} does not exist" :: mism
      | some th =>
        let want := tagOf th
        if want != tag then mism := s!"thread {t}: implementation performed '{tag}', model expects '{want}'" :: mism
        match step s0 t with
        | some s1 => st := some s1
        | none => mism := s!"thread {t}: model cannot step at '{tag}'" :: mism; st := some s0
    | _ => pure ()
  if let some n := name then finish out n (st.getD (init progs)) mism.reverse

end HSD
