import EventppVerif.Util.HeterSpawn
/- Driver mode `heter`: scripts of harness/seq_heter.cpp on Util/Heter.lean. The callable matrices
   are the ones the harness measured from the compiler (`cbrow`, `argrow`, `predrow` lines). -/
open Evp Evp.Heter

namespace HD

def toks (line : String) : List String :=
  (line.trimAscii.toString.splitOn " ").filter (· ≠ "")
def nat! (s : String) : Nat := s.toNat?.getD 0

structure Mat where
  nproto : Nat := 0
  cb : List (Nat × List Bool) := []
  arg : List (Nat × List Bool) := []
  pred : List (Nat × List Bool) := []
  /-- what the library itself selected (compared with `firstMatch`) -/
  cbSel : List (Nat × Int) := []
  argSel : List (Nat × Int) := []

def row (m : List (Nat × List Bool)) (k p : Nat) : Bool :=
  match m.find? (fun r => r.1 == k) with
  | some r => (r.2[p]?).getD false
  | none => false

def Mat.sig (m : Mat) : Sig where
  nproto := m.nproto
  cbOk := fun k p => row m.cb k p
  argOk := fun p a => row m.arg a p
  predOk := fun f p => row m.pred f p

def valStr (kind val : Nat) : String :=
  if kind = 0 then "-" else if kind = 2 then s!"s{val}" else if kind = 3 || kind = 5 then s!"B{val}" else toString val

/-- a listener prints the value as its own parameter type shows it (callback kind = cb / 100) -/
def showEv : HEv → String
  | .call key _ h cb _ val => s!"ev call {key} {h} {cb} {valStr (cb / 100) val}"
  | .pred pk _ val => s!"ev pred {pk} {valStr pk val}"
  | .res s => s!"ev res {s}"

/-- the spawning rule of harness/seq_heter.cpp (same as `harnessSpawn` in Properties/C14s.lean) -/
def spawnRule : Spawn := fun key cb val =>
  if cb % 10 == 9 && val % 4 != 3 then some (key, 1, val + 1) else none

/-- the stand-alone HeterCallbackList of the harness is event key 7 of the model; a callback of it whose id ends in
    8 assigns an empty list to it while it runs (same as `harnessClear` in Properties/C14s.lean) -/
def clearRule : Clear := fun key cb => key == 7 && cb % 10 == 8

def main (lines : Array String) : IO Unit := do
  let out ← IO.getStdout
  let mut m : Mat := {}
  let mut w : HW := {}
  let mut free := 0
  let mut protoOf : List (Nat × Nat) := []   -- handle -> prototype index
  let mut shadow : String := ""                -- listeners of the copy taken by the last `hcopy`
  let mut started := false
  for line in lines do
    match toks line with
    | ["protos", n] => m := { m with nproto := nat! n }
    | "cbrow" :: k :: rest =>
      let bits := (rest.takeWhile (· ≠ "sel")).map (· == "1")
      let sel := ((rest.dropWhile (· ≠ "sel")).drop 1).headD "-1"
      m := { m with cb := m.cb ++ [(nat! k, bits)], cbSel := m.cbSel ++ [(nat! k, sel.toInt?.getD (-1))] }
    | "argrow" :: k :: rest =>
      let bits := (rest.takeWhile (· ≠ "sel")).map (· == "1")
      let sel := ((rest.dropWhile (· ≠ "sel")).drop 1).headD "-1"
      m := { m with arg := m.arg ++ [(nat! k, bits)], argSel := m.argSel ++ [(nat! k, sel.toInt?.getD (-1))] }
    | "predrow" :: k :: rest => m := { m with pred := m.pred ++ [(nat! k, rest.map (· == "1"))] }
    | "---" :: nm :: _ =>
      if started then out.putStrLn "final-big 0"
      started := true
      out.putStrLn s!"--- {nm}"
      -- selection rule: the library's choice must be the first listed callable prototype
      let sg := m.sig
      for (k, sel) in m.cbSel do
        let mine : Int := match firstMatch sg.nproto (fun p => sg.cbOk k p) with | some p => p | none => -1
        if mine != sel then out.putStrLn s!"selection-mismatch callback kind {k}: library {sel}, first match {mine}"
      for (a, sel) in m.argSel do
        let mine : Int := match firstMatch sg.nproto (fun p => sg.argOk p a) with | some p => p | none => -1
        if mine != sel then out.putStrLn s!"selection-mismatch argument kind {a}: library {sel}, first match {mine}"
      w := {}; free := 0; protoOf := []; shadow := ""
    | "do" :: rest =>
      let sg := m.sig
      let op : Option HOp := match rest with
        | ["hlisten", k, kind, cb] => some (.listen (nat! k) (nat! kind) (nat! cb))
        | ["hlappend", kind, cb] => some (.listen 7 (nat! kind) (nat! cb))
        | ["hlinvoke", kind, v] => some (.dispatch 7 (nat! kind) (if nat! kind = 0 then 0 else nat! v))
        | ["hremove", k, h] =>
          (match protoOf.find? (fun p => p.1 == nat! h) with
          | some p => some (.remove (nat! k) (nat! h) p.2)
          | none => none)
        -- an argument list of kind 0 is empty: it carries no value
        | ["hdispatch", k, kind, v] => some (.dispatch (nat! k) (nat! kind) (if nat! kind = 0 then 0 else nat! v))
        | ["henqueue", k, kind, v] => some (.enqueue (nat! k) (nat! kind) (if nat! kind = 0 then 0 else nat! v))
        | ["hprocess"] => some .process
        | ["hprocessone"] => some .processOne
        | ["hprocessif", pk, mm, r] => some (.processIf (nat! pk) (nat! mm) (nat! r))
        | _ => none
      match op with
      | none =>
        match rest with
        | ["hremove", _, _] => out.putStrLn "ev res false"
        | ["hcopy"] =>
          -- the copy holds the listeners of this moment, as independent lists (C10 for the heterogeneous classes)
          out.putStrLn "ev res unit"
          let mut sh := ""
          for key in List.range 2 do
            for p in List.range sg.nproto do
              for e in w.lists (slot key p) do
                sh := sh ++ s!" {key}:{p}:{e.id}"
          shadow := sh
        | _ => out.putStrLn "bad-op"
      | some op =>
        let before := w.queue.length
        match op with
        | .listen _ kind _ =>
          match firstMatch sg.nproto (fun p => sg.cbOk kind p) with
          | some p => protoOf := protoOf ++ [(w.nextId, p)]
          | none => pure ()
        | _ => pure ()
        let (w', evs) := stepC sg spawnRule clearRule w op
        let flat := (step sg w op).1
        w := w'
        for e in evs do out.putStrLn (showEv e)
        -- slot accounting: enqueue recycles a free slot or makes one; consumed events free theirs;
        -- events enqueued by listeners while the call runs take free slots first (the slots of the
        -- events being consumed are recycled only when the call ends)
        match op with
        | .enqueue _ _ _ =>
          if w.queue.length > before && free > 0 then free := free - 1
        | _ =>
          let spawned := w.queue.length - flat.queue.length
          free := free - min free spawned + (before - flat.queue.length)
      let qs := w.queue.map (fun e => s!"{e.key}:{e.tag}")
      out.putStrLn ("q : " ++ " ".intercalate qs).trimAsciiEnd.toString
      let nbig := (w.queue.filter (fun e => e.kind == 3 || e.kind == 6)).length
      out.putStrLn s!"slots {free} big {nbig}"
      out.putStrLn s!"shadow :{shadow}"
    | _ => pure ()
  if started then out.putStrLn "final-big 0"

end HD
