import EventppVerif.CL.WFCheck
/- Driver mode `inv`: evaluates the structural invariant the proofs rely on (`WF`, CL/WF.lean) on the RAW
   pointer dumps of the real CallbackList objects printed by harness/seq_cl.cpp after every top-level
   command:  `dump L head tail cur |`  and  `nodes id,prev,next,counter,cb ...`. -/
open Evp

namespace ID

def toks (line : String) : List String :=
  (line.trimAscii.toString.splitOn " ").filter (· ≠ "")
def nat! (s : String) : Nat := s.toNat?.getD 0
def opt (s : String) : Option Nat := if s = "-" then none else s.toNat?

-- `wfCheck` (the executable form of `WF`) lives in the library with its soundness theorem
-- `wfCheck_sound` (CL/WFCheck.lean).

def main (lines : Array String) : IO Unit := do
  let out ← IO.getStdout
  -- a block: several `dump` lines followed by one `nodes` line
  let mut dumps : List (Nat × Option Nat × Option Nat × Nat) := []
  let mut cmdNo := 0
  for line in lines do
    match toks line with
    | "---" :: nm :: _ => out.putStrLn s!"--- {nm}"; dumps := []; cmdNo := 0
    | ["dump", l, hd, tl, cur, "|"] => dumps := dumps ++ [(nat! l, opt hd, opt tl, nat! cur)]
    | "nodes" :: rest =>
      let mut h : Heap := {}
      let mut maxId := 0
      let mut chained : List Nat := []
      for r in rest do
        match r.splitOn "," with
        | [id, p, n, c, cb] =>
          h := upd h (nat! id) ⟨opt p, opt n, nat! cb, nat! c⟩
          if nat! id ≥ maxId then maxId := nat! id
        | _ => pure ()
      let fuel := maxId + 2
      for (l, hd, tl, cur) in dumps do
        match wfCheck h hd tl cur fuel with
        | some why => out.putStrLn s!"inv bad command {cmdNo} list {l}: {why}"
        | none => pure ()
        chained := chained ++ chainOf h fuel hd
      -- a node with a non-zero generation that can still be locked must be in exactly one chain
      for r in rest do
        match r.splitOn "," with
        | [id, _, _, c, _] =>
          let k := (chained.filter (· == nat! id)).length
          if nat! c ≠ 0 && k ≠ 1 then out.putStrLn s!"inv bad command {cmdNo}: node {id} has generation {c} but occurs {k} times in the chains"
          if nat! c = 0 && k ≠ 0 then out.putStrLn s!"inv bad command {cmdNo}: removed node {id} is still chained"
        | _ => pure ()
      dumps := []
      cmdNo := cmdNo + 1
    | _ => pure ()

end ID
