import EventppVerif.CL.Machine
import Driver.QDriver
import Driver.UtilDriver
import Driver.ConcDriver
import Driver.HeterDriver
import Driver.ConcLDriver
import Driver.InvDriver
import Driver.HSlotDriver
import EventppVerif.Util.Wrappers
import EventppVerif.Util.Removers
/-
  Line-protocol driver: reads scripts on stdin, runs them on the Lean Model or Spec and prints
  canonical output lines.  The C++ harness (harness/seq.cpp) reads the same scripts, drives the
  real library and prints the same lines; tools/check.py diffs them.

  usage: driver model|spec < scripts
-/
open Evp

def toks (line : String) : List String :=
  (line.trimAscii.toString.splitOn " ").filter (· ≠ "")

def nat! (s : String) : Nat := s.toNat?.getD 0

/-- parse one command from tokens -/
def parseCmd : List String → Option Cmd
  | ["append", l, cb] => some (.append (nat! l) (nat! cb))
  | ["prepend", l, cb] => some (.prepend (nat! l) (nat! cb))
  | ["insert", l, cb, h] => some (.insert (nat! l) (nat! cb) (nat! h))
  | ["remove", l, h] => some (.remove (nat! l) (nat! h))
  | ["owns", l, h] => some (.owns (nat! l) (nat! h))
  | ["empty", l] => some (.empty (nat! l))
  | ["invoke", l, a] => some (.invoke (nat! l) (nat! a))
  | ["enum", l, a] => some (.enum (nat! l) (nat! a))
  | ["copy", d, s] => some (.copyAssign (nat! d) (nat! s))
  | ["move", d, s] => some (.moveAssign (nat! d) (nat! s))
  | ["swap", a, b] => some (.swap (nat! a) (nat! b))
  | ["setcounter", l, k] => some (.setCounter (nat! l) (nat! k))
  | ["counted", l, cb, _] => some (.append (nat! l) (nat! cb))
  | ["conditional", l, cb, _, _] => some (.append (nat! l) (nat! cb))
  | _ => none

/-- split a token list on ";" -/
def splitSemi (ts : List String) : List (List String) :=
  let rec go (acc cur : List (List String) × List String) : List String → List (List String)
    | [] => (acc.1 ++ [acc.2]).filter (· ≠ [])
    | t :: r => if t = ";" then go (acc.1 ++ [acc.2], []) cur r else go (acc.1, acc.2 ++ [t]) cur r
  go ([], []) ([], []) ts

def progOf (cmds : List Cmd) (verdict : Bool) : Prog :=
  match cmds with
  | [] => .ret verdict
  | c :: r => .op c (fun _ => progOf r verdict)

/-- behaviour table entry: callback, nth (none = any), verdict, commands -/
structure BehEntry where
  cb : Nat
  nth : Option Nat
  verdict : Bool
  /-- raw tokens; `self`, `self+d`, `self-d` denote handles relative to the called node -/
  cmds : List (List String)

def substSelf (h : Nat) (t : String) : String :=
  if t = "self" then toString h
  else if t.startsWith "self+" then toString (h + nat! (t.drop 5).toString)
  else if t.startsWith "self-" then
    let d := nat! (t.drop 5).toString
    if d ≤ h then toString (h - d) else "999999"
  else t

def instCmds (e : BehEntry) (h : Nat) : List Cmd :=
  e.cmds.filterMap (fun ts => parseCmd (ts.map (substSelf h)))

def behOf (tbl : List BehEntry) : Beh := fun call nth =>
  match tbl.find? (fun e => e.cb == call.cb && e.nth == some nth) with
  | some e => progOf (instCmds e call.h) e.verdict
  | none => match tbl.find? (fun e => e.cb == call.cb && e.nth == none) with
    | some e => progOf (instCmds e call.h) e.verdict
    | none => .ret true

def showRes : Res → String
  | .unit => "unit"
  | .bool b => if b then "true" else "false"
  | .handle h => s!"h{h}"

def showEv : Ev → String
  | .call c => s!"ev call {c.list} {c.h} {c.cb} {c.arg} {if c.enum then 1 else 0}"
  | .res r => s!"ev res {showRes r}"

def showEntries (L : List (Nat × Nat)) : String :=
  " ".intercalate (L.map (fun e => s!"{e.1}:{e.2}"))

structure Script where
  name : String := ""
  nlists : Nat := 1
  beh : List BehEntry := []
  dos : List Cmd := []
  /-- callbacks added through CounterRemover: (cb, trigger count) -/
  counted : List (Nat × Int) := []
  /-- callbacks added through ConditionalRemover: (cb, m, r): remove when arg % m == r -/
  conditional : List (Nat × Nat × Nat) := []

def int! (s : String) : Int := s.toInt?.getD 0

/-- collect the wrapper declarations from every command of the script (top level and behaviours) -/
def scanWrappers (sc : Script) (ts : List String) : Script :=
  match ts with
  | ["counted", _, cb, n] => { sc with counted := sc.counted ++ [(nat! cb, int! n)] }
  | ["conditional", _, cb, m, r] => { sc with conditional := sc.conditional ++ [(nat! cb, nat! m, nat! r)] }
  | _ => sc

def wrapBeh (sc : Script) (inner : Beh) : Beh :=
  let b1 := sc.counted.foldl (fun b p => Evp.Wrap.counterBeh p.1 p.2 b) inner
  sc.conditional.foldl (fun b p => Evp.Wrap.condBeh p.1 (fun a => p.2.1 > 0 && a % p.2.1 == p.2.2) b) b1

def stepBudget : Nat := 20000

/-- Print events; the `remove` a CounterRemover / ConditionalRemover wrapper performs on itself is
    internal to the library (the harness cannot see its result), so its `res` event is dropped:
    it is the event right after a due call of a wrapped callback. `counts` = calls so far per
    wrapped callback. -/
def showEvs (sc : Script) (evs : List Ev) (counts : List (Nat × Nat)) : List String × List (Nat × Nat) := Id.run do
  let mut out : List String := []
  let mut cnt := counts
  let mut dropNext := false
  for e in evs do
    match e with
    | .call c =>
      out := out ++ [showEv e]
      dropNext := false
      if !c.enum then
        let k := ((cnt.find? (fun p => p.1 == c.cb)).map (·.2)).getD 0
        match sc.counted.find? (fun p => p.1 == c.cb) with
        | some p =>
          if Evp.Wrap.counterDue p.2 k then dropNext := true
        | none => pure ()
        match sc.conditional.find? (fun p => p.1 == c.cb) with
        | some p => if p.2.1 > 0 && c.arg % p.2.1 == p.2.2 then dropNext := true
        | none => pure ()
      -- call counts include enumerations (they count as calls of the callback id in the machine)
      let k := ((cnt.find? (fun p => p.1 == c.cb)).map (·.2)).getD 0
      cnt := (c.cb, k + 1) :: cnt.filter (fun p => p.1 != c.cb)
    | .res _ =>
      if dropNext then dropNext := false
      else out := out ++ [showEv e]
  return (out, cnt)

def runModel (sc : Script) : List String := Id.run do
  let beh := wrapBeh sc (behOf sc.beh)
  let mut c : MCfg := { nlists := sc.nlists }
  let mut out : List String := []
  let mut cnt : List (Nat × Nat) := []
  for cmd in sc.dos do
    let before := c.trace.length
    let (c', halted) := MCfg.runN beh stepBudget { c with stack := [.prog (.op cmd (fun _ => .ret true))] }
    c := { c' with stack := [] }
    let newEvs := (c.trace.take (c.trace.length - before)).reverse
    let (ls, cnt') := showEvs sc newEvs cnt
    cnt := cnt'
    out := out ++ ls
    if !halted then out := out ++ ["fuel"]
    for l in List.range sc.nlists do
      let cl := c.lists l
      let ch := chainOf cl.heap c.fuel cl.head
      out := out ++ [s!"state {l} : {showEntries (ch.map (fun n => (n, (cl.heap n).cb)))}"]
      if cl.ub then out := out ++ [s!"ub {l}"]
    -- ledger: one stored callback object per attached callback, nothing else retained, no double destruction
    let total := (List.range sc.nlists).foldl (fun acc l => acc + (chainOf (c.lists l).heap c.fuel (c.lists l).head).length) 0
    out := out ++ [s!"ledger {total} 0"]
  out := out ++ [s!"wraps {c.wraps}"]
  return out

def runSpec (sc : Script) : List String := Id.run do
  let beh := wrapBeh sc (behOf sc.beh)
  let mut c : SCfg := { nlists := sc.nlists }
  let mut out : List String := []
  let mut cnt : List (Nat × Nat) := []
  for cmd in sc.dos do
    let before := c.trace.length
    let (c', halted) := SCfg.runN beh stepBudget { c with stack := [.prog (.op cmd (fun _ => .ret true))] }
    c := { c' with stack := [] }
    let newEvs := (c.trace.take (c.trace.length - before)).reverse
    let (ls, cnt') := showEvs sc newEvs cnt
    cnt := cnt'
    out := out ++ ls
    if !halted then out := out ++ ["fuel"]
    for l in List.range sc.nlists do
      out := out ++ [s!"state {l} : {showEntries ((c.lists l).map (fun e => (e.id, e.cb)))}"]
    let total := (List.range sc.nlists).foldl (fun acc l => acc + (c.lists l).length) 0
    out := out ++ [s!"ledger {total} 0"]
  return out

def addLine (sc : Script) (line : String) : Script :=
  match toks line with
  | "lists" :: n :: _ => { sc with nlists := nat! n }
  | "beh" :: cb :: nth :: v :: rest =>
    let cmds := splitSemi rest
    let sc := cmds.foldl scanWrappers sc
    { sc with beh := sc.beh ++ [⟨nat! cb, if nth = "*" then none else some (nat! nth), v != "0", cmds⟩] }
  | "do" :: rest =>
    let sc := scanWrappers sc rest
    match parseCmd rest with
    | some c => { sc with dos := sc.dos ++ [c] }
    | none => sc
  | _ => sc

/-! ### mode `rem`: ScopedRemover scripts on Util/Removers.lean -/

def parseROp : List String → Option Evp.Rem.ROp
  | ["rnew", r, l] => some (.rnew (nat! r) (nat! l))
  | ["rappend", r, cb] => some (.rappend (nat! r) (nat! cb))
  | ["rprepend", r, cb] => some (.rprepend (nat! r) (nat! cb))
  | ["rinsert", r, cb, h] => some (.rinsert (nat! r) (nat! cb) (nat! h))
  | ["rremove", r, h] => some (.rremove (nat! r) (nat! h))
  | ["rreset", r] => some (.rreset (nat! r))
  | ["rtarget", r, l] => some (.rtarget (nat! r) (nat! l))
  | ["rmovector", d, s] => some (.rmovector (nat! d) (nat! s))
  | ["rmoveassign", d, s] => some (.rmoveassign (nat! d) (nat! s))
  | ["rswap", a, b] => some (.rswap (nat! a) (nat! b))
  | ["rdestroy", r] => some (.rdestroy (nat! r))
  | ["append", l, cb] => some (.append (nat! l) (nat! cb))
  | ["remove", l, h] => some (.remove (nat! l) (nat! h))
  | _ => none

def showROut : Evp.Rem.ROut → String
  | .skip => "skip" | .unit => "unit" | .bool b => if b then "true" else "false" | .handle h => s!"h{h}"

def remMain (lines : Array String) : IO Unit := do
  let out ← IO.getStdout
  let mut w : Evp.Rem.RW := {}
  let mut nl := 1
  for line in lines do
    match toks line with
    | "---" :: nm :: _ =>
      out.putStrLn s!"--- {nm}"
      w := {}
    | "lists" :: n :: _ => nl := nat! n
    | "do" :: rest =>
      -- `rremoveheld R L H`: the user keeps the node alive (`handle.lock()`), detaches the listener directly
      -- (`remove L H`) and then removes it through the remover: the remover's answer is what is reported
      let (w0, rest) := match rest with
        | ["rremoveheld", r, l, h] => ((Evp.Rem.step w (.remove (nat! l) (nat! h))).1, ["rremove", r, h])
        -- the same event under an equivalent key: `rremove`; another event: nothing happens and false is reported
        -- (as for a handle that was never issued), the remover stays responsible
        | ["rremoveeq", r, h] => (w, ["rremove", r, h])
        | ["rremoveother", r, _] => (w, ["rremove", r, "99999999"])
        | _ => (w, rest)
      w := w0
      match parseROp rest with
      | some op =>
        let (w', o) := Evp.Rem.step w op
        w := w'
        out.putStrLn s!"ev res {showROut o}"
        for l in List.range nl do
          out.putStrLn (s!"state {l} : " ++ showEntries ((w.lists l).map (fun e => (e.id, e.cb)))).trimAsciiEnd.toString
        let total := (List.range nl).foldl (fun acc l => acc + (w.lists l).length) 0
        out.putStrLn s!"ledger {total} 0"
      | none => pure ()
    | _ => pure ()

partial def readAll (h : IO.FS.Stream) (acc : Array String) : IO (Array String) := do
  let line ← h.getLine
  if line.isEmpty then return acc
  readAll h (acc.push line)

def main (args : List String) : IO Unit := do
  let mode := args.headD "model"
  let lines ← readAll (← IO.getStdin) #[]
  if mode = "q" then
    QD.main lines
    return
  if mode = "anyid" then
    UD.anyidMain lines
    return
  if mode = "inv" then
    ID.main lines
    return
  if mode = "hslot" then
    HSD.main lines
    return
  if mode = "concl" then
    CLD.main lines
    return
  if mode = "heter" then
    HD.main lines
    return
  if mode = "conc" then
    CD.main lines
    return
  if mode = "rem" then
    remMain lines
    return
  if mode = "anydata" then
    UD.anydataMain lines
    return
  let out ← IO.getStdout
  let mut cur : Option Script := none
  let flush (s : Option Script) : IO Unit := do
    match s with
    | none => pure ()
    | some sc =>
      out.putStrLn s!"--- {sc.name}"
      let ls := if mode = "spec" then runSpec sc else runModel sc
      for l in ls do out.putStrLn l
  for line in lines do
    match toks line with
    | "---" :: name :: _ =>
      flush cur
      cur := some { name := name }
    | _ => cur := cur.map (addLine · line)
  flush cur
