import EventppVerif.CL.Machine
import Driver.QDriver
import Driver.UtilDriver
/-
  Line-protocol driver: reads scripts on stdin, runs them on the Lean Model or Spec and prints
  canonical output lines.  The C++ harness (harness/seq.cpp) reads the same scripts, drives the
  real library and prints the same lines; tools/check.py diffs them.

  usage: driver model|spec < scripts
-/
open Evp

def toks (line : String) : List String :=
  (line.trimAscii.toString.splitOn " ").filter (· ≠ "")

def nat! (s : String) : Nat := s.toNat?.getD 0

/-- parse one command from tokens -/
def parseCmd : List String → Option Cmd
  | ["append", l, cb] => some (.append (nat! l) (nat! cb))
  | ["prepend", l, cb] => some (.prepend (nat! l) (nat! cb))
  | ["insert", l, cb, h] => some (.insert (nat! l) (nat! cb) (nat! h))
  | ["remove", l, h] => some (.remove (nat! l) (nat! h))
  | ["owns", l, h] => some (.owns (nat! l) (nat! h))
  | ["empty", l] => some (.empty (nat! l))
  | ["invoke", l, a] => some (.invoke (nat! l) (nat! a))
  | ["enum", l, a] => some (.enum (nat! l) (nat! a))
  | ["copy", d, s] => some (.copyAssign (nat! d) (nat! s))
  | ["move", d, s] => some (.moveAssign (nat! d) (nat! s))
  | ["swap", a, b] => some (.swap (nat! a) (nat! b))
  | ["setcounter", l, k] => some (.setCounter (nat! l) (nat! k))
  | _ => none

/-- split a token list on ";" -/
def splitSemi (ts : List String) : List (List String) :=
  let rec go (acc cur : List (List String) × List String) : List String → List (List String)
    | [] => (acc.1 ++ [acc.2]).filter (· ≠ [])
    | t :: r => if t = ";" then go (acc.1 ++ [acc.2], []) cur r else go (acc.1, acc.2 ++ [t]) cur r
  go ([], []) ([], []) ts

def progOf (cmds : List Cmd) (verdict : Bool) : Prog :=
  match cmds with
  | [] => .ret verdict
  | c :: r => .op c (fun _ => progOf r verdict)

/-- behaviour table entry: callback, nth (none = any), verdict, commands -/
structure BehEntry where
  cb : Nat
  nth : Option Nat
  verdict : Bool
  /-- raw tokens; `self`, `self+d`, `self-d` denote handles relative to the called node -/
  cmds : List (List String)

def substSelf (h : Nat) (t : String) : String :=
  if t = "self" then toString h
  else if t.startsWith "self+" then toString (h + nat! (t.drop 5).toString)
  else if t.startsWith "self-" then
    let d := nat! (t.drop 5).toString
    if d ≤ h then toString (h - d) else "999999"
  else t

def instCmds (e : BehEntry) (h : Nat) : List Cmd :=
  e.cmds.filterMap (fun ts => parseCmd (ts.map (substSelf h)))

def behOf (tbl : List BehEntry) : Beh := fun call nth =>
  match tbl.find? (fun e => e.cb == call.cb && e.nth == some nth) with
  | some e => progOf (instCmds e call.h) e.verdict
  | none => match tbl.find? (fun e => e.cb == call.cb && e.nth == none) with
    | some e => progOf (instCmds e call.h) e.verdict
    | none => .ret true

def showRes : Res → String
  | .unit => "unit"
  | .bool b => if b then "true" else "false"
  | .handle h => s!"h{h}"

def showEv : Ev → String
  | .call c => s!"ev call {c.list} {c.h} {c.cb} {c.arg} {if c.enum then 1 else 0}"
  | .res r => s!"ev res {showRes r}"

def showEntries (L : List (Nat × Nat)) : String :=
  " ".intercalate (L.map (fun e => s!"{e.1}:{e.2}"))

structure Script where
  name : String := ""
  nlists : Nat := 1
  beh : List BehEntry := []
  dos : List Cmd := []

def stepBudget : Nat := 20000

def runModel (sc : Script) : List String := Id.run do
  let beh := behOf sc.beh
  let mut c : MCfg := { nlists := sc.nlists }
  let mut out : List String := []
  for cmd in sc.dos do
    let before := c.trace.length
    let (c', halted) := MCfg.runN beh stepBudget { c with stack := [.prog (.op cmd (fun _ => .ret true))] }
    c := { c' with stack := [] }
    let newEvs := (c.trace.take (c.trace.length - before)).reverse
    out := out ++ newEvs.map showEv
    if !halted then out := out ++ ["fuel"]
    for l in List.range sc.nlists do
      let cl := c.lists l
      let ch := chainOf cl.heap c.fuel cl.head
      out := out ++ [s!"state {l} : {showEntries (ch.map (fun n => (n, (cl.heap n).cb)))}"]
      if cl.ub then out := out ++ [s!"ub {l}"]
  return out

def runSpec (sc : Script) : List String := Id.run do
  let beh := behOf sc.beh
  let mut c : SCfg := { nlists := sc.nlists }
  let mut out : List String := []
  for cmd in sc.dos do
    let before := c.trace.length
    let (c', halted) := SCfg.runN beh stepBudget { c with stack := [.prog (.op cmd (fun _ => .ret true))] }
    c := { c' with stack := [] }
    let newEvs := (c.trace.take (c.trace.length - before)).reverse
    out := out ++ newEvs.map showEv
    if !halted then out := out ++ ["fuel"]
    for l in List.range sc.nlists do
      out := out ++ [s!"state {l} : {showEntries ((c.lists l).map (fun e => (e.id, e.cb)))}"]
  return out

def addLine (sc : Script) (line : String) : Script :=
  match toks line with
  | "lists" :: n :: _ => { sc with nlists := nat! n }
  | "beh" :: cb :: nth :: v :: rest =>
    let cmds := splitSemi rest
    { sc with beh := sc.beh ++ [⟨nat! cb, if nth = "*" then none else some (nat! nth), v != "0", cmds⟩] }
  | "do" :: rest =>
    match parseCmd rest with
    | some c => { sc with dos := sc.dos ++ [c] }
    | none => sc
  | _ => sc

partial def readAll (h : IO.FS.Stream) (acc : Array String) : IO (Array String) := do
  let line ← h.getLine
  if line.isEmpty then return acc
  readAll h (acc.push line)

def main (args : List String) : IO Unit := do
  let mode := args.headD "model"
  let lines ← readAll (← IO.getStdin) #[]
  if mode = "q" then
    QD.main lines
    return
  if mode = "anyid" then
    UD.anyidMain lines
    return
  if mode = "anydata" then
    UD.anydataMain lines
    return
  let out ← IO.getStdout
  let mut cur : Option Script := none
  let flush (s : Option Script) : IO Unit := do
    match s with
    | none => pure ()
    | some sc =>
      out.putStrLn s!"--- {sc.name}"
      let ls := if mode = "spec" then runSpec sc else runModel sc
      for l in ls do out.putStrLn l
  for line in lines do
    match toks line with
    | "---" :: name :: _ =>
      flush cur
      cur := some { name := name }
    | _ => cur := cur.map (addLine · line)
  flush cur
