import EventppVerif.Q.Machine
import EventppVerif.Q.Copy
import EventppVerif.Util.Wrappers
/- Line-protocol front end for Q/Machine.lean (mode `q` of the driver). -/
open Evp Evp.Q

namespace QD

def toks (line : String) : List String :=
  (line.trimAscii.toString.splitOn " ").filter (· ≠ "")

def nat! (s : String) : Nat := s.toNat?.getD 0

def parseCmd : List String → Option QCmd
  | ["listen", k, cb] => some (.listen (nat! k) (nat! cb))
  | ["listenfront", k, cb] => some (.listenFront (nat! k) (nat! cb))
  | ["listenbefore", k, cb, h] => some (.listenBefore (nat! k) (nat! cb) (nat! h))
  -- a listener wrapped by `conditionalFunctor` / `argumentAdapter` is a listener of the machine; the
  -- condition is applied when the calls are shown (`showEv`), cf. `C12_conditional`, `C12_adapter`
  | ["listencond", k, cb, _, _] => some (.listen (nat! k) (nat! cb))
  | ["listenadapt", k, cb] => some (.listen (nat! k) (nat! cb))
  -- listeners added through CounterRemover / ConditionalRemover with the dispatcher / queue as target: a listener of the
  -- machine whose behaviour first removes itself when the removal is due (`countedBeh`, cf. Util/Wrappers.lean, C16)
  | ["listencounted", k, cb, _] => some (.listen (nat! k) (nat! cb))
  | ["listencondrem", k, cb, _, _] => some (.listen (nat! k) (nat! cb))
  | ["unlisten", k, h] => some (.unlisten (nat! k) (nat! h))
  | ["hasany", k] => some (.hasAny (nat! k))
  | ["dispatch", k, a] => some (.dispatch (nat! k) (nat! a))
  | ["enqueue", k, a] => some (.enqueue (nat! k) (nat! a))
  | ["process"] => some .process
  | ["processone"] => some .processOne
  | ["processif", p] => some (.processIf (nat! p))
  | ["processuntil", p] => some (.processUntil (nat! p))
  | ["peek"] => some .peek
  | ["take"] => some .take
  | ["clear"] => some .clear
  | ["emptyq"] => some .emptyq
  | ["addfilter", f] => some (.addFilter (nat! f))
  | ["removefilter", h] => some (.removeFilter (nat! h))
  | _ => none

def splitSemi (ts : List String) : List (List String) :=
  let rec go (acc : List (List String)) (cur : List String) : List String → List (List String)
    | [] => (acc ++ [cur]).filter (· ≠ [])
    | t :: r => if t = ";" then go (acc ++ [cur]) [] r else go acc (cur ++ [t]) r
  go [] [] ts

def progOf (cmds : List QCmd) (verdict : Bool) : QProg :=
  match cmds with
  | [] => .ret verdict
  | c :: r => .op c (fun _ => progOf r verdict)

structure BehEntry where
  cb : Nat
  nth : Option Nat
  verdict : Bool
  cmds : List (List String)

def substSelf (h : Nat) (t : String) : String :=
  if t = "self" then toString h
  else if t.startsWith "self+" then toString (h + nat! (t.drop 5).toString)
  else if t.startsWith "self-" then
    let d := nat! (t.drop 5).toString
    if d ≤ h then toString (h - d) else "999999"
  else t

def instCmds (e : BehEntry) (h : Nat) : List QCmd :=
  e.cmds.filterMap (fun ts => parseCmd (ts.map (substSelf h)))

structure Script where
  name : String := ""
  nkeys : Nat := 1
  beh : List BehEntry := []
  rw : List (Nat × Nat) := []
  norw : Bool := false
  showKeys : Bool := false
  ordered : Option Bool := none
  /-- `cfg cci M R`: the `CanContinueInvoking` policy is `arg % M != R`; `M = 0` (default) = always continue -/
  cciM : Nat := 0
  cciR : Nat := 0
  /-- callbacks registered through `conditionalFunctor`: (cb, M, R), the wrapped listener runs iff `arg % M == R` -/
  conds : List (Nat × Nat × Nat) := []
  /-- callbacks added through CounterRemover (cb, trigger count) / ConditionalRemover (cb, M, R: remove when `arg % M == R`) -/
  counted : List (Nat × Int) := []
  condrem : List (Nat × Nat × Nat) := []
  /-- top-level commands; `none` entries are the copy / move meta-commands (in `metas`, by position) -/
  dos : List QCmd := []
  metas : List (Nat × String) := []

/-- is the removal of a wrapped listener due at this call? (`nth` = number of earlier calls of the callback) -/
def removalDue (sc : Script) (call : QCall) (nth : Nat) : Bool :=
  call.kind == .listener &&
  ((match sc.counted.find? (fun p => p.1 == call.cb) with
    | some p => Evp.Wrap.counterDue p.2 nth
    | none => false) ||
   (match sc.condrem.find? (fun p => p.1 == call.cb) with
    | some (_, m, r) => m != 0 && call.arg % m == r
    | none => false))

def behOf (sc : Script) : QBeh where
  run := fun call nth =>
    let inner : QProg :=
      match sc.beh.find? (fun e => e.cb == call.cb && e.nth == some nth) with
      | some e => progOf (instCmds e call.h) e.verdict
      | none => match sc.beh.find? (fun e => e.cb == call.cb && e.nth == none) with
        | some e => progOf (instCmds e call.h) e.verdict
        | none => .ret true
    -- the wrapper removes the listener BEFORE it calls the wrapped listener (Generated/RemoverFrag: removeBeforeCall)
    if removalDue sc call nth then .op (.unlisten call.key call.h) (fun _ => inner) else inner
  rewrite := fun cb a =>
    if sc.norw then a else
    match sc.rw.find? (fun p => p.1 == cb) with
    | some p => a + p.2
    | none => a
  cont := fun arg => if sc.cciM == 0 then true else arg % sc.cciM != sc.cciR

def showRes : QRes → String
  | .unit => "unit"
  | .bool b => if b then "true" else "false"
  | .handle h => s!"h{h}"
  | .ev k a => s!"ev {k} {a}"

def showKind : CallKind → String
  | .listener => "listener"
  | .filter => "filter"
  | .pred => "pred"

/-- conditions found in a command list (`listencond K CB M R`) -/
def countedOf (cmds : List (List String)) : List (Nat × Int) :=
  cmds.filterMap (fun ts => match ts with
    | ["listencounted", _, cb, n] => some (nat! cb, n.toInt?.getD 0)
    | _ => none)

def condremOf (cmds : List (List String)) : List (Nat × Nat × Nat) :=
  cmds.filterMap (fun ts => match ts with
    | ["listencondrem", _, cb, m, r] => some (nat! cb, nat! m, nat! r)
    | _ => none)

def condsOf (cmds : List (List String)) : List (Nat × Nat × Nat) :=
  cmds.filterMap (fun ts => match ts with
    | ["listencond", _, cb, m, r] => some (nat! cb, nat! m, nat! r)
    | _ => none)

def condHolds (conds : List (Nat × Nat × Nat)) (cb arg : Nat) : Bool :=
  match conds.find? (fun p => p.1 == cb) with
  | some (_, m, r) => m != 0 && arg % m == r
  | none => true

def showEv (showKeys : Bool) (conds : List (Nat × Nat × Nat) := []) : QEv → Option String
  | .call c =>
    if c.kind == .listener && !condHolds conds c.cb c.arg then none else
    let key := if c.kind == .listener || showKeys then toString c.key else "-1"
    some s!"ev call {showKind c.kind} {key} {c.h} {c.cb} {c.arg}"
  | .res r => some s!"ev res {showRes r}"
  | .consumed _ _ => none

def showEntries (L : List (Nat × Nat)) : String :=
  " ".intercalate (L.map (fun e => s!"{e.1}:{e.2}"))

def stepBudget : Nat := 20000

def run (sc : Script) : List String := Id.run do
  let b := behOf sc
  let mut c : QCfg := { ordered := sc.ordered, nkeys := sc.nkeys }
  let mut out : List String := []
  let mut idx := 0
  -- `queueNotifyCounter` of the current queue object: number of live DisableQueueNotify objects made for it
  let mut nc := 0
  for cmd in sc.dos do
    let metaKind := (sc.metas.find? (fun p => p.1 == idx)).map (·.2)
    idx := idx + 1
    match metaKind with
    | some kind =>
      if kind == "dqnb" then nc := nc + 1
      else if kind == "dqne" then nc := nc - 1
      else if kind == "self" then pure ()     -- copy-assignment from itself changes nothing
      else
        -- a copied / moved-to queue is a new object: nobody disabled ITS notifications (C10_counters_zero)
        c := if kind == "copy" then c.copyOf else c.moveOf
        nc := 0
      out := out ++ ["ev res unit"]
    | none =>
      let before := c.trace.length
      let (c', halted) := QCfg.runN b stepBudget { c with stack := [.prog (.op cmd (fun _ => .ret true))] }
      c := { c' with stack := [] }
      let newEvs := (c.trace.take (c.trace.length - before)).reverse
      let oldEvs := c.trace.drop (c.trace.length - before)
      -- the `unlisten` a remover wrapper performs on itself is internal to the library: its result is not shown
      let mut seen : List QEv := oldEvs
      let mut dropNext := false
      for e in newEvs do
        match e with
        | .call cl =>
          dropNext := removalDue sc cl (countCalls seen cl.cb)
          out := out ++ (showEv sc.showKeys sc.conds e).toList
        | .res _ =>
          if dropNext then dropNext := false
          else out := out ++ (showEv sc.showKeys sc.conds e).toList
        | _ => out := out ++ (showEv sc.showKeys sc.conds e).toList
        seen := e :: seen
      if !halted then out := out ++ ["fuel"]
    let qs := c.queue.map (fun s => match s.ev with
      | some e => s!"{e.key}:{e.arg}"
      | none => "<empty-slot>")
    out := out ++ [("q : " ++ " ".intercalate qs).trimAsciiEnd.toString]
    let bad := c.queue.any (fun s => s.ev.isNone) || c.free.any (fun s => s.ev.isSome)
    out := out ++ [s!"slots {c.queue.length} {c.free.length} {c.ec} {nc}" ++ (if bad then " slotbad" else "")]
    for k in List.range sc.nkeys do
      out := out ++ [(s!"lst {k} : " ++ showEntries ((c.lists k).map (fun e => (e.id, e.cb)))).trimAsciiEnd.toString]
    out := out ++ [("flt : " ++ showEntries (c.filters.map (fun e => (e.id, e.cb)))).trimAsciiEnd.toString]
    let ncb := (List.range sc.nkeys).foldl (fun acc k => acc + (c.lists k).length) 0 + c.filters.length
    out := out ++ [s!"ledger {c.queue.length} {ncb} 0 0"]
  out := out ++ ["final-ledger 0 0 0 0"]
  return out

def addLine (sc : Script) (line : String) : Script :=
  match toks line with
  | "lists" :: n :: _ => { sc with nkeys := nat! n }
  | ["cfg", "rw", cb, d] => { sc with rw := sc.rw ++ [(nat! cb, nat! d)] }
  | ["cfg", "norw", v] => { sc with norw := v != "0" }
  | ["cfg", "include", v] => { sc with showKeys := v != "0" }
  | ["cfg", "ordered", v] => { sc with ordered := if v = "asc" then some true else if v = "desc" then some false else none }
  | ["cfg", "cci", m, r] => { sc with cciM := nat! m, cciR := nat! r }
  | "beh" :: cb :: nth :: v :: rest =>
    { sc with beh := sc.beh ++ [⟨nat! cb, if nth = "*" then none else some (nat! nth), v != "0", splitSemi rest⟩],
              conds := sc.conds ++ condsOf (splitSemi rest), counted := sc.counted ++ countedOf (splitSemi rest),
              condrem := sc.condrem ++ condremOf (splitSemi rest) }
  | ["do", "qcopy", _] => { sc with metas := sc.metas ++ [(sc.dos.length, "copy")], dos := sc.dos ++ [.emptyq] }
  | ["do", "qmove", _] => { sc with metas := sc.metas ++ [(sc.dos.length, "move")], dos := sc.dos ++ [.emptyq] }
  | ["do", "qassign", _] => { sc with metas := sc.metas ++ [(sc.dos.length, "copy")], dos := sc.dos ++ [.emptyq] }
  | ["do", "qmoveassign", _] => { sc with metas := sc.metas ++ [(sc.dos.length, "move")], dos := sc.dos ++ [.emptyq] }
  | ["do", "qselfassign"] => { sc with metas := sc.metas ++ [(sc.dos.length, "self")], dos := sc.dos ++ [.emptyq] }
  | ["do", "dqnb"] => { sc with metas := sc.metas ++ [(sc.dos.length, "dqnb")], dos := sc.dos ++ [.emptyq] }
  | ["do", "dqne"] => { sc with metas := sc.metas ++ [(sc.dos.length, "dqne")], dos := sc.dos ++ [.emptyq] }
  -- a copy of a live DisableQueueNotify is one more live object; a temporary assigned to a live one changes nothing
  | ["do", "dqnc"] => { sc with metas := sc.metas ++ [(sc.dos.length, "dqnb")], dos := sc.dos ++ [.emptyq] }
  | ["do", "dqna"] => { sc with metas := sc.metas ++ [(sc.dos.length, "self")], dos := sc.dos ++ [.emptyq] }
  | "do" :: rest =>
    match parseCmd rest with
    | some c => { sc with dos := sc.dos ++ [c], conds := sc.conds ++ condsOf [rest], counted := sc.counted ++ countedOf [rest],
                           condrem := sc.condrem ++ condremOf [rest] }
    | none => sc
  | _ => sc

def main (lines : Array String) : IO Unit := do
  let out ← IO.getStdout
  let mut cur : Option Script := none
  let flush (s : Option Script) : IO Unit := do
    match s with
    | none => pure ()
    | some sc =>
      out.putStrLn s!"--- {sc.name}"
      for l in run sc do out.putStrLn l
  for line in lines do
    match toks line with
    | "---" :: name :: _ =>
      flush cur
      cur := some { name := name }
    | _ => cur := cur.map (addLine · line)
  flush cur

end QD
