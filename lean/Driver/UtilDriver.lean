import EventppVerif.Util.AnyId
import EventppVerif.Util.AnyData
/- Line-protocol front ends for the utility models (driver modes `anyid`, …). -/
open Evp

namespace UD

instance : Inhabited (AnyId.Id Nat) := ⟨⟨0, 0⟩⟩

def toks (line : String) : List String :=
  (line.trimAscii.toString.splitOn " ").filter (· ≠ "")
def nat! (s : String) : Nat := s.toNat?.getD 0

/-- mode `anyid`: input `--- name`, `cfg storage 0|1`, `dg i digest vcode`; output every pair's
    eq / lt / heq and the listeners reached by an ordered and by a hashed dispatcher -/
def anyidSection (storage : Bool) (ids : List (AnyId.Id Nat)) : List String := Id.run do
  let c : AnyId.Cmp Nat := if storage then AnyId.natCmp' else AnyId.Cmp.none Nat
  let n := ids.length
  let idx := List.range n
  let mut out : List String := []
  for i in idx do
    out := out ++ [s!"dg {i} {(ids[i]!).digest} {(ids[i]!).value}"]
  for i in idx do
    for j in idx do
      let e := AnyId.idEq c ids[i]! ids[j]!
      out := out ++ [s!"eq {i} {j} {if e then 1 else 0}"]
      out := out ++ [s!"lt {i} {j} {if AnyId.idLt c ids[i]! ids[j]! then 1 else 0}"]
      if e then out := out ++ [s!"heq {i} {j} 1"]
  for i in idx do
    let fs := idx.filter (fun j => AnyId.idEq c ids[i]! ids[j]!)
    let s := " ".intercalate (fs.map toString)
    out := out ++ [(s!"fire_map {i} : " ++ s).trimAsciiEnd.toString, (s!"fire_umap {i} : " ++ s).trimAsciiEnd.toString]
  return out

def anyidMain (lines : Array String) : IO Unit := do
  let out ← IO.getStdout
  let mut name : Option String := none
  let mut storage := true
  let mut ids : List (AnyId.Id Nat) := []
  for line in lines do
    match toks line with
    | "---" :: nm :: _ =>
      if let some n := name then
        out.putStrLn s!"--- {n}"
        for l in anyidSection storage ids do out.putStrLn l
      name := some nm
      ids := []
    | ["cfg", "storage", v] => storage := v != "0"
    | ["dg", _, d, v] => ids := ids ++ [⟨nat! d, nat! v⟩]
    | _ => pure ()
  if let some n := name then
    out.putStrLn s!"--- {n}"
    for l in anyidSection storage ids do out.putStrLn l

end UD

namespace UD
open Evp.AnyData in
/-- mode `anydata`: same script as harness/gen_anydata.cpp; `qput a` is a move into a hidden slot,
    `qproc` reads and destroys the hidden slots in FIFO order -/
def anydataMain (lines : Array String) : IO Unit := do
  let out ← IO.getStdout
  let mut cap := 16
  let mut szl := 16
  let mut s : St := {}
  let mut hidden : List (Nat × Nat) := []   -- (hidden slot, type tag)
  let mut nextHidden := 100000
  let showOut : Out → String := fun o => match o with
    | .skip => "skip" | .ok => "ok" | .val v => s!"val {v}" | .bool b => s!"bool {if b then 1 else 0}" | .noCtor => "noctor"
  for line in lines do
    match toks line with
    | "---" :: nm :: _ =>
      out.putStrLn s!"--- {nm}"
      s := {}
      hidden := []
    | ["cfg", "cap", v] => cap := nat! v
    | ["cfg", "szlarge", v] => szl := nat! v
    | ["new", a, ty, size, v] =>
      let (s', o) := step cap szl s (.new (nat! a) (nat! ty) (nat! size) (nat! v)); s := s'
      out.putStrLn (showOut o); out.putStrLn s!"live {s.live}"
    | ["newc", a, ty, size, v] =>
      -- constructed from a const lvalue: the AnyData holds its own copy, of the same type
      let (s', o) := step cap szl s (.new (nat! a) (nat! ty) (nat! size) (nat! v)); s := s'
      out.putStrLn (showOut o); out.putStrLn s!"live {s.live}"
    | ["husk", a] =>
      -- what a moved-from AnyData still holds: a moved-from object (inline storage) or nothing (LargeData)
      (match lookup s (nat! a) with
      | some (.inl o) => out.putStrLn (if o.moved then "husk moved" else "skip")
      | some (.large none) => out.putStrLn "husk none"
      | _ => out.putStrLn "skip")
      out.putStrLn s!"live {s.live}"
    | ["move", b, a] =>
      let (s', o) := step cap szl s (.move (nat! b) (nat! a)); s := s'
      out.putStrLn (showOut o); out.putStrLn s!"live {s.live}"
    | ["get", a] =>
      let (s', o) := step cap szl s (.get (nat! a)); s := s'
      out.putStrLn (showOut o); out.putStrLn s!"live {s.live}"
    | ["istype", a, ty] =>
      let (s', o) := step cap szl s (.isType (nat! a) (nat! ty)); s := s'
      out.putStrLn (showOut o); out.putStrLn s!"live {s.live}"
    | ["del", a] =>
      let (s', o) := step cap szl s (.del (nat! a)); s := s'
      out.putStrLn (showOut o); out.putStrLn s!"live {s.live}"
    | ["qput", a] =>
      match lookup s (nat! a) with
      | some sh =>
        if sh.movedFrom then out.putStrLn "skip"
        else
          let ty := (sh.obj?.map (·.ty)).getD 0
          let (s', o) := step cap szl s (.move nextHidden (nat! a)); s := s'
          hidden := hidden ++ [(nextHidden, ty)]
          nextHidden := nextHidden + 1
          out.putStrLn (showOut o)
      | none => out.putStrLn "skip"
      out.putStrLn s!"live {s.live}"
    | ["qproc"] =>
      for (h, ty) in hidden do
        let (_, o1) := step cap szl s (.get h)
        let (_, o2) := step cap szl s (.isType h ty)
        let t := match o2 with | .bool true => 1 | _ => 0
        out.putStrLn s!"{showOut o1} type {t}"
        let (s', _) := step cap szl s (.del h); s := s'
      hidden := []
      out.putStrLn "ok"; out.putStrLn s!"live {s.live}"
    | _ => pure ()
  out.putStrLn "final-live 0"
end UD
