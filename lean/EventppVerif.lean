import EventppVerif.Basic
import EventppVerif.CL.Model
import EventppVerif.CL.Spec
import EventppVerif.CL.Machine
