/-
  Basic vocabulary shared by every model: node heaps with `upd`, results, commands,
  interaction-tree programs and behaviour tables.

  Nothing here imports Mathlib, so the driver (a `lean_exe`) links.
-/
namespace Evp

/-- Callback identity (the harness uses the same number for the real callable). -/
abbrev Cb := Nat
/-- A handle is the creation index of the node it was returned for.  An index that was
    never issued denotes the empty handle. -/
abbrev Hd := Nat

/-- One node of `CallbackListBase::Node`.  `counter = 0` is `removedCounter`. -/
structure Node where
  prev : Option Nat := none
  next : Option Nat := none
  cb : Cb := 0
  counter : Nat := 0
deriving DecidableEq, Repr

instance : Inhabited Node := ⟨{}⟩

/-- A total store `Nat → α` with a default, backed by an array so that the compiled driver has
    O(1) access.  Proofs use only `upd_get`. -/
structure Store (α : Type) where
  arr : Array α := #[]

namespace Store
variable {α : Type} [Inhabited α]
def get (s : Store α) (i : Nat) : α := (s.arr[i]?).getD default
instance : CoeFun (Store α) (fun _ => Nat → α) := ⟨get⟩
end Store

section
variable {α : Type} [Inhabited α]

/-- Point-wise update. -/
def upd (s : Store α) (i : Nat) (v : α) : Store α :=
  ⟨(s.arr ++ Array.replicate (i + 1 - s.arr.size) default).setIfInBounds i v⟩

theorem upd_get (s : Store α) (i j : Nat) (v : α) :
    (upd s i v) j = if j = i then v else s j := by
  show Store.get _ j = if j = i then v else Store.get s j
  unfold Store.get upd
  simp only [Array.getElem?_setIfInBounds, Array.getElem?_append, Array.getElem?_replicate,
    Array.size_append, Array.size_replicate]
  by_cases hj : j = i
  · subst hj
    simp
    split
    · rfl
    · omega
  · have : i ≠ j := Ne.symm hj
    simp [this, hj]
    split
    · rfl
    · rename_i h
      have : s.arr[j]? = none := by simp; omega
      simp [this]
      split <;> rfl

@[simp] theorem upd_same (s : Store α) (i : Nat) (v : α) : (upd s i v) i = v := by
  simp [upd_get]

@[simp] theorem upd_other (s : Store α) (i j : Nat) (v : α) (hne : j ≠ i) :
    (upd s i v) j = s j := by
  simp [upd_get, hne]

@[simp] theorem Store.empty_get (i : Nat) : ({} : Store α) i = default := by
  show Store.get _ i = default
  simp [Store.get]
end

abbrev Heap := Store Node

/-- Result of a command, handed to the continuation of the issuing program. -/
inductive Res
  | unit
  | bool (b : Bool)
  | handle (h : Hd)
deriving DecidableEq, Repr, Inhabited

/-- Public operations on a world of callback lists (list id = dispatcher key). -/
inductive Cmd
  | append (l : Nat) (cb : Cb)
  | prepend (l : Nat) (cb : Cb)
  | insert (l : Nat) (cb : Cb) (before : Hd)
  | remove (l : Nat) (h : Hd)
  | owns (l : Nat) (h : Hd)
  | empty (l : Nat)
  /-- `operator()` / `dispatch`: call every callback; the callbacks' verdicts are ignored. -/
  | invoke (l : Nat) (arg : Nat)
  /-- `forEachIf`: visit every callback; stop at the first visit whose verdict is `false`. -/
  | enum (l : Nat) (arg : Nat)
  /-- `dst = src` (copy assignment; copy construction is assignment into an empty slot) -/
  | copyAssign (dst src : Nat)
  /-- `dst = std::move(src)` -/
  | moveAssign (dst src : Nat)
  | swap (a b : Nat)
  /-- harness-only: `currentCounter := max currentCounter (M - k)` for `0 < k ≤ M` (places the wrap, C19) -/
  | setCounter (l : Nat) (k : Nat)
deriving DecidableEq, Repr

/-- Programs are interaction trees: the next command may depend on every earlier result.
    `ret v` ends the program; `v` is the verdict of a callback / visitor (`true` = go on). -/
inductive Prog
  | ret (verdict : Bool)
  | op (c : Cmd) (k : Res → Prog)

/-- One observable call: (list, handle, callback, argument, verdict-honouring enumeration?). -/
structure Call where
  list : Nat
  h : Hd
  cb : Cb
  arg : Nat
  enum : Bool
deriving DecidableEq, Repr

/-- What each callback does, given the call (list, its own handle, callback id, argument,
    invocation or enumeration) and how often that callback id has been called before.
    Theorems quantify over every `Beh`. -/
abbrev Beh := Call → Nat → Prog

/-- Observable events of a run: every callback call and the result of every command, at any
    nesting depth, in execution order (the trace is kept newest first). -/
inductive Ev
  | call (c : Call)
  | res (r : Res)
deriving DecidableEq, Repr

def Ev.isCallOf (cb : Cb) : Ev → Bool
  | .call c => c.cb == cb
  | .res _ => false

def countCalls (tr : List Ev) (cb : Cb) : Nat := (tr.filter (Ev.isCallOf cb)).length

end Evp
