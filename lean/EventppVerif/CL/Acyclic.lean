import EventppVerif.CL.PropAux2
/-
  The removed nodes of a list object form an acyclic graph under `next` / `previous`.

  `doFreeNode` leaves the links of the node it removes untouched, so removed nodes keep stale
  `shared_ptr`s to other nodes.  Reference counting releases such garbage only if it has no cycle.
  Here: every operation writes only live nodes and the freshly allocated node (`Frame`), a node is
  removed only while its neighbours are live, hence an edge between two removed nodes always leads
  from the earlier removed node to the later removed one.  `RankedBy l rank B` records this with
  `rank` = removal time and `B` = the current time; `Ranked l` is preserved by every list
  operation and by every step of the Model machine, and it excludes cycles of removed nodes
  (`acyclic_of_ranked`).  Helper level; the property theorems are in Properties/C08acyclic.lean.
-/
namespace Evp

/-! ### the invariant -/

/-- `a → b`: `b` is the `next` or the `previous` of `a` (one `shared_ptr` held by node `a`) -/
def CL.edge (l : CL) (a b : Nat) : Prop := (l.heap a).next = some b ∨ (l.heap a).prev = some b

/-- an edge between two removed nodes (`counter = removedCounter`) -/
def CL.gedge (l : CL) (a b : Nat) : Prop :=
  (l.heap a).counter = 0 ∧ (l.heap b).counter = 0 ∧ l.edge a b

/-- `rank` (removal time, below the current time `B`) strictly increases along every edge between
    two removed nodes -/
def RankedBy (l : CL) (rank : Nat → Nat) (B : Nat) : Prop :=
  (∀ a, rank a < B) ∧ ∀ a b, l.gedge a b → rank a < rank b

/-- the removed nodes of `l` can be ranked -/
def Ranked (l : CL) : Prop := ∃ rank B, RankedBy l rank B

/-- the form without the clock: some rank increases along every edge between removed nodes -/
theorem Ranked.rank {l : CL} (h : Ranked l) :
    ∃ rank : Nat → Nat, ∀ a, (l.heap a).counter = 0 →
      ∀ b, ((l.heap a).next = some b ∨ (l.heap a).prev = some b) → (l.heap b).counter = 0 →
      rank a < rank b := by
  obtain ⟨rank, B, _, h2⟩ := h
  exact ⟨rank, fun a ha b he hb => h2 a b ⟨ha, hb, he⟩⟩

/-- `Ranked` reads only the heap -/
theorem Ranked.congr {l l' : CL} (h : Ranked l) (e : l'.heap = l.heap) : Ranked l' := by
  obtain ⟨rank, B, h1, h2⟩ := h
  refine ⟨rank, B, h1, fun a b hg => h2 a b ?_⟩
  unfold CL.gedge CL.edge at *
  rw [e] at hg
  exact hg

/-- a heap whose removed nodes have no links at all -/
theorem ranked_of_no_links {l : CL}
    (h : ∀ a, (l.heap a).counter = 0 → (l.heap a).next = none ∧ (l.heap a).prev = none) : Ranked l := by
  refine ⟨fun _ => 0, 1, fun _ => Nat.zero_lt_one, fun a b hg => ?_⟩
  obtain ⟨ha, _, he⟩ := hg
  obtain ⟨h1, h2⟩ := h a ha
  unfold CL.edge at he
  rw [h1, h2] at he
  rcases he with he | he <;> cases he

theorem default_node_next (a : Nat) : ((({} : Heap)) a).next = none := by
  rw [Store.empty_get]; rfl
theorem default_node_prev (a : Nat) : ((({} : Heap)) a).prev = none := by
  rw [Store.empty_get]; rfl
theorem default_node_counter (a : Nat) : ((({} : Heap)) a).counter = 0 := by
  rw [Store.empty_get]; rfl

/-- an object with an empty heap (fresh, cleared or moved-from) -/
theorem ranked_of_heap_empty {l : CL} (h : l.heap = {}) : Ranked l :=
  ranked_of_no_links (fun a _ => by rw [h]; exact ⟨default_node_next a, default_node_prev a⟩)

theorem Ranked.empty : Ranked {} := ranked_of_heap_empty rfl

/-! ### cycles -/

/-- a non-empty path `a → … → b` all of whose nodes are removed, `→` being `next` or `previous` -/
inductive GPath (l : CL) : Nat → Nat → Prop
  | single {a b} : l.gedge a b → GPath l a b
  | cons {a b c} : l.gedge a b → GPath l b c → GPath l a c

theorem RankedBy.path_lt {l rank B} (h : RankedBy l rank B) {a b} (p : GPath l a b) : rank a < rank b := by
  induction p with
  | single e => exact h.2 _ _ e
  | cons e _ ih => exact Nat.lt_trans (h.2 _ _ e) ih

/-- in a ranked list object no non-empty path through removed nodes returns to its start -/
theorem acyclic_of_ranked {l : CL} (h : Ranked l) (a : Nat) : ¬ GPath l a a := by
  obtain ⟨rank, B, hr⟩ := h
  exact fun p => Nat.lt_irrefl _ (hr.path_lt p)

/-- the same for paths given as the list of their nodes: `IsGPath l a [a₁, …, a_k]` says
    `a → a₁ → … → a_k` with all nodes removed -/
def IsGPath (l : CL) : Nat → List Nat → Prop
  | _, [] => True
  | a, b :: r => l.gedge a b ∧ IsGPath l b r

theorem RankedBy.isGPath_lt {l rank B} (h : RankedBy l rank B) :
    ∀ {a : Nat} {p : List Nat}, IsGPath l a p → ∀ x ∈ p, rank a < rank x
  | _, [], _, x, hx => by cases hx
  | a, b :: r, hp, x, hx => by
    have hab := h.2 a b hp.1
    rcases List.mem_cons.mp hx with rfl | hx
    · exact hab
    · exact Nat.lt_trans hab (h.isGPath_lt hp.2 x hx)

/-- no path `a → a₁ → … → a_k` through removed nodes comes back to `a` -/
theorem acyclic_of_ranked_list {l : CL} (h : Ranked l) (a : Nat) (p : List Nat) (hp : IsGPath l a p) :
    a ∉ p := by
  obtain ⟨rank, B, hr⟩ := h
  exact fun hm => Nat.lt_irrefl _ (hr.isGPath_lt hp a hm)

/-! ### operations that leave the removed nodes alone -/

/-- `l'` arises from `l` by an operation that writes only live nodes and the fresh node `id`
    (if any), never removes a node and leaves the fresh node live -/
structure Frame (l l' : CL) (id : Option Nat) : Prop where
  /-- a node that is removed (and is not the fresh one) is not written -/
  fwd : ∀ a, (l.heap a).counter = 0 → id ≠ some a → l'.heap a = l.heap a
  /-- a node that is removed afterwards was removed before, and is not the fresh one -/
  bwd : ∀ a, (l'.heap a).counter = 0 → (l.heap a).counter = 0 ∧ id ≠ some a

theorem Frame.refl (l : CL) (id : Option Nat) (h : ∀ a, id = some a → (l.heap a).counter ≠ 0) :
    Frame l l id :=
  ⟨fun _ _ _ => rfl, fun a ha => ⟨ha, fun e => h a e ha⟩⟩

theorem Frame.trans {l l1 l2 : CL} {id} (f1 : Frame l l1 none) (f2 : Frame l1 l2 id) : Frame l l2 id := by
  refine ⟨fun a ha hid => ?_, fun a ha => ?_⟩
  · have e1 := f1.fwd a ha (by simp)
    rw [f2.fwd a (by rw [e1]; exact ha) hid, e1]
  · obtain ⟨h1, h2⟩ := f2.bwd a ha
    exact ⟨(f1.bwd a h1).1, h2⟩

/-- every node removed afterwards is an unchanged node that was removed before -/
theorem Frame.same {l l' id} (f : Frame l l' id) {a} (ha : (l'.heap a).counter = 0) :
    (l.heap a).counter = 0 ∧ l'.heap a = l.heap a := by
  obtain ⟨h1, h2⟩ := f.bwd a ha
  exact ⟨h1, f.fwd a h1 h2⟩

theorem RankedBy.frame {l l' id rank B} (h : RankedBy l rank B) (f : Frame l l' id) : RankedBy l' rank B := by
  refine ⟨h.1, fun a b hg => h.2 a b ?_⟩
  obtain ⟨ha, hb, he⟩ := hg
  obtain ⟨ha', ea⟩ := f.same ha
  obtain ⟨hb', _⟩ := f.same hb
  unfold CL.edge at he
  rw [ea] at he
  exact ⟨ha', hb', he⟩

theorem Ranked.frame {l l' id} (h : Ranked l) (f : Frame l l' id) : Ranked l' := by
  obtain ⟨rank, B, hr⟩ := h
  exact ⟨rank, B, hr.frame f⟩

/-! ### the list operations -/

/-- `getNextCounter`, both branches: the wrap branch rewrites counters of chained (live) nodes only -/
theorem nextCounter_frame {l L b} (w : WF l L b) : Frame l (l.nextCounter (b + 1)).1 none := by
  unfold CL.nextCounter
  split
  · have hs := setOnes_seg w.fwd w.nodup (Nat.lt_succ_of_le w.length_le)
    refine ⟨fun a ha _ => ?_, fun a ha => ?_⟩
    · show setOnes l.heap (b + 1) l.head a = l.heap a
      rw [hs a, if_neg (fun hm => (w.live a).mp hm ha)]
    · have ha' : (setOnes l.heap (b + 1) l.head a).counter = 0 := ha
      rw [hs a] at ha'
      split at ha'
      · simp at ha'
      · exact ⟨ha', by simp⟩
  · exact ⟨fun _ _ _ => rfl, fun a ha => ⟨ha, by simp⟩⟩

theorem linkBack_frame {l L b id cb c} (w : WF l L b) (hc0 : c ≠ 0) :
    Frame l (l.linkBack id cb c) (some id) := by
  unfold CL.linkBack
  split
  · rename_i hd t hh ht
    have htl : (l.heap t).counter ≠ 0 :=
      (w.live t).mp (List.mem_of_getLast? (by rw [← w.tail_eq]; exact ht))
    refine ⟨fun a ha hid => ?_, fun a ha => ?_⟩
    · show upd (upd l.heap id _) t _ a = l.heap a
      simp only [upd_get]; grind
    · have ha' : (upd (upd l.heap id ⟨some t, none, cb, c⟩) t
          { l.heap t with next := some id } a).counter = 0 := ha
      simp only [upd_get] at ha'
      grind
  · refine ⟨fun a ha hid => ?_, fun a ha => ?_⟩
    · show upd l.heap id _ a = l.heap a
      simp only [upd_get]; grind
    · have ha' : (upd l.heap id ⟨none, none, cb, c⟩ a).counter = 0 := ha
      simp only [upd_get] at ha'
      grind
  · rename_i hd hh ht
    have h1 := w.head_eq
    have h2 := w.tail_eq
    rw [hh] at h1
    rw [ht] at h2
    cases L with
    | nil => simp at h1
    | cons x r => simp [List.getLast?_cons] at h2

theorem linkFront_frame {l L b id cb c} (w : WF l L b) (hc0 : c ≠ 0) :
    Frame l (l.linkFront id cb c) (some id) := by
  unfold CL.linkFront
  split
  · rename_i hd hh
    have hdl : (l.heap hd).counter ≠ 0 :=
      (w.live hd).mp (List.mem_of_head? (by rw [← w.head_eq]; exact hh))
    refine ⟨fun a ha hid => ?_, fun a ha => ?_⟩
    · show upd (upd l.heap id _) hd _ a = l.heap a
      simp only [upd_get]; grind
    · have ha' : (upd (upd l.heap id ⟨none, some hd, cb, c⟩) hd
          { l.heap hd with prev := some id } a).counter = 0 := ha
      simp only [upd_get] at ha'
      grind
  · refine ⟨fun a ha hid => ?_, fun a ha => ?_⟩
    · show upd l.heap id _ a = l.heap a
      simp only [upd_get]; grind
    · have ha' : (upd l.heap id ⟨none, none, cb, c⟩ a).counter = 0 := ha
      simp only [upd_get] at ha'
      grind

/-- `doInsert` before a live node `n`: writes the fresh node, `n` and the (live) predecessor of `n` -/
theorem linkBefore_frame {l L b id cb c n} (w : WF l L b) (hc0 : c ≠ 0) (hn : (l.heap n).counter ≠ 0) :
    Frame l (l.linkBefore id cb c n) (some id) := by
  have hp : ∀ p, (l.heap n).prev = some p → (l.heap p).counter ≠ 0 := fun p hp =>
    (w.live p).mp (w.prev_mem ((w.live n).mpr hn) hp)
  refine ⟨fun a ha hid => ?_, fun a ha => ?_⟩
  · unfold CL.linkBefore
    cases hq : (l.heap n).prev <;> simp only [upd_get] <;> grind
  · unfold CL.linkBefore at ha
    cases hq : (l.heap n).prev <;> simp only [hq, upd_get] at ha <;> grind

theorem nextCounter_ne_zero (l : CL) (fuel : Nat) : (l.nextCounter fuel).2 ≠ 0 := by
  unfold CL.nextCounter; split <;> simp

theorem append_frame {l L b} (w : WF l L b) (id : Nat) (cb : Cb) :
    Frame l (l.append (b + 1) id cb) (some id) := by
  rw [append_eq]
  exact (nextCounter_frame w).trans (linkBack_frame w.nextCounter.1 (nextCounter_ne_zero _ _))

theorem prepend_frame {l L b} (w : WF l L b) (id : Nat) (cb : Cb) :
    Frame l (l.prepend (b + 1) id cb) (some id) := by
  rw [prepend_eq]
  exact (nextCounter_frame w).trans (linkFront_frame w.nextCounter.1 (nextCounter_ne_zero _ _))

theorem insert_frame {l L b} (w : WF l L b) (id : Nat) (cb : Cb) (before : Hd) :
    Frame l (l.insert (b + 1) id cb before) (some id) := by
  rw [insert_eq]
  split
  · rename_i hl
    exact (nextCounter_frame w).trans (linkBefore_frame w.nextCounter.1 (nextCounter_ne_zero _ _) hl)
  · exact (nextCounter_frame w).trans (linkBack_frame w.nextCounter.1 (nextCounter_ne_zero _ _))

/-! ### `doFreeNode` -/

/-- `doFreeNode(n)` writes only `n` and its two neighbours -/
theorem freeNode_other (l : CL) (n a : Nat) (h1 : (l.heap n).next ≠ some a) (h2 : (l.heap n).prev ≠ some a)
    (h3 : a ≠ n) : (l.freeNode n).heap a = l.heap a := by
  unfold CL.freeNode
  cases hp : (l.heap n).prev <;> cases hq : (l.heap n).next <;> simp only [hp, hq, upd_get] <;> grind

/-- what `doFreeNode(n)` of a live node `n` does to the removed nodes:
    * a node that is already removed is not written,
    * the removed nodes afterwards are `n` and those removed before,
    * `n` keeps its links, and they lead to nodes that are live afterwards. -/
theorem freeNode_removed {l L b n} (w : WF l L b) (hn : (l.heap n).counter ≠ 0) :
    (∀ a, (l.heap a).counter = 0 → (l.freeNode n).heap a = l.heap a) ∧
    (∀ a, ((l.freeNode n).heap a).counter = 0 ↔ (a = n ∨ (l.heap a).counter = 0)) ∧
    ((l.freeNode n).heap n).next = (l.heap n).next ∧ ((l.freeNode n).heap n).prev = (l.heap n).prev ∧
    (∀ x, l.edge n x → ((l.freeNode n).heap x).counter ≠ 0) := by
  have hnL : n ∈ L := (w.live n).mpr hn
  obtain ⟨P, Q, rfl⟩ := List.append_of_mem hnL
  obtain ⟨_, s2, _, _, s5, _⟩ := w.split
  obtain ⟨_, _, n3, n4, _, _⟩ := nodup_split w.nodup
  have hnx : ∀ x, (l.heap n).next = some x → x ≠ n ∧ (l.heap x).counter ≠ 0 := by
    intro x hx
    rw [s2] at hx
    have hq := List.mem_of_head? hx
    exact ⟨fun e => n4 (e ▸ hq), (w.live x).mp (by simp [hq])⟩
  have hpx : ∀ x, (l.heap n).prev = some x → x ≠ n ∧ (l.heap x).counter ≠ 0 := by
    intro x hx
    rw [s5] at hx
    have hq := List.mem_of_getLast? hx
    exact ⟨fun e => n3 (e ▸ hq), (w.live x).mp (by simp [hq])⟩
  refine ⟨fun a ha => ?_, fun a => ?_, ?_, ?_, fun x hx => ?_⟩
  · exact freeNode_other l n a (fun e => (hnx a e).2 ha) (fun e => (hpx a e).2 ha)
      (fun e => hn (e ▸ ha))
  · rw [freeNode_counter]
    by_cases e : a = n <;> simp [e]
  · rw [freeNode_next, if_neg (fun e => (hpx n e).1 rfl)]
  · rw [freeNode_prev, if_neg (fun e => (hnx n e).1 rfl)]
  · rw [freeNode_counter]
    rcases hx with hx | hx
    · rw [if_neg (hnx x hx).1]; exact (hnx x hx).2
    · rw [if_neg (hpx x hx).1]; exact (hpx x hx).2

/-- removing a live node: it gets the current time as rank, above every rank so far -/
theorem freeNode_ranked {l L b n} (w : WF l L b) (hn : (l.heap n).counter ≠ 0) (h : Ranked l) :
    Ranked (l.freeNode n) := by
  obtain ⟨rank, B, hB, hr⟩ := h
  obtain ⟨f1, f2, f3, f4, f5⟩ := freeNode_removed w hn
  refine ⟨fun x => if x = n then B else rank x, B + 1, fun a => ?_, fun a c hg => ?_⟩
  · show (if a = n then B else rank a) < B + 1
    have := hB a
    split <;> omega
  · obtain ⟨ha, hc, he⟩ := hg
    show (if a = n then B else rank a) < (if c = n then B else rank c)
    by_cases han : a = n
    · subst han
      have : l.edge a c := by
        unfold CL.edge at he ⊢
        rw [f3, f4] at he
        exact he
      exact absurd hc (f5 c this)
    · have ha0 : (l.heap a).counter = 0 := by
        rcases (f2 a).mp ha with e | e
        · exact absurd e han
        · exact e
      rw [if_neg han]
      by_cases hcn : c = n
      · rw [if_pos hcn]; exact hB a
      · have hc0 : (l.heap c).counter = 0 := by
          rcases (f2 c).mp hc with e | e
          · exact absurd e hcn
          · exact e
        rw [if_neg hcn]
        refine hr a c ⟨ha0, hc0, ?_⟩
        unfold CL.edge at he ⊢
        rw [f1 a ha0] at he
        exact he

theorem remove_ranked {l L b} (w : WF l L b) (h : Ranked l) (hd : Hd) : Ranked (l.remove hd).1 := by
  unfold CL.remove
  split
  · rename_i hl
    exact freeNode_ranked w hl h
  · exact h

/-! ### copy -/

/-- `cloneFrom` writes only nodes that are live afterwards -/
theorem cloneChain_removed : ∀ (cbs : List Cb) (id c : Nat) (h : Heap) (prev : Option Nat), c ≠ 0 →
    (∀ p, prev = some p → (h p).counter ≠ 0) →
    ∀ a, ((cloneChain cbs id c h prev).1 a).counter = 0 → (cloneChain cbs id c h prev).1 a = h a
  | [], _, _, _, _, _, _, _, _ => rfl
  | cb :: rest, id, c, h, prev, hc, hp, a, ha => by
    simp only [cloneChain] at ha ⊢
    have key : ∀ x, ((match prev with
        | some p => upd (upd h id ⟨prev, none, cb, c⟩) p { (upd h id ⟨prev, none, cb, c⟩) p with next := some id }
        | none => upd h id ⟨prev, none, cb, c⟩) x).counter = 0 →
        (match prev with
        | some p => upd (upd h id ⟨prev, none, cb, c⟩) p { (upd h id ⟨prev, none, cb, c⟩) p with next := some id }
        | none => upd h id ⟨prev, none, cb, c⟩) x = h x := by
      intro x hx
      cases prev with
      | none => simp only [upd_get] at hx ⊢; grind
      | some p =>
        have := hp p rfl
        simp only [upd_get] at hx ⊢; grind
    have ih := cloneChain_removed rest (id + 1) c _ (some id) hc (fun p hpe => by
      cases hpe
      intro h0
      have := key id h0
      cases prev with
      | none => simp only [upd_get] at h0; grind
      | some p =>
        have := hp p rfl
        simp only [upd_get] at h0; grind) a ha
    rw [ih]
    rw [ih] at ha
    exact key a ha

/-- a fresh copy: every node in its heap is live, so it has no garbage at all -/
theorem clone_ranked (src : CL) (fuel id : Nat) : Ranked (src.clone fuel id) := by
  apply ranked_of_no_links
  intro a ha
  rw [clone_eq] at ha ⊢
  have := cloneChain_removed _ id 1 {} none (by decide) (fun p hp => by cases hp) a ha
  show ((cloneChain _ id 1 {} none).1 a).next = none ∧ ((cloneChain _ id 1 {} none).1 a).prev = none
  rw [this]
  exact ⟨default_node_next a, default_node_prev a⟩

/-! ### the machine -/

/-- every command keeps every list object of the world ranked -/
theorem ranked_apply {m : MCfg} (h : MInv m) (hr : ∀ l, Ranked (m.lists l)) (busy : Nat → Bool) (cmd : Cmd) :
    ∀ l, Ranked ((m.apply busy cmd).1.lists l) := by
  have upd1 : ∀ (l : Nat) (x : CL), Ranked x → ∀ l', Ranked (upd m.lists l x l') := by
    intro l x hx l'
    rw [upd_get]
    split
    · exact hx
    · exact hr l'
  cases cmd with
  | append l cb =>
    obtain ⟨SL, r⟩ := h l
    exact upd1 l _ ((hr l).frame (append_frame r.wf m.nextId cb))
  | prepend l cb =>
    obtain ⟨SL, r⟩ := h l
    exact upd1 l _ ((hr l).frame (prepend_frame r.wf m.nextId cb))
  | insert l cb b =>
    simp only [MCfg.apply]
    split
    · exact hr
    · obtain ⟨SL, r⟩ := h l
      exact upd1 l _ ((hr l).frame (insert_frame r.wf m.nextId cb b))
  | remove l hd =>
    simp only [MCfg.apply]
    split
    · exact hr
    · obtain ⟨SL, r⟩ := h l
      exact upd1 l _ (remove_ranked r.wf (hr l) hd)
  | owns l hd =>
    simp only [MCfg.apply]
    split <;> exact hr
  | empty l => exact hr
  | invoke l arg => exact hr
  | enum l arg => exact hr
  | copyAssign dst src =>
    simp only [MCfg.apply]
    split
    · exact hr
    · exact upd1 dst _ (clone_ranked _ _ _)
  | moveAssign dst src =>
    simp only [MCfg.apply]
    split
    · exact hr
    · intro l
      show Ranked (upd (upd m.lists dst (m.lists src)) src _ l)
      rw [upd_get, upd_get]
      split
      · exact ranked_of_heap_empty rfl
      · split
        · exact hr src
        · exact hr l
  | swap a b =>
    simp only [MCfg.apply]
    split
    · exact hr
    · intro l
      show Ranked (upd (upd m.lists a (m.lists b)) b (m.lists a) l)
      rw [upd_get, upd_get]
      split
      · exact hr a
      · split
        · exact hr b
        · exact hr l
  | setCounter l k => exact upd1 l _ ((hr l).congr rfl)

/-- one step of the Model machine keeps every list object ranked; traversal steps do not touch
    the heaps at all -/
theorem ranked_step (beh : Beh) {m m' : MCfg} (h : MInv m) (hr : ∀ l, Ranked (m.lists l))
    (st : MCfg.step beh m = some m') : ∀ l, Ranked (m'.lists l) := by
  rcases MCfg.step_cases st with ⟨hl, _, _⟩ | ⟨busy, cmd, hl, _, _⟩
  · intro l; rw [hl]; exact hr l
  · intro l; rw [hl]; exact ranked_apply h hr busy cmd l

theorem ranked_runN (beh : Beh) (n : Nat) {m : MCfg} (h : MInv m) (hr : ∀ l, Ranked (m.lists l)) :
    ∀ l, Ranked ((MCfg.runN beh n m).1.lists l) := by
  induction n generalizing m with
  | zero => exact hr
  | succ n ih =>
    unfold MCfg.runN
    cases hm : MCfg.step beh m with
    | none => exact hr
    | some m' => exact ih (minv_step beh h hm) (ranked_step beh h hr hm)

/-- a world all of whose list objects are empty -/
theorem ranked_init (m : MCfg) (h : m.lists = {}) : ∀ l, Ranked (m.lists l) := by
  intro l
  rw [h, Store.empty_get]
  exact Ranked.empty

end Evp
