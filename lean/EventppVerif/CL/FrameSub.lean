import EventppVerif.CL.PropAuxC19
import EventppVerif.CL.PropAux
/-
  Helper file for Properties/C19.lean (the clause about invocations that are in progress when the
  generation counter wraps).

  `FrameD` is the frame invariant of the simulation (`FrameOK`, CL/Inv.lean) made robust against
  counter wraps.  `FrameOK` compares what the traversal will still call (the nodes ahead that pass
  the guard `counter ≤ cap`) with the remaining snapshot of the Spec invocation; after a wrap the
  nodes appended during the invocation may pass the guard as well, so the equation breaks.
  `FrameD` carries, in addition to the remaining snapshot `rest`, the id bound `b0` of the moment
  the invocation started (every node allocated later has an id `≥ b0`) and says

    * the nodes ahead that are *older than the invocation* (`id < b0`) are exactly the still-present
      entries of the remaining snapshot, in order (an equation, it never mentions counters), and
    * every such old node passes the guard (`counter ≤ cap`).

  Both survive every structural operation, wrapping or not.  The sublist form (`FrameSub`: the
  still-present snapshot entries are a sublist, in order, of what the traversal will still call)
  is a corollary.

  The second half packages the invariant for the Model machine with a ghost stack (`Ghost`,
  `gstep`, `GInv`); `GhostOK` is the bookkeeping invariant of a ghost record (what was called so
  far vs. the consumed part of the snapshot).  Helper lemmas only; the property theorems are in
  Properties/C19.lean.
-/
namespace Evp

/-! ### list lemmas -/

theorem dropWhile_agree {α} {p q : α → Bool} {e : α} {es : List α} : ∀ {rest : List α},
    rest.dropWhile (fun x => !p x) = e :: es → (∀ x ∈ rest, p x = false → q x = true) → q e = false →
    rest.dropWhile q = e :: es
  | [], h, _, _ => by simp at h
  | x :: r, h, hq, he => by
    rw [List.dropWhile_cons] at h
    split at h
    · rename_i hx
      have hx' : p x = false := by simpa using hx
      have : q x = true := hq x (by simp) hx'
      rw [List.dropWhile_cons, if_pos this]
      exact dropWhile_agree h (fun y hy => hq y (List.mem_cons_of_mem _ hy)) he
    · simp at h
      obtain ⟨rfl, rfl⟩ := h
      rw [List.dropWhile_cons]
      simp [he]

theorem mem_takeWhile_true {α} {p : α → Bool} : ∀ {l : List α} {x : α}, x ∈ l.takeWhile p → p x = true
  | [], _, h => by cases h
  | a :: r, x, h => by
    rw [List.takeWhile_cons] at h
    split at h
    · rcases List.mem_cons.mp h with rfl | h
      · assumption
      · exact mem_takeWhile_true h
    · cases h

/-- a filtered-and-mapped list starts with `x`: the first element passing the filter maps to `x` -/
theorem filter_map_cons_dropWhile {α β} {p : α → Bool} {f : α → β} {x : β} {T : List β} {rest : List α}
    (h : (rest.filter p).map f = x :: T) :
    ∃ e es, rest.dropWhile (fun a => !p a) = e :: es ∧ p e = true ∧ f e = x ∧ (es.filter p).map f = T ∧
      e ∈ rest ∧ ∀ y ∈ es, y ∈ rest := by
  cases hd : rest.dropWhile (fun a => !p a) with
  | nil =>
    rw [dropWhile_not_nil hd] at h
    simp at h
  | cons e es =>
    obtain ⟨d1, d2, d3, d4⟩ := dropWhile_not_cons hd
    rw [d2] at h
    simp only [List.map_cons, List.cons.injEq] at h
    exact ⟨e, es, rfl, d1, h.1, h.2, d3, d4⟩

theorem filter_head_split {p : Nat → Bool} {Y : List Nat} {n : Nat} (h : (Y.filter p).head? = some n) :
    ∃ l₁ l₂, Y = l₁ ++ n :: l₂ ∧ (∀ x ∈ l₁, p x = false) ∧ p n = true := by
  cases hf : Y.filter p with
  | nil => rw [hf] at h; simp at h
  | cons a as =>
    rw [hf] at h
    simp at h
    subst h
    obtain ⟨l₁, l₂, h1, h2, h3, _⟩ := List.filter_eq_cons_iff.mp hf
    exact ⟨l₁, l₂, h1, fun x hx => by simpa using h2 x hx, h3⟩

/-! ### the frame invariant that survives wraps -/

/-- Ghost record of one running invocation: `born` is the world's id bound (`nextId`) when the
    invocation started — every callback added later has a handle `≥ born`; `snap` is the snapshot
    (the list content at the start); `rest` is the part of the snapshot that the invocation has
    not reached yet; `called` are the handles the invocation has called so far, in call order. -/
structure Ghost where
  born : Nat
  snap : List Entry
  rest : List Entry
  called : List Nat
deriving DecidableEq, Repr

/-- A running Model traversal standing on node `m` with captured generation `cap`, started when
    the id bound was `b0`, whose remaining snapshot is `rest` (see the file header). -/
def FrameD (l : CL) (SL : SList) (b : Nat) (m cap b0 : Nat) (rest : List Entry) : Prop :=
  ∃ R S : List Nat,
    S <:+ SL.ids ∧
    (∀ r ∈ R, (l.heap r).counter = 0 ∧ r < b) ∧
    R.Nodup ∧
    Seg nextF l.heap (some m) R S.head? ∧
    1 ≤ cap ∧ b0 ≤ b ∧
    (∀ a ∈ (if R = [] then S.tail else S), a < b0 → (l.heap a).counter ≤ cap) ∧
    ((if R = [] then S.tail else S).filter (fun n => decide (n < b0)))
      = ((rest.filter (fun e => SL.present e.id)).map (·.id)) ∧
    (∀ e ∈ rest, SL.present e.id → e ∈ SL) ∧
    (∀ e ∈ rest, e.id < b0)

/-- The sublist form of the frame invariant: the still-present entries of the remaining snapshot
    are a sublist, in order, of what the traversal will still call. -/
def FrameSub (l : CL) (SL : SList) (b : Nat) (m cap : Nat) (rest : List Entry) : Prop :=
  ∃ R S : List Nat,
    S <:+ SL.ids ∧
    (∀ r ∈ R, (l.heap r).counter = 0 ∧ r < b) ∧
    R.Nodup ∧
    Seg nextF l.heap (some m) R S.head? ∧
    List.Sublist ((rest.filter (fun e => SL.present e.id)).map (·.id))
      ((if R = [] then S.tail else S).filter (fun n => decide ((l.heap n).counter ≤ cap))) ∧
    (∀ e ∈ rest, SL.present e.id → e ∈ SL) ∧
    (∀ e ∈ rest, e.id < b)

theorem FrameOK.toSub {l SL b m cap rest} (f : FrameOK l SL b m cap rest) : FrameSub l SL b m cap rest := by
  obtain ⟨R, S, h1, h2, h3, h4, _, h6, h7, h8⟩ := f
  exact ⟨R, S, h1, h2, h3, h4, by rw [h6]; exact List.Sublist.refl _, h7, h8⟩

theorem FrameD.toSub {l SL b m cap b0 rest} (f : FrameD l SL b m cap b0 rest) : FrameSub l SL b m cap rest := by
  obtain ⟨R, S, h1, h2, h3, h4, h5, h6, h7, h8, h9, h10⟩ := f
  refine ⟨R, S, h1, h2, h3, h4, ?_, h9, fun e he => Nat.lt_of_lt_of_le (h10 e he) h6⟩
  rw [← h8]
  have : (if R = [] then S.tail else S).filter (fun n => decide (n < b0)) =
      ((if R = [] then S.tail else S).filter (fun n => decide ((l.heap n).counter ≤ cap))).filter
        (fun n => decide (n < b0)) := by
    rw [List.filter_filter]
    apply List.filter_congr
    intro a ha
    by_cases hab : a < b0
    · simp [hab, h7 a ha hab]
    · simp [hab]
  rw [this]
  exact List.filter_sublist

theorem FrameD.mono {l SL b b' m cap b0 rest} (f : FrameD l SL b m cap b0 rest) (h : b ≤ b') :
    FrameD l SL b' m cap b0 rest := by
  obtain ⟨R, S, h1, h2, h3, h4, h5, h6, h7, h8, h9, h10⟩ := f
  exact ⟨R, S, h1, fun r hr => ⟨(h2 r hr).1, Nat.lt_of_lt_of_le (h2 r hr).2 h⟩, h3, h4, h5,
    Nat.le_trans h6 h, h7, h8, h9, h10⟩

/-- `FrameD` does not read `cur` -/
theorem FrameD.cur {l SL b m cap b0 rest} (f : FrameD l SL b m cap b0 rest) (c : Nat) :
    FrameD { l with cur := c } SL b m cap b0 rest := f

/-- `getNextCounter`, wrap branch or not: counters of live nodes stay or drop to 1 -/
theorem framed_nextCounter {l SL b m cap b0 rest} (r : Rep l SL b) (f : FrameD l SL b m cap b0 rest) :
    FrameD (l.nextCounter (b + 1)).1 SL b m cap b0 rest := by
  obtain ⟨R, S, h1, h2, h3, h4, h5, h6, h7, h8, h9, h10⟩ := f
  obtain ⟨_, _, _, hf⟩ := r.wf.nextCounter
  refine ⟨R, S, h1, fun x hx => ⟨(hf x).2.2.2.mpr (h2 x hx).1, (h2 x hx).2⟩, h3, ?_, h5, h6, ?_, h8, h9, h10⟩
  · exact (seg_congr (fun a _ => (hf a).1)).mpr h4
  · intro a ha hab
    have hm : a ∈ SL.ids := h1.subset (mem_Y ha)
    rcases nextCounter_counter r hm with e | e
    · rw [e]; exact h7 a ha hab
    · rw [e]; exact h5

/-- transfer of a running traversal across an operation that only inserts the fresh node `b` -/
theorem framed_transfer_insert {l l' : CL} {SL SL' : SList} {b m cap b0 : Nat} {rest : List Entry}
    {R S S' : List Nat}
    (hR : ∀ r ∈ R, (l.heap r).counter = 0 ∧ r < b) (hnd : R.Nodup)
    (hseg : Seg nextF l.heap (some m) R S.head?) (hcap : 1 ≤ cap) (hb0 : b0 ≤ b)
    (hold : ∀ a ∈ (if R = [] then S.tail else S), a < b0 → (l.heap a).counter ≤ cap)
    (hfil : ((if R = [] then S.tail else S).filter (fun n => decide (n < b0)))
      = ((rest.filter (fun e => SL.present e.id)).map (·.id)))
    (hmem : ∀ e ∈ rest, SL.present e.id → e ∈ SL) (hlt : ∀ e ∈ rest, e.id < b0)
    (hsuf : S' <:+ SL'.ids)
    (hfrozen : ∀ a, (l.heap a).counter = 0 → a < b →
      (l'.heap a).counter = 0 ∧ (l'.heap a).next = (l.heap a).next)
    (hhead : S'.head? = S.head?)
    (hY : ((if R = [] then S'.tail else S').filter (fun n => decide (n < b0)))
      = ((if R = [] then S.tail else S).filter (fun n => decide (n < b0))))
    (hcnt : ∀ a ∈ S, (l'.heap a).counter = (l.heap a).counter)
    (hids : ∀ x, x ∈ SL'.ids ↔ x = b ∨ x ∈ SL.ids)
    (hsub : ∀ e ∈ SL, e ∈ SL') :
    FrameD l' SL' (b + 1) m cap b0 rest := by
  have hpres : ∀ e ∈ rest, SL'.present e.id = SL.present e.id := by
    intro e he
    have := hlt e he
    rw [Bool.eq_iff_iff, SList.present_iff, SList.present_iff, hids]
    constructor
    · rintro (h | h)
      · exact absurd h (Nat.ne_of_lt (Nat.lt_of_lt_of_le this hb0))
      · exact h
    · exact Or.inr
  refine ⟨R, S', hsuf, fun r hr => ?_, hnd, ?_, hcap, Nat.le_succ_of_le hb0, ?_, ?_, ?_, hlt⟩
  · have := hR r hr
    exact ⟨(hfrozen r this.1 this.2).1, by omega⟩
  · rw [hhead]
    refine (seg_congr (fun a ha => ?_)).mpr hseg
    have := hR a ha
    exact (hfrozen a this.1 this.2).2
  · intro a ha hab
    have hm : a ∈ (if R = [] then S'.tail else S').filter (fun n => decide (n < b0)) :=
      List.mem_filter.mpr ⟨ha, by simpa using hab⟩
    rw [hY] at hm
    have haY := (List.mem_filter.mp hm).1
    rw [hcnt a (mem_Y haY)]
    exact hold a haY hab
  · rw [hY, hfil]
    congr 1
    exact List.filter_congr (fun e he => (hpres e he).symm)
  · intro e he hp
    rw [hpres e he] at hp
    exact hsub e (hmem e he hp)

theorem framed_linkBack {l SL b m cap b0 rest cb c} (r : Rep l SL b) (f : FrameD l SL b m cap b0 rest) :
    FrameD (l.linkBack b cb c) (SL.append b cb) (b + 1) m cap b0 rest := by
  obtain ⟨R, S, h1, h2, h3, h4, h5, h6, h7, h8, h9, h10⟩ := f
  have hid := r.fresh b (Nat.le_refl b)
  have fields := r.wf.linkBack_fields (cb := cb) (c := c) hid
  have hqb : (fun n => decide (n < b0)) b = false := by simp; omega
  refine framed_transfer_insert (S' := if S = [] then [] else S ++ [b]) h2 h3 h4 h5 h6 h7 h8 h9 h10
    ?_ ?_ ?_ ?_ ?_ ?_ ?_
  · rw [SList.ids_append]
    split
    · exact List.nil_suffix
    · obtain ⟨P, hP⟩ := h1
      exact ⟨P, by rw [← hP, List.append_assoc]⟩
  · intro a ha0 hab
    have hne : a ≠ b := Nat.ne_of_lt hab
    refine ⟨by rw [(fields a).1]; simp [hne, ha0], (fields a).2.2 ha0 hne⟩
  · split
    · rename_i hs; simp [hs]
    · rename_i hs
      cases S with
      | nil => exact absurd rfl hs
      | cons x T => simp
  · by_cases hs : S = []
    · simp [hs]
    · simp only [hs, if_false]
      have : (if R = [] then (S ++ [b]).tail else S ++ [b]) = (if R = [] then S.tail else S) ++ [b] := by
        split
        · exact List.tail_append_of_ne_nil hs
        · rfl
      rw [this]
      have := filter_insert_fresh (A := if R = [] then S.tail else S) (B := []) hqb
        (q := fun n => decide (n < b0)) (fun a _ => rfl)
      simpa using this
  · intro a ha
    have := (r.suffix_mem h1 ha).2.2
    simp [(fields a).1, this]
  · intro x
    rw [SList.ids_append]; simp; exact Or.comm
  · intro e he
    simp [SList.append, he]

theorem framed_linkFront {l SL b m cap b0 rest cb c} (r : Rep l SL b) (f : FrameD l SL b m cap b0 rest) :
    FrameD (l.linkFront b cb c) (SL.prepend b cb) (b + 1) m cap b0 rest := by
  obtain ⟨R, S, h1, h2, h3, h4, h5, h6, h7, h8, h9, h10⟩ := f
  have hid := r.fresh b (Nat.le_refl b)
  have fields := r.wf.linkFront_fields (cb := cb) (c := c) hid
  refine framed_transfer_insert (S' := S) h2 h3 h4 h5 h6 h7 h8 h9 h10 ?_ ?_ rfl rfl ?_ ?_ ?_
  · rw [SList.ids_prepend]
    exact List.IsSuffix.trans h1 (List.suffix_cons _ _)
  · intro a ha0 hab
    have hne : a ≠ b := Nat.ne_of_lt hab
    refine ⟨by rw [(fields a).1]; simp [hne, ha0], (fields a).2.2 ha0 hne⟩
  · intro a ha
    have := (r.suffix_mem h1 ha).2.2
    simp [(fields a).1, this]
  · intro x
    rw [SList.ids_prepend]; simp
  · intro e he
    simp [SList.prepend, he]

theorem framed_linkBefore {l SL b m cap b0 rest cb c before} (r : Rep l SL b)
    (f : FrameD l SL b m cap b0 rest) (hp : SL.present before = true) :
    FrameD (l.linkBefore b cb c before) (SL.insert b cb before) (b + 1) m cap b0 rest := by
  obtain ⟨R, S, h1, h2, h3, h4, h5, h6, h7, h8, h9, h10⟩ := f
  have hid := r.fresh b (Nat.le_refl b)
  obtain ⟨P, Q, hPQ⟩ := List.append_of_mem (SList.present_iff.mp hp)
  have w := r.wf
  rw [hPQ] at w
  have hbP : before ∉ P := (nodup_split w.nodup).2.2.1
  have hins : SL.insert b cb before = SL.insertBefore ⟨b, cb⟩ before := by simp [SList.insert, hp]
  have hids' : (SL.insertBefore ⟨b, cb⟩ before).ids = P ++ b :: before :: Q := SList.ids_insertBefore hPQ hbP
  rw [hins]
  have hqb : (fun n => decide (n < b0)) b = false := by simp; omega
  have hcnt : ∀ a ∈ S, ((l.linkBefore b cb c before).heap a).counter = (l.heap a).counter := by
    intro a ha
    have := (r.suffix_mem h1 ha).2.2
    simp [linkBefore_counter, this]
  have hfrozen : ∀ a, (l.heap a).counter = 0 → a < b →
      ((l.linkBefore b cb c before).heap a).counter = 0 ∧
      ((l.linkBefore b cb c before).heap a).next = (l.heap a).next := by
    intro a ha0 hab
    have hne : a ≠ b := Nat.ne_of_lt hab
    exact ⟨by rw [linkBefore_counter]; simp [hne, ha0], w.linkBefore_frozen hid a ha0 hne⟩
  have hidsx : ∀ x, x ∈ (SL.insertBefore ⟨b, cb⟩ before).ids ↔ x = b ∨ x ∈ SL.ids := by
    intro x; rw [hids', hPQ]; simp; grind
  have hsub : ∀ e ∈ SL, e ∈ SL.insertBefore ⟨b, cb⟩ before := fun e he =>
    SList.mem_insertBefore.mpr (Or.inr he)
  have h1' := h1
  rw [hPQ] at h1'
  rcases suffix_split_cases h1' with hs | ⟨x, A, P0, hS, hP⟩
  · refine framed_transfer_insert (S' := S) h2 h3 h4 h5 h6 h7 h8 h9 h10 ?_ hfrozen rfl rfl hcnt hidsx hsub
    rw [hids']
    obtain ⟨T, hT⟩ := hs
    exact ⟨P ++ b :: T, by rw [← hT]; simp⟩
  · refine framed_transfer_insert (S' := x :: A ++ b :: before :: Q) h2 h3 h4 h5 h6 h7 h8 h9 h10 ?_ hfrozen
      (by rw [hS]; simp) ?_ hcnt hidsx hsub
    · rw [hids', hP]
      exact ⟨P0, by simp⟩
    · have e1 : (if R = [] then (x :: A ++ b :: before :: Q).tail else x :: A ++ b :: before :: Q)
          = (if R = [] then A else x :: A) ++ b :: before :: Q := by split <;> simp
      have e2 : (if R = [] then S.tail else S) = (if R = [] then A else x :: A) ++ before :: Q := by
        rw [hS]; split <;> simp
      rw [e1, e2]
      exact filter_insert_fresh hqb (fun a _ => rfl)

theorem framed_freeNode {l SL b m cap b0 rest h} (r : Rep l SL b) (f : FrameD l SL b m cap b0 rest)
    (hp : SL.present h = true) : FrameD (l.freeNode h) (SL.erase h) b m cap b0 rest := by
  obtain ⟨R, S, h1, h2, h3, h4, h5, h6, h7, h8, h9, h10⟩ := f
  obtain ⟨P, Q, hPQ⟩ := List.append_of_mem (SList.present_iff.mp hp)
  have w := r.wf
  rw [hPQ] at w
  obtain ⟨s1, s2, s3, s4, s5, s6⟩ := w.split
  obtain ⟨n1, n2, n3, n4, n5, n6⟩ := nodup_split w.nodup
  have hids' : (SL.erase h).ids = P ++ Q := by rw [SList.ids_erase, hPQ, filter_ne_split n3 n4]
  have hlive : (l.heap h).counter ≠ 0 := (r.wf.live h).mp (SList.present_iff.mp hp)
  have hhb : h < b := r.wf.lt h (SList.present_iff.mp hp)
  have hhR : h ∉ R := fun hm => hlive (h2 h hm).1
  have hfrozen : ∀ a ∈ R, ((l.freeNode h).heap a).counter = 0 ∧ a < b ∧
      ((l.freeNode h).heap a).next = (l.heap a).next := by
    intro a ha
    have := h2 a ha
    refine ⟨?_, this.2, w.freeNode_frozen a this.1⟩
    rw [freeNode_counter]; simp [this.1]
  have hRHS : ((rest.filter (fun e => (SL.erase h).present e.id)).map (·.id))
      = ((rest.filter (fun e => SL.present e.id)).map (·.id)).filter (fun n => n != h) := by
    rw [List.filter_map, List.filter_filter]
    congr 1
    apply List.filter_congr
    intro e _
    simp [SList.present_erase, Bool.and_comm]
  have hL : ∀ Y Y' : List Nat, Y' = Y.filter (fun n => n != h) →
      Y'.filter (fun n => decide (n < b0))
        = (Y.filter (fun n => decide (n < b0))).filter (fun n => n != h) := by
    intro Y Y' hY
    rw [hY, List.filter_filter, List.filter_filter]
    apply List.filter_congr
    intro a _
    exact Bool.and_comm _ _
  have hold' : ∀ Y Y' : List Nat, Y' = Y.filter (fun n => n != h) →
      (∀ a ∈ Y, a < b0 → (l.heap a).counter ≤ cap) →
      ∀ a ∈ Y', a < b0 → ((l.freeNode h).heap a).counter ≤ cap := by
    intro Y Y' hY hold a ha hab
    rw [hY] at ha
    obtain ⟨haY, hne⟩ := List.mem_filter.mp ha
    have hne' : a ≠ h := by simpa using hne
    rw [freeNode_counter, if_neg hne']
    exact hold a haY hab
  have h9' : ∀ e ∈ rest, (SL.erase h).present e.id → e ∈ SL.erase h := by
    intro e he hpe
    rw [SList.present_erase] at hpe
    simp at hpe
    exact SList.mem_erase.mpr ⟨h9 e he hpe.1, hpe.2⟩
  rw [hPQ] at h1
  have case_same : ∀ S', S' <:+ P ++ Q → S'.head? = S.head? →
      (if R = [] then S'.tail else S') = (if R = [] then S.tail else S).filter (fun n => n != h) →
      FrameD (l.freeNode h) (SL.erase h) b m cap b0 rest := by
    intro S' hsuf hhead hY
    refine ⟨R, S', by rw [hids']; exact hsuf, fun a ha => ⟨(hfrozen a ha).1, (hfrozen a ha).2.1⟩, h3, ?_, h5, h6,
      hold' _ _ hY h7, ?_, h9', h10⟩
    · rw [hhead]
      exact (seg_congr (fun a ha => (hfrozen a ha).2.2)).mpr h4
    · rw [hL _ _ hY, h8, hRHS]
  rcases suffix_split_cases h1 with hs | ⟨x, A, P0, hS, hP⟩
  · rcases List.suffix_cons_iff.mp hs with hS | hs
    · -- the traversal's entry point into the live chain is removed: it joins the frozen nodes
      have hS0 : S.head? = some h := by rw [hS]; rfl
      have hYQ : Q = (if R = [] then S.tail else S).filter (fun n => n != h) := by
        rw [hS]
        split
        · simp [filter_ne_self n4]
        · simp [filter_ne_self n4]
      have hne : R ++ [h] ≠ [] := by simp
      refine ⟨R ++ [h], Q, by rw [hids']; exact List.suffix_append _ _, ?_, ?_, ?_, h5, h6, ?_, ?_, h9', h10⟩
      · intro a ha
        rcases List.mem_append.mp ha with ha | ha
        · exact ⟨(hfrozen a ha).1, (hfrozen a ha).2.1⟩
        · simp at ha; subst ha
          exact ⟨by rw [freeNode_counter]; simp, hhb⟩
      · exact List.nodup_append.mpr ⟨h3, by simp, fun a ha b hb e => by
          simp at hb; subst hb; subst e; exact hhR ha⟩
      · rw [seg_snoc]
        constructor
        · rw [hS0] at h4
          exact (seg_congr (fun a ha => (hfrozen a ha).2.2)).mpr h4
        · show ((l.freeNode h).heap h).next = _
          rw [freeNode_next, s5, s2]
          have : P.getLast? ≠ some h := fun e => n3 (List.mem_of_getLast? e)
          simp [this]
      · rw [if_neg hne]
        exact hold' _ _ hYQ h7
      · rw [if_neg hne, hL _ _ hYQ, h8, hRHS]
    · have hhS : h ∉ S := fun hm => n4 (hs.subset hm)
      refine case_same S (List.IsSuffix.trans hs (List.suffix_append _ _)) rfl ?_
      rw [filter_ne_self]
      exact fun hm => hhS (mem_Y hm)
  · refine case_same (x :: A ++ Q) ⟨P0, by rw [hP]; simp⟩ (by rw [hS]; simp) ?_
    have hxA : h ∉ x :: A := fun hm => n3 (by rw [hP]; exact List.mem_append_right _ hm)
    rw [hS]
    split
    · simp only [List.cons_append, List.tail_cons]
      rw [filter_ne_split (fun hm => hxA (List.mem_cons_of_mem _ hm)) n4]
    · rw [filter_ne_split hxA n4]

/-! ### the public operations, wrapping or not -/

theorem framed_append {l SL b m cap b0 rest} (r : Rep l SL b) (f : FrameD l SL b m cap b0 rest) (cb : Cb) :
    FrameD (l.append (b + 1) b cb) (SL.append b cb) (b + 1) m cap b0 rest := by
  obtain ⟨r1, _, _⟩ := rep_nextCounter r
  rw [append_eq]
  exact framed_linkBack r1 (framed_nextCounter r f)

theorem framed_prepend {l SL b m cap b0 rest} (r : Rep l SL b) (f : FrameD l SL b m cap b0 rest) (cb : Cb) :
    FrameD (l.prepend (b + 1) b cb) (SL.prepend b cb) (b + 1) m cap b0 rest := by
  obtain ⟨r1, _, _⟩ := rep_nextCounter r
  rw [prepend_eq]
  exact framed_linkFront r1 (framed_nextCounter r f)

theorem framed_insert {l SL b m cap b0 rest} (r : Rep l SL b) (f : FrameD l SL b m cap b0 rest) (cb : Cb)
    (before : Hd) :
    FrameD (l.insert (b + 1) b cb before) (SL.insert b cb before) (b + 1) m cap b0 rest := by
  obtain ⟨r1, _, _⟩ := rep_nextCounter r
  have f1 := framed_nextCounter r f
  have hp := rep_present r1 before
  rw [insert_eq]
  by_cases hl : ((l.nextCounter (b + 1)).1.heap before).counter ≠ 0
  · rw [if_pos hl]
    have : SL.present before = true := by rw [← hp]; simpa using hl
    exact framed_linkBefore r1 f1 this
  · rw [if_neg hl]
    have : SL.present before = false := by rw [← hp]; simpa using hl
    have hins : SL.insert b cb before = SL.append b cb := by simp [SList.insert, this]
    rw [hins]
    exact framed_linkBack r1 f1

theorem framed_remove {l SL b m cap b0 rest} (r : Rep l SL b) (f : FrameD l SL b m cap b0 rest) (h : Hd) :
    FrameD (l.remove h).1 (SL.remove h).1 b m cap b0 rest := by
  unfold CL.remove SList.remove
  have hp := rep_present r h
  by_cases hl : (l.heap h).counter ≠ 0
  · have : SL.present h = true := by rw [← hp]; simpa using hl
    rw [if_pos hl, if_pos this]
    exact framed_freeNode r f this
  · have : SL.present h = false := by rw [← hp]; simpa using hl
    rw [if_neg hl, this]
    exact f

/-! ### traversal steps -/

/-- drop the remaining snapshot up to and including the entry with handle `n` -/
def advance (n : Nat) (rest : List Entry) : List Entry := (rest.dropWhile (fun e => e.id != n)).tail

/-- ghost bookkeeping of one call: a callback older than the invocation is looked up in the
    remaining snapshot and the snapshot is advanced past it; a younger one leaves it alone -/
def Ghost.next (g : Ghost) (n' : Nat) : Ghost :=
  { g with rest := if n' < g.born then advance n' g.rest else g.rest, called := g.called ++ [n'] }

theorem advance_suffix (n : Nat) (rest : List Entry) : advance n rest <:+ rest :=
  List.IsSuffix.trans (List.tail_suffix _) (List.dropWhile_suffix _)

/-- the skip loop found nothing: no entry of the remaining snapshot is in the list any more -/
theorem framed_done {l SL b m cap b0 rest} (r : Rep l SL b) (f : FrameD l SL b m cap b0 rest)
    (hs : seek l.heap cap (b + 1) (l.heap m).next = none) : ∀ e ∈ rest, SL.present e.id = false := by
  obtain ⟨R, S, h1, h2, h3, h4, h5, h6, h7, h8, h9, h10⟩ := f
  have hseek := frame0_seek_eq cap r h1 h2 h3 h4
  rw [hs] at hseek
  have hnil := List.head?_eq_none_iff.mp hseek.symm
  have h0 : (if R = [] then S.tail else S).filter (fun n => decide (n < b0)) = [] := by
    rw [List.filter_eq_nil_iff]
    intro a ha hab
    have hab' : a < b0 := by simpa using hab
    have := (List.filter_eq_nil_iff.mp hnil) a ha
    exact this (by simpa using h7 a ha hab')
  rw [h0] at h8
  have := List.map_eq_nil_iff.mp h8.symm
  intro e he
  have := (List.filter_eq_nil_iff.mp this) e he
  simpa using this

/-- one step of a traversal, wrap or not: the node found by the skip loop is either the first
    entry of the remaining snapshot that is still in the list (exactly the Spec step), or a node
    allocated after the invocation started -/
theorem framed_step {l SL b m cap b0 rest n'} (r : Rep l SL b) (f : FrameD l SL b m cap b0 rest)
    (hs : seek l.heap cap (b + 1) (l.heap m).next = some n') :
    n' ∈ SL.ids ∧
    (n' < b0 → ∃ e es, rest.dropWhile (fun e => !SL.present e.id) = e :: es ∧ e.id = n' ∧
      (l.heap n').cb = e.cb ∧ advance n' rest = es ∧ FrameD l SL b n' cap b0 es) ∧
    (b0 ≤ n' → FrameD l SL b n' cap b0 rest) := by
  obtain ⟨R, S, h1, h2, h3, h4, h5, h6, h7, h8, h9, h10⟩ := f
  have hseek := frame0_seek_eq cap r h1 h2 h3 h4
  rw [hs] at hseek
  obtain ⟨l₁, l₂, hY, hl₁, hn'⟩ := filter_head_split hseek.symm
  have hsufY : (if R = [] then S.tail else S) <:+ S := by
    split
    · exact List.tail_suffix S
    · exact List.suffix_refl S
  have hsuf : (n' :: l₂) <:+ SL.ids :=
    List.IsSuffix.trans (List.IsSuffix.trans ⟨l₁, hY.symm⟩ hsufY) h1
  have hn'SL : n' ∈ SL.ids := hsuf.subset (by simp)
  have hl₂Y : ∀ a ∈ l₂, a ∈ (if R = [] then S.tail else S) := fun a ha => by rw [hY]; simp [ha]
  have hl₁0 : l₁.filter (fun n => decide (n < b0)) = [] := by
    rw [List.filter_eq_nil_iff]
    intro a ha hab
    have hab' : a < b0 := by simpa using hab
    have h1' := h7 a (by rw [hY]; simp [ha]) hab'
    have h2' := hl₁ a ha
    simp at h2'
    omega
  have mk : ∀ rest' : List Entry,
      l₂.filter (fun n => decide (n < b0)) = ((rest'.filter (fun e => SL.present e.id)).map (·.id)) →
      (∀ e ∈ rest', e ∈ rest) → FrameD l SL b n' cap b0 rest' := by
    intro rest' hfil hsub
    exact ⟨[], n' :: l₂, hsuf, by simp, by simp, rfl, h5, h6, fun a ha => h7 a (hl₂Y a (by simpa using ha)),
      by simpa using hfil, fun e he => h9 e (hsub e he), fun e he => h10 e (hsub e he)⟩
  refine ⟨hn'SL, fun hlt => ?_, fun hge => ?_⟩
  · have hsplit : (if R = [] then S.tail else S).filter (fun n => decide (n < b0))
        = n' :: l₂.filter (fun n => decide (n < b0)) := by
      rw [hY, List.filter_append, hl₁0, List.filter_cons]
      simp [hlt]
    rw [hsplit] at h8
    obtain ⟨e, es, d1, d2, d3, d4, d5, d6⟩ := filter_map_cons_dropWhile h8.symm
    have d3' : e.id = n' := d3
    refine ⟨e, es, d1, d3', ?_, ?_, mk es d4.symm d6⟩
    · rw [← d3']; exact r.cbs e (h9 e d5 d2)
    · have hp : SL.present n' = true := SList.present_iff.mpr hn'SL
      have := dropWhile_agree (q := fun e : Entry => e.id != n') d1
        (fun x _ hx => by
          have : x.id ≠ n' := fun e => by rw [e, hp] at hx; cases hx
          simpa using this)
        (by simp [d3'])
      unfold advance
      rw [this]; rfl
  · have hsplit : (if R = [] then S.tail else S).filter (fun n => decide (n < b0))
        = l₂.filter (fun n => decide (n < b0)) := by
      rw [hY, List.filter_append, hl₁0, List.filter_cons]
      have : ¬ n' < b0 := by omega
      simp [this]
    rw [hsplit] at h8
    exact mk rest h8 (fun e he => he)

/-- the same in terms of the ghost record -/
theorem framed_step_ghost {l SL b m cap n'} {g : Ghost} (r : Rep l SL b)
    (f : FrameD l SL b m cap g.born g.rest)
    (hs : seek l.heap cap (b + 1) (l.heap m).next = some n') :
    FrameD l SL b n' cap (g.next n').born (g.next n').rest := by
  obtain ⟨_, h1, h2⟩ := framed_step r f hs
  show FrameD l SL b n' cap g.born (if n' < g.born then advance n' g.rest else g.rest)
  split
  · rename_i hlt
    obtain ⟨e, es, _, _, _, ha, hf⟩ := h1 hlt
    rw [ha]; exact hf
  · rename_i hge
    exact h2 (by omega)

/-- start of a traversal: the list is not empty, its first callback is called, the remaining
    snapshot is the rest of the list -/
theorem framed_start {l SL b n'} (r : Rep l SL b)
    (hs : seek l.heap l.cur (b + 1) l.head = some n') :
    ∃ e es, SL = e :: es ∧ e.id = n' ∧ (l.heap n').cb = e.cb ∧ advance n' SL = es ∧
      FrameD l SL b n' l.cur b es := by
  have hall : ∀ e ∈ SL, SL.present e.id = true := fun e he =>
    SList.present_iff.mpr (SList.mem_ids_of_mem he)
  cases SL with
  | nil =>
    have : l.head = none := by simpa using r.wf.head_eq
    simp [this, seek] at hs
  | cons e es =>
    have w := r.wf
    have hlen := w.length_le
    have hlive : (l.heap e.id).counter ≠ 0 := (w.live e.id).mp (by simp [SList.ids])
    have hcnt : (l.heap e.id).counter ≤ l.cur := w.cnt e.id (by simp [SList.ids])
    have hsk := seek_seg (cap := l.cur) w.fwd (Nat.lt_succ_of_le hlen)
    have hg : guard (l.heap e.id).counter l.cur = true := by
      rw [guard_live hlive]; simpa using hcnt
    have hn : n' = e.id := by
      rw [hsk] at hs
      simpa [SList.ids, hg] using hs.symm
    subst hn
    refine ⟨e, es, rfl, rfl, r.cbs e (by simp), ?_, ?_⟩
    · simp [advance]
    · refine ⟨[], SList.ids (e :: es), List.suffix_refl _, by simp, by simp, rfl, ?_, Nat.le_refl _, ?_, ?_, ?_, ?_⟩
      · have := Nat.pos_of_ne_zero hlive
        omega
      · intro a ha _
        exact w.cnt a (mem_Y (R := []) ha)
      · simp only [if_true]
        have e1 : (es.filter (fun x => SList.present (e :: es) x.id)) = es := by
          rw [List.filter_eq_self]; intro x hx; exact hall x (by simp [hx])
        have e2 : (SList.ids (e :: es)).tail = es.map (·.id) := rfl
        rw [e1, e2, List.filter_eq_self]
        intro a ha
        have : a ∈ SList.ids (e :: es) := List.mem_cons_of_mem _ ha
        simpa using w.lt a this
      · intro x hx _
        exact List.mem_cons_of_mem _ hx
      · intro x hx
        exact w.lt _ (SList.mem_ids_of_mem (List.mem_cons_of_mem _ hx))

/-- the traversal step under the sublist invariant alone: the skip loop never skips a snapshot
    entry that is still in the list — it finds the first such entry (then the remaining snapshot
    advances past it) or a node that is not in the remaining snapshot (an extra call) -/
theorem framesub_seek {l SL b m cap rest} (r : Rep l SL b) (f : FrameSub l SL b m cap rest) :
    match seek l.heap cap (b + 1) (l.heap m).next with
    | none => ∀ e ∈ rest, SL.present e.id = false
    | some n' => n' ∈ SL.ids ∧
        ((∃ e es, rest.dropWhile (fun e => !SL.present e.id) = e :: es ∧ e.id = n' ∧
            (l.heap n').cb = e.cb ∧ FrameSub l SL b n' cap es) ∨
         ((∀ e ∈ rest, e.id ≠ n') ∧ FrameSub l SL b n' cap rest)) := by
  obtain ⟨R, S, h1, h2, h3, h4, h6, h7, h8⟩ := f
  have hseek := frame0_seek_eq cap r h1 h2 h3 h4
  cases hs : seek l.heap cap (b + 1) (l.heap m).next with
  | none =>
    simp only
    rw [hs] at hseek
    have hnil := List.head?_eq_none_iff.mp hseek.symm
    rw [hnil] at h6
    have := List.map_eq_nil_iff.mp (List.sublist_nil.mp h6)
    intro e he
    have := (List.filter_eq_nil_iff.mp this) e he
    simpa using this
  | some n' =>
    simp only
    rw [hs] at hseek
    obtain ⟨l₁, l₂, hY, hl₁, hn'⟩ := filter_head_split hseek.symm
    have hsufY : (if R = [] then S.tail else S) <:+ S := by
      split
      · exact List.tail_suffix S
      · exact List.suffix_refl S
    have hsuf : (n' :: l₂) <:+ SL.ids :=
      List.IsSuffix.trans (List.IsSuffix.trans ⟨l₁, hY.symm⟩ hsufY) h1
    have hn'SL : n' ∈ SL.ids := hsuf.subset (by simp)
    have hnd : (n' :: l₂).Nodup := nodup_suffix hsuf r.wf.nodup
    have hn'l₂ : n' ∉ l₂ := (List.nodup_cons.mp hnd).1
    have hl₁0 : l₁.filter (fun n => decide ((l.heap n).counter ≤ cap)) = [] := by
      rw [List.filter_eq_nil_iff]
      intro a ha
      simp [hl₁ a ha]
    have hsplit : (if R = [] then S.tail else S).filter (fun n => decide ((l.heap n).counter ≤ cap))
        = n' :: l₂.filter (fun n => decide ((l.heap n).counter ≤ cap)) := by
      rw [hY, List.filter_append, hl₁0, List.filter_cons]
      simp [hn']
    rw [hsplit] at h6
    have mk : ∀ rest' : List Entry,
        List.Sublist ((rest'.filter (fun e => SL.present e.id)).map (·.id))
          (l₂.filter (fun n => decide ((l.heap n).counter ≤ cap))) →
        (∀ e ∈ rest', e ∈ rest) → FrameSub l SL b n' cap rest' := by
      intro rest' hsl hsub
      exact ⟨[], n' :: l₂, hsuf, by simp, by simp, rfl, by simpa using hsl,
        fun e he => h7 e (hsub e he), fun e he => h8 e (hsub e he)⟩
    refine ⟨hn'SL, ?_⟩
    generalize hL : (rest.filter (fun e => SL.present e.id)).map (·.id) = L at h6
    cases h6 with
    | cons _ hsl =>
      right
      refine ⟨fun e he heq => ?_, mk rest (by rw [hL]; exact hsl) (fun e he => he)⟩
      have hp : SL.present e.id = true := by rw [heq]; exact SList.present_iff.mpr hn'SL
      have : n' ∈ L := by
        rw [← hL, ← heq]
        exact List.mem_map.mpr ⟨e, List.mem_filter.mpr ⟨he, hp⟩, rfl⟩
      exact hn'l₂ (List.mem_filter.mp (hsl.subset this)).1
    | cons_cons _ hsl =>
      left
      obtain ⟨e, es, d1, d2, d3, d4, d5, d6⟩ := filter_map_cons_dropWhile hL
      have d3' : e.id = n' := d3
      refine ⟨e, es, d1, d3', ?_, mk es (by rw [d4]; exact hsl) d6⟩
      rw [← d3']; exact r.cbs e (h7 e d5 d2)

/-! ### what has been called so far -/

/-- Bookkeeping invariant of a ghost record w.r.t. the current list content `SL`: the snapshot is
    `done ++ rest`; the calls of callbacks older than the invocation are, in call order, a sublist
    of `done` (so: in snapshot order, none twice — the snapshot's handles are distinct); and every
    entry of `done` was called or is no longer in the list. -/
def GhostOK (SL : SList) (g : Ghost) : Prop :=
  ∃ done : List Entry, g.snap = done ++ g.rest ∧
    List.Sublist (g.called.filter (fun n => decide (n < g.born))) (SList.ids done) ∧
    (∀ e ∈ done, e.id ∈ g.called ∨ SL.present e.id = false) ∧
    (∀ e ∈ g.snap, e.id < g.born) ∧ (SList.ids g.snap).Nodup

/-- a handle that is not in the list stays out of it: `GhostOK` survives every change of the list
    that does not bring an old handle back -/
theorem GhostOK.transport {SL SL' : SList} {g : Ghost} (h : GhostOK SL g)
    (hp : ∀ x, x < g.born → SL'.present x = true → SL.present x = true) : GhostOK SL' g := by
  obtain ⟨done, h1, h2, h3, h4, h5⟩ := h
  refine ⟨done, h1, h2, fun e he => ?_, h4, h5⟩
  rcases h3 e he with hc | hn
  · exact Or.inl hc
  · right
    have hlt : e.id < g.born := h4 e (by rw [h1]; exact List.mem_append_left _ he)
    cases hq : SL'.present e.id with
    | false => rfl
    | true => rw [hp e.id hlt hq] at hn; cases hn

theorem ghostok_start {SL : SList} {b : Nat} {e : Entry} {es : List Entry} (hSL : SL = e :: es)
    (hnd : SL.ids.Nodup) (hlt : ∀ x ∈ SL, x.id < b) : GhostOK SL ⟨b, SL, es, [e.id]⟩ := by
  refine ⟨[e], by simp [hSL], ?_, fun x hx => ?_, hlt, hnd⟩
  · have : e.id < b := hlt e (by simp [hSL])
    simp [SList.ids, this]
  · simp at hx; subst hx; left; simp

theorem ghostok_step {SL : SList} {g : Ghost} {n' : Nat} (h : GhostOK SL g)
    (hold : n' < g.born → ∃ e es, g.rest.dropWhile (fun e => !SL.present e.id) = e :: es ∧ e.id = n' ∧
      advance n' g.rest = es) : GhostOK SL (g.next n') := by
  obtain ⟨done, h1, h2, h3, h4, h5⟩ := h
  by_cases hlt : n' < g.born
  · obtain ⟨e, es, d1, d2, d3⟩ := hold hlt
    have hsplit : g.rest = g.rest.takeWhile (fun e => !SL.present e.id) ++ e :: es := by
      rw [← d1]; exact (List.takeWhile_append_dropWhile).symm
    have htw : ∀ x ∈ g.rest.takeWhile (fun e => !SL.present e.id), SL.present x.id = false := by
      intro x hx
      simpa using mem_takeWhile_true hx
    refine ⟨done ++ g.rest.takeWhile (fun e => !SL.present e.id) ++ [e], ?_, ?_, ?_, h4, h5⟩
    · show g.snap = _ ++ (if n' < g.born then advance n' g.rest else g.rest)
      rw [if_pos hlt, d3, h1]
      conv => lhs; rw [hsplit]
      simp
    · show List.Sublist ((g.called ++ [n']).filter (fun n => decide (n < g.born))) _
      rw [List.filter_append]
      have : [n'].filter (fun n => decide (n < g.born)) = [n'] := by simp [hlt]
      rw [this]
      have e1 : SList.ids (done ++ g.rest.takeWhile (fun e => !SL.present e.id) ++ [e]) =
          SList.ids done ++ (SList.ids (g.rest.takeWhile (fun e => !SL.present e.id)) ++ [n']) := by
        simp [SList.ids, d2]
      rw [e1]
      exact List.Sublist.append h2 (List.sublist_append_right _ _)
    · intro x hx
      show x.id ∈ g.called ++ [n'] ∨ _
      rcases List.mem_append.mp hx with hx | hx
      · rcases List.mem_append.mp hx with hx | hx
        · rcases h3 x hx with hc | hn
          · exact Or.inl (List.mem_append_left _ hc)
          · exact Or.inr hn
        · exact Or.inr (htw x hx)
      · simp at hx; subst hx
        left; simp [d2]
  · refine ⟨done, ?_, ?_, ?_, h4, h5⟩
    · show g.snap = done ++ (if n' < g.born then advance n' g.rest else g.rest)
      rw [if_neg hlt]; exact h1
    · show List.Sublist ((g.called ++ [n']).filter (fun n => decide (n < g.born))) _
      rw [List.filter_append]
      have : [n'].filter (fun n => decide (n < g.born)) = [] := by simp [hlt]
      rw [this, List.append_nil]
      exact h2
    · intro x hx
      show x.id ∈ g.called ++ [n'] ∨ _
      rcases h3 x hx with hc | hn
      · exact Or.inl (List.mem_append_left _ hc)
      · exact Or.inr hn

/-! ### the Model machine with a ghost stack -/

/-- the ghost stack `gs` has one record per running traversal of the stack, in stack order, and
    every traversal satisfies `FrameD` with its record -/
inductive GStack (m : MCfg) (SLs : Nat → SList) : List MFrame → List Ghost → Prop
  | nil : GStack m SLs [] []
  | prog (p : Prog) {st gs} : GStack m SLs st gs → GStack m SLs (.prog p :: st) gs
  | wait (k : Res → Prog) {st gs} : GStack m SLs st gs → GStack m SLs (.wait k :: st) gs
  | iter {l n cap arg ho} {g : Ghost} {st gs} :
      FrameD (m.lists l) (SLs l) m.nextId n cap g.born g.rest → GhostOK (SLs l) g →
      GStack m SLs st gs → GStack m SLs (.iter l n cap arg ho :: st) (g :: gs)

theorem GStack.nil_inv {m SLs gs} (h : GStack m SLs [] gs) : gs = [] := by
  cases h; rfl

theorem GStack.prog_inv {m SLs p st gs} (h : GStack m SLs (.prog p :: st) gs) : GStack m SLs st gs := by
  cases h with
  | prog _ h => exact h

theorem GStack.wait_inv {m SLs k st gs} (h : GStack m SLs (.wait k :: st) gs) : GStack m SLs st gs := by
  cases h with
  | wait _ h => exact h

theorem GStack.iter_inv {m SLs l n cap arg ho st gs} (h : GStack m SLs (.iter l n cap arg ho :: st) gs) :
    ∃ g gs', gs = g :: gs' ∧ FrameD (m.lists l) (SLs l) m.nextId n cap g.born g.rest ∧
      GhostOK (SLs l) g ∧ GStack m SLs st gs' := by
  cases h with
  | iter ok gok h => exact ⟨_, _, rfl, ok, gok, h⟩

/-- the ghost-stack relation reads the configuration only through the list objects that have a
    running traversal, and the id bound -/
theorem GStack.transport {m SLs m' SLs'} {st gs} (h : GStack m SLs st gs)
    (H : ∀ l n cap b0 rest, busyOn MFrame.isIterOn st l = true →
      FrameD (m.lists l) (SLs l) m.nextId n cap b0 rest →
      FrameD (m'.lists l) (SLs' l) m'.nextId n cap b0 rest)
    (P : ∀ l x, busyOn MFrame.isIterOn st l = true → x < m.nextId →
      (SLs' l).present x = true → (SLs l).present x = true) : GStack m' SLs' st gs := by
  induction h with
  | nil => exact .nil
  | prog p _ ih =>
    exact .prog p (ih (fun l n cap b0 rest hb => H l n cap b0 rest (by
        simp only [busyOn, List.any_cons] at hb ⊢; simp [hb]))
      (fun l x hb => P l x (by simp only [busyOn, List.any_cons] at hb ⊢; simp [hb])))
  | wait k _ ih =>
    exact .wait k (ih (fun l n cap b0 rest hb => H l n cap b0 rest (by
        simp only [busyOn, List.any_cons] at hb ⊢; simp [hb]))
      (fun l x hb => P l x (by simp only [busyOn, List.any_cons] at hb ⊢; simp [hb])))
  | @iter l n cap arg ho g st gs ok gok _ ih =>
    have hb : busyOn MFrame.isIterOn (MFrame.iter l n cap arg ho :: st) l = true := by
      simp [busyOn, MFrame.isIterOn]
    have hborn : g.born ≤ m.nextId := by
      obtain ⟨_, _, _, _, _, _, _, h6, _⟩ := ok
      exact h6
    refine .iter (H _ _ _ _ _ hb ok)
      (gok.transport (fun x hx => P l x hb (Nat.lt_of_lt_of_le hx hborn))) (ih ?_ ?_)
    · exact fun l n cap b0 rest hb => H l n cap b0 rest (by
        simp only [busyOn, List.any_cons] at hb ⊢; simp [hb])
    · exact fun l x hb => P l x (by simp only [busyOn, List.any_cons] at hb ⊢; simp [hb])

theorem GStack.congr {m m' SLs st gs} (h : GStack m SLs st gs) (hl : m'.lists = m.lists)
    (hn : m'.nextId = m.nextId) : GStack m' SLs st gs :=
  h.transport (fun l n cap b0 rest _ ok => by rw [hl, hn]; exact ok) (fun _ _ _ _ hp => hp)

/-- the content of list `l` of the world, read through `head` / `next` -/
def absL (m : MCfg) (l : Nat) : SList := absList (m.lists l) (m.nextId + 1)

/-- **the invariant of the ghost-instrumented Model machine**: every list object is well formed,
    and every running traversal satisfies `FrameD` w.r.t. the current list content and its ghost
    record.  No Spec machine, no hypothesis about wraps. -/
def GInv (m : MCfg) (gs : List Ghost) : Prop := MInv m ∧ GStack m (absL m) m.stack gs

theorem GInv.reps {m gs} (h : GInv m gs) (l : Nat) : Rep (m.lists l) (absL m l) m.nextId := by
  obtain ⟨SL, r⟩ := h.1 l
  unfold absL
  rw [r.abs]; exact r

theorem ginv_of {m0 m' : MCfg} {SLs : Nat → SList} {gs} (hr : ∀ l, Rep (m0.lists l) (SLs l) m0.nextId)
    (hl : m'.lists = m0.lists) (hn : m'.nextId = m0.nextId) (hs : GStack m0 SLs m'.stack gs) :
    GInv m' gs := by
  have hSL : SLs = absL m' := by
    funext l
    unfold absL
    rw [hl, hn, (hr l).abs]
  refine ⟨fun l => ⟨SLs l, by rw [hl, hn]; exact hr l⟩, ?_⟩
  rw [← hSL]
  exact hs.congr hl hn

theorem ginv_init {m : MCfg} (h : MInv m) {p : Prog} (hst : m.stack = [.prog p]) : GInv m [] := by
  refine ⟨h, ?_⟩
  rw [hst]
  exact .prog p .nil

/-! #### commands -/

/-- only list `l` changes -/
theorem gstack_upd1 {m : MCfg} {SLs : Nat → SList} {st gs}
    (hr : ∀ l, Rep (m.lists l) (SLs l) m.nextId) (hs : GStack m SLs st gs)
    {m' : MCfg} (l : Nat) (x : CL) (y : SList)
    (hml : ∀ l', m'.lists l' = if l' = l then x else m.lists l')
    (hb : m.nextId ≤ m'.nextId) (hrx : Rep x y m'.nextId)
    (hf : ∀ n cap b0 rest, busyOn MFrame.isIterOn st l = true →
      FrameD (m.lists l) (SLs l) m.nextId n cap b0 rest → FrameD x y m'.nextId n cap b0 rest)
    (hp : busyOn MFrame.isIterOn st l = true → ∀ z, z < m.nextId → y.present z = true →
      (SLs l).present z = true) :
    ∃ SLs' : Nat → SList, (∀ l', Rep (m'.lists l') (SLs' l') m'.nextId) ∧ GStack m' SLs' st gs := by
  refine ⟨fun l' => if l' = l then y else SLs l', fun l' => ?_, hs.transport ?_ ?_⟩
  · show Rep (m'.lists l') (if l' = l then y else SLs l') m'.nextId
    rw [hml]
    by_cases e : l' = l
    · rw [if_pos e, if_pos e]; exact hrx
    · rw [if_neg e, if_neg e]; exact (hr l').mono hb
  · intro l' n cap b0 rest hbusy ok
    show FrameD (m'.lists l') (if l' = l then y else SLs l') m'.nextId n cap b0 rest
    rw [hml]
    by_cases e : l' = l
    · subst e; rw [if_pos rfl, if_pos rfl]; exact hf n cap b0 rest hbusy ok
    · rw [if_neg e, if_neg e]; exact ok.mono hb
  · intro l' z hbusy hz
    show SList.present (if l' = l then y else SLs l') z = true → _
    by_cases e : l' = l
    · subst e; rw [if_pos rfl]; exact hp hbusy z hz
    · rw [if_neg e]; exact fun h => h

/-- every command keeps the invariant, wrap or not -/
theorem gstack_apply {m : MCfg} {SLs : Nat → SList} {st gs}
    (hr : ∀ l, Rep (m.lists l) (SLs l) m.nextId) (hs : GStack m SLs st gs) (cmd : Cmd) :
    ∃ SLs' : Nat → SList,
      (∀ l, Rep ((m.apply (busyOn MFrame.isIterOn st) cmd).1.lists l) (SLs' l)
        (m.apply (busyOn MFrame.isIterOn st) cmd).1.nextId) ∧
      GStack (m.apply (busyOn MFrame.isIterOn st) cmd).1 SLs' st gs := by
  have same : ∃ SLs' : Nat → SList, (∀ l, Rep (m.lists l) (SLs' l) m.nextId) ∧ GStack m SLs' st gs :=
    ⟨SLs, hr, hs⟩
  cases cmd with
  | append l cb =>
    exact gstack_upd1 hr hs l ((m.lists l).append (m.nextId + 1) m.nextId cb) ((SLs l).append m.nextId cb)
      (fun l' => upd_get _ _ _ _) (Nat.le_succ _) (rep_append (hr l) cb)
      (fun n cap b0 rest _ ok => framed_append (hr l) ok cb)
      (fun _ z hz h => by
        rw [SList.present_append] at h
        have : (z == m.nextId) = false := by simp; omega
        simpa [this] using h)
  | prepend l cb =>
    exact gstack_upd1 hr hs l ((m.lists l).prepend (m.nextId + 1) m.nextId cb) ((SLs l).prepend m.nextId cb)
      (fun l' => upd_get _ _ _ _) (Nat.le_succ _) (rep_prepend (hr l) cb)
      (fun n cap b0 rest _ ok => framed_prepend (hr l) ok cb)
      (fun _ z hz h => by
        rw [SList.present_prepend] at h
        have : (z == m.nextId) = false := by simp; omega
        simpa [this] using h)
  | insert l cb b =>
    simp only [MCfg.apply]
    split
    · exact same
    · exact gstack_upd1 hr hs l ((m.lists l).insert (m.nextId + 1) m.nextId cb b) ((SLs l).insert m.nextId cb b)
        (fun l' => upd_get _ _ _ _) (Nat.le_succ _) (rep_insert (hr l) cb b)
        (fun n cap b0 rest _ ok => framed_insert (hr l) ok cb b)
        (fun _ z hz h => by
          rw [SList.present_insert] at h
          have : (z == m.nextId) = false := by simp; omega
          simpa [this] using h)
  | remove l hd =>
    simp only [MCfg.apply]
    split
    · exact same
    · exact gstack_upd1 hr hs l ((m.lists l).remove hd).1 ((SLs l).remove hd).1
        (fun l' => upd_get _ _ _ _) (Nat.le_refl _) (rep_remove (hr l) hd).1
        (fun n cap b0 rest _ ok => framed_remove (hr l) ok hd)
        (fun _ z _ h => by
          rw [SList.present_remove] at h
          simp at h
          exact h.1)
  | owns l hd =>
    simp only [MCfg.apply]
    split <;> exact same
  | empty l => exact same
  | invoke l arg => exact same
  | enum l arg => exact same
  | copyAssign dst src =>
    simp only [MCfg.apply]
    split
    · exact same
    · rename_i hc
      have hnb : ¬ busyOn MFrame.isIterOn st dst = true := fun hh => hc (Or.inr (Or.inl hh))
      have hcl := rep_clone (hr src)
      refine gstack_upd1 hr hs dst ((m.lists src).clone (m.nextId + 1) m.nextId) ((SLs src).cloneWith m.nextId)
        (fun l' => upd_get _ _ _ _) (Nat.le_add_right _ _) ?_ (fun n cap b0 rest hbusy _ => absurd hbusy hnb)
        (fun hbusy => absurd hbusy hnb)
      show Rep _ _ (m.nextId + _)
      rw [MCfg.fuel, hcl.2]
      exact hcl.1
  | moveAssign dst src =>
    simp only [MCfg.apply]
    split
    · exact same
    · rename_i hc
      refine ⟨fun l => if l = src then [] else if l = dst then SLs src else SLs l, fun l => ?_,
        hs.transport ?_ ?_⟩
      · show Rep (upd (upd m.lists dst (m.lists src)) src _ l)
          (if l = src then [] else if l = dst then SLs src else SLs l) m.nextId
        rw [upd_get, upd_get]
        by_cases e1 : l = src
        · rw [if_pos e1, if_pos e1]; exact rep_moved_from (hr src)
        · rw [if_neg e1, if_neg e1]
          by_cases e2 : l = dst
          · rw [if_pos e2, if_pos e2]; exact hr src
          · rw [if_neg e2, if_neg e2]; exact hr l
      · intro l n cap b0 rest hbusy ok
        show FrameD (upd (upd m.lists dst (m.lists src)) src _ l)
          (if l = src then [] else if l = dst then SLs src else SLs l) m.nextId n cap b0 rest
        have h1 : l ≠ src := fun e => hc (Or.inr (Or.inr (e ▸ hbusy)))
        have h2 : l ≠ dst := fun e => hc (Or.inr (Or.inl (e ▸ hbusy)))
        rw [upd_get, upd_get, if_neg h1, if_neg h2, if_neg h1, if_neg h2]
        exact ok
      · intro l z hbusy _
        show SList.present (if l = src then [] else if l = dst then SLs src else SLs l) z = true → _
        have h1 : l ≠ src := fun e => hc (Or.inr (Or.inr (e ▸ hbusy)))
        have h2 : l ≠ dst := fun e => hc (Or.inr (Or.inl (e ▸ hbusy)))
        rw [if_neg h1, if_neg h2]
        exact fun h => h
  | swap a b =>
    simp only [MCfg.apply]
    split
    · exact same
    · rename_i hc
      refine ⟨fun l => if l = b then SLs a else if l = a then SLs b else SLs l, fun l => ?_,
        hs.transport ?_ ?_⟩
      · show Rep (upd (upd m.lists a (m.lists b)) b (m.lists a) l)
          (if l = b then SLs a else if l = a then SLs b else SLs l) m.nextId
        rw [upd_get, upd_get]
        by_cases e1 : l = b
        · rw [if_pos e1, if_pos e1]; exact hr a
        · rw [if_neg e1, if_neg e1]
          by_cases e2 : l = a
          · rw [if_pos e2, if_pos e2]; exact hr b
          · rw [if_neg e2, if_neg e2]; exact hr l
      · intro l n cap b0 rest hbusy ok
        show FrameD (upd (upd m.lists a (m.lists b)) b (m.lists a) l)
          (if l = b then SLs a else if l = a then SLs b else SLs l) m.nextId n cap b0 rest
        have h1 : l ≠ b := fun e => hc (Or.inr (e ▸ hbusy))
        have h2 : l ≠ a := fun e => hc (Or.inl (e ▸ hbusy))
        rw [upd_get, upd_get, if_neg h1, if_neg h2, if_neg h1, if_neg h2]
        exact ok
      · intro l z hbusy _
        show SList.present (if l = b then SLs a else if l = a then SLs b else SLs l) z = true → _
        have h1 : l ≠ b := fun e => hc (Or.inr (e ▸ hbusy))
        have h2 : l ≠ a := fun e => hc (Or.inl (e ▸ hbusy))
        rw [if_neg h1, if_neg h2]
        exact fun h => h
  | setCounter l k =>
    exact gstack_upd1 hr hs l _ (SLs l) (fun l' => upd_get _ _ _ _) (Nat.le_refl _)
      (rep_setCounter (hr l) k) (fun n cap b0 rest _ ok => ok.cur _) (fun _ _ _ h => h)

/-! #### the ghost step -/

/-- ghost effect of starting an invocation of list `l`: if a callback is called, push a record
    whose snapshot is the current content of the list, advanced past the callback called first -/
def gstart (m : MCfg) (l : Nat) (gs : List Ghost) : List Ghost :=
  match seek (m.lists l).heap (m.lists l).cur m.fuel (m.lists l).head with
  | none => gs
  | some n' =>
    ⟨m.nextId, absList (m.lists l) m.fuel, advance n' (absList (m.lists l) m.fuel), [n']⟩ :: gs

/-- ghost effect of one traversal step of the top invocation (on list `l`, standing on `n`) -/
def gnext (m : MCfg) (l n cap : Nat) (gs : List Ghost) : List Ghost :=
  match seek (m.lists l).heap cap m.fuel ((m.lists l).heap n).next with
  | none => gs.tail
  | some n' =>
    match gs with
    | g :: gs' => g.next n' :: gs'
    | [] => []

/-- The ghost stack after the step that `MCfg.step` takes from `m`.  It is computed from the Model
    configuration alone and never influences the Model run: pure bookkeeping. -/
def gstep (m : MCfg) (gs : List Ghost) : List Ghost :=
  match m.stack with
  | .prog (.ret v) :: .iter l n cap _ honour :: _ =>
    if honour && !v then gs.tail else gnext m l n cap gs
  | .prog (.op (.invoke l _) _) :: _ => gstart m l gs
  | .prog (.op (.enum l _) _) :: _ => gstart m l gs
  | _ => gs

theorem gstep_ret_iter {m : MCfg} {gs v l n cap arg honour below}
    (h : m.stack = .prog (.ret v) :: .iter l n cap arg honour :: below) :
    gstep m gs = if honour && !v then gs.tail else gnext m l n cap gs := by
  unfold gstep; rw [h]
theorem gstep_ret_nil {m : MCfg} {gs v} (h : m.stack = [.prog (.ret v)]) : gstep m gs = gs := by
  unfold gstep; rw [h]
theorem gstep_ret_prog {m : MCfg} {gs v p rest} (h : m.stack = .prog (.ret v) :: .prog p :: rest) :
    gstep m gs = gs := by
  unfold gstep; rw [h]
theorem gstep_ret_wait {m : MCfg} {gs v k rest} (h : m.stack = .prog (.ret v) :: .wait k :: rest) :
    gstep m gs = gs := by
  unfold gstep; rw [h]
theorem gstep_invoke {m : MCfg} {gs l arg k rest} (h : m.stack = .prog (.op (.invoke l arg) k) :: rest) :
    gstep m gs = gstart m l gs := by
  unfold gstep; rw [h]
theorem gstep_enum {m : MCfg} {gs l arg k rest} (h : m.stack = .prog (.op (.enum l arg) k) :: rest) :
    gstep m gs = gstart m l gs := by
  unfold gstep; rw [h]
theorem gstep_op {m : MCfg} {gs cmd k rest} (h : m.stack = .prog (.op cmd k) :: rest)
    (h1 : ∀ l a, cmd ≠ .invoke l a) (h2 : ∀ l a, cmd ≠ .enum l a) : gstep m gs = gs := by
  unfold gstep; rw [h]
  cases cmd <;> first | rfl | exact absurd rfl (h1 _ _) | exact absurd rfl (h2 _ _)

theorem gstack_deliver {m : MCfg} {SLs below gs} (h : GStack m SLs below gs) (r : Res) :
    GStack m SLs (m.deliver r below).stack gs := by
  cases below with
  | nil => exact h
  | cons f rest =>
    cases f with
    | prog p => exact h
    | iter l n cap arg ho => exact h
    | wait k => exact .prog _ h.wait_inv

theorem ginv_deliver {m : MCfg} {SLs : Nat → SList} {below gs}
    (hr : ∀ l, Rep (m.lists l) (SLs l) m.nextId) (h : GStack m SLs below gs) (r : Res) :
    GInv (m.deliver r below) gs :=
  ginv_of hr (by simp) (by simp) (gstack_deliver h r)

/-- **every step keeps the invariant** — no hypothesis about wraps -/
theorem ginv_step (beh : Beh) {m m' : MCfg} {gs : List Ghost} (h : GInv m gs)
    (st : MCfg.step beh m = some m') : GInv m' (gstep m gs) := by
  have hr := h.reps
  have hs := h.2
  rcases hm : m.stack with _ | ⟨f, rest⟩
  · rw [MCfg.step_nil hm] at st; cases st
  · rw [hm] at hs
    cases f with
    | wait k => rw [MCfg.step_wait hm] at st; cases st
    | iter l n cap arg ho => rw [MCfg.step_iter hm] at st; cases st
    | prog p =>
      have hrest := hs.prog_inv
      cases p with
      | ret v =>
        cases rest with
        | nil =>
          rw [MCfg.step_ret_nil hm] at st; cases st
          rw [gstep_ret_nil hm]
          exact ginv_of hr rfl rfl hrest
        | cons g below =>
          cases g with
          | prog q =>
            rw [MCfg.step_ret_prog hm] at st; cases st
            rw [gstep_ret_prog hm]
            exact ginv_of hr rfl rfl hrest
          | wait k =>
            rw [MCfg.step_ret_wait hm] at st; cases st
            rw [gstep_ret_wait hm]
            exact ginv_of hr rfl rfl hrest
          | iter l n cap arg ho =>
            rw [MCfg.step_ret_iter hm] at st
            rw [gstep_ret_iter hm]
            obtain ⟨g, gs', rfl, ok, gok, hbelow⟩ := hrest.iter_inv
            cases hc : (ho && !v) with
            | true =>
              simp only [hc, ↓reduceIte] at st ⊢
              cases st
              exact ginv_deliver hr hbelow _
            | false =>
              simp only [hc, Bool.false_eq_true, ↓reduceIte] at st ⊢
              cases st
              unfold MCfg.seekCall gnext
              cases hsk : seek (m.lists l).heap cap m.fuel ((m.lists l).heap n).next with
              | none => exact ginv_deliver hr hbelow _
              | some n' =>
                simp only []
                refine ginv_of hr rfl rfl ?_
                refine .prog _ (.iter (framed_step_ghost (hr l) ok hsk) (ghostok_step gok ?_) hbelow)
                intro hlt
                obtain ⟨e, es, d1, d2, _, d4, _⟩ := (framed_step (hr l) ok hsk).2.1 hlt
                exact ⟨e, es, d1, d2, d4⟩
      | op cmd k =>
        have key : (∀ l a, cmd ≠ .invoke l a) → (∀ l a, cmd ≠ .enum l a) → GInv m' (gstep m gs) := by
          intro h1 h2
          rw [MCfg.step_op hm h1 h2] at st; cases st
          rw [gstep_op hm h1 h2]
          obtain ⟨SLs', hr', hs'⟩ := gstack_apply hr hrest cmd
          exact ginv_of (m' := m.applyStep cmd k rest) hr' rfl rfl (.prog _ hs')
        have start : ∀ l arg ho,
            GInv (MCfg.seekCall beh m l (m.lists l).head (m.lists l).cur arg ho (.wait k :: rest))
              (gstart m l gs) := by
          intro l arg ho
          unfold MCfg.seekCall gstart
          cases hsk : seek (m.lists l).heap (m.lists l).cur m.fuel (m.lists l).head with
          | none => exact ginv_deliver hr (.wait k hrest) _
          | some n' =>
            simp only []
            refine ginv_of hr rfl rfl ?_
            obtain ⟨e, es, hSL, he, _, ha, hf⟩ := framed_start (hr l) hsk
            have hab : absList (m.lists l) m.fuel = absL m l := rfl
            refine .prog _ (.iter ?_ ?_ (.wait k hrest))
            · show FrameD _ _ _ _ _ m.nextId (advance n' (absList (m.lists l) m.fuel))
              rw [hab, ha]
              exact hf
            · rw [hab, ha, ← he]
              exact ghostok_start hSL (hr l).wf.nodup
                (fun x hx => (hr l).wf.lt _ (SList.mem_ids_of_mem hx))
        cases cmd with
        | invoke l arg =>
          rw [MCfg.step_invoke hm] at st; cases st
          rw [gstep_invoke hm]
          exact start l arg false
        | enum l arg =>
          rw [MCfg.step_enum hm] at st; cases st
          rw [gstep_enum hm]
          exact start l arg true
        | _ => exact key (by intros; simp) (by intros; simp)

/-- run at most `n` steps of the Model machine, with the ghost stack alongside -/
def grunN (beh : Beh) : Nat → MCfg → List Ghost → MCfg × List Ghost
  | 0, c, gs => (c, gs)
  | n + 1, c, gs => match MCfg.step beh c with
    | none => (c, gs)
    | some c' => grunN beh n c' (gstep c gs)

/-- the ghost stack is only an annotation: the Model component is the plain run -/
theorem grunN_fst (beh : Beh) : ∀ (n : Nat) (m : MCfg) (gs : List Ghost),
    (grunN beh n m gs).1 = (MCfg.runN beh n m).1
  | 0, _, _ => rfl
  | n + 1, m, gs => by
    unfold grunN MCfg.runN
    cases MCfg.step beh m with
    | none => rfl
    | some m' => exact grunN_fst beh n m' _

theorem ginv_runN (beh : Beh) : ∀ (n : Nat) {m : MCfg} {gs : List Ghost}, GInv m gs →
    GInv (grunN beh n m gs).1 (grunN beh n m gs).2
  | 0, _, _, h => h
  | n + 1, m, gs, h => by
    unfold grunN
    cases hm : MCfg.step beh m with
    | none => exact h
    | some m' => exact ginv_runN beh n (ginv_step beh h hm)

end Evp
