import EventppVerif.CL.FrameSub
/-
  The ghost field `Ghost.called` is the sequence of `.call` events of the trace.

  `gstep` (CL/FrameSub.lean) appends `n'` to `called` of the top ghost record in the branches in
  which `MCfg.seekCall` emits `.call ⟨l, n', …⟩`.  This file proves that the two really agree, at
  every nesting depth, along every run.

  Nested traversals (a callback that invokes the same or another list) write into the same trace,
  so the `.call` events of one traversal are interleaved with those of the traversals its callbacks
  start.  The trace alone does not say who emitted an event (`.call a, .call b, .res unit, .res unit`
  is both "b is called by a traversal started inside a" and "a returns, b is called next and runs a
  command").  So the trace is annotated, in lock-step, with the *emitter* of every event:

  * `emitDepth m` — for the step that `MCfg.step` takes from `m`: if it is a step of a traversal
    (the frame `.iter …` under the returning callback, or the `.iter` frame that `invoke` / `enum`
    is about to push), the number of stack frames *under* that `.iter` frame.  While a traversal
    runs the frames under it do not change, and every traversal nested in it sits strictly higher,
    so this number identifies the traversal among all events emitted during its life time.
  * `astep m m' ann` — one annotation (`emitDepth m`) per event that the step `m → m'` appended to
    the trace; `ann` is kept newest first, parallel to `m.trace`.
  * `kstep m ks` — the *marks*: one per running traversal, the length of the trace when the
    traversal started (so the events of its life time are the `trace.length - mark` newest ones).

  `TInv m gs ks ann`: `ann` is as long as the trace, and for every running traversal
  `.iter l n cap arg ho` with `d` frames under it, ghost record `g` and mark `k`:
      `g.called = emittedBy d (since k (m.trace.zip ann))`
  — the handles, oldest first, of the `.call` events after the mark whose emitter is `d` —, and all
  those events are calls `⟨l, _, _, arg, ho⟩`.  `tinv_step`: every step of every behaviour keeps it.

  The last part follows one traversal from its start to a later state (`Follow`, `follow_run`): as
  long as its frame stays on the stack, its ghost record keeps `born` and `snap` and its mark, which
  are the world's id bound, the list content and the trace length at the start.
-/
namespace Evp

/-! ### the annotation -/

/-- the handle called by a `.call` event -/
def Ev.callNode? : Ev → Option Nat
  | .call c => some c.h
  | .res _ => none

/-- Who emits the event of the step that `MCfg.step` takes from `m`: for a traversal step the
    number of frames under the traversal's `.iter` frame (for `invoke` / `enum`: under the frame
    that is pushed, i.e. the suspended program `.wait k` and everything under it).  Other steps
    only emit `.res` events; their annotation is immaterial (0). -/
def emitDepth (m : MCfg) : Nat :=
  match m.stack with
  | .prog (.ret _) :: .iter _ _ _ _ _ :: below => below.length
  | .prog (.op (.invoke _ _) _) :: rest => rest.length + 1
  | .prog (.op (.enum _ _) _) :: rest => rest.length + 1
  | _ => 0

/-- the annotation after the step `m → m'`: every event that the step appended is annotated with
    `emitDepth m` -/
def astep (m m' : MCfg) (ann : List Nat) : List Nat :=
  List.replicate (m'.trace.length - m.trace.length) (emitDepth m) ++ ann

theorem astep_same {m m' : MCfg} (ann : List Nat) (h : m'.trace = m.trace) : astep m m' ann = ann := by
  unfold astep; rw [h]; simp

theorem astep_cons {m m' : MCfg} (ann : List Nat) {e : Ev} (h : m'.trace = e :: m.trace) :
    astep m m' ann = emitDepth m :: ann := by
  unfold astep; rw [h]
  have : (e :: m.trace).length - m.trace.length = 1 := by simp
  rw [this]; rfl

theorem emitDepth_ret_iter {m : MCfg} {v l n cap arg honour below}
    (h : m.stack = .prog (.ret v) :: .iter l n cap arg honour :: below) : emitDepth m = below.length := by
  unfold emitDepth; rw [h]
theorem emitDepth_invoke {m : MCfg} {l arg k rest} (h : m.stack = .prog (.op (.invoke l arg) k) :: rest) :
    emitDepth m = rest.length + 1 := by
  unfold emitDepth; rw [h]
theorem emitDepth_enum {m : MCfg} {l arg k rest} (h : m.stack = .prog (.op (.enum l arg) k) :: rest) :
    emitDepth m = rest.length + 1 := by
  unfold emitDepth; rw [h]

/-! ### the marks -/

def kstart (m : MCfg) (l : Nat) (ks : List Nat) : List Nat :=
  match seek (m.lists l).heap (m.lists l).cur m.fuel (m.lists l).head with
  | none => ks
  | some _ => m.trace.length :: ks

def knext (m : MCfg) (l n cap : Nat) (ks : List Nat) : List Nat :=
  match seek (m.lists l).heap cap m.fuel ((m.lists l).heap n).next with
  | none => ks.tail
  | some _ => ks

/-- The marks after the step that `MCfg.step` takes from `m` (same shape as `gstep`): a traversal
    that starts gets the current trace length as its mark, a traversal that ends is popped. -/
def kstep (m : MCfg) (ks : List Nat) : List Nat :=
  match m.stack with
  | .prog (.ret v) :: .iter l n cap _ honour :: _ =>
    if honour && !v then ks.tail else knext m l n cap ks
  | .prog (.op (.invoke l _) _) :: _ => kstart m l ks
  | .prog (.op (.enum l _) _) :: _ => kstart m l ks
  | _ => ks

theorem kstep_ret_iter {m : MCfg} {ks v l n cap arg honour below}
    (h : m.stack = .prog (.ret v) :: .iter l n cap arg honour :: below) :
    kstep m ks = if honour && !v then ks.tail else knext m l n cap ks := by
  unfold kstep; rw [h]
theorem kstep_ret_nil {m : MCfg} {ks v} (h : m.stack = [.prog (.ret v)]) : kstep m ks = ks := by
  unfold kstep; rw [h]
theorem kstep_ret_prog {m : MCfg} {ks v p rest} (h : m.stack = .prog (.ret v) :: .prog p :: rest) :
    kstep m ks = ks := by
  unfold kstep; rw [h]
theorem kstep_ret_wait {m : MCfg} {ks v k rest} (h : m.stack = .prog (.ret v) :: .wait k :: rest) :
    kstep m ks = ks := by
  unfold kstep; rw [h]
theorem kstep_invoke {m : MCfg} {ks l arg k rest} (h : m.stack = .prog (.op (.invoke l arg) k) :: rest) :
    kstep m ks = kstart m l ks := by
  unfold kstep; rw [h]
theorem kstep_enum {m : MCfg} {ks l arg k rest} (h : m.stack = .prog (.op (.enum l arg) k) :: rest) :
    kstep m ks = kstart m l ks := by
  unfold kstep; rw [h]
theorem kstep_op {m : MCfg} {ks cmd k rest} (h : m.stack = .prog (.op cmd k) :: rest)
    (h1 : ∀ l a, cmd ≠ .invoke l a) (h2 : ∀ l a, cmd ≠ .enum l a) : kstep m ks = ks := by
  unfold kstep; rw [h]
  cases cmd <;> first | rfl | exact absurd rfl (h1 _ _) | exact absurd rfl (h2 _ _)

/-! ### the calls emitted by one traversal -/

/-- the part of a (newest first) trace that was appended after it had length `k` -/
def since {α : Type} (k : Nat) (tr : List α) : List α := tr.take (tr.length - k)

/-- From a segment of the annotated trace (newest first): the handles of the `.call` events whose
    emitter is `d`, oldest first. -/
def emittedBy (d : Nat) (seg : List (Ev × Nat)) : List Nat :=
  seg.reverse.filterMap (fun p => if p.2 = d then p.1.callNode? else none)

theorem since_cons {α : Type} {k : Nat} {tr : List α} (h : k ≤ tr.length) (x : α) :
    since k (x :: tr) = x :: since k tr := by
  unfold since
  have : (x :: tr).length - k = (tr.length - k) + 1 := by simp; omega
  rw [this, List.take_succ_cons]

theorem since_length {α : Type} (tr : List α) : since tr.length tr = [] := by
  unfold since; simp

theorem emittedBy_cons (d : Nat) (p : Ev × Nat) (seg : List (Ev × Nat)) :
    emittedBy d (p :: seg) = emittedBy d seg ++ (if p.2 = d then p.1.callNode? else none).toList := by
  unfold emittedBy
  rw [List.reverse_cons, List.filterMap_append]
  congr 1

/-! ### the invariant -/

/-- `gs` (ghost records) and `ks` (marks) have one entry per running traversal of the stack, in
    stack order; `called` of each record is the sequence of handles of the `.call` events emitted by
    that traversal (emitter = number of frames under it) since its mark, and all these events are
    calls of this traversal's list, with its argument and flag. -/
inductive TStack (tr : List Ev) (ann : List Nat) : List MFrame → List Ghost → List Nat → Prop
  | nil : TStack tr ann [] [] []
  | prog (p : Prog) {st gs ks} : TStack tr ann st gs ks → TStack tr ann (.prog p :: st) gs ks
  | wait (k : Res → Prog) {st gs ks} : TStack tr ann st gs ks → TStack tr ann (.wait k :: st) gs ks
  | iter {l n cap arg ho} {g : Ghost} {k : Nat} {st gs ks} :
      k ≤ tr.length →
      g.called = emittedBy st.length (since k (tr.zip ann)) →
      (∀ c, (Ev.call c, st.length) ∈ since k (tr.zip ann) → c.list = l ∧ c.arg = arg ∧ c.enum = ho) →
      TStack tr ann st gs ks → TStack tr ann (.iter l n cap arg ho :: st) (g :: gs) (k :: ks)

theorem TStack.prog_inv {tr ann p st gs ks} (h : TStack tr ann (.prog p :: st) gs ks) :
    TStack tr ann st gs ks := by
  cases h; assumption

theorem TStack.wait_inv {tr ann k st gs ks} (h : TStack tr ann (.wait k :: st) gs ks) :
    TStack tr ann st gs ks := by
  cases h; assumption

theorem TStack.iter_inv {tr ann l n cap arg ho st gs ks} (h : TStack tr ann (.iter l n cap arg ho :: st) gs ks) :
    ∃ g gs' k ks', gs = g :: gs' ∧ ks = k :: ks' ∧ k ≤ tr.length ∧
      g.called = emittedBy st.length (since k (tr.zip ann)) ∧
      (∀ c, (Ev.call c, st.length) ∈ since k (tr.zip ann) → c.list = l ∧ c.arg = arg ∧ c.enum = ho) ∧
      TStack tr ann st gs' ks' := by
  cases h with
  | iter h1 h2 h3 h4 => exact ⟨_, _, _, _, rfl, rfl, h1, h2, h3, h4⟩

/-- a new event whose emitter is not one of the traversals of `st` (it is a `.res`, or its emitter
    sits at least `st.length` high) leaves their ties alone -/
theorem TStack.push {tr ann st gs ks} (h : TStack tr ann st gs ks) (hl : ann.length = tr.length)
    (e : Ev) (a : Nat) (ha : e.callNode? = none ∨ st.length ≤ a) :
    TStack (e :: tr) (a :: ann) st gs ks := by
  induction h with
  | nil => exact .nil
  | prog p _ ih => exact .prog p (ih (ha.imp id (fun h => Nat.le_of_succ_le h)))
  | wait k _ ih => exact .wait k (ih (ha.imp id (fun h => Nat.le_of_succ_le h)))
  | @iter l n cap arg ho g k st gs ks hk hc hev _ ih =>
    have hz : k ≤ (tr.zip ann).length := by rw [List.length_zip, hl]; simpa using hk
    have hs : since k ((e :: tr).zip (a :: ann)) = (e, a) :: since k (tr.zip ann) := by
      rw [List.zip_cons_cons]; exact since_cons hz _
    have hnot : (if a = st.length then e.callNode? else none) = none := by
      rcases ha with ha | ha
      · rw [ha]; simp
      · have : a ≠ st.length := by simp at ha; omega
        rw [if_neg this]
    refine .iter (Nat.le_succ_of_le hk) ?_ ?_ (ih (ha.imp id (fun h => Nat.le_of_succ_le h)))
    · rw [hs, emittedBy_cons]
      simp only [hnot, Option.toList_none, List.append_nil]
      exact hc
    · intro c hc'
      rw [hs] at hc'
      rcases List.mem_cons.mp hc' with heq | hc'
      · exfalso
        injection heq with h1 h2
        subst h1
        rw [if_pos h2.symm] at hnot
        cases hnot
      · exact hev c hc'

/-- **the tie**: the annotation has one entry per trace event, and `called` of every ghost record
    is the sequence of `.call` events emitted by its traversal -/
def TInv (m : MCfg) (gs : List Ghost) (ks : List Nat) (ann : List Nat) : Prop :=
  ann.length = m.trace.length ∧ TStack m.trace ann m.stack gs ks

theorem tinv_init {m : MCfg} {p : Prog} (hst : m.stack = [.prog p]) :
    TInv m [] [] (List.replicate m.trace.length 0) := by
  refine ⟨by simp, ?_⟩
  rw [hst]
  exact .prog p .nil

theorem tinv_of {m m' : MCfg} {gs ks ann} (hl : ann.length = m.trace.length) (ht : m'.trace = m.trace)
    (hs : TStack m.trace ann m'.stack gs ks) : TInv m' gs ks (astep m m' ann) := by
  rw [astep_same ann ht]
  exact ⟨by rw [ht]; exact hl, by rw [ht]; exact hs⟩

theorem tinv_of_cons {m m' : MCfg} {gs ks ann} {e : Ev} (hl : ann.length = m.trace.length)
    (ht : m'.trace = e :: m.trace)
    (hs : TStack (e :: m.trace) (emitDepth m :: ann) m'.stack gs ks) : TInv m' gs ks (astep m m' ann) := by
  rw [astep_cons ann ht]
  exact ⟨by rw [ht]; simp [hl], by rw [ht]; exact hs⟩

theorem tinv_deliver {m : MCfg} {ann below gs ks} (hl : ann.length = m.trace.length)
    (h : TStack m.trace ann below gs ks) (r : Res) : TInv (m.deliver r below) gs ks (astep m (m.deliver r below) ann) := by
  cases below with
  | nil => exact tinv_of hl rfl h
  | cons f rest =>
    cases f with
    | prog p => exact tinv_of hl rfl h
    | iter l n cap arg ho => exact tinv_of hl rfl h
    | wait k =>
      exact tinv_of_cons (e := .res r) hl rfl (.prog _ (h.wait_inv.push hl _ _ (Or.inl rfl)))

theorem MCfg.apply_trace (m : MCfg) (busy : Nat → Bool) (cmd : Cmd) : (m.apply busy cmd).1.trace = m.trace := by
  cases cmd <;> simp only [MCfg.apply] <;> (repeat' split) <;> rfl

/-- **every step keeps the tie** — for every behaviour, at every nesting depth -/
theorem tinv_step (beh : Beh) {m m' : MCfg} {gs : List Ghost} {ks ann : List Nat} (h : TInv m gs ks ann)
    (st : MCfg.step beh m = some m') : TInv m' (gstep m gs) (kstep m ks) (astep m m' ann) := by
  obtain ⟨hl, hs⟩ := h
  rcases hm : m.stack with _ | ⟨f, rest⟩
  · rw [MCfg.step_nil hm] at st; cases st
  · rw [hm] at hs
    cases f with
    | wait k => rw [MCfg.step_wait hm] at st; cases st
    | iter l n cap arg ho => rw [MCfg.step_iter hm] at st; cases st
    | prog p =>
      have hrest := hs.prog_inv
      cases p with
      | ret v =>
        cases rest with
        | nil =>
          rw [MCfg.step_ret_nil hm] at st; cases st
          rw [gstep_ret_nil hm, kstep_ret_nil hm]
          exact tinv_of hl rfl hrest
        | cons g below =>
          cases g with
          | prog q =>
            rw [MCfg.step_ret_prog hm] at st; cases st
            rw [gstep_ret_prog hm, kstep_ret_prog hm]
            exact tinv_of hl rfl hrest
          | wait k =>
            rw [MCfg.step_ret_wait hm] at st; cases st
            rw [gstep_ret_wait hm, kstep_ret_wait hm]
            exact tinv_of hl rfl hrest
          | iter l n cap arg ho =>
            rw [MCfg.step_ret_iter hm] at st
            rw [gstep_ret_iter hm, kstep_ret_iter hm]
            obtain ⟨g, gs', k0, ks', rfl, rfl, hk, hc, hev, hbelow⟩ := hrest.iter_inv
            cases hcnd : (ho && !v) with
            | true =>
              simp only [hcnd, ↓reduceIte] at st ⊢
              cases st
              exact tinv_deliver hl hbelow _
            | false =>
              simp only [hcnd, Bool.false_eq_true, ↓reduceIte] at st ⊢
              cases st
              unfold gnext knext
              cases hsk : seek (m.lists l).heap cap m.fuel ((m.lists l).heap n).next with
              | none =>
                have : MCfg.seekCall beh m l ((m.lists l).heap n).next cap arg ho below =
                    m.deliver (MCfg.finishRes ho true) below := by
                  unfold MCfg.seekCall; rw [hsk]
                rw [this]
                exact tinv_deliver hl hbelow _
              | some n' =>
                simp only []
                have hd := emitDepth_ret_iter hm
                have htr : (MCfg.seekCall beh m l ((m.lists l).heap n).next cap arg ho below).trace =
                    .call ⟨l, n', ((m.lists l).heap n').cb, arg, ho⟩ :: m.trace := by
                  unfold MCfg.seekCall; rw [hsk]
                have hstk : (MCfg.seekCall beh m l ((m.lists l).heap n).next cap arg ho below).stack =
                    .prog (beh ⟨l, n', ((m.lists l).heap n').cb, arg, ho⟩
                      (countCalls m.trace ((m.lists l).heap n').cb)) :: .iter l n' cap arg ho :: below := by
                  unfold MCfg.seekCall; rw [hsk]
                refine tinv_of_cons hl htr ?_
                rw [hstk, hd]
                have hz : k0 ≤ (m.trace.zip ann).length := by rw [List.length_zip, hl]; simpa using hk
                have hsn : since k0 ((Ev.call ⟨l, n', ((m.lists l).heap n').cb, arg, ho⟩ :: m.trace).zip
                    (below.length :: ann)) =
                    (Ev.call ⟨l, n', ((m.lists l).heap n').cb, arg, ho⟩, below.length) ::
                      since k0 (m.trace.zip ann) := by
                  rw [List.zip_cons_cons]; exact since_cons hz _
                refine .prog _ (.iter (Nat.le_succ_of_le hk) ?_ ?_
                  (hbelow.push hl _ _ (Or.inr (Nat.le_refl _))))
                · rw [hsn, emittedBy_cons, ← hc]
                  simp [Ghost.next, Ev.callNode?]
                · intro c hc'
                  rw [hsn] at hc'
                  rcases List.mem_cons.mp hc' with heq | hc'
                  · injection heq with h1 _
                    injection h1 with h1
                    subst h1
                    exact ⟨rfl, rfl, rfl⟩
                  · exact hev c hc'
      | op cmd k =>
        have key : (∀ l a, cmd ≠ .invoke l a) → (∀ l a, cmd ≠ .enum l a) →
            TInv m' (gstep m gs) (kstep m ks) (astep m m' ann) := by
          intro h1 h2
          rw [MCfg.step_op hm h1 h2] at st; cases st
          rw [gstep_op hm h1 h2, kstep_op hm h1 h2]
          have htr : (m.applyStep cmd k rest).trace =
              .res (m.apply (busyOn MFrame.isIterOn rest) cmd).2 :: m.trace := by
            show _ :: _ = _
            rw [MCfg.apply_trace]
          exact tinv_of_cons hl htr (.prog _ (hrest.push hl _ _ (Or.inl rfl)))
        have start : ∀ l arg ho, emitDepth m = rest.length + 1 →
            TInv (MCfg.seekCall beh m l (m.lists l).head (m.lists l).cur arg ho (.wait k :: rest))
              (gstart m l gs) (kstart m l ks)
              (astep m (MCfg.seekCall beh m l (m.lists l).head (m.lists l).cur arg ho (.wait k :: rest)) ann) := by
          intro l arg ho hd
          unfold gstart kstart
          cases hsk : seek (m.lists l).heap (m.lists l).cur m.fuel (m.lists l).head with
          | none =>
            have : MCfg.seekCall beh m l (m.lists l).head (m.lists l).cur arg ho (.wait k :: rest) =
                m.deliver (MCfg.finishRes ho true) (.wait k :: rest) := by
              unfold MCfg.seekCall; rw [hsk]
            rw [this]
            exact tinv_deliver hl (.wait k hrest) _
          | some n' =>
            simp only []
            have htr : (MCfg.seekCall beh m l (m.lists l).head (m.lists l).cur arg ho (.wait k :: rest)).trace =
                .call ⟨l, n', ((m.lists l).heap n').cb, arg, ho⟩ :: m.trace := by
              unfold MCfg.seekCall; rw [hsk]
            have hstk : (MCfg.seekCall beh m l (m.lists l).head (m.lists l).cur arg ho (.wait k :: rest)).stack =
                .prog (beh ⟨l, n', ((m.lists l).heap n').cb, arg, ho⟩
                  (countCalls m.trace ((m.lists l).heap n').cb)) ::
                  .iter l n' (m.lists l).cur arg ho :: .wait k :: rest := by
              unfold MCfg.seekCall; rw [hsk]
            refine tinv_of_cons hl htr ?_
            rw [hstk, hd]
            have hz : m.trace.length ≤ (m.trace.zip ann).length := by rw [List.length_zip, hl]; simp
            have hsn : since m.trace.length
                ((Ev.call ⟨l, n', ((m.lists l).heap n').cb, arg, ho⟩ :: m.trace).zip ((rest.length + 1) :: ann)) =
                [(Ev.call ⟨l, n', ((m.lists l).heap n').cb, arg, ho⟩, rest.length + 1)] := by
              rw [List.zip_cons_cons, since_cons hz]
              have : m.trace.length = (m.trace.zip ann).length := by rw [List.length_zip, hl]; simp
              rw [this, since_length]
            refine .prog _ (.iter (Nat.le_succ _) ?_ ?_
              ((TStack.wait k hrest).push hl _ _ (Or.inr (Nat.le_refl _))))
            · show [n'] = emittedBy (rest.length + 1) _
              rw [hsn]
              simp [emittedBy, Ev.callNode?]
            · intro c hc'
              rw [hsn] at hc'
              rcases List.mem_cons.mp hc' with heq | hc'
              · injection heq with h1 _
                injection h1 with h1
                subst h1
                exact ⟨rfl, rfl, rfl⟩
              · cases hc'
        cases cmd with
        | invoke l arg =>
          rw [MCfg.step_invoke hm] at st; cases st
          rw [gstep_invoke hm, kstep_invoke hm]
          exact start l arg false (emitDepth_invoke hm)
        | enum l arg =>
          rw [MCfg.step_enum hm] at st; cases st
          rw [gstep_enum hm, kstep_enum hm]
          exact start l arg true (emitDepth_enum hm)
        | _ => exact key (by intros; simp) (by intros; simp)

/-! ### the instrumented run -/

/-- run at most `n` steps of the Model machine with ghost stack, marks and annotation alongside -/
def trunN (beh : Beh) : Nat → MCfg → List Ghost → List Nat → List Nat → MCfg × List Ghost × List Nat × List Nat
  | 0, c, gs, ks, ann => (c, gs, ks, ann)
  | n + 1, c, gs, ks, ann => match MCfg.step beh c with
    | none => (c, gs, ks, ann)
    | some c' => trunN beh n c' (gstep c gs) (kstep c ks) (astep c c' ann)

/-- marks and annotation are bookkeeping only: Model and ghost stack are those of `grunN` -/
theorem trunN_grunN (beh : Beh) : ∀ (n : Nat) (m : MCfg) (gs : List Ghost) (ks ann : List Nat),
    ((trunN beh n m gs ks ann).1, (trunN beh n m gs ks ann).2.1) = grunN beh n m gs
  | 0, _, _, _, _ => rfl
  | n + 1, m, gs, ks, ann => by
    unfold trunN grunN
    cases MCfg.step beh m with
    | none => rfl
    | some m' => exact trunN_grunN beh n m' _ _ _

theorem trunN_fst (beh : Beh) (n : Nat) (m : MCfg) (gs : List Ghost) (ks ann : List Nat) :
    (trunN beh n m gs ks ann).1 = (MCfg.runN beh n m).1 := by
  rw [← grunN_fst beh n m gs, ← trunN_grunN beh n m gs ks ann]

theorem tinv_runN (beh : Beh) : ∀ (n : Nat) {m : MCfg} {gs : List Ghost} {ks ann : List Nat},
    TInv m gs ks ann →
    TInv (trunN beh n m gs ks ann).1 (trunN beh n m gs ks ann).2.1 (trunN beh n m gs ks ann).2.2.1
      (trunN beh n m gs ks ann).2.2.2
  | 0, _, _, _, _, h => h
  | n + 1, m, gs, ks, ann, h => by
    unfold trunN
    cases hm : MCfg.step beh m with
    | none => exact h
    | some m' => exact tinv_runN beh n (tinv_step beh h hm)

/-- the annotation alone, without ghost records: it depends on the Model run only -/
def arunN (beh : Beh) : Nat → MCfg → List Nat → List Nat
  | 0, _, ann => ann
  | n + 1, c, ann => match MCfg.step beh c with
    | none => ann
    | some c' => arunN beh n c' (astep c c' ann)

theorem trunN_ann (beh : Beh) : ∀ (n : Nat) (m : MCfg) (gs : List Ghost) (ks ann : List Nat),
    (trunN beh n m gs ks ann).2.2.2 = arunN beh n m ann
  | 0, _, _, _, _ => rfl
  | n + 1, m, gs, ks, ann => by
    unfold trunN arunN
    cases MCfg.step beh m with
    | none => rfl
    | some m' => exact trunN_ann beh n m' _ _ _

theorem trunN_halt (beh : Beh) {m : MCfg} (h : MCfg.step beh m = none) :
    ∀ (n : Nat) (gs : List Ghost) (ks ann : List Nat), trunN beh n m gs ks ann = (m, gs, ks, ann)
  | 0, _, _, _ => rfl
  | n + 1, _, _, _ => by unfold trunN; rw [h]

/-- a run of `a + b` steps is a run of `a` steps followed by a run of `b` steps -/
theorem trunN_add (beh : Beh) : ∀ (a b : Nat) (m : MCfg) (gs : List Ghost) (ks ann : List Nat),
    trunN beh (a + b) m gs ks ann =
      trunN beh b (trunN beh a m gs ks ann).1 (trunN beh a m gs ks ann).2.1 (trunN beh a m gs ks ann).2.2.1
        (trunN beh a m gs ks ann).2.2.2
  | 0, b, m, gs, ks, ann => by rw [Nat.zero_add]; rfl
  | a + 1, b, m, gs, ks, ann => by
    have : a + 1 + b = (a + b) + 1 := by omega
    rw [this]
    cases hm : MCfg.step beh m with
    | none =>
      rw [trunN_halt beh hm, trunN_halt beh hm, trunN_halt beh hm]
    | some m' =>
      have e1 : trunN beh (a + b + 1) m gs ks ann = trunN beh (a + b) m' (gstep m gs) (kstep m ks) (astep m m' ann) := by
        rw [trunN, hm]
      have e2 : trunN beh (a + 1) m gs ks ann = trunN beh a m' (gstep m gs) (kstep m ks) (astep m m' ann) := by
        rw [trunN, hm]
      rw [e1, e2]
      exact trunN_add beh a b m' _ _ _

theorem arunN_add (beh : Beh) (a b : Nat) (m : MCfg) (ann : List Nat) :
    arunN beh (a + b) m ann = arunN beh b (MCfg.runN beh a m).1 (arunN beh a m ann) := by
  rw [← trunN_ann beh (a + b) m [] [], trunN_add, trunN_ann, trunN_ann, trunN_fst]

/-! ### every running traversal, by position -/

/-- number of running traversals among the frames -/
def iters : List MFrame → Nat
  | [] => 0
  | .iter _ _ _ _ _ :: st => iters st + 1
  | _ :: st => iters st

@[simp] theorem iters_nil : iters [] = 0 := rfl
@[simp] theorem iters_prog (p st) : iters (.prog p :: st) = iters st := rfl
@[simp] theorem iters_wait (k st) : iters (.wait k :: st) = iters st := rfl
@[simp] theorem iters_iter (l n cap arg ho st) : iters (.iter l n cap arg ho :: st) = iters st + 1 := rfl

/-- The traversal `.iter l n cap arg ho` with the frames `pre` above it and `below` under it: its
    ghost record and mark are the entries number `iters pre` (number of traversals above it) of
    `gs` and `ks`, and `called` is the sequence of its `.call` events. -/
theorem TStack.frame {tr ann l n cap arg ho below} : ∀ {pre : List MFrame} {gs : List Ghost} {ks : List Nat},
    TStack tr ann (pre ++ .iter l n cap arg ho :: below) gs ks →
    ∃ g k, gs[iters pre]? = some g ∧ ks[iters pre]? = some k ∧ k ≤ tr.length ∧
      g.called = emittedBy below.length (since k (tr.zip ann)) ∧
      (∀ c, (Ev.call c, below.length) ∈ since k (tr.zip ann) → c.list = l ∧ c.arg = arg ∧ c.enum = ho)
  | [], _, _, h => by
    obtain ⟨g, gs', k, ks', rfl, rfl, h1, h2, h3, _⟩ := h.iter_inv
    exact ⟨g, k, rfl, rfl, h1, h2, h3⟩
  | f :: pre, gs, ks, h => by
    rw [List.cons_append] at h
    cases f with
    | prog p => exact TStack.frame (pre := pre) h.prog_inv
    | wait k => exact TStack.frame (pre := pre) h.wait_inv
    | iter l' n' cap' arg' ho' =>
      obtain ⟨g', gs', k', ks', rfl, rfl, _, _, _, h4⟩ := h.iter_inv
      obtain ⟨g, k, h1, h2, h3⟩ := TStack.frame h4
      exact ⟨g, k, by simpa using h1, by simpa using h2, h3⟩

theorem TStack.lengths {tr ann st gs ks} (h : TStack tr ann st gs ks) :
    gs.length = iters st ∧ ks.length = iters st := by
  induction h with
  | nil => exact ⟨rfl, rfl⟩
  | prog p _ ih => exact ih
  | wait k _ ih => exact ih
  | iter _ _ _ _ ih => simp [ih.1, ih.2]

/-- the same position carries the frame invariant of `GInv` -/
theorem GStack.frame {m : MCfg} {SLs : Nat → SList} {l n cap arg ho below} :
    ∀ {pre : List MFrame} {gs : List Ghost},
    GStack m SLs (pre ++ .iter l n cap arg ho :: below) gs →
    ∃ g, gs[iters pre]? = some g ∧ FrameD (m.lists l) (SLs l) m.nextId n cap g.born g.rest ∧ GhostOK (SLs l) g
  | [], _, h => by
    obtain ⟨g, gs', rfl, h1, h2, _⟩ := h.iter_inv
    exact ⟨g, rfl, h1, h2⟩
  | f :: pre, gs, h => by
    rw [List.cons_append] at h
    cases f with
    | prog p => exact GStack.frame (pre := pre) h.prog_inv
    | wait k => exact GStack.frame (pre := pre) h.wait_inv
    | iter l' n' cap' arg' ho' =>
      obtain ⟨g', gs', rfl, _, _, h4⟩ := h.iter_inv
      obtain ⟨g, h1, h2⟩ := GStack.frame h4
      exact ⟨g, by simpa using h1, h2⟩

/-! ### following one traversal from its start

  `Follow base gs1 ks1 l arg ho b0 s0 k0 m gs ks`: the stack of `m` still contains, directly on
  top of the frames `base`, a traversal `.iter l _ _ arg ho`; under its ghost record and mark the
  ghost stack and the marks are `gs1` and `ks1`; its record has `born = b0`, `snap = s0` and its
  mark is `k0`.  A step keeps this as long as the stack stays higher than `base` plus the
  traversal's frame (`follow_step`): the traversal on top of `base` is then still the same one. -/

def Follow (base : List MFrame) (gs1 : List Ghost) (ks1 : List Nat) (l arg : Nat) (ho : Bool)
    (b0 : Nat) (s0 : List Entry) (k0 : Nat) (m : MCfg) (gs : List Ghost) (ks : List Nat) : Prop :=
  ∃ (top : List MFrame) (n cap : Nat) (g : Ghost) (gtop : List Ghost) (ktop : List Nat),
    m.stack = top ++ .iter l n cap arg ho :: base ∧ gs = gtop ++ g :: gs1 ∧ ks = ktop ++ k0 :: ks1 ∧
    gtop.length = iters top ∧ ktop.length = iters top ∧ g.born = b0 ∧ g.snap = s0

theorem MCfg.deliver_stack_le (m : MCfg) (r : Res) (below : List MFrame) :
    (m.deliver r below).stack.length ≤ below.length := by
  unfold MCfg.deliver
  split <;> simp

theorem MCfg.deliver_stack_app (m : MCfg) (r : Res) (top : List MFrame) (f : MFrame) (base : List MFrame)
    (hf : ∀ k, f ≠ .wait k) :
    ∃ top', (m.deliver r (top ++ f :: base)).stack = top' ++ f :: base ∧ iters top' = iters top := by
  cases top with
  | nil =>
    refine ⟨[], ?_, rfl⟩
    cases f with
    | wait k => exact absurd rfl (hf k)
    | prog p => rfl
    | iter l n cap arg ho => rfl
  | cons x top2 =>
    cases x with
    | wait k => exact ⟨.prog (k r) :: top2, rfl, rfl⟩
    | prog p => exact ⟨.prog p :: top2, rfl, rfl⟩
    | iter l n cap arg ho => exact ⟨.iter l n cap arg ho :: top2, rfl, rfl⟩

theorem follow_step (beh : Beh) {base gs1 ks1 l arg ho b0 s0 k0} {m m' : MCfg} {gs : List Ghost} {ks : List Nat}
    (hf : Follow base gs1 ks1 l arg ho b0 s0 k0 m gs ks) (st : MCfg.step beh m = some m')
    (hlen : base.length + 2 ≤ m'.stack.length) :
    Follow base gs1 ks1 l arg ho b0 s0 k0 m' (gstep m gs) (kstep m ks) := by
  obtain ⟨top, n, cap, g, gtop, ktop, hm, rfl, rfl, hg, hk, hb, hs⟩ := hf
  cases top with
  | nil => rw [List.nil_append] at hm; rw [MCfg.step_iter hm] at st; cases st
  | cons f top2 =>
    rw [List.cons_append] at hm
    cases f with
    | wait k => rw [MCfg.step_wait hm] at st; cases st
    | iter l2 n2 cap2 arg2 ho2 => rw [MCfg.step_iter hm] at st; cases st
    | prog p =>
      simp only [iters_prog] at hg hk
      cases p with
      | ret v =>
        cases top2 with
        | nil =>
          rw [List.nil_append] at hm
          have hg0 : gtop = [] := List.eq_nil_of_length_eq_zero hg
          have hk0 : ktop = [] := List.eq_nil_of_length_eq_zero hk
          subst hg0; subst hk0
          rw [MCfg.step_ret_iter hm] at st
          rw [gstep_ret_iter hm, kstep_ret_iter hm]
          cases hcnd : (ho && !v) with
          | true =>
            simp only [hcnd, ↓reduceIte] at st
            cases st
            have := MCfg.deliver_stack_le m (MCfg.finishRes ho false) base
            omega
          | false =>
            simp only [hcnd, Bool.false_eq_true, ↓reduceIte] at st ⊢
            cases st
            unfold gnext knext
            cases hsk : seek (m.lists l).heap cap m.fuel ((m.lists l).heap n).next with
            | none =>
              have e : MCfg.seekCall beh m l ((m.lists l).heap n).next cap arg ho base =
                  m.deliver (MCfg.finishRes ho true) base := by
                unfold MCfg.seekCall; rw [hsk]
              rw [e] at hlen
              have := MCfg.deliver_stack_le m (MCfg.finishRes ho true) base
              omega
            | some n' =>
              simp only [List.nil_append]
              have hstk : (MCfg.seekCall beh m l ((m.lists l).heap n).next cap arg ho base).stack =
                  .prog (beh ⟨l, n', ((m.lists l).heap n').cb, arg, ho⟩
                    (countCalls m.trace ((m.lists l).heap n').cb)) :: .iter l n' cap arg ho :: base := by
                unfold MCfg.seekCall; rw [hsk]
              exact ⟨[.prog _], n', cap, g.next n', [], [], hstk, rfl, rfl, rfl, rfl, hb, hs⟩
        | cons f2 top3 =>
          rw [List.cons_append] at hm
          cases f2 with
          | prog q =>
            rw [MCfg.step_ret_prog hm] at st; cases st
            rw [gstep_ret_prog hm, kstep_ret_prog hm]
            exact ⟨.prog q :: top3, n, cap, g, gtop, ktop, rfl, rfl, rfl, hg, hk, hb, hs⟩
          | wait k =>
            rw [MCfg.step_ret_wait hm] at st; cases st
            rw [gstep_ret_wait hm, kstep_ret_wait hm]
            exact ⟨.wait k :: top3, n, cap, g, gtop, ktop, rfl, rfl, rfl, hg, hk, hb, hs⟩
          | iter l2 n2 cap2 arg2 ho2 =>
            simp only [iters_iter] at hg hk
            obtain ⟨g2, gtop2, rfl⟩ : ∃ g2 gtop2, gtop = g2 :: gtop2 := by
              cases gtop with
              | nil => simp at hg
              | cons a b => exact ⟨a, b, rfl⟩
            obtain ⟨k2, ktop2, rfl⟩ : ∃ k2 ktop2, ktop = k2 :: ktop2 := by
              cases ktop with
              | nil => simp at hk
              | cons a b => exact ⟨a, b, rfl⟩
            have hg' : gtop2.length = iters top3 := by simpa using hg
            have hk' : ktop2.length = iters top3 := by simpa using hk
            rw [MCfg.step_ret_iter hm] at st
            rw [gstep_ret_iter hm, kstep_ret_iter hm]
            have pop : ∀ r, Follow base gs1 ks1 l arg ho b0 s0 k0
                (m.deliver r (top3 ++ .iter l n cap arg ho :: base)) (gtop2 ++ g :: gs1) (ktop2 ++ k0 :: ks1) := by
              intro r
              obtain ⟨top', e1, e2⟩ := MCfg.deliver_stack_app m r top3 (.iter l n cap arg ho) base
                (by intro k; simp)
              exact ⟨top', n, cap, g, gtop2, ktop2, e1, rfl, rfl, by rw [e2]; exact hg',
                by rw [e2]; exact hk', hb, hs⟩
            cases hcnd : (ho2 && !v) with
            | true =>
              simp only [hcnd, ↓reduceIte] at st ⊢
              cases st
              exact pop _
            | false =>
              simp only [hcnd, Bool.false_eq_true, ↓reduceIte] at st ⊢
              cases st
              unfold gnext knext
              cases hsk : seek (m.lists l2).heap cap2 m.fuel ((m.lists l2).heap n2).next with
              | none =>
                have e : MCfg.seekCall beh m l2 ((m.lists l2).heap n2).next cap2 arg2 ho2
                    (top3 ++ .iter l n cap arg ho :: base) =
                    m.deliver (MCfg.finishRes ho2 true) (top3 ++ .iter l n cap arg ho :: base) := by
                  unfold MCfg.seekCall; rw [hsk]
                rw [e]
                exact pop _
              | some n' =>
                simp only [List.cons_append]
                have hstk : (MCfg.seekCall beh m l2 ((m.lists l2).heap n2).next cap2 arg2 ho2
                    (top3 ++ .iter l n cap arg ho :: base)).stack =
                    .prog (beh ⟨l2, n', ((m.lists l2).heap n').cb, arg2, ho2⟩
                      (countCalls m.trace ((m.lists l2).heap n').cb)) :: .iter l2 n' cap2 arg2 ho2 ::
                      (top3 ++ .iter l n cap arg ho :: base) := by
                  unfold MCfg.seekCall; rw [hsk]
                exact ⟨.prog _ :: .iter l2 n' cap2 arg2 ho2 :: top3, n, cap, g, g2.next n' :: gtop2, k2 :: ktop2,
                  hstk, rfl, rfl, by simpa using hg', by simpa using hk', hb, hs⟩
      | op cmd k =>
        have key : (∀ l a, cmd ≠ .invoke l a) → (∀ l a, cmd ≠ .enum l a) →
            Follow base gs1 ks1 l arg ho b0 s0 k0 m' (gstep m (gtop ++ g :: gs1)) (kstep m (ktop ++ k0 :: ks1)) := by
          intro h1 h2
          rw [MCfg.step_op hm h1 h2] at st; cases st
          rw [gstep_op hm h1 h2, kstep_op hm h1 h2]
          exact ⟨.prog _ :: top2, n, cap, g, gtop, ktop, rfl, rfl, rfl, hg, hk, hb, hs⟩
        have start : ∀ l2 arg2 ho2,
            Follow base gs1 ks1 l arg ho b0 s0 k0
              (MCfg.seekCall beh m l2 (m.lists l2).head (m.lists l2).cur arg2 ho2
                (.wait k :: (top2 ++ .iter l n cap arg ho :: base)))
              (gstart m l2 (gtop ++ g :: gs1)) (kstart m l2 (ktop ++ k0 :: ks1)) := by
          intro l2 arg2 ho2
          unfold gstart kstart MCfg.seekCall
          cases hsk : seek (m.lists l2).heap (m.lists l2).cur m.fuel (m.lists l2).head with
          | none =>
            exact ⟨.prog _ :: top2, n, cap, g, gtop, ktop, rfl, rfl, rfl, hg, hk, hb, hs⟩
          | some n' =>
            exact ⟨.prog _ :: .iter l2 n' (m.lists l2).cur arg2 ho2 :: .wait k :: top2, n, cap, g,
              _ :: gtop, _ :: ktop, rfl, rfl, rfl, by simpa using hg, by simpa using hk, hb, hs⟩
        cases cmd with
        | invoke l2 arg2 =>
          rw [MCfg.step_invoke hm] at st; cases st
          rw [gstep_invoke hm, kstep_invoke hm]
          exact start l2 arg2 false
        | enum l2 arg2 =>
          rw [MCfg.step_enum hm] at st; cases st
          rw [gstep_enum hm, kstep_enum hm]
          exact start l2 arg2 true
        | _ => exact key (by intros; simp) (by intros; simp)

/-- along a run: as long as the stack stays higher than `base` plus the traversal's frame -/
theorem follow_runN (beh : Beh) {base gs1 ks1 l arg ho b0 s0 k0} :
    ∀ (j : Nat) {m : MCfg} {gs : List Ghost} {ks ann : List Nat},
    Follow base gs1 ks1 l arg ho b0 s0 k0 m gs ks →
    (∀ t, t ≤ j → base.length + 2 ≤ (trunN beh t m gs ks ann).1.stack.length) →
    Follow base gs1 ks1 l arg ho b0 s0 k0 (trunN beh j m gs ks ann).1 (trunN beh j m gs ks ann).2.1
      (trunN beh j m gs ks ann).2.2.1
  | 0, _, _, _, _, h, _ => h
  | j + 1, m, gs, ks, ann, h, hp => by
    cases hm : MCfg.step beh m with
    | none => rw [trunN_halt beh hm]; exact h
    | some m' =>
      have e : ∀ t, trunN beh (t + 1) m gs ks ann = trunN beh t m' (gstep m gs) (kstep m ks) (astep m m' ann) := by
        intro t; rw [trunN, hm]
      rw [e]
      refine follow_runN beh j (follow_step beh h hm ?_) ?_
      · have := hp 1 (by omega)
        rw [e] at this
        exact this
      · intro t ht
        have := hp (t + 1) (by omega)
        rw [e] at this
        exact this

/-- when the followed traversal is the top one again (its callback returns): its ghost record and
    mark are the top entries -/
theorem Follow.top {base gs1 ks1 l arg ho b0 s0 k0} {m : MCfg} {gs : List Ghost} {ks : List Nat}
    (hf : Follow base gs1 ks1 l arg ho b0 s0 k0 m gs ks) {p : Prog} {l' n cap arg' : Nat} {ho' : Bool}
    {below : List MFrame} (hst : m.stack = .prog p :: .iter l' n cap arg' ho' :: below)
    (hlen : below.length = base.length) :
    below = base ∧ l' = l ∧ arg' = arg ∧ ho' = ho ∧
      ∃ g, gs = g :: gs1 ∧ ks = k0 :: ks1 ∧ g.born = b0 ∧ g.snap = s0 := by
  obtain ⟨top, n0, cap0, g, gtop, ktop, hm, rfl, rfl, hg, hk, hb, hs⟩ := hf
  rw [hst] at hm
  have hl := congrArg List.length hm
  simp only [List.length_cons, List.length_append] at hl
  cases top with
  | nil => simp at hl; omega
  | cons f top2 =>
    cases top2 with
    | cons f2 top3 => simp at hl; omega
    | nil =>
      simp only [List.cons_append, List.nil_append] at hm
      injection hm with h1 h2
      injection h2 with h2 h3
      injection h2 with e1 e2 e3 e4 e5
      subst h1
      have hg0 : gtop = [] := List.eq_nil_of_length_eq_zero (by simpa using hg)
      have hk0 : ktop = [] := List.eq_nil_of_length_eq_zero (by simpa using hk)
      subst hg0; subst hk0
      exact ⟨h3, e1, e4, e5, g, rfl, rfl, hb, hs⟩

end Evp
