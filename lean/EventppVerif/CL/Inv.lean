import EventppVerif.CL.WF
import EventppVerif.CL.Spec
/-
  Representation invariants tying one Model list object to one Spec list, and one running
  Model traversal to one running Spec invocation.  Definitions only; the lemmas about them are
  in OpLemmas.lean, the simulation that uses them in Sim.lean.
-/
namespace Evp

/-- `l` represents the Spec list `SL`: the live chain is `SL`'s ids, callbacks agree.
    `b` bounds every allocated node id (the world's `nextId`). -/
structure Rep (l : CL) (SL : SList) (b : Nat) : Prop where
  wf : WF l SL.ids b
  cbs : ∀ e ∈ SL, (l.heap e.id).cb = e.cb
  /-- ids at or above the bound were never allocated in this object -/
  fresh : ∀ n, b ≤ n → (l.heap n).counter = 0

/-- A running Model traversal standing on node `m` with captured generation `cap` corresponds to a
    running Spec invocation whose remaining snapshot is `rest`.

    `R` are removed nodes (their links are frozen), `S` is a suffix of the live chain; following
    `next` from `m` walks `R` and then enters the live chain at the head of `S` (if `R = []`,
    `m` itself is the head of `S`).  What the traversal will still call — the nodes after `m`
    that pass the guard — is exactly what the Spec invocation will still call: the entries of
    its remaining snapshot that are still in the list. -/
def FrameOK (l : CL) (SL : SList) (b : Nat) (m cap : Nat) (rest : List Entry) : Prop :=
  ∃ R S : List Nat,
    S <:+ SL.ids ∧
    (∀ r ∈ R, (l.heap r).counter = 0 ∧ r < b) ∧
    R.Nodup ∧
    Seg nextF l.heap (some m) R S.head? ∧
    cap ≤ l.cur ∧
    ((if R = [] then S.tail else S).filter (fun n => decide ((l.heap n).counter ≤ cap)))
      = ((rest.filter (fun e => SL.present e.id)).map (·.id)) ∧
    (∀ e ∈ rest, SL.present e.id → e ∈ SL) ∧
    -- every snapshot entry was allocated before now (so a later fresh id never revives one)
    (∀ e ∈ rest, e.id < b)

end Evp
