import EventppVerif.CL.Spec
/-
  Pure list facts used by the per-operation lemmas (no heap here).
-/
namespace Evp

/-- pigeonhole: a duplicate-free list of naturals below `b` has at most `b` elements -/
theorem nodup_lt_length : ∀ (b : Nat) (L : List Nat), L.Nodup → (∀ n ∈ L, n < b) → L.length ≤ b
  | 0, L, _, hl => by
    cases L with
    | nil => simp
    | cons a r => exact absurd (hl a (by simp)) (by omega)
  | b + 1, L, hn, hl => by
    by_cases hb : b ∈ L
    · have h1 := nodup_lt_length b (L.erase b) (hn.erase b) (by
        intro n hn'
        have hne : n ≠ b := fun h => by
          subst h
          exact (List.Nodup.mem_erase_iff hn).mp hn' |>.1 rfl
        have := hl n (List.mem_of_mem_erase hn')
        omega)
      rw [List.length_erase_of_mem hb] at h1
      omega
    · have := nodup_lt_length b L hn (by
        intro n hn'
        have hne : n ≠ b := fun h => hb (h ▸ hn')
        have := hl n hn'
        omega)
      omega

theorem nodup_filter {α} {p : α → Bool} {L : List α} (h : L.Nodup) : (L.filter p).Nodup :=
  List.Nodup.sublist List.filter_sublist h

theorem nodup_suffix {α} {S L : List α} (hs : S <:+ L) (h : L.Nodup) : S.Nodup :=
  List.Nodup.sublist hs.sublist h

theorem nodup_reverse' {α} {L : List α} (h : L.Nodup) : L.reverse.Nodup := by
  unfold List.Nodup at *
  rw [List.pairwise_reverse]
  exact h.imp (fun h => h.symm)

theorem getLast?_split {α} (P Q : List α) (n : α) :
    (P ++ n :: Q).getLast? = if Q = [] then some n else Q.getLast? := by
  rcases List.eq_nil_or_concat Q with rfl | ⟨Q', q, rfl⟩
  · simp
  · simp [List.concat_eq_append, List.getLast?_append, List.getLast?_cons]

theorem head?_split {α} (P Q : List α) (n : α) :
    (P ++ n :: Q).head? = if P = [] then some n else P.head? := by
  cases P <;> simp

theorem nodup_split {P Q : List Nat} {n} (h : (P ++ n :: Q).Nodup) :
    P.Nodup ∧ Q.Nodup ∧ n ∉ P ∧ n ∉ Q ∧ (∀ a ∈ P, a ∉ Q) ∧ (P ++ Q).Nodup := by
  have := List.nodup_append.mp h
  obtain ⟨h1, h2, h3⟩ := this
  have h2' := List.nodup_cons.mp h2
  refine ⟨h1, h2'.2, fun hm => h3 n hm n (by simp) rfl, h2'.1, fun a ha hq => h3 a ha a (by simp [hq]) rfl, ?_⟩
  exact List.nodup_append.mpr ⟨h1, h2'.2, fun a ha b hb e => h3 a ha b (by simp [hb]) e⟩

theorem nodup_middle' {P Q : List Nat} {a} (h : (P ++ Q).Nodup) (ha : a ∉ P ++ Q) : (P ++ a :: Q).Nodup := by
  rw [List.perm_middle.nodup_iff]
  exact List.nodup_cons.mpr ⟨ha, h⟩

namespace SList

@[simp] theorem ids_nil : ids [] = [] := rfl
@[simp] theorem ids_cons (e : Entry) (L : SList) : ids (e :: L) = e.id :: ids L := rfl
@[simp] theorem ids_append' (L L' : SList) : ids (L ++ L') = ids L ++ ids L' := by simp [ids]
theorem ids_append (L : SList) (id cb) : (L.append id cb).ids = L.ids ++ [id] := by simp [append, ids]
theorem ids_prepend (L : SList) (id cb) : (L.prepend id cb).ids = id :: L.ids := by simp [prepend, ids]

theorem present_iff {L : SList} {h : Hd} : L.present h = true ↔ h ∈ L.ids := by
  simp [present, ids]

theorem present_false_iff {L : SList} {h : Hd} : L.present h = false ↔ h ∉ L.ids := by
  rw [← present_iff]; simp

theorem mem_ids_of_mem {L : SList} {e : Entry} (h : e ∈ L) : e.id ∈ L.ids := by
  simp [ids]; exact ⟨e, h, rfl⟩

theorem ids_erase (L : SList) (h : Hd) : (L.erase h).ids = L.ids.filter (fun n => n != h) := by
  simp [erase, ids, List.filter_map]
  rfl

theorem mem_erase {L : SList} {h : Hd} {e : Entry} : e ∈ L.erase h ↔ e ∈ L ∧ e.id ≠ h := by
  simp [erase]

theorem present_erase (L : SList) (h x : Hd) : (L.erase h).present x = (L.present x && x != h) := by
  rw [Bool.eq_iff_iff]
  simp [present_iff, ids_erase]

theorem mem_insertBefore {L : SList} {e x : Entry} {b : Hd} : x ∈ L.insertBefore e b ↔ x = e ∨ x ∈ L := by
  induction L with
  | nil => simp [insertBefore]
  | cons y r ih =>
    simp only [insertBefore]
    split
    · simp
    · simp [ih]; grind

theorem ids_insertBefore : ∀ {L : SList} {e : Entry} {b : Hd} {P Q : List Nat},
    L.ids = P ++ b :: Q → b ∉ P → (L.insertBefore e b).ids = P ++ e.id :: b :: Q
  | [], e, b, P, Q, h, _ => by simp at h
  | x :: r, e, b, [], Q, h, _ => by
    simp at h
    simp [insertBefore, h.1, h.2]
  | x :: r, e, b, p :: P, Q, h, hn => by
    simp at h
    have hx : x.id ≠ b := by
      rw [h.1]; intro hh; exact hn (by simp [hh])
    simp [insertBefore, hx]
    exact ⟨h.1, ids_insertBefore h.2 (fun hh => hn (by simp [hh]))⟩

theorem present_append (L : SList) (id cb) (x : Hd) : (L.append id cb).present x = (L.present x || x == id) := by
  rw [Bool.eq_iff_iff]
  simp [present_iff, ids_append]

theorem present_prepend (L : SList) (id cb) (x : Hd) : (L.prepend id cb).present x = (L.present x || x == id) := by
  rw [Bool.eq_iff_iff]
  simp [present_iff, ids_prepend]
  exact Or.comm

end SList
end Evp
