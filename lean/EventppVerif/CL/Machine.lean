import EventppVerif.CL.Model
import EventppVerif.CL.Spec
/-
  Small-step machines with an explicit frame stack, one for the Model (pointer heap) and one
  for the Spec (lists), running the same programs in lock-step.

  A step is one command, or "return from a callback, skip to the next callable entry and call
  it".  Because the stack of running traversals is part of the configuration, invariants can
  speak about outer invocations while an inner one runs, to any nesting depth.
-/
namespace Evp

/-- does any running traversal (frame) work on list `l`? generic over the frame type -/
def busyOn {F : Type} (isIterOn : F → Nat → Bool) (stack : List F) (l : Nat) : Bool :=
  stack.any (fun f => isIterOn f l)

/-! ### Model machine -/

inductive MFrame
  | prog (p : Prog)
  /-- a program suspended on `invoke` / `enum`, waiting for the traversal above it -/
  | wait (k : Res → Prog)
  /-- a running `doForEachIf` on list `l`: `node` is the loop variable (the node whose callback
      is running), `cap` the generation captured at the start -/
  | iter (l : Nat) (node : Nat) (cap : Nat) (arg : Nat) (honour : Bool)

def MFrame.isIterOn : MFrame → Nat → Bool
  | .iter l _ _ _ _, l' => l == l'
  | _, _ => false

structure MCfg where
  lists : Store CL := {}
  nextId : Nat := 0
  /-- newest first -/
  trace : List Ev := []
  stack : List MFrame := []
  /-- number of list objects in the world (only used by `foreign`) -/
  nlists : Nat := 1
  /-- ghost: how often a `getNextCounter` of this world took its wrap branch -/
  wraps : Nat := 0

namespace MCfg

/-- `h` is currently a callback of another list of this world.  Using such a handle on list `l`
    is outside every property (the library documents it as invalid); the machines skip the
    command, and so does the harness, so generated programs stay inside the quantifier. -/
def foreign (c : MCfg) (l : Nat) (h : Hd) : Bool :=
  (List.range c.nlists).any (fun l' => l' != l && ((c.lists l').heap h).counter != 0)

def fuel (c : MCfg) : Nat := c.nextId + 1

/-- result handed to the suspended program when a traversal ends -/
def finishRes (honour completed : Bool) : Res := if honour then .bool completed else .unit

def deliver (c : MCfg) (r : Res) : List MFrame → MCfg
  | .wait k :: rest => { c with stack := .prog (k r) :: rest, trace := .res r :: c.trace }
  | rest => { c with stack := rest }

/-- from loop variable `start`: skip to the next node that passes the guard and call it, or
    finish the traversal. `below` is the stack under the traversal frame. -/
def seekCall (beh : Beh) (c : MCfg) (l : Nat) (start : Option Nat) (cap arg : Nat)
    (honour : Bool) (below : List MFrame) : MCfg :=
  match seek (c.lists l).heap cap c.fuel start with
  | none => c.deliver (finishRes honour true) below
  | some n =>
    let cb := ((c.lists l).heap n).cb
    { c with
      trace := .call ⟨l, n, cb, arg, honour⟩ :: c.trace
      stack := .prog (beh ⟨l, n, cb, arg, honour⟩ (countCalls c.trace cb)) :: .iter l n cap arg honour :: below }

/-- commands that are not traversals: new world and result -/
def apply (c : MCfg) (busy : Nat → Bool) : Cmd → MCfg × Res
  | .append l cb =>
    ({ c with lists := upd c.lists l ((c.lists l).append c.fuel c.nextId cb), nextId := c.nextId + 1,
              wraps := c.wraps + (if (c.lists l).willWrap then 1 else 0) },
      .handle c.nextId)
  | .prepend l cb =>
    ({ c with lists := upd c.lists l ((c.lists l).prepend c.fuel c.nextId cb), nextId := c.nextId + 1,
              wraps := c.wraps + (if (c.lists l).willWrap then 1 else 0) },
      .handle c.nextId)
  | .insert l cb b =>
    if c.foreign l b then (c, .unit) else
    ({ c with lists := upd c.lists l ((c.lists l).insert c.fuel c.nextId cb b), nextId := c.nextId + 1,
              wraps := c.wraps + (if (c.lists l).willWrap then 1 else 0) },
      .handle c.nextId)
  | .remove l h =>
    if c.foreign l h then (c, .unit) else
    let (l', r) := (c.lists l).remove h
    ({ c with lists := upd c.lists l l' }, .bool r)
  | .owns l h =>
    if c.foreign l h then (c, .unit) else
    (c, .bool ((c.lists l).owns c.fuel h))
  | .empty l => (c, .bool (c.lists l).isEmpty)
  | .copyAssign dst src =>
    if dst = src ∨ busy dst ∨ busy src then (c, .unit) else
    let cl := (c.lists src).clone c.fuel c.nextId
    let k := (chainOf (c.lists src).heap c.fuel (c.lists src).head).length
    ({ c with lists := upd c.lists dst cl, nextId := c.nextId + k }, .unit)
  | .moveAssign dst src =>
    if dst = src ∨ busy dst ∨ busy src then (c, .unit) else
    let s := c.lists src
    ({ c with lists := upd (upd c.lists dst s) src { cur := s.cur, M := s.M } }, .unit)
  | .swap a b =>
    if busy a ∨ busy b then (c, .unit) else
    ({ c with lists := upd (upd c.lists a (c.lists b)) b (c.lists a) }, .unit)
  | .setCounter l k =>
    let s := c.lists l
    ({ c with lists := upd c.lists l { s with cur := if 0 < k ∧ k ≤ s.M then max s.cur (s.M - k) else s.cur } }, .unit)
  | .invoke _ _ => (c, .unit)
  | .enum _ _ => (c, .unit)

def step (beh : Beh) (c : MCfg) : Option MCfg :=
  match c.stack with
  | [] => none
  | .prog (.ret v) :: .iter l n cap arg honour :: below =>
    if honour && !v then some (c.deliver (finishRes honour false) below)
    else some (seekCall beh c l ((c.lists l).heap n).next cap arg honour below)
  | .prog (.ret _) :: rest => some { c with stack := rest }
  | .prog (.op (.invoke l arg) k) :: rest =>
    some (seekCall beh c l (c.lists l).head (c.lists l).cur arg false (.wait k :: rest))
  | .prog (.op (.enum l arg) k) :: rest =>
    some (seekCall beh c l (c.lists l).head (c.lists l).cur arg true (.wait k :: rest))
  | .prog (.op cmd k) :: rest =>
    let (c', r) := c.apply (busyOn MFrame.isIterOn rest) cmd
    some { c' with stack := .prog (k r) :: rest, trace := .res r :: c'.trace }
  | .wait _ :: _ => none
  | .iter _ _ _ _ _ :: _ => none

/-- run at most `n` steps; the flag says whether the machine halted (empty stack) -/
def runN (beh : Beh) : Nat → MCfg → MCfg × Bool
  | 0, c => (c, c.stack.isEmpty)
  | n + 1, c => match step beh c with
    | none => (c, c.stack.isEmpty)
    | some c' => runN beh n c'

end MCfg

/-! ### Spec machine -/

inductive SFrame
  | prog (p : Prog)
  | wait (k : Res → Prog)
  /-- a running invocation: `rest` is what remains of the snapshot taken at its start -/
  | iter (l : Nat) (rest : List Entry) (arg : Nat) (honour : Bool)

def SFrame.isIterOn : SFrame → Nat → Bool
  | .iter l _ _ _, l' => l == l'
  | _, _ => false

structure SCfg where
  lists : Store SList := {}
  nextId : Nat := 0
  trace : List Ev := []
  stack : List SFrame := []
  nlists : Nat := 1

namespace SCfg

def foreign (c : SCfg) (l : Nat) (h : Hd) : Bool :=
  (List.range c.nlists).any (fun l' => l' != l && (c.lists l').present h)

def deliver (c : SCfg) (r : Res) : List SFrame → SCfg
  | .wait k :: rest => { c with stack := .prog (k r) :: rest, trace := .res r :: c.trace }
  | rest => { c with stack := rest }

/-- call the first entry of the remaining snapshot that is still in the list, or finish -/
def seekCall (beh : Beh) (c : SCfg) (l : Nat) (snap : List Entry) (arg : Nat)
    (honour : Bool) (below : List SFrame) : SCfg :=
  match snap.dropWhile (fun e => !(c.lists l).present e.id) with
  | [] => c.deliver (MCfg.finishRes honour true) below
  | e :: es =>
    { c with
      trace := .call ⟨l, e.id, e.cb, arg, honour⟩ :: c.trace
      stack := .prog (beh ⟨l, e.id, e.cb, arg, honour⟩ (countCalls c.trace e.cb)) :: .iter l es arg honour :: below }

def apply (c : SCfg) (busy : Nat → Bool) : Cmd → SCfg × Res
  | .append l cb =>
    ({ c with lists := upd c.lists l ((c.lists l).append c.nextId cb), nextId := c.nextId + 1 },
      .handle c.nextId)
  | .prepend l cb =>
    ({ c with lists := upd c.lists l ((c.lists l).prepend c.nextId cb), nextId := c.nextId + 1 },
      .handle c.nextId)
  | .insert l cb b =>
    if c.foreign l b then (c, .unit) else
    ({ c with lists := upd c.lists l ((c.lists l).insert c.nextId cb b), nextId := c.nextId + 1 },
      .handle c.nextId)
  | .remove l h =>
    if c.foreign l h then (c, .unit) else
    let (l', r) := (c.lists l).remove h
    ({ c with lists := upd c.lists l l' }, .bool r)
  | .owns l h =>
    if c.foreign l h then (c, .unit) else
    (c, .bool ((c.lists l).present h))
  | .empty l => (c, .bool (c.lists l).isEmpty)
  | .copyAssign dst src =>
    if dst = src ∨ busy dst ∨ busy src then (c, .unit) else
    ({ c with lists := upd c.lists dst ((c.lists src).cloneWith c.nextId),
              nextId := c.nextId + (c.lists src).length }, .unit)
  | .moveAssign dst src =>
    if dst = src ∨ busy dst ∨ busy src then (c, .unit) else
    ({ c with lists := upd (upd c.lists dst (c.lists src)) src [] }, .unit)
  | .swap a b =>
    if busy a ∨ busy b then (c, .unit) else
    ({ c with lists := upd (upd c.lists a (c.lists b)) b (c.lists a) }, .unit)
  | .setCounter _ _ => (c, .unit)
  | .invoke _ _ => (c, .unit)
  | .enum _ _ => (c, .unit)

def step (beh : Beh) (c : SCfg) : Option SCfg :=
  match c.stack with
  | [] => none
  | .prog (.ret v) :: .iter l snap arg honour :: below =>
    if honour && !v then some (c.deliver (MCfg.finishRes honour false) below)
    else some (seekCall beh c l snap arg honour below)
  | .prog (.ret _) :: rest => some { c with stack := rest }
  | .prog (.op (.invoke l arg) k) :: rest =>
    some (seekCall beh c l (c.lists l) arg false (.wait k :: rest))
  | .prog (.op (.enum l arg) k) :: rest =>
    some (seekCall beh c l (c.lists l) arg true (.wait k :: rest))
  | .prog (.op cmd k) :: rest =>
    let (c', r) := c.apply (busyOn SFrame.isIterOn rest) cmd
    some { c' with stack := .prog (k r) :: rest, trace := .res r :: c'.trace }
  | .wait _ :: _ => none
  | .iter _ _ _ _ :: _ => none

def runN (beh : Beh) : Nat → SCfg → SCfg × Bool
  | 0, c => (c, c.stack.isEmpty)
  | n + 1, c => match step beh c with
    | none => (c, c.stack.isEmpty)
    | some c' => runN beh n c'

end SCfg
end Evp
