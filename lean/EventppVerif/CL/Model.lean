import EventppVerif.Basic
/-
  Model of `eventpp::CallbackListBase` (include/eventpp/callbacklist.h), pointer level.

  One `CL` value = one callback-list object: its nodes (a total heap; ids that were never
  allocated in this object hold the default node, whose counter is `removedCounter`), `head`,
  `tail`, `currentCounter` (`cur`), the modulus `M` of the counter type (2^32 in the source,
  re-read from the source on every run, see Generated/Frag.lean) and a flag `ub` that is set if
  an operation would dereference a null pointer (proved unreachable).

  Node ids are drawn from a world-wide counter (`id` parameters), so a handle is a node id and
  stays meaningful when two lists `swap` their contents.  `fuel` bounds every pointer walk; it
  is the world's `nextId + 1` and is proved sufficient (walks never run out of fuel).
-/
namespace Evp

structure CL where
  heap : Heap := {}
  head : Option Nat := none
  tail : Option Nat := none
  cur : Nat := 0
  M : Nat := 2 ^ 32
  ub : Bool := false

instance : Inhabited CL := ⟨{}⟩

/-- The traversal guard of `doForEachIf`:
    `node->counter != removedCounter && counter >= node->counter`. -/
def guard (nodeCounter captured : Nat) : Bool := nodeCounter != 0 && decide (captured ≥ nodeCounter)

/-- The wrap branch of `getNextCounter`: walk `head->next…` and write `counter = 1`. -/
def setOnes (h : Heap) : Nat → Option Nat → Heap
  | 0, _ => h
  | _ + 1, none => h
  | f + 1, some n => setOnes (upd h n { h n with counter := 1 }) f (h n).next

/-- does the next `getNextCounter` take its wrap branch? -/
def CL.willWrap (l : CL) : Bool := (l.cur + 1) % l.M == 0

/-- `getNextCounter`: `++currentCounter`; on wrap to 0 rewrite every linked node to 1 and
    draw again. Returns the new list state and the drawn generation. -/
def CL.nextCounter (l : CL) (fuel : Nat) : CL × Nat :=
  if (l.cur + 1) % l.M = 0 then
    ({ l with heap := setOnes l.heap fuel l.head, cur := 1 }, 1)
  else ({ l with cur := l.cur + 1 }, l.cur + 1)

/-- Link an allocated node `id` at the back (body of `append`). -/
def CL.linkBack (l : CL) (id : Nat) (cb : Cb) (c : Nat) : CL :=
  match l.head, l.tail with
  | some _, some t =>
    { l with
      heap := upd (upd l.heap id ⟨some t, none, cb, c⟩) t { l.heap t with next := some id }
      tail := some id }
  | none, _ =>
    { l with heap := upd l.heap id ⟨none, none, cb, c⟩, head := some id, tail := some id }
  | some _, none => { l with ub := true }

/-- Link an allocated node `id` at the front (body of `prepend`). -/
def CL.linkFront (l : CL) (id : Nat) (cb : Cb) (c : Nat) : CL :=
  match l.head with
  | some hd =>
    { l with
      heap := upd (upd l.heap id ⟨none, some hd, cb, c⟩) hd { l.heap hd with prev := some id }
      head := some id }
  | none =>
    { l with heap := upd l.heap id ⟨none, none, cb, c⟩, head := some id, tail := some id }

/-- `doInsert(node, beforeNode)`. -/
def CL.linkBefore (l : CL) (id : Nat) (cb : Cb) (c : Nat) (b : Nat) : CL :=
  let bp := (l.heap b).prev
  let h1 : Heap := upd l.heap id ⟨bp, some b, cb, c⟩
  let h2 : Heap := match bp with
    | some p => upd h1 p { h1 p with next := some id }
    | none => h1
  let h3 : Heap := upd h2 b { h2 b with prev := some id }
  { l with heap := h3, head := if l.head = some b then some id else l.head }

def CL.append (l : CL) (fuel id : Nat) (cb : Cb) : CL :=
  let (l1, c) := l.nextCounter fuel
  l1.linkBack id cb c

def CL.prepend (l : CL) (fuel id : Nat) (cb : Cb) : CL :=
  let (l1, c) := l.nextCounter fuel
  l1.linkFront id cb c

/-- `insert(callback, before)`: the node is allocated first; inside the critical section the
    `before` node is used only if it is still in the list (`counter != removedCounter`),
    otherwise the new node goes to the back. -/
def CL.insert (l : CL) (fuel id : Nat) (cb : Cb) (before : Hd) : CL :=
  let (l1, c) := l.nextCounter fuel
  if (l1.heap before).counter ≠ 0 then l1.linkBefore id cb c before
  else l1.linkBack id cb c

/-- `doFreeNode(node)`: re-wire the neighbours, mark removed, fix head / tail; the removed
    node keeps its own links. -/
def CL.freeNode (l : CL) (n : Nat) : CL :=
  let nd := l.heap n
  let h1 : Heap := match nd.next with
    | some x => upd l.heap x { l.heap x with prev := nd.prev }
    | none => l.heap
  let h2 : Heap := match nd.prev with
    | some p => upd h1 p { h1 p with next := nd.next }
    | none => h1
  let h3 : Heap := upd h2 n { h2 n with counter := 0 }
  { l with
    heap := h3
    head := if l.head = some n then nd.next else l.head
    tail := if l.tail = some n then nd.prev else l.tail }

/-- `remove(handle)`: acts only on a node that is still in the list. -/
def CL.remove (l : CL) (h : Hd) : CL × Bool :=
  if (l.heap h).counter ≠ 0 then (l.freeNode h, true) else (l, false)

/-- The `while(node->previous)` loop of `ownsHandle`. -/
def walkPrev (h : Heap) : Nat → Nat → Nat
  | 0, n => n
  | f + 1, n => match (h n).prev with
    | none => n
    | some p => walkPrev h f p

def CL.owns (l : CL) (fuel : Nat) (h : Hd) : Bool :=
  if (l.heap h).counter ≠ 0 then l.head = some (walkPrev l.heap fuel h) else false

def CL.isEmpty (l : CL) : Bool := l.head.isNone

/-- The skip loop of `doForEachIf`: starting at loop variable `start`, follow `next` until a
    node passes the guard. -/
def seek (h : Heap) (captured : Nat) : Nat → Option Nat → Option Nat
  | 0, _ => none
  | _ + 1, none => none
  | f + 1, some n => if guard (h n).counter captured then some n else seek h captured f (h n).next

/-- The chain of node ids reachable from `start` by `next` (bounded walk). -/
def chainOf (h : Heap) : Nat → Option Nat → List Nat
  | 0, _ => []
  | _ + 1, none => []
  | f + 1, some n => n :: chainOf h f (h n).next

/-- `cloneFrom(other.head)` into a fresh object: one generation `c` for all copies, fresh node
    ids `id, id+1, …` in list order. `cbs` is the list of callbacks to copy; `prev` is the node
    built last. Returns the heap and the last node (the new `tail`). -/
def cloneChain : List Cb → Nat → Nat → Heap → Option Nat → Heap × Option Nat
  | [], _, _, h, prev => (h, prev)
  | cb :: rest, id, c, h, prev =>
    let h1 : Heap := upd h id ⟨prev, none, cb, c⟩
    let h2 : Heap := match prev with
      | some p => upd h1 p { h1 p with next := some id }
      | none => h1
    cloneChain rest (id + 1) c h2 (some id)

/-- Copy construction: `CallbackListBase()` then `cloneFrom(other.head)`; the fresh object's
    counter goes 0 → 1 and every copied node gets generation 1. -/
def CL.clone (src : CL) (fuel id : Nat) : CL :=
  let cbs := (chainOf src.heap fuel src.head).map (fun n => (src.heap n).cb)
  let (h, last) := cloneChain cbs id 1 {} none
  { heap := h, head := if cbs.isEmpty then none else some id, tail := last, cur := 1,
    M := src.M, ub := false }

end Evp
