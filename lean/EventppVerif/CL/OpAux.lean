import EventppVerif.CL.Inv
import EventppVerif.CL.WFOps
/-
  Auxiliary lemmas for OpLemmas.lean: `Rep` / `FrameOK` across the primitive link / unlink steps.
  Helper lemmas only.
-/
namespace Evp

/-- the model's test `counter ≠ 0` is the Spec's `present` -/
theorem Rep.present_eq {l SL b} (r : Rep l SL b) (h : Hd) : decide ((l.heap h).counter ≠ 0) = SL.present h := by
  rw [Bool.eq_iff_iff, SList.present_iff, r.wf.live h]
  simp

theorem filter_ne_split {P Q : List Nat} {h : Nat} (hp : h ∉ P) (hq : h ∉ Q) :
    (P ++ h :: Q).filter (fun n => n != h) = P ++ Q := by
  have h1 : P.filter (fun n => n != h) = P := by
    rw [List.filter_eq_self]; intro a ha; simp; exact fun e => hp (e ▸ ha)
  have h2 : Q.filter (fun n => n != h) = Q := by
    rw [List.filter_eq_self]; intro a ha; simp; exact fun e => hq (e ▸ ha)
  simp [List.filter_append, h1, h2]

theorem append_eq (l : CL) (fuel id : Nat) (cb : Cb) :
    l.append fuel id cb = (l.nextCounter fuel).1.linkBack id cb (l.nextCounter fuel).2 := rfl
theorem prepend_eq (l : CL) (fuel id : Nat) (cb : Cb) :
    l.prepend fuel id cb = (l.nextCounter fuel).1.linkFront id cb (l.nextCounter fuel).2 := rfl
theorem insert_eq (l : CL) (fuel id : Nat) (cb : Cb) (before : Hd) :
    l.insert fuel id cb before =
      if ((l.nextCounter fuel).1.heap before).counter ≠ 0
      then (l.nextCounter fuel).1.linkBefore id cb (l.nextCounter fuel).2 before
      else (l.nextCounter fuel).1.linkBack id cb (l.nextCounter fuel).2 := rfl

theorem rep_nextCounter {l SL b} (r : Rep l SL b) :
    Rep (l.nextCounter (b + 1)).1 SL b ∧ (l.nextCounter (b + 1)).2 ≠ 0 ∧
    (l.nextCounter (b + 1)).2 ≤ (l.nextCounter (b + 1)).1.cur := by
  obtain ⟨w, h1, h2, h3⟩ := r.wf.nextCounter
  refine ⟨⟨w, fun e he => ?_, fun n hn => ?_⟩, h1, h2⟩
  · rw [(h3 e.id).2.2.1]; exact r.cbs e he
  · rw [(h3 n).2.2.2]; exact r.fresh n hn

theorem rep_linkBack {l SL b cb c} (r : Rep l SL b) (hc0 : c ≠ 0) (hc : c ≤ l.cur) :
    Rep (l.linkBack b cb c) (SL.append b cb) (b + 1) := by
  have hid := r.fresh b (Nat.le_refl b)
  refine ⟨?_, fun e he => ?_, fun n hn => ?_⟩
  · rw [SList.ids_append]
    exact r.wf.linkBack hid hc0 hc (Nat.le_succ b) (Nat.lt_succ_self b)
  · rw [(r.wf.linkBack_fields hid e.id).2.1]
    simp only [SList.append, List.mem_append, List.mem_singleton] at he
    rcases he with he | rfl
    · have : e.id ≠ b := Nat.ne_of_lt (r.wf.lt _ (SList.mem_ids_of_mem he))
      simp [this, r.cbs e he]
    · simp
  · rw [(r.wf.linkBack_fields hid n).1]
    have : n ≠ b := by omega
    simp [this]
    exact r.fresh n (by omega)

theorem rep_linkFront {l SL b cb c} (r : Rep l SL b) (hc0 : c ≠ 0) (hc : c ≤ l.cur) :
    Rep (l.linkFront b cb c) (SL.prepend b cb) (b + 1) := by
  have hid := r.fresh b (Nat.le_refl b)
  refine ⟨?_, fun e he => ?_, fun n hn => ?_⟩
  · rw [SList.ids_prepend]
    exact r.wf.linkFront hid hc0 hc (Nat.le_succ b) (Nat.lt_succ_self b)
  · rw [(r.wf.linkFront_fields hid e.id).2.1]
    simp only [SList.prepend, List.mem_cons] at he
    rcases he with rfl | he
    · simp
    · have : e.id ≠ b := Nat.ne_of_lt (r.wf.lt _ (SList.mem_ids_of_mem he))
      simp [this, r.cbs e he]
  · rw [(r.wf.linkFront_fields hid n).1]
    have : n ≠ b := by omega
    simp [this]
    exact r.fresh n (by omega)

theorem rep_linkBefore {l SL b cb c before} (r : Rep l SL b) (hc0 : c ≠ 0) (hc : c ≤ l.cur)
    (hp : SL.present before = true) :
    Rep (l.linkBefore b cb c before) (SL.insert b cb before) (b + 1) := by
  have hid := r.fresh b (Nat.le_refl b)
  obtain ⟨P, Q, hPQ⟩ := List.append_of_mem (SList.present_iff.mp hp)
  have w := r.wf
  rw [hPQ] at w
  have hbP : before ∉ P := (nodup_split w.nodup).2.2.1
  have hins : SL.insert b cb before = SL.insertBefore ⟨b, cb⟩ before := by simp [SList.insert, hp]
  rw [hins]
  refine ⟨?_, fun e he => ?_, fun n hn => ?_⟩
  · rw [SList.ids_insertBefore hPQ hbP]
    exact w.linkBefore hid hc0 hc (Nat.le_succ b) (Nat.lt_succ_self b)
  · rw [linkBefore_cb]
    rcases SList.mem_insertBefore.mp he with rfl | he
    · simp
    · have : e.id ≠ b := Nat.ne_of_lt (r.wf.lt _ (SList.mem_ids_of_mem he))
      simp [this, r.cbs e he]
  · rw [linkBefore_counter]
    have : n ≠ b := by omega
    simp [this]
    exact r.fresh n (by omega)

theorem rep_freeNode {l SL b h} (r : Rep l SL b) (hp : SL.present h = true) :
    Rep (l.freeNode h) (SL.erase h) b := by
  obtain ⟨P, Q, hPQ⟩ := List.append_of_mem (SList.present_iff.mp hp)
  have w := r.wf
  rw [hPQ] at w
  obtain ⟨n1, n2, n3, n4, n5, n6⟩ := nodup_split w.nodup
  refine ⟨?_, fun e he => ?_, fun n hn => ?_⟩
  · rw [SList.ids_erase, hPQ, filter_ne_split n3 n4]
    exact w.freeNode
  · rw [freeNode_cb]
    exact r.cbs e (SList.mem_erase.mp he).1
  · rw [freeNode_counter]
    split
    · rfl
    · exact r.fresh n hn

theorem CL.ext' {l l' : CL} (h1 : l.heap = l'.heap) (h2 : l.head = l'.head) (h3 : l.tail = l'.tail)
    (h4 : l.cur = l'.cur) (h5 : l.M = l'.M) (h6 : l.ub = l'.ub) : l = l' := by
  cases l; cases l'; simp at *; exact ⟨h1, h2, h3, h4, h5, h6⟩

theorem clone_eq (l : CL) (fuel id : Nat) :
    l.clone fuel id =
      { heap := (cloneChain ((chainOf l.heap fuel l.head).map (fun n => (l.heap n).cb)) id 1 {} none).1
        head := if ((chainOf l.heap fuel l.head).map (fun n => (l.heap n).cb)).isEmpty then none else some id
        tail := (cloneChain ((chainOf l.heap fuel l.head).map (fun n => (l.heap n).cb)) id 1 {} none).2
        cur := 1, M := l.M, ub := false } := rfl

/-- one step of `cloneChain` is `linkBack` -/
theorem cloneChain_step {l SL b} (r : Rep l SL b) (cb : Cb) (rest : List Cb) :
    cloneChain (cb :: rest) b 1 l.heap l.tail =
      cloneChain rest (b + 1) 1 (l.linkBack b cb 1).heap (l.linkBack b cb 1).tail ∧
    (l.linkBack b cb 1).head = (if SL = [] then some b else l.head) ∧
    (l.linkBack b cb 1).cur = l.cur ∧ (l.linkBack b cb 1).M = l.M ∧ (l.linkBack b cb 1).ub = l.ub := by
  have w := r.wf
  rcases List.eq_nil_or_concat SL with rfl | ⟨P, t, rfl⟩
  · have hh : l.head = none := by simpa using w.head_eq
    have ht : l.tail = none := by simpa using w.tail_eq
    rw [linkBack_nil _ _ _ _ hh]
    simp [cloneChain, ht]
  · rw [List.concat_eq_append] at *
    have ht : l.tail = some t.id := by simpa [SList.ids] using w.tail_eq
    obtain ⟨hd, hhd⟩ : ∃ hd, l.head = some hd := by
      rw [w.head_eq]; cases P <;> simp [SList.ids]
    rw [linkBack_cons _ _ _ _ hhd ht]
    have htb : t.id ≠ b := Nat.ne_of_lt (w.lt _ (by simp [SList.ids]))
    simp [cloneChain, ht, htb, hhd]

theorem cloneChain_rep : ∀ (Src : SList) (l : CL) (SL : SList) (b : Nat), Rep l SL b → 1 ≤ l.cur →
    Rep { l with
          heap := (cloneChain (Src.map (·.cb)) b 1 l.heap l.tail).1
          head := if SL = [] then (if Src = [] then none else some b) else l.head
          tail := (cloneChain (Src.map (·.cb)) b 1 l.heap l.tail).2 }
      (SL ++ Src.cloneWith b) (b + Src.length)
  | [], l, SL, b, r, _ => by
    have hh : (if SL = [] then (if ([] : SList) = [] then none else some b) else l.head) = l.head := by
      by_cases hs : SL = []
      · subst hs
        have : l.head = none := by simpa using r.wf.head_eq
        simp [this]
      · simp [hs]
    rw [hh]
    simpa [cloneChain, SList.cloneWith] using r
  | e :: rest, l, SL, b, r, hc => by
    obtain ⟨h1, h2, h3, h4, h5⟩ := cloneChain_step r e.cb (rest.map (·.cb))
    have r1 : Rep (l.linkBack b e.cb 1) (SL.append b e.cb) (b + 1) := rep_linkBack r (by simp) hc
    have ih := cloneChain_rep rest _ _ _ r1 (by rw [h3]; exact hc)
    have hne : SL.append b e.cb ≠ [] := by simp [SList.append]
    simp only [hne, if_false] at ih
    have e1 : SL.append b e.cb ++ SList.cloneWith rest (b + 1) = SL ++ SList.cloneWith (e :: rest) b := by
      simp [SList.append, SList.cloneWith]
    have e2 : b + 1 + rest.length = b + (e :: rest).length := by simp; omega
    rw [e1, e2] at ih
    refine cast (congrArg (fun x => Rep x _ _) ?_) ih
    apply CL.ext'
    · show _ = (cloneChain (e.cb :: rest.map (·.cb)) b 1 l.heap l.tail).1
      rw [h1]
    · show (l.linkBack b e.cb 1).head = _
      rw [h2]; simp
    · show _ = (cloneChain (e.cb :: rest.map (·.cb)) b 1 l.heap l.tail).2
      rw [h1]
    · exact h3
    · exact h4
    · exact h5

/-- raising `cur` keeps a running traversal in correspondence -/
theorem FrameOK.cur_mono {l SL b m cap rest} (f : FrameOK l SL b m cap rest) (c : Nat) (hc : l.cur ≤ c) :
    FrameOK { l with cur := c } SL b m cap rest := by
  obtain ⟨R, S, h1, h2, h3, h4, h5, h6, h7, h8⟩ := f
  exact ⟨R, S, h1, h2, h3, h4, Nat.le_trans h5 hc, h6, h7, h8⟩

theorem linkBack_cur (l : CL) (id cb c : Nat) : (l.linkBack id cb c).cur = l.cur := by
  unfold CL.linkBack; split <;> rfl
theorem linkFront_cur (l : CL) (id cb c : Nat) : (l.linkFront id cb c).cur = l.cur := by
  unfold CL.linkFront; split <;> rfl

theorem filter_insert_fresh {A B : List Nat} {q q' : Nat → Bool} {x : Nat} (hx : q' x = false)
    (hq : ∀ a ∈ A ++ B, q' a = q a) : (A ++ x :: B).filter q' = (A ++ B).filter q := by
  rw [List.filter_append, List.filter_cons, hx]
  simp only [Bool.false_eq_true, if_false]
  rw [← List.filter_append]
  exact List.filter_congr hq

/-- a suffix of the live chain is itself a `next` segment to `none` -/
theorem WF.suffix_seg {l L b S} (w : WF l L b) (hs : S <:+ L) : Seg nextF l.heap S.head? S none := by
  obtain ⟨P, rfl⟩ := hs
  obtain ⟨m, _, h2⟩ := seg_append.mp w.fwd
  rw [← seg_head' h2]; exact h2

/-- transfer of a running traversal across an operation that only inserts the fresh node `b` -/
theorem frame_transfer_insert {l l' : CL} {SL SL' : SList} {b m cap : Nat} {rest : List Entry}
    {R S S' : List Nat}
    (hR : ∀ r ∈ R, (l.heap r).counter = 0 ∧ r < b) (hnd : R.Nodup)
    (hseg : Seg nextF l.heap (some m) R S.head?) (hcap : cap ≤ l.cur)
    (hfil : ((if R = [] then S.tail else S).filter (fun n => decide ((l.heap n).counter ≤ cap)))
      = ((rest.filter (fun e => SL.present e.id)).map (·.id)))
    (hmem : ∀ e ∈ rest, SL.present e.id → e ∈ SL) (hlt : ∀ e ∈ rest, e.id < b)
    (hsuf : S' <:+ SL'.ids)
    (hfrozen : ∀ a, (l.heap a).counter = 0 → a < b →
      (l'.heap a).counter = 0 ∧ (l'.heap a).next = (l.heap a).next)
    (hhead : S'.head? = S.head?) (hcur : l.cur ≤ l'.cur)
    (hY : ((if R = [] then S'.tail else S').filter (fun n => decide ((l'.heap n).counter ≤ cap)))
      = ((if R = [] then S.tail else S).filter (fun n => decide ((l.heap n).counter ≤ cap))))
    (hids : ∀ x, x ∈ SL'.ids ↔ x = b ∨ x ∈ SL.ids)
    (hsub : ∀ e ∈ SL, e ∈ SL') :
    FrameOK l' SL' (b + 1) m cap rest := by
  have hpres : ∀ e ∈ rest, SL'.present e.id = SL.present e.id := by
    intro e he
    have := hlt e he
    rw [Bool.eq_iff_iff, SList.present_iff, SList.present_iff, hids]
    constructor
    · rintro (h | h)
      · exact absurd h (Nat.ne_of_lt this)
      · exact h
    · exact Or.inr
  refine ⟨R, S', hsuf, fun r hr => ?_, hnd, ?_, Nat.le_trans hcap hcur, ?_, ?_, ?_⟩
  · have := hR r hr
    exact ⟨(hfrozen r this.1 this.2).1, by omega⟩
  · rw [hhead]
    refine (seg_congr (fun a ha => ?_)).mpr hseg
    have := hR a ha
    exact (hfrozen a this.1 this.2).2
  · rw [hY, hfil]
    congr 1
    exact List.filter_congr (fun e he => (hpres e he).symm)
  · intro e he hp
    rw [hpres e he] at hp
    exact hsub e (hmem e he hp)
  · intro e he
    exact Nat.lt_succ_of_lt (hlt e he)

/-- members of a suffix of the live chain are live, below the bound, and not the fresh id -/
theorem Rep.suffix_mem {l SL b S} (r : Rep l SL b) (hs : S <:+ SL.ids) {a} (ha : a ∈ S) :
    (l.heap a).counter ≠ 0 ∧ a < b ∧ a ≠ b := by
  have hm : a ∈ SL.ids := hs.subset ha
  have := r.wf.lt a hm
  exact ⟨(r.wf.live a).mp hm, this, Nat.ne_of_lt this⟩

theorem mem_Y {R S : List Nat} {a} (ha : a ∈ (if R = [] then S.tail else S)) : a ∈ S := by
  split at ha
  · exact List.mem_of_mem_tail ha
  · exact ha

theorem frame_linkBack {l SL b m cap rest cb c} (r : Rep l SL b) (f : FrameOK l SL b m cap rest)
    (hc : cap < c) : FrameOK (l.linkBack b cb c) (SL.append b cb) (b + 1) m cap rest := by
  obtain ⟨R, S, h1, h2, h3, h4, h5, h6, h7, h8⟩ := f
  have hid := r.fresh b (Nat.le_refl b)
  have fields := r.wf.linkBack_fields (cb := cb) (c := c) hid
  have hqb : (fun n => decide (((l.linkBack b cb c).heap n).counter ≤ cap)) b = false := by
    simp [(fields b).1]; omega
  have hqa : ∀ a ∈ S, (fun n => decide (((l.linkBack b cb c).heap n).counter ≤ cap)) a =
      (fun n => decide ((l.heap n).counter ≤ cap)) a := by
    intro a ha
    have := (r.suffix_mem h1 ha).2.2
    simp [(fields a).1, this]
  refine frame_transfer_insert (S' := if S = [] then [] else S ++ [b]) h2 h3 h4 h5 h6 h7 h8 ?_ ?_ ?_
    (Nat.le_of_eq (linkBack_cur _ _ _ _).symm) ?_ ?_ ?_
  · rw [SList.ids_append]
    split
    · exact List.nil_suffix
    · obtain ⟨P, hP⟩ := h1
      exact ⟨P, by rw [← hP, List.append_assoc]⟩
  · intro a ha0 hab
    have hne : a ≠ b := Nat.ne_of_lt hab
    refine ⟨by rw [(fields a).1]; simp [hne, ha0], (fields a).2.2 ha0 hne⟩
  · split
    · rename_i hs; simp [hs]
    · rename_i hs
      cases S with
      | nil => exact absurd rfl hs
      | cons x T => simp
  · by_cases hs : S = []
    · simp [hs]
    · simp only [hs, if_false]
      have : (if R = [] then (S ++ [b]).tail else S ++ [b]) = (if R = [] then S.tail else S) ++ [b] := by
        split
        · exact List.tail_append_of_ne_nil hs
        · rfl
      rw [this]
      have := filter_insert_fresh (A := if R = [] then S.tail else S) (B := []) hqb
        (q := fun n => decide ((l.heap n).counter ≤ cap))
        (fun a ha => hqa a (mem_Y (R := R) (by simpa using ha)))
      simpa using this
  · intro x
    rw [SList.ids_append]; simp; exact Or.comm
  · intro e he
    simp [SList.append, he]

theorem frame_linkFront {l SL b m cap rest cb c} (r : Rep l SL b) (f : FrameOK l SL b m cap rest) :
    FrameOK (l.linkFront b cb c) (SL.prepend b cb) (b + 1) m cap rest := by
  obtain ⟨R, S, h1, h2, h3, h4, h5, h6, h7, h8⟩ := f
  have hid := r.fresh b (Nat.le_refl b)
  have fields := r.wf.linkFront_fields (cb := cb) (c := c) hid
  refine frame_transfer_insert (S' := S) h2 h3 h4 h5 h6 h7 h8 ?_ ?_ rfl
    (Nat.le_of_eq (linkFront_cur _ _ _ _).symm) ?_ ?_ ?_
  · rw [SList.ids_prepend]
    exact List.IsSuffix.trans h1 (List.suffix_cons _ _)
  · intro a ha0 hab
    have hne : a ≠ b := Nat.ne_of_lt hab
    refine ⟨by rw [(fields a).1]; simp [hne, ha0], (fields a).2.2 ha0 hne⟩
  · refine List.filter_congr (fun a ha => ?_)
    have := (r.suffix_mem h1 (mem_Y ha)).2.2
    simp [(fields a).1, this]
  · intro x
    rw [SList.ids_prepend]; simp
  · intro e he
    simp [SList.prepend, he]

/-- how a suffix of `P ++ n :: Q` sits relative to `n` -/
theorem suffix_split_cases {P Q S : List Nat} {n : Nat} (h : S <:+ P ++ n :: Q) :
    S <:+ n :: Q ∨ ∃ x A P0, S = x :: A ++ n :: Q ∧ P = P0 ++ x :: A := by
  obtain ⟨P0, hP0⟩ := h
  rcases List.append_eq_append_iff.mp hP0 with ⟨as, h1, h2⟩ | ⟨bs, h1, h2⟩
  · cases as with
    | nil => left; simp at h2; rw [h2]; exact List.suffix_refl _
    | cons x A => right; exact ⟨x, A, P0, by simpa using h2, h1⟩
  · left; exact ⟨bs, h2.symm⟩

theorem frame_linkBefore {l SL b m cap rest cb c before} (r : Rep l SL b) (f : FrameOK l SL b m cap rest)
    (hc : cap < c) (hp : SL.present before = true) :
    FrameOK (l.linkBefore b cb c before) (SL.insert b cb before) (b + 1) m cap rest := by
  obtain ⟨R, S, h1, h2, h3, h4, h5, h6, h7, h8⟩ := f
  have hid := r.fresh b (Nat.le_refl b)
  obtain ⟨P, Q, hPQ⟩ := List.append_of_mem (SList.present_iff.mp hp)
  have w := r.wf
  rw [hPQ] at w
  have hbP : before ∉ P := (nodup_split w.nodup).2.2.1
  have hins : SL.insert b cb before = SL.insertBefore ⟨b, cb⟩ before := by simp [SList.insert, hp]
  have hids' : (SL.insertBefore ⟨b, cb⟩ before).ids = P ++ b :: before :: Q := SList.ids_insertBefore hPQ hbP
  rw [hins]
  have hqb : (fun n => decide (((l.linkBefore b cb c before).heap n).counter ≤ cap)) b = false := by
    simp [linkBefore_counter]; omega
  have hqa : ∀ a ∈ S, (fun n => decide (((l.linkBefore b cb c before).heap n).counter ≤ cap)) a =
      (fun n => decide ((l.heap n).counter ≤ cap)) a := by
    intro a ha
    have := (r.suffix_mem h1 ha).2.2
    simp [linkBefore_counter, this]
  have hfrozen : ∀ a, (l.heap a).counter = 0 → a < b →
      ((l.linkBefore b cb c before).heap a).counter = 0 ∧
      ((l.linkBefore b cb c before).heap a).next = (l.heap a).next := by
    intro a ha0 hab
    have hne : a ≠ b := Nat.ne_of_lt hab
    exact ⟨by rw [linkBefore_counter]; simp [hne, ha0], w.linkBefore_frozen hid a ha0 hne⟩
  have hidsx : ∀ x, x ∈ (SL.insertBefore ⟨b, cb⟩ before).ids ↔ x = b ∨ x ∈ SL.ids := by
    intro x; rw [hids', hPQ]; simp; grind
  have hsub : ∀ e ∈ SL, e ∈ SL.insertBefore ⟨b, cb⟩ before := fun e he =>
    SList.mem_insertBefore.mpr (Or.inr he)
  rw [hPQ] at h1
  rcases suffix_split_cases h1 with hs | ⟨x, A, P0, hS, hP⟩
  · refine frame_transfer_insert (S' := S) h2 h3 h4 h5 h6 h7 h8 ?_ hfrozen rfl (Nat.le_refl _) ?_ hidsx hsub
    · rw [hids']
      obtain ⟨T, hT⟩ := hs
      exact ⟨P ++ b :: T, by rw [← hT]; simp⟩
    · exact List.filter_congr (fun a ha => hqa a (mem_Y ha))
  · refine frame_transfer_insert (S' := x :: A ++ b :: before :: Q) h2 h3 h4 h5 h6 h7 h8 ?_ hfrozen
      (by rw [hS]; simp) (Nat.le_refl _) ?_ hidsx hsub
    · rw [hids', hP]
      exact ⟨P0, by simp⟩
    · have e1 : (if R = [] then (x :: A ++ b :: before :: Q).tail else x :: A ++ b :: before :: Q)
          = (if R = [] then A else x :: A) ++ b :: before :: Q := by split <;> simp
      have e2 : (if R = [] then S.tail else S) = (if R = [] then A else x :: A) ++ before :: Q := by
        rw [hS]; split <;> simp
      rw [e1, e2]
      refine filter_insert_fresh hqb (fun a ha => hqa a ?_)
      rw [hS]
      split at ha
      · simp at ha ⊢; grind
      · simpa using ha

theorem filter_ne_self {Y : List Nat} {h : Nat} (hn : h ∉ Y) : Y.filter (fun n => n != h) = Y := by
  rw [List.filter_eq_self]; intro a ha; simp; exact fun e => hn (e ▸ ha)

theorem frame_freeNode {l SL b m cap rest h} (r : Rep l SL b) (f : FrameOK l SL b m cap rest)
    (hp : SL.present h = true) : FrameOK (l.freeNode h) (SL.erase h) b m cap rest := by
  obtain ⟨R, S, h1, h2, h3, h4, h5, h6, h7, h8⟩ := f
  obtain ⟨P, Q, hPQ⟩ := List.append_of_mem (SList.present_iff.mp hp)
  have w := r.wf
  rw [hPQ] at w
  obtain ⟨s1, s2, s3, s4, s5, s6⟩ := w.split
  obtain ⟨n1, n2, n3, n4, n5, n6⟩ := nodup_split w.nodup
  have hids' : (SL.erase h).ids = P ++ Q := by rw [SList.ids_erase, hPQ, filter_ne_split n3 n4]
  have hlive : (l.heap h).counter ≠ 0 := (r.wf.live h).mp (SList.present_iff.mp hp)
  have hhb : h < b := r.wf.lt h (SList.present_iff.mp hp)
  have hhR : h ∉ R := fun hm => hlive (h2 h hm).1
  have hfrozen : ∀ a ∈ R, ((l.freeNode h).heap a).counter = 0 ∧ a < b ∧
      ((l.freeNode h).heap a).next = (l.heap a).next := by
    intro a ha
    have := h2 a ha
    refine ⟨?_, this.2, w.freeNode_frozen a this.1⟩
    rw [freeNode_counter]; simp [this.1]
  have hRHS : ((rest.filter (fun e => (SL.erase h).present e.id)).map (·.id))
      = ((rest.filter (fun e => SL.present e.id)).map (·.id)).filter (fun n => n != h) := by
    rw [List.filter_map, List.filter_filter]
    congr 1
    apply List.filter_congr
    intro e _
    simp [SList.present_erase, Bool.and_comm]
  have hL : ∀ Y Y' : List Nat, Y' = Y.filter (fun n => n != h) →
      Y'.filter (fun n => decide (((l.freeNode h).heap n).counter ≤ cap))
        = (Y.filter (fun n => decide ((l.heap n).counter ≤ cap))).filter (fun n => n != h) := by
    intro Y Y' hY
    rw [hY, List.filter_filter, List.filter_filter]
    apply List.filter_congr
    intro a _
    by_cases hah : a = h
    · simp [hah]
    · simp [freeNode_counter, hah, Bool.and_comm]
  have h7' : ∀ e ∈ rest, (SL.erase h).present e.id → e ∈ SL.erase h := by
    intro e he hpe
    rw [SList.present_erase] at hpe
    simp at hpe
    exact SList.mem_erase.mpr ⟨h7 e he hpe.1, hpe.2⟩
  have h5' : cap ≤ (l.freeNode h).cur := h5
  rw [hPQ] at h1
  have case_same : ∀ S', S' <:+ P ++ Q → S'.head? = S.head? →
      (if R = [] then S'.tail else S') = (if R = [] then S.tail else S).filter (fun n => n != h) →
      FrameOK (l.freeNode h) (SL.erase h) b m cap rest := by
    intro S' hsuf hhead hY
    refine ⟨R, S', by rw [hids']; exact hsuf, fun a ha => ⟨(hfrozen a ha).1, (hfrozen a ha).2.1⟩, h3, ?_, h5',
      ?_, h7', h8⟩
    · rw [hhead]
      exact (seg_congr (fun a ha => (hfrozen a ha).2.2)).mpr h4
    · rw [hL _ _ hY, h6, hRHS]
  rcases suffix_split_cases h1 with hs | ⟨x, A, P0, hS, hP⟩
  · rcases List.suffix_cons_iff.mp hs with hS | hs
    · -- the traversal's entry point into the live chain is removed: it joins the frozen nodes
      have hS0 : S.head? = some h := by rw [hS]; rfl
      refine ⟨R ++ [h], Q, by rw [hids']; exact List.suffix_append _ _, ?_, ?_, ?_, h5', ?_, h7', h8⟩
      · intro a ha
        rcases List.mem_append.mp ha with ha | ha
        · exact ⟨(hfrozen a ha).1, (hfrozen a ha).2.1⟩
        · simp at ha; subst ha
          exact ⟨by rw [freeNode_counter]; simp, hhb⟩
      · exact List.nodup_append.mpr ⟨h3, by simp, fun a ha b hb e => by
          simp at hb; subst hb; subst e; exact hhR ha⟩
      · rw [seg_snoc]
        constructor
        · rw [hS0] at h4
          exact (seg_congr (fun a ha => (hfrozen a ha).2.2)).mpr h4
        · show ((l.freeNode h).heap h).next = _
          rw [freeNode_next, s5, s2]
          have : P.getLast? ≠ some h := fun e => n3 (List.mem_of_getLast? e)
          simp [this]
      · have hne : R ++ [h] ≠ [] := by simp
        rw [if_neg hne]
        rw [hL (if R = [] then S.tail else S) Q ?_, h6, hRHS]
        rw [hS]
        split
        · simp [filter_ne_self n4]
        · simp [filter_ne_self n4]
    · have hhS : h ∉ S := fun hm => n4 (hs.subset hm)
      refine case_same S (List.IsSuffix.trans hs (List.suffix_append _ _)) rfl ?_
      rw [filter_ne_self]
      exact fun hm => hhS (mem_Y hm)
  · refine case_same (x :: A ++ Q) ⟨P0, by rw [hP]; simp⟩ (by rw [hS]; simp) ?_
    have hxA : h ∉ x :: A := fun hm => n3 (by rw [hP]; exact List.mem_append_right _ hm)
    rw [hS]
    split
    · simp only [List.cons_append, List.tail_cons]
      rw [filter_ne_split (fun hm => hxA (List.mem_cons_of_mem _ hm)) n4]
    · rw [filter_ne_split hxA n4]

theorem dropWhile_not_nil {α} {p : α → Bool} : ∀ {rest : List α},
    rest.dropWhile (fun e => !p e) = [] → rest.filter p = []
  | [], _ => rfl
  | x :: r, h => by
    rw [List.dropWhile_cons] at h
    split at h
    · rename_i hx
      have hx' : p x = false := by simpa using hx
      rw [List.filter_cons, hx']
      simpa using dropWhile_not_nil h
    · exact absurd h (by simp)

theorem dropWhile_not_cons {α} {p : α → Bool} {e : α} {es : List α} : ∀ {rest : List α},
    rest.dropWhile (fun e => !p e) = e :: es →
      p e = true ∧ rest.filter p = e :: es.filter p ∧ e ∈ rest ∧ ∀ x ∈ es, x ∈ rest
  | [], h => by simp at h
  | x :: r, h => by
    rw [List.dropWhile_cons] at h
    split at h
    · rename_i hx
      have hx' : p x = false := by simpa using hx
      obtain ⟨h1, h2, h3, h4⟩ := dropWhile_not_cons h
      refine ⟨h1, ?_, List.mem_cons_of_mem _ h3, fun y hy => List.mem_cons_of_mem _ (h4 y hy)⟩
      rw [List.filter_cons, hx']; simpa using h2
    · rename_i hx
      have hx' : p x = true := by simpa using hx
      simp at h
      obtain ⟨rfl, rfl⟩ := h
      exact ⟨hx', by rw [List.filter_cons, hx']; simp, by simp, fun y hy => List.mem_cons_of_mem _ hy⟩

theorem guard_live {c cap : Nat} (hc : c ≠ 0) : guard c cap = decide (c ≤ cap) := by
  simp [guard, hc]

/-- what `seek` from `m.next` finds: the first pending node that passes the captured generation -/
theorem frame_seek {l SL b m cap} {rest : List Entry} (r : Rep l SL b) {R S : List Nat}
    (h1 : S <:+ SL.ids) (h2 : ∀ r ∈ R, (l.heap r).counter = 0 ∧ r < b) (h3 : R.Nodup)
    (h4 : Seg nextF l.heap (some m) R S.head?)
    (h6 : ((if R = [] then S.tail else S).filter (fun n => decide ((l.heap n).counter ≤ cap)))
      = ((rest.filter (fun e => SL.present e.id)).map (·.id))) :
    seek l.heap cap (b + 1) (l.heap m).next
      = ((rest.filter (fun e => SL.present e.id)).map (·.id)).head? := by
  have hsegS := r.wf.suffix_seg h1
  have hSnd : S.Nodup := nodup_suffix h1 r.wf.nodup
  have hlen : (R ++ S).length ≤ b := by
    apply nodup_lt_length
    · exact List.nodup_append.mpr ⟨h3, hSnd, fun a ha c hc e => by
        subst e; exact (r.suffix_mem h1 hc).1 (h2 a ha).1⟩
    · intro a ha
      rcases List.mem_append.mp ha with ha | ha
      · exact (h2 a ha).2
      · exact (r.suffix_mem h1 ha).2.1
  have hSq : ∀ a ∈ S, guard (l.heap a).counter cap = decide ((l.heap a).counter ≤ cap) :=
    fun a ha => guard_live (r.suffix_mem h1 ha).1
  rw [← h6, List.head?_filter, ← List.head?_filter (p := fun n => decide ((l.heap n).counter ≤ cap))]
  cases R with
  | nil =>
    simp only [if_true]
    have hm : some m = S.head? := h4
    cases S with
    | nil => simp at hm
    | cons x T =>
      simp at hm; subst hm
      have hT : Seg nextF l.heap (l.heap m).next T none := hsegS.2
      rw [seek_seg hT (by simp at hlen ⊢; omega), ← List.head?_filter]
      congr 1
      exact List.filter_congr (fun a ha => hSq a (List.mem_cons_of_mem _ ha))
  | cons r0 R' =>
    have hne : r0 :: R' ≠ [] := by simp
    simp only [hne, if_false]
    obtain ⟨hm, hR'⟩ := h4
    have hm' : m = r0 := Option.some.inj hm
    subst hm'
    have hX : Seg nextF l.heap (l.heap m).next (R' ++ S) none := seg_append.mpr ⟨_, hR', hsegS⟩
    rw [seek_seg hX (by simp at hlen ⊢; omega), ← List.head?_filter, List.filter_append]
    have : R'.filter (fun n => guard (l.heap n).counter cap) = [] := by
      rw [List.filter_eq_nil_iff]
      intro a ha
      have := (h2 a (List.mem_cons_of_mem _ ha)).1
      simp [guard, this]
    rw [this, List.nil_append]
    congr 1
    exact List.filter_congr hSq

end Evp
