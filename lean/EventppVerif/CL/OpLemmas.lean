import EventppVerif.CL.Inv
/-
  Per-operation lemmas: every Model operation on a list object that represents a Spec list
  yields an object representing the result of the Spec operation, and keeps every running
  traversal in correspondence.  Helper lemmas only (the property theorems are in Properties/).
-/
namespace Evp

theorem Rep.empty (b : Nat) : Rep {} [] b := by
  sorry

theorem Rep.mono {l SL b b'} (r : Rep l SL b) (h : b ≤ b') : Rep l SL b' := by
  sorry

theorem FrameOK.mono {l SL b b' m cap rest} (f : FrameOK l SL b m cap rest) (h : b ≤ b') :
    FrameOK l SL b' m cap rest := by
  sorry

/-! ### results of the querying operations -/

theorem rep_isEmpty {l SL b} (r : Rep l SL b) : l.isEmpty = SL.isEmpty := by
  sorry

theorem rep_owns {l SL b} (r : Rep l SL b) (h : Hd) : l.owns (b + 1) h = SL.present h := by
  sorry

/-- the model's test `counter ≠ 0` is the Spec's `present` -/
theorem rep_present {l SL b} (r : Rep l SL b) (h : Hd) : decide ((l.heap h).counter ≠ 0) = SL.present h := by
  sorry

/-! ### structural operations: `Rep` is preserved always (also across a counter wrap) -/

theorem rep_append {l SL b} (r : Rep l SL b) (cb : Cb) :
    Rep (l.append (b + 1) b cb) (SL.append b cb) (b + 1) := by
  sorry

theorem rep_prepend {l SL b} (r : Rep l SL b) (cb : Cb) :
    Rep (l.prepend (b + 1) b cb) (SL.prepend b cb) (b + 1) := by
  sorry

theorem rep_insert {l SL b} (r : Rep l SL b) (cb : Cb) (before : Hd) :
    Rep (l.insert (b + 1) b cb before) (SL.insert b cb before) (b + 1) := by
  sorry

theorem rep_remove {l SL b} (r : Rep l SL b) (h : Hd) :
    Rep (l.remove h).1 (SL.remove h).1 b ∧ (l.remove h).2 = (SL.remove h).2 := by
  sorry

/-- copy construction / `cloneFrom` -/
theorem rep_clone {l SL b} (r : Rep l SL b) :
    Rep (l.clone (b + 1) b) (SL.cloneWith b) (b + SL.length) ∧
    (chainOf l.heap (b + 1) l.head).length = SL.length := by
  sorry

/-- the moved-from object of a move assignment -/
theorem rep_moved_from {l SL b} (r : Rep l SL b) : Rep { cur := l.cur, M := l.M } [] b := by
  sorry

theorem rep_setCounter {l SL b} (r : Rep l SL b) (k : Nat) :
    Rep { l with cur := if 0 < k ∧ k ≤ l.M then max l.cur (l.M - k) else l.cur } SL b := by
  sorry

/-! ### running traversals stay in correspondence (no counter wrap in the operation) -/

theorem frame_append {l SL b m cap rest} (r : Rep l SL b) (f : FrameOK l SL b m cap rest)
    (nw : l.willWrap = false) (cb : Cb) :
    FrameOK (l.append (b + 1) b cb) (SL.append b cb) (b + 1) m cap rest := by
  sorry

theorem frame_prepend {l SL b m cap rest} (r : Rep l SL b) (f : FrameOK l SL b m cap rest)
    (nw : l.willWrap = false) (cb : Cb) :
    FrameOK (l.prepend (b + 1) b cb) (SL.prepend b cb) (b + 1) m cap rest := by
  sorry

theorem frame_insert {l SL b m cap rest} (r : Rep l SL b) (f : FrameOK l SL b m cap rest)
    (nw : l.willWrap = false) (cb : Cb) (before : Hd) :
    FrameOK (l.insert (b + 1) b cb before) (SL.insert b cb before) (b + 1) m cap rest := by
  sorry

theorem frame_remove {l SL b m cap rest} (r : Rep l SL b) (f : FrameOK l SL b m cap rest) (h : Hd) :
    FrameOK (l.remove h).1 (SL.remove h).1 b m cap rest := by
  sorry

theorem frame_setCounter {l SL b m cap rest} (r : Rep l SL b) (f : FrameOK l SL b m cap rest) (k : Nat) :
    FrameOK { l with cur := if 0 < k ∧ k ≤ l.M then max l.cur (l.M - k) else l.cur } SL b m cap rest := by
  sorry

/-- start of a traversal: read `head`, capture `cur`, skip to the first callable node -/
theorem frame_start {l SL b} (r : Rep l SL b) :
    match SL.dropWhile (fun e => !SL.present e.id) with
    | [] => seek l.heap l.cur (b + 1) l.head = none
    | e :: es => seek l.heap l.cur (b + 1) l.head = some e.id ∧ (l.heap e.id).cb = e.cb ∧
        FrameOK l SL b e.id l.cur es := by
  sorry

/-- one step of a traversal: read `m.next`, skip to the next callable node -/
theorem frame_step {l SL b m cap rest} (r : Rep l SL b) (f : FrameOK l SL b m cap rest) :
    match rest.dropWhile (fun e => !SL.present e.id) with
    | [] => seek l.heap cap (b + 1) (l.heap m).next = none
    | e :: es => seek l.heap cap (b + 1) (l.heap m).next = some e.id ∧ (l.heap e.id).cb = e.cb ∧
        FrameOK l SL b e.id cap es := by
  sorry

end Evp
