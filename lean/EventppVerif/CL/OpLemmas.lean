import EventppVerif.CL.OpAux
/-
  Per-operation lemmas: every Model operation on a list object that represents a Spec list
  yields an object representing the result of the Spec operation, and keeps every running
  traversal in correspondence.  Helper lemmas only (the property theorems are in Properties/).
-/
namespace Evp

theorem Rep.empty (b : Nat) : Rep {} [] b := by
  refine ⟨WF.empty.mono (Nat.zero_le b), by simp, fun n _ => ?_⟩
  show ((({} : CL).heap) n).counter = 0
  simp
  rfl

theorem Rep.mono {l SL b b'} (r : Rep l SL b) (h : b ≤ b') : Rep l SL b' :=
  ⟨r.wf.mono h, r.cbs, fun n hn => r.fresh n (Nat.le_trans h hn)⟩

theorem FrameOK.mono {l SL b b' m cap rest} (f : FrameOK l SL b m cap rest) (h : b ≤ b') :
    FrameOK l SL b' m cap rest := by
  obtain ⟨R, S, h1, h2, h3, h4, h5, h6, h7, h8⟩ := f
  exact ⟨R, S, h1, fun r hr => ⟨(h2 r hr).1, Nat.lt_of_lt_of_le (h2 r hr).2 h⟩, h3, h4, h5, h6, h7,
    fun e he => Nat.lt_of_lt_of_le (h8 e he) h⟩

/-! ### results of the querying operations -/

theorem rep_isEmpty {l SL b} (r : Rep l SL b) : l.isEmpty = SL.isEmpty := by
  unfold CL.isEmpty
  rw [r.wf.head_eq]
  cases SL <;> simp

theorem rep_owns {l SL b} (r : Rep l SL b) (h : Hd) : l.owns (b + 1) h = SL.present h := by
  unfold CL.owns
  by_cases hl : (l.heap h).counter ≠ 0
  · have hm : h ∈ SL.ids := (r.wf.live h).mpr hl
    have hp : SL.present h = true := SList.present_iff.mpr hm
    rw [if_pos hl, hp]
    obtain ⟨P, Q, hPQ⟩ := List.append_of_mem hm
    have w := r.wf
    rw [hPQ] at w
    obtain ⟨s1, s2, s3, s4, s5, s6⟩ := w.split
    have hlen := w.length_le
    have hseg : Seg prevF l.heap (some h) (h :: P.reverse) none := ⟨rfl, by rw [← s5] at s6; exact s6⟩
    have hhead := w.head_eq
    cases P with
    | nil =>
      have := walkPrev_seg (xs := []) (fuel := b + 1) hseg (by simp)
      rw [this, hhead]; simp
    | cons z P' =>
      have hseg' : Seg prevF l.heap (some h) ((h :: P'.reverse) ++ [z]) none := by simpa using hseg
      have := walkPrev_seg (fuel := b + 1) hseg' (by simp at hlen ⊢; omega)
      rw [this, hhead]; simp
  · have hm : h ∉ SL.ids := fun hm => hl ((r.wf.live h).mp hm)
    have hp : SL.present h = false := SList.present_false_iff.mpr hm
    rw [if_neg hl, hp]

/-- the model's test `counter ≠ 0` is the Spec's `present` -/
theorem rep_present {l SL b} (r : Rep l SL b) (h : Hd) : decide ((l.heap h).counter ≠ 0) = SL.present h := by
  rw [Bool.eq_iff_iff, SList.present_iff, r.wf.live h]
  simp

/-! ### structural operations: `Rep` is preserved always (also across a counter wrap) -/

theorem rep_append {l SL b} (r : Rep l SL b) (cb : Cb) :
    Rep (l.append (b + 1) b cb) (SL.append b cb) (b + 1) := by
  obtain ⟨r1, h1, h2⟩ := rep_nextCounter r
  rw [append_eq]
  exact rep_linkBack r1 h1 h2

theorem rep_prepend {l SL b} (r : Rep l SL b) (cb : Cb) :
    Rep (l.prepend (b + 1) b cb) (SL.prepend b cb) (b + 1) := by
  obtain ⟨r1, h1, h2⟩ := rep_nextCounter r
  rw [prepend_eq]
  exact rep_linkFront r1 h1 h2

theorem rep_insert {l SL b} (r : Rep l SL b) (cb : Cb) (before : Hd) :
    Rep (l.insert (b + 1) b cb before) (SL.insert b cb before) (b + 1) := by
  obtain ⟨r1, h1, h2⟩ := rep_nextCounter r
  rw [insert_eq]
  have hp := rep_present r1 before
  by_cases hl : ((l.nextCounter (b + 1)).1.heap before).counter ≠ 0
  · rw [if_pos hl]
    have : SL.present before = true := by rw [← hp]; simpa using hl
    exact rep_linkBefore r1 h1 h2 this
  · rw [if_neg hl]
    have : SL.present before = false := by rw [← hp]; simpa using hl
    have hins : SL.insert b cb before = SL.append b cb := by simp [SList.insert, this]
    rw [hins]
    exact rep_linkBack r1 h1 h2

theorem rep_remove {l SL b} (r : Rep l SL b) (h : Hd) :
    Rep (l.remove h).1 (SL.remove h).1 b ∧ (l.remove h).2 = (SL.remove h).2 := by
  unfold CL.remove SList.remove
  have hp := rep_present r h
  by_cases hl : (l.heap h).counter ≠ 0
  · have : SL.present h = true := by rw [← hp]; simpa using hl
    rw [if_pos hl, if_pos this]
    exact ⟨rep_freeNode r this, rfl⟩
  · have : SL.present h = false := by rw [← hp]; simpa using hl
    rw [if_neg hl, this]
    exact ⟨r, rfl⟩

/-- copy construction / `cloneFrom` -/
theorem rep_clone {l SL b} (r : Rep l SL b) :
    Rep (l.clone (b + 1) b) (SL.cloneWith b) (b + SL.length) ∧
    (chainOf l.heap (b + 1) l.head).length = SL.length := by
  have hch : chainOf l.heap (b + 1) l.head = SL.ids :=
    chainOf_seg r.wf.fwd (Nat.lt_succ_of_le r.wf.length_le)
  have hcbs : (chainOf l.heap (b + 1) l.head).map (fun n => (l.heap n).cb) = SL.map (·.cb) := by
    rw [hch]
    simp only [SList.ids, List.map_map]
    apply List.map_congr_left
    intro e he
    exact r.cbs e he
  refine ⟨?_, by rw [hch]; simp [SList.ids]⟩
  have r0 : Rep { cur := 1, M := l.M } [] b := by
    refine ⟨⟨by simp, by simp [Seg], by simp [Seg], ?_, by simp, by simp, ?_, r.wf.m_ge, rfl⟩,
      by simp, fun n _ => ?_⟩
    · intro n
      show n ∈ [] ↔ ((({} : Heap)) n).counter ≠ 0
      simp; rfl
    · have := r.wf.m_ge
      show 1 < l.M
      omega
    · show ((({} : Heap)) n).counter = 0
      simp; rfl
  have := cloneChain_rep SL _ _ _ r0 (Nat.le_refl 1)
  rw [clone_eq, hcbs]
  simp only [List.nil_append, if_true] at this
  refine cast (congrArg (fun x => Rep x _ _) ?_) this
  apply CL.ext' <;> try rfl
  show (if SL = [] then none else some b) = (if (SL.map (·.cb)).isEmpty then none else some b)
  cases SL <;> simp

/-- the moved-from object of a move assignment -/
theorem rep_moved_from {l SL b} (r : Rep l SL b) : Rep { cur := l.cur, M := l.M } [] b := by
  refine ⟨⟨by simp, by simp [Seg], by simp [Seg], ?_, by simp, by simp, r.wf.cur_lt, r.wf.m_ge, rfl⟩,
    by simp, fun n _ => ?_⟩
  · intro n
    show n ∈ [] ↔ ((({} : Heap)) n).counter ≠ 0
    simp; rfl
  · show ((({} : Heap)) n).counter = 0
    simp; rfl

theorem rep_setCounter {l SL b} (r : Rep l SL b) (k : Nat) :
    Rep { l with cur := if 0 < k ∧ k ≤ l.M then max l.cur (l.M - k) else l.cur } SL b := by
  have w := r.wf
  refine ⟨⟨w.nodup, w.fwd, w.bwd, w.live, ?_, w.lt, ?_, w.m_ge, w.ub⟩, r.cbs, r.fresh⟩
  · intro n hn
    have := w.cnt n hn
    show (l.heap n).counter ≤ (if 0 < k ∧ k ≤ l.M then max l.cur (l.M - k) else l.cur)
    split <;> omega
  · have := w.cur_lt
    show (if 0 < k ∧ k ≤ l.M then max l.cur (l.M - k) else l.cur) < l.M
    split <;> omega

/-! ### running traversals stay in correspondence (no counter wrap in the operation) -/

/-- without a wrap `getNextCounter` only increments `cur` -/
theorem rep_nowrap {l SL b} (r : Rep l SL b) (nw : l.willWrap = false) :
    Rep { l with cur := l.cur + 1 } SL b := by
  have := (rep_nextCounter r).1
  rw [nextCounter_nowrap nw] at this
  exact this

theorem frame_append {l SL b m cap rest} (r : Rep l SL b) (f : FrameOK l SL b m cap rest)
    (nw : l.willWrap = false) (cb : Cb) :
    FrameOK (l.append (b + 1) b cb) (SL.append b cb) (b + 1) m cap rest := by
  have hcap : cap ≤ l.cur := by obtain ⟨_, _, _, _, _, _, h5, _⟩ := f; exact h5
  rw [append_eq, nextCounter_nowrap nw]
  exact frame_linkBack (rep_nowrap r nw) (f.cur_mono _ (Nat.le_succ _)) (Nat.lt_succ_of_le hcap)

theorem frame_prepend {l SL b m cap rest} (r : Rep l SL b) (f : FrameOK l SL b m cap rest)
    (nw : l.willWrap = false) (cb : Cb) :
    FrameOK (l.prepend (b + 1) b cb) (SL.prepend b cb) (b + 1) m cap rest := by
  rw [prepend_eq, nextCounter_nowrap nw]
  exact frame_linkFront (rep_nowrap r nw) (f.cur_mono _ (Nat.le_succ _))

theorem frame_insert {l SL b m cap rest} (r : Rep l SL b) (f : FrameOK l SL b m cap rest)
    (nw : l.willWrap = false) (cb : Cb) (before : Hd) :
    FrameOK (l.insert (b + 1) b cb before) (SL.insert b cb before) (b + 1) m cap rest := by
  have hcap : cap ≤ l.cur := by obtain ⟨_, _, _, _, _, _, h5, _⟩ := f; exact h5
  have r1 := rep_nowrap r nw
  have f1 := f.cur_mono (l.cur + 1) (Nat.le_succ _)
  have hp := rep_present r before
  rw [insert_eq, nextCounter_nowrap nw]
  by_cases hl : (l.heap before).counter ≠ 0
  · have hl' : (({ l with cur := l.cur + 1 } : CL).heap before).counter ≠ 0 := hl
    rw [if_pos hl']
    have : SL.present before = true := by rw [← hp]; simpa using hl
    exact frame_linkBefore r1 f1 (Nat.lt_succ_of_le hcap) this
  · have hl' : ¬ (({ l with cur := l.cur + 1 } : CL).heap before).counter ≠ 0 := hl
    rw [if_neg hl']
    have : SL.present before = false := by rw [← hp]; simpa using hl
    have hins : SL.insert b cb before = SL.append b cb := by simp [SList.insert, this]
    rw [hins]
    exact frame_linkBack r1 f1 (Nat.lt_succ_of_le hcap)

theorem frame_remove {l SL b m cap rest} (r : Rep l SL b) (f : FrameOK l SL b m cap rest) (h : Hd) :
    FrameOK (l.remove h).1 (SL.remove h).1 b m cap rest := by
  unfold CL.remove SList.remove
  have hp := rep_present r h
  by_cases hl : (l.heap h).counter ≠ 0
  · have : SL.present h = true := by rw [← hp]; simpa using hl
    rw [if_pos hl, if_pos this]
    exact frame_freeNode r f this
  · have : SL.present h = false := by rw [← hp]; simpa using hl
    rw [if_neg hl, this]
    exact f

theorem frame_setCounter {l SL b m cap rest} (r : Rep l SL b) (f : FrameOK l SL b m cap rest) (k : Nat) :
    FrameOK { l with cur := if 0 < k ∧ k ≤ l.M then max l.cur (l.M - k) else l.cur } SL b m cap rest := by
  have _ := r
  apply f.cur_mono
  split <;> omega

/-- start of a traversal: read `head`, capture `cur`, skip to the first callable node -/
theorem frame_start {l SL b} (r : Rep l SL b) :
    match SL.dropWhile (fun e => !SL.present e.id) with
    | [] => seek l.heap l.cur (b + 1) l.head = none
    | e :: es => seek l.heap l.cur (b + 1) l.head = some e.id ∧ (l.heap e.id).cb = e.cb ∧
        FrameOK l SL b e.id l.cur es := by
  have hall : ∀ e ∈ SL, SL.present e.id = true := fun e he =>
    SList.present_iff.mpr (SList.mem_ids_of_mem he)
  have hdw : SL.dropWhile (fun e => !SL.present e.id) = SL := by
    cases hSL : SL with
    | nil => rfl
    | cons e es =>
      rw [← hSL, hSL, List.dropWhile_cons]
      have := hall e (by rw [hSL]; simp)
      rw [hSL] at this
      simp [this]
  rw [hdw]
  cases SL with
  | nil =>
    have : l.head = none := by simpa using r.wf.head_eq
    simp [this, seek]
  | cons e es =>
    simp only
    have w := r.wf
    have hlen := w.length_le
    have hlive : (l.heap e.id).counter ≠ 0 := (w.live e.id).mp (by simp)
    have hcnt : (l.heap e.id).counter ≤ l.cur := w.cnt e.id (by simp)
    have hs := seek_seg (cap := l.cur) w.fwd (Nat.lt_succ_of_le hlen)
    have hg : guard (l.heap e.id).counter l.cur = true := by
      rw [guard_live hlive]; simpa using hcnt
    refine ⟨?_, r.cbs e (by simp), ?_⟩
    · rw [hs]; simp [hg]
    · refine ⟨[], SList.ids (e :: es), List.suffix_refl _, by simp, by simp, rfl, Nat.le_refl _, ?_, ?_, ?_⟩
      · simp only [if_true]
        have e1 : (es.filter (fun x => SList.present (e :: es) x.id)) = es := by
          rw [List.filter_eq_self]; intro x hx; exact hall x (by simp [hx])
        have e2 : (SList.ids (e :: es)).tail = es.map (·.id) := rfl
        rw [e1, e2, List.filter_eq_self]
        intro a ha
        have : a ∈ SList.ids (e :: es) := List.mem_cons_of_mem _ ha
        simpa using w.cnt a this
      · intro x hx _
        exact List.mem_cons_of_mem _ hx
      · intro x hx
        exact w.lt _ (SList.mem_ids_of_mem (List.mem_cons_of_mem _ hx))

/-- one step of a traversal: read `m.next`, skip to the next callable node -/
theorem frame_step {l SL b m cap rest} (r : Rep l SL b) (f : FrameOK l SL b m cap rest) :
    match rest.dropWhile (fun e => !SL.present e.id) with
    | [] => seek l.heap cap (b + 1) (l.heap m).next = none
    | e :: es => seek l.heap cap (b + 1) (l.heap m).next = some e.id ∧ (l.heap e.id).cb = e.cb ∧
        FrameOK l SL b e.id cap es := by
  obtain ⟨R, S, h1, h2, h3, h4, h5, h6, h7, h8⟩ := f
  have hseek := frame_seek r h1 h2 h3 h4 h6
  cases hd : rest.dropWhile (fun e => !SL.present e.id) with
  | nil =>
    have := dropWhile_not_nil (p := fun e : Entry => SL.present e.id) hd
    simp only
    rw [hseek, this]; rfl
  | cons e es =>
    obtain ⟨d1, d2, d3, d4⟩ := dropWhile_not_cons (p := fun e : Entry => SL.present e.id) hd
    simp only
    rw [d2] at hseek h6
    simp only [List.map_cons, List.head?_cons] at hseek h6
    refine ⟨hseek, r.cbs e (h7 e d3 d1), ?_⟩
    obtain ⟨l₁, l₂, hY, _, _, hl₂⟩ := List.filter_eq_cons_iff.mp h6
    have hsufY : (if R = [] then S.tail else S) <:+ S := by
      split
      · exact List.tail_suffix S
      · exact List.suffix_refl S
    have hsuf : (e.id :: l₂) <:+ SL.ids :=
      List.IsSuffix.trans (List.IsSuffix.trans ⟨l₁, hY.symm⟩ hsufY) h1
    exact ⟨[], e.id :: l₂, hsuf, by simp, by simp, rfl, h5, by simpa using hl₂,
      fun x hx => h7 x (d4 x hx), fun x hx => h8 x (d4 x hx)⟩

end Evp
