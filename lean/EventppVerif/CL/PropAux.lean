import EventppVerif.CL.Sim
/-
  Helper lemmas for Properties/C01.lean: what one whole invocation / enumeration does on the Spec
  machine when the callbacks return immediately, and the same for the Model machine through the
  simulation.  Helper lemmas only.
-/
namespace Evp

/-- the call events of the entries `snap`, oldest first -/
def callsOf (l arg : Nat) (honour : Bool) (snap : List Entry) : List Ev :=
  snap.map (fun e => Ev.call ⟨l, e.id, e.cb, arg, honour⟩)

@[simp] theorem callsOf_nil (l arg ho) : callsOf l arg ho [] = [] := rfl
@[simp] theorem callsOf_cons (l arg ho e es) :
    callsOf l arg ho (e :: es) = Ev.call ⟨l, e.id, e.cb, arg, ho⟩ :: callsOf l arg ho es := rfl
theorem callsOf_append (l arg ho a b) : callsOf l arg ho (a ++ b) = callsOf l arg ho a ++ callsOf l arg ho b := by
  simp [callsOf]

theorem SList.present_of_mem {L : SList} {e : Entry} (h : e ∈ L) : L.present e.id = true :=
  SList.present_iff.mpr (SList.mem_ids_of_mem h)

namespace SCfg

theorem seekCall_nil (beh) (c : SCfg) (l arg ho k rest) :
    seekCall beh c l [] arg ho (.wait k :: rest) =
      { c with stack := .prog (k (MCfg.finishRes ho true)) :: rest,
               trace := .res (MCfg.finishRes ho true) :: c.trace } := rfl

theorem seekCall_cons (beh) (c : SCfg) (l arg ho below) (e : Entry) (es : List Entry)
    (hp : (c.lists l).present e.id = true) :
    seekCall beh c l (e :: es) arg ho below =
      { c with
        trace := .call ⟨l, e.id, e.cb, arg, ho⟩ :: c.trace
        stack := .prog (beh ⟨l, e.id, e.cb, arg, ho⟩ (countCalls c.trace e.cb)) :: .iter l es arg ho :: below } := by
  unfold seekCall
  simp [List.dropWhile, hp]

theorem runN_succ_of_step {beh n} {c c' : SCfg} (h : step beh c = some c') :
    runN beh (n + 1) c = runN beh n c' := by
  show (match step beh c with | none => _ | some c' => runN beh n c') = _
  rw [h]

theorem runN_ret_go {beh n} {c : SCfg} {v l snap arg ho below}
    (h : c.stack = .prog (.ret v) :: .iter l snap arg ho :: below) (hc : (ho && !v) = false) :
    runN beh (n + 1) c = runN beh n (seekCall beh c l snap arg ho below) := by
  apply runN_succ_of_step
  rw [step_ret_iter h, hc]; rfl

theorem runN_ret_stop {beh n} {c : SCfg} {v l snap arg ho below}
    (h : c.stack = .prog (.ret v) :: .iter l snap arg ho :: below) (hc : (ho && !v) = true) :
    runN beh (n + 1) c = runN beh n (c.deliver (MCfg.finishRes ho false) below) := by
  apply runN_succ_of_step
  rw [step_ret_iter h, hc]; rfl

/-- a traversal whose callbacks all return at once (and, when verdicts are honoured, return
    `true`) visits the whole remaining snapshot and delivers "completed" -/
theorem traverse_all (beh : Beh) (l arg : Nat) (ho : Bool) (k : Res → Prog) (rest : List SFrame) :
    ∀ (snap : List Entry) (c : SCfg),
    (∀ e ∈ snap, (c.lists l).present e.id = true) →
    (∀ e ∈ snap, ∀ n, ∃ v, beh ⟨l, e.id, e.cb, arg, ho⟩ n = .ret v ∧ (ho = true → v = true)) →
    runN beh snap.length (seekCall beh c l snap arg ho (.wait k :: rest)) =
      ({ c with stack := .prog (k (MCfg.finishRes ho true)) :: rest,
                trace := .res (MCfg.finishRes ho true) :: ((callsOf l arg ho snap).reverse ++ c.trace) },
       false)
  | [], c, _, _ => by
    rw [seekCall_nil]
    simp [runN]
  | e :: es, c, hp, hb => by
    rw [seekCall_cons _ _ _ _ _ _ _ _ (hp e (by simp))]
    obtain ⟨v, hv, hv'⟩ := hb e (by simp) (countCalls c.trace e.cb)
    rw [hv]
    have hcond : (ho && !v) = false := by
      cases ho
      · rfl
      · simp [hv' rfl]
    rw [List.length_cons, runN_ret_go rfl hcond]
    refine (traverse_all beh l arg ho k rest es
      { c with
        trace := .call ⟨l, e.id, e.cb, arg, ho⟩ :: c.trace
        stack := .prog (.ret v) :: .iter l es arg ho :: .wait k :: rest }
      (fun x hx => hp x (by simp [hx])) (fun x hx => hb x (by simp [hx]))).trans ?_
    simp

/-- an enumeration stops at the first entry whose verdict is `false` -/
theorem traverse_stop (beh : Beh) (l arg : Nat) (k : Res → Prog) (rest : List SFrame) (e : Entry)
    (Q : List Entry) :
    ∀ (P : List Entry) (c : SCfg),
    (∀ x ∈ P ++ [e], (c.lists l).present x.id = true) →
    (∀ x ∈ P, ∀ n, beh ⟨l, x.id, x.cb, arg, true⟩ n = .ret true) →
    (∀ n, beh ⟨l, e.id, e.cb, arg, true⟩ n = .ret false) →
    runN beh (P.length + 1) (seekCall beh c l (P ++ e :: Q) arg true (.wait k :: rest)) =
      ({ c with stack := .prog (k (.bool false)) :: rest,
                trace := .res (.bool false) :: ((callsOf l arg true (P ++ [e])).reverse ++ c.trace) },
       false)
  | [], c, hp, _, he => by
    rw [List.nil_append, seekCall_cons _ _ _ _ _ _ _ _ (hp e (by simp)), he]
    rw [List.length_nil, runN_ret_stop rfl rfl]
    simp [runN, deliver, MCfg.finishRes]
  | x :: P, c, hp, hb, he => by
    rw [List.cons_append, seekCall_cons _ _ _ _ _ _ _ _ (hp x (by simp)), hb x (by simp)]
    rw [List.length_cons, runN_ret_go rfl rfl]
    refine (traverse_stop beh l arg k rest e Q P
      { c with
        trace := .call ⟨l, x.id, x.cb, arg, true⟩ :: c.trace
        stack := .prog (.ret true) :: .iter l (P ++ e :: Q) arg true :: .wait k :: rest }
      (fun y hy => hp y (List.mem_cons_of_mem _ hy)) (fun y hy => hb y (by simp [hy])) he).trans ?_
    simp

end SCfg

/-! ### the same on the Model machine, through the simulation -/

theorem StackSim.cons_inv' {m s ms b bs} (h : StackSim m s ms (b :: bs)) :
    ∃ a as, ms = a :: as ∧ FrameSim m s a b ∧ StackSim m s as bs := by
  cases h with
  | cons hf ht => exact ⟨_, _, rfl, hf, ht⟩

theorem FrameSim.prog_inv' {m s p a} (h : FrameSim m s a (.prog p)) : a = .prog p := by
  cases h; rfl

theorem FrameSim.wait_inv' {m s k a} (h : FrameSim m s a (.wait k)) : a = .wait k := by
  cases h; rfl

theorem FrameSim.iter_inv' {m s l rest arg ho a} (h : FrameSim m s a (.iter l rest arg ho)) :
    ∃ n cap, a = .iter l n cap arg ho := by
  cases h; exact ⟨_, _, rfl⟩

theorem MCfg.runN_succ_of_step {beh n} {c c' : MCfg} (h : MCfg.step beh c = some c') :
    MCfg.runN beh (n + 1) c = MCfg.runN beh n c' := by
  show (match MCfg.step beh c with | none => _ | some c' => MCfg.runN beh n c') = _
  rw [h]

/-- one lock-step where both machines are known to step and the Model step does not wrap -/
theorem sim_of_steps {beh} {m m' : MCfg} {s s' : SCfg} (h : Sim m s)
    (hm : MCfg.step beh m = some m') (hs : SCfg.step beh s = some s') (hw : m'.wraps = m.wraps) :
    Sim m' s' := by
  have := sim_step beh h
  rw [hm, hs] at this
  exact this hw

theorem SCfg.seekCall_stack_irrel (beh) (c : SCfg) (st : List SFrame) (l snap arg ho below) :
    SCfg.seekCall beh { c with stack := st } l snap arg ho below = SCfg.seekCall beh c l snap arg ho below := by
  unfold SCfg.seekCall
  show (match snap.dropWhile (fun e => !(c.lists l).present e.id) with | [] => _ | e :: es => _) = _
  cases snap.dropWhile (fun e => !(c.lists l).present e.id) with
  | nil => simp only []; unfold SCfg.deliver; split <;> rfl
  | cons e es => rfl

/-- the Spec configuration after the entries `P` of a snapshot have been called -/
def SCfg.called (s : SCfg) (l arg : Nat) (ho : Bool) (P : List Entry) : SCfg :=
  { s with trace := (callsOf l arg ho P).reverse ++ s.trace }

/-- while the Spec runs through a prefix `P` of a snapshot whose callbacks return at once, the
    Model stays in lock-step, neither wraps a counter nor touches a list object -/
theorem model_quiet_prefix (beh : Beh) (l arg : Nat) (ho : Bool) (below : List SFrame) (Q : List Entry) :
    ∀ (P : List Entry) (m : MCfg) (s0 : SCfg),
    Sim m (SCfg.seekCall beh s0 l (P ++ Q) arg ho below) →
    (∀ e ∈ P, (s0.lists l).present e.id = true) →
    (∀ e ∈ P, ∀ n, ∃ v, beh ⟨l, e.id, e.cb, arg, ho⟩ n = .ret v ∧ (ho = true → v = true)) →
    (MCfg.runN beh P.length m).1.wraps = m.wraps ∧ (MCfg.runN beh P.length m).1.lists = m.lists ∧
    (MCfg.runN beh P.length m).1.nextId = m.nextId ∧
    Sim (MCfg.runN beh P.length m).1 (SCfg.seekCall beh (s0.called l arg ho P) l Q arg ho below)
  | [], m, s0, h, _, _ => ⟨rfl, rfl, rfl, h⟩
  | e :: es, m, s0, h, hp, hb => by
    rw [List.cons_append, SCfg.seekCall_cons _ _ _ _ _ _ _ _ (hp e (by simp))] at h
    obtain ⟨v, hv, hv'⟩ := hb e (by simp) (countCalls s0.trace e.cb)
    rw [hv] at h
    have hcond : (ho && !v) = false := by
      cases ho
      · rfl
      · simp [hv' rfl]
    -- the Model's stack has the same shape
    obtain ⟨a, as, hms, hf, ht⟩ := h.stack.cons_inv'
    have := hf.prog_inv'; subst this
    obtain ⟨a2, as2, rfl, hf2, ht2⟩ := ht.cons_inv'
    obtain ⟨n, cap, rfl⟩ := hf2.iter_inv'
    have e1 : MCfg.step beh m = some (MCfg.seekCall beh m l ((m.lists l).heap n).next cap arg ho as2) := by
      rw [MCfg.step_ret_iter hms, hcond]; rfl
    have e2 := SCfg.step_ret_iter (beh := beh)
      (c := { s0 with
        trace := .call ⟨l, e.id, e.cb, arg, ho⟩ :: s0.trace
        stack := .prog (.ret v) :: .iter l (es ++ Q) arg ho :: below }) rfl
    rw [hcond] at e2
    have h' := sim_of_steps h e1 e2 (by simp)
    have ih := model_quiet_prefix beh l arg ho below Q es _ _ h'
      (fun x hx => hp x (by simp [hx])) (fun x hx => hb x (by simp [hx]))
    rw [List.length_cons, MCfg.runN_succ_of_step e1]
    refine ⟨by simpa using ih.1, by simpa using ih.2.1, by simpa using ih.2.2.1, ?_⟩
    have := ih.2.2.2
    rw [show (SCfg.called { s0 with
        trace := .call ⟨l, e.id, e.cb, arg, ho⟩ :: s0.trace
        stack := .prog (.ret v) :: .iter l (es ++ Q) arg ho :: below } l arg ho es)
      = { s0.called l arg ho (e :: es) with
          stack := .prog (.ret v) :: .iter l (es ++ Q) arg ho :: below } from by
        simp [SCfg.called], SCfg.seekCall_stack_irrel] at this
    exact this

/-! ### whole invocations -/

theorem spec_invoke_all (beh : Beh) (c : SCfg) (l arg : Nat) (k : Res → Prog) (rest : List SFrame)
    (hst : c.stack = .prog (.op (.invoke l arg) k) :: rest)
    (hb : ∀ e ∈ c.lists l, ∀ n, ∃ v, beh ⟨l, e.id, e.cb, arg, false⟩ n = .ret v) :
    SCfg.runN beh ((c.lists l).length + 1) c =
      ({ c with stack := .prog (k .unit) :: rest,
                trace := .res .unit :: ((callsOf l arg false (c.lists l)).reverse ++ c.trace) }, false) := by
  rw [SCfg.runN_succ_of_step (SCfg.step_invoke hst)]
  exact SCfg.traverse_all beh l arg false k rest (c.lists l) c (fun e he => SList.present_of_mem he)
    (fun e he n => by obtain ⟨v, hv⟩ := hb e he n; exact ⟨v, hv, fun h => by cases h⟩)

theorem spec_enum_all (beh : Beh) (c : SCfg) (l arg : Nat) (k : Res → Prog) (rest : List SFrame)
    (hst : c.stack = .prog (.op (.enum l arg) k) :: rest)
    (hb : ∀ e ∈ c.lists l, ∀ n, beh ⟨l, e.id, e.cb, arg, true⟩ n = .ret true) :
    SCfg.runN beh ((c.lists l).length + 1) c =
      ({ c with stack := .prog (k (.bool true)) :: rest,
                trace := .res (.bool true) :: ((callsOf l arg true (c.lists l)).reverse ++ c.trace) }, false) := by
  rw [SCfg.runN_succ_of_step (SCfg.step_enum hst)]
  exact SCfg.traverse_all beh l arg true k rest (c.lists l) c (fun e he => SList.present_of_mem he)
    (fun e he n => ⟨true, hb e he n, fun _ => rfl⟩)

theorem spec_enum_stop (beh : Beh) (c : SCfg) (l arg : Nat) (k : Res → Prog) (rest : List SFrame)
    (P : List Entry) (e : Entry) (Q : List Entry)
    (hst : c.stack = .prog (.op (.enum l arg) k) :: rest)
    (hl : c.lists l = P ++ e :: Q)
    (hb : ∀ x ∈ P, ∀ n, beh ⟨l, x.id, x.cb, arg, true⟩ n = .ret true)
    (he : ∀ n, beh ⟨l, e.id, e.cb, arg, true⟩ n = .ret false) :
    SCfg.runN beh (P.length + 2) c =
      ({ c with stack := .prog (k (.bool false)) :: rest,
                trace := .res (.bool false) :: ((callsOf l arg true (P ++ [e])).reverse ++ c.trace) }, false) := by
  rw [SCfg.runN_succ_of_step (SCfg.step_enum hst), hl]
  exact SCfg.traverse_stop beh l arg k rest e Q P c
    (fun x hx => SList.present_of_mem (by rw [hl]; simp at hx ⊢; rcases hx with hx | hx <;> simp [hx])) hb he

/-- the Model's stack top determines the Spec's -/
theorem Sim.top_prog {m s p mrest} (h : Sim m s) (hm : m.stack = .prog p :: mrest) :
    ∃ srest, s.stack = .prog p :: srest ∧ StackSim m s mrest srest := by
  have hst := h.stack
  rw [hm] at hst
  obtain ⟨b, bs, hs, hf, ht⟩ := hst.cons_inv
  have := hf.prog_inv; subst this
  exact ⟨bs, hs, ht⟩

/-- a new top-level program can be started in related states that have no running traversal -/
theorem Sim.restack {m : MCfg} {s : SCfg} (h : Sim m s) (p : Prog) :
    Sim { m with stack := [.prog p] } { s with stack := [.prog p] } :=
  ⟨h.nextId, h.nlists, h.trace, h.rep, .cons (.prog p) .nil⟩

/-- start of a traversal on both machines -/
theorem sim_start (beh : Beh) {m : MCfg} {s : SCfg} (h : Sim m s) (l arg : Nat) (ho : Bool) (k : Res → Prog)
    {mrest srest} (ht : StackSim m s mrest srest) :
    Sim (MCfg.seekCall beh m l (m.lists l).head (m.lists l).cur arg ho (.wait k :: mrest))
        (SCfg.seekCall beh s l (s.lists l) arg ho (.wait k :: srest)) :=
  sim_seekCall beh (h.on.sub (.cons (.wait k) ht)) l _ _ arg ho (s.lists l) (frame_start (h.rep l))

/-- the Model through a whole traversal whose first `P` callbacks return at once: it stays related
    to the Spec, does not wrap and does not touch a list object -/
theorem model_traverse_prefix (beh : Beh) {m : MCfg} {s : SCfg} (h : Sim m s) (l arg : Nat) (ho : Bool)
    (k : Res → Prog) (mrest : List MFrame)
    (hst : m.stack = .prog (.op (if ho then .enum l arg else .invoke l arg) k) :: mrest)
    (P Q : List Entry) (hl : s.lists l = P ++ Q)
    (hb : ∀ e ∈ P, ∀ n, ∃ v, beh ⟨l, e.id, e.cb, arg, ho⟩ n = .ret v ∧ (ho = true → v = true)) :
    ∃ srest, s.stack = .prog (.op (if ho then .enum l arg else .invoke l arg) k) :: srest ∧
    (MCfg.runN beh (P.length + 1) m).1.wraps = m.wraps ∧
    (MCfg.runN beh (P.length + 1) m).1.lists = m.lists ∧
    (MCfg.runN beh (P.length + 1) m).1.nextId = m.nextId ∧
    Sim (MCfg.runN beh (P.length + 1) m).1
      (SCfg.seekCall beh (s.called l arg ho P) l Q arg ho (.wait k :: srest)) := by
  obtain ⟨srest, hs, ht⟩ := h.top_prog hst
  refine ⟨srest, hs, ?_⟩
  have e1 : MCfg.step beh m =
      some (MCfg.seekCall beh m l (m.lists l).head (m.lists l).cur arg ho (.wait k :: mrest)) := by
    cases ho
    · exact MCfg.step_invoke hst
    · exact MCfg.step_enum hst
  have h1 := sim_start beh h l arg ho k ht
  rw [hl] at h1
  have := model_quiet_prefix beh l arg ho (.wait k :: srest) Q P _ s h1
    (fun e he => SList.present_of_mem (by rw [hl]; simp [he])) hb
  rw [MCfg.runN_succ_of_step e1]
  simpa using this

/-- a Spec configuration standing at `seekCall … [] …` has delivered -/
theorem SCfg.called_done (beh) (s : SCfg) (l arg ho k srest) (P : List Entry) :
    SCfg.seekCall beh (s.called l arg ho P) l [] arg ho (.wait k :: srest) =
      { s with stack := .prog (k (MCfg.finishRes ho true)) :: srest,
               trace := .res (MCfg.finishRes ho true) :: ((callsOf l arg ho P).reverse ++ s.trace) } := rfl

theorem MCfg.runN_add (beh : Beh) (b : Nat) : ∀ (a : Nat) (m : MCfg),
    MCfg.runN beh (a + b) m = MCfg.runN beh b (MCfg.runN beh a m).1
  | 0, m => by simp [MCfg.runN]
  | a + 1, m => by
    rw [show a + 1 + b = (a + b) + 1 by omega]
    cases hm : MCfg.step beh m with
    | none =>
      have h1 : ∀ n, MCfg.runN beh (n + 1) m = (m, m.stack.isEmpty) := by
        intro n
        show (match MCfg.step beh m with | none => _ | some c' => MCfg.runN beh n c') = _
        rw [hm]
      rw [h1, h1]
      cases b with
      | zero => rfl
      | succ b => exact (h1 b).symm
    | some m' =>
      rw [MCfg.runN_succ_of_step hm, MCfg.runN_succ_of_step hm]
      exact MCfg.runN_add beh b a m'

/-- the Model through an enumeration that is stopped by the verdict of entry `e` -/
theorem model_enum_stop (beh : Beh) {m : MCfg} {s : SCfg} (h : Sim m s) (l arg : Nat)
    (k : Res → Prog) (mrest : List MFrame)
    (hst : m.stack = .prog (.op (.enum l arg) k) :: mrest)
    (P : List Entry) (e : Entry) (Q : List Entry) (hl : s.lists l = P ++ e :: Q)
    (hb : ∀ x ∈ P, ∀ n, beh ⟨l, x.id, x.cb, arg, true⟩ n = .ret true)
    (he : ∀ n, beh ⟨l, e.id, e.cb, arg, true⟩ n = .ret false) :
    ∃ srest, s.stack = .prog (.op (.enum l arg) k) :: srest ∧
    (MCfg.runN beh (P.length + 2) m).1.wraps = m.wraps ∧
    (MCfg.runN beh (P.length + 2) m).1.lists = m.lists ∧
    (MCfg.runN beh (P.length + 2) m).1.nextId = m.nextId ∧
    Sim (MCfg.runN beh (P.length + 2) m).1
      { s with stack := .prog (k (.bool false)) :: srest,
               trace := .res (.bool false) :: ((callsOf l arg true (P ++ [e])).reverse ++ s.trace) } := by
  obtain ⟨srest, hs, hw, hls, hn, h1⟩ := model_traverse_prefix beh h l arg true k mrest hst P (e :: Q) hl
    (fun x hx n => ⟨true, hb x hx n, fun _ => rfl⟩)
  refine ⟨srest, hs, ?_⟩
  have hpres : ((s.called l arg true P).lists l).present e.id = true :=
    SList.present_of_mem (show e ∈ s.lists l by rw [hl]; simp)
  rw [SCfg.seekCall_cons _ _ _ _ _ _ _ _ hpres, he] at h1
  obtain ⟨a, as, hms, hf, ht⟩ := h1.stack.cons_inv'
  have := hf.prog_inv'; subst this
  obtain ⟨a2, as2, rfl, hf2, ht2⟩ := ht.cons_inv'
  obtain ⟨n, cap, rfl⟩ := hf2.iter_inv'
  have e1 := MCfg.step_ret_iter (beh := beh) hms
  have e2 := SCfg.step_ret_iter (beh := beh)
    (c := { s.called l arg true P with
      trace := .call ⟨l, e.id, e.cb, arg, true⟩ :: (s.called l arg true P).trace
      stack := .prog (.ret false) :: .iter l Q arg true :: .wait k :: srest }) rfl
  simp only [Bool.not_false, Bool.and_self, ↓reduceIte] at e1 e2
  have h2 := sim_of_steps h1 e1 e2 (by simp)
  rw [show P.length + 2 = (P.length + 1) + 1 by omega, MCfg.runN_add,
    MCfg.runN_succ_of_step e1]
  refine ⟨by simpa [MCfg.runN] using hw, by simpa [MCfg.runN] using hls, by simpa [MCfg.runN] using hn, ?_⟩
  have e3 : SCfg.deliver { s.called l arg true P with
      trace := .call ⟨l, e.id, e.cb, arg, true⟩ :: (s.called l arg true P).trace
      stack := .prog (.ret false) :: .iter l Q arg true :: .wait k :: srest }
      (MCfg.finishRes true false) (.wait k :: srest) =
    { s with stack := .prog (k (.bool false)) :: srest,
             trace := .res (.bool false) :: ((callsOf l arg true (P ++ [e])).reverse ++ s.trace) } := by
    simp [SCfg.deliver, SCfg.called, MCfg.finishRes, callsOf_append]
  rw [e3] at h2
  exact h2

/-! ### "exactly once" as a count -/

/-- number of call events of handle `h` on list `l` -/
def callsOfHandle (tr : List Ev) (l : Nat) (h : Hd) : Nat :=
  (tr.filter (fun ev => match ev with | .call c => c.list == l && c.h == h | .res _ => false)).length

theorem callsOfHandle_callsOf (l arg : Nat) (ho : Bool) (h : Hd) :
    ∀ (L : SList), L.ids.Nodup → callsOfHandle (callsOf l arg ho L) l h = if L.present h then 1 else 0
  | [], _ => rfl
  | e :: r, hn => by
    have hn' := List.nodup_cons.mp hn
    have ih := callsOfHandle_callsOf l arg ho h r hn'.2
    unfold callsOfHandle at ih ⊢
    simp only [callsOf_cons, List.filter_cons, beq_self_eq_true, Bool.true_and]
    by_cases he : e.id = h
    · subst he
      have : SList.present r e.id = false := SList.present_false_iff.mpr hn'.1
      rw [this] at ih
      simp [SList.present, ih]
    · have hb : (e.id == h) = false := by simpa using he
      simp only [hb, Bool.false_eq_true, ↓reduceIte, ih]
      simp [SList.present, hb]

/-! ### Spec operation laws -/

namespace SList

theorem insertBefore_split (e x : Entry) (Q : SList) :
    ∀ (P : SList), x.id ∉ P.ids → insertBefore (P ++ x :: Q) e x.id = P ++ e :: x :: Q
  | [], _ => by simp [insertBefore]
  | p :: P, hn => by
    have hp : p.id ≠ x.id := fun h => hn (by simp [h])
    have hP : x.id ∉ ids P := fun h => hn (by simp [h])
    simp [insertBefore, hp, insertBefore_split e x Q P hP]

theorem insert_split {P Q : SList} {x : Entry} (id : Hd) (cb : Cb) (hn : x.id ∉ P.ids) :
    (P ++ x :: Q).insert id cb x.id = P ++ ⟨id, cb⟩ :: x :: Q := by
  have hp : (P ++ x :: Q).present x.id = true := present_iff.mpr (by simp)
  rw [insert, if_pos hp, insertBefore_split _ _ _ _ hn]

theorem ids_insert_present {L : SList} {P Q : List Hd} {before : Hd} (id : Hd) (cb : Cb)
    (hnd : L.ids.Nodup) (h : L.ids = P ++ before :: Q) :
    (L.insert id cb before).ids = P ++ id :: before :: Q := by
  have hp : L.present before = true := present_iff.mpr (by rw [h]; simp)
  rw [h] at hnd
  rw [insert, if_pos hp]
  exact ids_insertBefore h (nodup_split hnd).2.2.1

theorem insert_absent {L : SList} {before : Hd} (id : Hd) (cb : Cb) (h : L.present before = false) :
    L.insert id cb before = L ++ [⟨id, cb⟩] := by
  simp [insert, h, append]

theorem present_insert (L : SList) (id cb before) (x : Hd) :
    (L.insert id cb before).present x = (L.present x || x == id) := by
  unfold insert
  split
  · rw [Bool.eq_iff_iff]
    simp only [present_iff, Bool.or_eq_true, beq_iff_eq]
    simp only [ids, List.mem_map, mem_insertBefore]
    constructor
    · rintro ⟨a, ha | ha, rfl⟩
      · right; rw [ha]
      · left; exact ⟨a, ha, rfl⟩
    · rintro (⟨a, ha, rfl⟩ | rfl)
      · exact ⟨a, Or.inr ha, rfl⟩
      · exact ⟨⟨x, cb⟩, Or.inl rfl, rfl⟩
  · exact present_append L id cb x

theorem remove_fst (L : SList) (h : Hd) : (L.remove h).1 = L.filter (fun e => e.id != h) := by
  unfold remove
  split
  · rfl
  · rename_i hp
    have hp' : h ∉ L.ids := present_false_iff.mp (by simpa using hp)
    symm
    rw [List.filter_eq_self]
    intro e he
    simp only [bne_iff_ne, ne_eq]
    exact fun heq => hp' (heq ▸ mem_ids_of_mem he)

theorem remove_snd (L : SList) (h : Hd) : (L.remove h).2 = L.present h := by
  unfold remove
  split
  · rename_i hp; simp [hp]
  · rename_i hp; simp at hp; simp [hp]

theorem ids_remove (L : SList) (h : Hd) (hnd : L.ids.Nodup) : (L.remove h).1.ids = L.ids.erase h := by
  rw [remove_fst, hnd.erase_eq_filter]
  exact ids_erase L h

theorem present_remove (L : SList) (h x : Hd) : (L.remove h).1.present x = (L.present x && x != h) := by
  rw [remove_fst]; exact present_erase L h x

theorem remove_absent (L : SList) (h : Hd) (hp : L.present h = false) : L.remove h = (L, false) := by
  simp [remove, hp]

end SList

end Evp
