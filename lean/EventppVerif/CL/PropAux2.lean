import EventppVerif.CL.Sim
/-
  Helper definitions and lemmas for Properties/C08.lean, C10.lean and C19.lean:
  the abstraction function `absList` (pointer object ↦ list of entries), reachability of nodes,
  facts about `cloneWith`, and which lists a command can touch.
-/
namespace Evp

/-! ### abstraction function -/

/-- The content of a list object read through `head` / `next` (bounded walk): handles and stored
    callbacks in chain order. -/
def absList (l : CL) (fuel : Nat) : SList :=
  (chainOf l.heap fuel l.head).map (fun n => ⟨n, (l.heap n).cb⟩)

theorem Rep.chain {l SL b} (r : Rep l SL b) : chainOf l.heap (b + 1) l.head = SL.ids :=
  chainOf_seg r.wf.fwd (Nat.lt_succ_of_le r.wf.length_le)

/-- a represented list is recovered by the abstraction function -/
theorem Rep.abs {l SL b} (r : Rep l SL b) : absList l (b + 1) = SL := by
  unfold absList
  rw [r.chain]
  simp only [SList.ids, List.map_map]
  conv => rhs; rw [← List.map_id SL]
  apply List.map_congr_left
  intro e he
  show (⟨e.id, (l.heap e.id).cb⟩ : Entry) = e
  rw [r.cbs e he]

/-- `Rep` determines the list -/
theorem Rep.unique {l SL SL' b} (r : Rep l SL b) (r' : Rep l SL' b) : SL = SL' := by
  rw [← r.abs, ← r'.abs]

theorem absList_default (fuel : Nat) : absList ({} : CL) fuel = [] := by
  cases fuel <;> rfl

theorem absList_head_none {l : CL} (h : l.head = none) (fuel : Nat) : absList l fuel = [] := by
  unfold absList; rw [h]; cases fuel <;> rfl

/-! ### stores -/

theorem Store.map_get {α β : Type} [Inhabited α] [Inhabited β] (f : α → β) (hf : f default = default)
    (s : Store α) (i : Nat) : (⟨s.arr.map f⟩ : Store β) i = f (s i) := by
  show Store.get _ i = f (Store.get s i)
  unfold Store.get
  simp only [Array.getElem?_map]
  cases s.arr[i]? with
  | none => simp [hf]
  | some x => rfl

/-! ### reachability (C08) -/

/-- The nodes a list object retains: those reachable from `head` / `tail` through `next` /
    `previous` links of retained nodes.  (In the source every link is a `shared_ptr`; a node that
    is not reachable from the object or from a running traversal's local `node` variable has
    reference count zero, i.e. has been destroyed together with its callback.) -/
inductive Reach (l : CL) : Nat → Prop
  | head {n} : l.head = some n → Reach l n
  | tail {n} : l.tail = some n → Reach l n
  | next {a n} : Reach l a → (l.heap a).next = some n → Reach l n
  | prev {a n} : Reach l a → (l.heap a).prev = some n → Reach l n

theorem WF.next_mem {l L b n x} (w : WF l L b) (hn : n ∈ L) (hx : (l.heap n).next = some x) : x ∈ L := by
  obtain ⟨P, Q, rfl⟩ := List.append_of_mem hn
  obtain ⟨_, s2, _, _, _, _⟩ := w.split
  rw [s2] at hx
  have := List.mem_of_head? hx
  simp [this]

theorem WF.prev_mem {l L b n x} (w : WF l L b) (hn : n ∈ L) (hx : (l.heap n).prev = some x) : x ∈ L := by
  obtain ⟨P, Q, rfl⟩ := List.append_of_mem hn
  obtain ⟨_, _, _, _, s5, _⟩ := w.split
  rw [s5] at hx
  have := List.mem_of_getLast? hx
  simp [this]

theorem WF.reach_mem {l L b n} (w : WF l L b) (h : Reach l n) : n ∈ L := by
  induction h with
  | head h => rw [w.head_eq] at h; exact List.mem_of_head? h
  | tail h => rw [w.tail_eq] at h; exact List.mem_of_getLast? h
  | next _ hx ih => exact w.next_mem ih hx
  | prev _ hx ih => exact w.prev_mem ih hx

theorem reach_of_seg {l : CL} : ∀ {xs : List Nat} {o : Option Nat}, Seg nextF l.heap o xs none →
    (∀ a, o = some a → Reach l a) → ∀ n ∈ xs, Reach l n
  | [], _, _, _, n, hn => by simp at hn
  | a :: r, o, hs, ho, n, hn => by
    simp only [Seg] at hs
    have ha : Reach l a := ho a hs.1
    rcases List.mem_cons.mp hn with rfl | hn
    · exact ha
    · exact reach_of_seg hs.2 (fun x hx => Reach.next ha hx) n hn

theorem WF.mem_reach {l L b n} (w : WF l L b) (h : n ∈ L) : Reach l n :=
  reach_of_seg w.fwd (fun _ ha => Reach.head ha) n h

theorem reach_empty {l : CL} (hh : l.head = none) (ht : l.tail = none) (n : Nat) : ¬ Reach l n := by
  intro h
  induction h with
  | head h => rw [hh] at h; cases h
  | tail h => rw [ht] at h; cases h
  | next _ _ ih => exact ih
  | prev _ _ ih => exact ih

/-! ### `cloneWith` (C10) -/

namespace SList

theorem cloneWith_cbs : ∀ (L : SList) (id : Nat), (L.cloneWith id).map (·.cb) = L.map (·.cb)
  | [], _ => rfl
  | e :: r, id => by simp [cloneWith, cloneWith_cbs r (id + 1)]

theorem cloneWith_length : ∀ (L : SList) (id : Nat), (L.cloneWith id).length = L.length
  | [], _ => rfl
  | e :: r, id => by simp [cloneWith, cloneWith_length r (id + 1)]

theorem cloneWith_ids : ∀ (L : SList) (id : Nat), (L.cloneWith id).ids = List.range' id L.length
  | [], _ => rfl
  | e :: r, id => by
    simp only [cloneWith, ids_cons, List.length_cons, List.range'_succ]
    rw [cloneWith_ids r (id + 1)]

theorem cloneWith_fresh {L : SList} {id h : Nat} (hm : h ∈ (L.cloneWith id).ids) :
    id ≤ h ∧ h < id + L.length := by
  rw [cloneWith_ids, List.mem_range'_1] at hm
  exact hm

end SList

/-! ### which lists a command can change -/

/-- the lists a command may modify -/
def Cmd.targets : Cmd → List Nat
  | .append l _ => [l]
  | .prepend l _ => [l]
  | .insert l _ _ => [l]
  | .remove l _ => [l]
  | .owns _ _ => []
  | .empty _ => []
  | .invoke _ _ => []
  | .enum _ _ => []
  | .copyAssign dst _ => [dst]
  | .moveAssign dst src => [dst, src]
  | .swap a b => [a, b]
  | .setCounter l _ => [l]

theorem SCfg.apply_other (s : SCfg) (busy : Nat → Bool) (cmd : Cmd) (b : Nat) (hb : b ∉ cmd.targets) :
    (s.apply busy cmd).1.lists b = s.lists b := by
  cases cmd <;> simp only [SCfg.apply, Cmd.targets, List.mem_cons, List.not_mem_nil, or_false, not_or] at hb ⊢ <;>
    (repeat' split) <;> simp_all

theorem MCfg.apply_other (m : MCfg) (busy : Nat → Bool) (cmd : Cmd) (b : Nat) (hb : b ∉ cmd.targets) :
    (m.apply busy cmd).1.lists b = m.lists b := by
  cases cmd <;> simp only [MCfg.apply, Cmd.targets, List.mem_cons, List.not_mem_nil, or_false, not_or] at hb ⊢ <;>
    (repeat' split) <;> simp_all

end Evp
