import EventppVerif.CL.PropAux2
/-
  Helper lemmas for Properties/C19.lean: the Spec configuration abstracted from a Model
  configuration, and the effect of the wrap branch of `getNextCounter`.
-/
namespace Evp

/-! ### the Spec configuration a Model configuration stands for -/

/-- Read every list object through `head`/`next`; start program `p` on the result. -/
def absCfg (m : MCfg) (p : Prog) : SCfg :=
  { lists := ⟨m.lists.arr.map (fun cl => absList cl (m.nextId + 1))⟩
    nextId := m.nextId, trace := m.trace, stack := [.prog p], nlists := m.nlists }

theorem absCfg_lists (m : MCfg) (p : Prog) (l : Nat) :
    (absCfg m p).lists l = absList (m.lists l) (m.nextId + 1) :=
  Store.map_get (fun cl => absList cl (m.nextId + 1)) (absList_default _) m.lists l

theorem sim_abs {m : MCfg} (h : MInv m) {p : Prog} (hst : m.stack = [.prog p]) : Sim m (absCfg m p) := by
  refine ⟨rfl, rfl, rfl, fun l => ?_, ?_⟩
  · obtain ⟨SL, r⟩ := h l
    rw [absCfg_lists, r.abs]
    exact r
  · rw [hst]
    exact .cons (.prog p) .nil

/-! ### the wrap branch -/

theorem nextCounter_wrap {l : CL} (hw : l.willWrap = true) (fuel : Nat) :
    l.nextCounter fuel = ({ l with heap := setOnes l.heap fuel l.head, cur := 1 }, 1) := by
  unfold CL.nextCounter
  have : (l.cur + 1) % l.M = 0 := by simpa [CL.willWrap] using hw
  simp [this]

/-- after the wrap branch: `cur = 1`, the drawn generation is 1, every live node has counter 1 -/
theorem rep_nextCounter_wrap {l SL b} (r : Rep l SL b) (hw : l.willWrap = true) :
    (l.nextCounter (b + 1)).2 = 1 ∧ (l.nextCounter (b + 1)).1.cur = 1 ∧
    ∀ a ∈ SL.ids, ((l.nextCounter (b + 1)).1.heap a).counter = 1 := by
  rw [nextCounter_wrap hw]
  refine ⟨rfl, rfl, fun a ha => ?_⟩
  have hs := setOnes_seg r.wf.fwd r.wf.nodup (Nat.lt_succ_of_le r.wf.length_le) a
  show ((setOnes l.heap (b + 1) l.head) a).counter = 1
  rw [hs]; simp [ha]

theorem linkBefore_cur (l : CL) (id cb c n : Nat) : (l.linkBefore id cb c n).cur = l.cur := rfl

theorem mem_ids_append {SL : SList} {b cb n} : n ∈ (SL.append b cb).ids ↔ n ∈ SL.ids ∨ n = b := by
  rw [SList.ids_append]; simp

theorem mem_ids_prepend {SL : SList} {b cb n} : n ∈ (SL.prepend b cb).ids ↔ n ∈ SL.ids ∨ n = b := by
  rw [SList.ids_prepend]; simp [or_comm]

theorem mem_ids_insert {SL : SList} {b cb before n} : n ∈ (SL.insert b cb before).ids ↔ n ∈ SL.ids ∨ n = b := by
  rw [← SList.present_iff, ← SList.present_iff]
  unfold SList.insert
  split
  · simp only [SList.present_iff, SList.ids, List.mem_map, SList.mem_insertBefore]
    constructor
    · rintro ⟨a, ha | ha, rfl⟩
      · right; rw [ha]
      · left; exact ⟨a, ha, rfl⟩
    · rintro (⟨a, ha, rfl⟩ | rfl)
      · exact ⟨a, Or.inr ha, rfl⟩
      · exact ⟨⟨n, cb⟩, Or.inl rfl, rfl⟩
  · rw [SList.present_append]; simp

theorem append_wrap {l SL b} (r : Rep l SL b) (hw : l.willWrap = true) (cb : Cb) :
    (l.append (b + 1) b cb).cur = 1 ∧
    ∀ n ∈ (SL.append b cb).ids, ((l.append (b + 1) b cb).heap n).counter = 1 := by
  obtain ⟨hc, hcur, hall⟩ := rep_nextCounter_wrap r hw
  obtain ⟨r1, _, _⟩ := rep_nextCounter r
  rw [append_eq, linkBack_cur]
  refine ⟨hcur, fun n hn => ?_⟩
  rw [(r1.wf.linkBack_fields (r1.fresh b (Nat.le_refl b)) n).1, hc]
  split
  · rfl
  · rename_i hne
    exact hall n ((mem_ids_append.mp hn).resolve_right hne)

theorem prepend_wrap {l SL b} (r : Rep l SL b) (hw : l.willWrap = true) (cb : Cb) :
    (l.prepend (b + 1) b cb).cur = 1 ∧
    ∀ n ∈ (SL.prepend b cb).ids, ((l.prepend (b + 1) b cb).heap n).counter = 1 := by
  obtain ⟨hc, hcur, hall⟩ := rep_nextCounter_wrap r hw
  obtain ⟨r1, _, _⟩ := rep_nextCounter r
  rw [prepend_eq, linkFront_cur]
  refine ⟨hcur, fun n hn => ?_⟩
  rw [(r1.wf.linkFront_fields (r1.fresh b (Nat.le_refl b)) n).1, hc]
  split
  · rfl
  · rename_i hne
    exact hall n ((mem_ids_prepend.mp hn).resolve_right hne)

theorem insert_wrap {l SL b} (r : Rep l SL b) (hw : l.willWrap = true) (cb : Cb) (before : Hd) :
    (l.insert (b + 1) b cb before).cur = 1 ∧
    ∀ n ∈ (SL.insert b cb before).ids, ((l.insert (b + 1) b cb before).heap n).counter = 1 := by
  obtain ⟨hc, hcur, hall⟩ := rep_nextCounter_wrap r hw
  obtain ⟨r1, _, _⟩ := rep_nextCounter r
  rw [insert_eq]
  split
  · rw [linkBefore_cur]
    refine ⟨hcur, fun n hn => ?_⟩
    rw [linkBefore_counter, hc]
    split
    · rfl
    · rename_i hne
      exact hall n ((mem_ids_insert.mp hn).resolve_right hne)
  · rw [linkBack_cur]
    refine ⟨hcur, fun n hn => ?_⟩
    rw [(r1.wf.linkBack_fields (r1.fresh b (Nat.le_refl b)) n).1, hc]
    split
    · rfl
    · rename_i hne
      exact hall n ((mem_ids_insert.mp hn).resolve_right hne)

/-! ### generations of existing callbacks never grow -/

theorem nextCounter_counter {l SL b} (r : Rep l SL b) {n : Nat} (hn : n ∈ SL.ids) :
    ((l.nextCounter (b + 1)).1.heap n).counter = (l.heap n).counter ∨
    ((l.nextCounter (b + 1)).1.heap n).counter = 1 := by
  cases hw : l.willWrap with
  | true => exact Or.inr ((rep_nextCounter_wrap r hw).2.2 n hn)
  | false => rw [nextCounter_nowrap hw]; exact Or.inl rfl

theorem append_counter {l SL b} (r : Rep l SL b) (cb : Cb) {n : Nat} (hn : n ∈ SL.ids) :
    ((l.append (b + 1) b cb).heap n).counter = (l.heap n).counter ∨
    ((l.append (b + 1) b cb).heap n).counter = 1 := by
  obtain ⟨r1, _, _⟩ := rep_nextCounter r
  have hne : n ≠ b := Nat.ne_of_lt (r.wf.lt n hn)
  rw [append_eq, (r1.wf.linkBack_fields (r1.fresh b (Nat.le_refl b)) n).1, if_neg hne]
  exact nextCounter_counter r hn

theorem prepend_counter {l SL b} (r : Rep l SL b) (cb : Cb) {n : Nat} (hn : n ∈ SL.ids) :
    ((l.prepend (b + 1) b cb).heap n).counter = (l.heap n).counter ∨
    ((l.prepend (b + 1) b cb).heap n).counter = 1 := by
  obtain ⟨r1, _, _⟩ := rep_nextCounter r
  have hne : n ≠ b := Nat.ne_of_lt (r.wf.lt n hn)
  rw [prepend_eq, (r1.wf.linkFront_fields (r1.fresh b (Nat.le_refl b)) n).1, if_neg hne]
  exact nextCounter_counter r hn

theorem insert_counter {l SL b} (r : Rep l SL b) (cb : Cb) (before : Hd) {n : Nat} (hn : n ∈ SL.ids) :
    ((l.insert (b + 1) b cb before).heap n).counter = (l.heap n).counter ∨
    ((l.insert (b + 1) b cb before).heap n).counter = 1 := by
  obtain ⟨r1, _, _⟩ := rep_nextCounter r
  have hne : n ≠ b := Nat.ne_of_lt (r.wf.lt n hn)
  rw [insert_eq]
  split
  · rw [linkBefore_counter, if_neg hne]
    exact nextCounter_counter r hn
  · rw [(r1.wf.linkBack_fields (r1.fresh b (Nat.le_refl b)) n).1, if_neg hne]
    exact nextCounter_counter r hn

theorem remove_counter (l : CL) (h : Hd) {n : Nat} (hne : n ≠ h) :
    ((l.remove h).1.heap n).counter = (l.heap n).counter := by
  unfold CL.remove
  split
  · rw [freeNode_counter, if_neg hne]
  · rfl

theorem guard_stable {c c' cap : Nat} (hc : c' = c ∨ c' = 1) (hcap : 1 ≤ cap) (hg : guard c cap = true) :
    guard c' cap = true := by
  rcases hc with rfl | rfl
  · exact hg
  · simp [guard]; exact hcap

/-- a fresh object with any admissible counter state represents the empty list -/
theorem rep_fresh (cur M b : Nat) (h1 : cur < M) (h2 : 2 ≤ M) : Rep { cur := cur, M := M } [] b := by
  refine ⟨⟨by simp, by simp [Seg], by simp [Seg], ?_, by simp, by simp, h1, h2, rfl⟩,
    by simp, fun n _ => ?_⟩
  · intro n
    show n ∈ [] ↔ ((({} : Heap)) n).counter ≠ 0
    simp; rfl
  · show ((({} : Heap)) n).counter = 0
    simp; rfl

/-! ### traversals in progress, across wraps: the structural invariant

  `FrameOK l SL b n 0 []` — the frame invariant of the simulation with captured generation 0 and an
  empty snapshot — says exactly: from the traversal's node `n`, following `next` walks a
  duplicate-free list `R` of removed nodes (frozen links) and then enters a suffix `S` of the live
  chain.  Unlike the invariant with the real captured generation it survives a counter wrap. -/

/-- build the structural invariant -/
theorem frame0_mk {l SL b n} (r : Rep l SL b) {R S : List Nat} (h1 : S <:+ SL.ids)
    (h2 : ∀ x ∈ R, (l.heap x).counter = 0 ∧ x < b) (h3 : R.Nodup)
    (h4 : Seg nextF l.heap (some n) R S.head?) : FrameOK l SL b n 0 [] := by
  refine ⟨R, S, h1, h2, h3, h4, Nat.zero_le _, ?_, by simp, by simp⟩
  simp only [List.filter_nil, List.map_nil, List.filter_eq_nil_iff]
  intro a ha
  have := (r.suffix_mem h1 (mem_Y ha)).1
  simp only [decide_eq_true_eq]
  omega

/-- forget the captured generation and the snapshot -/
theorem FrameOK.to0 {l SL b n cap rest} (r : Rep l SL b) (f : FrameOK l SL b n cap rest) :
    FrameOK l SL b n 0 [] := by
  obtain ⟨R, S, h1, h2, h3, h4, _⟩ := f
  exact frame0_mk r h1 h2 h3 h4

/-- the invariant survives `getNextCounter`, wrap branch or not -/
theorem frame0_nextCounter {l SL b n} (r : Rep l SL b) (f : FrameOK l SL b n 0 []) :
    FrameOK (l.nextCounter (b + 1)).1 SL b n 0 [] := by
  obtain ⟨R, S, h1, h2, h3, h4, _⟩ := f
  obtain ⟨_, _, _, hf⟩ := r.wf.nextCounter
  refine frame0_mk (rep_nextCounter r).1 h1 (fun x hx => ⟨(hf x).2.2.2.mpr (h2 x hx).1, (h2 x hx).2⟩) h3 ?_
  exact (seg_congr (fun a _ => (hf a).1)).mpr h4

theorem frame0_append {l SL b n} (r : Rep l SL b) (f : FrameOK l SL b n 0 []) (cb : Cb) :
    FrameOK (l.append (b + 1) b cb) (SL.append b cb) (b + 1) n 0 [] := by
  obtain ⟨r1, hc, _⟩ := rep_nextCounter r
  rw [append_eq]
  exact frame_linkBack r1 (frame0_nextCounter r f) (Nat.pos_of_ne_zero hc)

theorem frame0_prepend {l SL b n} (r : Rep l SL b) (f : FrameOK l SL b n 0 []) (cb : Cb) :
    FrameOK (l.prepend (b + 1) b cb) (SL.prepend b cb) (b + 1) n 0 [] := by
  obtain ⟨r1, _, _⟩ := rep_nextCounter r
  rw [prepend_eq]
  exact frame_linkFront r1 (frame0_nextCounter r f)

theorem frame0_insert {l SL b n} (r : Rep l SL b) (f : FrameOK l SL b n 0 []) (cb : Cb) (before : Hd) :
    FrameOK (l.insert (b + 1) b cb before) (SL.insert b cb before) (b + 1) n 0 [] := by
  obtain ⟨r1, hc, _⟩ := rep_nextCounter r
  have f1 := frame0_nextCounter r f
  have hp := rep_present r1 before
  rw [insert_eq]
  by_cases hl : ((l.nextCounter (b + 1)).1.heap before).counter ≠ 0
  · rw [if_pos hl]
    have : SL.present before = true := by rw [← hp]; simpa using hl
    exact frame_linkBefore r1 f1 (Nat.pos_of_ne_zero hc) this
  · rw [if_neg hl]
    have : SL.present before = false := by rw [← hp]; simpa using hl
    have hins : SL.insert b cb before = SL.append b cb := by simp [SList.insert, this]
    rw [hins]
    exact frame_linkBack r1 f1 (Nat.pos_of_ne_zero hc)

/-- the skip loop with *any* captured generation finds the first live node ahead whose counter
    passes it -/
theorem frame0_seek_eq {l SL b n} (cap : Nat) (r : Rep l SL b) {R S : List Nat} (h1 : S <:+ SL.ids)
    (h2 : ∀ x ∈ R, (l.heap x).counter = 0 ∧ x < b) (h3 : R.Nodup)
    (h4 : Seg nextF l.heap (some n) R S.head?) :
    seek l.heap cap (b + 1) (l.heap n).next =
      ((if R = [] then S.tail else S).filter (fun a => decide ((l.heap a).counter ≤ cap))).head? := by
  -- the snapshot that makes `frame_seek` applicable
  let Y := (if R = [] then S.tail else S).filter (fun a => decide ((l.heap a).counter ≤ cap))
  let rest : List Entry := Y.map (fun a => ⟨a, (l.heap a).cb⟩)
  have hY : ∀ a ∈ Y, a ∈ S := fun a ha => mem_Y (List.mem_filter.mp ha).1
  have hrest : (rest.filter (fun e => SL.present e.id)).map (·.id) = Y := by
    have : rest.filter (fun e => SL.present e.id) = rest := by
      rw [List.filter_eq_self]
      intro e he
      obtain ⟨a, ha, rfl⟩ := List.mem_map.mp he
      exact SList.present_iff.mpr (h1.subset (hY a ha))
    rw [this]
    simp [rest, Function.comp_def]
  have := frame_seek (cap := cap) (rest := rest) r h1 h2 h3 h4 hrest.symm
  rw [hrest] at this
  exact this

/-- one step of a traversal with *any* captured generation: the node found by the skip loop is a
    live node further down the chain -/
theorem frame0_step {l SL b n cap n'} (r : Rep l SL b) (f : FrameOK l SL b n 0 [])
    (hs : seek l.heap cap (b + 1) (l.heap n).next = some n') : FrameOK l SL b n' 0 [] := by
  obtain ⟨R, S, h1, h2, h3, h4, _⟩ := f
  have := frame0_seek_eq cap r h1 h2 h3 h4
  rw [hs] at this
  have hmem : n' ∈ S := mem_Y (List.mem_filter.mp (List.mem_of_head? this.symm)).1
  obtain ⟨A, B, hAB⟩ := List.append_of_mem hmem
  have hsuf : (n' :: B) <:+ SL.ids := List.IsSuffix.trans ⟨A, hAB.symm⟩ h1
  exact frame0_mk (R := []) r hsuf (by simp) (by simp) rfl

/-- start of a traversal -/
theorem frame0_start {l SL b n'} (r : Rep l SL b)
    (hs : seek l.heap l.cur (b + 1) l.head = some n') : FrameOK l SL b n' 0 [] := by
  have := frame_start r
  split at this
  · rw [this] at hs; cases hs
  · obtain ⟨h1, _, h3⟩ := this
    rw [h1] at hs
    cases hs
    exact h3.to0 r

theorem seek_guard {h : Heap} {cap : Nat} : ∀ {fuel : Nat} {o : Option Nat} {n : Nat},
    seek h cap fuel o = some n → guard (h n).counter cap = true
  | 0, _, _, hs => by simp [seek] at hs
  | _ + 1, none, _, hs => by simp [seek] at hs
  | f + 1, some a, n, hs => by
    simp only [seek] at hs
    split at hs
    · cases hs; assumption
    · exact seek_guard hs

/-- what the structural invariant says in plain terms -/
theorem frame0_walk {l SL b n} (r : Rep l SL b) (f : FrameOK l SL b n 0 []) :
    ∃ R S : List Nat, S <:+ SL.ids ∧ (∀ x ∈ R, (l.heap x).counter = 0) ∧
      (if R = [] then S.head? = some n else R.head? = some n) ∧
      chainOf l.heap (b + 1) (some n) = R ++ S ∧ (R ++ S).Nodup ∧
      ∀ cap, seek l.heap cap (b + 1) (l.heap n).next =
        ((if R = [] then S.tail else S).filter (fun a => decide ((l.heap a).counter ≤ cap))).head? := by
  obtain ⟨R, S, h1, h2, h3, h4, _⟩ := f
  have hsegS := r.wf.suffix_seg h1
  have hSnd : S.Nodup := nodup_suffix h1 r.wf.nodup
  have hnd : (R ++ S).Nodup := List.nodup_append.mpr ⟨h3, hSnd, fun a ha c hc e => by
    subst e; exact (r.suffix_mem h1 hc).1 (h2 a ha).1⟩
  have hlen : (R ++ S).length ≤ b := by
    apply nodup_lt_length _ _ hnd
    intro a ha
    rcases List.mem_append.mp ha with ha | ha
    · exact (h2 a ha).2
    · exact (r.suffix_mem h1 ha).2.1
  have hseg : Seg nextF l.heap (some n) (R ++ S) none := seg_append.mpr ⟨_, h4, hsegS⟩
  refine ⟨R, S, h1, fun x hx => (h2 x hx).1, ?_, chainOf_seg hseg (Nat.lt_succ_of_le hlen), hnd,
    fun cap => frame0_seek_eq cap r h1 h2 h3 h4⟩
  cases R with
  | nil => simpa [Seg] using h4.symm
  | cons x R' => simpa [Seg] using h4.1.symm

/-! ### the machine-level invariant with running traversals -/

/-- forget the captured generation of a traversal frame -/
def MFrame.shadow : MFrame → MFrame
  | .iter l n _ arg ho => .iter l n 0 arg ho
  | f => f

/-- the Spec frame with an empty snapshot -/
def MFrame.toS : MFrame → SFrame
  | .prog p => .prog p
  | .wait k => .wait k
  | .iter l _ _ arg ho => .iter l [] arg ho

/-- `Sim0 m s`: every list object of `m` represents the list `s.lists l`, and every running
    traversal of `m` satisfies the structural invariant -/
def Sim0 (m : MCfg) (s : SCfg) : Prop :=
  SimOn m s (m.stack.map MFrame.shadow) (m.stack.map MFrame.toS)

/-- the invariant of the Model alone, including traversals in progress; holds across wraps -/
def MInvD (m : MCfg) : Prop := ∃ s, Sim0 m s

theorem busyOn_shadow (st : List MFrame) : busyOn MFrame.isIterOn (st.map MFrame.shadow) = busyOn MFrame.isIterOn st := by
  funext l
  induction st with
  | nil => rfl
  | cons f r ih =>
    simp only [busyOn, List.map_cons, List.any_cons] at ih ⊢
    rw [ih]
    cases f <;> rfl

theorem StackSim.tail' {m s a as b bs} (h : StackSim m s (a :: as) (b :: bs)) : StackSim m s as bs := by
  cases h with
  | cons _ ht => exact ht

theorem StackSim.head' {m s a as b bs} (h : StackSim m s (a :: as) (b :: bs)) : FrameSim m s a b := by
  cases h with
  | cons hf _ => exact hf

theorem FrameSim.iter_ok {m s l n cap arg ho rest} (h : FrameSim m s (.iter l n cap arg ho) (.iter l rest arg ho)) :
    FrameOK (m.lists l) (s.lists l) m.nextId n cap rest := by
  cases h with
  | iter _ _ _ _ _ _ ok => exact ok

/-- transport of a shadow stack along a change of the configurations -/
theorem StackSim.transport0 {m s m' s'} : ∀ {st : List MFrame},
    StackSim m s (st.map MFrame.shadow) (st.map MFrame.toS) →
    (∀ l n, busyOn MFrame.isIterOn st l = true → FrameOK (m.lists l) (s.lists l) m.nextId n 0 [] →
      FrameOK (m'.lists l) (s'.lists l) m'.nextId n 0 []) →
    StackSim m' s' (st.map MFrame.shadow) (st.map MFrame.toS)
  | [], _, _ => .nil
  | f :: r, h, H => by
    simp only [List.map_cons] at h ⊢
    refine .cons ?_ (StackSim.transport0 h.tail' (fun l n hb ok => H l n ?_ ok))
    · cases f with
      | prog p => exact .prog p
      | wait k => exact .wait k
      | iter l n cap arg ho =>
        exact .iter _ _ _ _ _ _ (H l n (by simp [busyOn, MFrame.isIterOn]) h.head'.iter_ok)
    · simp only [busyOn, List.any_cons] at hb ⊢; simp [hb]

/-- new configuration with the same list objects; the Spec side just copies the trace -/
theorem SimOn.retrace {m s ms ss} (h : SimOn m s ms ss) {m' : MCfg} (hl : m'.lists = m.lists)
    (hn : m'.nextId = m.nextId) (hnl : m'.nlists = m.nlists) {ms' ss'} (hst : StackSim m s ms' ss') :
    SimOn m' { s with trace := m'.trace } ms' ss' :=
  ⟨by rw [hn]; exact h.nextId, by rw [hnl]; exact h.nlists, rfl,
    fun l => by rw [hl, hn]; exact h.rep l, hst.congr hl rfl hn⟩

theorem minvD_of {m s ms ss} (h : SimOn m s ms ss) {m' : MCfg} (hl : m'.lists = m.lists)
    (hn : m'.nextId = m.nextId) (hnl : m'.nlists = m.nlists)
    (hst : StackSim m s (m'.stack.map MFrame.shadow) (m'.stack.map MFrame.toS)) : MInvD m' :=
  ⟨_, h.retrace hl hn hnl hst⟩

/-- only list `l` changes, by an operation that keeps the structural invariant -/
theorem SimOn.upd1_0 {m s} {st : List MFrame} (h : SimOn m s (st.map MFrame.shadow) (st.map MFrame.toS))
    {m' : MCfg} {s' : SCfg} (l : Nat) (x : CL) (y : SList)
    (hml : ∀ l', m'.lists l' = if l' = l then x else m.lists l')
    (hsl : ∀ l', s'.lists l' = if l' = l then y else s.lists l')
    (hn : m'.nextId = s'.nextId) (hb : m.nextId ≤ m'.nextId)
    (nl : m'.nlists = m.nlists) (snl : s'.nlists = s.nlists)
    (tr : m'.trace = m.trace) (str : s'.trace = s.trace)
    (hr : Rep x y m'.nextId)
    (hf : ∀ n, FrameOK (m.lists l) (s.lists l) m.nextId n 0 [] → FrameOK x y m'.nextId n 0 []) :
    SimOn m' s' (st.map MFrame.shadow) (st.map MFrame.toS) where
  nextId := hn
  nlists := by rw [nl, snl]; exact h.nlists
  trace := by rw [tr, str]; exact h.trace
  rep := fun l' => by
    rw [hml, hsl]
    split
    · exact hr
    · exact (h.rep l').mono hb
  stack := h.stack.transport0 (fun l' n _ ok => by
    rw [hml, hsl]
    split
    · next e => subst e; exact hf n ok
    · exact ok.mono hb)

/-- every command keeps the invariant, wrap or not -/
theorem sim0_apply {m s} {st : List MFrame} (h : SimOn m s (st.map MFrame.shadow) (st.map MFrame.toS))
    (cmd : Cmd) :
    ∃ s', SimOn (m.apply (busyOn MFrame.isIterOn st) cmd).1 s' (st.map MFrame.shadow) (st.map MFrame.toS) ∧
      s'.trace = s.trace := by
  have hgen : (m.apply (busyOn MFrame.isIterOn st) cmd).1.wraps = m.wraps →
      ∃ s', SimOn (m.apply (busyOn MFrame.isIterOn st) cmd).1 s' (st.map MFrame.shadow) (st.map MFrame.toS) ∧
        s'.trace = s.trace := by
    intro hw
    have := (sim_apply h cmd).2
    rw [busyOn_shadow] at this
    refine ⟨_, this hw, ?_⟩
    cases cmd <;> simp only [SCfg.apply] <;> (repeat' split) <;> rfl
  cases cmd with
  | append l cb =>
    refine ⟨(s.apply (busyOn SFrame.isIterOn (st.map MFrame.toS)) (.append l cb)).1, ?_, rfl⟩
    exact h.upd1_0 l ((m.lists l).append (m.nextId + 1) m.nextId cb) ((s.lists l).append m.nextId cb)
      (fun l' => upd_get _ _ _ _) (fun l' => by rw [h.nextId]; exact upd_get _ _ _ _)
      (by simp [MCfg.apply, SCfg.apply, h.nextId]) (Nat.le_succ _) rfl rfl rfl rfl
      (rep_append (h.rep l) cb) (fun n ok => frame0_append (h.rep l) ok cb)
  | prepend l cb =>
    refine ⟨(s.apply (busyOn SFrame.isIterOn (st.map MFrame.toS)) (.prepend l cb)).1, ?_, rfl⟩
    exact h.upd1_0 l ((m.lists l).prepend (m.nextId + 1) m.nextId cb) ((s.lists l).prepend m.nextId cb)
      (fun l' => upd_get _ _ _ _) (fun l' => by rw [h.nextId]; exact upd_get _ _ _ _)
      (by simp [MCfg.apply, SCfg.apply, h.nextId]) (Nat.le_succ _) rfl rfl rfl rfl
      (rep_prepend (h.rep l) cb) (fun n ok => frame0_prepend (h.rep l) ok cb)
  | insert l cb b =>
    cases hfb : m.foreign l b with
    | true => exact ⟨s, by simpa [MCfg.apply, hfb] using h, rfl⟩
    | false =>
      have hfor := foreign_eq h.nlists h.rep l b
      refine ⟨(s.apply (busyOn SFrame.isIterOn (st.map MFrame.toS)) (.insert l cb b)).1, ?_, ?_⟩
      · simp only [MCfg.apply, SCfg.apply, ← hfor, hfb, Bool.false_eq_true, ↓reduceIte]
        exact h.upd1_0 l ((m.lists l).insert (m.nextId + 1) m.nextId cb b) ((s.lists l).insert m.nextId cb b)
          (fun l' => upd_get _ _ _ _) (fun l' => by rw [h.nextId]; exact upd_get _ _ _ _)
          (by simp [h.nextId]) (Nat.le_succ _) rfl rfl rfl rfl
          (rep_insert (h.rep l) cb b) (fun n ok => frame0_insert (h.rep l) ok cb b)
      · simp only [SCfg.apply, ← hfor, hfb, Bool.false_eq_true, ↓reduceIte]
  | remove l hd => exact hgen (by simp only [MCfg.apply]; split <;> rfl)
  | owns l hd => exact hgen (by simp only [MCfg.apply]; split <;> rfl)
  | empty l => exact hgen rfl
  | invoke l a => exact hgen rfl
  | enum l a => exact hgen rfl
  | copyAssign d sr => exact hgen (by simp only [MCfg.apply]; split <;> rfl)
  | moveAssign d sr => exact hgen (by simp only [MCfg.apply]; split <;> rfl)
  | swap a b => exact hgen (by simp only [MCfg.apply]; split <;> rfl)
  | setCounter l k => exact hgen rfl

theorem sim0_deliver {m s} {below : List MFrame}
    (h : SimOn m s (below.map MFrame.shadow) (below.map MFrame.toS)) (r : Res) :
    MInvD (m.deliver r below) := by
  cases below with
  | nil => exact minvD_of h rfl rfl rfl h.stack
  | cons f rest =>
    cases f with
    | prog p => exact minvD_of h rfl rfl rfl h.stack
    | iter l n cap arg ho => exact minvD_of h rfl rfl rfl h.stack
    | wait k => exact minvD_of h rfl rfl rfl (.cons (.prog _) h.stack.tail')

theorem sim0_seekCall (beh : Beh) {m s} {below : List MFrame}
    (h : SimOn m s (below.map MFrame.shadow) (below.map MFrame.toS))
    (l : Nat) (start : Option Nat) (cap arg : Nat) (ho : Bool)
    (H : ∀ n', seek (m.lists l).heap cap (m.nextId + 1) start = some n' →
      FrameOK (m.lists l) (s.lists l) m.nextId n' 0 []) :
    MInvD (MCfg.seekCall beh m l start cap arg ho below) := by
  unfold MCfg.seekCall MCfg.fuel
  cases hs : seek (m.lists l).heap cap (m.nextId + 1) start with
  | none => exact sim0_deliver h _
  | some n' =>
    exact minvD_of h rfl rfl rfl (.cons (.prog _) (.cons (.iter _ _ _ _ _ _ (H n' hs)) h.stack))

/-- **every step keeps the invariant** — no hypothesis about wraps -/
theorem minvD_step (beh : Beh) {m m' : MCfg} (h : MInvD m) (st : MCfg.step beh m = some m') : MInvD m' := by
  obtain ⟨s, h⟩ := h
  unfold Sim0 at h
  rcases hm : m.stack with _ | ⟨f, rest⟩
  · rw [MCfg.step_nil hm] at st; cases st
  · rw [hm] at h
    simp only [List.map_cons] at h
    have hrest : SimOn m s (rest.map MFrame.shadow) (rest.map MFrame.toS) := h.sub h.stack.tail'
    cases f with
    | wait k => rw [MCfg.step_wait hm] at st; cases st
    | iter l n cap arg ho => rw [MCfg.step_iter hm] at st; cases st
    | prog p =>
      cases p with
      | ret v =>
        cases rest with
        | nil =>
          rw [MCfg.step_ret_nil hm] at st; cases st
          exact minvD_of hrest rfl rfl rfl hrest.stack
        | cons g below =>
          cases g with
          | prog q =>
            rw [MCfg.step_ret_prog hm] at st; cases st
            exact minvD_of hrest rfl rfl rfl hrest.stack
          | wait k =>
            rw [MCfg.step_ret_wait hm] at st; cases st
            exact minvD_of hrest rfl rfl rfl hrest.stack
          | iter l n cap arg ho =>
            rw [MCfg.step_ret_iter hm] at st
            have hbelow : SimOn m s (below.map MFrame.shadow) (below.map MFrame.toS) :=
              hrest.sub hrest.stack.tail'
            have ok : FrameOK (m.lists l) (s.lists l) m.nextId n 0 [] := hrest.stack.head'.iter_ok
            split at st
            · cases st; exact sim0_deliver hbelow _
            · cases st
              exact sim0_seekCall beh hbelow l _ cap arg ho (fun n' hs => frame0_step (h.rep l) ok hs)
      | op cmd k =>
        have hw : SimOn m s ((MFrame.wait k :: rest).map MFrame.shadow) ((MFrame.wait k :: rest).map MFrame.toS) :=
          hrest.sub (.cons (.wait k) hrest.stack)
        have key : (∀ l a, cmd ≠ .invoke l a) → (∀ l a, cmd ≠ .enum l a) → MInvD m' := by
          intro h1 h2
          rw [MCfg.step_op hm h1 h2] at st; cases st
          obtain ⟨s', hs', _⟩ := sim0_apply hrest cmd
          exact minvD_of (m' := m.applyStep cmd k rest) hs' rfl rfl rfl (.cons (.prog _) hs'.stack)
        cases cmd with
        | invoke l arg =>
          rw [MCfg.step_invoke hm] at st; cases st
          exact sim0_seekCall beh hw l _ _ arg false (fun n' hs => frame0_start (h.rep l) hs)
        | enum l arg =>
          rw [MCfg.step_enum hm] at st; cases st
          exact sim0_seekCall beh hw l _ _ arg true (fun n' hs => frame0_start (h.rep l) hs)
        | _ => exact key (by intros; simp) (by intros; simp)

theorem minvD_runN (beh : Beh) (n : Nat) {m : MCfg} (h : MInvD m) : MInvD (MCfg.runN beh n m).1 := by
  induction n generalizing m with
  | zero => exact h
  | succ n ih =>
    unfold MCfg.runN
    cases hm : MCfg.step beh m with
    | none => exact h
    | some m' => exact ih (minvD_step beh h hm)

/-- a world without running traversals satisfies the invariant as soon as its objects are well formed -/
theorem minvD_of_minv {m : MCfg} (h : MInv m) {p : Prog} (hst : m.stack = [.prog p]) : MInvD m := by
  refine ⟨absCfg m p, ?_⟩
  have := (sim_abs h hst).on
  unfold Sim0
  rw [hst] at this ⊢
  exact this

theorem MInvD.minv {m : MCfg} (h : MInvD m) : MInv m := by
  obtain ⟨s, h⟩ := h
  exact fun l => ⟨_, h.rep l⟩

/-- what the invariant says about one running traversal -/
theorem MInvD.frame {m : MCfg} (h : MInvD m) {l n cap arg ho} (hf : MFrame.iter l n cap arg ho ∈ m.stack) :
    ∃ SL, Rep (m.lists l) SL m.nextId ∧ FrameOK (m.lists l) SL m.nextId n 0 [] := by
  obtain ⟨s, h⟩ := h
  refine ⟨s.lists l, h.rep l, ?_⟩
  unfold Sim0 at h
  have hst := h.stack
  generalize m.stack = st at hst hf
  induction st with
  | nil => cases hf
  | cons f r ih =>
    simp only [List.map_cons] at hst
    rcases List.mem_cons.mp hf with rfl | hf
    · exact hst.head'.iter_ok
    · exact ih hst.tail' hf

end Evp
