import EventppVerif.CL.PtrLang
import EventppVerif.Generated.ClFrag
/-
  Bridge between the pointer statements regenerated from callbacklist.h (Generated/ClFrag.lean,
  terms of `PL.Stmt` with the semantics `PL.exec`) and the hand-written pointer Model
  (CL/Model.lean): for EVERY list state, executing the source statements computes exactly what
  `freeNode` / `linkBack` / `linkBefore` compute (heaps compared point-wise), without dereferencing
  null.  A change to one of the three bodies in the source changes the generated term, and these
  theorems have to be re-proved against it.
-/
namespace Evp.PL
open Evp Evp.Gen.Cl
set_option linter.unusedSimpArgs false

/-- the result of running pointer statements agrees with a Model state -/
def Agrees (s : PS) (m : CL) : Prop :=
  s.ub = false ∧ (∀ k, s.heap k = m.heap k) ∧ s.head = m.head ∧ s.tail = m.tail

/-- **`doFreeNode(node)` is `CL.freeNode`** for every state in which the node is not its own
    neighbour (true of every well-formed list: `WF.noSelf`). -/
theorem bridge_doFreeNode (fuel : Nat) (l : CL) (n : Nat)
    (hn : (l.heap n).next ≠ some n) (hp : (l.heap n).prev ≠ some n) :
    Agrees (exec fuel doFreeNode (ofCL l (some n) none)) (l.freeNode n) := by
  unfold Agrees doFreeNode CL.freeNode ofCL
  rcases hx : (l.heap n).next with _ | x <;> rcases hq : (l.heap n).prev with _ | p
  · by_cases hh : l.head = some n <;> by_cases ht : l.tail = some n <;>
      simp [exec, evalP, evalC, getFld, setFld, hx, hq, hh, ht, upd_get] <;> grind
  · have hpn : p ≠ n := by rintro rfl; exact hp hq
    have hnp : n ≠ p := Ne.symm hpn
    by_cases hh : l.head = some n <;> by_cases ht : l.tail = some n <;>
      simp [exec, evalP, evalC, getFld, setFld, hx, hq, hh, ht, upd_get, hpn, hnp] <;> grind
  · have hxn : x ≠ n := by rintro rfl; exact hn hx
    have hnx : n ≠ x := Ne.symm hxn
    by_cases hh : l.head = some n <;> by_cases ht : l.tail = some n <;>
      simp [exec, evalP, evalC, getFld, setFld, hx, hq, hh, ht, upd_get, hxn, hnx] <;> grind
  · have hpn : p ≠ n := by rintro rfl; exact hp hq
    have hnp : n ≠ p := Ne.symm hpn
    have hxn : x ≠ n := by rintro rfl; exact hn hx
    have hnx : n ≠ x := Ne.symm hxn
    by_cases hh : l.head = some n <;> by_cases ht : l.tail = some n <;>
      simp [exec, evalP, evalC, getFld, setFld, hx, hq, hh, ht, upd_get, hxn, hnx, hpn, hnp] <;> grind

/-- the list object just after `doAllocateNode`: the new node exists, unlinked -/
def allocated (l : CL) (id : Nat) (cb : Cb) (c : Nat) : CL :=
  { l with heap := upd l.heap id ⟨none, none, cb, c⟩ }

/-- **`doAppend(node)` is `CL.linkBack`** for every state whose `tail` is set when `head` is (and is
    not the new node). -/
theorem bridge_doAppend (fuel : Nat) (l : CL) (id : Nat) (cb : Cb) (c : Nat)
    (ht : l.head.isSome → ∃ t, l.tail = some t ∧ t ≠ id) :
    Agrees (exec fuel doAppend (ofCL (allocated l id cb c) (some id) none)) (l.linkBack id cb c) := by
  unfold Agrees doAppend CL.linkBack ofCL allocated
  rcases hh : l.head with _ | hd
  · simp [exec, evalP, evalC, getFld, setFld, hh, upd_get]
  · obtain ⟨t, htl, hne⟩ := ht (by simp [hh])
    have hne' : id ≠ t := Ne.symm hne
    simp [exec, evalP, evalC, getFld, setFld, hh, htl, upd_get, hne, hne']
    intro k
    by_cases h1 : k = t <;> by_cases h2 : k = id <;> simp_all

/-- **`doInsert(node, beforeNode)` is `CL.linkBefore`** for every state (the new node is not the
    `before` node). -/
theorem bridge_doInsert (fuel : Nat) (l : CL) (id : Nat) (cb : Cb) (c : Nat) (b : Nat) (hb : b ≠ id) :
    Agrees (exec fuel doInsert (ofCL (allocated l id cb c) (some id) (some b))) (l.linkBefore id cb c b) := by
  unfold Agrees doInsert CL.linkBefore ofCL allocated
  have hb' : id ≠ b := Ne.symm hb
  rcases hq : (l.heap b).prev with _ | p <;> rcases hhd : l.head with _ | hd
  · simp [exec, evalP, evalC, getFld, setFld, hq, hhd, upd_get, hb, hb']
    grind
  · by_cases hdb : hd = b
    · subst hdb
      simp [exec, evalP, evalC, getFld, setFld, hq, hhd, upd_get, hb, hb']
      grind
    · have hdb' : b ≠ hd := Ne.symm hdb
      simp [exec, evalP, evalC, getFld, setFld, hq, hhd, upd_get, hb, hb', hdb, hdb']
      grind
  · simp [exec, evalP, evalC, getFld, setFld, hq, hhd, upd_get, hb, hb']
    grind
  · by_cases hdb : hd = b
    · subst hdb
      simp [exec, evalP, evalC, getFld, setFld, hq, hhd, upd_get, hb, hb']
      grind
    · have hdb' : b ≠ hd := Ne.symm hdb
      simp [exec, evalP, evalC, getFld, setFld, hq, hhd, upd_get, hb, hb', hdb, hdb']
      grind

/-- the reset loop `while(node) { node->counter = 1; node = node->next; }` is `setOnes` -/
theorem iter_setOnes (F : Nat) : ∀ (fuel : Nat) (h : Heap) (o hd tl v1 : Option Nat),
    let s := iter (exec F (.seq (.setCounter (.var 0) 1) (.assign (.var 0) (.fld (.var 0) .next))))
      (fun s => (evalP s (.var 0)).1.isSome) fuel ⟨h, hd, tl, o, v1, false⟩
    s.heap = setOnes h fuel o ∧ s.head = hd ∧ s.tail = tl ∧ s.ub = false := by
  intro fuel
  induction fuel with
  | zero => intro h o hd tl v1; simp [iter, setOnes]
  | succ f ih =>
    intro h o hd tl v1
    cases o with
    | none => simp [iter, setOnes, evalP]
    | some n =>
      have := ih (upd h n { h n with counter := 1 }) (h n).next hd tl v1
      simpa [iter, setOnes, evalP, exec, getFld, upd_get] using this

/-- **the wrap branch of `getNextCounter` (source) is `setOnes` (Model)**: for every list state and
    every walk bound, the reset loop leaves exactly the heap `setOnes l.heap fuel l.head`, and `head`,
    `tail` untouched, without dereferencing null. -/
theorem bridge_wrapReset (fuel : Nat) (l : CL) :
    let s := exec fuel wrapReset (ofCL l none none)
    s.heap = setOnes l.heap fuel l.head ∧ s.head = l.head ∧ s.tail = l.tail ∧ s.ub = false := by
  have := iter_setOnes fuel fuel l.heap l.head l.head l.tail none
  simpa [wrapReset, exec, ofCL, evalP] using this

/-- the regenerated traversal test is the Model's `guard` -/
theorem bridge_guard (nc cap : Nat) : Gen.Cl.guard nc cap = Evp.guard nc cap := rfl

/-- the regenerated `remove()` test is the Model's: act only on a node that is still in the list
    (a handle that does not lock denotes a node whose counter is `removedCounter` in the Model) -/
theorem bridge_removeTest (l : CL) (h : Hd) :
    (l.remove h).2 = removeTest true ((l.heap h).counter) := by
  unfold CL.remove removeTest
  by_cases hc : (l.heap h).counter = 0 <;> simp [hc]

end Evp.PL
