import EventppVerif.CL.Model
/-
  A tiny language for the straight-line pointer code of callbacklist.h (`doAppend`, `doInsert`,
  `doFreeNode`): paths (`head`, `tail`, a local node pointer, `p->previous`, `p->next`),
  assignments between paths, counter writes (`p->counter = removedCounter`, `= 1`), `if` over
  "non-null" and pointer equality, `while(p)`.  `tools/translate.py` parses the bodies of those functions from the source on
  every run into terms of `Stmt` (Generated/ClFrag.lean); `exec` is their meaning on the same heap
  the hand-written Model uses; CL/PtrBridge.lean proves that the Model's `linkBack` / `linkBefore` /
  `freeNode` are exactly what the source statements compute.
-/
namespace Evp.PL
open Evp

inductive Fld | prev | next
deriving DecidableEq, Repr

inductive Path
  | head
  | tail
  /-- local pointer variables: 0 = `node`, 1 = `beforeNode` -/
  | var (i : Nat)
  | fld (p : Path) (f : Fld)
deriving DecidableEq, Repr

inductive Cond
  | nonnull (p : Path)
  | eq (a b : Path)
deriving DecidableEq, Repr

inductive Stmt
  | skip
  | assign (lhs rhs : Path)
  /-- `p->counter = v` (`removedCounter` is 0) -/
  | setCounter (p : Path) (v : Nat)
  | seq (a b : Stmt)
  | ite (c : Cond) (t e : Stmt)
  /-- `while(p) { body }` -/
  | whileNN (p : Path) (body : Stmt)
deriving DecidableEq, Repr

structure PS where
  heap : Heap := {}
  head : Option Nat := none
  tail : Option Nat := none
  v0 : Option Nat := none
  v1 : Option Nat := none
  /-- a null pointer was dereferenced -/
  ub : Bool := false

def getFld (nd : Node) : Fld → Option Nat
  | .prev => nd.prev
  | .next => nd.next

def setFld (nd : Node) (f : Fld) (v : Option Nat) : Node :=
  match f with
  | .prev => { nd with prev := v }
  | .next => { nd with next := v }

/-- value of a path and whether evaluating it dereferenced null -/
def evalP (s : PS) : Path → Option Nat × Bool
  | .head => (s.head, false)
  | .tail => (s.tail, false)
  | .var 0 => (s.v0, false)
  | .var _ => (s.v1, false)
  | .fld p f =>
    match evalP s p with
    | (some n, u) => (getFld (s.heap n) f, u)
    | (none, _) => (none, true)

def evalC (s : PS) : Cond → Bool × Bool
  | .nonnull p => ((evalP s p).1.isSome, (evalP s p).2)
  | .eq a b => (decide ((evalP s a).1 = (evalP s b).1), (evalP s a).2 || (evalP s b).2)

/-- `while(cond) f`, at most `fuel` iterations -/
def iter (f : PS → PS) (cond : PS → Bool) : Nat → PS → PS
  | 0, s => s
  | n + 1, s => if cond s then iter f cond n (f s) else s

/-- meaning of a statement; `fuel` bounds every loop (the bridge theorems show it is the walk bound
    the Model uses) -/
def exec (fuel : Nat) : Stmt → PS → PS
  | .skip => fun s => s
  | .assign lhs rhs => fun s =>
    let (v, u) := evalP s rhs
    let s := { s with ub := s.ub || u }
    (match lhs with
    | .head => { s with head := v }
    | .tail => { s with tail := v }
    | .var 0 => { s with v0 := v }
    | .var _ => { s with v1 := v }
    | .fld p f =>
      match evalP s p with
      | (some n, u2) => { s with heap := upd s.heap n (setFld (s.heap n) f v), ub := s.ub || u2 }
      | (none, _) => { s with ub := true })
  | .setCounter p v => fun s =>
    (match evalP s p with
    | (some n, u) => { s with heap := upd s.heap n { s.heap n with counter := v }, ub := s.ub || u }
    | (none, _) => { s with ub := true })
  | .seq a b => fun s => exec fuel b (exec fuel a s)
  | .ite c t e => fun s =>
    let (v, u) := evalC s c
    let s := { s with ub := s.ub || u }
    if v then exec fuel t s else exec fuel e s
  | .whileNN p body => fun s => iter (exec fuel body) (fun s => (evalP s p).1.isSome) fuel s

/-- the pointer state of a list object with the local variables set -/
def ofCL (l : CL) (v0 v1 : Option Nat) : PS :=
  { heap := l.heap, head := l.head, tail := l.tail, v0 := v0, v1 := v1, ub := false }

end Evp.PL
