import EventppVerif.CL.Model
/-
  Pointer segments: `Seg f h o xs e` — starting from the pointer value `o` and following the
  field `f` (`next` or `prev`) through heap `h` visits exactly the nodes `xs` and then holds `e`.
  Helper lemmas only (no property statements here).
-/
namespace Evp

def Seg (f : Node → Option Nat) (h : Heap) : Option Nat → List Nat → Option Nat → Prop
  | o, [], e => o = e
  | o, a :: r, e => o = some a ∧ Seg f h (f (h a)) r e

abbrev nextF : Node → Option Nat := Node.next
abbrev prevF : Node → Option Nat := Node.prev

theorem seg_nil {f h o e} : Seg f h o [] e ↔ o = e := Iff.rfl

theorem seg_cons {f h o a r e} : Seg f h o (a :: r) e ↔ o = some a ∧ Seg f h (f (h a)) r e := Iff.rfl

theorem seg_append {f h} : ∀ {xs ys o e}, Seg f h o (xs ++ ys) e ↔ ∃ m, Seg f h o xs m ∧ Seg f h m ys e
  | [], ys, o, e => by simp [Seg]
  | a :: r, ys, o, e => by
    simp only [List.cons_append, Seg]
    constructor
    · rintro ⟨h1, h2⟩
      obtain ⟨m, hm1, hm2⟩ := seg_append.mp h2
      exact ⟨m, ⟨h1, hm1⟩, hm2⟩
    · rintro ⟨m, ⟨h1, hm1⟩, hm2⟩
      exact ⟨h1, seg_append.mpr ⟨m, hm1, hm2⟩⟩

/-- the start pointer of a non-empty segment -/
theorem seg_head {f h o xs e} (hs : Seg f h o xs e) (hne : xs ≠ []) : o = xs.head? := by
  cases xs with
  | nil => exact absurd rfl hne
  | cons a r => simp [Seg] at hs; simp [hs.1]

/-- a segment only reads the nodes it visits -/
theorem seg_congr {f h h'} : ∀ {xs o e}, (∀ a ∈ xs, f (h' a) = f (h a)) → (Seg f h' o xs e ↔ Seg f h o xs e)
  | [], o, e, _ => by simp [Seg]
  | a :: r, o, e, hh => by
    simp only [Seg]
    rw [hh a (by simp)]
    rw [seg_congr (xs := r) (fun b hb => hh b (by simp [hb]))]

theorem seg_upd_notin {f h a v xs o e} (hn : a ∉ xs) : Seg f (upd h a v) o xs e ↔ Seg f h o xs e :=
  seg_congr (fun b hb => by
    have : b ≠ a := fun hba => hn (hba ▸ hb)
    simp [this])

/-- the segment is determined by its start: two segments from the same start to `none` coincide -/
theorem seg_unique {f h} : ∀ {xs ys o}, Seg f h o xs none → Seg f h o ys none → xs = ys
  | [], [], _, _, _ => rfl
  | [], b :: s, o, h1, h2 => by simp [Seg] at h1 h2; simp [h1] at h2
  | a :: r, [], o, h1, h2 => by simp [Seg] at h1 h2; simp [h2] at h1
  | a :: r, b :: s, o, h1, h2 => by
    simp only [Seg] at h1 h2
    have hab : a = b := by
      have := h1.1.symm.trans h2.1
      exact Option.some.inj this
    subst hab
    rw [seg_unique h1.2 h2.2]

/-- last element's field is the end pointer -/
theorem seg_last {f h} : ∀ {xs o e a}, Seg f h o (xs ++ [a]) e → f (h a) = e := by
  intro xs o e a hs
  obtain ⟨m, _, h2⟩ := seg_append.mp hs
  simp [Seg] at h2
  exact h2.2

theorem seg_mem_field {f h} : ∀ {xs o e a b r}, Seg f h o (xs ++ a :: b :: r) e → f (h a) = some b := by
  intro xs o e a b r hs
  obtain ⟨m, _, h2⟩ := seg_append.mp hs
  simp [Seg] at h2
  exact h2.2.1

/-- `chainOf` with enough fuel computes the segment -/
theorem chainOf_seg {h : Heap} : ∀ {xs o fuel}, Seg nextF h o xs none → xs.length < fuel → chainOf h fuel o = xs
  | [], o, fuel, hs, hl => by
    simp [Seg] at hs; subst hs
    cases fuel <;> simp [chainOf]
  | a :: r, o, fuel, hs, hl => by
    simp only [Seg] at hs
    obtain ⟨rfl, hr⟩ := hs
    cases fuel with
    | zero => simp at hl
    | succ k =>
      simp only [chainOf]
      rw [chainOf_seg hr (by simpa using hl)]

/-- `seek` with enough fuel finds the first node of the segment that passes the guard -/
theorem seek_seg {h : Heap} {cap : Nat} : ∀ {xs o fuel}, Seg nextF h o xs none → xs.length < fuel →
    seek h cap fuel o = xs.find? (fun n => guard (h n).counter cap)
  | [], o, fuel, hs, hl => by
    simp [Seg] at hs; subst hs
    cases fuel <;> simp [seek]
  | a :: r, o, fuel, hs, hl => by
    simp only [Seg] at hs
    obtain ⟨rfl, hr⟩ := hs
    cases fuel with
    | zero => simp at hl
    | succ k =>
      simp only [seek, List.find?]
      split
      · simp [*]
      · rename_i hg
        simp [hg]
        exact seek_seg hr (by simpa using hl)

/-- `walkPrev` with enough fuel reaches the last node of a `prev` segment -/
theorem walkPrev_seg {h : Heap} : ∀ {xs n fuel z}, Seg prevF h (some n) (xs ++ [z]) none → xs.length < fuel →
    walkPrev h fuel n = z
  | [], n, fuel, z, hs, hl => by
    simp [Seg] at hs
    obtain ⟨rfl, hz⟩ := hs
    cases fuel with
    | zero => simp at hl
    | succ k => simp [walkPrev, hz]
  | a :: r, n, fuel, z, hs, hl => by
    simp only [List.cons_append, Seg] at hs
    obtain ⟨h1, hr⟩ := hs
    have : n = a := Option.some.inj h1
    subst this
    cases fuel with
    | zero => simp at hl
    | succ k =>
      have hne : r ++ [z] ≠ [] := by simp
      have hhd := seg_head hr hne
      obtain ⟨b, hb⟩ : ∃ b, (r ++ [z]).head? = some b := by
        cases r <;> simp
      rw [hb] at hhd
      have hhd' : (h n).prev = some b := hhd
      simp only [walkPrev, hhd']
      rw [hhd] at hr
      exact walkPrev_seg hr (by simp at hl; omega)

end Evp
