import EventppVerif.CL.OpLemmas
import EventppVerif.CL.Machine
/-
  The simulation between the Model machine and the Spec machine (helper level; the property
  theorems that package it are in Properties/C01.lean, C02.lean, C19.lean).
-/
namespace Evp

/-- frames correspond one by one -/
inductive FrameSim (m : MCfg) (s : SCfg) : MFrame → SFrame → Prop
  | prog (p : Prog) : FrameSim m s (.prog p) (.prog p)
  | wait (k : Res → Prog) : FrameSim m s (.wait k) (.wait k)
  | iter (l n cap arg : Nat) (honour : Bool) (rest : List Entry)
      (ok : FrameOK (m.lists l) (s.lists l) m.nextId n cap rest) :
      FrameSim m s (.iter l n cap arg honour) (.iter l rest arg honour)

inductive StackSim (m : MCfg) (s : SCfg) : List MFrame → List SFrame → Prop
  | nil : StackSim m s [] []
  | cons {a b as bs} : FrameSim m s a b → StackSim m s as bs → StackSim m s (a :: as) (b :: bs)

/-- the simulation relation -/
structure Sim (m : MCfg) (s : SCfg) : Prop where
  nextId : m.nextId = s.nextId
  nlists : m.nlists = s.nlists
  trace : m.trace = s.trace
  rep : ∀ l, Rep (m.lists l) (s.lists l) m.nextId
  stack : StackSim m s m.stack s.stack

/-- every list object of the world is well formed (represents *some* list) -/
def MInv (m : MCfg) : Prop := ∀ l, ∃ SL, Rep (m.lists l) SL m.nextId

/-! ### inversion of the stack relation -/

theorem StackSim.nil_inv {m s ss} (h : StackSim m s [] ss) : ss = [] := by
  cases h; rfl

theorem StackSim.cons_inv {m s a as ss} (h : StackSim m s (a :: as) ss) :
    ∃ b bs, ss = b :: bs ∧ FrameSim m s a b ∧ StackSim m s as bs := by
  cases h with
  | cons hf ht => exact ⟨_, _, rfl, hf, ht⟩

theorem FrameSim.prog_inv {m s p b} (h : FrameSim m s (.prog p) b) : b = .prog p := by
  cases h; rfl

theorem FrameSim.wait_inv {m s k b} (h : FrameSim m s (.wait k) b) : b = .wait k := by
  cases h; rfl

theorem FrameSim.iter_inv {m s l n cap arg honour b} (h : FrameSim m s (.iter l n cap arg honour) b) :
    ∃ rest, b = .iter l rest arg honour ∧ FrameOK (m.lists l) (s.lists l) m.nextId n cap rest := by
  cases h with
  | iter _ _ _ _ _ rest ok => exact ⟨rest, rfl, ok⟩

theorem StackSim.length_eq {m s ms ss} (h : StackSim m s ms ss) : ms.length = ss.length := by
  induction h with
  | nil => rfl
  | cons _ _ ih => simp [ih]

theorem StackSim.isEmpty_eq {m s ms ss} (h : StackSim m s ms ss) : ms.isEmpty = ss.isEmpty := by
  cases h <;> rfl

/-- the stack relation reads the configurations only through the list objects that have a
    running traversal, and the id bound -/
theorem StackSim.transport {m s m' s'} {ms ss} (h : StackSim m s ms ss)
    (H : ∀ l n cap rest, busyOn MFrame.isIterOn ms l = true →
      FrameOK (m.lists l) (s.lists l) m.nextId n cap rest →
      FrameOK (m'.lists l) (s'.lists l) m'.nextId n cap rest) :
    StackSim m' s' ms ss := by
  induction h with
  | nil => exact .nil
  | cons hf _ ih =>
    refine .cons ?_ (ih ?_)
    · cases hf with
      | prog p => exact .prog p
      | wait k => exact .wait k
      | iter l n cap arg honour rest ok =>
        exact .iter _ _ _ _ _ _ (H l n cap rest (by simp [busyOn, MFrame.isIterOn]) ok)
    · intro l n cap rest hb
      exact H l n cap rest (by simp only [busyOn, List.any_cons] at hb ⊢; simp [hb])

theorem StackSim.congr {m s m' s'} {ms ss} (h : StackSim m s ms ss)
    (hl : m'.lists = m.lists) (hsl : s'.lists = s.lists) (hn : m'.nextId = m.nextId) :
    StackSim m' s' ms ss :=
  h.transport (fun l n cap rest _ ok => by rw [hl, hsl, hn]; exact ok)

theorem StackSim.busyOn_eq {m s ms ss} (h : StackSim m s ms ss) (l : Nat) :
    busyOn MFrame.isIterOn ms l = busyOn SFrame.isIterOn ss l := by
  induction h with
  | nil => rfl
  | cons hf _ ih =>
    simp only [busyOn, List.any_cons] at ih ⊢
    rw [ih]
    cases hf <;> simp [MFrame.isIterOn, SFrame.isIterOn]

theorem foreign_eq {m : MCfg} {s : SCfg} (nl : m.nlists = s.nlists)
    (rep : ∀ l, Rep (m.lists l) (s.lists l) m.nextId) (l : Nat) (h : Hd) :
    m.foreign l h = s.foreign l h := by
  unfold MCfg.foreign SCfg.foreign
  rw [nl]
  congr 1
  funext l'
  have := rep_present (rep l') h
  rw [← this]
  generalize ((m.lists l').heap h).counter = c
  cases c <;> simp

/-- the simulation relation with the stacks as parameters -/
structure SimOn (m : MCfg) (s : SCfg) (ms : List MFrame) (ss : List SFrame) : Prop where
  nextId : m.nextId = s.nextId
  nlists : m.nlists = s.nlists
  trace : m.trace = s.trace
  rep : ∀ l, Rep (m.lists l) (s.lists l) m.nextId
  stack : StackSim m s ms ss

theorem Sim.on {m s} (h : Sim m s) : SimOn m s m.stack s.stack := ⟨h.1, h.2, h.3, h.4, h.5⟩

theorem SimOn.sub {m s ms ss ms' ss'} (h : SimOn m s ms ss) (h' : StackSim m s ms' ss') :
    SimOn m s ms' ss' := ⟨h.1, h.2, h.3, h.4, h'⟩

/-- a new configuration with the same list objects -/
theorem SimOn.toSim {m s ms ss} (h : SimOn m s ms ss) {m' : MCfg} {s' : SCfg}
    (hl : m'.lists = m.lists) (hsl : s'.lists = s.lists)
    (hn : m'.nextId = m.nextId) (hsn : s'.nextId = s.nextId)
    (nl : m'.nlists = m.nlists) (snl : s'.nlists = s.nlists)
    (tr : m'.trace = s'.trace) (hst : StackSim m s m'.stack s'.stack) : Sim m' s' where
  nextId := by rw [hn, hsn]; exact h.nextId
  nlists := by rw [nl, snl]; exact h.nlists
  trace := tr
  rep := fun l => by rw [hl, hsl, hn]; exact h.rep l
  stack := hst.congr hl hsl hn

/-! ### what `deliver` and `seekCall` leave alone -/

namespace MCfg
@[simp] theorem deliver_lists (c : MCfg) (r st) : (c.deliver r st).lists = c.lists := by
  unfold deliver; split <;> rfl
@[simp] theorem deliver_nextId (c : MCfg) (r st) : (c.deliver r st).nextId = c.nextId := by
  unfold deliver; split <;> rfl
@[simp] theorem deliver_nlists (c : MCfg) (r st) : (c.deliver r st).nlists = c.nlists := by
  unfold deliver; split <;> rfl
@[simp] theorem deliver_wraps (c : MCfg) (r st) : (c.deliver r st).wraps = c.wraps := by
  unfold deliver; split <;> rfl
@[simp] theorem seekCall_lists (beh) (c : MCfg) (l st cap arg ho bl) :
    (seekCall beh c l st cap arg ho bl).lists = c.lists := by
  unfold seekCall; split <;> simp
@[simp] theorem seekCall_nextId (beh) (c : MCfg) (l st cap arg ho bl) :
    (seekCall beh c l st cap arg ho bl).nextId = c.nextId := by
  unfold seekCall; split <;> simp
@[simp] theorem seekCall_nlists (beh) (c : MCfg) (l st cap arg ho bl) :
    (seekCall beh c l st cap arg ho bl).nlists = c.nlists := by
  unfold seekCall; split <;> simp
@[simp] theorem seekCall_wraps (beh) (c : MCfg) (l st cap arg ho bl) :
    (seekCall beh c l st cap arg ho bl).wraps = c.wraps := by
  unfold seekCall; split <;> simp

/-- the shape of a command step -/
def applyStep (c : MCfg) (cmd : Cmd) (k : Res → Prog) (rest : List MFrame) : MCfg :=
  { (c.apply (busyOn MFrame.isIterOn rest) cmd).1 with
    stack := .prog (k (c.apply (busyOn MFrame.isIterOn rest) cmd).2) :: rest
    trace := .res (c.apply (busyOn MFrame.isIterOn rest) cmd).2 ::
      (c.apply (busyOn MFrame.isIterOn rest) cmd).1.trace }

theorem step_nil {beh} {c : MCfg} (h : c.stack = []) : step beh c = none := by
  unfold step; rw [h]
theorem step_wait {beh} {c : MCfg} {k rest} (h : c.stack = .wait k :: rest) : step beh c = none := by
  unfold step; rw [h]
theorem step_iter {beh} {c : MCfg} {l n cap arg ho rest} (h : c.stack = .iter l n cap arg ho :: rest) :
    step beh c = none := by
  unfold step; rw [h]
theorem step_ret_iter {beh} {c : MCfg} {v l n cap arg honour below}
    (h : c.stack = .prog (.ret v) :: .iter l n cap arg honour :: below) :
    step beh c = if honour && !v then some (c.deliver (finishRes honour false) below)
      else some (seekCall beh c l ((c.lists l).heap n).next cap arg honour below) := by
  unfold step; rw [h]
theorem step_ret_nil {beh} {c : MCfg} {v} (h : c.stack = [.prog (.ret v)]) :
    step beh c = some { c with stack := [] } := by
  unfold step; rw [h]
theorem step_ret_prog {beh} {c : MCfg} {v p rest} (h : c.stack = .prog (.ret v) :: .prog p :: rest) :
    step beh c = some { c with stack := .prog p :: rest } := by
  unfold step; rw [h]
theorem step_ret_wait {beh} {c : MCfg} {v k rest} (h : c.stack = .prog (.ret v) :: .wait k :: rest) :
    step beh c = some { c with stack := .wait k :: rest } := by
  unfold step; rw [h]
theorem step_invoke {beh} {c : MCfg} {l arg k rest} (h : c.stack = .prog (.op (.invoke l arg) k) :: rest) :
    step beh c = some (seekCall beh c l (c.lists l).head (c.lists l).cur arg false (.wait k :: rest)) := by
  unfold step; rw [h]
theorem step_enum {beh} {c : MCfg} {l arg k rest} (h : c.stack = .prog (.op (.enum l arg) k) :: rest) :
    step beh c = some (seekCall beh c l (c.lists l).head (c.lists l).cur arg true (.wait k :: rest)) := by
  unfold step; rw [h]
theorem step_op {beh} {c : MCfg} {cmd k rest} (h : c.stack = .prog (.op cmd k) :: rest)
    (h1 : ∀ l a, cmd ≠ .invoke l a) (h2 : ∀ l a, cmd ≠ .enum l a) :
    step beh c = some (c.applyStep cmd k rest) := by
  unfold step; rw [h]
  cases cmd <;> first | rfl | exact absurd rfl (h1 _ _) | exact absurd rfl (h2 _ _)
end MCfg

namespace SCfg
@[simp] theorem deliver_lists (c : SCfg) (r st) : (c.deliver r st).lists = c.lists := by
  unfold deliver; split <;> rfl
@[simp] theorem deliver_nextId (c : SCfg) (r st) : (c.deliver r st).nextId = c.nextId := by
  unfold deliver; split <;> rfl
@[simp] theorem deliver_nlists (c : SCfg) (r st) : (c.deliver r st).nlists = c.nlists := by
  unfold deliver; split <;> rfl
@[simp] theorem seekCall_lists (beh) (c : SCfg) (l snap arg ho bl) :
    (seekCall beh c l snap arg ho bl).lists = c.lists := by
  unfold seekCall; split <;> simp
@[simp] theorem seekCall_nextId (beh) (c : SCfg) (l snap arg ho bl) :
    (seekCall beh c l snap arg ho bl).nextId = c.nextId := by
  unfold seekCall; split <;> simp
@[simp] theorem seekCall_nlists (beh) (c : SCfg) (l snap arg ho bl) :
    (seekCall beh c l snap arg ho bl).nlists = c.nlists := by
  unfold seekCall; split <;> simp

def applyStep (c : SCfg) (cmd : Cmd) (k : Res → Prog) (rest : List SFrame) : SCfg :=
  { (c.apply (busyOn SFrame.isIterOn rest) cmd).1 with
    stack := .prog (k (c.apply (busyOn SFrame.isIterOn rest) cmd).2) :: rest
    trace := .res (c.apply (busyOn SFrame.isIterOn rest) cmd).2 ::
      (c.apply (busyOn SFrame.isIterOn rest) cmd).1.trace }

theorem step_nil {beh} {c : SCfg} (h : c.stack = []) : step beh c = none := by
  unfold step; rw [h]
theorem step_wait {beh} {c : SCfg} {k rest} (h : c.stack = .wait k :: rest) : step beh c = none := by
  unfold step; rw [h]
theorem step_iter {beh} {c : SCfg} {l sn arg ho rest} (h : c.stack = .iter l sn arg ho :: rest) :
    step beh c = none := by
  unfold step; rw [h]
theorem step_ret_iter {beh} {c : SCfg} {v l snap arg honour below}
    (h : c.stack = .prog (.ret v) :: .iter l snap arg honour :: below) :
    step beh c = if honour && !v then some (c.deliver (MCfg.finishRes honour false) below)
      else some (seekCall beh c l snap arg honour below) := by
  unfold step; rw [h]
theorem step_ret_nil {beh} {c : SCfg} {v} (h : c.stack = [.prog (.ret v)]) :
    step beh c = some { c with stack := [] } := by
  unfold step; rw [h]
theorem step_ret_prog {beh} {c : SCfg} {v p rest} (h : c.stack = .prog (.ret v) :: .prog p :: rest) :
    step beh c = some { c with stack := .prog p :: rest } := by
  unfold step; rw [h]
theorem step_ret_wait {beh} {c : SCfg} {v k rest} (h : c.stack = .prog (.ret v) :: .wait k :: rest) :
    step beh c = some { c with stack := .wait k :: rest } := by
  unfold step; rw [h]
theorem step_invoke {beh} {c : SCfg} {l arg k rest} (h : c.stack = .prog (.op (.invoke l arg) k) :: rest) :
    step beh c = some (seekCall beh c l (c.lists l) arg false (.wait k :: rest)) := by
  unfold step; rw [h]
theorem step_enum {beh} {c : SCfg} {l arg k rest} (h : c.stack = .prog (.op (.enum l arg) k) :: rest) :
    step beh c = some (seekCall beh c l (c.lists l) arg true (.wait k :: rest)) := by
  unfold step; rw [h]
theorem step_op {beh} {c : SCfg} {cmd k rest} (h : c.stack = .prog (.op cmd k) :: rest)
    (h1 : ∀ l a, cmd ≠ .invoke l a) (h2 : ∀ l a, cmd ≠ .enum l a) :
    step beh c = some (c.applyStep cmd k rest) := by
  unfold step; rw [h]
  cases cmd <;> first | rfl | exact absurd rfl (h1 _ _) | exact absurd rfl (h2 _ _)
end SCfg

/-! ### traversal steps -/

theorem sim_deliver {m s below sbelow} (h : SimOn m s below sbelow) (r : Res) :
    Sim (m.deliver r below) (s.deliver r sbelow) := by
  have hst := h.stack
  cases hst with
  | nil => exact h.toSim rfl rfl rfl rfl rfl rfl h.trace .nil
  | cons hf ht =>
    cases hf with
    | prog p => exact h.toSim rfl rfl rfl rfl rfl rfl h.trace (.cons (.prog p) ht)
    | wait k =>
      exact h.toSim rfl rfl rfl rfl rfl rfl (by simp [MCfg.deliver, SCfg.deliver, h.trace])
        (.cons (.prog _) ht)
    | iter l n cap arg honour rest ok =>
      exact h.toSim rfl rfl rfl rfl rfl rfl h.trace (.cons (.iter _ _ _ _ _ _ ok) ht)

theorem sim_seekCall (beh : Beh) {m s below sbelow} (h : SimOn m s below sbelow)
    (l : Nat) (start : Option Nat) (cap arg : Nat) (honour : Bool) (snap : List Entry)
    (H : match snap.dropWhile (fun e => !(s.lists l).present e.id) with
      | [] => seek (m.lists l).heap cap (m.nextId + 1) start = none
      | e :: es => seek (m.lists l).heap cap (m.nextId + 1) start = some e.id ∧
          ((m.lists l).heap e.id).cb = e.cb ∧
          FrameOK (m.lists l) (s.lists l) m.nextId e.id cap es) :
    Sim (MCfg.seekCall beh m l start cap arg honour below)
      (SCfg.seekCall beh s l snap arg honour sbelow) := by
  unfold MCfg.seekCall SCfg.seekCall MCfg.fuel
  cases hd : snap.dropWhile (fun e => !(s.lists l).present e.id) with
  | nil =>
    rw [hd] at H
    simp only [H]
    exact sim_deliver h _
  | cons e es =>
    rw [hd] at H
    obtain ⟨h1, h2, h3⟩ := H
    simp only [h1, h2]
    refine h.toSim rfl rfl rfl rfl rfl rfl ?_ ?_
    · simp [h.trace]
    · show StackSim m s (_ :: _ :: below) (_ :: _ :: sbelow)
      rw [h.trace]
      exact .cons (.prog _) (.cons (.iter _ _ _ _ _ _ h3) h.stack)

/-! ### commands -/

theorem SimOn.update {m s ms ss} (h : SimOn m s ms ss) {m' : MCfg} {s' : SCfg}
    (hn : m'.nextId = s'.nextId)
    (nl : m'.nlists = m.nlists) (snl : s'.nlists = s.nlists)
    (tr : m'.trace = m.trace) (str : s'.trace = s.trace)
    (hr : ∀ l, Rep (m'.lists l) (s'.lists l) m'.nextId)
    (hf : ∀ l n cap rest, busyOn MFrame.isIterOn ms l = true →
      FrameOK (m.lists l) (s.lists l) m.nextId n cap rest →
      FrameOK (m'.lists l) (s'.lists l) m'.nextId n cap rest) : SimOn m' s' ms ss where
  nextId := hn
  nlists := by rw [nl, snl]; exact h.nlists
  trace := by rw [tr, str]; exact h.trace
  rep := hr
  stack := h.stack.transport hf

/-- only list `l` changes -/
theorem SimOn.upd1 {m s ms ss} (h : SimOn m s ms ss) {m' : MCfg} {s' : SCfg} (l : Nat) (x : CL) (y : SList)
    (hml : ∀ l', m'.lists l' = if l' = l then x else m.lists l')
    (hsl : ∀ l', s'.lists l' = if l' = l then y else s.lists l')
    (hn : m'.nextId = s'.nextId) (hb : m.nextId ≤ m'.nextId)
    (nl : m'.nlists = m.nlists) (snl : s'.nlists = s.nlists)
    (tr : m'.trace = m.trace) (str : s'.trace = s.trace)
    (hr : Rep x y m'.nextId)
    (hf : ∀ n cap rest, busyOn MFrame.isIterOn ms l = true →
      FrameOK (m.lists l) (s.lists l) m.nextId n cap rest → FrameOK x y m'.nextId n cap rest) :
    SimOn m' s' ms ss := by
  refine h.update hn nl snl tr str ?_ ?_
  · intro l'
    rw [hml, hsl]
    split
    · exact hr
    · exact (h.rep l').mono hb
  · intro l' n cap rest hbusy ok
    rw [hml, hsl]
    split
    · next e => subst e; exact hf n cap rest hbusy ok
    · exact ok.mono hb

/-- the statement about one command -/
def ApplyGoal (m : MCfg) (s : SCfg) (ms : List MFrame) (ss : List SFrame) (cmd : Cmd) : Prop :=
  (m.apply (busyOn MFrame.isIterOn ms) cmd).2 = (s.apply (busyOn SFrame.isIterOn ss) cmd).2 ∧
  ((m.apply (busyOn MFrame.isIterOn ms) cmd).1.wraps = m.wraps →
    SimOn (m.apply (busyOn MFrame.isIterOn ms) cmd).1 (s.apply (busyOn SFrame.isIterOn ss) cmd).1 ms ss)

theorem willWrap_of_wraps {w : Nat} {b : Bool} (h : w + (if b = true then 1 else 0) = w) : b = false := by
  cases b <;> simp_all

theorem sim_apply_append {m s ms ss} (h : SimOn m s ms ss) (l : Nat) (cb : Cb) :
    ApplyGoal m s ms ss (.append l cb) := by
  refine ⟨by simp [MCfg.apply, SCfg.apply, h.nextId], fun hw => ?_⟩
  have nw : (m.lists l).willWrap = false := willWrap_of_wraps hw
  refine h.upd1 l ((m.lists l).append (m.nextId + 1) m.nextId cb) ((s.lists l).append m.nextId cb)
    (fun l' => upd_get _ _ _ _) (fun l' => by rw [h.nextId]; exact upd_get _ _ _ _)
    (by simp [MCfg.apply, SCfg.apply, h.nextId]) (Nat.le_succ _) rfl rfl rfl rfl
    (rep_append (h.rep l) cb) (fun n cap rest _ ok => frame_append (h.rep l) ok nw cb)

theorem sim_apply_prepend {m s ms ss} (h : SimOn m s ms ss) (l : Nat) (cb : Cb) :
    ApplyGoal m s ms ss (.prepend l cb) := by
  refine ⟨by simp [MCfg.apply, SCfg.apply, h.nextId], fun hw => ?_⟩
  have nw : (m.lists l).willWrap = false := willWrap_of_wraps hw
  refine h.upd1 l ((m.lists l).prepend (m.nextId + 1) m.nextId cb) ((s.lists l).prepend m.nextId cb)
    (fun l' => upd_get _ _ _ _) (fun l' => by rw [h.nextId]; exact upd_get _ _ _ _)
    (by simp [MCfg.apply, SCfg.apply, h.nextId]) (Nat.le_succ _) rfl rfl rfl rfl
    (rep_prepend (h.rep l) cb) (fun n cap rest _ ok => frame_prepend (h.rep l) ok nw cb)

theorem sim_apply_insert {m s ms ss} (h : SimOn m s ms ss) (l : Nat) (cb : Cb) (b : Hd) :
    ApplyGoal m s ms ss (.insert l cb b) := by
  have hfor := foreign_eq h.nlists h.rep l b
  unfold ApplyGoal
  simp only [MCfg.apply, SCfg.apply, ← hfor]
  cases hfb : m.foreign l b with
  | true => exact ⟨rfl, fun _ => h⟩
  | false =>
    refine ⟨by simp [h.nextId], fun hw => ?_⟩
    have nw : (m.lists l).willWrap = false := willWrap_of_wraps hw
    refine h.upd1 l ((m.lists l).insert (m.nextId + 1) m.nextId cb b) ((s.lists l).insert m.nextId cb b)
      (fun l' => upd_get _ _ _ _) (fun l' => by rw [h.nextId]; exact upd_get _ _ _ _)
      (by simp [h.nextId]) (Nat.le_succ _) rfl rfl rfl rfl
      (rep_insert (h.rep l) cb b) (fun n cap rest _ ok => frame_insert (h.rep l) ok nw cb b)

theorem sim_apply_remove {m s ms ss} (h : SimOn m s ms ss) (l : Nat) (hd : Hd) :
    ApplyGoal m s ms ss (.remove l hd) := by
  have hfor := foreign_eq h.nlists h.rep l hd
  unfold ApplyGoal
  simp only [MCfg.apply, SCfg.apply, ← hfor]
  cases hfb : m.foreign l hd with
  | true => exact ⟨rfl, fun _ => h⟩
  | false =>
    have hr := rep_remove (h.rep l) hd
    refine ⟨by simp [hr.2], fun _ => ?_⟩
    exact h.upd1 l ((m.lists l).remove hd).1 ((s.lists l).remove hd).1
      (fun l' => upd_get _ _ _ _) (fun l' => upd_get _ _ _ _)
      h.nextId (Nat.le_refl _) rfl rfl rfl rfl
      hr.1 (fun n cap rest _ ok => frame_remove (h.rep l) ok hd)

theorem sim_apply_owns {m s ms ss} (h : SimOn m s ms ss) (l : Nat) (hd : Hd) :
    ApplyGoal m s ms ss (.owns l hd) := by
  have hfor := foreign_eq h.nlists h.rep l hd
  unfold ApplyGoal
  simp only [MCfg.apply, SCfg.apply, ← hfor]
  cases hfb : m.foreign l hd with
  | true => exact ⟨rfl, fun _ => h⟩
  | false =>
    exact ⟨by simp [MCfg.fuel, rep_owns (h.rep l) hd], fun _ => h⟩

theorem sim_apply_empty {m s ms ss} (h : SimOn m s ms ss) (l : Nat) :
    ApplyGoal m s ms ss (.empty l) :=
  ⟨by simp [MCfg.apply, SCfg.apply, rep_isEmpty (h.rep l)], fun _ => h⟩

theorem sim_apply_setCounter {m s ms ss} (h : SimOn m s ms ss) (l k : Nat) :
    ApplyGoal m s ms ss (.setCounter l k) := by
  refine ⟨rfl, fun _ => ?_⟩
  exact h.upd1 l _ (s.lists l)
    (fun l' => upd_get _ _ _ _) (fun l' => by show s.lists l' = _; split <;> simp [*])
    h.nextId (Nat.le_refl _) rfl rfl rfl rfl
    (rep_setCounter (h.rep l) k) (fun n cap rest _ ok => frame_setCounter (h.rep l) ok k)

theorem sim_apply_copyAssign {m s ms ss} (h : SimOn m s ms ss) (dst src : Nat) :
    ApplyGoal m s ms ss (.copyAssign dst src) := by
  have hb := h.stack.busyOn_eq
  unfold ApplyGoal
  simp only [MCfg.apply, SCfg.apply, ← hb]
  by_cases hc : dst = src ∨ busyOn MFrame.isIterOn ms dst = true ∨ busyOn MFrame.isIterOn ms src = true
  · simp only [if_pos hc]
    exact ⟨trivial, fun _ => h⟩
  · simp only [if_neg hc]
    refine ⟨trivial, fun _ => ?_⟩
    have hcl := rep_clone (h.rep src)
    have hnb : ¬ busyOn MFrame.isIterOn ms dst = true := fun hh => hc (Or.inr (Or.inl hh))
    refine h.upd1 dst ((m.lists src).clone (m.nextId + 1) m.nextId) ((s.lists src).cloneWith m.nextId)
      (fun l' => upd_get _ _ _ _) (fun l' => by rw [h.nextId]; exact upd_get _ _ _ _)
      ?_ (Nat.le_add_right _ _) rfl rfl rfl rfl ?_ (fun n cap rest hbusy _ => absurd hbusy hnb)
    · show m.nextId + _ = s.nextId + _
      rw [MCfg.fuel, hcl.2, h.nextId]
    · show Rep _ _ (m.nextId + _)
      rw [MCfg.fuel, hcl.2]
      exact hcl.1

theorem sim_apply_moveAssign {m s ms ss} (h : SimOn m s ms ss) (dst src : Nat) :
    ApplyGoal m s ms ss (.moveAssign dst src) := by
  have hb := h.stack.busyOn_eq
  unfold ApplyGoal
  simp only [MCfg.apply, SCfg.apply, ← hb]
  by_cases hc : dst = src ∨ busyOn MFrame.isIterOn ms dst = true ∨ busyOn MFrame.isIterOn ms src = true
  · simp only [if_pos hc]
    exact ⟨trivial, fun _ => h⟩
  · simp only [if_neg hc]
    refine ⟨trivial, fun _ => ?_⟩
    refine h.update h.nextId rfl rfl rfl rfl ?_ ?_
    · intro l
      show Rep (upd (upd m.lists dst (m.lists src)) src _ l) (upd (upd s.lists dst (s.lists src)) src [] l) m.nextId
      rw [upd_get, upd_get, upd_get, upd_get]
      split
      · exact rep_moved_from (h.rep src)
      · split
        · exact h.rep src
        · exact h.rep l
    · intro l n cap rest hbusy ok
      show FrameOK (upd (upd m.lists dst (m.lists src)) src _ l)
        (upd (upd s.lists dst (s.lists src)) src [] l) m.nextId n cap rest
      have h1 : l ≠ src := fun e => hc (Or.inr (Or.inr (e ▸ hbusy)))
      have h2 : l ≠ dst := fun e => hc (Or.inr (Or.inl (e ▸ hbusy)))
      rw [upd_get, upd_get, upd_get, upd_get, if_neg h1, if_neg h2, if_neg h1, if_neg h2]
      exact ok

theorem sim_apply_swap {m s ms ss} (h : SimOn m s ms ss) (a b : Nat) :
    ApplyGoal m s ms ss (.swap a b) := by
  have hb := h.stack.busyOn_eq
  unfold ApplyGoal
  simp only [MCfg.apply, SCfg.apply, ← hb]
  by_cases hc : busyOn MFrame.isIterOn ms a = true ∨ busyOn MFrame.isIterOn ms b = true
  · simp only [if_pos hc]
    exact ⟨trivial, fun _ => h⟩
  · simp only [if_neg hc]
    refine ⟨trivial, fun _ => ?_⟩
    refine h.update h.nextId rfl rfl rfl rfl ?_ ?_
    · intro l
      show Rep (upd (upd m.lists a (m.lists b)) b (m.lists a) l)
        (upd (upd s.lists a (s.lists b)) b (s.lists a) l) m.nextId
      rw [upd_get, upd_get, upd_get, upd_get]
      split
      · exact h.rep a
      · split
        · exact h.rep b
        · exact h.rep l
    · intro l n cap rest hbusy ok
      show FrameOK (upd (upd m.lists a (m.lists b)) b (m.lists a) l)
        (upd (upd s.lists a (s.lists b)) b (s.lists a) l) m.nextId n cap rest
      have h1 : l ≠ b := fun e => hc (Or.inr (e ▸ hbusy))
      have h2 : l ≠ a := fun e => hc (Or.inl (e ▸ hbusy))
      rw [upd_get, upd_get, upd_get, upd_get, if_neg h1, if_neg h2, if_neg h1, if_neg h2]
      exact ok

theorem sim_apply {m s ms ss} (h : SimOn m s ms ss) (cmd : Cmd) : ApplyGoal m s ms ss cmd := by
  cases cmd with
  | append l cb => exact sim_apply_append h l cb
  | prepend l cb => exact sim_apply_prepend h l cb
  | insert l cb b => exact sim_apply_insert h l cb b
  | remove l hd => exact sim_apply_remove h l hd
  | owns l hd => exact sim_apply_owns h l hd
  | empty l => exact sim_apply_empty h l
  | invoke l arg => exact ⟨rfl, fun _ => h⟩
  | enum l arg => exact ⟨rfl, fun _ => h⟩
  | copyAssign dst src => exact sim_apply_copyAssign h dst src
  | moveAssign dst src => exact sim_apply_moveAssign h dst src
  | swap a b => exact sim_apply_swap h a b
  | setCounter l k => exact sim_apply_setCounter h l k

theorem sim_applyStep {m s} (h : Sim m s) {cmd k rest srest}
    (hst : StackSim m s rest srest) (hw : (m.applyStep cmd k rest).wraps = m.wraps) :
    Sim (m.applyStep cmd k rest) (s.applyStep cmd k srest) := by
  obtain ⟨hr, hs⟩ := sim_apply (h.on.sub hst) cmd
  have hs := hs hw
  unfold MCfg.applyStep SCfg.applyStep
  refine hs.toSim rfl rfl rfl rfl rfl rfl ?_ ?_
  · simp [hr, hs.trace]
  · show StackSim _ _ (_ :: rest) (_ :: srest)
    rw [hr]
    exact .cons (.prog _) hs.stack

/-! ### one step -/

def StepGoal (beh : Beh) (m : MCfg) (s : SCfg) : Prop :=
  match MCfg.step beh m, SCfg.step beh s with
  | none, none => True
  | some m', some s' => m'.wraps = m.wraps → Sim m' s'
  | _, _ => False

theorem stepGoal_none {beh m s} (h1 : MCfg.step beh m = none) (h2 : SCfg.step beh s = none) :
    StepGoal beh m s := by
  unfold StepGoal; rw [h1, h2]; trivial

theorem stepGoal_some {beh m s m' s'} (h1 : MCfg.step beh m = some m') (h2 : SCfg.step beh s = some s')
    (h : m'.wraps = m.wraps → Sim m' s') : StepGoal beh m s := by
  unfold StepGoal; rw [h1, h2]; exact h

theorem stepGoal (beh : Beh) {m : MCfg} {s : SCfg} (h : Sim m s) : StepGoal beh m s := by
  have hst := h.stack
  rcases hm : m.stack with _ | ⟨f, rest⟩
  · rw [hm] at hst
    exact stepGoal_none (MCfg.step_nil hm) (SCfg.step_nil hst.nil_inv)
  · rw [hm] at hst
    obtain ⟨b, srest, hs, hf, ht⟩ := hst.cons_inv
    cases f with
    | wait k =>
      have := hf.wait_inv; subst this
      exact stepGoal_none (MCfg.step_wait hm) (SCfg.step_wait hs)
    | iter l n cap arg ho =>
      obtain ⟨r, rfl, ok⟩ := hf.iter_inv
      exact stepGoal_none (MCfg.step_iter hm) (SCfg.step_iter hs)
    | prog p =>
      have := hf.prog_inv; subst this
      cases p with
      | ret v =>
        cases ht with
        | nil =>
          exact stepGoal_some (MCfg.step_ret_nil hm) (SCfg.step_ret_nil hs)
            (fun _ => h.on.toSim rfl rfl rfl rfl rfl rfl h.trace .nil)
        | cons hg hbelow =>
          cases hg with
          | prog q =>
            exact stepGoal_some (MCfg.step_ret_prog hm) (SCfg.step_ret_prog hs)
              (fun _ => h.on.toSim rfl rfl rfl rfl rfl rfl h.trace (.cons (.prog q) hbelow))
          | wait k =>
            exact stepGoal_some (MCfg.step_ret_wait hm) (SCfg.step_ret_wait hs)
              (fun _ => h.on.toSim rfl rfl rfl rfl rfl rfl h.trace (.cons (.wait k) hbelow))
          | iter l n cap arg honour rest ok =>
            have e1 := MCfg.step_ret_iter (beh := beh) hm
            have e2 := SCfg.step_ret_iter (beh := beh) hs
            cases hc : (honour && !v) with
            | true =>
              simp only [hc, ↓reduceIte] at e1 e2
              exact stepGoal_some e1 e2 (fun _ => sim_deliver (h.on.sub hbelow) _)
            | false =>
              simp only [hc, Bool.false_eq_true, ↓reduceIte] at e1 e2
              exact stepGoal_some e1 e2 (fun _ =>
                sim_seekCall beh (h.on.sub hbelow) l _ cap arg honour rest (frame_step (h.rep l) ok))
      | op cmd k =>
        have key : (∀ l a, cmd ≠ .invoke l a) → (∀ l a, cmd ≠ .enum l a) → StepGoal beh m s :=
          fun h1 h2 => stepGoal_some (MCfg.step_op hm h1 h2) (SCfg.step_op hs h1 h2)
            (fun hw => sim_applyStep h ht hw)
        cases cmd with
        | invoke l arg =>
          exact stepGoal_some (MCfg.step_invoke hm) (SCfg.step_invoke hs) (fun _ =>
            sim_seekCall beh (h.on.sub (.cons (.wait k) ht)) l _ _ arg false (s.lists l)
              (frame_start (h.rep l)))
        | enum l arg =>
          exact stepGoal_some (MCfg.step_enum hm) (SCfg.step_enum hs) (fun _ =>
            sim_seekCall beh (h.on.sub (.cons (.wait k) ht)) l _ _ arg true (s.lists l)
              (frame_start (h.rep l)))
        | _ => exact key (by intros; simp) (by intros; simp)

/-- One step in lock-step: the Spec steps iff the Model steps; if the step did not wrap a
    generation counter the results are again related. -/
theorem sim_step (beh : Beh) {m : MCfg} {s : SCfg} (h : Sim m s) :
    match MCfg.step beh m, SCfg.step beh s with
    | none, none => True
    | some m', some s' => m'.wraps = m.wraps → Sim m' s'
    | _, _ => False :=
  stepGoal beh h

/-- a step either leaves the list objects alone or is a command -/
theorem MCfg.step_cases {beh : Beh} {m m' : MCfg} (h : MCfg.step beh m = some m') :
    (m'.lists = m.lists ∧ m'.nextId = m.nextId ∧ m'.wraps = m.wraps) ∨
    ∃ busy cmd, m'.lists = (m.apply busy cmd).1.lists ∧ m'.nextId = (m.apply busy cmd).1.nextId ∧
      m'.wraps = (m.apply busy cmd).1.wraps := by
  unfold MCfg.step at h
  split at h
  · cases h
  · split at h <;> (cases h; left; simp)
  · cases h; left; simp
  · cases h; left; simp
  · cases h; left; simp
  · cases h; right; exact ⟨_, _, rfl, rfl, rfl⟩
  · cases h
  · cases h

theorem MCfg.apply_wraps_le (m : MCfg) (busy : Nat → Bool) (cmd : Cmd) :
    m.wraps ≤ (m.apply busy cmd).1.wraps := by
  cases cmd <;> simp only [MCfg.apply] <;> (repeat' split) <;> simp

/-- wraps never decrease -/
theorem wraps_mono_step (beh : Beh) {m m' : MCfg} (h : MCfg.step beh m = some m') : m.wraps ≤ m'.wraps := by
  rcases MCfg.step_cases h with ⟨_, _, hw⟩ | ⟨busy, cmd, _, _, hw⟩
  · rw [hw]; exact Nat.le_refl _
  · rw [hw]; exact MCfg.apply_wraps_le m busy cmd

theorem wraps_mono_runN (beh : Beh) (n : Nat) (m : MCfg) : m.wraps ≤ (MCfg.runN beh n m).1.wraps := by
  induction n generalizing m with
  | zero => exact Nat.le_refl _
  | succ n ih =>
    unfold MCfg.runN
    cases hm : MCfg.step beh m with
    | none => exact Nat.le_refl _
    | some m' => exact Nat.le_trans (wraps_mono_step beh hm) (ih m')

/-- `n` steps in lock-step -/
theorem sim_runN (beh : Beh) (n : Nat) {m : MCfg} {s : SCfg} (h : Sim m s)
    (nowrap : (MCfg.runN beh n m).1.wraps = m.wraps) :
    Sim (MCfg.runN beh n m).1 (SCfg.runN beh n s).1 ∧ (MCfg.runN beh n m).2 = (SCfg.runN beh n s).2 := by
  induction n generalizing m s with
  | zero => exact ⟨h, h.stack.isEmpty_eq⟩
  | succ n ih =>
    have hs := stepGoal beh h
    unfold StepGoal at hs
    unfold MCfg.runN SCfg.runN
    unfold MCfg.runN at nowrap
    cases hm : MCfg.step beh m with
    | none =>
      cases hs' : SCfg.step beh s with
      | none => exact ⟨h, h.stack.isEmpty_eq⟩
      | some s' => rw [hm, hs'] at hs; exact hs.elim
    | some m' =>
      cases hs' : SCfg.step beh s with
      | none => rw [hm, hs'] at hs; exact hs.elim
      | some s' =>
        rw [hm, hs'] at hs
        rw [hm] at nowrap
        have w1 := wraps_mono_step beh hm
        have w2 := wraps_mono_runN beh n m'
        simp only at nowrap hs ⊢
        exact ih (hs (by omega)) (by omega)

/-! ### well-formedness alone (also across a wrap) -/

theorem minv_apply {m : MCfg} (h : MInv m) (busy : Nat → Bool) (cmd : Cmd) :
    ∀ l, ∃ SL, Rep ((m.apply busy cmd).1.lists l) SL (m.apply busy cmd).1.nextId := by
  have upd1 : ∀ (l : Nat) (x : CL) (b' : Nat), m.nextId ≤ b' → (∃ SL, Rep x SL b') →
      ∀ l', ∃ SL, Rep (upd m.lists l x l') SL b' := by
    intro l x b' hb hx l'
    rw [upd_get]
    split
    · exact hx
    · obtain ⟨SL, r⟩ := h l'
      exact ⟨SL, r.mono hb⟩
  cases cmd with
  | append l cb =>
    obtain ⟨SL, r⟩ := h l
    exact upd1 l _ _ (Nat.le_succ _) ⟨_, rep_append r cb⟩
  | prepend l cb =>
    obtain ⟨SL, r⟩ := h l
    exact upd1 l _ _ (Nat.le_succ _) ⟨_, rep_prepend r cb⟩
  | insert l cb b =>
    simp only [MCfg.apply]
    split
    · exact h
    · obtain ⟨SL, r⟩ := h l
      exact upd1 l _ _ (Nat.le_succ _) ⟨_, rep_insert r cb b⟩
  | remove l hd =>
    simp only [MCfg.apply]
    split
    · exact h
    · obtain ⟨SL, r⟩ := h l
      exact upd1 l _ _ (Nat.le_refl _) ⟨_, (rep_remove r hd).1⟩
  | owns l hd =>
    simp only [MCfg.apply]
    split <;> exact h
  | empty l => exact h
  | invoke l arg => exact h
  | enum l arg => exact h
  | copyAssign dst src =>
    simp only [MCfg.apply]
    split
    · exact h
    · obtain ⟨SL, r⟩ := h src
      have hcl := rep_clone r
      refine upd1 dst _ _ (Nat.le_add_right _ _) ⟨SL.cloneWith m.nextId, ?_⟩
      rw [MCfg.fuel, hcl.2]
      exact hcl.1
  | moveAssign dst src =>
    simp only [MCfg.apply]
    split
    · exact h
    · intro l
      show ∃ SL, Rep (upd (upd m.lists dst (m.lists src)) src _ l) SL m.nextId
      rw [upd_get, upd_get]
      split
      · obtain ⟨SL, r⟩ := h src
        exact ⟨_, rep_moved_from r⟩
      · split
        · exact h src
        · exact h l
  | swap a b =>
    simp only [MCfg.apply]
    split
    · exact h
    · intro l
      show ∃ SL, Rep (upd (upd m.lists a (m.lists b)) b (m.lists a) l) SL m.nextId
      rw [upd_get, upd_get]
      split
      · exact h a
      · split
        · exact h b
        · exact h l
  | setCounter l k =>
    obtain ⟨SL, r⟩ := h l
    exact upd1 l _ _ (Nat.le_refl _) ⟨_, rep_setCounter r k⟩

/-- well-formedness of every list object is preserved by every step, wrap or not -/
theorem minv_step (beh : Beh) {m m' : MCfg} (h : MInv m) (st : MCfg.step beh m = some m') : MInv m' := by
  rcases MCfg.step_cases st with ⟨hl, hn, _⟩ | ⟨busy, cmd, hl, hn, _⟩
  · intro l; rw [hl, hn]; exact h l
  · intro l; rw [hl, hn]; exact minv_apply h busy cmd l

theorem minv_runN (beh : Beh) (n : Nat) {m : MCfg} (h : MInv m) : MInv (MCfg.runN beh n m).1 := by
  induction n generalizing m with
  | zero => exact h
  | succ n ih =>
    unfold MCfg.runN
    cases hm : MCfg.step beh m with
    | none => exact h
    | some m' => exact ih (minv_step beh h hm)

/-- no null dereference is ever recorded -/
theorem minv_no_ub {m : MCfg} (h : MInv m) (l : Nat) : (m.lists l).ub = false := by
  obtain ⟨SL, r⟩ := h l
  exact r.wf.ub

end Evp
