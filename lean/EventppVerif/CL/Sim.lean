import EventppVerif.CL.OpLemmas
import EventppVerif.CL.Machine
/-
  The simulation between the Model machine and the Spec machine (helper level; the property
  theorems that package it are in Properties/C01.lean, C02.lean, C19.lean).
-/
namespace Evp

/-- frames correspond one by one -/
inductive FrameSim (m : MCfg) (s : SCfg) : MFrame → SFrame → Prop
  | prog (p : Prog) : FrameSim m s (.prog p) (.prog p)
  | wait (k : Res → Prog) : FrameSim m s (.wait k) (.wait k)
  | iter (l n cap arg : Nat) (honour : Bool) (rest : List Entry)
      (ok : FrameOK (m.lists l) (s.lists l) m.nextId n cap rest) :
      FrameSim m s (.iter l n cap arg honour) (.iter l rest arg honour)

inductive StackSim (m : MCfg) (s : SCfg) : List MFrame → List SFrame → Prop
  | nil : StackSim m s [] []
  | cons {a b as bs} : FrameSim m s a b → StackSim m s as bs → StackSim m s (a :: as) (b :: bs)

/-- the simulation relation -/
structure Sim (m : MCfg) (s : SCfg) : Prop where
  nextId : m.nextId = s.nextId
  nlists : m.nlists = s.nlists
  trace : m.trace = s.trace
  rep : ∀ l, Rep (m.lists l) (s.lists l) m.nextId
  stack : StackSim m s m.stack s.stack

/-- every list object of the world is well formed (represents *some* list) -/
def MInv (m : MCfg) : Prop := ∀ l, ∃ SL, Rep (m.lists l) SL m.nextId

/-- One step in lock-step: the Spec steps iff the Model steps; if the step did not wrap a
    generation counter the results are again related. -/
theorem sim_step (beh : Beh) {m : MCfg} {s : SCfg} (h : Sim m s) :
    match MCfg.step beh m, SCfg.step beh s with
    | none, none => True
    | some m', some s' => m'.wraps = m.wraps → Sim m' s'
    | _, _ => False := by
  sorry

/-- wraps never decrease -/
theorem wraps_mono_step (beh : Beh) {m m' : MCfg} (h : MCfg.step beh m = some m') : m.wraps ≤ m'.wraps := by
  sorry

theorem wraps_mono_runN (beh : Beh) (n : Nat) (m : MCfg) : m.wraps ≤ (MCfg.runN beh n m).1.wraps := by
  sorry

/-- `n` steps in lock-step -/
theorem sim_runN (beh : Beh) (n : Nat) {m : MCfg} {s : SCfg} (h : Sim m s)
    (nowrap : (MCfg.runN beh n m).1.wraps = m.wraps) :
    Sim (MCfg.runN beh n m).1 (SCfg.runN beh n s).1 ∧ (MCfg.runN beh n m).2 = (SCfg.runN beh n s).2 := by
  sorry

/-- well-formedness of every list object is preserved by every step, wrap or not -/
theorem minv_step (beh : Beh) {m m' : MCfg} (h : MInv m) (st : MCfg.step beh m = some m') : MInv m' := by
  sorry

theorem minv_runN (beh : Beh) (n : Nat) {m : MCfg} (h : MInv m) : MInv (MCfg.runN beh n m).1 := by
  sorry

/-- no null dereference is ever recorded -/
theorem minv_no_ub {m : MCfg} (h : MInv m) (l : Nat) : (m.lists l).ub = false := by
  obtain ⟨SL, r⟩ := h l
  exact r.wf.ub

end Evp
