import EventppVerif.Basic
/-
  Specification of a callback list: a `List` of entries.  This *is* property C01/C02:
  append at the back, prepend at the front, insert immediately before the referenced entry
  (at the back if it is not in the list), remove erases and reports whether it did.
-/
namespace Evp

structure Entry where
  id : Hd
  cb : Cb
deriving DecidableEq, Repr

abbrev SList := List Entry

namespace SList

def ids (L : SList) : List Hd := L.map (·.id)

def present (L : SList) (h : Hd) : Bool := L.any (fun e => e.id == h)

def append (L : SList) (id : Hd) (cb : Cb) : SList := L ++ [⟨id, cb⟩]

def prepend (L : SList) (id : Hd) (cb : Cb) : SList := ⟨id, cb⟩ :: L

/-- insert immediately before the entry `b` (precondition: present). -/
def insertBefore : SList → Entry → Hd → SList
  | [], e, _ => [e]
  | x :: r, e, b => if x.id = b then e :: x :: r else x :: insertBefore r e b

def insert (L : SList) (id : Hd) (cb : Cb) (before : Hd) : SList :=
  if L.present before then L.insertBefore ⟨id, cb⟩ before else L.append id cb

def erase (L : SList) (h : Hd) : SList := L.filter (fun e => e.id != h)

def remove (L : SList) (h : Hd) : SList × Bool :=
  if L.present h then (L.erase h, true) else (L, false)

/-- copy: same callbacks, same order, fresh handles `id, id+1, …`. -/
def cloneWith : SList → Nat → SList
  | [], _ => []
  | e :: r, id => ⟨id, e.cb⟩ :: cloneWith r (id + 1)

end SList
end Evp
