import EventppVerif.CL.Seg
/-
  Well-formedness of one callback-list object and its preservation by every structural
  operation.  `WF l L bound`: `L` is the chain of live nodes of `l`.
  Helper lemmas only.
-/
namespace Evp

structure WF (l : CL) (L : List Nat) (bound : Nat) : Prop where
  nodup : L.Nodup
  fwd : Seg nextF l.heap l.head L none
  bwd : Seg prevF l.heap l.tail L.reverse none
  live : ∀ n, n ∈ L ↔ (l.heap n).counter ≠ 0
  cnt : ∀ n ∈ L, (l.heap n).counter ≤ l.cur
  lt : ∀ n ∈ L, n < bound
  cur_lt : l.cur < l.M
  m_ge : 2 ≤ l.M
  ub : l.ub = false

theorem WF.head_eq {l L b} (w : WF l L b) : l.head = L.head? := by
  cases L with
  | nil => have := w.fwd; simp [Seg] at this; simp [this]
  | cons a r => exact seg_head w.fwd (by simp)

theorem WF.tail_eq {l L b} (w : WF l L b) : l.tail = L.getLast? := by
  cases h : L.reverse with
  | nil =>
    have := w.bwd; rw [h] at this; simp [Seg] at this
    have : L = [] := by simpa using h
    subst this; simp [*]
  | cons a r =>
    have := seg_head w.bwd (by simp [h])
    rw [this, List.head?_reverse]

theorem WF.empty : WF {} [] 0 := by
  refine ⟨by simp, by simp [Seg], by simp [Seg], ?_, by simp, by simp, by decide, by decide, rfl⟩
  intro n
  show n ∈ [] ↔ ((({} : CL).heap) n).counter ≠ 0
  simp
  rfl

theorem WF.mono {l L b b'} (w : WF l L b) (h : b ≤ b') : WF l L b' :=
  { w with lt := fun n hn => Nat.lt_of_lt_of_le (w.lt n hn) h }

end Evp
