import EventppVerif.CL.Seg
import EventppVerif.CL.WF
/-
  The executable form of the structural invariant `WF` that driver mode `inv` evaluates on the RAW
  pointer dumps of the real CallbackList objects (harness/seq_cl.cpp prints them after every
  top-level command), and its soundness: a dump that passes the check satisfies the structural part
  of `WF` — so what the proofs assume about reachable Model states is observed on the
  implementation's own memory, not on an abstraction of it.
-/
namespace Evp

/-- walk of a field (`next` from head, `prev` from tail), bounded -/
def walkF (f : Node → Option Nat) (h : Heap) : Nat → Option Nat → List Nat
  | 0, _ => []
  | _ + 1, none => []
  | k + 1, some n => n :: walkF f h k (f (h n))

/-- first violated clause, or `none` -/
def wfCheck (h : Heap) (head tail : Option Nat) (cur fuel : Nat) : Option String :=
  let fwd := walkF nextF h fuel head
  let bwd := walkF prevF h fuel tail
  if fwd.length ≥ fuel then some "the next-chain from head does not end (cycle)"
  else if bwd.length ≥ fuel then some "the previous-chain from tail does not end (cycle)"
  else if fwd ≠ bwd.reverse then some s!"head/next chain {fwd} is not the reverse of tail/previous chain {bwd}"
  else if !fwd.Nodup then some s!"a node occurs twice in the chain {fwd}"
  else match fwd.find? (fun n => (h n).counter == 0 || decide ((h n).counter > cur)) with
    | some n => some s!"chained node {n} has generation {(h n).counter} outside [1, currentCounter = {cur}]"
    | none => none

/-- a bounded walk that stopped before the bound is a complete segment ending in null -/
theorem walkF_seg (f : Node → Option Nat) (h : Heap) :
    ∀ (fuel : Nat) (o : Option Nat), (walkF f h fuel o).length < fuel → Seg f h o (walkF f h fuel o) none
  | 0, _, hl => by simp at hl
  | k + 1, none, _ => by simp [walkF, Seg]
  | k + 1, some n, hl => by
    simp only [walkF, List.length_cons] at hl ⊢
    exact ⟨rfl, walkF_seg f h k _ (by omega)⟩

/-- **soundness of the dump check**: if `wfCheck` finds nothing, the dumped object has a list `L`
    of distinct nodes that is exactly its `head`/`next` chain and, reversed, its `tail`/`previous`
    chain, every chained node carrying a generation in `[1, currentCounter]` — the clauses `nodup`,
    `fwd`, `bwd`, `cnt` (and one direction of `live`) of `WF`. -/
theorem wfCheck_sound (h : Heap) (head tail : Option Nat) (cur fuel : Nat)
    (hc : wfCheck h head tail cur fuel = none) :
    ∃ L : List Nat, L.Nodup ∧ Seg nextF h head L none ∧ Seg prevF h tail L.reverse none ∧
      ∀ n ∈ L, (h n).counter ≠ 0 ∧ (h n).counter ≤ cur := by
  unfold wfCheck at hc
  simp only at hc
  split at hc
  · cases hc
  · rename_i h1
    split at hc
    · cases hc
    · rename_i h2
      split at hc
      · cases hc
      · rename_i h3
        split at hc
        · cases hc
        · rename_i h4
          split at hc
          · cases hc
          · rename_i h5
            have e3 : walkF nextF h fuel head = (walkF prevF h fuel tail).reverse := by
              simpa using h3
            refine ⟨walkF nextF h fuel head, by simpa using h4, walkF_seg _ _ _ _ (by omega), ?_, ?_⟩
            · rw [e3, List.reverse_reverse]
              exact walkF_seg _ _ _ _ (by omega)
            · intro n hn
              have := List.find?_eq_none.mp h5 n hn
              simp at this
              omega

end Evp
