import EventppVerif.CL.WF
import EventppVerif.CL.ListLemmas
/-
  Effect of the structural operations on the heap, field by field, and preservation of `WF`.
  Helper lemmas only.
-/
namespace Evp

/-! ### more segment lemmas -/

theorem seg_head' {f h o xs} (hs : Seg f h o xs none) : o = xs.head? := by
  cases xs with
  | nil => simpa [Seg] using hs
  | cons a r => exact seg_head hs (by simp)

theorem seg_snoc {f h o P p e} : Seg f h o (P ++ [p]) e ↔ Seg f h o P (some p) ∧ f (h p) = e := by
  rw [seg_append]
  simp only [Seg]
  constructor
  · rintro ⟨m, h1, h2, h3⟩; subst h2; exact ⟨h1, h3⟩
  · rintro ⟨h1, h2⟩; exact ⟨_, h1, rfl, h2⟩

theorem seg_split {f h o P n Q e} :
    Seg f h o (P ++ n :: Q) e ↔ Seg f h o P (some n) ∧ Seg f h (f (h n)) Q e := by
  rw [seg_append]
  simp only [Seg]
  constructor
  · rintro ⟨m, h1, h2, h3⟩; subst h2; exact ⟨h1, h3⟩
  · rintro ⟨h1, h2⟩; exact ⟨_, h1, rfl, h2⟩

/-- redirect the pointer that leaves `P`: only the last node of `P` changes its field -/
theorem seg_relink_last {f h h' o P n e'} (hs : Seg f h o P (some n)) (hnd : P.Nodup)
    (hh : ∀ a ∈ P, f (h' a) = if P.getLast? = some a then e' else f (h a)) :
    Seg f h' (if P = [] then e' else o) P e' := by
  rcases List.eq_nil_or_concat P with rfl | ⟨P', p, rfl⟩
  · simp [Seg]
  · rw [List.concat_eq_append] at *
    simp only [List.append_eq_nil_iff, List.cons_ne_self, and_false, ↓reduceIte]
    rw [seg_snoc] at hs ⊢
    have hp : p ∉ P' := by
      intro hm
      have := List.nodup_append.mp hnd
      exact this.2.2 p hm p (by simp) rfl
    constructor
    · refine (seg_congr (fun a ha => ?_)).mpr hs.1
      have := hh a (by simp [ha])
      have hne : a ≠ p := fun e => hp (e ▸ ha)
      simpa [hne.symm] using this
    · have := hh p (by simp)
      simpa using this

/-! ### field-level effect of the operations -/

theorem linkBefore_next (l : CL) (id cb c n a : Nat) (h1 : id ≠ n) (h2 : (l.heap n).prev ≠ some id) :
    ((l.linkBefore id cb c n).heap a).next =
      if (l.heap n).prev = some a then some id else if a = id then some n else (l.heap a).next := by
  unfold CL.linkBefore
  cases hp : (l.heap n).prev <;> simp only [upd_get] <;> grind

theorem linkBefore_prev (l : CL) (id cb c n a : Nat) :
    ((l.linkBefore id cb c n).heap a).prev =
      if a = n then some id else if a = id then (l.heap n).prev else (l.heap a).prev := by
  unfold CL.linkBefore
  cases hp : (l.heap n).prev <;> simp only [upd_get] <;> grind

theorem linkBefore_counter (l : CL) (id cb c n a : Nat) :
    ((l.linkBefore id cb c n).heap a).counter = if a = id then c else (l.heap a).counter := by
  unfold CL.linkBefore
  cases hp : (l.heap n).prev <;> simp only [upd_get] <;> grind

theorem linkBefore_cb (l : CL) (id cb c n a : Nat) :
    ((l.linkBefore id cb c n).heap a).cb = if a = id then cb else (l.heap a).cb := by
  unfold CL.linkBefore
  cases hp : (l.heap n).prev <;> simp only [upd_get] <;> grind

theorem freeNode_next (l : CL) (n a : Nat) :
    ((l.freeNode n).heap a).next = if (l.heap n).prev = some a then (l.heap n).next else (l.heap a).next := by
  unfold CL.freeNode
  cases hp : (l.heap n).prev <;> cases hq : (l.heap n).next <;> simp only [hp, hq, upd_get] <;> grind

theorem freeNode_prev (l : CL) (n a : Nat) :
    ((l.freeNode n).heap a).prev = if (l.heap n).next = some a then (l.heap n).prev else (l.heap a).prev := by
  unfold CL.freeNode
  cases hp : (l.heap n).prev <;> cases hq : (l.heap n).next <;> simp only [hp, hq, upd_get] <;> grind

theorem freeNode_counter (l : CL) (n a : Nat) :
    ((l.freeNode n).heap a).counter = if a = n then 0 else (l.heap a).counter := by
  unfold CL.freeNode
  cases hp : (l.heap n).prev <;> cases hq : (l.heap n).next <;> simp only [hp, hq, upd_get] <;> grind

theorem freeNode_cb (l : CL) (n a : Nat) :
    ((l.freeNode n).heap a).cb = (l.heap a).cb := by
  unfold CL.freeNode
  cases hp : (l.heap n).prev <;> cases hq : (l.heap n).next <;> simp only [hp, hq, upd_get] <;> grind
theorem linkBack_nil (l : CL) (id cb c : Nat) (hh : l.head = none) :
    l.linkBack id cb c = { l with heap := upd l.heap id ⟨none, none, cb, c⟩, head := some id, tail := some id } := by
  unfold CL.linkBack; simp [hh]

theorem linkBack_cons (l : CL) (id cb c : Nat) {hd t} (hh : l.head = some hd) (ht : l.tail = some t) :
    l.linkBack id cb c = { l with
      heap := upd (upd l.heap id ⟨some t, none, cb, c⟩) t { l.heap t with next := some id }
      tail := some id } := by
  unfold CL.linkBack; simp [hh, ht]

theorem linkFront_nil (l : CL) (id cb c : Nat) (hh : l.head = none) :
    l.linkFront id cb c = { l with heap := upd l.heap id ⟨none, none, cb, c⟩, head := some id, tail := some id } := by
  unfold CL.linkFront; simp [hh]

theorem linkFront_cons (l : CL) (id cb c : Nat) {hd} (hh : l.head = some hd) :
    l.linkFront id cb c = { l with
      heap := upd (upd l.heap id ⟨none, some hd, cb, c⟩) hd { l.heap hd with prev := some id }
      head := some id } := by
  unfold CL.linkFront; simp [hh]

/-- `setOnes` with enough fuel writes `counter := 1` on exactly the nodes of the chain -/
theorem setOnes_seg : ∀ {xs : List Nat} {h : Heap} {o fuel}, Seg nextF h o xs none → xs.Nodup → xs.length < fuel →
    ∀ a, (setOnes h fuel o) a = if a ∈ xs then { h a with counter := 1 } else h a
  | [], h, o, fuel, hs, _, _, a => by
    simp [Seg] at hs; subst hs
    cases fuel <;> simp [setOnes]
  | x :: r, h, o, fuel, hs, hn, hl, a => by
    simp only [Seg] at hs
    obtain ⟨rfl, hr⟩ := hs
    cases fuel with
    | zero => simp at hl
    | succ k =>
      simp only [setOnes]
      have hx : x ∉ r := (List.nodup_cons.mp hn).1
      have hr' : Seg nextF (upd h x { h x with counter := 1 }) (h x).next r none :=
        (seg_upd_notin hx).mpr hr
      rw [setOnes_seg hr' (List.nodup_cons.mp hn).2 (by simpa using hl) a]
      by_cases ha : a = x
      · subst ha; simp [hx]
      · simp [ha]

/-! ### preservation of `WF` -/

theorem WF.split {l P n Q b} (w : WF l (P ++ n :: Q) b) :
    Seg nextF l.heap l.head P (some n) ∧ (l.heap n).next = Q.head? ∧ Seg nextF l.heap Q.head? Q none ∧
    Seg prevF l.heap l.tail Q.reverse (some n) ∧ (l.heap n).prev = P.getLast? ∧
    Seg prevF l.heap P.getLast? P.reverse none := by
  have hf := seg_split.mp w.fwd
  have hb := w.bwd
  simp only [List.reverse_append, List.reverse_cons, List.append_assoc, List.singleton_append] at hb
  have hb' := seg_split.mp hb
  have e1 : (l.heap n).next = Q.head? := seg_head' hf.2
  have e2 : (l.heap n).prev = P.getLast? := by
    have := seg_head' hb'.2
    rw [List.head?_reverse] at this
    exact this
  refine ⟨hf.1, e1, ?_, hb'.1, e2, ?_⟩
  · rw [← e1]; exact hf.2
  · rw [← e2]; exact hb'.2

theorem WF.freeNode {l P n Q b} (w : WF l (P ++ n :: Q) b) : WF (l.freeNode n) (P ++ Q) b := by
  obtain ⟨s1, s2, s3, s4, s5, s6⟩ := w.split
  obtain ⟨n1, n2, n3, n4, n5, n6⟩ := nodup_split w.nodup
  have hhead := w.head_eq
  have htail := w.tail_eq
  refine ⟨n6, ?_, ?_, ?_, ?_, ?_, w.cur_lt, w.m_ge, w.ub⟩
  · rw [seg_append]
    refine ⟨Q.head?, ?_, ?_⟩
    · have : (l.freeNode n).head = if P = [] then Q.head? else l.head := by
        show (if l.head = some n then (l.heap n).next else l.head) = _
        rw [hhead, s2, head?_split]
        by_cases hp : P = []
        · simp [hp]
        · have : P.head? ≠ some n := fun e => n3 (List.mem_of_head? e)
          simp [hp, this]
      rw [this]
      refine seg_relink_last s1 n1 (fun a _ => ?_)
      show ((l.freeNode n).heap a).next = _
      rw [freeNode_next, s5, s2]
    · refine (seg_congr (fun a ha => ?_)).mpr s3
      show ((l.freeNode n).heap a).next = _
      rw [freeNode_next, s5]
      have : P.getLast? ≠ some a := fun e => n5 a (List.mem_of_getLast? e) ha
      simp [this]
  · rw [List.reverse_append, seg_append]
    refine ⟨P.getLast?, ?_, ?_⟩
    · have : (l.freeNode n).tail = if Q.reverse = [] then P.getLast? else l.tail := by
        show (if l.tail = some n then (l.heap n).prev else l.tail) = _
        rw [htail, s5, getLast?_split]
        by_cases hq : Q = []
        · simp [hq]
        · have : Q.getLast? ≠ some n := fun e => n4 (List.mem_of_getLast? e)
          simp [hq, this]
      rw [this]
      refine seg_relink_last s4 (nodup_reverse' n2) (fun a _ => ?_)
      show ((l.freeNode n).heap a).prev = _
      rw [freeNode_prev, s5, s2, List.getLast?_reverse]
    · refine (seg_congr (fun a ha => ?_)).mpr s6
      show ((l.freeNode n).heap a).prev = _
      rw [freeNode_prev, s2]
      have : Q.head? ≠ some a := fun e => n5 a (by simpa using ha) (List.mem_of_head? e)
      simp [this]
  · intro a
    rw [freeNode_counter]
    have := w.live a
    by_cases ha : a = n
    · subst ha; simp [n3, n4]
    · simp [ha] at this ⊢; exact this
  · intro a ha
    rw [freeNode_counter]
    have hne : a ≠ n := by rintro rfl; simp [n3, n4] at ha
    simp [hne]
    exact w.cnt a (by simp at ha ⊢; grind)
  · intro a ha
    exact w.lt a (by simp at ha ⊢; grind)

theorem WF.linkBefore {l P n Q b b' id cb c} (w : WF l (P ++ n :: Q) b)
    (hid : (l.heap id).counter = 0) (hc0 : c ≠ 0) (hc : c ≤ l.cur) (hbb : b ≤ b') (hidb : id < b') :
    WF (l.linkBefore id cb c n) (P ++ id :: n :: Q) b' := by
  obtain ⟨s1, s2, s3, s4, s5, s6⟩ := w.split
  obtain ⟨n1, n2, n3, n4, n5, n6⟩ := nodup_split w.nodup
  have hhead := w.head_eq
  have hidL : id ∉ P ++ n :: Q := fun hm => (w.live id).mp hm hid
  have hidP : id ∉ P := fun hm => hidL (by simp [hm])
  have hidQ : id ∉ Q := fun hm => hidL (by simp [hm])
  have hidn : id ≠ n := fun e => hidL (by simp [e])
  have hbp : (l.heap n).prev ≠ some id := by
    rw [s5]; exact fun e => hidP (List.mem_of_getLast? e)
  have hbpn : (l.heap n).prev ≠ some n := by
    rw [s5]; exact fun e => n3 (List.mem_of_getLast? e)
  refine ⟨nodup_middle' w.nodup hidL, ?_, ?_, ?_, ?_, ?_, w.cur_lt, w.m_ge, w.ub⟩
  · rw [seg_split]
    constructor
    · have : (l.linkBefore id cb c n).head = if P = [] then some id else l.head := by
        show (if l.head = some n then some id else l.head) = _
        rw [hhead, head?_split]
        by_cases hp : P = []
        · simp [hp]
        · have : P.head? ≠ some n := fun e => n3 (List.mem_of_head? e)
          simp [hp, this]
      rw [this]
      refine seg_relink_last s1 n1 (fun a ha => ?_)
      show ((l.linkBefore id cb c n).heap a).next = _
      rw [linkBefore_next _ _ _ _ _ _ hidn hbp, s5]
      have : a ≠ id := fun e => hidP (e ▸ ha)
      simp [this]
    · have e1 : nextF ((l.linkBefore id cb c n).heap id) = some n := by
        show ((l.linkBefore id cb c n).heap id).next = _
        rw [linkBefore_next _ _ _ _ _ _ hidn hbp]
        simp [hbp]
      rw [e1]
      have old : Seg nextF l.heap (some n) (n :: Q) none := ⟨rfl, by rw [← s2] at s3; exact s3⟩
      refine (seg_congr (fun a ha => ?_)).mpr old
      show ((l.linkBefore id cb c n).heap a).next = _
      rw [linkBefore_next _ _ _ _ _ _ hidn hbp, s5]
      have h1 : P.getLast? ≠ some a := by
        intro e
        have := List.mem_of_getLast? e
        rcases List.mem_cons.mp ha with rfl | ha
        · exact n3 this
        · exact n5 a this ha
      have h2 : a ≠ id := by
        rintro rfl
        rcases List.mem_cons.mp ha with e | ha
        · exact hidn e
        · exact hidQ ha
      simp [h1, h2]
  · simp only [List.reverse_append, List.reverse_cons, List.append_assoc,
      List.cons_append, List.nil_append]
    rw [seg_split]
    constructor
    · refine (seg_congr (fun a ha => ?_)).mpr s4
      show ((l.linkBefore id cb c n).heap a).prev = _
      rw [linkBefore_prev]
      have ha' : a ∈ Q := by simpa using ha
      have h1 : a ≠ n := fun e => n4 (e ▸ ha')
      have h2 : a ≠ id := fun e => hidQ (e ▸ ha')
      simp [h1, h2]
    · have e1 : prevF ((l.linkBefore id cb c n).heap n) = some id := by
        show ((l.linkBefore id cb c n).heap n).prev = _
        rw [linkBefore_prev]; simp
      rw [e1]
      refine ⟨rfl, ?_⟩
      have e2 : prevF ((l.linkBefore id cb c n).heap id) = P.getLast? := by
        show ((l.linkBefore id cb c n).heap id).prev = _
        rw [linkBefore_prev, s5]; simp [hidn]
      rw [e2]
      refine (seg_congr (fun a ha => ?_)).mpr s6
      show ((l.linkBefore id cb c n).heap a).prev = _
      rw [linkBefore_prev]
      have ha' : a ∈ P := by simpa using ha
      have h1 : a ≠ n := fun e => n3 (e ▸ ha')
      have h2 : a ≠ id := fun e => hidP (e ▸ ha')
      simp [h1, h2]
  · intro a
    rw [linkBefore_counter]
    have := w.live a
    by_cases ha : a = id
    · subst ha; simp [hc0]
    · simp [ha] at this ⊢; exact this
  · intro a ha
    rw [linkBefore_counter]
    show _ ≤ l.cur
    by_cases hai : a = id
    · simp [hai, hc]
    · simp [hai]
      exact w.cnt a (by simp at ha ⊢; grind)
  · intro a ha
    by_cases hai : a = id
    · omega
    · have := w.lt a (by simp at ha ⊢; grind)
      omega

theorem WF.linkBack {l L b b' id cb c} (w : WF l L b)
    (hid : (l.heap id).counter = 0) (hc0 : c ≠ 0) (hc : c ≤ l.cur) (hbb : b ≤ b') (hidb : id < b') :
    WF (l.linkBack id cb c) (L ++ [id]) b' := by
  have hidL : id ∉ L := fun hm => (w.live id).mp hm hid
  have hnd : (L ++ [id]).Nodup := nodup_middle' (Q := []) (by simpa using w.nodup) (by simpa using hidL)
  have hlt : ∀ a ∈ L ++ [id], a < b' := by
    intro a ha
    rcases List.mem_append.mp ha with ha | ha
    · have := w.lt a ha; omega
    · simp at ha; omega
  rcases List.eq_nil_or_concat L with rfl | ⟨P, t, rfl⟩
  · have hh : l.head = none := by simpa using w.head_eq
    rw [linkBack_nil _ _ _ _ hh]
    refine ⟨hnd, ?_, ?_, ?_, ?_, hlt, w.cur_lt, w.m_ge, w.ub⟩
    · simp [Seg]
    · simp [Seg]
    · intro a
      have := w.live a
      by_cases ha : a = id
      · simp [ha, hc0]
      · simp [ha] at this ⊢; exact this
    · intro a ha
      simp at ha
      simp [ha, hc]
  · rw [List.concat_eq_append] at *
    have hh : l.head = (P ++ [t]).head? := w.head_eq
    have ht : l.tail = some t := by simpa using w.tail_eq
    obtain ⟨hd, hhd⟩ : ∃ hd, l.head = some hd := by
      rw [hh]; cases P <;> simp
    rw [linkBack_cons _ _ _ _ hhd ht]
    have hf := seg_snoc.mp w.fwd
    have hb := w.bwd
    rw [ht] at hb
    simp only [List.reverse_append, List.reverse_cons, List.reverse_nil, List.nil_append,
      List.cons_append] at hb
    have htid : t ≠ id := fun e => hidL (by simp [e])
    have htP : t ∉ P := by
      have := nodup_split (Q := []) w.nodup
      exact this.2.2.1
    refine ⟨hnd, ?_, ?_, ?_, ?_, hlt, w.cur_lt, w.m_ge, w.ub⟩
    · rw [seg_snoc, seg_snoc]
      refine ⟨⟨?_, ?_⟩, ?_⟩
      · refine (seg_congr (fun a ha => ?_)).mpr hf.1
        have h1 : a ≠ t := fun e => htP (e ▸ ha)
        have h2 : a ≠ id := fun e => hidL (by simp [← e, ha])
        simp [h1, h2]
      · simp
      · simp [htid.symm]
    · simp only [List.reverse_append, List.reverse_cons, List.reverse_nil, List.nil_append,
        List.cons_append]
      refine ⟨rfl, ?_⟩
      have e1 : prevF ((upd (upd l.heap id ⟨some t, none, cb, c⟩) t { l.heap t with next := some id }) id) = some t := by
        simp [htid.symm]
      rw [e1]
      refine (seg_congr (fun a ha => ?_)).mpr hb
      have h2 : a ≠ id := fun e => hidL (by
        rcases List.mem_cons.mp ha with h | h
        · simp [← e, h]
        · simp at h; simp [← e, h])
      by_cases h1 : a = t
      · simp [h1]
      · simp [h1, h2]
    · intro a
      have := w.live a
      by_cases ha : a = id
      · simp [ha, hc0, htid.symm]
      · by_cases h1 : a = t
        · subst h1; simp [ha] at this ⊢; exact this
        · simp [ha, h1] at this ⊢; exact this
    · intro a ha
      show _ ≤ l.cur
      by_cases hai : a = id
      · simp [hai, hc, htid.symm]
      · have hm : a ∈ P ++ [t] := by simp at ha ⊢; grind
        have := w.cnt a hm
        by_cases h1 : a = t
        · subst h1; simpa [upd_get] using this
        · simpa [h1, hai] using this

theorem WF.linkFront {l L b b' id cb c} (w : WF l L b)
    (hid : (l.heap id).counter = 0) (hc0 : c ≠ 0) (hc : c ≤ l.cur) (hbb : b ≤ b') (hidb : id < b') :
    WF (l.linkFront id cb c) (id :: L) b' := by
  have hidL : id ∉ L := fun hm => (w.live id).mp hm hid
  have hnd : (id :: L).Nodup := List.nodup_cons.mpr ⟨hidL, w.nodup⟩
  have hlt : ∀ a ∈ id :: L, a < b' := by
    intro a ha
    rcases List.mem_cons.mp ha with ha | ha
    · omega
    · have := w.lt a ha; omega
  cases L with
  | nil =>
    have hh : l.head = none := by simpa using w.head_eq
    rw [linkFront_nil _ _ _ _ hh]
    refine ⟨hnd, ?_, ?_, ?_, ?_, hlt, w.cur_lt, w.m_ge, w.ub⟩
    · simp [Seg]
    · simp [Seg]
    · intro a
      have := w.live a
      by_cases ha : a = id
      · simp [ha, hc0]
      · simp [ha] at this ⊢; exact this
    · intro a ha
      simp at ha
      simp [ha, hc]
  | cons hd T =>
    have hh : l.head = some hd := by simpa using w.head_eq
    rw [linkFront_cons _ _ _ _ hh]
    have hf := w.fwd
    rw [hh] at hf
    have hb := w.bwd
    simp only [List.reverse_cons] at hb
    rw [seg_snoc] at hb
    have hdid : hd ≠ id := fun e => hidL (by simp [e])
    have hdT : hd ∉ T := (List.nodup_cons.mp w.nodup).1
    refine ⟨hnd, ?_, ?_, ?_, ?_, hlt, w.cur_lt, w.m_ge, w.ub⟩
    · refine ⟨rfl, ?_⟩
      have e1 : nextF ((upd (upd l.heap id ⟨none, some hd, cb, c⟩) hd { l.heap hd with prev := some id }) id) = some hd := by
        simp [hdid.symm]
      rw [e1]
      refine (seg_congr (fun a ha => ?_)).mpr hf
      have h2 : a ≠ id := fun e => hidL (e ▸ ha)
      by_cases h1 : a = hd
      · simp [h1]
      · simp [h1, h2]
    · simp only [List.reverse_cons]
      rw [seg_snoc, seg_snoc]
      refine ⟨⟨?_, ?_⟩, ?_⟩
      · refine (seg_congr (fun a ha => ?_)).mpr hb.1
        have ha' : a ∈ T := by simpa using ha
        have h1 : a ≠ hd := fun e => hdT (e ▸ ha')
        have h2 : a ≠ id := fun e => hidL (by simp [← e, ha'])
        simp [h1, h2]
      · simp
      · simp [hdid.symm]
    · intro a
      have := w.live a
      by_cases ha : a = id
      · simp [ha, hc0, hdid.symm]
      · by_cases h1 : a = hd
        · subst h1; simp [ha] at this ⊢; exact this
        · simp [ha, h1] at this ⊢; exact this
    · intro a ha
      show _ ≤ l.cur
      by_cases hai : a = id
      · simp [hai, hc, hdid.symm]
      · have hm : a ∈ hd :: T := by simp at ha ⊢; grind
        have := w.cnt a hm
        by_cases h1 : a = hd
        · subst h1; simpa using this
        · simpa [h1, hai] using this

theorem WF.length_le {l L b} (w : WF l L b) : L.length ≤ b := nodup_lt_length b L w.nodup w.lt

theorem WF.linkBack_fields {l L b id cb c} (w : WF l L b) (hid : (l.heap id).counter = 0) (a : Nat) :
    ((l.linkBack id cb c).heap a).counter = (if a = id then c else (l.heap a).counter) ∧
    ((l.linkBack id cb c).heap a).cb = (if a = id then cb else (l.heap a).cb) ∧
    ((l.heap a).counter = 0 → a ≠ id → ((l.linkBack id cb c).heap a).next = (l.heap a).next) := by
  have hidL : id ∉ L := fun hm => (w.live id).mp hm hid
  rcases List.eq_nil_or_concat L with rfl | ⟨P, t, rfl⟩
  · have hh : l.head = none := by simpa using w.head_eq
    rw [linkBack_nil _ _ _ _ hh]
    by_cases ha : a = id <;> simp [ha]
  · rw [List.concat_eq_append] at *
    have ht : l.tail = some t := by simpa using w.tail_eq
    obtain ⟨hd, hhd⟩ : ∃ hd, l.head = some hd := by
      rw [w.head_eq]; cases P <;> simp
    rw [linkBack_cons _ _ _ _ hhd ht]
    have htid : t ≠ id := fun e => hidL (by simp [e])
    have htl : (l.heap t).counter ≠ 0 := (w.live t).mp (by simp)
    by_cases ha : a = id
    · simp [ha, htid.symm]
    · by_cases h1 : a = t
      · subst h1; simp [ha]; exact fun h => absurd h htl
      · simp [ha, h1]

theorem WF.linkFront_fields {l L b id cb c} (w : WF l L b) (hid : (l.heap id).counter = 0) (a : Nat) :
    ((l.linkFront id cb c).heap a).counter = (if a = id then c else (l.heap a).counter) ∧
    ((l.linkFront id cb c).heap a).cb = (if a = id then cb else (l.heap a).cb) ∧
    ((l.heap a).counter = 0 → a ≠ id → ((l.linkFront id cb c).heap a).next = (l.heap a).next) := by
  have hidL : id ∉ L := fun hm => (w.live id).mp hm hid
  cases L with
  | nil =>
    have hh : l.head = none := by simpa using w.head_eq
    rw [linkFront_nil _ _ _ _ hh]
    by_cases ha : a = id <;> simp [ha]
  | cons hd T =>
    have hh : l.head = some hd := by simpa using w.head_eq
    rw [linkFront_cons _ _ _ _ hh]
    have hdid : hd ≠ id := fun e => hidL (by simp [e])
    by_cases ha : a = id
    · simp [ha, hdid.symm]
    · by_cases h1 : a = hd
      · subst h1; simp [ha]
      · simp [ha, h1]

theorem WF.linkBefore_frozen {l P n Q b id cb c} (w : WF l (P ++ n :: Q) b) (hid : (l.heap id).counter = 0)
    (a : Nat) (ha0 : (l.heap a).counter = 0) (ha : a ≠ id) :
    ((l.linkBefore id cb c n).heap a).next = (l.heap a).next := by
  obtain ⟨s1, s2, s3, s4, s5, s6⟩ := w.split
  have hidL : id ∉ P ++ n :: Q := fun hm => (w.live id).mp hm hid
  have haL : a ∉ P ++ n :: Q := fun hm => (w.live a).mp hm ha0
  have hidn : id ≠ n := fun e => hidL (by simp [e])
  have hbp : (l.heap n).prev ≠ some id := by
    rw [s5]; exact fun e => hidL (by simp [List.mem_of_getLast? e])
  have hbpa : (l.heap n).prev ≠ some a := by
    rw [s5]; exact fun e => haL (by simp [List.mem_of_getLast? e])
  rw [linkBefore_next _ _ _ _ _ _ hidn hbp]
  simp [hbpa, ha]

theorem WF.freeNode_frozen {l P n Q b} (w : WF l (P ++ n :: Q) b)
    (a : Nat) (ha0 : (l.heap a).counter = 0) :
    ((l.freeNode n).heap a).next = (l.heap a).next := by
  obtain ⟨s1, s2, s3, s4, s5, s6⟩ := w.split
  have haL : a ∉ P ++ n :: Q := fun hm => (w.live a).mp hm ha0
  have hbpa : (l.heap n).prev ≠ some a := by
    rw [s5]; exact fun e => haL (by simp [List.mem_of_getLast? e])
  rw [freeNode_next]
  simp [hbpa]

theorem nextCounter_nowrap {l : CL} (nw : l.willWrap = false) (fuel : Nat) :
    l.nextCounter fuel = ({ l with cur := l.cur + 1 }, l.cur + 1) := by
  unfold CL.nextCounter
  have : ¬ (l.cur + 1) % l.M = 0 := by simpa [CL.willWrap] using nw
  simp [this]

theorem WF.cur_succ {l L b} (w : WF l L b) (nw : ¬ (l.cur + 1) % l.M = 0) : l.cur + 1 < l.M := by
  have := w.cur_lt
  rcases Nat.lt_or_ge (l.cur + 1) l.M with h | h
  · exact h
  · have : l.cur + 1 = l.M := by omega
    rw [this, Nat.mod_self] at nw
    exact absurd rfl nw

/-- `getNextCounter` keeps the object well formed (in both branches), draws a live generation that
    is at most the new `cur`, and changes nothing but counters of live nodes. -/
theorem WF.nextCounter {l L b} (w : WF l L b) :
    WF (l.nextCounter (b + 1)).1 L b ∧ (l.nextCounter (b + 1)).2 ≠ 0 ∧
    (l.nextCounter (b + 1)).2 ≤ (l.nextCounter (b + 1)).1.cur ∧
    ∀ a, ((l.nextCounter (b + 1)).1.heap a).next = (l.heap a).next ∧
      ((l.nextCounter (b + 1)).1.heap a).prev = (l.heap a).prev ∧
      ((l.nextCounter (b + 1)).1.heap a).cb = (l.heap a).cb ∧
      (((l.nextCounter (b + 1)).1.heap a).counter = 0 ↔ (l.heap a).counter = 0) := by
  unfold CL.nextCounter
  split
  · have hs := setOnes_seg w.fwd w.nodup (Nat.lt_succ_of_le w.length_le)
    have hfield : ∀ a, ((setOnes l.heap (b + 1) l.head) a).next = (l.heap a).next ∧
        ((setOnes l.heap (b + 1) l.head) a).prev = (l.heap a).prev ∧
        ((setOnes l.heap (b + 1) l.head) a).cb = (l.heap a).cb ∧
        (((setOnes l.heap (b + 1) l.head) a).counter = 0 ↔ (l.heap a).counter = 0) := by
      intro a
      rw [hs a]
      by_cases ha : a ∈ L
      · have := (w.live a).mp ha
        simp [ha, this]
      · simp [ha]
    refine ⟨⟨w.nodup, ?_, ?_, ?_, ?_, w.lt, ?_, w.m_ge, w.ub⟩, by simp, by simp, hfield⟩
    · exact (seg_congr (fun a _ => (hfield a).1)).mpr w.fwd
    · exact (seg_congr (fun a _ => (hfield a).2.1)).mpr w.bwd
    · intro a
      rw [w.live a]
      exact (not_congr (hfield a).2.2.2).symm
    · intro a ha
      show ((setOnes l.heap (b + 1) l.head) a).counter ≤ 1
      rw [hs a]; simp [ha]
    · have := w.m_ge
      show 1 < l.M
      omega
  · rename_i nw
    refine ⟨⟨w.nodup, w.fwd, w.bwd, w.live, ?_, w.lt, w.cur_succ nw, w.m_ge, w.ub⟩, by simp, by simp, by simp⟩
    intro a ha
    have := w.cnt a ha
    show (l.heap a).counter ≤ l.cur + 1
    omega

end Evp
