import EventppVerif.CL.Model
/-
  Concurrent model of `CallbackListBase` (callbacklist.h, MultipleThreading / SpinLock policy):
  any number of threads running lists of calls on ONE list object; `step s t` = one micro-step of
  thread `t`.  Granularity: the atomic `++currentCounter`, every critical section of the list mutex
  (each contains the whole structural change or a single pointer read), every unlocked read
  (`head` in `empty()`, `before.lock()` in `insert`, `node->counter` in the traversal), every callback
  call.  The list object itself is the pointer model `CL` of CL/Model.lean, so stale links of removed
  nodes and generation counters are exactly those of the sequential model.  Sequential consistency is
  assumed; the counter wrap is outside this model (a draw that would wrap sets `unsupported`).
-/
namespace Evp.ConcL
open Evp

inductive Call
  | append (cb : Cb)
  | prepend (cb : Cb)
  | insert (cb : Cb) (before : Hd)
  | remove (h : Hd)
  | owns (h : Hd)
  | empty
  | invoke
deriving DecidableEq, Repr

inductive PC
  | idle
  /-- `insert`: the unlocked `before.lock()` -/
  | insBefore (cb : Cb) (before : Hd)
  /-- `getNextCounter`: the atomic increment; kind 0 append, 1 prepend, 2 insert -/
  | draw (kind : Nat) (cb : Cb) (before : Hd)
  /-- the critical section that links the allocated node `id` carrying generation `c` -/
  | link (kind : Nat) (cb : Cb) (before : Hd) (id c : Nat)
  | removeCs (h : Hd)
  | ownsCs (h : Hd)
  | emptyRead
  /-- traversal: read `head` under the mutex -/
  | travStart
  | travCap (node : Option Nat)
  /-- unlocked read of `node->counter` and the guard test -/
  | travCheck (node : Nat) (cap : Nat)
  | travCall (node : Nat) (cap : Nat)
  /-- `node = node->next` under the mutex -/
  | travNext (node : Nat) (cap : Nat)
deriving DecidableEq, Repr

inductive Ret
  | unit
  | bool (b : Bool)
  | handle (h : Hd)
deriving DecidableEq, Repr

structure Thread where
  prog : List Call := []
  pc : PC := .idle
  rets : List Ret := []
  /-- callbacks called by this thread's invocations: (node, callback) in call order, one list per invocation -/
  visits : List (List (Nat × Cb)) := []

structure State where
  threads : List Thread := []
  list : CL := {}
  nextId : Nat := 0
  unsupported : Bool := false

def getT (s : State) (t : Nat) : Option Thread := s.threads[t]?
def setT (s : State) (t : Nat) (th : Thread) : State := { s with threads := s.threads.set t th }
def finish (s : State) (t : Nat) (th : Thread) (r : Ret) : State :=
  setT s t { th with pc := .idle, prog := th.prog.tail, rets := th.rets ++ [r] }
def goto (s : State) (t : Nat) (th : Thread) (pc : PC) : State := setT s t { th with pc := pc }

def addVisit (th : Thread) (n : Nat) (cb : Cb) : Thread :=
  match th.visits.reverse with
  | [] => { th with visits := [[(n, cb)]] }
  | last :: rest => { th with visits := (rest.reverse) ++ [last ++ [(n, cb)]] }

def step (s : State) (t : Nat) : Option State :=
  match getT s t with
  | none => none
  | some th =>
    match th.pc with
    | .idle =>
      (match th.prog with
      | [] => none
      | .append cb :: _ => some (goto s t th (.draw 0 cb 0))
      | .prepend cb :: _ => some (goto s t th (.draw 1 cb 0))
      | .insert cb b :: _ => some (goto s t th (.insBefore cb b))
      | .remove h :: _ => some (goto s t th (.removeCs h))
      | .owns h :: _ => some (goto s t th (.ownsCs h))
      | .empty :: _ => some (goto s t th .emptyRead)
      | .invoke :: _ => some (goto s t { th with visits := th.visits ++ [[]] } .travStart))
    | .insBefore cb b =>
      -- `before.lock()`: succeeds iff the node is still referenced; either way the node ends up at the
      -- back unless it is still in the list when the critical section runs
      some (goto s t th (.draw 2 cb b))
    | .draw kind cb b =>
      if s.list.willWrap then some { s with unsupported := true }
      else
        let c := s.list.cur + 1
        some (goto { s with list := { s.list with cur := c }, nextId := s.nextId + 1 } t th (.link kind cb b s.nextId c))
    | .link kind cb b id c =>
      let l := s.list
      let l' := if kind = 0 then l.linkBack id cb c
        else if kind = 1 then l.linkFront id cb c
        else if (l.heap b).counter ≠ 0 then l.linkBefore id cb c b else l.linkBack id cb c
      some (finish { s with list := l' } t th (.handle id))
    | .removeCs h =>
      let (l', r) := s.list.remove h
      some (finish { s with list := l' } t th (.bool r))
    | .ownsCs h => some (finish s t th (.bool (s.list.owns (s.nextId + 1) h)))
    | .emptyRead => some (finish s t th (.bool s.list.isEmpty))
    | .travStart => some (goto s t th (.travCap s.list.head))
    | .travCap node =>
      (match node with
      | none => some (finish s t th .unit)
      | some n => some (goto s t th (.travCheck n s.list.cur)))
    | .travCheck n cap =>
      if guard (s.list.heap n).counter cap then some (goto s t th (.travCall n cap))
      else some (goto s t th (.travNext n cap))
    | .travCall n cap =>
      some (goto s t (addVisit th n (s.list.heap n).cb) (.travNext n cap))
    | .travNext n cap =>
      (match (s.list.heap n).next with
      | none => some (finish s t th .unit)
      | some m => some (goto s t th (.travCheck m cap)))

def exec (s : State) : List Nat → State
  | [] => s
  | t :: r => match step s t with
    | some s' => exec s' r
    | none => exec s r

def init (progs : List (List Call)) : State := { threads := progs.map (fun p => { prog := p }) }

def Reach (progs : List (List Call)) (s : State) : Prop := ∃ sched, exec (init progs) sched = s

end Evp.ConcL
