import EventppVerif.Conc.CList
import EventppVerif.Conc.CListWalk
/-
  The invariant of the concurrent callback-list model (Conc/CList.lean) and its preservation by
  every micro-step of every thread.  Helper definitions and lemmas for Properties/C03.lean.
-/
namespace Evp.ConcL
open Evp

/-! ### vocabulary -/

/-- the node a thread has allocated (at its `draw`) and not yet linked -/
def PC.pendId : PC → Option Nat
  | .link _ _ _ id _ => some id
  | _ => none

/-- the node a traversing thread holds in its local variable `node` -/
def PC.node : PC → Option Nat
  | .travCap (some n) => some n
  | .travCheck n _ => some n
  | .travCall n _ => some n
  | .travNext n _ => some n
  | _ => none

/-- has the traversal already dealt with the node it stands on? -/
def PC.ex : PC → Bool
  | .travNext _ _ => true
  | _ => false

/-- a traversal that has not yet looked at any node -/
def PC.start : PC → Bool
  | .travStart => true
  | .travCap _ => true
  | _ => false

/-- the public call a program counter belongs to -/
def callOf : PC → Option Call
  | .idle => none
  | .insBefore cb b => some (.insert cb b)
  | .draw k cb b => some (if k = 0 then .append cb else if k = 1 then .prepend cb else .insert cb b)
  | .link k cb b _ _ => some (if k = 0 then .append cb else if k = 1 then .prepend cb else .insert cb b)
  | .removeCs h => some (.remove h)
  | .ownsCs h => some (.owns h)
  | .emptyRead => some .empty
  | .travStart => some .invoke
  | .travCap _ => some .invoke
  | .travCheck _ _ => some .invoke
  | .travCall _ _ => some .invoke
  | .travNext _ _ => some .invoke

/-- the nodes called so far by the invocation in progress -/
def curV (th : Thread) : List Nat := (th.visits.getLast?.getD []).map (·.1)

/-- `id` is allocated but not yet linked: some thread is between its `draw` and its `link` -/
def Pend (ths : List Thread) (id : Nat) : Prop := ∃ (t : Nat) (th : Thread), ths[t]? = some th ∧ th.pc.pendId = some id

/-- **Linearization table.**  The effect on the Spec list, and the result, of the micro-step that a
    thread at program counter `pc` takes.  Only `link`, `removeCs`, `ownsCs` and `emptyRead` have an
    effect or a result: they are the linearization points of the adding, removing and querying
    calls. -/
def specEffect (pc : PC) (SL : SList) : SList × Option Ret :=
  match pc with
  | .link k cb b id _ => (specLink SL k cb b id, some (.handle id))
  | .removeCs h => ((SL.remove h).1, some (.bool (SL.remove h).2))
  | .ownsCs h => (SL, some (.bool (SL.present h)))
  | .emptyRead => (SL, some (.bool SL.isEmpty))
  | _ => (SL, none)

/-! ### the invariant -/

/-- what the invariant says about one thread; `l`, `L`, `b` are the list object, its live chain and
    the allocation bound, `P` the set of pending ids -/
structure ThreadOK (l : CL) (L : List Nat) (b : Nat) (P : Nat → Prop) (th : Thread) : Prop where
  /-- the program counter belongs to the call at the head of the thread's program -/
  call : ∀ c, callOf th.pc = some c → th.prog.head? = some c
  /-- no invocation has called a node twice -/
  vis : ∀ V ∈ th.visits, (V.map (·.1)).Nodup
  /-- a pending link: generation in `[1, cur]`, node allocated and not linked -/
  link : ∀ k cb bf id c, th.pc = .link k cb bf id c →
    1 ≤ c ∧ c ≤ l.cur ∧ id < b ∧ (l.heap id).counter = 0
  start : th.pc.start = true → curV th = []
  /-- a traversal in progress: the structural invariant of its node -/
  walk : ∀ n, th.pc.node = some n → WalkV l.heap L b P (curV th) [] th.pc.ex n
  /-- the nodes in the invocation records are allocated and have been linked -/
  visP : ∀ V ∈ th.visits, ∀ v ∈ V.map (·.1), v < b ∧ ¬ P v
  /-- every invocation record, restricted to the nodes still in the list, is in list order -/
  ord : ∀ V ∈ th.visits, (liveIn l.heap (V.map (·.1))).Sublist L

/-- the invariant, with the Spec list it determines -/
structure InvW (s : State) (SL : SList) : Prop where
  rep : Rep s.list SL s.nextId
  thr : ∀ t th, getT s t = some th → ThreadOK s.list SL.ids s.nextId (Pend s.threads) th
  /-- distinct threads hold distinct pending nodes -/
  uniq : ∀ t u th th' id, getT s t = some th → getT s u = some th' →
    th.pc.pendId = some id → th'.pc.pendId = some id → t = u

def Inv (s : State) : Prop := ∃ SL, InvW s SL

/-- the Spec list a state stands for: the list object read through `head`/`next` -/
def specOf (s : State) : SList := absList s.list (s.nextId + 1)

theorem InvW.spec {s SL} (h : InvW s SL) : specOf s = SL := h.rep.abs

/-! ### thread bookkeeping -/

theorem getElem?_set_self' {ths : List Thread} {t : Nat} {th th' : Thread} (hg : ths[t]? = some th) :
    (ths.set t th')[t]? = some th' := by
  have : t < ths.length := by
    rcases Nat.lt_or_ge t ths.length with h | h
    · exact h
    · rw [List.getElem?_eq_none h] at hg; cases hg
  simp [this]

theorem getElem?_set_other' {ths : List Thread} {t v : Nat} {th' : Thread} (hne : v ≠ t) :
    (ths.set t th')[v]? = ths[v]? := by
  rw [List.getElem?_set_ne (Ne.symm hne)]

theorem pend_set_iff {ths : List Thread} {t : Nat} {th th' : Thread} (hg : ths[t]? = some th) (id : Nat) :
    Pend (ths.set t th') id ↔
      (th'.pc.pendId = some id ∨ ∃ v thv, v ≠ t ∧ ths[v]? = some thv ∧ thv.pc.pendId = some id) := by
  constructor
  · rintro ⟨v, thv, h1, h2⟩
    by_cases hv : v = t
    · subst hv
      rw [getElem?_set_self' hg] at h1
      cases h1; exact Or.inl h2
    · rw [getElem?_set_other' hv] at h1
      exact Or.inr ⟨v, thv, hv, h1, h2⟩
  · rintro (h | ⟨v, thv, hv, h1, h2⟩)
    · exact ⟨t, th', getElem?_set_self' hg, h⟩
    · exact ⟨v, thv, by rw [getElem?_set_other' hv]; exact h1, h2⟩

theorem pend_of_other {ths : List Thread} {v : Nat} {thv : Thread} {id : Nat} (h1 : ths[v]? = some thv)
    (h2 : thv.pc.pendId = some id) : Pend ths id := ⟨v, thv, h1, h2⟩

/-- if the stepping thread holds no pending node afterwards, the pending set only shrinks -/
theorem pend_set_sub {ths : List Thread} {t : Nat} {th th' : Thread} (hg : ths[t]? = some th)
    (hp : th'.pc.pendId = none) (id : Nat) (h : Pend (ths.set t th') id) : Pend ths id := by
  rcases (pend_set_iff hg id).mp h with h | ⟨v, thv, _, h1, h2⟩
  · rw [hp] at h; cases h
  · exact ⟨v, thv, h1, h2⟩

theorem ThreadOK.transfer {l l' : CL} {L L' : List Nat} {b b' : Nat} {P P' : Nat → Prop} {th : Thread}
    (h : ThreadOK l L b P th) (hcur : l.cur ≤ l'.cur) (hb : b ≤ b')
    (hcnt : ∀ id, th.pc.pendId = some id → (l.heap id).counter = 0 → (l'.heap id).counter = 0)
    (hwalk : ∀ V G ex n, WalkV l.heap L b P V G ex n → WalkV l'.heap L' b' P' V G ex n)
    (hP : ∀ x, x < b → P' x → P x)
    (hord : ∀ W, (∀ v ∈ W, v < b ∧ ¬ P v) → (liveIn l.heap W).Sublist L → (liveIn l'.heap W).Sublist L') :
    ThreadOK l' L' b' P' th := by
  refine ⟨h.call, h.vis, ?_, h.start, fun n hn => hwalk _ _ _ _ (h.walk n hn), ?_,
    fun V hV => hord _ (h.visP V hV) (h.ord V hV)⟩
  · intro k cb bf id c hpc
    obtain ⟨a1, a2, a3, a4⟩ := h.link k cb bf id c hpc
    exact ⟨a1, Nat.le_trans a2 hcur, Nat.lt_of_lt_of_le a3 hb, hcnt id (by rw [hpc]; rfl) a4⟩
  · intro V hV v hv
    obtain ⟨a1, a2⟩ := h.visP V hV v hv
    exact ⟨Nat.lt_of_lt_of_le a1 hb, fun hp => a2 (hP v a1 hp)⟩

/-- pending nodes are not linked -/
theorem InvW.pend_counter {s SL} (h : InvW s SL) (x : Nat) (hx : Pend s.threads x) :
    (s.list.heap x).counter = 0 ∧ x < s.nextId := by
  obtain ⟨v, thv, h1, h2⟩ := hx
  have := (h.thr v thv h1).link
  cases hpc : thv.pc <;> rw [hpc] at h2 <;> simp [PC.pendId] at h2
  subst h2
  obtain ⟨_, _, a3, a4⟩ := this _ _ _ _ _ hpc
  exact ⟨a4, a3⟩

/-- the master lemma: thread `t` moves to `th'`, the list object becomes `l'` -/
theorem invW_set {s : State} {SL SL' : SList} {t : Nat} {th th' : Thread} {l' : CL} {b' : Nat} {u : Bool}
    (h : InvW s SL) (hg : getT s t = some th)
    (hrep : Rep l' SL' b')
    (hoth : ∀ v thv, v ≠ t → getT s v = some thv →
      ThreadOK l' SL'.ids b' (Pend (s.threads.set t th')) thv)
    (hown : ThreadOK l' SL'.ids b' (Pend (s.threads.set t th')) th')
    (hfresh : ∀ id, th'.pc.pendId = some id → ∀ v thv, v ≠ t → getT s v = some thv →
      thv.pc.pendId ≠ some id) :
    InvW { threads := s.threads.set t th', list := l', nextId := b', unsupported := u } SL' := by
  refine ⟨hrep, ?_, ?_⟩
  · intro v thv hv
    by_cases hvt : v = t
    · subst hvt
      have : (s.threads.set v th')[v]? = some thv := hv
      rw [getElem?_set_self' hg] at this
      cases this; exact hown
    · have : (s.threads.set t th')[v]? = some thv := hv
      rw [getElem?_set_other' hvt] at this
      exact hoth v thv hvt this
  · intro v w thv thw id hv hw pv pw
    have hv' : (s.threads.set t th')[v]? = some thv := hv
    have hw' : (s.threads.set t th')[w]? = some thw := hw
    by_cases hvt : v = t
    · by_cases hwt : w = t
      · rw [hvt, hwt]
      · subst hvt
        rw [getElem?_set_self' hg] at hv'
        rw [getElem?_set_other' hwt] at hw'
        cases hv'
        exact absurd pw (hfresh id pv w thw hwt hw')
    · by_cases hwt : w = t
      · subst hwt
        rw [getElem?_set_self' hg] at hw'
        rw [getElem?_set_other' hvt] at hv'
        cases hw'
        exact absurd pv (hfresh id pw v thv hvt hv')
      · rw [getElem?_set_other' hvt] at hv'
        rw [getElem?_set_other' hwt] at hw'
        exact h.uniq v w thv thw id hv' hw' pv pw

/-- a step that leaves the list object alone and after which the thread holds no pending node -/
theorem invW_local {s : State} {SL : SList} {t : Nat} {th th' : Thread}
    (h : InvW s SL) (hg : getT s t = some th) (hp : th'.pc.pendId = none)
    (hown : ThreadOK s.list SL.ids s.nextId (Pend s.threads) th') :
    InvW (setT s t th') SL := by
  have hsub := pend_set_sub (th' := th') hg hp
  refine invW_set (s := s) (u := s.unsupported) h hg h.rep (fun v thv _ hv => ?_) ?_ (fun id hid => by rw [hp] at hid; cases hid)
  · exact (h.thr v thv hv).transfer (Nat.le_refl _) (Nat.le_refl _) (fun _ _ h0 => h0)
      (fun V G ex n w => w.mono (Nat.le_refl _) (fun x _ hx => hsub x hx)) (fun x _ hx => hsub x hx)
      (fun W _ ho => ho)
  · exact hown.transfer (Nat.le_refl _) (Nat.le_refl _) (fun _ _ h0 => h0)
      (fun V G ex n w => w.mono (Nat.le_refl _) (fun x _ hx => hsub x hx)) (fun x _ hx => hsub x hx)
      (fun W _ ho => ho)

/-! ### the thread after a step -/

theorem ThreadOK.goto {l : CL} {L : List Nat} {b : Nat} {P : Nat → Prop} {th : Thread} {pc' : PC}
    (h : ThreadOK l L b P th)
    (hcall : ∀ c, callOf pc' = some c → th.prog.head? = some c)
    (hlink : pc'.pendId = none)
    (hstart : pc'.start = true → curV th = [])
    (hwalk : ∀ n, pc'.node = some n → WalkV l.heap L b P (curV th) [] pc'.ex n) :
    ThreadOK l L b P { th with pc := pc' } := by
  refine ⟨hcall, h.vis, ?_, hstart, hwalk, h.visP, h.ord⟩
  intro k cb bf id c hpc
  have hpc' : pc' = .link k cb bf id c := hpc
  rw [hpc'] at hlink; cases hlink

theorem ThreadOK.finish {l : CL} {L : List Nat} {b : Nat} {P : Nat → Prop} {th : Thread}
    (h : ThreadOK l L b P th) (p : List Call) (r : List Ret) :
    ThreadOK l L b P { th with pc := .idle, prog := p, rets := r } := by
  refine ⟨by simp [callOf], h.vis, ?_, by simp [PC.start], by simp [PC.node], h.visP, h.ord⟩
  intro k cb bf id c hpc
  cases hpc

theorem addVisit_visits (th : Thread) (n : Nat) (cb : Cb) :
    (addVisit th n cb).visits = th.visits.dropLast ++ [th.visits.getLast?.getD [] ++ [(n, cb)]] := by
  rcases List.eq_nil_or_concat th.visits with h | ⟨ini, last, h⟩
  · unfold addVisit; rw [h]; simp
  · rw [List.concat_eq_append] at h
    unfold addVisit; rw [h]; simp

theorem addVisit_prog (th : Thread) (n : Nat) (cb : Cb) : (addVisit th n cb).prog = th.prog := by
  unfold addVisit; split <;> rfl
theorem addVisit_rets (th : Thread) (n : Nat) (cb : Cb) : (addVisit th n cb).rets = th.rets := by
  unfold addVisit; split <;> rfl
theorem addVisit_pc (th : Thread) (n : Nat) (cb : Cb) : (addVisit th n cb).pc = th.pc := by
  unfold addVisit; split <;> rfl

theorem addVisit_curV (th : Thread) (n : Nat) (cb : Cb) : curV (addVisit th n cb) = curV th ++ [n] := by
  unfold curV
  rw [addVisit_visits]
  simp

/-- the conclusion of the step theorem: the invariant holds afterwards for the Spec list given by
    the linearization table, and the step records the table's result (if any) and ends the call -/
def StepOK (s' : State) (SL : SList) (t : Nat) (th : Thread) : Prop :=
  InvW s' (specEffect th.pc SL).1 ∧
  ∀ r, (specEffect th.pc SL).2 = some r →
    ∃ th', getT s' t = some th' ∧ th'.rets = th.rets ++ [r] ∧ th'.prog = th.prog.tail ∧ th'.pc = .idle

theorem stepOK_goto {s : State} {SL : SList} {t : Nat} {th : Thread} {pc' : PC}
    (h : InvW s SL) (hg : getT s t = some th) (he : specEffect th.pc SL = (SL, none))
    (hcall : ∀ c, callOf pc' = some c → th.prog.head? = some c)
    (hlink : pc'.pendId = none)
    (hstart : pc'.start = true → curV th = [])
    (hwalk : ∀ n, pc'.node = some n →
      WalkV s.list.heap SL.ids s.nextId (Pend s.threads) (curV th) [] pc'.ex n) :
    StepOK (goto s t th pc') SL t th := by
  unfold StepOK
  rw [he]
  refine ⟨invW_local h hg hlink ((h.thr t th hg).goto hcall hlink hstart hwalk), fun r hr => by cases hr⟩

theorem stepOK_finish {s : State} {SL : SList} {t : Nat} {th : Thread} {r : Ret}
    (h : InvW s SL) (hg : getT s t = some th) (he1 : (specEffect th.pc SL).1 = SL)
    (he2 : ∀ r', (specEffect th.pc SL).2 = some r' → r' = r) :
    StepOK (finish s t th r) SL t th := by
  unfold StepOK
  rw [he1]
  refine ⟨invW_local h hg rfl ((h.thr t th hg).finish _ _), fun r' hr' => ?_⟩
  rw [he2 r' hr']
  exact ⟨_, getElem?_set_self' hg, rfl, rfl, rfl⟩

/-! ### every micro-step keeps the invariant and acts on the Spec list as the table says -/

theorem stepOK_draw {s : State} {SL : SList} {t : Nat} {th : Thread} {k : Nat} {cb : Cb} {bf : Hd}
    (h : InvW s SL) (hg : getT s t = some th) (hpc : th.pc = .draw k cb bf)
    (nw : s.list.willWrap = false) :
    StepOK (goto { s with list := { s.list with cur := s.list.cur + 1 }, nextId := s.nextId + 1 } t th
      (.link k cb bf s.nextId (s.list.cur + 1))) SL t th := by
  have ht := h.thr t th hg
  unfold StepOK
  have he : specEffect th.pc SL = (SL, none) := by rw [hpc]; rfl
  rw [he]
  refine ⟨?_, fun r hr => by cases hr⟩
  have hP : ∀ x, x < s.nextId →
      Pend (s.threads.set t { th with pc := .link k cb bf s.nextId (s.list.cur + 1) }) x → Pend s.threads x := by
    intro x hx hp
    rcases (pend_set_iff hg x).mp hp with hp | ⟨v, thv, _, h1, h2⟩
    · simp [PC.pendId] at hp; omega
    · exact ⟨v, thv, h1, h2⟩
  refine invW_set (s := s) (u := s.unsupported) h hg (rep_draw h.rep nw) (fun v thv _ hv => ?_) ?_ ?_
  · exact (h.thr v thv hv).transfer (Nat.le_succ _) (Nat.le_succ _) (fun _ _ h0 => h0)
      (fun V G ex n w => w.mono (Nat.le_succ _) hP) hP (fun W _ ho => ho)
  · refine ⟨?_, ht.vis, ?_, by simp [PC.start], by simp [PC.node], ?_, ht.ord⟩
    rotate_left 2
    · intro V hV v hv
      obtain ⟨a1, a2⟩ := ht.visP V hV v hv
      exact ⟨Nat.lt_succ_of_lt a1, fun hp => a2 (hP v a1 hp)⟩
    · intro c hc
      apply ht.call
      rw [hpc]; exact hc
    · intro k' cb' bf' id c hpc'
      have hpc'' : PC.link k cb bf s.nextId (s.list.cur + 1) = .link k' cb' bf' id c := hpc'
      cases hpc''
      exact ⟨Nat.succ_le_succ (Nat.zero_le _), Nat.le_refl _, Nat.lt_succ_self _,
        h.rep.fresh s.nextId (Nat.le_refl _)⟩
  · intro id hid v thv _ hv hpv
    have hid' : s.nextId = id := by simpa [PC.pendId] using hid
    have := (h.pend_counter id ⟨v, thv, hv, hpv⟩).2
    omega

theorem stepOK_link {s : State} {SL : SList} {t : Nat} {th : Thread} {k : Nat} {cb : Cb} {bf : Hd}
    {id c : Nat} (h : InvW s SL) (hg : getT s t = some th) (hpc : th.pc = .link k cb bf id c) :
    StepOK (finish { s with list := linkOf s.list k cb bf id c } t th (.handle id)) SL t th := by
  have ht := h.thr t th hg
  obtain ⟨c1, c2, c3, c4⟩ := ht.link _ _ _ _ _ hpc
  obtain ⟨r1, r2, r3, r4⟩ := rep_linkOf (k := k) (cb := cb) (bf := bf) h.rep c3 c4 (by omega) c2
  unfold StepOK
  have he : specEffect th.pc SL = (specLink SL k cb bf id, some (.handle id)) := by rw [hpc]; rfl
  rw [he]
  refine ⟨?_, fun r hr => ?_⟩
  · have hsub := pend_set_sub (th' := { th with pc := .idle, prog := th.prog.tail, rets := th.rets ++ [.handle id] })
      hg rfl
    have hPid : Pend s.threads id := ⟨t, th, hg, by rw [hpc]; rfl⟩
    have hord : ∀ W, (∀ v ∈ W, v < s.nextId ∧ ¬ Pend s.threads v) → (liveIn s.list.heap W).Sublist SL.ids →
        (liveIn (linkOf s.list k cb bf id c).heap W).Sublist (specLink SL k cb bf id).ids := by
      intro W hW ho
      have e : liveIn (linkOf s.list k cb bf id c).heap W = liveIn s.list.heap W :=
        liveIn_congr (fun v hv => by
          have hne : v ≠ id := fun e => (hW v hv).2 (e ▸ hPid)
          rw [(r3 v).1, if_neg hne])
      rw [e]
      exact ho.trans (ids_sublist_specLink _ _ _ _ _)
    refine invW_set (s := s) (u := s.unsupported) h hg r1 (fun v thv hvt hv => ?_) ?_
      (fun id' hid' => by cases hid')
    · refine (h.thr v thv hv).transfer (Nat.le_of_eq r2.symm) (Nat.le_refl _) (fun id' hid' h0 => ?_)
        (fun V G ex n w => r4 _ _ V G ex n hPid hsub w) (fun x _ hx => hsub x hx) hord
      have hne : id' ≠ id := by
        intro e; subst e
        exact hvt (h.uniq v t thv th id' hv hg hid' (by rw [hpc]; rfl))
      rw [(r3 id').1, if_neg hne]; exact h0
    · exact (ht.finish _ _).transfer (Nat.le_of_eq r2.symm) (Nat.le_refl _)
        (fun id' hid' => by cases hid') (fun V G ex n w => r4 _ _ V G ex n hPid hsub w)
        (fun x _ hx => hsub x hx) hord
  · cases hr
    exact ⟨_, getElem?_set_self' hg, rfl, rfl, rfl⟩

theorem stepOK_remove {s : State} {SL : SList} {t : Nat} {th : Thread} {hd : Hd}
    (h : InvW s SL) (hg : getT s t = some th) (hpc : th.pc = .removeCs hd) :
    StepOK (finish { s with list := (s.list.remove hd).1 } t th (.bool (s.list.remove hd).2)) SL t th := by
  have ht := h.thr t th hg
  obtain ⟨r1, r2⟩ := rep_remove h.rep hd
  unfold StepOK
  have he : specEffect th.pc SL = ((SL.remove hd).1, some (.bool (SL.remove hd).2)) := by rw [hpc]; rfl
  rw [he]
  refine ⟨?_, fun r hr => ?_⟩
  · have hsub := pend_set_sub
      (th' := { th with pc := .idle, prog := th.prog.tail, rets := th.rets ++ [.bool (s.list.remove hd).2] }) hg rfl
    have hP0 : ∀ x, Pend s.threads x → (s.list.heap x).counter = 0 := fun x hx => (h.pend_counter x hx).1
    refine invW_set (s := s) (u := s.unsupported) h hg r1 (fun v thv hvt hv => ?_) ?_
      (fun id' hid' => by cases hid')
    · refine (h.thr v thv hv).transfer (Nat.le_of_eq (remove_cur _ _).symm) (Nat.le_refl _)
        (fun id' hid' h0 => ?_) (fun V G ex n w => walkV_remove h.rep hsub hP0 w)
        (fun x _ hx => hsub x hx) (fun W _ ho => ord_remove h.rep hd ho)
      rcases remove_counter' s.list hd id' with e | e
      · exact e
      · rw [e]; exact h0
    · exact (ht.finish _ _).transfer (Nat.le_of_eq (remove_cur _ _).symm) (Nat.le_refl _)
        (fun id' hid' => by cases hid') (fun V G ex n w => walkV_remove h.rep hsub hP0 w)
        (fun x _ hx => hsub x hx) (fun W _ ho => ord_remove h.rep hd ho)
  · cases hr
    rw [← r2]
    exact ⟨_, getElem?_set_self' hg, rfl, rfl, rfl⟩

/-- **the step theorem** -/
theorem invW_step {s s' : State} {SL : SList} {t : Nat} {th : Thread} (h : InvW s SL)
    (hg : getT s t = some th) (hs : step s t = some s') : StepOK s' SL t th := by
  have ht := h.thr t th hg
  unfold step at hs
  rw [hg] at hs
  simp only at hs
  cases hpc : th.pc with
  | idle =>
    rw [hpc] at hs
    simp only at hs
    have he : specEffect th.pc SL = (SL, none) := by rw [hpc]; rfl
    cases hprog : th.prog with
    | nil => rw [hprog] at hs; simp at hs
    | cons c rest =>
      cases c <;> simp only [hprog, Option.some.injEq] at hs <;> subst hs
      · exact stepOK_goto h hg he (by simp [callOf, hprog]) rfl (by simp [PC.start]) (by simp [PC.node])
      · exact stepOK_goto h hg he (by simp [callOf, hprog]) rfl (by simp [PC.start]) (by simp [PC.node])
      · exact stepOK_goto h hg he (by simp [callOf, hprog]) rfl (by simp [PC.start]) (by simp [PC.node])
      · exact stepOK_goto h hg he (by simp [callOf, hprog]) rfl (by simp [PC.start]) (by simp [PC.node])
      · exact stepOK_goto h hg he (by simp [callOf, hprog]) rfl (by simp [PC.start]) (by simp [PC.node])
      · exact stepOK_goto h hg he (by simp [callOf, hprog]) rfl (by simp [PC.start]) (by simp [PC.node])
      · unfold StepOK
        rw [he]
        refine ⟨invW_local h hg rfl ⟨?_, ?_, ?_, ?_, ?_, ?_, ?_⟩, fun r hr => by cases hr⟩
        · intro c hc
          simp [callOf] at hc; subst hc; simp
        · intro V hV
          simp only [List.mem_append, List.mem_singleton] at hV
          rcases hV with hV | rfl
          · exact ht.vis V hV
          · simp
        · intro k cb bf id c hpc'
          cases hpc'
        · intro _; simp [curV]
        · intro n hn; simp [PC.node] at hn
        · intro V hV
          simp only [List.mem_append, List.mem_singleton] at hV
          rcases hV with hV | rfl
          · exact ht.visP V hV
          · simp
        · intro V hV
          simp only [List.mem_append, List.mem_singleton] at hV
          rcases hV with hV | rfl
          · exact ht.ord V hV
          · simp [liveIn]
  | insBefore cb b =>
    rw [hpc] at hs
    simp only [Option.some.injEq] at hs; subst hs
    refine stepOK_goto h hg (by rw [hpc]; rfl) ?_ rfl (by simp [PC.start]) (by simp [PC.node])
    intro c hc
    apply ht.call
    rw [hpc]; simpa [callOf] using hc
  | draw k cb b =>
    rw [hpc] at hs
    simp only at hs
    split at hs
    · simp only [Option.some.injEq] at hs; subst hs
      unfold StepOK
      have he : specEffect th.pc SL = (SL, none) := by rw [hpc]; rfl
      rw [he]
      exact ⟨⟨h.rep, h.thr, h.uniq⟩, fun r hr => by cases hr⟩
    · rename_i nw
      simp only [Option.some.injEq] at hs; subst hs
      exact stepOK_draw h hg hpc (by simpa using nw)
  | link k cb b id c =>
    rw [hpc] at hs
    simp only [Option.some.injEq] at hs; subst hs
    exact stepOK_link h hg hpc
  | removeCs hd =>
    rw [hpc] at hs
    simp only [Option.some.injEq] at hs; subst hs
    exact stepOK_remove h hg hpc
  | ownsCs hd =>
    rw [hpc] at hs
    simp only [Option.some.injEq] at hs; subst hs
    refine stepOK_finish h hg (by rw [hpc]; rfl) ?_
    intro r' hr'
    rw [hpc] at hr'
    simp only [specEffect, Option.some.injEq] at hr'
    rw [← hr', rep_owns h.rep hd]
  | emptyRead =>
    rw [hpc] at hs
    simp only [Option.some.injEq] at hs; subst hs
    refine stepOK_finish h hg (by rw [hpc]; rfl) ?_
    intro r' hr'
    rw [hpc] at hr'
    simp only [specEffect, Option.some.injEq] at hr'
    rw [← hr', rep_isEmpty h.rep]
  | travStart =>
    rw [hpc] at hs
    simp only [Option.some.injEq] at hs; subst hs
    have hcv : curV th = [] := ht.start (by rw [hpc]; rfl)
    refine stepOK_goto h hg (by rw [hpc]; rfl) ?_ rfl (fun _ => hcv) ?_
    · intro c hc
      apply ht.call
      rw [hpc]; simpa [callOf] using hc
    · intro n hn
      rw [hcv]
      cases hh : s.list.head with
      | none => rw [hh] at hn; simp [PC.node] at hn
      | some m =>
        rw [hh] at hn
        simp only [PC.node, Option.some.injEq] at hn; subst hn
        exact walkV_head h.rep hh (by simp)
  | travCap node =>
    rw [hpc] at hs
    cases node with
    | none =>
      simp only [Option.some.injEq] at hs; subst hs
      exact stepOK_finish h hg (by rw [hpc]; rfl) (by rw [hpc]; intro r' hr'; cases hr')
    | some n =>
      simp only [Option.some.injEq] at hs; subst hs
      refine stepOK_goto h hg (by rw [hpc]; rfl) ?_ rfl (by simp [PC.start]) ?_
      · intro c hc
        apply ht.call
        rw [hpc]; simpa [callOf] using hc
      · intro n' hn'
        simp only [PC.node, Option.some.injEq] at hn'; subst hn'
        have := ht.walk n (by rw [hpc]; rfl)
        rw [hpc] at this
        exact this
  | travCheck n cap =>
    rw [hpc] at hs
    simp only at hs
    have hw := ht.walk n (by rw [hpc]; rfl)
    rw [hpc] at hw
    have hcall : ∀ c, some Call.invoke = some c → th.prog.head? = some c := by
      intro c hc
      apply ht.call
      rw [hpc]; simpa [callOf] using hc
    split at hs
    · simp only [Option.some.injEq] at hs; subst hs
      refine stepOK_goto h hg (by rw [hpc]; rfl) hcall rfl (by simp [PC.start]) ?_
      intro n' hn'
      simp only [PC.node, Option.some.injEq] at hn'; subst hn'
      exact hw
    · simp only [Option.some.injEq] at hs; subst hs
      refine stepOK_goto h hg (by rw [hpc]; rfl) hcall rfl (by simp [PC.start]) ?_
      intro n' hn'
      simp only [PC.node, Option.some.injEq] at hn'; subst hn'
      exact hw.ex_true (by simp)
  | travCall n cap =>
    rw [hpc] at hs
    simp only [Option.some.injEq] at hs; subst hs
    have hw := ht.walk n (by rw [hpc]; rfl)
    rw [hpc] at hw
    have hw' := walkV_visit h.rep (fun x hx => (h.pend_counter x hx).1) hw
    unfold StepOK
    have he : specEffect th.pc SL = (SL, none) := by rw [hpc]; rfl
    rw [he]
    have hrec : ∀ V ∈ (addVisit th n (s.list.heap n).cb).visits,
        V ∈ th.visits ∨ V.map (·.1) = curV th ++ [n] := by
      intro V hV
      rw [addVisit_visits] at hV
      rcases List.mem_append.mp hV with hV | hV
      · exact Or.inl (List.dropLast_subset _ hV)
      · simp only [List.mem_singleton] at hV
        subst hV
        right; simp [curV]
    refine ⟨invW_local h hg rfl ⟨?_, ?_, ?_, ?_, ?_, ?_, ?_⟩, fun r hr => by cases hr⟩
    rotate_left 5
    · intro V hV
      rcases hrec V hV with hV | hV
      · exact ht.visP V hV
      · rw [hV]; exact hw'.1
    · intro V hV
      rcases hrec V hV with hV | hV
      · exact ht.ord V hV
      · rw [hV]; exact walkV_ord hw'
    · intro c hc
      show (addVisit th n _).prog.head? = some c
      rw [addVisit_prog]
      apply ht.call
      rw [hpc]; simpa [callOf] using hc
    · intro V hV
      have hV' : V ∈ (addVisit th n (s.list.heap n).cb).visits := hV
      rw [addVisit_visits] at hV'
      rcases List.mem_append.mp hV' with hV' | hV'
      · exact ht.vis V (List.dropLast_subset _ hV')
      · simp only [List.mem_singleton] at hV'
        subst hV'
        have := hw'.2.1
        simpa [curV] using this
    · intro k cb bf id c hpc'
      cases hpc'
    · intro hst; simp [PC.start] at hst
    · intro n' hn'
      simp only [PC.node, Option.some.injEq] at hn'; subst hn'
      show WalkV _ _ _ _ (curV (addVisit th n _)) [] true n
      rw [addVisit_curV]
      exact hw'
  | travNext n cap =>
    rw [hpc] at hs
    simp only at hs
    have hw := ht.walk n (by rw [hpc]; rfl)
    rw [hpc] at hw
    cases hnx : (s.list.heap n).next with
    | none =>
      rw [hnx] at hs
      simp only [Option.some.injEq] at hs; subst hs
      exact stepOK_finish h hg (by rw [hpc]; rfl) (by rw [hpc]; intro r' hr'; cases hr')
    | some m =>
      rw [hnx] at hs
      simp only [Option.some.injEq] at hs; subst hs
      refine stepOK_goto h hg (by rw [hpc]; rfl) ?_ rfl (by simp [PC.start]) ?_
      · intro c hc
        apply ht.call
        rw [hpc]; simpa [callOf] using hc
      · intro n' hn'
        simp only [PC.node, Option.some.injEq] at hn'; subst hn'
        exact walkV_next h.rep hw hnx

/-! ### the shape of a step: what happens to the threads -/

/-- the micro-steps that are linearization points -/
def PC.isLin : PC → Bool
  | .link _ _ _ _ _ => true
  | .removeCs _ => true
  | .ownsCs _ => true
  | .emptyRead => true
  | _ => false

theorem set_same {ths : List Thread} {t : Nat} {th : Thread} (hg : ths[t]? = some th) : ths.set t th = ths := by
  apply List.ext_getElem?
  intro i
  by_cases hi : i = t
  · subst hi; rw [getElem?_set_self' hg, hg]
  · rw [getElem?_set_other' hi]

/-- what a step does to the threads: only thread `t` changes; it holds a pending node afterwards
    only if the step was a (non-wrapping) `draw`, and then it is the node just allocated; its
    program loses its head exactly when a call ends, i.e. at a linearization step or at the end of
    an invocation. -/
def Shape (s s' : State) (t : Nat) (th th' : Thread) : Prop :=
  s'.threads = s.threads.set t th' ∧ s.nextId ≤ s'.nextId ∧
  (th'.pc.pendId = none ∨ (th'.pc.pendId = some s.nextId ∧ s'.nextId = s.nextId + 1)) ∧
  ((th'.prog = th.prog ∧ th'.rets = th.rets ∧ th.pc.isLin = false) ∨
   (th'.prog = th.prog.tail ∧ th'.pc = .idle ∧ (th.pc.isLin = true ∨
      (callOf th.pc = some .invoke ∧ th'.rets = th.rets ++ [.unit]))))

theorem shape_goto (s : State) (t : Nat) (th : Thread) (pc' : PC) (hp : pc'.pendId = none)
    (hl : th.pc.isLin = false) : Shape s (goto s t th pc') t th { th with pc := pc' } :=
  ⟨rfl, Nat.le_refl _, Or.inl hp, Or.inl ⟨rfl, rfl, hl⟩⟩

theorem step_shape {s s' : State} {t : Nat} {th : Thread}
    (hg : getT s t = some th) (hs : step s t = some s') : ∃ th', Shape s s' t th th' := by
  unfold step at hs
  rw [hg] at hs
  simp only at hs
  cases hpc : th.pc with
  | idle =>
    rw [hpc] at hs
    simp only at hs
    cases hprog : th.prog with
    | nil => rw [hprog] at hs; simp at hs
    | cons c rest =>
      rw [hprog] at hs
      cases c <;> simp only [Option.some.injEq] at hs <;> subst hs
      all_goals first
        | exact ⟨_, shape_goto s t th _ rfl (by rw [hpc]; rfl)⟩
        | exact ⟨_, rfl, Nat.le_refl _, Or.inl rfl, Or.inl ⟨hprog.symm, rfl, by rw [hpc]; rfl⟩⟩
  | insBefore cb b =>
    rw [hpc] at hs
    simp only [Option.some.injEq] at hs; subst hs
    exact ⟨_, shape_goto s t th _ rfl (by rw [hpc]; rfl)⟩
  | draw k cb b =>
    rw [hpc] at hs
    simp only at hs
    split at hs
    · simp only [Option.some.injEq] at hs; subst hs
      refine ⟨th, (set_same hg).symm, Nat.le_refl _, Or.inl (by rw [hpc]; rfl), Or.inl ⟨rfl, rfl, by rw [hpc]; rfl⟩⟩
    · simp only [Option.some.injEq] at hs; subst hs
      exact ⟨_, rfl, Nat.le_succ _, Or.inr ⟨rfl, rfl⟩, Or.inl ⟨rfl, rfl, by rw [hpc]; rfl⟩⟩
  | link k cb b id c =>
    rw [hpc] at hs
    simp only [Option.some.injEq] at hs; subst hs
    exact ⟨_, rfl, Nat.le_refl _, Or.inl rfl, Or.inr ⟨rfl, rfl, Or.inl (by rw [hpc]; rfl)⟩⟩
  | removeCs hd =>
    rw [hpc] at hs
    simp only [Option.some.injEq] at hs; subst hs
    exact ⟨_, rfl, Nat.le_refl _, Or.inl rfl, Or.inr ⟨rfl, rfl, Or.inl (by rw [hpc]; rfl)⟩⟩
  | ownsCs hd =>
    rw [hpc] at hs
    simp only [Option.some.injEq] at hs; subst hs
    exact ⟨_, rfl, Nat.le_refl _, Or.inl rfl, Or.inr ⟨rfl, rfl, Or.inl (by rw [hpc]; rfl)⟩⟩
  | emptyRead =>
    rw [hpc] at hs
    simp only [Option.some.injEq] at hs; subst hs
    exact ⟨_, rfl, Nat.le_refl _, Or.inl rfl, Or.inr ⟨rfl, rfl, Or.inl (by rw [hpc]; rfl)⟩⟩
  | travStart =>
    rw [hpc] at hs
    simp only [Option.some.injEq] at hs; subst hs
    exact ⟨_, shape_goto s t th _ rfl (by rw [hpc]; rfl)⟩
  | travCap node =>
    rw [hpc] at hs
    cases node with
    | none =>
      simp only [Option.some.injEq] at hs; subst hs
      exact ⟨_, rfl, Nat.le_refl _, Or.inl rfl, Or.inr ⟨rfl, rfl, Or.inr ⟨by rw [hpc]; rfl, rfl⟩⟩⟩
    | some n =>
      simp only [Option.some.injEq] at hs; subst hs
      exact ⟨_, shape_goto s t th _ rfl (by rw [hpc]; rfl)⟩
  | travCheck n cap =>
    rw [hpc] at hs
    simp only at hs
    split at hs <;> simp only [Option.some.injEq] at hs <;> subst hs <;>
      exact ⟨_, shape_goto s t th _ rfl (by rw [hpc]; rfl)⟩
  | travCall n cap =>
    rw [hpc] at hs
    simp only [Option.some.injEq] at hs; subst hs
    exact ⟨_, rfl, Nat.le_refl _, Or.inl rfl,
      Or.inl ⟨addVisit_prog _ _ _, addVisit_rets _ _ _, by rw [hpc]; rfl⟩⟩
  | travNext n cap =>
    rw [hpc] at hs
    simp only at hs
    cases hnx : (s.list.heap n).next with
    | none =>
      rw [hnx] at hs
      simp only [Option.some.injEq] at hs; subst hs
      exact ⟨_, rfl, Nat.le_refl _, Or.inl rfl, Or.inr ⟨rfl, rfl, Or.inr ⟨by rw [hpc]; rfl, rfl⟩⟩⟩
    | some m =>
      rw [hnx] at hs
      simp only [Option.some.injEq] at hs; subst hs
      exact ⟨_, shape_goto s t th _ rfl (by rw [hpc]; rfl)⟩

theorem Shape.getT_self {s s' t th th'} (h : Shape s s' t th th') (hg : getT s t = some th) :
    getT s' t = some th' := by
  show s'.threads[t]? = _
  rw [h.1]; exact getElem?_set_self' hg

theorem Shape.getT_other {s s' t th th' v} (h : Shape s s' t th th') (hv : v ≠ t) :
    getT s' v = getT s v := by
  show s'.threads[v]? = _
  rw [h.1]; exact getElem?_set_other' hv

/-! ### handles are issued once

  `Avail s x`: the id `x` can still be handed out as a handle by a later `link` — it is pending or
  not yet allocated.  Once unavailable, always unavailable. -/
def Avail (s : State) (x : Nat) : Prop := Pend s.threads x ∨ s.nextId ≤ x

theorem avail_step {s s' : State} {t : Nat} {th : Thread} (hg : getT s t = some th)
    (hs : step s t = some s') (x : Nat) (ha : Avail s' x) : Avail s x := by
  obtain ⟨th', h1, h2, h3, _⟩ := step_shape hg hs
  rcases ha with ha | ha
  · rw [h1] at ha
    rcases (pend_set_iff hg x).mp ha with hp | ⟨v, thv, _, hv1, hv2⟩
    · rcases h3 with h3 | h3
      · rw [h3] at hp; cases hp
      · rw [h3.1] at hp; cases hp; exact Or.inr (Nat.le_refl _)
    · exact Or.inl ⟨v, thv, hv1, hv2⟩
  · exact Or.inr (Nat.le_trans h2 ha)

/-- available ids are not in the list -/
theorem InvW.avail_not_mem {s SL} (h : InvW s SL) {x : Nat} (ha : Avail s x) : x ∉ SL.ids := by
  intro hm
  rcases ha with ha | ha
  · exact (h.rep.wf.live x).mp hm (h.pend_counter x ha).1
  · have := h.rep.wf.lt x hm; omega

/-- the handle issued by a `link` step is no longer available afterwards -/
theorem avail_link {s s' : State} {SL : SList} {t : Nat} {th : Thread} {k cb bf id c} (h : InvW s SL)
    (hg : getT s t = some th) (hs : step s t = some s') (hpc : th.pc = .link k cb bf id c) :
    Avail s id ∧ ¬ Avail s' id := by
  obtain ⟨th', hsh⟩ := step_shape hg hs
  have hsh' := hsh
  obtain ⟨h1, h2, _, h4⟩ := hsh
  have hidle : th'.pc = .idle := by
    rcases h4 with h4 | h4
    · rw [hpc] at h4; exact absurd h4.2.2 (by simp [PC.isLin])
    · exact h4.2.1
  have hpend : Pend s.threads id := ⟨t, th, hg, by rw [hpc]; rfl⟩
  refine ⟨Or.inl hpend, ?_⟩
  rintro (ha | ha)
  · rw [h1] at ha
    rcases (pend_set_iff hg id).mp ha with hp | ⟨v, thv, hvt, hv1, hv2⟩
    · rw [hidle] at hp; cases hp
    · exact hvt (h.uniq v t thv th id hv1 hg hv2 (by rw [hpc]; rfl))
  · have := (h.pend_counter id hpend).2
    have hn : s'.nextId = s.nextId := by
      unfold step at hs
      rw [hg] at hs
      simp only [hpc, Option.some.injEq] at hs
      subst hs; rfl
    omega

/-! ### the list object after a step; the traversal steps spelled out -/

/-- the list object after the micro-step of a thread at `pc` -/
def listAfter (l : CL) : PC → CL
  | .draw _ _ _ => if l.willWrap then l else { l with cur := l.cur + 1 }
  | .link k cb b id c => linkOf l k cb b id c
  | .removeCs h => (l.remove h).1
  | _ => l

theorem step_list {s s' : State} {t : Nat} {th : Thread}
    (hg : getT s t = some th) (hs : step s t = some s') : s'.list = listAfter s.list th.pc := by
  unfold step at hs
  rw [hg] at hs
  simp only at hs
  cases hpc : th.pc <;> rw [hpc] at hs <;> simp only at hs
  case draw k cb b =>
    split at hs
    · rename_i hw
      cases hs; simp [listAfter, hw]
    · rename_i hw
      cases hs; simp [listAfter, hw]; rfl
  case link k cb b id c => cases hs; rfl
  all_goals (repeat' split at hs)
  all_goals first
    | (cases hs; rfl)
    | (exact absurd hs (by simp))

theorem step_travCheck {s : State} {t : Nat} {th : Thread} {n cap : Nat} (hg : getT s t = some th)
    (hpc : th.pc = .travCheck n cap) :
    step s t = some (goto s t th (if guard (s.list.heap n).counter cap then .travCall n cap else .travNext n cap)) := by
  unfold step
  rw [hg]
  simp only [hpc]
  split <;> rfl

theorem step_travCall {s : State} {t : Nat} {th : Thread} {n cap : Nat} (hg : getT s t = some th)
    (hpc : th.pc = .travCall n cap) :
    step s t = some (goto s t (addVisit th n (s.list.heap n).cb) (.travNext n cap)) := by
  unfold step
  rw [hg]
  simp only [hpc]

/-- the record of the invocation in progress -/
def curVisit (th : Thread) : List (Nat × Cb) := th.visits.getLast?.getD []

theorem addVisit_curVisit (th : Thread) (n : Nat) (cb : Cb) :
    curVisit (addVisit th n cb) = curVisit th ++ [(n, cb)] := by
  unfold curVisit
  rw [addVisit_visits]
  simp

/-- callbacks of nodes are written only by the `link` of that node -/
theorem cb_stable {s s' : State} {SL : SList} {t : Nat} {th : Thread} (h : InvW s SL)
    (hg : getT s t = some th) (hs : step s t = some s') (x : Nat) (hx : th.pc.pendId ≠ some x) :
    (s'.list.heap x).cb = (s.list.heap x).cb := by
  rw [step_list hg hs]
  have ht := h.thr t th hg
  cases hpc : th.pc <;> simp only [listAfter]
  case draw k cb b => split <;> rfl
  case link k cb b id c =>
    obtain ⟨c1, c2, c3, c4⟩ := ht.link _ _ _ _ _ hpc
    obtain ⟨_, _, r3, _⟩ := rep_linkOf (k := k) (cb := cb) (bf := b) h.rep c3 c4 (by omega) c2
    rw [(r3 x).2, if_neg]
    intro e; subst e
    exact hx (by rw [hpc]; rfl)
  case removeCs hd => exact remove_cb _ _ _

/-! ### lifting over schedules -/

theorem invW_init (progs : List (List Call)) : InvW (init progs) [] := by
  refine ⟨Rep.empty 0, ?_, ?_⟩
  · intro t th hg
    have hg' : (progs.map (fun p => ({ prog := p } : Thread)))[t]? = some th := hg
    rw [List.getElem?_map] at hg'
    cases hp : progs[t]? with
    | none => rw [hp] at hg'; cases hg'
    | some p =>
      rw [hp] at hg'
      simp only [Option.map_some, Option.some.injEq] at hg'
      subst hg'
      refine ⟨by simp [callOf], by simp, ?_, by simp [PC.start], by simp [PC.node], by simp, by simp⟩
      intro k cb bf id c hpc; cases hpc
  · intro t u th th' id hg _ hp _
    have hg' : (progs.map (fun p => ({ prog := p } : Thread)))[t]? = some th := hg
    rw [List.getElem?_map] at hg'
    cases hq : progs[t]? with
    | none => rw [hq] at hg'; cases hg'
    | some p =>
      rw [hq] at hg'
      simp only [Option.map_some, Option.some.injEq] at hg'
      subst hg'
      cases hp

theorem inv_step {s s' : State} {t : Nat} (h : Inv s) (hs : step s t = some s') : Inv s' := by
  obtain ⟨SL, h⟩ := h
  cases hg : getT s t with
  | none => unfold step at hs; rw [hg] at hs; cases hs
  | some th => exact ⟨_, (invW_step h hg hs).1⟩

theorem inv_exec {s : State} (h : Inv s) (sched : List Nat) : Inv (exec s sched) := by
  induction sched generalizing s with
  | nil => exact h
  | cons t r ih =>
    unfold exec
    cases hs : step s t with
    | none => exact ih h
    | some s' => exact ih (inv_step h hs)

theorem inv_reach {progs : List (List Call)} {s : State} (h : Reach progs s) : Inv s := by
  obtain ⟨sched, rfl⟩ := h
  exact inv_exec ⟨[], invW_init progs⟩ sched

end Evp.ConcL
