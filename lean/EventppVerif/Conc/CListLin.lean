import EventppVerif.Conc.CListInv
import EventppVerif.CL.PropAuxC19
import EventppVerif.CL.PropAux
/-
  Linearization log of the concurrent callback-list model: the ghost log of linearization steps, the
  sequential Spec run of a log, and the facts relating them.  Helper definitions and lemmas for
  Properties/C03.lean.
-/
namespace Evp.ConcL
open Evp

/-- one linearized call: (thread, call, result) -/
abbrev LogEntry := Nat × Call × Ret

/-- What the step `s → s'` of thread `t` contributes to the log: if it is a linearization step
    (`link`, `removeCs`, `ownsCs`, `emptyRead`), the call at the head of the thread's program together
    with the result the step recorded for it (the last entry of the thread's `rets` afterwards). -/
def linEntry (s s' : State) (t : Nat) : Option LogEntry :=
  match getT s t, getT s' t with
  | some th, some th' =>
    if th.pc.isLin then
      match th.prog.head?, th'.rets.getLast? with
      | some c, some r => some (t, c, r)
      | _, _ => none
    else none
  | _, _ => none

/-- the ghost log of a schedule: replay it and record every linearization step -/
def logOf (s : State) : List Nat → List LogEntry
  | [] => []
  | t :: rest =>
    match step s t with
    | some s' => (linEntry s s' t).toList ++ logOf s' rest
    | none => logOf s rest

/-- One call of a sequential history: the Spec list after `c`, provided `r` is the result the Spec
    gives (`none` if it is not).  For the adding calls the result is the new handle, which the Spec
    operation takes as a parameter; that handles are new is `adds_fresh` below. -/
def specCall (SL : SList) (c : Call) (r : Ret) : Option SList :=
  match c, r with
  | .append cb, .handle id => some (SL.append id cb)
  | .prepend cb, .handle id => some (SL.prepend id cb)
  | .insert cb b, .handle id => some (SL.insert id cb b)
  | .remove h, .bool r => if (SL.remove h).2 = r then some (SL.remove h).1 else none
  | .owns h, .bool r => if SL.present h = r then some SL else none
  | .empty, .bool r => if SL.isEmpty = r then some SL else none
  | _, _ => none

/-- run a log as a sequential history from the Spec list `SL`; `none` if some result is wrong -/
def specRun : SList → List LogEntry → Option SList
  | SL, [] => some SL
  | SL, (_, c, r) :: rest =>
    match specCall SL c r with
    | some SL' => specRun SL' rest
    | none => none

/-- the handle an entry hands out -/
def addOf (e : LogEntry) : Option Nat :=
  match e.2.2 with
  | .handle h => some h
  | _ => none

/-- the handle an entry removes successfully -/
def remOf (e : LogEntry) : Option Nat :=
  match e.2.1, e.2.2 with
  | .remove h, .bool true => some h
  | _, _ => none

def adds (log : List LogEntry) : List Nat := log.filterMap addOf
def rems (log : List LogEntry) : List Nat := log.filterMap remOf

/-! ### a linearization step logs exactly what the table says -/

theorem linEntry_nonlin {s s' : State} {t : Nat} {th : Thread} (hg : getT s t = some th)
    (hl : th.pc.isLin = false) : linEntry s s' t = none := by
  unfold linEntry
  rw [hg]
  cases getT s' t <;> simp [hl]

theorem lin_table {pc : PC} (hl : pc.isLin = true) (SL : SList) :
    ∃ c r, callOf pc = some c ∧ (specEffect pc SL).2 = some r ∧ specCall SL c r = some (specEffect pc SL).1 ∧
      c ≠ .invoke := by
  cases pc <;> simp [PC.isLin] at hl
  case link k cb b id c =>
    refine ⟨_, _, rfl, rfl, ?_, ?_⟩
    · by_cases h0 : k = 0
      · simp [h0, specCall, specEffect, specLink]
      · by_cases h1 : k = 1
        · simp [h1, specCall, specEffect, specLink]
        · simp [h0, h1, specCall, specEffect, specLink]
    · by_cases h0 : k = 0
      · simp [h0]
      · by_cases h1 : k = 1 <;> simp [h0, h1]
  case removeCs h => exact ⟨_, _, rfl, rfl, by simp [specCall, specEffect], by simp⟩
  case ownsCs h => exact ⟨_, _, rfl, rfl, by simp [specCall, specEffect], by simp⟩
  case emptyRead => exact ⟨_, _, rfl, rfl, by simp [specCall, specEffect], by simp⟩

theorem nonlin_table {pc : PC} (hl : pc.isLin = false) (SL : SList) : (specEffect pc SL).1 = SL := by
  cases pc <;> simp [PC.isLin] at hl <;> rfl

theorem linEntry_lin {s s' : State} {SL : SList} {t : Nat} {th : Thread} (h : InvW s SL)
    (hg : getT s t = some th) (hs : step s t = some s') (hl : th.pc.isLin = true) :
    ∃ c r, callOf th.pc = some c ∧ (specEffect th.pc SL).2 = some r ∧
      specCall SL c r = some (specEffect th.pc SL).1 ∧ c ≠ .invoke ∧
      th.prog.head? = some c ∧ linEntry s s' t = some (t, c, r) := by
  obtain ⟨c, r, h1, h2, h3, h4⟩ := lin_table hl SL
  obtain ⟨th', g1, g2, _, _⟩ := (invW_step h hg hs).2 r h2
  have hhead := (h.thr t th hg).call c h1
  refine ⟨c, r, h1, h2, h3, h4, hhead, ?_⟩
  unfold linEntry
  rw [hg, g1]
  simp [hl, hhead, g2]

/-! ### the log is a legal sequential history -/

theorem log_legal {s : State} {SL : SList} (h : InvW s SL) (sched : List Nat) :
    ∃ SLf, InvW (exec s sched) SLf ∧ specRun SL (logOf s sched) = some SLf := by
  induction sched generalizing s SL with
  | nil => exact ⟨SL, h, rfl⟩
  | cons t rest ih =>
    unfold exec logOf
    cases hs : step s t with
    | none => exact ih h
    | some s' =>
      simp only
      cases hg : getT s t with
      | none => unfold step at hs; rw [hg] at hs; cases hs
      | some th =>
        have hst := (invW_step h hg hs).1
        obtain ⟨SLf, i1, i2⟩ := ih hst
        refine ⟨SLf, i1, ?_⟩
        cases hl : th.pc.isLin with
        | false =>
          rw [linEntry_nonlin hg hl]
          rw [nonlin_table hl] at i2
          exact i2
        | true =>
          obtain ⟨c, r, _, _, h3, _, _, h6⟩ := linEntry_lin h hg hs hl
          rw [h6]
          simp only [Option.toList, List.cons_append, List.nil_append, specRun, h3]
          exact i2

/-! ### handles are new -/

theorem addOf_lin {s s' : State} {SL : SList} {t : Nat} {th : Thread} {c : Call} {r : Ret} {x : Nat}
    (h : InvW s SL) (hg : getT s t = some th) (hs : step s t = some s')
    (h2 : (specEffect th.pc SL).2 = some r) (hx : addOf (t, c, r) = some x) :
    Avail s x ∧ ¬ Avail s' x := by
  cases hpc : th.pc <;> rw [hpc] at h2 <;> simp [specEffect] at h2 <;> subst h2 <;> simp [addOf] at hx
  subst hx
  exact avail_link h hg hs hpc

/-- the handles handed out along a schedule are available before it, and pairwise distinct -/
theorem adds_fresh {s : State} {SL : SList} (h : InvW s SL) (sched : List Nat) :
    (∀ x ∈ adds (logOf s sched), Avail s x) ∧ (adds (logOf s sched)).Nodup := by
  induction sched generalizing s SL with
  | nil => simp [logOf, adds]
  | cons t rest ih =>
    unfold logOf
    cases hs : step s t with
    | none => exact ih h
    | some s' =>
      simp only
      cases hg : getT s t with
      | none => unfold step at hs; rw [hg] at hs; cases hs
      | some th =>
        have hst := (invW_step h hg hs).1
        obtain ⟨i1, i2⟩ := ih hst
        have hav : ∀ x ∈ adds (logOf s' rest), Avail s x := fun x hx => avail_step hg hs x (i1 x hx)
        cases hl : th.pc.isLin with
        | false =>
          rw [linEntry_nonlin hg hl]
          exact ⟨hav, i2⟩
        | true =>
          obtain ⟨c, r, _, h2, _, _, _, h6⟩ := linEntry_lin h hg hs hl
          rw [h6]
          simp only [Option.toList, List.cons_append, List.nil_append, adds, List.filterMap_cons]
          cases hx : addOf (t, c, r) with
          | none => exact ⟨hav, i2⟩
          | some x =>
            obtain ⟨a1, a2⟩ := addOf_lin h hg hs h2 hx
            simp only
            refine ⟨?_, List.nodup_cons.mpr ⟨fun hm => a2 (i1 x hm), i2⟩⟩
            intro y hy
            rcases List.mem_cons.mp hy with rfl | hy
            · exact a1
            · exact hav y hy

/-! ### consequences at the Spec level: what a legal history with new handles does -/

theorem specCall_cases {SL SL' : SList} {t : Nat} {c : Call} {r : Ret} (hc : specCall SL c r = some SL') :
    (∃ id, addOf (t, c, r) = some id ∧ remOf (t, c, r) = none ∧ ∀ x, x ∈ SL'.ids ↔ x ∈ SL.ids ∨ x = id) ∨
    (∃ h, addOf (t, c, r) = none ∧ remOf (t, c, r) = some h ∧ h ∈ SL.ids ∧
      ∀ x, x ∈ SL'.ids ↔ x ∈ SL.ids ∧ x ≠ h) ∨
    (SL' = SL ∧ addOf (t, c, r) = none ∧ remOf (t, c, r) = none) := by
  cases c <;> cases r <;> simp only [specCall, Option.some.injEq, reduceCtorEq] at hc
  case append.handle cb id =>
    subst hc
    exact Or.inl ⟨id, rfl, rfl, fun x => mem_ids_append⟩
  case prepend.handle cb id =>
    subst hc
    exact Or.inl ⟨id, rfl, rfl, fun x => mem_ids_prepend⟩
  case insert.handle cb b id =>
    subst hc
    exact Or.inl ⟨id, rfl, rfl, fun x => mem_ids_insert⟩
  case remove.bool h b =>
    split at hc
    · rename_i hb
      cases hc
      cases b with
      | true =>
        rw [SList.remove_snd] at hb
        refine Or.inr (Or.inl ⟨h, rfl, rfl, SList.present_iff.mp hb, fun x => ?_⟩)
        rw [← SList.present_iff, SList.present_remove, ← SList.present_iff]
        simp
      | false =>
        rw [SList.remove_snd] at hb
        rw [SList.remove_absent _ _ hb]
        exact Or.inr (Or.inr ⟨rfl, rfl, rfl⟩)
    · cases hc
  case owns.bool h b =>
    split at hc
    · cases hc; exact Or.inr (Or.inr ⟨rfl, rfl, rfl⟩)
    · cases hc
  case empty.bool b =>
    split at hc
    · cases hc; exact Or.inr (Or.inr ⟨rfl, rfl, rfl⟩)
    · cases hc

/-- an id that is not in the list and is not handed out is never removed successfully -/
theorem rems_absent : ∀ (log : List LogEntry) {SL SL' : SList} {x : Nat}, specRun SL log = some SL' →
    x ∉ SL.ids → x ∉ adds log → x ∉ rems log
  | [], _, _, _, _, _, _ => by simp [rems]
  | (t, c, r) :: rest, SL, SL', x, hr, hx, ha => by
    simp only [specRun] at hr
    cases hc : specCall SL c r with
    | none => rw [hc] at hr; cases hr
    | some SL1 =>
      rw [hc] at hr
      simp only at hr
      simp only [adds, List.filterMap_cons] at ha
      simp only [rems, List.filterMap_cons]
      rcases specCall_cases (t := t) hc with ⟨id, a1, a2, a3⟩ | ⟨h, a1, a2, a3, a4⟩ | ⟨a0, a1, a2⟩
      · rw [a1] at ha; rw [a2]
        simp only [List.mem_cons, not_or] at ha
        exact rems_absent rest hr (fun hm => by rcases (a3 x).mp hm with h | h; exact hx h; exact ha.1 h) ha.2
      · rw [a1] at ha; rw [a2]
        simp only [List.mem_cons, not_or]
        refine ⟨fun e => hx (e ▸ a3), ?_⟩
        exact rems_absent rest hr (fun hm => hx ((a4 x).mp hm).1) ha
      · rw [a1] at ha; rw [a2]; subst a0
        exact rems_absent rest hr hx ha

/-- **each handle is removed successfully at most once** -/
theorem rems_nodup : ∀ (log : List LogEntry) {SL SL' : SList}, specRun SL log = some SL' →
    (∀ a ∈ adds log, a ∉ SL.ids) → (adds log).Nodup → (rems log).Nodup
  | [], _, _, _, _, _ => by simp [rems]
  | (t, c, r) :: rest, SL, SL', hr, hf, hn => by
    simp only [specRun] at hr
    cases hc : specCall SL c r with
    | none => rw [hc] at hr; cases hr
    | some SL1 =>
      rw [hc] at hr
      simp only at hr
      simp only [adds, List.filterMap_cons] at hf hn
      simp only [rems, List.filterMap_cons]
      rcases specCall_cases (t := t) hc with ⟨id, a1, a2, a3⟩ | ⟨h, a1, a2, a3, a4⟩ | ⟨a0, a1, a2⟩
      · rw [a1] at hf hn; rw [a2]
        simp only at hf hn
        have hn' := List.nodup_cons.mp hn
        refine rems_nodup rest hr (fun a ha hm => ?_) hn'.2
        rcases (a3 a).mp hm with h | h
        · exact hf a (List.mem_cons_of_mem _ ha) h
        · exact hn'.1 (h ▸ ha)
      · rw [a1] at hf hn; rw [a2]
        simp only at hf hn
        have ih := rems_nodup rest hr (fun a ha hm => hf a ha ((a4 a).mp hm).1) hn
        refine List.nodup_cons.mpr ⟨?_, ih⟩
        exact rems_absent rest hr (fun hm => ((a4 h).mp hm).2 rfl) (fun hm => hf h hm a3)
      · rw [a1] at hf hn; rw [a2]; subst a0
        exact rems_nodup rest hr hf hn

/-- **nothing is lost or duplicated**: the final list holds exactly the ids that were in the list or
    handed out, and not removed successfully -/
theorem ids_final : ∀ (log : List LogEntry) {SL SL' : SList}, specRun SL log = some SL' →
    (∀ a ∈ adds log, a ∉ SL.ids) → (adds log).Nodup →
    ∀ x, x ∈ SL'.ids ↔ (x ∈ SL.ids ∨ x ∈ adds log) ∧ x ∉ rems log
  | [], SL, SL', hr, _, _, x => by
    simp only [specRun, Option.some.injEq] at hr
    subst hr
    simp [adds, rems]
  | (t, c, r) :: rest, SL, SL', hr, hf, hn, x => by
    simp only [specRun] at hr
    cases hc : specCall SL c r with
    | none => rw [hc] at hr; cases hr
    | some SL1 =>
      rw [hc] at hr
      simp only at hr
      simp only [adds, List.filterMap_cons] at hf hn
      simp only [adds, rems, List.filterMap_cons]
      rcases specCall_cases (t := t) hc with ⟨id, a1, a2, a3⟩ | ⟨h, a1, a2, a3, a4⟩ | ⟨a0, a1, a2⟩
      · rw [a1] at hf hn; rw [a1, a2]
        simp only at hf hn
        have hn' := List.nodup_cons.mp hn
        have ih := ids_final rest hr (fun a ha hm => by
          rcases (a3 a).mp hm with h | h
          · exact hf a (List.mem_cons_of_mem _ ha) h
          · exact hn'.1 (h ▸ ha)) hn'.2 x
        rw [ih, a3 x]
        simp only [adds, rems, List.mem_cons]
        constructor
        · rintro ⟨(h | h) | h, h'⟩
          · exact ⟨Or.inl h, h'⟩
          · exact ⟨Or.inr (Or.inl h), h'⟩
          · exact ⟨Or.inr (Or.inr h), h'⟩
        · rintro ⟨h | h | h, h'⟩
          · exact ⟨Or.inl (Or.inl h), h'⟩
          · exact ⟨Or.inl (Or.inr h), h'⟩
          · exact ⟨Or.inr h, h'⟩
      · rw [a1] at hf hn; rw [a1, a2]
        simp only at hf hn
        have ih := ids_final rest hr (fun a ha hm => hf a ha ((a4 a).mp hm).1) hn x
        rw [ih, a4 x]
        simp only [adds, rems, List.mem_cons, not_or]
        constructor
        · rintro ⟨h1 | h1, h'⟩
          · exact ⟨Or.inl h1.1, h1.2, h'⟩
          · refine ⟨Or.inr h1, fun e => ?_, h'⟩
            subst e
            exact hf x h1 a3
        · rintro ⟨h1 | h1, h2, h'⟩
          · exact ⟨Or.inl ⟨h1, h2⟩, h'⟩
          · exact ⟨Or.inr h1, h'⟩
      · rw [a1] at hf hn; rw [a1, a2]; subst a0
        exact ids_final rest hr hf hn x

/-! ### program order and real-time order -/

/-- the adding, removing and querying calls a thread has not yet completed -/
def pendingCalls (s : State) (t : Nat) : List Call :=
  match getT s t with
  | some th => th.prog.filter (fun c => c != .invoke)
  | none => []

/-- the calls of thread `t` in a log, in log order -/
def callsIn (log : List LogEntry) (t : Nat) : List Call :=
  (log.filter (fun e => e.1 == t)).map (·.2.1)

theorem logOf_append (s : State) (a b : List Nat) :
    logOf s (a ++ b) = logOf s a ++ logOf (exec s a) b := by
  induction a generalizing s with
  | nil => rfl
  | cons t rest ih =>
    simp only [List.cons_append, logOf, exec]
    cases step s t with
    | none => exact ih s
    | some s' => simp only [ih s', List.append_assoc]

theorem exec_append (s : State) (a b : List Nat) : exec s (a ++ b) = exec (exec s a) b := by
  induction a generalizing s with
  | nil => rfl
  | cons t rest ih =>
    simp only [List.cons_append, exec]
    cases step s t with
    | none => exact ih s
    | some s' => exact ih s'

theorem program_order {s : State} {SL : SList} (h : InvW s SL) (sched : List Nat) (u : Nat) :
    callsIn (logOf s sched) u ++ pendingCalls (exec s sched) u = pendingCalls s u := by
  induction sched generalizing s SL with
  | nil => simp [logOf, exec, callsIn]
  | cons t rest ih =>
    unfold exec logOf
    cases hs : step s t with
    | none => exact ih h
    | some s' =>
      simp only
      cases hg : getT s t with
      | none => unfold step at hs; rw [hg] at hs; cases hs
      | some th =>
        have hst := (invW_step h hg hs).1
        have ih' := ih hst
        obtain ⟨th', hsh⟩ := step_shape hg hs
        have hself := hsh.getT_self hg
        by_cases hut : u = t
        · subst hut
          have hp' : pendingCalls s' u = th'.prog.filter (fun c => c != .invoke) := by
            unfold pendingCalls; rw [hself]
          have hp : pendingCalls s u = th.prog.filter (fun c => c != .invoke) := by
            unfold pendingCalls; rw [hg]
          cases hl : th.pc.isLin with
          | false =>
            rw [linEntry_nonlin hg hl]
            simp only [Option.toList, List.nil_append]
            rw [ih', hp', hp]
            rcases hsh.2.2.2 with h4 | h4
            · rw [h4.1]
            · rcases h4.2.2 with h5 | h5
              · rw [hl] at h5; cases h5
              · have hhead := (h.thr u th hg).call _ h5.1
                rw [h4.1]
                cases hpr : th.prog with
                | nil => rfl
                | cons c0 r0 =>
                  rw [hpr] at hhead
                  simp only [List.head?_cons, Option.some.injEq] at hhead
                  subst hhead
                  simp
          | true =>
            obtain ⟨c, r, _, _, _, hne, hhead, h6⟩ := linEntry_lin h hg hs hl
            rw [h6]
            simp only [Option.toList, List.cons_append, List.nil_append, callsIn, List.filter_cons,
              beq_self_eq_true, if_true, List.map_cons]
            have ih'' : (List.map (fun x => x.2.1) (List.filter (fun e => e.1 == u) (logOf s' rest))) ++
                pendingCalls (exec s' rest) u = pendingCalls s' u := ih'
            rw [ih'', hp', hp]
            rcases hsh.2.2.2 with h4 | h4
            · rw [hl] at h4; exact absurd h4.2.2 (by simp)
            · rw [h4.1]
              cases hpr : th.prog with
              | nil => rw [hpr] at hhead; cases hhead
              | cons c0 r0 =>
                rw [hpr] at hhead
                simp only [List.head?_cons, Option.some.injEq] at hhead
                subst hhead
                simp [hne]
        · have hoth : pendingCalls s' u = pendingCalls s u := by
            unfold pendingCalls; rw [hsh.getT_other hut]
          have hcalls : callsIn ((linEntry s s' t).toList ++ logOf s' rest) u = callsIn (logOf s' rest) u := by
            cases hl : th.pc.isLin with
            | false => rw [linEntry_nonlin hg hl]; rfl
            | true =>
              obtain ⟨c, r, _, _, _, _, _, h6⟩ := linEntry_lin h hg hs hl
              rw [h6]
              have : (t == u) = false := by simpa using fun e => hut e.symm
              simp [callsIn, this]
          rw [hcalls, ih', hoth]

end Evp.ConcL
