import EventppVerif.Conc.CListInv
/-
  An invocation calls every callback that is in the list from its start to its end.
  The window invariant `Win`: fix the ids `G` in the list at a state where thread `t` is at
  `travStart`; as long as `t` is in that invocation, every node of `G` that is still in the list has
  been called or lies ahead of the traversal (`WalkV … G …`).  Helper lemmas for Properties/C03.lean.
-/
namespace Evp.ConcL
open Evp

/-! ### what any step does to a fixed traversal position, to counters, to `nextId` -/

theorem step_nextId {s s' : State} {t : Nat} {th : Thread}
    (hg : getT s t = some th) (hs : step s t = some s') :
    s'.nextId = s.nextId ∨ (s'.nextId = s.nextId + 1 ∧ ∃ k cb b, th.pc = .draw k cb b) := by
  unfold step at hs
  rw [hg] at hs
  simp only at hs
  cases hpc : th.pc <;> rw [hpc] at hs <;> simp only at hs
  case draw k cb b =>
    split at hs
    · cases hs; exact Or.inl rfl
    · cases hs; exact Or.inr ⟨rfl, _, _, _, rfl⟩
  case link k cb b id c => cases hs; exact Or.inl rfl
  all_goals (repeat' split at hs)
  all_goals first
    | (cases hs; exact Or.inl rfl)
    | (exact absurd hs (by simp))

/-- pending ids after a step: those before, or the one just allocated -/
theorem pend_step {s s' : State} {t : Nat} {th : Thread} (hg : getT s t = some th)
    (hs : step s t = some s') (x : Nat) (hp : Pend s'.threads x) : Pend s.threads x ∨ s.nextId ≤ x := by
  have := avail_step hg hs x (Or.inl hp)
  exact this

/-- a traversal position of any thread survives any step of any thread -/
theorem walkV_step {s s' : State} {SL : SList} {u : Nat} {thu : Thread} (h : InvW s SL)
    (hg : getT s u = some thu) (hs : step s u = some s') (V G : List Nat) (ex : Bool) (n : Nat)
    (w : WalkV s.list.heap SL.ids s.nextId (Pend s.threads) V G ex n) :
    WalkV s'.list.heap (specEffect thu.pc SL).1.ids s'.nextId (Pend s'.threads) V G ex n := by
  have hl := step_list hg hs
  have hn := step_nextId hg hs
  have hb : s.nextId ≤ s'.nextId := by rcases hn with e | e; omega; omega
  have hP : ∀ x, x < s.nextId → Pend s'.threads x → Pend s.threads x := by
    intro x hx hp
    rcases pend_step hg hs x hp with h1 | h1
    · exact h1
    · omega
  have ht := h.thr u thu hg
  rw [hl]
  cases hpc : thu.pc
  case link k cb b id c =>
    obtain ⟨c1, c2, c3, c4⟩ := ht.link _ _ _ _ _ hpc
    obtain ⟨_, _, _, r4⟩ := rep_linkOf (k := k) (cb := cb) (bf := b) h.rep c3 c4 (by omega) c2
    have hnid : s'.nextId = s.nextId := by
      rcases hn with e | ⟨_, k', cb', b', e⟩
      · exact e
      · rw [hpc] at e; cases e
    rw [hnid]
    have hPid : Pend s.threads id := ⟨u, thu, hg, by rw [hpc]; rfl⟩
    refine r4 _ _ V G ex n hPid (fun x hx => ?_) w
    rcases pend_step hg hs x hx with h1 | h1
    · exact h1
    · -- `x` would have to be the node allocated by this step, but a `link` allocates nothing
      have := (avail_link h hg hs hpc)
      obtain ⟨th', hsh⟩ := step_shape hg hs
      rcases hsh.2.2.1 with e | e
      · obtain ⟨v, thv, hv1, hv2⟩ := hx
        by_cases hvu : v = u
        · subst hvu
          have : getT s' v = some thv := hv1
          rw [hsh.getT_self hg] at this
          cases this
          rw [e] at hv2; cases hv2
        · have : getT s' v = some thv := hv1
          rw [hsh.getT_other hvu] at this
          exact ⟨v, thv, this, hv2⟩
      · omega
  case removeCs hd =>
    have hnid : s'.nextId = s.nextId := by
      rcases hn with e | ⟨_, k', cb', b', e⟩
      · exact e
      · rw [hpc] at e; cases e
    rw [hnid]
    refine walkV_remove h.rep (fun x hx => ?_) (fun x hx => (h.pend_counter x hx).1) w
    obtain ⟨th', hsh⟩ := step_shape hg hs
    have hnone : th'.pc.pendId = none := by
      rcases hsh.2.2.1 with e | e
      · exact e
      · omega
    rw [hsh.1] at hx
    exact pend_set_sub hg hnone x hx
  case draw k cb b =>
    have : (listAfter s.list (.draw k cb b)).heap = s.list.heap := by
      simp only [listAfter]; split <;> rfl
    rw [this]
    exact w.mono hb hP
  all_goals exact w.mono hb hP

/-- counters of nodes that are neither pending nor unallocated only ever drop to 0 -/
theorem counter_step {s s' : State} {SL : SList} {u : Nat} {thu : Thread} (h : InvW s SL)
    (hg : getT s u = some thu) (hs : step s u = some s') (x : Nat) (hx : ¬ Avail s x) :
    (s'.list.heap x).counter = (s.list.heap x).counter ∨ (s'.list.heap x).counter = 0 := by
  rw [step_list hg hs]
  have ht := h.thr u thu hg
  cases hpc : thu.pc
  case link k cb b id c =>
    obtain ⟨c1, c2, c3, c4⟩ := ht.link _ _ _ _ _ hpc
    obtain ⟨_, _, r3, _⟩ := rep_linkOf (k := k) (cb := cb) (bf := b) h.rep c3 c4 (by omega) c2
    have hne : x ≠ id := by
      intro e; subst e
      exact hx (Or.inl ⟨u, thu, hg, by rw [hpc]; rfl⟩)
    left
    show ((linkOf s.list k cb b id c).heap x).counter = _
    rw [(r3 x).1, if_neg hne]
  case removeCs hd =>
    rcases remove_counter' s.list hd x with e | e
    · exact Or.inr e
    · exact Or.inl e
  case draw k cb b =>
    left
    simp only [listAfter]; split <;> rfl
  all_goals exact Or.inl rfl

/-! ### the traversal steps spelled out -/

theorem step_travStart {s : State} {t : Nat} {th : Thread} (hg : getT s t = some th)
    (hpc : th.pc = .travStart) : step s t = some (goto s t th (.travCap s.list.head)) := by
  unfold step; rw [hg]; simp only [hpc]

theorem step_travCap_none {s : State} {t : Nat} {th : Thread} (hg : getT s t = some th)
    (hpc : th.pc = .travCap none) : step s t = some (finish s t th .unit) := by
  unfold step; rw [hg]; simp only [hpc]

theorem step_travCap_some {s : State} {t : Nat} {th : Thread} {n : Nat} (hg : getT s t = some th)
    (hpc : th.pc = .travCap (some n)) : step s t = some (goto s t th (.travCheck n s.list.cur)) := by
  unfold step; rw [hg]; simp only [hpc]

theorem step_travNext_none {s : State} {t : Nat} {th : Thread} {n cap : Nat} (hg : getT s t = some th)
    (hpc : th.pc = .travNext n cap) (hn : (s.list.heap n).next = none) :
    step s t = some (finish s t th .unit) := by
  unfold step; rw [hg]; simp only [hpc, hn]

theorem step_travNext_some {s : State} {t : Nat} {th : Thread} {n cap m : Nat} (hg : getT s t = some th)
    (hpc : th.pc = .travNext n cap) (hn : (s.list.heap n).next = some m) :
    step s t = some (goto s t th (.travCheck m cap)) := by
  unfold step; rw [hg]; simp only [hpc, hn]

/-! ### the window invariant -/

/-- the captured generation -/
def PC.cap : PC → Option Nat
  | .travCheck _ c => some c
  | .travCall _ c => some c
  | .travNext _ c => some c
  | _ => none

def PC.isTrav : PC → Bool
  | .travStart => true
  | .travCap _ => true
  | .travCheck _ _ => true
  | .travCall _ _ => true
  | .travNext _ _ => true
  | _ => false

/-- thread state `th` (of a traversing thread) in state `s`, relative to the owed nodes `G` -/
structure WinOK (s : State) (SL : SList) (th : Thread) (G : List Nat) : Prop where
  trav : th.pc.isTrav = true
  avail : ∀ x ∈ G, ¬ Avail s x
  empty : th.pc = .travCap none → ∀ x ∈ G, (s.list.heap x).counter = 0
  walk : ∀ n, th.pc.node = some n →
    WalkV s.list.heap SL.ids s.nextId (Pend s.threads) (curV th) G th.pc.ex n
  cap : ∀ c, th.pc.cap = some c → ∀ x ∈ G, (s.list.heap x).counter ≠ 0 → (s.list.heap x).counter ≤ c

/-- thread `t` is still inside the invocation it was in when its program was `prog0`, and the window
    invariant holds; or it has left it (its program is shorter) -/
def Win (s : State) (t : Nat) (prog0 : List Call) (G : List Nat) : Prop :=
  ∃ SL th, InvW s SL ∧ getT s t = some th ∧
    (th.prog.length < prog0.length ∨ (th.prog = prog0 ∧ WinOK s SL th G))

theorem not_avail_iff {s : State} {x : Nat} : ¬ Avail s x ↔ x < s.nextId ∧ ¬ Pend s.threads x := by
  unfold Avail
  constructor
  · intro h
    exact ⟨by rcases Nat.lt_or_ge x s.nextId with h1 | h1; exact h1; exact absurd (Or.inr h1) h,
      fun hp => h (Or.inl hp)⟩
  · rintro ⟨h1, h2⟩ (h | h)
    · exact h2 h
    · omega

/-- move the thread's own new state into the state -/
theorem winOK_setT {s : State} {SL : SList} {t : Nat} {th th' : Thread} {G : List Nat}
    (hg : getT s t = some th) (hp : th'.pc.pendId = none) (w : WinOK s SL th' G) :
    WinOK (setT s t th') SL th' G := by
  have hsub := pend_set_sub (th' := th') hg hp
  refine ⟨w.trav, fun x hx ha => w.avail x hx ?_, w.empty,
    fun n hn => (w.walk n hn).mono (Nat.le_refl _) (fun x _ hx => hsub x hx), w.cap⟩
  rcases ha with ha | ha
  · exact Or.inl (hsub x ha)
  · exact Or.inr ha

theorem win_start {s : State} {SL : SList} {t : Nat} {th : Thread} (h : InvW s SL)
    (hg : getT s t = some th) (hpc : th.pc = .travStart) : Win s t th.prog SL.ids := by
  refine ⟨SL, th, h, hg, Or.inr ⟨rfl, ?_⟩⟩
  refine ⟨by rw [hpc]; rfl, fun x hx ha => h.avail_not_mem ha hx, (by rw [hpc]; intro e; cases e),
    (by rw [hpc]; intro n hn; cases hn), (by rw [hpc]; intro c hc; cases hc)⟩

theorem win_step {s s' : State} {t u : Nat} {prog0 : List Call} {G : List Nat}
    (hw : Win s t prog0 G) (hs : step s u = some s') : Win s' t prog0 G := by
  obtain ⟨SL, th, h, hg, hd⟩ := hw
  cases hgu : getT s u with
  | none => unfold step at hs; rw [hgu] at hs; cases hs
  | some thu =>
    have hst := (invW_step h hgu hs).1
    obtain ⟨thu', hsh⟩ := step_shape hgu hs
    by_cases hut : u = t
    · -- the traversing thread itself steps
      subst hut
      rw [hg] at hgu; cases hgu
      have hself := hsh.getT_self hg
      have hlen : thu'.prog.length ≤ th.prog.length := by
        rcases hsh.2.2.2 with h4 | h4
        · rw [h4.1]; exact Nat.le_refl _
        · rw [h4.1]; simp
      rcases hd with hd | ⟨hprog, wk⟩
      · exact ⟨_, thu', hst, hself, Or.inl (Nat.lt_of_le_of_lt hlen hd)⟩
      · have ht := h.thr u th hg
        have hne : th.prog ≠ [] := by
          intro e
          have hc : callOf th.pc = some .invoke := by
            cases hpc : th.pc <;> have := wk.trav <;> rw [hpc] at this <;> simp [PC.isTrav] at this <;> rfl
          have := ht.call _ hc
          rw [e] at this; cases this
        have hfin : ∀ {s'' : State}, s'' = finish s u th .unit → Win s'' u prog0 G := by
          intro s'' e
          subst e
          refine ⟨SL, _, invW_local h hg rfl (ht.finish _ _), getElem?_set_self' hg, Or.inl ?_⟩
          show th.prog.tail.length < prog0.length
          rw [← hprog]
          cases hp : th.prog with
          | nil => exact absurd hp hne
          | cons a r => simp
        have hgoto : ∀ {s'' : State} {th' : Thread}, s'' = setT s u th' → th'.pc.pendId = none →
            th'.prog = th.prog → InvW s'' SL → WinOK s SL th' G → Win s'' u prog0 G := by
          intro s'' th' e hp hpr hi wk'
          subst e
          exact ⟨SL, th', hi, getElem?_set_self' hg, Or.inr ⟨by rw [hpr, hprog], winOK_setT hg hp wk'⟩⟩
        have hGlt : ∀ x ∈ G, x < s.nextId ∧ ¬ Pend s.threads x := fun x hx => not_avail_iff.mp (wk.avail x hx)
        cases hpc : th.pc with
        | travStart =>
          have e := step_travStart hg hpc
          rw [hs] at e
          have e' := Option.some.inj e
          have hi : InvW s' SL := by
            have := hst; rw [hpc] at this; exact this
          have hcv : curV th = [] := ht.start (by rw [hpc]; rfl)
          refine hgoto e' rfl rfl hi ⟨rfl, wk.avail, ?_, ?_, ?_⟩
          · intro hc x _
            have hh : s.list.head = none := PC.travCap.inj hc
            have hids : SL.ids = [] := by
              have := h.rep.wf.head_eq
              rw [hh] at this
              cases hL : SL.ids with
              | nil => rfl
              | cons a r => rw [hL] at this; cases this
            cases Nat.eq_zero_or_pos (s.list.heap x).counter with
            | inl h0 => exact h0
            | inr hpos =>
              have := (h.rep.wf.live x).mpr (Nat.ne_of_gt hpos)
              rw [hids] at this; cases this
          · intro n hn
            show WalkV _ _ _ _ (curV th) G false n
            rw [hcv]
            have hn' : (PC.travCap s.list.head).node = some n := hn
            cases hh : s.list.head with
            | none => rw [hh] at hn'; cases hn'
            | some m =>
              rw [hh] at hn'
              simp only [PC.node, Option.some.injEq] at hn'
              subst hn'
              exact walkV_head h.rep hh hGlt
          · intro c hc; cases hc
        | travCap node =>
          cases node with
          | none =>
            have e := step_travCap_none hg hpc
            rw [hs] at e
            exact hfin (Option.some.inj e)
          | some n =>
            have e := step_travCap_some hg hpc
            rw [hs] at e
            have e' := Option.some.inj e
            have hi : InvW s' SL := by
              have := hst; rw [hpc] at this; exact this
            have hwk := wk.walk n (by rw [hpc]; rfl)
            rw [hpc] at hwk
            refine hgoto e' rfl rfl hi ⟨rfl, wk.avail, (fun hc => by cases hc), ?_, ?_⟩
            · intro n' hn'
              simp only [PC.node, Option.some.injEq] at hn'; subst hn'
              exact hwk
            · intro c hc x _ hl
              simp only [PC.cap, Option.some.injEq] at hc; subst hc
              exact h.rep.wf.cnt x ((h.rep.wf.live x).mpr hl)
        | travCheck n cap =>
          have e := step_travCheck hg hpc
          rw [hs] at e
          have e' := Option.some.inj e
          have hi : InvW s' SL := by
            have := hst; rw [hpc] at this; exact this
          have hwk := wk.walk n (by rw [hpc]; rfl)
          rw [hpc] at hwk
          have hcap := wk.cap cap (by rw [hpc]; rfl)
          by_cases hgd : guard (s.list.heap n).counter cap = true
          · rw [if_pos hgd] at e'
            refine hgoto e' rfl rfl hi ⟨rfl, wk.avail, (fun hc => by cases hc), ?_, ?_⟩
            · intro n' hn'
              simp only [PC.node, Option.some.injEq] at hn'; subst hn'
              exact hwk
            · intro c hc
              simp only [PC.cap, Option.some.injEq] at hc; subst hc
              exact hcap
          · rw [if_neg hgd] at e'
            refine hgoto e' rfl rfl hi ⟨rfl, wk.avail, (fun hc => by cases hc), ?_, ?_⟩
            · intro n' hn'
              simp only [PC.node, Option.some.injEq] at hn'; subst hn'
              refine hwk.ex_true (fun hnG hl => ?_)
              exfalso
              apply hgd
              have := hcap n hnG hl
              simp [guard, hl, this]
            · intro c hc
              simp only [PC.cap, Option.some.injEq] at hc; subst hc
              exact hcap
        | travCall n cap =>
          have e := step_travCall hg hpc
          rw [hs] at e
          have e' := Option.some.inj e
          have hi : InvW s' SL := by
            have := hst; rw [hpc] at this; exact this
          have hwk := wk.walk n (by rw [hpc]; rfl)
          rw [hpc] at hwk
          have hcap := wk.cap cap (by rw [hpc]; rfl)
          refine hgoto (th' := { addVisit th n (s.list.heap n).cb with pc := .travNext n cap }) e' rfl
            (addVisit_prog _ _ _) hi ⟨rfl, wk.avail, (fun hc => by cases hc), ?_, ?_⟩
          · intro n' hn'
            simp only [PC.node, Option.some.injEq] at hn'; subst hn'
            show WalkV _ _ _ _ (curV (addVisit th n _)) G true n
            rw [addVisit_curV]
            exact walkV_visit h.rep (fun x hx => (h.pend_counter x hx).1) hwk
          · intro c hc
            simp only [PC.cap, Option.some.injEq] at hc; subst hc
            exact hcap
        | travNext n cap =>
          have hwk := wk.walk n (by rw [hpc]; rfl)
          rw [hpc] at hwk
          have hcap := wk.cap cap (by rw [hpc]; rfl)
          cases hnx : (s.list.heap n).next with
          | none =>
            have e := step_travNext_none hg hpc hnx
            rw [hs] at e
            exact hfin (Option.some.inj e)
          | some m =>
            have e := step_travNext_some hg hpc hnx
            rw [hs] at e
            have e' := Option.some.inj e
            have hi : InvW s' SL := by
              have := hst; rw [hpc] at this; exact this
            refine hgoto e' rfl rfl hi ⟨rfl, wk.avail, (fun hc => by cases hc), ?_, ?_⟩
            · intro n' hn'
              simp only [PC.node, Option.some.injEq] at hn'; subst hn'
              exact walkV_next h.rep hwk hnx
            · intro c hc
              simp only [PC.cap, Option.some.injEq] at hc; subst hc
              exact hcap
        | _ => have := wk.trav; rw [hpc] at this; simp [PC.isTrav] at this
    · -- another thread steps
      have hoth : getT s' t = some th := by rw [hsh.getT_other (Ne.symm hut)]; exact hg
      refine ⟨_, th, hst, hoth, ?_⟩
      rcases hd with hd | ⟨hprog, wk⟩
      · exact Or.inl hd
      · refine Or.inr ⟨hprog, wk.trav, fun x hx ha => wk.avail x hx (avail_step hgu hs x ha), ?_,
          fun n hn => walkV_step h hgu hs _ _ _ _ (wk.walk n hn), ?_⟩
        · intro hc x hx
          rcases counter_step h hgu hs x (wk.avail x hx) with e | e
          · rw [e]; exact wk.empty hc x hx
          · exact e
        · intro c hc x hx hl
          rcases counter_step h hgu hs x (wk.avail x hx) with e | e
          · rw [e] at hl ⊢; exact wk.cap c hc x hx hl
          · exact absurd e hl

theorem win_exec {s : State} {t : Nat} {prog0 : List Call} {G : List Nat}
    (hw : Win s t prog0 G) (sched : List Nat) : Win (exec s sched) t prog0 G := by
  induction sched generalizing s with
  | nil => exact hw
  | cons u r ih =>
    unfold exec
    cases hs : step s u with
    | none => exact ih hw
    | some s' => exact ih (win_step hw hs)

/-- at the step that ends the invocation every owed node still in the list has been called -/
theorem win_end {s : State} {t : Nat} {prog0 : List Call} {G : List Nat} (hw : Win s t prog0 G)
    {th : Thread} (hg : getT s t = some th) (hprog : th.prog = prog0)
    (hend : th.pc = .travCap none ∨ ∃ n cap, th.pc = .travNext n cap ∧ (s.list.heap n).next = none) :
    ∀ x ∈ G, (s.list.heap x).counter ≠ 0 → x ∈ curV th := by
  obtain ⟨SL, th1, h, hg1, hd⟩ := hw
  rw [hg] at hg1; cases hg1
  rcases hd with hd | ⟨_, wk⟩
  · rw [hprog] at hd; omega
  · intro x hx hl
    rcases hend with hc | ⟨n, cap, hpc, hnx⟩
    · exact absurd (wk.empty hc x hx) hl
    · have hwk := wk.walk n (by rw [hpc]; rfl)
      rw [hpc] at hwk
      obtain ⟨_, R, S, _, _, _, _, hhd, _, hseg, _, howed⟩ := walkV_chain h.rep hwk
      rcases howed x hx hl with hv | ⟨hs, hne⟩
      · exact hv
      · exfalso
        -- the chain from `n` is `[n]`
        have hRS : R ++ S = [n] := by
          cases hL : R ++ S with
          | nil => rw [hL] at hhd; cases hhd
          | cons a rest =>
            rw [hL] at hhd hseg
            simp only [List.head?_cons, Option.some.injEq] at hhd
            subst hhd
            obtain ⟨_, hrest⟩ := hseg
            have : nextF (s.list.heap a) = none := hnx
            rw [this] at hrest
            cases rest with
            | nil => rfl
            | cons b r => cases hrest.1
        have : x ∈ R ++ S := List.mem_append_right _ hs
        rw [hRS] at this
        simp only [List.mem_singleton] at this
        exact hne ⟨rfl, this⟩

end Evp.ConcL
