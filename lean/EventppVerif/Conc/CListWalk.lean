import EventppVerif.CL.OpLemmas
import EventppVerif.CL.PropAux2
import EventppVerif.CL.PropAux
/-
  List-object level helper lemmas for the concurrent callback-list model (Conc/CList.lean,
  Properties/C03.lean).  In the concurrent model a node id is allocated at the `draw` step and
  linked later, after other threads' draws and links, so the id that is linked is no longer the
  bound `b` of `Rep l SL b`: the `rep_link*` lemmas are restated for an arbitrary unlinked id below
  the bound, and the structural traversal invariant (`WalkV`) is stated relative to a set `P` of
  pending (allocated, not yet linked) ids.  Helper lemmas only.
-/
namespace Evp

/-! ### `Rep` across the link steps, for any allocated unlinked id -/

theorem rep_linkBack' {l SL b id cb c} (r : Rep l SL b) (hidb : id < b)
    (hid : (l.heap id).counter = 0) (hc0 : c ≠ 0) (hc : c ≤ l.cur) :
    Rep (l.linkBack id cb c) (SL.append id cb) b := by
  refine ⟨?_, fun e he => ?_, fun n hn => ?_⟩
  · rw [SList.ids_append]
    exact r.wf.linkBack hid hc0 hc (Nat.le_refl b) hidb
  · rw [(r.wf.linkBack_fields hid e.id).2.1]
    simp only [SList.append, List.mem_append, List.mem_singleton] at he
    rcases he with he | rfl
    · have : e.id ≠ id := fun h => (r.wf.live e.id).mp (SList.mem_ids_of_mem he) (h ▸ hid)
      simp [this, r.cbs e he]
    · simp
  · rw [(r.wf.linkBack_fields hid n).1]
    have : n ≠ id := by omega
    simp [this]
    exact r.fresh n hn

theorem rep_linkFront' {l SL b id cb c} (r : Rep l SL b) (hidb : id < b)
    (hid : (l.heap id).counter = 0) (hc0 : c ≠ 0) (hc : c ≤ l.cur) :
    Rep (l.linkFront id cb c) (SL.prepend id cb) b := by
  refine ⟨?_, fun e he => ?_, fun n hn => ?_⟩
  · rw [SList.ids_prepend]
    exact r.wf.linkFront hid hc0 hc (Nat.le_refl b) hidb
  · rw [(r.wf.linkFront_fields hid e.id).2.1]
    simp only [SList.prepend, List.mem_cons] at he
    rcases he with rfl | he
    · simp
    · have : e.id ≠ id := fun h => (r.wf.live e.id).mp (SList.mem_ids_of_mem he) (h ▸ hid)
      simp [this, r.cbs e he]
  · rw [(r.wf.linkFront_fields hid n).1]
    have : n ≠ id := by omega
    simp [this]
    exact r.fresh n hn

theorem rep_linkBefore' {l SL b id cb c before} (r : Rep l SL b) (hidb : id < b)
    (hid : (l.heap id).counter = 0) (hc0 : c ≠ 0) (hc : c ≤ l.cur)
    (hp : SL.present before = true) :
    Rep (l.linkBefore id cb c before) (SL.insert id cb before) b := by
  obtain ⟨P, Q, hPQ⟩ := List.append_of_mem (SList.present_iff.mp hp)
  have w := r.wf
  rw [hPQ] at w
  have hbP : before ∉ P := (nodup_split w.nodup).2.2.1
  have hins : SL.insert id cb before = SL.insertBefore ⟨id, cb⟩ before := by simp [SList.insert, hp]
  rw [hins]
  refine ⟨?_, fun e he => ?_, fun n hn => ?_⟩
  · rw [SList.ids_insertBefore hPQ hbP]
    exact w.linkBefore hid hc0 hc (Nat.le_refl b) hidb
  · rw [linkBefore_cb]
    rcases SList.mem_insertBefore.mp he with rfl | he
    · simp
    · have : e.id ≠ id := fun h => (r.wf.live e.id).mp (SList.mem_ids_of_mem he) (h ▸ hid)
      simp [this, r.cbs e he]
  · rw [linkBefore_counter]
    have : n ≠ id := by omega
    simp [this]
    exact r.fresh n hn

/-- raising `cur` (the non-wrapping `getNextCounter`) and allocating one more id -/
theorem rep_draw {l SL b} (r : Rep l SL b) (nw : l.willWrap = false) :
    Rep { l with cur := l.cur + 1 } SL (b + 1) :=
  (rep_nowrap r nw).mono (Nat.le_succ b)

/-! ### the structural traversal invariant, relative to a set of pending ids

  `WalkV h L b P V G ex n`: a traversal stands on node `n`; `V` are the nodes it has called so far,
  `G` a set of nodes it owes a call (the nodes in the list when it started; `[]` if one is not
  interested).  Following `next` from `n` walks a duplicate-free list `R` of removed nodes (counter
  0, allocated, not pending — their links are frozen) and then enters a suffix `S` of the live chain
  `L`.  No node called so far lies on `R ++ S`, except that `n` itself may (flag `ex`: the
  traversal has already dealt with `n`).  Every owed node that is still in the list has been called
  or lies ahead on `S` (strictly ahead if `ex`).  The called nodes that are still in the list were
  called in list order: they form a sublist of the part `Pre` of the chain before `S` (plus `n` if it
  is the head of `S` and has been dealt with). -/
def liveIn (h : Heap) (W : List Nat) : List Nat := W.filter (fun v => (h v).counter != 0)

def WalkV (h : Heap) (L : List Nat) (b : Nat) (P : Nat → Prop) (V G : List Nat) (ex : Bool) (n : Nat) : Prop :=
  (∀ v ∈ V, v < b ∧ ¬ P v) ∧ V.Nodup ∧ (∀ x ∈ G, x < b ∧ ¬ P x) ∧
  ∃ R S : List Nat, S <:+ L ∧ (∀ r ∈ R, (h r).counter = 0 ∧ r < b ∧ ¬ P r) ∧ R.Nodup ∧
    Seg nextF h (some n) R S.head? ∧ (∀ v ∈ V, v ∈ R ++ S → ex = true ∧ v = n) ∧
    (∀ x ∈ G, (h x).counter ≠ 0 → x ∈ V ∨ (x ∈ S ∧ ¬ (ex = true ∧ x = n))) ∧
    ∃ Pre, Pre ++ S = L ∧ (liveIn h V).Sublist (Pre ++ (if ex = true ∧ R = [] then [n] else []))

theorem liveIn_congr {h h' : Heap} {W : List Nat} (hc : ∀ v ∈ W, (h' v).counter = (h v).counter) :
    liveIn h' W = liveIn h W := by
  unfold liveIn
  exact List.filter_congr (fun v hv => by rw [hc v hv])

theorem liveIn_append (h : Heap) (A B : List Nat) : liveIn h (A ++ B) = liveIn h A ++ liveIn h B := by
  unfold liveIn; exact List.filter_append ..

theorem liveIn_freeNode (l : CL) (x : Nat) (W : List Nat) :
    liveIn (l.freeNode x).heap W = (liveIn l.heap W).filter (fun v => v != x) := by
  unfold liveIn
  rw [List.filter_filter]
  apply List.filter_congr
  intro v _
  rw [freeNode_counter]
  by_cases hv : v = x <;> simp [hv]

theorem WalkV.mono {h L b b' P P' V G ex n} (w : WalkV h L b P V G ex n) (hb : b ≤ b')
    (hP : ∀ x, x < b → P' x → P x) : WalkV h L b' P' V G ex n := by
  obtain ⟨v1, v2, g1, R, S, h1, h2, h3, h4, h5, h6, h7⟩ := w
  refine ⟨fun v hv => ⟨Nat.lt_of_lt_of_le (v1 v hv).1 hb, fun hp => (v1 v hv).2 (hP v (v1 v hv).1 hp)⟩, v2,
    fun v hv => ⟨Nat.lt_of_lt_of_le (g1 v hv).1 hb, fun hp => (g1 v hv).2 (hP v (g1 v hv).1 hp)⟩,
    R, S, h1, fun r hr => ?_, h3, h4, h5, h6, h7⟩
  obtain ⟨a, b1, c⟩ := h2 r hr
  exact ⟨a, Nat.lt_of_lt_of_le b1 hb, fun hp => c (hP r b1 hp)⟩

/-- the traversal passes over `n` without calling it; allowed only if `n` is not owed a call -/
theorem WalkV.ex_true {h L b P V G ex n} (w : WalkV h L b P V G ex n)
    (hn : n ∈ G → (h n).counter ≠ 0 → n ∈ V) : WalkV h L b P V G true n := by
  obtain ⟨v1, v2, g1, R, S, h1, h2, h3, h4, h5, h6, Pre, p1, p2⟩ := w
  refine ⟨v1, v2, g1, R, S, h1, h2, h3, h4, fun v hv hm => ⟨rfl, (h5 v hv hm).2⟩, fun x hx hl => ?_,
    Pre, p1, ?_⟩
  · rcases h6 x hx hl with hv | ⟨hs, _⟩
    · exact Or.inl hv
    · by_cases hxn : x = n
      · subst hxn; exact Or.inl (hn hx hl)
      · exact Or.inr ⟨hs, fun hc => hxn hc.2⟩
  · refine p2.trans (List.Sublist.append_left ?_ Pre)
    by_cases hR : R = []
    · by_cases hex : ex = true
      · simp [hR, hex]
      · simp [hR, hex]
    · simp [hR]

/-- start of a traversal: the node read from `head` -/
theorem walkV_head {l SL b n G} {P : Nat → Prop} (r : Rep l SL b) (hh : l.head = some n)
    (hG : ∀ x ∈ G, x < b ∧ ¬ P x) : WalkV l.heap SL.ids b P [] G false n := by
  refine ⟨by simp, by simp, hG, [], SL.ids, List.suffix_refl _, by simp, by simp, ?_, by simp, ?_,
    [], rfl, by simp [liveIn]⟩
  · show some n = SL.ids.head?
    rw [← hh, r.wf.head_eq]
  · intro x _ hl
    exact Or.inr ⟨(r.wf.live x).mpr hl, by simp⟩

/-- the traversal moves on: `n := n.next` -/
theorem walkV_next {l SL b n m V G} {P : Nat → Prop} (r : Rep l SL b)
    (w : WalkV l.heap SL.ids b P V G true n) (hm : (l.heap n).next = some m) :
    WalkV l.heap SL.ids b P V G false m := by
  obtain ⟨v1, v2, g1, R, S, h1, h2, h3, h4, h5, h6, Pre, p1, p2⟩ := w
  refine ⟨v1, v2, g1, ?_⟩
  have hsegS := r.wf.suffix_seg h1
  have hSnd : S.Nodup := nodup_suffix h1 r.wf.nodup
  cases R with
  | nil =>
    have hn : some n = S.head? := h4
    cases S with
    | nil => simp at hn
    | cons x T =>
      simp at hn; subst hn
      have hT : Seg nextF l.heap (l.heap n).next T none := hsegS.2
      rw [hm] at hT
      have hmT : some m = T.head? := seg_head' hT
      refine ⟨[], T, List.IsSuffix.trans (List.suffix_cons n T) h1, by simp, by simp, hmT, ?_, ?_,
        Pre ++ [n], by rw [← p1]; simp, by simpa using p2⟩
      · intro v hv hvT
        have hvT' : v ∈ T := by simpa using hvT
        have := h5 v hv (by simp [hvT'] : v ∈ [] ++ n :: T)
        have hnT : n ∉ T := (List.nodup_cons.mp hSnd).1
        exact absurd (this.2 ▸ hvT') hnT
      · intro x hx hl
        rcases h6 x hx hl with hv | ⟨hs, hne⟩
        · exact Or.inl hv
        · have hxn : x ≠ n := fun e => hne ⟨rfl, e⟩
          rcases List.mem_cons.mp hs with e | hs
          · exact absurd e hxn
          · exact Or.inr ⟨hs, by simp⟩
  | cons r0 R' =>
    obtain ⟨hn, hR'⟩ := h4
    have hn' : n = r0 := Option.some.inj hn
    subst hn'
    have hnd := List.nodup_cons.mp h3
    have hnS : n ∉ S := fun hmem => (r.suffix_mem h1 hmem).1 (h2 n (by simp)).1
    have hV : ∀ v ∈ V, v ∈ R' ++ S → False := by
      intro v hv hmem
      have := h5 v hv (by simp at hmem ⊢; exact Or.inr hmem)
      rw [this.2] at hmem
      rcases List.mem_append.mp hmem with hmem | hmem
      · exact hnd.1 hmem
      · exact hnS hmem
    have hR'' : Seg nextF l.heap (some m) R' S.head? := by
      have : nextF (l.heap n) = some m := hm
      rw [this] at hR'; exact hR'
    refine ⟨R', S, h1, fun x hx => h2 x (List.mem_cons_of_mem _ hx), hnd.2, hR'', ?_, ?_,
      Pre, p1, by simpa using p2⟩
    · intro v hv hmem
      exact absurd hmem (hV v hv)
    · intro x hx hl
      rcases h6 x hx hl with hv | ⟨hs, _⟩
      · exact Or.inl hv
      · exact Or.inr ⟨hs, by simp⟩

/-- the node a traversal stands on is allocated and has been linked (it is not pending) -/
theorem walkV_node {l SL b n V G ex} {P : Nat → Prop} (r : Rep l SL b) (hP : ∀ x, P x → (l.heap x).counter = 0)
    (w : WalkV l.heap SL.ids b P V G ex n) : n < b ∧ ¬ P n := by
  obtain ⟨_, _, _, R, S, h1, h2, _, h4, _⟩ := w
  have hnRS : n ∈ R ++ S := by
    cases R with
    | nil =>
      have hn : some n = S.head? := h4
      simpa using List.mem_of_head? hn.symm
    | cons r0 R' =>
      have := Option.some.inj h4.1
      simp [this]
  rcases List.mem_append.mp hnRS with hr | hs
  · exact (h2 n hr).2
  · have := r.suffix_mem h1 hs
    exact ⟨this.2.1, fun hp => this.1 (hP n hp)⟩

/-- the callback of `n` is called: `n` joins the called nodes -/
theorem walkV_visit {l SL b n V G} {P : Nat → Prop} (r : Rep l SL b) (hP : ∀ x, P x → (l.heap x).counter = 0)
    (w : WalkV l.heap SL.ids b P V G false n) : WalkV l.heap SL.ids b P (V ++ [n]) G true n := by
  have hn : n < b ∧ ¬ P n := walkV_node r hP w
  obtain ⟨v1, v2, g1, R, S, h1, h2, h3, h4, h5, h6, Pre, p1, p2⟩ := w
  have hnRS : n ∈ R ++ S := by
    cases R with
    | nil =>
      have hn : some n = S.head? := h4
      simpa using List.mem_of_head? hn.symm
    | cons r0 R' =>
      have := Option.some.inj h4.1
      simp [this]
  have hnV : n ∉ V := fun hv => by
    have := (h5 n hv hnRS).1
    simp at this
  refine ⟨?_, ?_, g1, R, S, h1, h2, h3, h4, ?_, ?_, Pre, p1, ?_⟩
  rotate_left 4
  · -- order: the node just called is the head of `S` (then it extends the sublist) or removed
    rw [liveIn_append]
    have p2' : (liveIn l.heap V).Sublist Pre := by simpa using p2
    cases R with
    | nil =>
      simp only [and_self, if_true]
      exact List.Sublist.append p2' (List.filter_sublist)
    | cons r0 R' =>
      have hn0 : n = r0 := Option.some.inj h4.1
      have hdead : (l.heap n).counter = 0 := by rw [hn0]; exact (h2 r0 (by simp)).1
      have : liveIn l.heap [n] = [] := by simp [liveIn, hdead]
      rw [this]
      simpa using p2'
  · intro v hv
    rcases List.mem_append.mp hv with hv | hv
    · exact v1 v hv
    · simp at hv; subst hv; exact hn
  · exact List.nodup_append.mpr ⟨v2, by simp, fun a ha c hc e => by
      simp at hc; subst hc; subst e; exact hnV ha⟩
  · intro v hv hm
    rcases List.mem_append.mp hv with hv | hv
    · exact absurd (h5 v hv hm).1 (by simp)
    · simp at hv; exact ⟨rfl, hv⟩
  · intro x hx hl
    rcases h6 x hx hl with hv | ⟨hs, _⟩
    · exact Or.inl (List.mem_append_left _ hv)
    · by_cases hxn : x = n
      · exact Or.inl (by simp [hxn])
      · exact Or.inr ⟨hs, fun hc => hxn hc.2⟩

/-- what the invariant says in plain terms: the bounded walk from `n` is `R ++ S` -/
theorem walkV_chain {l SL b n V G ex} {P : Nat → Prop} (r : Rep l SL b) (w : WalkV l.heap SL.ids b P V G ex n) :
    n < b ∧ ∃ R S : List Nat, S <:+ SL.ids ∧ (∀ x ∈ R, (l.heap x).counter = 0) ∧
      chainOf l.heap (b + 1) (some n) = R ++ S ∧ (R ++ S).Nodup ∧ (R ++ S).head? = some n ∧
      (∀ v ∈ V, v ∈ R ++ S → ex = true ∧ v = n) ∧ Seg nextF l.heap (some n) (R ++ S) none ∧
      (∀ x ∈ R ++ S, x < b) ∧
      (∀ x ∈ G, (l.heap x).counter ≠ 0 → x ∈ V ∨ (x ∈ S ∧ ¬ (ex = true ∧ x = n))) := by
  obtain ⟨_, _, _, R, S, h1, h2, h3, h4, h5, h6, _⟩ := w
  have hsegS := r.wf.suffix_seg h1
  have hSnd : S.Nodup := nodup_suffix h1 r.wf.nodup
  have hnd : (R ++ S).Nodup := List.nodup_append.mpr ⟨h3, hSnd, fun a ha c hc e => by
    subst e; exact (r.suffix_mem h1 hc).1 (h2 a ha).1⟩
  have hlt : ∀ a ∈ R ++ S, a < b := by
    intro a ha
    rcases List.mem_append.mp ha with ha | ha
    · exact (h2 a ha).2.1
    · exact (r.suffix_mem h1 ha).2.1
  have hlen : (R ++ S).length ≤ b := nodup_lt_length _ _ hnd hlt
  have hseg : Seg nextF l.heap (some n) (R ++ S) none := seg_append.mpr ⟨_, h4, hsegS⟩
  have hhd : (R ++ S).head? = some n := by
    cases R with
    | nil => simpa [Seg] using h4.symm
    | cons x R' => simpa [Seg] using h4.1.symm
  refine ⟨hlt n (List.mem_of_head? hhd), R, S, h1, fun x hx => (h2 x hx).1,
    chainOf_seg hseg (Nat.lt_succ_of_le hlen), hnd, hhd, h5, hseg, hlt, h6⟩

/-! ### `WalkV` across the structural operations of any thread -/

/-- transfer across an operation that only links the pending node `id` -/
theorem walkV_transfer_insert {h h' : Heap} {L L' : List Nat} {b : Nat} {P P' : Nat → Prop} {V G ex n id}
    (hid : P id) (hPP : ∀ x, P' x → P x)
    (hcnt : ∀ a, a ≠ id → (h' a).counter = (h a).counter)
    (hnext : ∀ a, (h a).counter = 0 → a ≠ id → (h' a).next = (h a).next)
    (hsuf : ∀ Pre S, Pre ++ S = L → ∃ Pre' S', Pre' ++ S' = L' ∧ S'.head? = S.head? ∧
      (∀ x ∈ S', x ∈ S ∨ x = id) ∧ (∀ x ∈ S, x ∈ S') ∧ Pre.Sublist Pre')
    (w : WalkV h L b P V G ex n) : WalkV h' L' b P' V G ex n := by
  obtain ⟨v1, v2, g1, R, S, h1, h2, h3, h4, h5, h6, Pre, p1, p2⟩ := w
  obtain ⟨Pre', S', s1, s2, s3, s4, s5⟩ := hsuf Pre S p1
  have hRid : ∀ r ∈ R, r ≠ id := fun r hr e => (h2 r hr).2.2 (e ▸ hid)
  have hVid : ∀ v ∈ V, v ≠ id := fun v hv e => (v1 v hv).2 (e ▸ hid)
  refine ⟨fun v hv => ⟨(v1 v hv).1, fun hp => (v1 v hv).2 (hPP v hp)⟩, v2,
    fun v hv => ⟨(g1 v hv).1, fun hp => (g1 v hv).2 (hPP v hp)⟩, R, S', ⟨Pre', s1⟩, fun r hr => ?_, h3, ?_, ?_, ?_,
    Pre', s1, ?_⟩
  · obtain ⟨a, b1, c⟩ := h2 r hr
    exact ⟨by rw [hcnt r (hRid r hr)]; exact a, b1, fun hp => c (hPP r hp)⟩
  · rw [s2]
    exact (seg_congr (fun a ha => hnext a (h2 a ha).1 (hRid a ha))).mpr h4
  · intro v hv hm
    apply h5 v hv
    rcases List.mem_append.mp hm with hm | hm
    · exact List.mem_append_left _ hm
    · rcases s3 v hm with hm | hm
      · exact List.mem_append_right _ hm
      · exact absurd (hm ▸ hid) (v1 v hv).2
  · intro x hx hl
    have hxid : x ≠ id := fun e => (g1 x hx).2 (e ▸ hid)
    rw [hcnt x hxid] at hl
    rcases h6 x hx hl with hv | ⟨hs, hne⟩
    · exact Or.inl hv
    · exact Or.inr ⟨s4 x hs, hne⟩
  · rw [liveIn_congr (fun v hv => hcnt v (hVid v hv))]
    exact p2.trans (List.Sublist.append_right s5 _)

theorem split_append_one {Pre S L : List Nat} (id : Nat) (hs : Pre ++ S = L) :
    ∃ Pre' S', Pre' ++ S' = L ++ [id] ∧ S'.head? = S.head? ∧ (∀ x ∈ S', x ∈ S ∨ x = id) ∧
      (∀ x ∈ S, x ∈ S') ∧ Pre.Sublist Pre' := by
  by_cases hS : S = []
  · subst hS
    refine ⟨L ++ [id], [], by simp, rfl, by simp, by simp, ?_⟩
    rw [← hs]; simp
  · refine ⟨Pre, S ++ [id], by rw [← hs, List.append_assoc], ?_, ?_, ?_, List.Sublist.refl _⟩
    · cases S with
      | nil => exact absurd rfl hS
      | cons x T => simp
    · intro x hx; simpa using hx
    · intro x hx; simp [hx]

theorem split_insert_before {Pre S P Q : List Nat} (id n : Nat) (hs : Pre ++ S = P ++ n :: Q) :
    ∃ Pre' S', Pre' ++ S' = P ++ id :: n :: Q ∧ S'.head? = S.head? ∧ (∀ x ∈ S', x ∈ S ∨ x = id) ∧
      (∀ x ∈ S, x ∈ S') ∧ Pre.Sublist Pre' := by
  rcases List.append_eq_append_iff.mp hs with ⟨a', h1, h2⟩ | ⟨c', h1, h2⟩
  · -- `P = Pre ++ a'`, `S = a' ++ n :: Q`
    cases a' with
    | nil =>
      have e1 : P = Pre := by simpa using h1
      have e2 : S = n :: Q := by simpa using h2
      rw [e2, ← e1]
      exact ⟨P ++ [id], n :: Q, by simp, rfl, fun x hx => Or.inl hx, fun x hx => hx,
        by simp⟩
    | cons x A =>
      subst h1; subst h2
      refine ⟨Pre, x :: A ++ id :: n :: Q, by simp, by simp, ?_, ?_, List.Sublist.refl _⟩
      · intro y hy; simp at hy ⊢; grind
      · intro y hy; simp at hy ⊢; grind
  · -- `Pre = P ++ c'`, `n :: Q = c' ++ S`
    cases c' with
    | nil =>
      have e1 : Pre = P := by simpa using h1
      have e2 : S = n :: Q := by simpa using h2.symm
      rw [e2, e1]
      exact ⟨P ++ [id], n :: Q, by simp, rfl, fun x hx => Or.inl hx, fun x hx => hx,
        by simp⟩
    | cons y C =>
      simp at h2
      obtain ⟨rfl, rfl⟩ := h2
      subst h1
      refine ⟨P ++ id :: n :: C, S, by simp, rfl, fun x hx => Or.inl hx, fun x hx => hx, ?_⟩
      exact List.Sublist.middle (List.Sublist.refl _) id

theorem walkV_linkBack {l SL b id cb c V G ex n} {P P' : Nat → Prop} (r : Rep l SL b)
    (hid : (l.heap id).counter = 0) (hPid : P id) (hPP : ∀ x, P' x → P x)
    (w : WalkV l.heap SL.ids b P V G ex n) :
    WalkV (l.linkBack id cb c).heap (SL.append id cb).ids b P' V G ex n := by
  have fields := r.wf.linkBack_fields (cb := cb) (c := c) hid
  refine walkV_transfer_insert hPid hPP (fun a hne => ?_) (fun a ha0 hne => ?_) (fun Pre S hs => ?_) w
  · rw [(fields a).1]; simp [hne]
  · exact (fields a).2.2 ha0 hne
  · rw [SList.ids_append]; exact split_append_one id hs

theorem walkV_linkFront {l SL b id cb c V G ex n} {P P' : Nat → Prop} (r : Rep l SL b)
    (hid : (l.heap id).counter = 0) (hPid : P id) (hPP : ∀ x, P' x → P x)
    (w : WalkV l.heap SL.ids b P V G ex n) :
    WalkV (l.linkFront id cb c).heap (SL.prepend id cb).ids b P' V G ex n := by
  have fields := r.wf.linkFront_fields (cb := cb) (c := c) hid
  refine walkV_transfer_insert hPid hPP (fun a hne => ?_) (fun a ha0 hne => ?_) (fun Pre S hs => ?_) w
  · rw [(fields a).1]; simp [hne]
  · exact (fields a).2.2 ha0 hne
  · rw [SList.ids_prepend]
    exact ⟨id :: Pre, S, by rw [← hs]; simp, rfl, fun x hx => Or.inl hx, fun x hx => hx,
      List.sublist_cons_self _ _⟩

theorem walkV_linkBefore {l SL b id cb c before V G ex n} {P P' : Nat → Prop} (r : Rep l SL b)
    (hid : (l.heap id).counter = 0) (hPid : P id) (hPP : ∀ x, P' x → P x)
    (hp : SL.present before = true)
    (w : WalkV l.heap SL.ids b P V G ex n) :
    WalkV (l.linkBefore id cb c before).heap (SL.insert id cb before).ids b P' V G ex n := by
  obtain ⟨Pp, Q, hPQ⟩ := List.append_of_mem (SList.present_iff.mp hp)
  have wf := r.wf
  rw [hPQ] at wf
  have hbP : before ∉ Pp := (nodup_split wf.nodup).2.2.1
  have hins : SL.insert id cb before = SL.insertBefore ⟨id, cb⟩ before := by simp [SList.insert, hp]
  rw [hins, SList.ids_insertBefore hPQ hbP]
  refine walkV_transfer_insert hPid hPP (fun a hne => ?_) (fun a ha0 hne => ?_) (fun Pre S hs => ?_) w
  · rw [linkBefore_counter]; simp [hne]
  · exact wf.linkBefore_frozen hid a ha0 hne
  · rw [hPQ] at hs; exact split_insert_before id before hs

theorem filter_ne_append_mid {A B : List Nat} {x : Nat} (ha : x ∉ A) (hb : x ∉ B) (E : List Nat) :
    (A ++ x :: B ++ E).filter (fun v => v != x) = A ++ B ++ E.filter (fun v => v != x) := by
  rw [List.filter_append, filter_ne_split ha hb]

theorem walkV_freeNode {l SL b h V G ex n} {P P' : Nat → Prop} (r : Rep l SL b)
    (hPP : ∀ x, P' x → P x) (hP0 : ∀ x, P x → (l.heap x).counter = 0)
    (hp : SL.present h = true)
    (w : WalkV l.heap SL.ids b P V G ex n) :
    WalkV (l.freeNode h).heap (SL.erase h).ids b P' V G ex n := by
  obtain ⟨v1, v2, g1, R, S, h1, h2, h3, h4, h5, h6, Pre, p1, p2⟩ := w
  obtain ⟨Pp, Q, hPQ⟩ := List.append_of_mem (SList.present_iff.mp hp)
  have wf := r.wf
  rw [hPQ] at wf
  obtain ⟨s1, s2, s3, s4, s5, s6⟩ := wf.split
  obtain ⟨n1, n2, n3, n4, n5, n6⟩ := nodup_split wf.nodup
  have hids' : (SL.erase h).ids = Pp ++ Q := by rw [SList.ids_erase, hPQ, filter_ne_split n3 n4]
  have hlive : (l.heap h).counter ≠ 0 := (r.wf.live h).mp (SList.present_iff.mp hp)
  have hhb : h < b := r.wf.lt h (SList.present_iff.mp hp)
  have hhR : h ∉ R := fun hm => hlive (h2 h hm).1
  have hfrozen : ∀ a ∈ R, ((l.freeNode h).heap a).counter = 0 ∧ a < b ∧ ¬ P' a ∧
      ((l.freeNode h).heap a).next = (l.heap a).next := by
    intro a ha
    have := h2 a ha
    refine ⟨?_, this.2.1, fun hp => this.2.2 (hPP a hp), wf.freeNode_frozen a this.1⟩
    rw [freeNode_counter]; simp [this.1]
  have hV' : ∀ v ∈ V, v < b ∧ ¬ P' v := fun v hv => ⟨(v1 v hv).1, fun hp => (v1 v hv).2 (hPP v hp)⟩
  have hG' : ∀ v ∈ G, v < b ∧ ¬ P' v := fun v hv => ⟨(g1 v hv).1, fun hp => (g1 v hv).2 (hPP v hp)⟩
  -- an owed node that is still in the list afterwards was in the list, and is not `h`
  have howed : ∀ x ∈ G, ((l.freeNode h).heap x).counter ≠ 0 →
      x ≠ h ∧ (x ∈ V ∨ (x ∈ S ∧ ¬ (ex = true ∧ x = n))) := by
    intro x hx hl
    rw [freeNode_counter] at hl
    by_cases hxh : x = h
    · simp [hxh] at hl
    · simp only [hxh, if_false] at hl
      exact ⟨hxh, h6 x hx hl⟩
  -- the head of `S` when the traversal stands on it
  have hnS : R = [] → S.head? = some n := fun hR => by rw [hR] at h4; exact h4.symm
  rw [hids']
  rw [hPQ] at h1 p1
  refine ⟨hV', v2, hG', ?_⟩
  simp only [liveIn_freeNode]
  have case_same : ∀ S' Pre', Pre' ++ S' = Pp ++ Q → S'.head? = S.head? → (∀ x ∈ S', x ∈ S) →
      (∀ x ∈ S, x ≠ h → x ∈ S') →
      ((liveIn l.heap V).filter (fun v => v != h)).Sublist
        (Pre' ++ (if ex = true ∧ R = [] then [n] else [])) →
      ∃ R S : List Nat, S <:+ Pp ++ Q ∧ (∀ r ∈ R, ((l.freeNode h).heap r).counter = 0 ∧ r < b ∧ ¬ P' r) ∧
        R.Nodup ∧ Seg nextF (l.freeNode h).heap (some n) R S.head? ∧
        (∀ v ∈ V, v ∈ R ++ S → ex = true ∧ v = n) ∧
        (∀ x ∈ G, ((l.freeNode h).heap x).counter ≠ 0 → x ∈ V ∨ (x ∈ S ∧ ¬ (ex = true ∧ x = n))) ∧
        ∃ Pre, Pre ++ S = Pp ++ Q ∧ ((liveIn l.heap V).filter (fun v => v != h)).Sublist
          (Pre ++ (if ex = true ∧ R = [] then [n] else [])) := by
    intro S' Pre' hsuf hhead hsub hsup hord
    refine ⟨R, S', ⟨Pre', hsuf⟩, fun a ha => ⟨(hfrozen a ha).1, (hfrozen a ha).2.1, (hfrozen a ha).2.2.1⟩, h3,
      ?_, ?_, ?_, Pre', hsuf, hord⟩
    · rw [hhead]
      exact (seg_congr (fun a ha => (hfrozen a ha).2.2.2)).mpr h4
    · intro v hv hm
      apply h5 v hv
      rcases List.mem_append.mp hm with hm | hm
      · exact List.mem_append_left _ hm
      · exact List.mem_append_right _ (hsub v hm)
    · intro x hx hl
      obtain ⟨hxh, ho⟩ := howed x hx hl
      rcases ho with hv | ⟨hs, hne⟩
      · exact Or.inl hv
      · exact Or.inr ⟨hsup x hs hxh, hne⟩
  rcases suffix_split_cases h1 with hs | ⟨x, A, P0, hS, hP⟩
  · rcases List.suffix_cons_iff.mp hs with hS | hs
    · -- the traversal's entry point into the live chain is removed: it joins the frozen nodes
      have hS0 : S.head? = some h := by rw [hS]; rfl
      have hPre : Pre = Pp := by
        rw [hS] at p1; exact List.append_cancel_right p1
      refine ⟨R ++ [h], Q, List.suffix_append _ _, ?_, ?_, ?_, ?_, ?_, Pp, rfl, ?_⟩
      · intro a ha
        rcases List.mem_append.mp ha with ha | ha
        · exact ⟨(hfrozen a ha).1, (hfrozen a ha).2.1, (hfrozen a ha).2.2.1⟩
        · simp at ha; subst ha
          exact ⟨by rw [freeNode_counter]; simp, hhb, fun hp => hlive (hP0 a (hPP a hp))⟩
      · exact List.nodup_append.mpr ⟨h3, by simp, fun a ha b hb e => by
          simp at hb; subst hb; subst e; exact hhR ha⟩
      · rw [seg_snoc]
        constructor
        · rw [hS0] at h4
          exact (seg_congr (fun a ha => (hfrozen a ha).2.2.2)).mpr h4
        · show ((l.freeNode h).heap h).next = _
          rw [freeNode_next, s5, s2]
          have : Pp.getLast? ≠ some h := fun e => n3 (List.mem_of_getLast? e)
          simp [this]
      · intro v hv hm
        apply h5 v hv
        rw [hS]
        simpa using hm
      · intro x hx hl
        obtain ⟨hxh, ho⟩ := howed x hx hl
        rcases ho with hv | ⟨hs, hne⟩
        · exact Or.inl hv
        · rw [hS] at hs
          rcases List.mem_cons.mp hs with e | hs
          · exact absurd e hxh
          · exact Or.inr ⟨hs, hne⟩
      · -- order: whatever the extra element was, filtering `h` out leaves a sublist of `Pp`
        have hne : ¬ (ex = true ∧ R ++ [h] = []) := by simp
        rw [if_neg hne, List.append_nil]
        rw [hPre] at p2
        have := p2.filter (fun v => v != h)
        refine this.trans ?_
        rw [List.filter_append, filter_ne_self n3]
        by_cases hc : ex = true ∧ R = []
        · have hnh : n = h := by
            have := hnS hc.2; rw [hS0] at this; exact (Option.some.inj this).symm
          simp [hc, hnh]
        · simp [hc]
    · have hsub : ∀ x ∈ S, x ∈ S := fun _ hx => hx
      obtain ⟨Q0, hQ0⟩ := hs
      have hPre : Pre = Pp ++ h :: Q0 := by
        rw [← hQ0] at p1
        have : Pre ++ S = (Pp ++ h :: Q0) ++ S := by rw [p1]; simp
        exact List.append_cancel_right this
      have hhQ0 : h ∉ Q0 := fun hm => n4 (by rw [← hQ0]; exact List.mem_append_left _ hm)
      refine case_same S (Pp ++ Q0) (by rw [← hQ0]; simp) rfl hsub (fun x hx _ => hx) ?_
      rw [hPre] at p2
      have := p2.filter (fun v => v != h)
      refine this.trans ?_
      rw [filter_ne_append_mid n3 hhQ0]
      refine List.Sublist.append_left ?_ _
      exact List.filter_sublist
  · have hPre : Pre = P0 := by
      rw [hS, hP] at p1
      have : Pre ++ (x :: A ++ h :: Q) = P0 ++ (x :: A ++ h :: Q) := by rw [p1]; simp
      exact List.append_cancel_right this
    refine case_same (x :: A ++ Q) P0 (by rw [hP]; simp) (by rw [hS]; simp) ?_ ?_ ?_
    · intro y hy
      rw [hS]
      simp at hy ⊢
      grind
    · intro y hy hyh
      rw [hS] at hy
      simp at hy ⊢
      grind
    · rw [hPre] at p2
      exact (List.filter_sublist).trans p2

theorem walkV_remove {l SL b h V G ex n} {P P' : Nat → Prop} (r : Rep l SL b)
    (hPP : ∀ x, P' x → P x) (hP0 : ∀ x, P x → (l.heap x).counter = 0)
    (w : WalkV l.heap SL.ids b P V G ex n) :
    WalkV (l.remove h).1.heap (SL.remove h).1.ids b P' V G ex n := by
  unfold CL.remove SList.remove
  have hp := rep_present r h
  by_cases hl : (l.heap h).counter ≠ 0
  · have : SL.present h = true := by rw [← hp]; simpa using hl
    rw [if_pos hl, if_pos this]
    exact walkV_freeNode r hPP hP0 this w
  · have : SL.present h = false := by rw [← hp]; simpa using hl
    rw [if_neg hl, this]
    exact w.mono (Nat.le_refl b) (fun x _ hx => hPP x hx)

/-- the called nodes still in the list are in list order -/
theorem walkV_ord {l : CL} {SL : SList} {b n V G ex} {P : Nat → Prop} (w : WalkV l.heap SL.ids b P V G ex n) :
    (liveIn l.heap V).Sublist SL.ids := by
  obtain ⟨_, _, _, R, S, _, _, _, h4, _, _, Pre, p1, p2⟩ := w
  refine p2.trans ?_
  rw [← p1]
  refine List.Sublist.append_left ?_ Pre
  by_cases hc : ex = true ∧ R = []
  · rw [if_pos hc]
    have hn : some n = S.head? := by
      have := h4; rw [hc.2] at this; exact this
    cases S with
    | nil => cases hn
    | cons x T =>
      simp only [List.head?_cons, Option.some.injEq] at hn
      subst hn
      simp
  · rw [if_neg hc]; simp

/-! ### finished invocation records stay in list order -/

theorem ids_insertBefore_sublist : ∀ (L : SList) (e : Entry) (b : Hd), L.ids.Sublist (L.insertBefore e b).ids
  | [], e, b => by simp [SList.insertBefore]
  | x :: r, e, b => by
    simp only [SList.insertBefore]
    split
    · exact List.sublist_cons_self _ _
    · exact (ids_insertBefore_sublist r e b).cons_cons _

theorem ord_remove {l SL b} (r : Rep l SL b) (h : Hd) {W : List Nat}
    (ho : (liveIn l.heap W).Sublist SL.ids) :
    (liveIn (l.remove h).1.heap W).Sublist (SL.remove h).1.ids := by
  unfold CL.remove SList.remove
  have hp := rep_present r h
  by_cases hl : (l.heap h).counter ≠ 0
  · have : SL.present h = true := by rw [← hp]; simpa using hl
    rw [if_pos hl, if_pos this, liveIn_freeNode, SList.ids_erase]
    exact ho.filter _
  · have : SL.present h = false := by rw [← hp]; simpa using hl
    rw [if_neg hl, this]
    exact ho

/-! ### the three link variants at once -/

/-- the critical section of `append` (kind 0), `prepend` (kind 1), `insert` (any other kind) -/
def linkOf (l : CL) (k : Nat) (cb : Cb) (bf : Hd) (id c : Nat) : CL :=
  if k = 0 then l.linkBack id cb c
  else if k = 1 then l.linkFront id cb c
  else if (l.heap bf).counter ≠ 0 then l.linkBefore id cb c bf else l.linkBack id cb c

/-- the Spec operation of the same three calls -/
def specLink (SL : SList) (k : Nat) (cb : Cb) (bf : Hd) (id : Nat) : SList :=
  if k = 0 then SL.append id cb else if k = 1 then SL.prepend id cb else SL.insert id cb bf

theorem ids_sublist_specLink (SL : SList) (k : Nat) (cb : Cb) (bf : Hd) (id : Nat) :
    SL.ids.Sublist (specLink SL k cb bf id).ids := by
  unfold specLink
  split
  · rw [SList.ids_append]; exact List.sublist_append_left _ _
  · split
    · rw [SList.ids_prepend]; exact List.sublist_cons_self _ _
    · unfold SList.insert
      split
      · exact ids_insertBefore_sublist _ _ _
      · rw [SList.ids_append]; exact List.sublist_append_left _ _

theorem rep_linkOf {l SL b k cb bf id c} (r : Rep l SL b) (hidb : id < b)
    (hid : (l.heap id).counter = 0) (hc0 : c ≠ 0) (hc : c ≤ l.cur) :
    Rep (linkOf l k cb bf id c) (specLink SL k cb bf id) b ∧
    (linkOf l k cb bf id c).cur = l.cur ∧
    (∀ a, ((linkOf l k cb bf id c).heap a).counter = (if a = id then c else (l.heap a).counter) ∧
      ((linkOf l k cb bf id c).heap a).cb = (if a = id then cb else (l.heap a).cb)) ∧
    ∀ (P P' : Nat → Prop) V G ex n, P id → (∀ x, P' x → P x) → WalkV l.heap SL.ids b P V G ex n →
      WalkV (linkOf l k cb bf id c).heap (specLink SL k cb bf id).ids b P' V G ex n := by
  unfold linkOf specLink
  have back : Rep (l.linkBack id cb c) (SL.append id cb) b ∧ (l.linkBack id cb c).cur = l.cur ∧
      (∀ a, ((l.linkBack id cb c).heap a).counter = (if a = id then c else (l.heap a).counter) ∧
        ((l.linkBack id cb c).heap a).cb = (if a = id then cb else (l.heap a).cb)) ∧
      ∀ (P P' : Nat → Prop) V G ex n, P id → (∀ x, P' x → P x) → WalkV l.heap SL.ids b P V G ex n →
        WalkV (l.linkBack id cb c).heap (SL.append id cb).ids b P' V G ex n :=
    ⟨rep_linkBack' r hidb hid hc0 hc, linkBack_cur _ _ _ _,
      fun a => ⟨(r.wf.linkBack_fields hid a).1, (r.wf.linkBack_fields hid a).2.1⟩,
      fun P P' V G ex n h1 h2 w => walkV_linkBack r hid h1 h2 w⟩
  by_cases h0 : k = 0
  · simp only [h0, if_true]; exact back
  · simp only [h0, if_false]
    by_cases h1 : k = 1
    · simp only [h1, if_true]
      exact ⟨rep_linkFront' r hidb hid hc0 hc, linkFront_cur _ _ _ _,
        fun a => ⟨(r.wf.linkFront_fields hid a).1, (r.wf.linkFront_fields hid a).2.1⟩,
        fun P P' V G ex n h1 h2 w => walkV_linkFront r hid h1 h2 w⟩
    · simp only [h1, if_false]
      have hp := rep_present r bf
      by_cases hl : (l.heap bf).counter ≠ 0
      · have hpr : SL.present bf = true := by rw [← hp]; simpa using hl
        rw [if_pos hl]
        exact ⟨rep_linkBefore' r hidb hid hc0 hc hpr, rfl,
          fun a => ⟨linkBefore_counter _ _ _ _ _ _, linkBefore_cb _ _ _ _ _ _⟩,
          fun P P' V G ex n h1 h2 w => walkV_linkBefore r hid h1 h2 hpr w⟩
      · have hpr : SL.present bf = false := by rw [← hp]; simpa using hl
        have hins : SL.insert id cb bf = SL.append id cb := by simp [SList.insert, hpr]
        rw [if_neg hl, hins]
        exact back

/-! ### counters and callbacks of the nodes an operation does not link -/

theorem linkBack_counter' {l SL b id cb c} (r : Rep l SL b) (hid : (l.heap id).counter = 0) (a : Nat) :
    ((l.linkBack id cb c).heap a).counter = (if a = id then c else (l.heap a).counter) ∧
    ((l.linkBack id cb c).heap a).cb = (if a = id then cb else (l.heap a).cb) :=
  ⟨(r.wf.linkBack_fields hid a).1, (r.wf.linkBack_fields hid a).2.1⟩

theorem linkFront_counter' {l SL b id cb c} (r : Rep l SL b) (hid : (l.heap id).counter = 0) (a : Nat) :
    ((l.linkFront id cb c).heap a).counter = (if a = id then c else (l.heap a).counter) ∧
    ((l.linkFront id cb c).heap a).cb = (if a = id then cb else (l.heap a).cb) :=
  ⟨(r.wf.linkFront_fields hid a).1, (r.wf.linkFront_fields hid a).2.1⟩

theorem remove_counter' (l : CL) (h a : Nat) :
    ((l.remove h).1.heap a).counter = 0 ∨ ((l.remove h).1.heap a).counter = (l.heap a).counter := by
  unfold CL.remove
  split
  · rw [freeNode_counter]; split
    · exact Or.inl rfl
    · exact Or.inr rfl
  · exact Or.inr rfl

theorem remove_cb (l : CL) (h a : Nat) : ((l.remove h).1.heap a).cb = (l.heap a).cb := by
  unfold CL.remove
  split
  · exact freeNode_cb l h a
  · rfl

theorem remove_cur (l : CL) (h : Nat) : (l.remove h).1.cur = l.cur := by
  unfold CL.remove
  split <;> rfl

end Evp
