/-
  EventQueue::DisableQueueNotify as a counted registration (D13).

  The concurrent model (Conc/Queue.lean) has `nc`, "the number of live DisableQueueNotify objects":
  `dqnBegin` increments it, `dqnEnd` decrements it.  That reading is right only if every live object is
  counted exactly once, whichever special member created it.  This file models the class itself:
  objects hold a registration or not, and the special members are parameters of the model, so that the
  behaviour of the class as it was (implicit copy: the copy shares the original's registration) and as it
  is (the copy constructor registers the copy) are both instances.
-/
namespace Evp.Dqn

/-- how a copy is made -/
inductive CopyKind
  | shares      -- implicit copy: the pointer is copied, the counter is not touched (the code as it was)
  | registers   -- the copy constructor increments the counter (the code as it is)
deriving DecidableEq, Repr

inductive Op
  | construct           -- DisableQueueNotify x(&queue)
  | copy                -- DisableQueueNotify y(x) for some live x
  | destroy             -- the destructor of some live object
deriving DecidableEq, Repr

structure St where
  /-- the library's counter (an `int`) -/
  nc : Int := 0
  /-- number of live objects -/
  live : Nat := 0
deriving DecidableEq, Repr

/-- operations that need a live object are not enabled without one -/
def enabled (s : St) : Op → Bool
  | .construct => true
  | .copy => decide (0 < s.live)
  | .destroy => decide (0 < s.live)

def step (k : CopyKind) (s : St) : Op → St
  | .construct => { nc := s.nc + 1, live := s.live + 1 }
  | .copy => if 0 < s.live then
      { nc := (match k with | .shares => s.nc | .registers => s.nc + 1), live := s.live + 1 } else s
  | .destroy => if 0 < s.live then { nc := s.nc - 1, live := s.live - 1 } else s

def run (k : CopyKind) : St → List Op → St
  | s, [] => s
  | s, op :: r => run k (step k s op) r

/-- the reading of `nc` the concurrent model relies on -/
def Counts (s : St) : Prop := s.nc = (s.live : Int)

theorem step_counts (s : St) (op : Op) (h : Counts s) : Counts (step .registers s op) := by
  unfold Counts at *
  cases op with
  | construct => simp only [step]; omega
  | copy =>
    simp only [step]
    split
    · simp only; omega
    · exact h
  | destroy =>
    simp only [step]
    split
    · rename_i hl
      simp only
      omega
    · exact h

/-- with a copy constructor that registers the copy, after ANY history of constructions, copies and
    destructions the counter is the number of live objects: in particular notification is enabled
    (`nc = 0`) exactly when no object is alive -/
theorem counts_run (ops : List Op) (s : St) (h : Counts s) : Counts (run .registers s ops) := by
  induction ops generalizing s with
  | nil => exact h
  | cons op r ih => exact ih _ (step_counts s op h)

theorem enabled_iff_none_alive (ops : List Op) :
    (run .registers {} ops).nc = 0 ↔ (run .registers {} ops).live = 0 := by
  have h := counts_run ops {} (by simp [Counts])
  unfold Counts at h
  omega

/-- the class as it was (D13): construct, copy, destroy the copy — one object is alive and the counter is 0
    (a wait during whose whole duration that object is alive returns); destroy the original as well — no
    object is alive and the counter is -1 (no enqueue notifies any more) -/
theorem shared_copy_counterexample :
    run .shares {} [.construct, .copy, .destroy] = { nc := 0, live := 1 } ∧
    run .shares {} [.construct, .copy, .destroy, .destroy] = { nc := -1, live := 0 } := by
  decide

end Evp.Dqn
