/-
  Concurrent model of one prototype slot of `HeterCallbackList` (hetercallbacklist.h,
  `doGetCallbackList`): the per-prototype callback list is created lazily with double-checked
  locking —
      if(! callbackListList[i]) { lock(callbackListListMutex); if(! callbackListList[i]) callbackListList[i] = make_shared<List>(); }
      return callbackListList[i];
  — and the callback is then appended to the list that was returned.

  Micro-steps of one `append` (every access to the slot made without the mutex is its own step; the
  critical section is one step; the append to the underlying list is one step — its own concurrency
  is C03's list model):
    `read1`  unlocked test of the slot
    `cs`     critical section: re-test, create if still empty            (only if `read1` saw null)
    `read2`  the `return callbackListList[i]` read
    `app`    append to the list read by `read2`
  `recheck = false` is the variant without the inner re-test (used for the counter-example only).
  Sequential consistency is assumed for the unlocked reads.
-/
namespace Evp.HSlot

abbrev Tid := Nat

inductive PC
  | idle
  | afterRead1 (sawNull : Bool)
  | afterCs
  | afterRead2 (l : Nat)
deriving DecidableEq, Repr

structure Thread where
  /-- callbacks still to append -/
  prog : List Nat := []
  pc : PC := .idle
  /-- callbacks whose `append` has returned, oldest first -/
  done : List Nat := []
deriving DecidableEq, Repr

structure State where
  threads : List Thread := []
  /-- `callbackListList[i]`: the id of the list object it points to -/
  slot : Option Nat := none
  /-- content of every list object ever created, by id -/
  lists : List (List Nat) := []
  recheck : Bool := true
  /-- ghost: the callbacks whose `append` has returned, in the order in which they returned -/
  log : List Nat := []
deriving DecidableEq, Repr

def getT (s : State) (t : Tid) : Option Thread := s.threads[t]?
def setT (s : State) (t : Tid) (th : Thread) : State := { s with threads := s.threads.set t th }

def appendTo (ls : List (List Nat)) (l : Nat) (cb : Nat) : List (List Nat) :=
  ls.modify l (· ++ [cb])

/-- one micro-step of thread `t`; `none` if the thread has nothing to do -/
def step (s : State) (t : Tid) : Option State :=
  match getT s t with
  | none => none
  | some th =>
    match th.pc, th.prog with
    | .idle, [] => none
    | .idle, _ :: _ => some (setT s t { th with pc := .afterRead1 s.slot.isNone })
    | .afterRead1 true, _ =>
      -- critical section (the mutex is free between steps: a critical section is one step)
      if s.recheck && s.slot.isSome then some (setT s t { th with pc := .afterCs })
      else
        let s' := { s with slot := some s.lists.length, lists := s.lists ++ [[]] }
        some (setT s' t { th with pc := .afterCs })
    | .afterRead1 false, _ => some (setT s t { th with pc := .afterRead2 (s.slot.getD 0) })
    | .afterCs, _ => some (setT s t { th with pc := .afterRead2 (s.slot.getD 0) })
    | .afterRead2 l, cb :: rest =>
      some (setT { s with lists := appendTo s.lists l cb, log := s.log ++ [cb] } t
        { th with pc := .idle, prog := rest, done := th.done ++ [cb] })
    | .afterRead2 _, [] => none

def exec (s : State) : List Tid → State
  | [] => s
  | t :: r => match step s t with
    | some s' => exec s' r
    | none => exec s r

def init (progs : List (List Nat)) (recheck : Bool := true) : State :=
  { threads := progs.map (fun p => { prog := p }), recheck := recheck }

/-- the list the slot currently points to -/
def current (s : State) : List Nat :=
  match s.slot with
  | some l => s.lists.getD l []
  | none => []

/-- every callback whose append has returned -/
def allDone (s : State) : List Nat := s.threads.flatMap (·.done)

/-! ### the invariant (with the re-check) -/

/-- before the list exists: nobody is past the first read with a non-null answer, nothing was
    appended; afterwards: exactly one list object was ever created, the slot points to it, it holds
    exactly the completed appends in completion order, and whoever has read the slot read that list -/
def Inv (s : State) : Prop :=
  s.recheck = true ∧
  ((s.slot = none ∧ s.lists = [] ∧ s.log = [] ∧ ∀ th ∈ s.threads, th.pc = .idle ∨ th.pc = .afterRead1 true) ∨
   (s.slot = some 0 ∧ s.lists = [s.log] ∧ ∀ th ∈ s.threads, ∀ l, th.pc = .afterRead2 l → l = 0))

theorem inv_init (progs : List (List Nat)) : Inv (init progs) := by
  refine ⟨rfl, Or.inl ⟨rfl, rfl, rfl, ?_⟩⟩
  intro th hth
  simp only [init, List.mem_map] at hth
  obtain ⟨p, _, rfl⟩ := hth
  exact Or.inl rfl

theorem mem_setT {s : State} {t : Tid} {th x : Thread} (h : x ∈ (setT s t th).threads) :
    x ∈ s.threads ∨ x = th := by
  unfold setT at h
  exact List.mem_or_eq_of_mem_set h

theorem getT_mem {s : State} {t : Tid} {th : Thread} (h : getT s t = some th) : th ∈ s.threads := by
  unfold getT at h
  exact List.mem_of_getElem? h

theorem inv_step {s s' : State} {t : Tid} (h : Inv s) (hs : step s t = some s') : Inv s' := by
  obtain ⟨hr, h⟩ := h
  unfold step at hs
  cases hg : getT s t with
  | none => simp [hg] at hs
  | some th =>
    have hmem := getT_mem hg
    simp only [hg] at hs
    rcases h with ⟨hsl, hls, hlog, hpc⟩ | ⟨hsl, hls, hpc⟩
    · -- no list yet
      rcases hpc th hmem with hp | hp
      · -- idle
        rw [hp] at hs
        cases hprog : th.prog with
        | nil => simp [hprog] at hs
        | cons cb rest =>
          simp only [hprog] at hs
          cases hs
          refine ⟨hr, Or.inl ⟨hsl, hls, hlog, ?_⟩⟩
          intro x hx
          rcases mem_setT hx with hx | rfl
          · exact hpc x hx
          · right; simp [hsl]
      · -- afterRead1 true: creates the list
        rw [hp] at hs
        simp only [hr, hsl, Option.isSome_none, Bool.and_false, Bool.false_eq_true, ↓reduceIte] at hs
        cases hs
        refine ⟨by simp [setT], Or.inr ⟨by simp [setT, hls], by simp [setT, hls, hlog], ?_⟩⟩
        intro x hx l hl
        rcases mem_setT hx with hx | rfl
        · rcases hpc x hx with h1 | h1 <;> simp [h1] at hl
        · simp at hl
    · -- the list exists
      have key : ∀ th' : Thread, (∀ l, th'.pc = .afterRead2 l → l = 0) →
          ∀ x ∈ (setT s t th').threads, ∀ l, x.pc = .afterRead2 l → l = 0 := by
        intro th' h' x hx l hl
        rcases mem_setT hx with hx | rfl
        · exact hpc x hx l hl
        · exact h' l hl
      cases hp : th.pc with
      | idle =>
        rw [hp] at hs
        cases hprog : th.prog with
        | nil => simp [hprog] at hs
        | cons cb rest =>
          simp only [hprog] at hs
          cases hs
          exact ⟨hr, Or.inr ⟨hsl, hls, key _ (by intro l hl; simp at hl)⟩⟩
      | afterRead1 b =>
        rw [hp] at hs
        cases b with
        | true =>
          simp only [hr, hsl, Option.isSome_some, Bool.and_self, ↓reduceIte] at hs
          cases hs
          exact ⟨hr, Or.inr ⟨hsl, hls, key _ (by intro l hl; simp at hl)⟩⟩
        | false =>
          simp only at hs
          cases hs
          exact ⟨hr, Or.inr ⟨hsl, hls, key _ (by intro l hl; simp [hsl] at hl; exact hl.symm)⟩⟩
      | afterCs =>
        rw [hp] at hs
        simp only at hs
        cases hs
        exact ⟨hr, Or.inr ⟨hsl, hls, key _ (by intro l hl; simp [hsl] at hl; exact hl.symm)⟩⟩
      | afterRead2 l =>
        rw [hp] at hs
        have hl0 : l = 0 := hpc th hmem l hp
        subst hl0
        cases hprog : th.prog with
        | nil => simp [hprog] at hs
        | cons cb rest =>
          simp only [hprog] at hs
          cases hs
          refine ⟨hr, Or.inr ⟨hsl, ?_, ?_⟩⟩
          · simp [setT, appendTo, hls]
          · intro x hx l hl
            rcases mem_setT hx with hx | rfl
            · exact hpc x hx l hl
            · simp at hl

theorem inv_exec {s : State} (h : Inv s) : ∀ (sched : List Tid), Inv (exec s sched)
  | [] => h
  | t :: r => by
    unfold exec
    cases hs : step s t with
    | none => exact inv_exec h r
    | some s' => exact inv_exec (inv_step h hs) r

/-! ### consequences -/

/-- with the re-check, along every schedule: at most one list object is ever created for the slot,
    and the list the slot points to holds exactly the appends that have returned, in the order in
    which they returned — no callback is lost, none appears twice -/
theorem no_loss (progs : List (List Nat)) (sched : List Tid) :
    let s := exec (init progs) sched
    s.lists.length ≤ 1 ∧ current s = s.log := by
  intro s
  have h : Inv s := inv_exec (inv_init progs) sched
  obtain ⟨_, ⟨hsl, hls, hlog, _⟩ | ⟨hsl, hls, _⟩⟩ := h
  · simp [current, hsl, hls, hlog]
  · simp [current, hsl, hls]

/-- a thread is never blocked: it can take a step whenever it has a call left or is inside one -/
theorem progress (s : State) (t : Tid) (th : Thread) (hg : getT s t = some th)
    (h : th.prog ≠ []) : (step s t).isSome = true := by
  unfold step
  simp only [hg]
  cases hp : th.pc with
  | idle => cases hpr : th.prog with
    | nil => exact absurd hpr h
    | cons a r => simp
  | afterRead1 b => cases b <;> simp <;> split <;> simp
  | afterCs => simp
  | afterRead2 l => cases hpr : th.prog with
    | nil => exact absurd hpr h
    | cons a r => simp

/-- without the re-check a callback whose `append` has returned can be lost: two threads, one
    append each; both see the empty slot, thread 1 creates the list and appends callback 20 to it,
    then thread 0 creates ANOTHER list, overwrites the slot and appends 10 there -/
theorem loss_without_recheck :
    let s := exec (init [[10], [20]] false) [0, 1, 1, 1, 1, 0, 0, 0]
    s.log = [20, 10] ∧ current s = [10] ∧ s.lists.length = 2 := by
  decide

/-- the same schedule with the re-check -/
example :
    let s := exec (init [[10], [20]]) [0, 1, 1, 1, 1, 0, 0, 0]
    s.log = [20, 10] ∧ current s = [20, 10] ∧ s.lists.length = 1 := by
  decide

end Evp.HSlot
