/-
  Concurrent model of `EventQueue` (eventqueue.h; the heterogeneous queue has the same shape):
  any number of threads, each running a list of calls; a global state; `step s t ch` performs ONE
  micro-step of thread `t` (`ch` resolves the scheduler's choices: which parked waiter a
  `notify_one` wakes).  A schedule is a list of (thread, choice); `Reach` is the closure over
  every schedule.

  Granularity: every access to shared state that is made WITHOUT the protecting mutex is its own
  micro-step (the unlocked `queueList.empty()` pre-checks, each load / increment / decrement of the
  two atomic counters, `notify_one`); a critical section of `queueListMutex` that contains a single
  write to the list (swap / splice) is one atomic micro-step — sound by reduction: lock is a
  right-mover, unlock a left-mover and the block has one non-mover; no two mutexes are ever held
  together.  `wait` holds `queueListMutex` across its predicate evaluation, whose reads of the two
  atomic counters are separate micro-steps, and parks atomically with the unlock (the standard's
  `condition_variable::wait`).  Sequential consistency is assumed.

  Processing calls share their pcs; `mode` tells them apart: 0 `process`, 1 `processOne`, 2/3
  `processIf` (declines even / odd ids and carries on; the declined events are put back), 4/5
  `processUntil` (stops at the first even / odd id; that event and everything behind it are put back).
  Both put-backs are `queueList.splice(queueList.begin(), tempList)` under `queueListMutex`, followed
  by `if(doCanNotifyQueueAvailable()) notify_one()` (`procPutBack`, `procPbReadNc`, `procPbNotify`).

  `freeList` (slot recycling) is not modelled here; it is covered sequentially (Q/Machine.lean).
  Events are ghost ids; `consumed` records every event that left the queue for good, with how.
-/
namespace Evp.Conc

abbrev Tid := Nat

/-- a call of a thread's program -/
inductive Call
  | enqueue
  | process
  | processOne
  /-- `processIf` with a predicate that accepts an event iff `accept` holds for its id parity
      (`keepOdd = true`: events with odd id are declined and put back) -/
  | processIf (keepOdd : Bool)
  /-- `processUntil` with a predicate that says STOP (returns true) at the first event whose id has
      the given parity (`stopOdd = true`: stop at the first odd id); the events before it are
      dispatched, that event and everything behind it are put back in front of the queue -/
  | processUntil (stopOdd : Bool)
  | takeEvent
  | peekEvent
  | clearEvents
  | emptyQueue
  | wait
  | waitFor
  /-- constructor / destructor of a `DisableQueueNotify` object -/
  | dqnBegin
  | dqnEnd
deriving DecidableEq, Repr

/-- where a thread is inside its current call -/
inductive PC
  | idle
  -- enqueue: splice done; evaluating doCanProcess(): list-empty read, ec read, nc read, notify
  | enqSplice
  | enqReadEmpty
  | enqReadEc
  | enqReadNc
  | enqNotify
  -- process / processOne / processIf / processUntil
  | procPre (mode : Nat)        -- unlocked pre-check; mode 0 all, 1 one, 2 if(keep even), 3 if(keep odd),
                                -- 4 until(stop at first even), 5 until(stop at first odd)
  | procInc (mode : Nat)
  | procTake (mode : Nat)
  | procLoop (mode : Nat) (todo kept : List Nat) (any : Bool)
  | procPutBack (kept : List Nat) (any : Bool)
  /-- after the put-back of `processIf` / `processUntil`: `if(doCanNotifyQueueAvailable()) notify_one()` -/
  | procPbReadNc (any : Bool)
  | procPbNotify (any : Bool)
  | procDec (res : Bool)
  -- takeEvent / peekEvent / clearEvents
  | takePre | takeLocked
  | peekPre | peekLocked
  | clearPre | clearLocked
  -- emptyQueue(): first read, second read; ghost `seen` = number of events spliced in before the call began
  | emptyRead1 (seen : Nat) | emptyRead2 (seen : Nat)
  -- wait / waitFor: acquire the mutex, three reads of the predicate, park, woken
  | waitLock (timed : Bool)
  | waitRead1 (timed : Bool) (afterTimeout : Bool)
  | waitRead2 (timed : Bool) (afterTimeout : Bool)
  | waitRead3 (timed : Bool) (afterTimeout : Bool) (nonEmpty : Bool)
  /-- the predicate was false: about to release the mutex and block (one atomic action) -/
  | waitPark (timed : Bool)
  | parked (timed : Bool)
  | woken (timed : Bool) (afterTimeout : Bool)
  -- DisableQueueNotify
  | dqnInc
  | dqnDec
  | dqnReadNc
  | dqnReadEmpty
  | dqnReadEc
  | dqnNotify
deriving DecidableEq, Repr

/-- result of a finished call, for the correspondence with the real code -/
inductive Ret
  | unit
  | bool (b : Bool)
deriving DecidableEq, Repr

structure Thread where
  prog : List Call := []
  pc : PC := .idle
  /-- results of the completed calls, oldest first -/
  rets : List Ret := []
  /-- ghost: number of live DisableQueueNotify objects of this thread -/
  dqn : Nat := 0
deriving DecidableEq, Repr

/-- how an event left the queue -/
inductive How | dispatched | taken | cleared
deriving DecidableEq, Repr

structure State where
  threads : List Thread := []
  /-- `queueList`: pending event ids, front first -/
  queue : List Nat := []
  /-- `queueEmptyCounter` -/
  ec : Nat := 0
  /-- `queueNotifyCounter` -/
  nc : Nat := 0
  /-- holder of `queueListMutex` -/
  qm : Option Tid := none
  /-- ghost: next event id -/
  nextEv : Nat := 0
  /-- ghost: (event, how, by thread) in the order the events were consumed -/
  consumed : List (Nat × How × Tid) := []
  /-- ghost: (event, thread) in splice-in order -/
  enqueued : List (Nat × Tid) := []
  /-- does the DisableQueueNotify destructor decrement under `queueListMutex`?  `true` is the
      repaired code; `false` is the code as it was (used for the counter-example only) -/
  dqnLocked : Bool := true
deriving Repr

def getT (s : State) (t : Tid) : Option Thread := s.threads[t]?

def setT (s : State) (t : Tid) (th : Thread) : State := { s with threads := s.threads.set t th }

/-- finish the current call with result `r` -/
def finish (s : State) (t : Tid) (th : Thread) (r : Ret) : State :=
  setT s t { th with pc := .idle, prog := th.prog.tail, rets := th.rets ++ [r] }

def goto (s : State) (t : Tid) (th : Thread) (pc : PC) : State := setT s t { th with pc := pc }

def parkedTids (s : State) : List Tid :=
  (List.range s.threads.length).filter (fun t => match s.threads[t]? with
    | some th => (match th.pc with | .parked _ => true | _ => false)
    | none => false)

/-- `notify_one`: wake the `ch`-th parked waiter if there is one (no-op otherwise) -/
def notifyOne (s : State) (ch : Nat) : State :=
  let ps := parkedTids s
  match ps[ch % (max ps.length 1)]? with
  | some w => (match getT s w with
    | some th => (match th.pc with
      | .parked timed => setT s w { th with pc := .woken timed false }
      | _ => s)
    | none => s)
  | none => s

def keepPred (mode : Nat) (e : Nat) : Bool :=
  if mode = 2 then e % 2 == 0 else if mode = 3 then e % 2 == 1 else false

/-- the predicate of `processUntil` (modes 4, 5): `true` = stop here -/
def stopPred (mode : Nat) (e : Nat) : Bool :=
  if mode = 4 then e % 2 == 0 else if mode = 5 then e % 2 == 1 else false

/-- one micro-step of thread `t`; `none` if `t` does not exist, has finished, or is blocked -/
def step (s : State) (t : Tid) (ch : Nat) : Option State :=
  match getT s t with
  | none => none
  | some th =>
    match th.pc with
    | .idle =>
      (match th.prog with
      | [] => none
      | .enqueue :: _ => some (goto s t th .enqSplice)
      | .process :: _ => some (goto s t th (.procPre 0))
      | .processOne :: _ => some (goto s t th (.procPre 1))
      | .processIf keepOdd :: _ => some (goto s t th (.procPre (if keepOdd then 3 else 2)))
      | .processUntil stopOdd :: _ => some (goto s t th (.procPre (if stopOdd then 5 else 4)))
      | .takeEvent :: _ => some (goto s t th .takePre)
      | .peekEvent :: _ => some (goto s t th .peekPre)
      | .clearEvents :: _ => some (goto s t th .clearPre)
      | .emptyQueue :: _ => some (goto s t th (.emptyRead1 s.nextEv))
      | .wait :: _ => some (goto s t th (.waitLock false))
      | .waitFor :: _ => some (goto s t th (.waitLock true))
      | .dqnBegin :: _ => some (goto s t th .dqnInc)
      | .dqnEnd :: _ => if th.dqn = 0 then some (finish s t th .unit) else some (goto s t th .dqnDec))
    -- enqueue ------------------------------------------------------------------------------
    | .enqSplice =>
      -- critical section of queueListMutex: splice the new event to the back
      if s.qm.isSome then none else
      let e := s.nextEv
      some (goto { s with queue := s.queue ++ [e], nextEv := e + 1, enqueued := s.enqueued ++ [(e, t)] } t th .enqReadEmpty)
    | .enqReadEmpty =>
      -- doCanProcess(): !emptyQueue() && doCanNotifyQueueAvailable(); emptyQueue reads the list first
      if s.queue.isEmpty then some (goto s t th .enqReadEc) else some (goto s t th .enqReadNc)
    | .enqReadEc =>
      if s.ec = 0 then some (finish s t th .unit) else some (goto s t th .enqReadNc)
    | .enqReadNc =>
      if s.nc = 0 then some (goto s t th .enqNotify) else some (finish s t th .unit)
    | .enqNotify => some (finish (notifyOne s ch) t th .unit)
    -- processing calls ------------------------------------------------------------------------
    | .procPre mode =>
      if s.queue.isEmpty then some (finish s t th (.bool false)) else some (goto s t th (.procInc mode))
    | .procInc mode => some (goto { s with ec := s.ec + 1 } t th (.procTake mode))
    | .procTake mode =>
      if s.qm.isSome then none else
      if mode = 1 then
        (match s.queue with
        | [] => some (goto s t th (.procDec false))
        | e :: r => some (goto { s with queue := r } t th (.procLoop mode [e] [] false)))
      else
        -- (single-threaded the swapped list is never empty; concurrently it can be)
        if s.queue.isEmpty then some (goto s t th (.procDec false))
        else some (goto { s with queue := [] } t th (.procLoop mode s.queue [] false))
    | .procLoop mode todo kept any =>
      (match todo with
      | [] =>
        if kept.isEmpty then some (goto s t th (.procDec (if mode ≥ 2 then any else true)))
        else some (goto s t th (.procPutBack kept any))
      | e :: r =>
        -- processUntil: the predicate says stop: `break`; this event and everything behind it stay in
        -- tempList (`kept` is always [] in modes 4/5: `C06_processUntil_kept_nil`) and are put back
        if stopPred mode e then some (goto s t th (.procPutBack (kept ++ e :: r) any))
        else if keepPred mode e then some (goto s t th (.procLoop mode r (kept ++ [e]) any))
        else some (goto { s with consumed := s.consumed ++ [(e, .dispatched, t)] } t th (.procLoop mode r kept true)))
    | .procPutBack kept any =>
      if s.qm.isSome then none else
      some (goto { s with queue := kept ++ s.queue } t th (.procPbReadNc any))
    | .procPbReadNc any =>
      -- the events were invisible to `emptyQueue()` for a while: a notifier may have skipped its notification
      if s.nc = 0 then some (goto s t th (.procPbNotify any)) else some (goto s t th (.procDec any))
    | .procPbNotify any => some (goto (notifyOne s ch) t th (.procDec any))
    | .procDec res => some (finish { s with ec := s.ec - 1 } t th (.bool res))
    -- takeEvent / peekEvent / clearEvents ----------------------------------------------------------
    | .takePre => if s.queue.isEmpty then some (finish s t th (.bool false)) else some (goto s t th .takeLocked)
    | .takeLocked =>
      if s.qm.isSome then none else
      (match s.queue with
      | [] => some (finish s t th (.bool false))
      | e :: r => some (finish { s with queue := r, consumed := s.consumed ++ [(e, .taken, t)] } t th (.bool true)))
    | .peekPre => if s.queue.isEmpty then some (finish s t th (.bool false)) else some (goto s t th .peekLocked)
    | .peekLocked =>
      if s.qm.isSome then none else some (finish s t th (.bool (!s.queue.isEmpty)))
    | .clearPre => if s.queue.isEmpty then some (finish s t th .unit) else some (goto s t th .clearLocked)
    | .clearLocked =>
      -- "cleared" is defined at the splice-out (the events can no longer be reached by anybody)
      if s.qm.isSome then none else
      some (finish { s with queue := [], consumed := s.consumed ++ s.queue.map (fun e => (e, .cleared, t)) } t th .unit)
    -- emptyQueue() -------------------------------------------------------------------------------
    | .emptyRead1 seen => if s.queue.isEmpty then some (goto s t th (.emptyRead2 seen)) else some (finish s t th (.bool false))
    | .emptyRead2 _ => some (finish s t th (.bool (s.ec == 0)))
    -- wait / waitFor -------------------------------------------------------------------------------
    | .waitLock timed =>
      if s.qm.isSome then none else some (goto { s with qm := some t } t th (.waitRead1 timed false))
    | .waitRead1 timed ato =>
      if s.queue.isEmpty then some (goto s t th (.waitRead2 timed ato)) else some (goto s t th (.waitRead3 timed ato true))
    | .waitRead2 timed ato =>
      -- list empty: emptyQueue() = (ec == 0); `nc` is read only if the queue counts as non-empty
      if s.ec != 0 then some (goto s t th (.waitRead3 timed ato true))
      else if ato then some (finish { s with qm := none } t th (.bool false))
      else some (goto s t th (.waitPark timed))
    | .waitRead3 timed ato _ =>
      if s.nc == 0 then some (finish { s with qm := none } t th (if timed then .bool true else .unit))
      else if ato then some (finish { s with qm := none } t th (.bool false))
      else some (goto s t th (.waitPark timed))
    | .waitPark timed =>
      -- `condition_variable::wait`: atomically release the mutex and block
      some (goto { s with qm := none } t th (.parked timed))
    | .parked timed =>
      -- a parked thread moves only by a spurious wake-up (ch = 0) or, if timed, by its time-out (ch = 1);
      -- `notify_one` of another thread moves it to `woken`
      if ch = 0 then some (goto s t th (.woken timed false))
      else if timed ∧ ch = 1 then some (goto s t th (.woken timed true))
      else none
    | .woken timed ato =>
      if s.qm.isSome then none else some (goto { s with qm := some t } t th (.waitRead1 timed ato))
    -- DisableQueueNotify ---------------------------------------------------------------------------
    | .dqnInc => some (finish { s with nc := s.nc + 1 } t { th with dqn := th.dqn + 1 } .unit)
    | .dqnDec =>
      if s.dqnLocked ∧ s.qm.isSome then none else
      some (goto { s with nc := s.nc - 1 } t { th with dqn := th.dqn - 1 } .dqnReadNc)
    | .dqnReadNc => if s.nc = 0 then some (goto s t th .dqnReadEmpty) else some (finish s t th .unit)
    | .dqnReadEmpty => if s.queue.isEmpty then some (goto s t th .dqnReadEc) else some (goto s t th .dqnNotify)
    | .dqnReadEc => if s.ec = 0 then some (finish s t th .unit) else some (goto s t th .dqnNotify)
    | .dqnNotify => some (finish (notifyOne s ch) t th .unit)

/-- run a schedule: a list of (thread, choice); steps of blocked / finished threads are skipped -/
def exec (s : State) : List (Tid × Nat) → State
  | [] => s
  | (t, ch) :: r => match step s t ch with
    | some s' => exec s' r
    | none => exec s r

def init (progs : List (List Call)) (dqnLocked : Bool := true) : State :=
  { threads := progs.map (fun p => { prog := p }), dqnLocked := dqnLocked }

/-- every state some schedule can reach -/
def Reach (progs : List (List Call)) (s : State) : Prop := ∃ sched, exec (init progs) sched = s

def finished (th : Thread) : Bool := th.prog.isEmpty && th.pc == .idle

def isParked (th : Thread) : Bool := match th.pc with | .parked _ => true | _ => false

end Evp.Conc
