/-
  Invariants of the concurrent queue model (Conc/Queue.lean): infrastructure.

  * `ReachF progs flag s`: reachability generalised over the `dqnLocked` flag; `Reach = ReachF · true`.
  * `ReachF.induction`: an invariant that holds initially and is preserved by every `step`
    (every thread, every choice) holds in every reachable state.
  * frame lemmas: how `inflight`, `guardCount` and `getT` change when one thread is replaced
    (`setT`, `goto`, `finish`) and under `notifyOne`.
-/
import EventppVerif.Conc.Queue

namespace Evp.Conc

/-! ## reachability, generalised over the `dqnLocked` flag -/

/-- every state some schedule can reach from `init progs flag` -/
def ReachF (progs : List (List Call)) (flag : Bool) (s : State) : Prop :=
  ∃ sched, exec (init progs flag) sched = s

theorem reach_iff_reachF {progs : List (List Call)} {s : State} : Reach progs s ↔ ReachF progs true s :=
  Iff.rfl

theorem Reach.reachF {progs : List (List Call)} {s : State} (h : Reach progs s) : ReachF progs true s := h

theorem exec_invariant {P : State → Prop}
    (hstep : ∀ s t ch s', P s → step s t ch = some s' → P s') :
    ∀ (sched : List (Tid × Nat)) (s : State), P s → P (exec s sched) := by
  intro sched
  induction sched with
  | nil => intro s h; exact h
  | cons a r ih =>
    intro s h
    obtain ⟨t, ch⟩ := a
    simp only [exec]
    cases hs : step s t ch with
    | none => exact ih s h
    | some s' => exact ih s' (hstep s t ch s' h hs)

/-- induction over schedules: `P` holds initially and every micro-step preserves it -/
theorem ReachF.induction {progs : List (List Call)} {flag : Bool} {P : State → Prop}
    (h0 : P (init progs flag))
    (hstep : ∀ s t ch s', P s → step s t ch = some s' → P s')
    {s : State} (h : ReachF progs flag s) : P s := by
  obtain ⟨sched, rfl⟩ := h
  exact exec_invariant hstep sched _ h0

theorem ReachF.init (progs : List (List Call)) (flag : Bool) : ReachF progs flag (init progs flag) :=
  ⟨[], rfl⟩

theorem exec_append (s : State) (a b : List (Tid × Nat)) : exec s (a ++ b) = exec (exec s a) b := by
  induction a generalizing s with
  | nil => rfl
  | cons x r ih =>
    obtain ⟨t, ch⟩ := x
    simp only [List.cons_append, exec]
    cases step s t ch <;> simp [ih]

theorem ReachF.step {progs : List (List Call)} {flag : Bool} {s s' : State} {t : Tid} {ch : Nat}
    (h : ReachF progs flag s) (hs : step s t ch = some s') : ReachF progs flag s' := by
  obtain ⟨sched, rfl⟩ := h
  refine ⟨sched ++ [(t, ch)], ?_⟩
  rw [exec_append]
  simp [exec, hs]

/-! ## definitions -/

/-- the events a thread holds in its local lists -/
def inflightOf : PC → List Nat
  | .procLoop _ todo kept _ => kept ++ todo
  | .procPutBack kept _ => kept
  | _ => []

/-- the thread is between its `++queueEmptyCounter` and its `--queueEmptyCounter` -/
def guardActive : PC → Bool
  | .procTake _ => true
  | .procLoop _ _ _ _ => true
  | .procPutBack _ _ => true
  | .procPbReadNc _ => true
  | .procPbNotify _ => true
  | .procDec _ => true
  | _ => false

/-- the thread holds `queueListMutex` across micro-steps (a waiter evaluating its predicate) -/
def holdsM : PC → Bool
  | .waitRead1 _ _ => true
  | .waitRead2 _ _ => true
  | .waitRead3 _ _ _ => true
  | .waitPark _ => true
  | _ => false

def inflightL (l : List Thread) : List Nat := l.flatMap (fun th => inflightOf th.pc)

/-- all events held locally by some thread -/
def inflight (s : State) : List Nat := inflightL s.threads

def guardCountL (l : List Thread) : Nat := l.countP (fun th => guardActive th.pc)

/-- number of threads inside the guarded part of a processing call -/
def guardCount (s : State) : Nat := guardCountL s.threads

def consumedIds (s : State) : List Nat := s.consumed.map (·.1)

def enqueuedIds (s : State) : List Nat := s.enqueued.map (·.1)

/-! ## `setT`, `goto`, `finish`: projections -/

theorem goto_eq (s : State) (t : Tid) (th : Thread) (pc : PC) :
    goto s t th pc = setT s t { th with pc := pc } := rfl

theorem finish_eq (s : State) (t : Tid) (th : Thread) (r : Ret) :
    finish s t th r = setT s t { th with pc := .idle, prog := th.prog.tail, rets := th.rets ++ [r] } := rfl

@[simp] theorem setT_threads (s : State) (t : Tid) (th : Thread) :
    (setT s t th).threads = s.threads.set t th := rfl
@[simp] theorem setT_queue (s : State) (t : Tid) (th : Thread) : (setT s t th).queue = s.queue := rfl
@[simp] theorem setT_ec (s : State) (t : Tid) (th : Thread) : (setT s t th).ec = s.ec := rfl
@[simp] theorem setT_nc (s : State) (t : Tid) (th : Thread) : (setT s t th).nc = s.nc := rfl
@[simp] theorem setT_qm (s : State) (t : Tid) (th : Thread) : (setT s t th).qm = s.qm := rfl
@[simp] theorem setT_nextEv (s : State) (t : Tid) (th : Thread) : (setT s t th).nextEv = s.nextEv := rfl
@[simp] theorem setT_consumed (s : State) (t : Tid) (th : Thread) :
    (setT s t th).consumed = s.consumed := rfl
@[simp] theorem setT_enqueued (s : State) (t : Tid) (th : Thread) :
    (setT s t th).enqueued = s.enqueued := rfl
@[simp] theorem setT_dqnLocked (s : State) (t : Tid) (th : Thread) :
    (setT s t th).dqnLocked = s.dqnLocked := rfl

theorem getT_setT (s : State) (t u : Tid) (th : Thread) :
    getT (setT s t th) u = if t = u then (if t < s.threads.length then some th else none) else getT s u := by
  simp only [getT, setT_threads, List.getElem?_set]

theorem getT_lt {s : State} {t : Tid} {th : Thread} (h : getT s t = some th) : t < s.threads.length := by
  simp only [getT] at h
  exact (List.getElem?_eq_some_iff.mp h).1

/-- replacing thread `t` (which exists): `t` now is `th'`, every other thread is untouched -/
theorem getT_setT_of {s : State} {t : Tid} {th : Thread} (h : getT s t = some th) (u : Tid) (th' : Thread) :
    getT (setT s t th') u = if u = t then some th' else getT s u := by
  rw [getT_setT]
  have := getT_lt h
  by_cases hu : t = u
  · subst hu; simp [this]
  · have : ¬ u = t := fun h => hu h.symm
    simp [hu, this]

/-! ## replacing one element of a list: `flatMap` and `countP` -/

theorem count_flatMap_set {α : Type} (f : α → List Nat) (a : Nat) :
    ∀ (l : List α) (t : Nat) (x y : α), l[t]? = some x →
      List.count a ((l.set t y).flatMap f) + List.count a (f x) =
        List.count a (l.flatMap f) + List.count a (f y) := by
  intro l
  induction l with
  | nil => intro t x y h; simp at h
  | cons z r ih =>
    intro t x y h
    cases t with
    | zero =>
      simp at h; subst h
      simp [List.flatMap_cons, List.count_append]; omega
    | succ t =>
      simp at h
      have := ih t x y h
      simp [List.flatMap_cons, List.count_append]; omega

theorem flatMap_set_same {α β : Type} (f : α → List β) :
    ∀ (l : List α) (t : Nat) (x y : α), l[t]? = some x → f y = f x →
      (l.set t y).flatMap f = l.flatMap f := by
  intro l
  induction l with
  | nil => intro t x y h; simp at h
  | cons z r ih =>
    intro t x y h hf
    cases t with
    | zero => simp at h; subst h; simp [List.flatMap_cons, hf]
    | succ t => simp at h; simp [List.flatMap_cons, ih t x y h hf]

theorem countP_set {α : Type} (p : α → Bool) :
    ∀ (l : List α) (t : Nat) (x y : α), l[t]? = some x →
      (l.set t y).countP p + (if p x then 1 else 0) = l.countP p + (if p y then 1 else 0) := by
  intro l
  induction l with
  | nil => intro t x y h; simp at h
  | cons z r ih =>
    intro t x y h
    cases t with
    | zero =>
      simp at h; subst h
      simp only [List.set_cons_zero, List.countP_cons]; omega
    | succ t =>
      simp at h
      have := ih t x y h
      simp only [List.set_cons_succ, List.countP_cons]; omega

/-- frame lemma for `inflight`, in counting form -/
theorem count_inflight_setT {s : State} {t : Tid} {th : Thread} (h : getT s t = some th) (th' : Thread)
    (a : Nat) :
    List.count a (inflight (setT s t th')) + List.count a (inflightOf th.pc) =
      List.count a (inflight s) + List.count a (inflightOf th'.pc) :=
  count_flatMap_set (fun th : Thread => inflightOf th.pc) a s.threads t th th' h

theorem inflight_setT_same {s : State} {t : Tid} {th : Thread} (h : getT s t = some th) (th' : Thread)
    (hf : inflightOf th'.pc = inflightOf th.pc) : inflight (setT s t th') = inflight s :=
  flatMap_set_same (fun th : Thread => inflightOf th.pc) s.threads t th th' h hf

/-- frame lemma for `guardCount` -/
theorem guardCount_setT {s : State} {t : Tid} {th : Thread} (h : getT s t = some th) (th' : Thread) :
    guardCount (setT s t th') + (if guardActive th.pc then 1 else 0) =
      guardCount s + (if guardActive th'.pc then 1 else 0) :=
  countP_set (fun th : Thread => guardActive th.pc) s.threads t th th' h

/-! ## `notifyOne` -/

/-- `notify_one` does nothing or moves one parked thread to `woken` -/
theorem notifyOne_cases (s : State) (ch : Nat) :
    notifyOne s ch = s ∨
    ∃ w thw timed, getT s w = some thw ∧ thw.pc = .parked timed ∧
      notifyOne s ch = setT s w { thw with pc := .woken timed false } := by
  unfold notifyOne
  simp only
  split
  · rename_i w _
    cases hw : getT s w with
    | none => simp
    | some thw =>
      simp only
      cases hpc : thw.pc
      case parked timed => exact Or.inr ⟨w, thw, timed, hw, hpc, rfl⟩
      all_goals exact Or.inl rfl
  · simp

@[simp] theorem notifyOne_queue (s : State) (ch : Nat) : (notifyOne s ch).queue = s.queue := by
  rcases notifyOne_cases s ch with h | ⟨w, thw, timed, _, _, h⟩ <;> rw [h]; rfl
@[simp] theorem notifyOne_ec (s : State) (ch : Nat) : (notifyOne s ch).ec = s.ec := by
  rcases notifyOne_cases s ch with h | ⟨w, thw, timed, _, _, h⟩ <;> rw [h]; rfl
@[simp] theorem notifyOne_nc (s : State) (ch : Nat) : (notifyOne s ch).nc = s.nc := by
  rcases notifyOne_cases s ch with h | ⟨w, thw, timed, _, _, h⟩ <;> rw [h]; rfl
@[simp] theorem notifyOne_qm (s : State) (ch : Nat) : (notifyOne s ch).qm = s.qm := by
  rcases notifyOne_cases s ch with h | ⟨w, thw, timed, _, _, h⟩ <;> rw [h]; rfl
@[simp] theorem notifyOne_nextEv (s : State) (ch : Nat) : (notifyOne s ch).nextEv = s.nextEv := by
  rcases notifyOne_cases s ch with h | ⟨w, thw, timed, _, _, h⟩ <;> rw [h]; rfl
@[simp] theorem notifyOne_consumed (s : State) (ch : Nat) : (notifyOne s ch).consumed = s.consumed := by
  rcases notifyOne_cases s ch with h | ⟨w, thw, timed, _, _, h⟩ <;> rw [h]; rfl
@[simp] theorem notifyOne_enqueued (s : State) (ch : Nat) : (notifyOne s ch).enqueued = s.enqueued := by
  rcases notifyOne_cases s ch with h | ⟨w, thw, timed, _, _, h⟩ <;> rw [h]; rfl
@[simp] theorem notifyOne_dqnLocked (s : State) (ch : Nat) : (notifyOne s ch).dqnLocked = s.dqnLocked := by
  rcases notifyOne_cases s ch with h | ⟨w, thw, timed, _, _, h⟩ <;> rw [h]; rfl

@[simp] theorem inflight_notifyOne (s : State) (ch : Nat) : inflight (notifyOne s ch) = inflight s := by
  rcases notifyOne_cases s ch with h | ⟨w, thw, timed, hw, hpc, h⟩ <;> rw [h]
  exact inflight_setT_same hw _ (by simp [hpc, inflightOf])

@[simp] theorem guardCount_notifyOne (s : State) (ch : Nat) : guardCount (notifyOne s ch) = guardCount s := by
  rcases notifyOne_cases s ch with h | ⟨w, thw, timed, hw, hpc, h⟩ <;> rw [h]
  have := guardCount_setT hw { thw with pc := .woken timed false }
  simp [hpc, guardActive] at this
  exact this

/-- a thread that is not parked is untouched by `notify_one` -/
theorem getT_notifyOne_of {s : State} {t : Tid} {th : Thread} (h : getT s t = some th)
    (hp : ∀ timed, th.pc ≠ .parked timed) (ch : Nat) : getT (notifyOne s ch) t = some th := by
  rcases notifyOne_cases s ch with h' | ⟨w, thw, timed, hw, hpc, h'⟩ <;> rw [h']
  · exact h
  · rw [getT_setT_of hw]
    split
    · subst_vars; rw [hw] at h; cases h; exact absurd hpc (hp timed)
    · exact h

/-- any thread after `notify_one` is the thread before, possibly moved from `parked` to `woken` -/
theorem getT_notifyOne (s : State) (ch : Nat) (u : Tid) (thu' : Thread)
    (h : getT (notifyOne s ch) u = some thu') :
    getT s u = some thu' ∨
    ∃ thu timed, getT s u = some thu ∧ thu.pc = .parked timed ∧ thu' = { thu with pc := .woken timed false } := by
  rcases notifyOne_cases s ch with h' | ⟨w, thw, timed, hw, hpc, h'⟩ <;> rw [h'] at h
  · exact Or.inl h
  · rw [getT_setT_of hw] at h
    split at h
    · subst_vars; cases h; exact Or.inr ⟨thw, timed, hw, hpc, rfl⟩
    · exact Or.inl h

/-! ## list-level frame lemmas (rewriting form) -/

theorem getT_eq (s : State) (t : Tid) : getT s t = s.threads[t]? := rfl

theorem count_inflightOf_le {l : List Thread} {t : Nat} {x : Thread} (h : l[t]? = some x) (a : Nat) :
    List.count a (inflightOf x.pc) ≤ List.count a (inflightL l) := by
  have hm : x ∈ l := List.mem_of_getElem? h
  clear h
  induction l with
  | nil => cases hm
  | cons z r ih =>
    simp only [inflightL, List.flatMap_cons, List.count_append] at ih ⊢
    rcases List.mem_cons.mp hm with rfl | hm
    · omega
    · have := ih hm; omega

theorem count_inflightL_set {l : List Thread} {t : Nat} {x : Thread} (h : l[t]? = some x) (y : Thread)
    (a : Nat) :
    List.count a (inflightL (l.set t y)) =
      List.count a (inflightL l) - List.count a (inflightOf x.pc) + List.count a (inflightOf y.pc) := by
  have h1 := count_flatMap_set (fun th : Thread => inflightOf th.pc) a l t x y h
  have h2 := count_inflightOf_le h a
  simp only [inflightL] at h2 ⊢
  omega

theorem guardCountL_ge {l : List Thread} {t : Nat} {x : Thread} (h : l[t]? = some x) :
    (if guardActive x.pc then 1 else 0) ≤ guardCountL l := by
  have hm : x ∈ l := List.mem_of_getElem? h
  split
  · rename_i hx
    exact List.countP_pos_iff.mpr ⟨x, hm, hx⟩
  · exact Nat.zero_le _

theorem guardCountL_set {l : List Thread} {t : Nat} {x : Thread} (h : l[t]? = some x) (y : Thread) :
    guardCountL (l.set t y) =
      guardCountL l - (if guardActive x.pc then 1 else 0) + (if guardActive y.pc then 1 else 0) := by
  have h1 := countP_set (fun th : Thread => guardActive th.pc) l t x y h
  have h2 := guardCountL_ge h
  simp only [guardCountL] at h2 ⊢
  omega

theorem inflightL_notifyOne (s : State) (ch : Nat) : inflightL (notifyOne s ch).threads = inflightL s.threads :=
  inflight_notifyOne s ch

theorem guardCountL_notifyOne (s : State) (ch : Nat) :
    guardCountL (notifyOne s ch).threads = guardCountL s.threads :=
  guardCount_notifyOne s ch

theorem threads_notifyOne_of {s : State} {t : Tid} {th : Thread} (h : s.threads[t]? = some th)
    (hp : ∀ timed, th.pc ≠ .parked timed) (ch : Nat) : (notifyOne s ch).threads[t]? = some th :=
  getT_notifyOne_of h hp ch

/-! ## case analysis of a step -/

theorem step_getT {s : State} {t ch : Nat} {s' : State} (h : step s t ch = some s') :
    ∃ th, s.threads[t]? = some th := by
  unfold step at h
  cases hg : getT s t with
  | none => simp [hg] at h
  | some th => exact ⟨th, hg⟩

/-- `step_cases h th hg hpc`: from `h : step s t ch = some s'` produce one goal per way the step can
    happen (75), with `hg : s.threads[t]? = some th`, `hpc : th.pc = …`, the branch conditions, and
    `s'` replaced by the explicit successor state -/
syntax "step_cases " ident ident ident ident : tactic
macro_rules
| `(tactic| step_cases $h $th $hg $hpc) => `(tactic| (
    refine Exists.elim (step_getT $h) (fun $th $hg => ?_)
    unfold step at $h:ident
    simp only [getT_eq, $hg:ident] at $h:ident
    cases $hpc:ident : Thread.pc $th <;> simp only [$hpc:ident] at $h:ident <;>
      (repeat' split at $h:ident) <;>
      first | contradiction | (injection $h with $h; subst $h; simp only [goto_eq, finish_eq])))

/-! ## what a step does to the other threads -/

theorem set_self {α : Type} {l : List α} {t : Nat} {x : α} (h : l[t]? = some x) (y : α) :
    (l.set t y)[t]? = some y := by
  have hlt := (List.getElem?_eq_some_iff.mp h).1
  simp [hlt]

theorem set_other {α : Type} (l : List α) {t u : Nat} (h : u ≠ t) (y : α) : (l.set t y)[u]? = l[u]? := by
  simp [Ne.symm h]

theorem notifyOne_thread (s : State) (ch : Nat) (u : Tid) :
    (notifyOne s ch).threads[u]? = s.threads[u]? ∨
    ∃ thu timed, s.threads[u]? = some thu ∧ thu.pc = .parked timed ∧
      (notifyOne s ch).threads[u]? = some { thu with pc := .woken timed false } := by
  rcases notifyOne_cases s ch with h | ⟨w, thw, timed, hw, hpc, h⟩ <;> rw [h]
  · exact Or.inl rfl
  · rw [getT_eq] at hw
    by_cases hu : u = w
    · subst hu
      exact Or.inr ⟨thw, timed, hw, hpc, set_self hw _⟩
    · exact Or.inl (set_other _ hu _)

theorem step_length {s : State} {t ch : Nat} {s' : State} (h : step s t ch = some s') :
    s'.threads.length = s.threads.length := by
  step_cases h th hg hpc
  case enqNotify | dqnNotify | procPbNotify =>
    rcases notifyOne_cases s ch with h | ⟨w, thw, timed, hw, hpc, h⟩ <;> rw [h] <;> simp
  all_goals simp

/-- what a step of `t` does to another thread: nothing, or (`notify_one`) `parked → woken` -/
theorem step_others {s : State} {t ch : Nat} {s' : State} (h : step s t ch = some s') (u : Tid) (hu : u ≠ t) :
    s'.threads[u]? = s.threads[u]? ∨
    ∃ thu timed, s.threads[u]? = some thu ∧ thu.pc = .parked timed ∧
      s'.threads[u]? = some { thu with pc := .woken timed false } := by
  step_cases h th hg hpc
  case enqNotify | dqnNotify | procPbNotify =>
    simp only [setT_threads, set_other _ hu]
    exact notifyOne_thread s ch u
  all_goals
    refine Or.inl ?_
    simp only [setT_threads, set_other _ hu]

theorem isSome_false {α : Type} {o : Option α} (h : ¬ o.isSome = true) : o = none := by
  cases o <;> simp_all

/-- a per-thread property that does not mention the shared state and survives `parked → woken`
    is an invariant as soon as the stepping thread re-establishes it for itself -/
theorem local_step {Q : Thread → Prop} {s : State} {t ch : Nat} {s' : State} (h : step s t ch = some s')
    (hwake : ∀ thu timed, thu.pc = .parked timed → Q thu → Q { thu with pc := .woken timed false })
    (hself : ∀ th', s'.threads[t]? = some th' → Q th')
    (hinv : ∀ (u : Nat) thu, s.threads[u]? = some thu → Q thu) :
    ∀ (u : Nat) thu, s'.threads[u]? = some thu → Q thu := by
  intro u thu hu
  by_cases hut : u = t
  · subst hut; exact hself thu hu
  · rcases step_others h u hut with h1 | ⟨thu0, timed, h1, h2, h3⟩
    · rw [h1] at hu; exact hinv u thu hu
    · rw [h3] at hu; cases hu
      exact hwake thu0 timed h2 (hinv u thu0 h1)

end Evp.Conc
