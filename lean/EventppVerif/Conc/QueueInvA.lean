/-
  Invariants of the concurrent queue model that hold for EVERY family of programs:

  * `GuardInv`  : `queueEmptyCounter` = number of threads inside the guarded part of a processing call
  * `ConsInv`   : conservation of events (counting form): every id below `nextEv` is in exactly one
                  of `queue`, some thread's local lists, `consumed`
  * `EnqInv`    : ids are handed out in splice-in order
  * `MutexInv`  : `qm = some t` iff `t` is a waiter evaluating its predicate

  Each is proved initially and preserved by every `step` (case analysis `step_cases`, 75 cases), then
  lifted to `ReachF` by `ReachF.induction`.
-/
import EventppVerif.Conc.QueueInv

namespace Evp.Conc
open List

theorem init_thread {progs : List (List Call)} {flag : Bool} {u : Nat} {thu : Thread}
    (h : (init progs flag).threads[u]? = some thu) : ∃ p, progs[u]? = some p ∧ thu = { prog := p } := by
  simp only [init, List.getElem?_map] at h
  cases hp : progs[u]? with
  | none => simp [hp] at h
  | some p => simp [hp] at h; exact ⟨p, rfl, h.symm⟩

theorem init_pc {progs : List (List Call)} {flag : Bool} {u : Nat} {thu : Thread}
    (h : (init progs flag).threads[u]? = some thu) : thu.pc = .idle := by
  obtain ⟨p, _, rfl⟩ := init_thread h; rfl

/-! ## the guard counter -/

def GuardInv (s : State) : Prop := s.ec = guardCountL s.threads

theorem guardCountL_init (progs : List (List Call)) (flag : Bool) : guardCountL (init progs flag).threads = 0 := by
  simp only [guardCountL, init, List.countP_eq_zero, List.mem_map]
  rintro th ⟨p, _, rfl⟩
  simp [guardActive]

theorem GuardInv.init (progs : List (List Call)) (flag : Bool) : GuardInv (init progs flag) := by
  unfold GuardInv; rw [guardCountL_init]; rfl

theorem GuardInv.step {s : State} {t ch : Nat} {s' : State} (hinv : GuardInv s) (h : step s t ch = some s') :
    GuardInv s' := by
  unfold GuardInv at *
  step_cases h th hg hpc
  case enqNotify | dqnNotify | procPbNotify =>
    have hg2 := threads_notifyOne_of hg (by simp [hpc]) ch
    have hb := guardCountL_ge hg
    simp only [setT_threads, setT_ec, guardCountL_set hg2, guardCountL_notifyOne, notifyOne_ec, hpc, guardActive,
      Bool.false_eq_true, if_false] at hb ⊢
    omega
  all_goals
    have hb := guardCountL_ge hg
    simp only [setT_threads, setT_ec, guardCountL_set hg, hpc, guardActive, Bool.false_eq_true, if_true, if_false] at hb ⊢
    omega

theorem ReachF.guard {progs : List (List Call)} {flag : Bool} {s : State} (h : ReachF progs flag s) : GuardInv s :=
  h.induction (GuardInv.init progs flag) (fun _ _ _ _ hi hs => hi.step hs)

/-! ## conservation -/

/-- indicator of `a < n` (opaque to `omega`) -/
def ind (a n : Nat) : Nat := if a < n then 1 else 0

theorem count_range (a n : Nat) : count a (range n) = ind a n := by
  unfold ind
  induction n with
  | zero => simp
  | succ n ih =>
    rw [range_succ, count_append, ih, count_singleton]
    by_cases h1 : a < n
    · have : ¬ n = a := by omega
      simp [h1, this]; omega
    · by_cases h2 : n = a
      · subst h2; simp
      · have : ¬ a < n + 1 := by omega
        simp [h1, h2, this]

theorem ind_succ (a n : Nat) : ind a (n + 1) = ind a n + count a [n] := by
  rw [← count_range, ← count_range, range_succ, count_append]

theorem ind_le_one (a n : Nat) : ind a n ≤ 1 := by unfold ind; split <;> omega

theorem ind_eq_one {a n : Nat} : ind a n = 1 ↔ a < n := by unfold ind; split <;> simp [*]

theorem map_fst_tag (q : List Nat) (hw : How) (t : Tid) : (q.map (fun e => (e, hw, t))).map (·.1) = q := by
  induction q with
  | nil => rfl
  | cons a r ih => simpa using ih

/-- conservation, counting form -/
def ConsInv (s : State) : Prop :=
  ∀ a, count a s.queue + count a (inflightL s.threads) + count a (s.consumed.map (·.1)) = ind a s.nextEv

theorem inflightL_init (progs : List (List Call)) (flag : Bool) : inflightL (init progs flag).threads = [] := by
  simp only [inflightL, init, List.flatMap_eq_nil_iff, List.mem_map]
  rintro th ⟨p, _, rfl⟩
  simp [inflightOf]

theorem ConsInv.init (progs : List (List Call)) (flag : Bool) : ConsInv (init progs flag) := by
  intro a
  rw [inflightL_init]
  simp [Evp.Conc.init, ind]

theorem ConsInv.step {s : State} {t ch : Nat} {s' : State} (hinv : ConsInv s) (h : step s t ch = some s') :
    ConsInv s' := by
  unfold ConsInv at *
  intro a
  have h1 := hinv a
  step_cases h th hg hpc
  case enqNotify | dqnNotify | procPbNotify =>
    have hg2 := threads_notifyOne_of hg (by simp [hpc]) ch
    have hb := count_inflightOf_le hg a
    simp only [setT_threads, setT_queue, setT_consumed, setT_nextEv, count_inflightL_set hg2, inflightL_notifyOne,
      notifyOne_queue, notifyOne_consumed, notifyOne_nextEv, hpc, inflightOf, count_nil] at hb ⊢
    omega
  all_goals
    have hb := count_inflightOf_le hg a
    try simp only [List.isEmpty_iff] at *
    try subst_vars
    have h2 := h1
    first | (rename_i heq; rw [heq] at h2) | skip
    simp only [setT_threads, setT_queue, setT_consumed, setT_nextEv, count_inflightL_set hg, hpc, inflightOf, count_nil,
      count_append, map_append, map_fst_tag, map_cons, map_nil, ind_succ, count_cons] at hb h1 h2 ⊢
    omega

theorem ReachF.cons {progs : List (List Call)} {flag : Bool} {s : State} (h : ReachF progs flag s) : ConsInv s :=
  h.induction (ConsInv.init progs flag) (fun _ _ _ _ hi hs => hi.step hs)

/-! ## ids are handed out in splice-in order -/

def EnqInv (s : State) : Prop := s.enqueued.map (·.1) = List.range s.nextEv

theorem EnqInv.init (progs : List (List Call)) (flag : Bool) : EnqInv (init progs flag) := by
  simp [EnqInv, Evp.Conc.init]

theorem EnqInv.step {s : State} {t ch : Nat} {s' : State} (hinv : EnqInv s) (h : step s t ch = some s') :
    EnqInv s' := by
  unfold EnqInv at *
  step_cases h th hg hpc
  case enqSplice => simp [hinv, List.range_succ]
  all_goals simpa using hinv

theorem ReachF.enq {progs : List (List Call)} {flag : Bool} {s : State} (h : ReachF progs flag s) : EnqInv s :=
  h.induction (EnqInv.init progs flag) (fun _ _ _ _ hi hs => hi.step hs)

/-! ## the mutex -/

/-- `qm` names exactly the thread that is evaluating its wait predicate -/
def MutexInv (s : State) : Prop :=
  (∀ (u : Nat) thu, s.threads[u]? = some thu → (holdsM thu.pc = true ↔ s.qm = some u)) ∧
  (∀ u, s.qm = some u → u < s.threads.length)

theorem MutexInv.init (progs : List (List Call)) (flag : Bool) : MutexInv (init progs flag) := by
  constructor
  · intro u thu h
    rw [init_pc h]
    simp [holdsM, Evp.Conc.init]
  · intro u h
    simp [Evp.Conc.init] at h

theorem mutex_step_core {s : State} {t ch : Nat} {s' : State} (h : step s t ch = some s') (th : Thread)
    (hg' : s.threads[t]? = some th) (ht : holdsM th.pc = true ↔ s.qm = some t) :
    (∀ u, u ≠ t → (s'.qm = some u ↔ s.qm = some u)) ∧
    ∃ th', s'.threads[t]? = some th' ∧ (holdsM th'.pc = true ↔ s'.qm = some t) := by
  step_cases h th2 hg hpc
  all_goals
    rw [hg'] at hg; cases hg
  case enqNotify | dqnNotify | procPbNotify =>
    have hg2 := threads_notifyOne_of hg' (by simp [hpc]) ch
    refine ⟨fun u hu => ?_, _, set_self hg2 _, ?_⟩
    · have hu' : ¬ t = u := fun h => hu h.symm
      simp_all [holdsM]
    · simp_all [holdsM]
  all_goals
    refine ⟨fun u hu => ?_, _, set_self hg' _, ?_⟩
    · have hu' : ¬ t = u := fun h => hu h.symm
      simp_all [holdsM, isSome_false]
    · simp_all [holdsM, isSome_false]

theorem MutexInv.step {s : State} {t ch : Nat} {s' : State} (hinv : MutexInv s) (h : step s t ch = some s') :
    MutexInv s' := by
  obtain ⟨th, hg⟩ := step_getT h
  obtain ⟨hq, th', hg', hth'⟩ := mutex_step_core h th hg (hinv.1 t th hg)
  have hlt := (List.getElem?_eq_some_iff.mp hg).1
  constructor
  · intro u thu hu
    by_cases hut : u = t
    · subst hut; rw [hg'] at hu; cases hu; exact hth'
    · rw [hq u hut]
      rcases step_others h u hut with h1 | ⟨thu0, timed, h1, h2, h3⟩
      · rw [h1] at hu; exact hinv.1 u thu hu
      · rw [h3] at hu; cases hu
        have := hinv.1 u thu0 h1
        rw [h2] at this
        simpa [holdsM] using this
  · intro u hu
    rw [step_length h]
    by_cases hut : u = t
    · subst hut; exact hlt
    · exact hinv.2 u ((hq u hut).mp hu)

theorem ReachF.mutex {progs : List (List Call)} {flag : Bool} {s : State} (h : ReachF progs flag s) : MutexInv s :=
  h.induction (MutexInv.init progs flag) (fun _ _ _ _ hi hs => hi.step hs)

end Evp.Conc
