/-
  Invariants of the concurrent queue model for programs WITHOUT `processIf` and WITHOUT
  `processUntil` (non-selective consumers): nothing is ever put back, so

  * `NoIfInv`  : every processing call has mode 0/1, `kept = []`, and never reaches `procPutBack`
                 (nor the two pcs after it, `procPbReadNc` / `procPbNotify`)
  * `QRange`   : `queue` is the contiguous id range `[a, nextEv)` for some `a`
  * `OrderInv` : per thread, the ids it consumed are increasing, its local `todo` is increasing and
                 larger than everything it consumed
  * `EmptyInv` : an `emptyQueue` call that has read the list as empty: no event spliced in before
                 the call began is in the list (now or later)
-/
import EventppVerif.Conc.QueueInvA
namespace Evp.Conc
open List

/-- no call of the family puts events back: neither `processIf` nor `processUntil` occurs
    (before `processUntil` was modelled this said "no `processIf`"; `processUntil` is excluded for the
    same reason: its put-back breaks `QRange`, and with several consumers also the per-thread order —
    `C06_processUntil_two_consumers_out_of_order`.  Programs WITH `processUntil` are covered by the
    single-consumer theory, Conc/QueueInvC.lean) -/
def NoIf (progs : List (List Call)) : Prop :=
  ∀ p ∈ progs, ∀ c ∈ p, ∀ k, c ≠ Call.processIf k ∧ c ≠ Call.processUntil k

def pcOK : PC → Prop
  | .procPre m => m ≤ 1
  | .procInc m => m ≤ 1
  | .procTake m => m ≤ 1
  | .procLoop m _ kept _ => m ≤ 1 ∧ kept = []
  | .procPutBack _ _ => False
  | .procPbReadNc _ => False
  | .procPbNotify _ => False
  | _ => True

theorem pcOK_procPre (m : Nat) : pcOK (.procPre m) = (m ≤ 1) := rfl
theorem pcOK_procInc (m : Nat) : pcOK (.procInc m) = (m ≤ 1) := rfl
theorem pcOK_procTake (m : Nat) : pcOK (.procTake m) = (m ≤ 1) := rfl
theorem pcOK_procLoop (m : Nat) (todo kept : List Nat) (any : Bool) :
    pcOK (.procLoop m todo kept any) = (m ≤ 1 ∧ kept = []) := rfl
theorem pcOK_procPutBack (kept : List Nat) (any : Bool) : pcOK (.procPutBack kept any) = False := rfl
theorem pcOK_procPbReadNc (any : Bool) : pcOK (.procPbReadNc any) = False := rfl
theorem pcOK_procPbNotify (any : Bool) : pcOK (.procPbNotify any) = False := rfl

def thOK (th : Thread) : Prop :=
  (∀ c ∈ th.prog, ∀ k, c ≠ Call.processIf k ∧ c ≠ Call.processUntil k) ∧ pcOK th.pc

def NoIfInv (s : State) : Prop := ∀ (u : Nat) thu, s.threads[u]? = some thu → thOK thu

theorem keepPred_le_one {m e : Nat} (h : m ≤ 1) : keepPred m e = false := by
  unfold keepPred
  have h2 : ¬ m = 2 := by omega
  have h3 : ¬ m = 3 := by omega
  simp [h2, h3]

theorem stopPred_le_one {m e : Nat} (h : m ≤ 1) : stopPred m e = false := by
  unfold stopPred
  have h2 : ¬ m = 4 := by omega
  have h3 : ¬ m = 5 := by omega
  simp [h2, h3]

theorem noIf_self {s : State} {t ch : Nat} {s' : State} (h : step s t ch = some s') (th : Thread)
    (hg' : s.threads[t]? = some th) (hOK : thOK th) : ∀ th', s'.threads[t]? = some th' → thOK th' := by
  obtain ⟨hprog, hpc'⟩ := hOK
  step_cases h th2 hg hpc
  all_goals
    rw [hg'] at hg; cases hg
  case procPbNotify => rw [hpc] at hpc'; exact absurd hpc' id
  case enqNotify | dqnNotify =>
    have hg2 := threads_notifyOne_of hg' (by simp [hpc]) ch
    intro th' hth'
    simp only [setT_threads, set_self hg2] at hth'
    cases hth'
    exact ⟨fun c hc => hprog c (List.mem_of_mem_tail hc), trivial⟩
  all_goals
    intro th' hth'
    simp only [setT_threads, set_self hg'] at hth'
    cases hth'
    rw [hpc] at hpc'
    first
    | exact ⟨fun c hc => hprog c (List.mem_of_mem_tail hc), trivial⟩
    | exact ⟨hprog, trivial⟩
    | exact ⟨hprog, hpc'⟩
    | skip
  all_goals
    simp only [thOK, pcOK_procPre, pcOK_procTake, pcOK_procLoop, pcOK_procPutBack] at hpc' ⊢
    first
    | exact ⟨hprog, by omega⟩
    | exact ⟨hprog, by omega, trivial⟩
    | (exfalso; rename_i heq; rw [heq] at hprog; exact (hprog _ (List.mem_cons_self ..) _).1 rfl)
    | (exfalso; rename_i heq; rw [heq] at hprog; exact (hprog _ (List.mem_cons_self ..) _).2 rfl)
    | (exfalso; rename_i hk; rw [stopPred_le_one (And.left hpc')] at hk; cases hk)
    | (exfalso; rename_i hk; rw [keepPred_le_one (And.left hpc')] at hk; cases hk)
    | (exfalso; rename_i hk; rw [(And.right hpc')] at hk; exact hk rfl)

theorem NoIfInv.init {progs : List (List Call)} (hno : NoIf progs) (flag : Bool) : NoIfInv (init progs flag) := by
  intro u thu h
  obtain ⟨p, hp, rfl⟩ := init_thread h
  exact ⟨hno p (List.mem_of_getElem? hp), trivial⟩

theorem NoIfInv.step {s : State} {t ch : Nat} {s' : State} (hinv : NoIfInv s) (h : step s t ch = some s') :
    NoIfInv s' := by
  obtain ⟨th, hg⟩ := step_getT h
  refine local_step (Q := thOK) h ?_ (noIf_self h th hg (hinv t th hg)) hinv
  intro thu timed _ hq
  exact ⟨hq.1, trivial⟩

theorem ReachF.noIf {progs : List (List Call)} {flag : Bool} {s : State} (hno : NoIf progs)
    (h : ReachF progs flag s) : NoIfInv s :=
  h.induction (NoIfInv.init hno flag) (fun _ _ _ _ hi hs => hi.step hs)

/-! ## the queue is a contiguous range of ids -/

def QRange (s : State) : Prop := ∃ a, a ≤ s.nextEv ∧ s.queue = List.range' a (s.nextEv - a)

theorem QRange.init (progs : List (List Call)) (flag : Bool) : QRange (init progs flag) :=
  ⟨0, Nat.le_refl _, rfl⟩

theorem range'_pop {a n e : Nat} {r : List Nat} (ha : a ≤ n) (h : e :: r = List.range' a (n - a)) :
    a + 1 ≤ n ∧ e = a ∧ r = List.range' (a + 1) (n - (a + 1)) := by
  have hk : n - a ≠ 0 := by intro h0; rw [h0] at h; simp at h
  rw [show n - a = (n - (a + 1)) + 1 by omega, List.range'_succ] at h
  injection h with h1 h2
  exact ⟨by omega, h1, h2⟩

theorem QRange.step {s : State} {t ch : Nat} {s' : State} (hinv : QRange s) (hno : NoIfInv s)
    (h : step s t ch = some s') : QRange s' := by
  obtain ⟨a, ha, hq⟩ := hinv
  step_cases h th hg hpc
  all_goals
    unfold QRange
    simp only [setT_queue, setT_nextEv, notifyOne_queue, notifyOne_nextEv]
    first
    | exact ⟨a, ha, hq⟩
    | (exfalso; have := (hno t th hg).2; rw [hpc] at this; exact this)
    | (rename_i heq; rw [heq] at hq; have := range'_pop ha hq; exact ⟨a + 1, this.1, this.2.2⟩)
    | (refine ⟨s.nextEv, Nat.le_refl _, ?_⟩; rw [Nat.sub_self]; rfl)
    | (refine ⟨a, Nat.le_succ_of_le ha, ?_⟩
       rw [hq, show s.nextEv + 1 - a = (s.nextEv - a) + 1 by omega, List.range'_concat]
       simp; omega)

theorem ReachF.qrange {progs : List (List Call)} {flag : Bool} {s : State} (hno : NoIf progs)
    (h : ReachF progs flag s) : QRange s := by
  have : NoIfInv s ∧ QRange s :=
    h.induction (P := fun s => NoIfInv s ∧ QRange s) ⟨NoIfInv.init hno flag, QRange.init progs flag⟩
      (fun _ _ _ _ hi hs => ⟨hi.1.step hs, hi.2.step hi.1 hs⟩)
  exact this.2

theorem QRange.pairwise {s : State} (h : QRange s) : s.queue.Pairwise (· < ·) := by
  obtain ⟨a, _, hq⟩ := h
  rw [hq]; exact List.pairwise_lt_range'

theorem QRange.lt_nextEv {s : State} (h : QRange s) : ∀ y ∈ s.queue, y < s.nextEv := by
  obtain ⟨a, ha, hq⟩ := h
  intro y hy
  rw [hq, List.mem_range'_1] at hy
  omega

/-- without put-back, everything that has left the queue is smaller than everything still in it -/
theorem lt_queue_of {s : State} (hc : ConsInv s) (hq : QRange s) {x : Nat}
    (hx : x ∈ inflightL s.threads ∨ x ∈ s.consumed.map (·.1)) : ∀ y ∈ s.queue, x < y := by
  obtain ⟨a, ha, hq⟩ := hq
  have h1 := hc x
  have h2 := ind_le_one x s.nextEv
  have h3 : 0 < count x (inflightL s.threads) + count x (s.consumed.map (·.1)) := by
    rcases hx with hx | hx
    · have := List.count_pos_iff.mpr hx; omega
    · have := List.count_pos_iff.mpr hx; omega
  have h4 : count x s.queue = 0 := by omega
  have h5 : x < s.nextEv := ind_eq_one.mp (by omega)
  rw [List.count_eq_zero, hq, List.mem_range'_1] at h4
  intro y hy
  rw [hq, List.mem_range'_1] at hy
  omega

/-! ## how a step changes the shared state (without put-back) -/

theorem step_nextEv_mono {s : State} {t ch : Nat} {s' : State} (h : step s t ch = some s') :
    s.nextEv ≤ s'.nextEv := by
  step_cases h th hg hpc
  all_goals
    simp only [setT_nextEv, notifyOne_nextEv]
    omega

/-- the queue only loses elements or gains fresh ids -/
theorem step_queue_sub {s : State} {t ch : Nat} {s' : State} (hno : NoIfInv s) (h : step s t ch = some s') :
    ∀ y ∈ s'.queue, y ∈ s.queue ∨ s.nextEv ≤ y := by
  step_cases h th hg hpc
  all_goals
    simp only [setT_queue, notifyOne_queue]
    first
    | exact fun y hy => Or.inl hy
    | (intro y hy; exact absurd hy List.not_mem_nil)
    | (exfalso; have := (hno t th hg).2; rw [hpc] at this; exact this)
    | (rename_i heq; rw [heq]; exact fun y hy => Or.inl (List.mem_cons_of_mem _ hy))
    | (intro y hy; rcases List.mem_append.mp hy with hy | hy
       · exact Or.inl hy
       · simp at hy; subst hy; exact Or.inr (Nat.le_refl _))

/-- every event a step consumes is recorded with the stepping thread -/
theorem step_consumed {s : State} {t ch : Nat} {s' : State} (h : step s t ch = some s') :
    ∃ add, s'.consumed = s.consumed ++ add ∧ ∀ c ∈ add, c.2.2 = t := by
  step_cases h th hg hpc
  all_goals
    simp only [setT_consumed, notifyOne_consumed]
    first
    | exact ⟨[], (List.append_nil _).symm, fun c hc => absurd hc List.not_mem_nil⟩
    | (refine ⟨_, rfl, ?_⟩; simp; done)

/-! ## per-thread consumption order -/

def consumedByL (c : List (Nat × How × Tid)) (u : Tid) : List Nat := (c.filter (·.2.2 == u)).map (·.1)

/-- ids consumed (dispatched, taken or cleared) by thread `u`, in consumption order -/
def consumedBy (s : State) (u : Tid) : List Nat := consumedByL s.consumed u

theorem consumedByL_append (c d : List (Nat × How × Tid)) (u : Tid) :
    consumedByL (c ++ d) u = consumedByL c u ++ consumedByL d u := by
  simp [consumedByL]

theorem consumedByL_single (e : Nat) (hw : How) (t : Tid) : consumedByL [(e, hw, t)] t = [e] := by
  simp [consumedByL]

theorem consumedByL_tag (q : List Nat) (hw : How) (t : Tid) :
    consumedByL (q.map (fun e => (e, hw, t))) t = q := by
  induction q with
  | nil => rfl
  | cons a r ih => simp only [consumedByL] at ih ⊢; simp [ih]

theorem consumedByL_other {d : List (Nat × How × Tid)} {t u : Tid} (h : ∀ c ∈ d, c.2.2 = t) (hu : u ≠ t) :
    consumedByL d u = [] := by
  simp only [consumedByL, List.map_eq_nil_iff, List.filter_eq_nil_iff]
  intro c hc
  rw [h c hc]
  simp [Ne.symm hu]

theorem consumedByL_sub (c : List (Nat × How × Tid)) (u : Tid) : ∀ x ∈ consumedByL c u, x ∈ c.map (·.1) := by
  intro x hx
  simp only [consumedByL, List.mem_map, List.mem_filter] at hx ⊢
  obtain ⟨a, ⟨ha, _⟩, rfl⟩ := hx
  exact ⟨a, ha, rfl⟩

theorem mem_inflightL {l : List Thread} {t : Nat} {x : Thread} (h : l[t]? = some x) :
    ∀ y ∈ inflightOf x.pc, y ∈ inflightL l := by
  intro y hy
  exact List.mem_flatMap.mpr ⟨x, List.mem_of_getElem? h, hy⟩

def OrderInv (s : State) : Prop :=
  ∀ u : Nat, (consumedBy s u).Pairwise (· < ·) ∧
    ∀ thu, s.threads[u]? = some thu →
      (inflightOf thu.pc).Pairwise (· < ·) ∧ ∀ x ∈ consumedBy s u, ∀ y ∈ inflightOf thu.pc, x < y

theorem order_self {s : State} {t ch : Nat} {s' : State} (h : step s t ch = some s') (th : Thread)
    (hg' : s.threads[t]? = some th) (hOK : pcOK th.pc)
    (hP : (consumedByL s.consumed t).Pairwise (· < ·)) (hI : (inflightOf th.pc).Pairwise (· < ·))
    (hX : ∀ x ∈ consumedByL s.consumed t, ∀ y ∈ inflightOf th.pc, x < y)
    (hQ : s.queue.Pairwise (· < ·)) (hD : ∀ x ∈ consumedByL s.consumed t, ∀ y ∈ s.queue, x < y) :
    (consumedByL s'.consumed t).Pairwise (· < ·) ∧
    ∀ th', s'.threads[t]? = some th' →
      (inflightOf th'.pc).Pairwise (· < ·) ∧ ∀ x ∈ consumedByL s'.consumed t, ∀ y ∈ inflightOf th'.pc, x < y := by
  step_cases h th2 hg hpc
  all_goals
    rw [hg'] at hg; cases hg
  case enqNotify | dqnNotify | procPbNotify =>
    have hg2 := threads_notifyOne_of hg' (by simp [hpc]) ch
    simp only [setT_threads, setT_consumed, notifyOne_consumed, set_self hg2]
    refine ⟨hP, ?_⟩
    intro th' hth'; cases hth'
    simp [inflightOf]
  all_goals
    simp only [setT_threads, setT_consumed, set_self hg', Option.some.injEq, forall_eq']
    rw [hpc] at hI hX hOK
    first
    | (refine ⟨hP, ?_⟩; simp only [inflightOf]; exact ⟨List.Pairwise.nil, fun _ _ _ hy => absurd hy List.not_mem_nil⟩)
    | skip
  all_goals
    simp only [inflightOf, consumedByL_append, consumedByL_single, consumedByL_tag, pcOK_procLoop,
      List.nil_append, List.append_nil, List.isEmpty_iff] at *
    grind [keepPred_le_one]

theorem OrderInv.init (progs : List (List Call)) (flag : Bool) : OrderInv (init progs flag) := by
  intro u
  refine ⟨by simp [consumedBy, consumedByL, Evp.Conc.init], ?_⟩
  intro thu h
  rw [init_pc h]
  simp [inflightOf]

theorem OrderInv.step {s : State} {t ch : Nat} {s' : State} (hinv : OrderInv s) (hno : NoIfInv s)
    (hc : ConsInv s) (hq : QRange s) (h : step s t ch = some s') : OrderInv s' := by
  obtain ⟨th, hg⟩ := step_getT h
  obtain ⟨add, hadd, htag⟩ := step_consumed h
  have hD : ∀ u, ∀ x ∈ consumedByL s.consumed u, ∀ y ∈ s.queue, x < y :=
    fun u x hx => lt_queue_of hc hq (Or.inr (consumedByL_sub _ _ x hx))
  have hself := order_self h th hg (hno t th hg).2 (hinv t).1 ((hinv t).2 th hg).1 ((hinv t).2 th hg).2
    hq.pairwise (hD t)
  intro u
  by_cases hut : u = t
  · subst hut; exact hself
  · have hcb : consumedBy s' u = consumedBy s u := by
      simp only [consumedBy, hadd, consumedByL_append, consumedByL_other htag hut, List.append_nil]
    rw [hcb]
    refine ⟨(hinv u).1, ?_⟩
    intro thu' hu'
    rcases step_others h u hut with h1 | ⟨thu0, timed, h1, h2, h3⟩
    · rw [h1] at hu'; exact (hinv u).2 thu' hu'
    · rw [h3] at hu'; cases hu'; simp [inflightOf]

/-! ## `emptyQueue` calls in flight -/

def emptyOK (s : State) : PC → Prop
  | .emptyRead1 seen => seen ≤ s.nextEv
  | .emptyRead2 seen => seen ≤ s.nextEv ∧ ∀ e, e < seen → e ∉ s.queue
  | _ => True

def EmptyInv (s : State) : Prop := ∀ (u : Nat) thu, s.threads[u]? = some thu → emptyOK s thu.pc

theorem emptyOK_mono {s s' : State} (h1 : s.nextEv ≤ s'.nextEv)
    (h2 : ∀ y ∈ s'.queue, y ∈ s.queue ∨ s.nextEv ≤ y) (pc : PC) (h : emptyOK s pc) : emptyOK s' pc := by
  unfold emptyOK at *
  split
  · simp only at h; omega
  · simp only at h
    refine ⟨by omega, fun e he hm => ?_⟩
    rcases h2 e hm with h3 | h3
    · exact h.2 e he h3
    · omega
  · trivial

theorem empty_self {s : State} {t ch : Nat} {s' : State} (h : step s t ch = some s') (th : Thread)
    (hg' : s.threads[t]? = some th) (hOK : emptyOK s th.pc) :
    ∀ th', s'.threads[t]? = some th' → emptyOK s' th'.pc := by
  step_cases h th2 hg hpc
  all_goals
    rw [hg'] at hg; cases hg
  case enqNotify | dqnNotify | procPbNotify =>
    have hg2 := threads_notifyOne_of hg' (by simp [hpc]) ch
    simp only [setT_threads, set_self hg2, Option.some.injEq, forall_eq']
    trivial
  all_goals
    simp only [setT_threads, set_self hg', Option.some.injEq, forall_eq']
    rw [hpc] at hOK
    first
    | trivial
    | exact Nat.le_refl _
    | (rename_i hq; rw [List.isEmpty_iff] at hq
       exact ⟨hOK, fun e _ hm => by rw [setT_queue, show s.queue = [] from hq] at hm; exact absurd hm List.not_mem_nil⟩)

theorem EmptyInv.init (progs : List (List Call)) (flag : Bool) : EmptyInv (init progs flag) := by
  intro u thu h
  rw [init_pc h]
  trivial

theorem EmptyInv.step {s : State} {t ch : Nat} {s' : State} (hinv : EmptyInv s) (hno : NoIfInv s)
    (h : step s t ch = some s') : EmptyInv s' := by
  obtain ⟨th, hg⟩ := step_getT h
  have hself := empty_self h th hg (hinv t th hg)
  have hm := emptyOK_mono (step_nextEv_mono h) (step_queue_sub hno h)
  intro u thu' hu'
  by_cases hut : u = t
  · subst hut; exact hself thu' hu'
  · rcases step_others h u hut with h1 | ⟨thu0, timed, h1, h2, h3⟩
    · rw [h1] at hu'; exact hm _ (hinv u thu' hu')
    · rw [h3] at hu'; cases hu'; trivial

/-- all invariants for programs without `processIf` -/
structure NoIfAll (s : State) : Prop where
  noIf : NoIfInv s
  cons : ConsInv s
  qrange : QRange s
  order : OrderInv s
  empty : EmptyInv s

theorem ReachF.noIfAll {progs : List (List Call)} {flag : Bool} {s : State} (hno : NoIf progs)
    (h : ReachF progs flag s) : NoIfAll s :=
  h.induction
    ⟨NoIfInv.init hno flag, ConsInv.init progs flag, QRange.init progs flag, OrderInv.init progs flag,
      EmptyInv.init progs flag⟩
    (fun _ _ _ _ hi hs =>
      ⟨hi.noIf.step hs, hi.cons.step hs, hi.qrange.step hi.noIf hs, hi.order.step hi.noIf hi.cons hi.qrange hs,
        hi.empty.step hi.noIf hs⟩)

end Evp.Conc
