/-
  Invariants of the concurrent queue model for programs with a SINGLE CONSUMER thread `c` that may
  call `processUntil` (and `process`, `processOne`, `takeEvent`, `clearEvents`, but not `processIf`),
  next to any number of threads that enqueue / peek / call `emptyQueue` / wait / use
  DisableQueueNotify.

  `processUntil` puts the events it did not dispatch back IN FRONT of the queue, so the
  no-put-back theory of Conc/QueueInvB.lean (`NoIf`, `QRange`) does not apply.  With one consumer
  the order guarantee of C06 still holds, and that is what is proved here:

  * `ScThInv`  : per thread — every thread other than `c` never is at a removing pc; `c` never runs
                 a `processIf` mode and its `kept` list is `[]` inside `procLoop`
  * `ScOrder`  : every consumed event was consumed by `c`, and
                 `consumed ids ++ c's local list ++ queue` is strictly increasing — i.e. (ids are
                 handed out in splice-in order) the events are consumed in enqueue order, what `c` holds
                 locally is older than everything in the queue, and the put-back restores exactly that.

  With two consumers the statement is false: `C06_processUntil_two_consumers_out_of_order`.
-/
import EventppVerif.Conc.QueueInvB
namespace Evp.Conc
open List

/-- calls that can remove events from `queueList` -/
def isRemover : Call → Bool
  | .process => true
  | .processOne => true
  | .processIf _ => true
  | .processUntil _ => true
  | .takeEvent => true
  | .clearEvents => true
  | _ => false

def isIf : Call → Bool
  | .processIf _ => true
  | _ => false

/-- thread `c` is the only thread that removes events, and nobody calls `processIf` -/
def SingleConsumer (progs : List (List Call)) (c : Tid) : Prop :=
  ∀ (u : Nat) p, progs[u]? = some p → ∀ call ∈ p, (u ≠ c → isRemover call = false) ∧ isIf call = false

instance (progs : List (List Call)) (c : Tid) : Decidable (SingleConsumer progs c) :=
  decidable_of_iff (∀ u, u < progs.length → ∀ p, progs[u]? = some p →
      ∀ call ∈ p, (u ≠ c → isRemover call = false) ∧ isIf call = false)
    ⟨fun h u p hp => h u (List.getElem?_eq_some_iff.mp hp).1 p hp, fun h u _ p hp => h u p hp⟩

/-- pcs of the removing calls -/
def remPc : PC → Bool
  | .procPre _ => true
  | .procInc _ => true
  | .procTake _ => true
  | .procLoop _ _ _ _ => true
  | .procPutBack _ _ => true
  | .procPbReadNc _ => true
  | .procPbNotify _ => true
  | .procDec _ => true
  | .takePre => true
  | .takeLocked => true
  | .clearPre => true
  | .clearLocked => true
  | _ => false

/-- not a `processIf` mode -/
def modeOK (m : Nat) : Prop := m ≠ 2 ∧ m ≠ 3

def scPcOK : PC → Prop
  | .procPre m => modeOK m
  | .procInc m => modeOK m
  | .procTake m => modeOK m
  | .procLoop m _ kept _ => modeOK m ∧ kept = []
  | _ => True

theorem scPcOK_procPre (m : Nat) : scPcOK (.procPre m) = modeOK m := rfl
theorem scPcOK_procInc (m : Nat) : scPcOK (.procInc m) = modeOK m := rfl
theorem scPcOK_procTake (m : Nat) : scPcOK (.procTake m) = modeOK m := rfl
theorem scPcOK_procLoop (m : Nat) (todo kept : List Nat) (any : Bool) :
    scPcOK (.procLoop m todo kept any) = (modeOK m ∧ kept = []) := rfl

theorem keepPred_modeOK {m e : Nat} (h : modeOK m) : keepPred m e = false := by
  unfold keepPred; simp [h.1, h.2]

/-- per-thread invariant (`u` is the thread's index) -/
def scThOK (c : Tid) (u : Nat) (th : Thread) : Prop :=
  (∀ call ∈ th.prog, (u ≠ c → isRemover call = false) ∧ isIf call = false) ∧
  (u ≠ c → remPc th.pc = false) ∧ scPcOK th.pc

def ScThInv (c : Tid) (s : State) : Prop := ∀ (u : Nat) thu, s.threads[u]? = some thu → scThOK c u thu

/-- `local_step` for a per-thread property that may mention the thread's index -/
theorem local_step_idx {Q : Nat → Thread → Prop} {s : State} {t ch : Nat} {s' : State} (h : step s t ch = some s')
    (hwake : ∀ u thu timed, thu.pc = .parked timed → Q u thu → Q u { thu with pc := .woken timed false })
    (hself : ∀ th', s'.threads[t]? = some th' → Q t th')
    (hinv : ∀ (u : Nat) thu, s.threads[u]? = some thu → Q u thu) :
    ∀ (u : Nat) thu, s'.threads[u]? = some thu → Q u thu := by
  intro u thu hu
  by_cases hut : u = t
  · subst hut; exact hself thu hu
  · rcases step_others h u hut with h1 | ⟨thu0, timed, h1, h2, h3⟩
    · rw [h1] at hu; exact hinv u thu hu
    · rw [h3] at hu; cases hu
      exact hwake u thu0 timed h2 (hinv u thu0 h1)

theorem sc_self {c : Tid} {s : State} {t ch : Nat} {s' : State} (h : step s t ch = some s') (th : Thread)
    (hg' : s.threads[t]? = some th) (hOK : scThOK c t th) : ∀ th', s'.threads[t]? = some th' → scThOK c t th' := by
  obtain ⟨hprog, hrem, hpc'⟩ := hOK
  have htail : ∀ call ∈ th.prog.tail, (t ≠ c → isRemover call = false) ∧ isIf call = false :=
    fun call hc => hprog call (List.mem_of_mem_tail hc)
  step_cases h th2 hg hpc
  all_goals
    rw [hg'] at hg; cases hg
  case enqNotify | dqnNotify | procPbNotify =>
    have hg2 := threads_notifyOne_of hg' (by simp [hpc]) ch
    intro th' hth'
    simp only [setT_threads, set_self hg2] at hth'
    cases hth'
    rw [hpc] at hrem
    first
    | exact ⟨htail, fun _ => rfl, trivial⟩
    | exact ⟨hprog, hrem, trivial⟩
  all_goals
    intro th' hth'
    simp only [setT_threads, set_self hg'] at hth'
    cases hth'
    rw [hpc] at hpc' hrem
    first
    | exact ⟨htail, fun _ => rfl, trivial⟩
    | exact ⟨hprog, fun _ => rfl, trivial⟩
    | exact ⟨hprog, hrem, hpc'⟩
    | exact ⟨hprog, hrem, trivial⟩
    | skip
  all_goals
    simp only [scThOK, scPcOK_procPre, scPcOK_procTake, scPcOK_procLoop] at hpc' ⊢
    first
    | exact ⟨hprog, hrem, hpc', trivial⟩
    | exact ⟨hprog, hrem, hpc', rfl⟩
    | exact ⟨hprog, hrem, hpc'.1, rfl⟩
    | exact ⟨hprog, hrem, hpc'⟩
    | (rename_i heq
       have hh := hprog _ (by rw [heq]; exact List.mem_cons_self ..)
       refine ⟨hprog, fun hne => absurd (hh.1 hne) (by simp [isRemover]), ?_⟩
       first | trivial | (unfold modeOK; omega) | exact absurd hh.2 (by simp [isIf]))
    | (exfalso; rename_i hk; rw [keepPred_modeOK (And.left hpc')] at hk; cases hk)

theorem ScThInv.init {progs : List (List Call)} {c : Tid} (hsc : SingleConsumer progs c) (flag : Bool) :
    ScThInv c (init progs flag) := by
  intro u thu h
  obtain ⟨p, hp, rfl⟩ := init_thread h
  exact ⟨hsc u p hp, fun _ => rfl, trivial⟩

theorem ScThInv.step {c : Tid} {s : State} {t ch : Nat} {s' : State} (hinv : ScThInv c s)
    (h : step s t ch = some s') : ScThInv c s' := by
  obtain ⟨th, hg⟩ := step_getT h
  refine local_step_idx (Q := scThOK c) h ?_ (sc_self h th hg (hinv t th hg)) hinv
  intro u thu timed hp hq
  refine ⟨hq.1, fun _ => rfl, trivial⟩

/-! ## what a step of a non-removing thread does to the shared lists -/

theorem step_nonrem {s : State} {t ch : Nat} {s' : State} (h : step s t ch = some s') (th : Thread)
    (hg' : s.threads[t]? = some th) (hrem : remPc th.pc = false) :
    s'.consumed = s.consumed ∧ (s'.queue = s.queue ∨ s'.queue = s.queue ++ [s.nextEv]) := by
  step_cases h th2 hg hpc
  all_goals
    rw [hg'] at hg; cases hg
    rw [hpc] at hrem
    first
    | exact ⟨rfl, Or.inl rfl⟩
    | exact ⟨rfl, Or.inr rfl⟩
    | exact ⟨notifyOne_consumed s ch, Or.inl (notifyOne_queue s ch)⟩
    | (exfalso; cases hrem)

/-! ## the order invariant -/

/-- everything is consumed by `c`; consumed ids, `c`'s local list and the queue are increasing in
    this order -/
def ScOrder (c : Tid) (s : State) : Prop :=
  (∀ x ∈ s.consumed, x.2.2 = c) ∧
  (s.consumed.map (·.1) ++ s.queue).Pairwise (· < ·) ∧
  ∀ thc, s.threads[c]? = some thc → (s.consumed.map (·.1) ++ inflightOf thc.pc ++ s.queue).Pairwise (· < ·)

theorem lt_nextEv_of {s : State} (hc : ConsInv s) {x : Nat}
    (hx : x ∈ s.queue ∨ x ∈ inflightL s.threads ∨ x ∈ s.consumed.map (·.1)) : x < s.nextEv := by
  have h1 := hc x
  have h2 := ind_le_one x s.nextEv
  have h3 : 0 < count x s.queue + count x (inflightL s.threads) + count x (s.consumed.map (·.1)) := by
    rcases hx with hx | hx | hx <;> (have := List.count_pos_iff.mpr hx; omega)
  exact ind_eq_one.mp (by omega)

theorem ScOrder.init (c : Tid) (progs : List (List Call)) (flag : Bool) : ScOrder c (init progs flag) := by
  refine ⟨by simp [Evp.Conc.init], by simp [Evp.Conc.init], ?_⟩
  intro thc h
  rw [init_pc h]
  simp [inflightOf, Evp.Conc.init]

/-- the consumer's own step -/
theorem scOrder_self {s : State} {c ch : Nat} {s' : State} (h : step s c ch = some s') (th : Thread)
    (hg' : s.threads[c]? = some th) (hOK : scPcOK th.pc)
    (hT : ∀ x ∈ s.consumed, x.2.2 = c)
    (hP : (s.consumed.map (·.1) ++ inflightOf th.pc ++ s.queue).Pairwise (· < ·))
    (hB : ∀ x, x ∈ s.consumed.map (·.1) ∨ x ∈ inflightOf th.pc ∨ x ∈ s.queue → x < s.nextEv) :
    (∀ x ∈ s'.consumed, x.2.2 = c) ∧
    ∀ th', s'.threads[c]? = some th' → (s'.consumed.map (·.1) ++ inflightOf th'.pc ++ s'.queue).Pairwise (· < ·) := by
  step_cases h th2 hg hpc
  all_goals
    rw [hg'] at hg; cases hg
  case enqNotify | dqnNotify | procPbNotify =>
    have hg2 := threads_notifyOne_of hg' (by simp [hpc]) ch
    simp only [setT_threads, setT_consumed, setT_queue, notifyOne_consumed, notifyOne_queue, set_self hg2,
      Option.some.injEq, forall_eq']
    rw [hpc] at hP
    exact ⟨hT, by simpa [inflightOf] using hP⟩
  case enqSplice =>
    simp only [setT_threads, setT_consumed, setT_queue, set_self hg', Option.some.injEq, forall_eq']
    rw [hpc] at hP hB
    refine ⟨hT, ?_⟩
    simp only [inflightOf, List.append_nil] at hP hB ⊢
    rw [← List.append_assoc, List.pairwise_append]
    refine ⟨hP, List.pairwise_singleton _ _, ?_⟩
    intro a ha b hb
    simp only [List.mem_singleton] at hb; subst hb
    rcases List.mem_append.mp ha with ha | ha
    · exact hB a (Or.inl ha)
    · exact hB a (Or.inr (Or.inr ha))
  all_goals
    simp only [setT_threads, setT_consumed, setT_queue, set_self hg', Option.some.injEq, forall_eq']
    rw [hpc] at hP hB hOK
    first
    | exact ⟨hT, by simpa [inflightOf] using hP⟩
    | skip
  -- what is left: the steps that move events between `queue`, the local list and `consumed`; in each
  -- of them the concatenation `consumed ++ local ++ queue` is the same list before and after
  all_goals
    try simp only [List.isEmpty_iff, scPcOK_procLoop] at *
    refine ⟨?_, ?_⟩
    · first
      | exact hT
      | (intro x hx
         rcases List.mem_append.mp hx with hx | hx
         · exact hT x hx
         · simp only [List.mem_singleton, List.mem_map] at hx
           first | (subst hx; rfl) | (obtain ⟨_, _, rfl⟩ := hx; rfl))
    · first
      | (exfalso; rename_i hk; rw [keepPred_modeOK (And.left hOK)] at hk; cases hk; done)
      | (simpa [inflightOf, map_fst_tag, hOK.2] using hP; done)
      | (rename_i heq; rw [heq] at hP; simpa [inflightOf, map_fst_tag] using hP; done)
      | (rename_i heq; simpa [inflightOf, map_fst_tag, heq] using hP; done)
      | (simp only [List.map_append, map_fst_tag, inflightOf, List.append_nil] at hP ⊢; exact hP)

theorem ScOrder.step {c : Tid} {s : State} {t ch : Nat} {s' : State} (hinv : ScOrder c s) (hth : ScThInv c s)
    (hc : ConsInv s) (h : step s t ch = some s') : ScOrder c s' := by
  obtain ⟨th, hg⟩ := step_getT h
  obtain ⟨hT, hQ, hP⟩ := hinv
  by_cases htc : t = c
  · subst htc
    have hB : ∀ x, x ∈ s.consumed.map (·.1) ∨ x ∈ inflightOf th.pc ∨ x ∈ s.queue → x < s.nextEv := by
      intro x hx
      rcases hx with hx | hx | hx
      · exact lt_nextEv_of hc (Or.inr (Or.inr hx))
      · exact lt_nextEv_of hc (Or.inr (Or.inl (mem_inflightL hg x hx)))
      · exact lt_nextEv_of hc (Or.inl hx)
    obtain ⟨h1, h2⟩ := scOrder_self h th hg (hth t th hg).2.2 hT (hP th hg) hB
    refine ⟨h1, ?_, h2⟩
    obtain ⟨th', hth'⟩ : ∃ th', s'.threads[t]? = some th' := by
      have hlt := (List.getElem?_eq_some_iff.mp hg).1
      rw [← step_length h] at hlt
      exact ⟨_, List.getElem?_eq_getElem hlt⟩
    refine List.Pairwise.sublist ?_ (h2 th' hth')
    exact List.Sublist.append (List.sublist_append_left _ _) (List.Sublist.refl _)
  · obtain ⟨hcons, hqueue⟩ := step_nonrem h th hg ((hth t th hg).2.1 htc)
    have hcase : ∀ (l : List Nat), (∀ x ∈ l, x < s.nextEv) → (l ++ s.queue).Pairwise (· < ·) →
        (l ++ s'.queue).Pairwise (· < ·) := by
      intro l hl hp
      rcases hqueue with hq | hq <;> rw [hq]
      · exact hp
      · rw [← List.append_assoc, List.pairwise_append]
        refine ⟨hp, List.pairwise_singleton _ _, ?_⟩
        intro a ha b hb
        simp only [List.mem_singleton] at hb; subst hb
        rcases List.mem_append.mp ha with ha | ha
        · exact hl a ha
        · exact lt_nextEv_of hc (Or.inl ha)
    refine ⟨by rw [hcons]; exact hT, ?_, ?_⟩
    · rw [hcons]
      exact hcase _ (fun x hx => lt_nextEv_of hc (Or.inr (Or.inr hx))) hQ
    · intro thc' hc'
      rw [hcons]
      have hct : c ≠ t := fun e => htc e.symm
      rcases step_others h c hct with h1 | ⟨thc0, timed, h1, h2, h3⟩
      · rw [h1] at hc'
        refine hcase _ ?_ (hP thc' hc')
        intro x hx
        rcases List.mem_append.mp hx with hx | hx
        · exact lt_nextEv_of hc (Or.inr (Or.inr hx))
        · exact lt_nextEv_of hc (Or.inr (Or.inl (mem_inflightL hc' x hx)))
      · rw [h3] at hc'; cases hc'
        have := hP thc0 h1
        rw [h2] at this
        simp only [inflightOf, List.append_nil] at this ⊢
        exact hcase _ (fun x hx => lt_nextEv_of hc (Or.inr (Or.inr hx))) this

/-- all invariants of single-consumer programs -/
structure ScAll (c : Tid) (s : State) : Prop where
  th : ScThInv c s
  cons : ConsInv s
  order : ScOrder c s

theorem ReachF.scAll {progs : List (List Call)} {flag : Bool} {s : State} {c : Tid}
    (hsc : SingleConsumer progs c) (h : ReachF progs flag s) : ScAll c s :=
  h.induction
    ⟨ScThInv.init hsc flag, ConsInv.init progs flag, ScOrder.init c progs flag⟩
    (fun _ _ _ _ hi hs => ⟨hi.th.step hs, hi.cons.step hs, hi.order.step hi.th hi.cons hs⟩)

/-! ## for EVERY family of programs: `kept` is used by `processIf` only -/

def keptOK : PC → Prop
  | .procLoop m _ kept _ => modeOK m → kept = []
  | _ => True

theorem keptOK_procLoop (m : Nat) (todo kept : List Nat) (any : Bool) :
    keptOK (.procLoop m todo kept any) = (modeOK m → kept = []) := rfl

def KeptInv (s : State) : Prop := ∀ (u : Nat) thu, s.threads[u]? = some thu → keptOK thu.pc

theorem kept_self {s : State} {t ch : Nat} {s' : State} (h : step s t ch = some s') (th : Thread)
    (hg' : s.threads[t]? = some th) (hOK : keptOK th.pc) : ∀ th', s'.threads[t]? = some th' → keptOK th'.pc := by
  step_cases h th2 hg hpc
  all_goals
    rw [hg'] at hg; cases hg
  case enqNotify | dqnNotify | procPbNotify =>
    have hg2 := threads_notifyOne_of hg' (by simp [hpc]) ch
    intro th' hth'
    simp only [setT_threads, set_self hg2] at hth'
    cases hth'
    trivial
  all_goals
    intro th' hth'
    simp only [setT_threads, set_self hg'] at hth'
    cases hth'
    rw [hpc] at hOK
    first
    | trivial
    | exact fun _ => rfl
    | exact hOK
    | (simp only [keptOK_procLoop] at hOK ⊢
       intro hm; exfalso; rename_i hk; rw [keepPred_modeOK hm] at hk; cases hk)

theorem KeptInv.init (progs : List (List Call)) (flag : Bool) : KeptInv (init progs flag) := by
  intro u thu h
  rw [init_pc h]
  trivial

theorem KeptInv.step {s : State} {t ch : Nat} {s' : State} (hinv : KeptInv s) (h : step s t ch = some s') :
    KeptInv s' := by
  obtain ⟨th, hg⟩ := step_getT h
  refine local_step (Q := fun th => keptOK th.pc) h ?_ (kept_self h th hg (hinv t th hg)) hinv
  intro thu timed _ _
  trivial

theorem ReachF.kept {progs : List (List Call)} {flag : Bool} {s : State} (h : ReachF progs flag s) : KeptInv s :=
  h.induction (KeptInv.init progs flag) (fun _ _ _ _ hi hs => hi.step hs)

/-! ## steps of the other threads leave a thread that is not parked alone -/

theorem exec_others_thread {t : Tid} {th : Thread} (hp : ∀ timed, th.pc ≠ .parked timed) :
    ∀ (sched : List (Tid × Nat)) (s : State), (∀ x ∈ sched, x.1 ≠ t) → s.threads[t]? = some th →
      (exec s sched).threads[t]? = some th := by
  intro sched
  induction sched with
  | nil => intro s _ h; exact h
  | cons a r ih =>
    intro s hne h
    obtain ⟨u, ch⟩ := a
    have hu : t ≠ u := fun e => hne (u, ch) (List.mem_cons_self ..) e.symm
    have hr : ∀ x ∈ r, x.1 ≠ t := fun x hx => hne x (List.mem_cons_of_mem _ hx)
    simp only [exec]
    cases hs : step s u ch with
    | none => exact ih s hr h
    | some s' =>
      refine ih s' hr ?_
      rcases step_others hs t hu with h1 | ⟨thu, timed, h1, h2, _⟩
      · rw [h1]; exact h
      · rw [h] at h1; cases h1; exact absurd h2 (hp timed)

end Evp.Conc
