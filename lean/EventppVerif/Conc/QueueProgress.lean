/-
  Enabledness of micro-steps: a thread that has not finished can always step when the mutex is
  free, and the holder of the mutex (a waiter evaluating its predicate) can always step.
-/
import EventppVerif.Conc.QueueInvA

namespace Evp.Conc

/-- with `queueListMutex` free, every unfinished thread can take a micro-step
    (a parked thread: its spurious wake-up) -/
theorem step_isSome_of_free {s : State} {u : Nat} {thu : Thread} (hg : s.threads[u]? = some thu)
    (hf : finished thu = false) (hqm : s.qm = none) : (step s u 0).isSome = true := by
  unfold step
  simp only [getT_eq, hg]
  cases hpc : thu.pc <;> simp only [hqm, Option.isSome_none, Bool.false_eq_true, if_false, if_true, and_false] <;>
    (repeat' split) <;> first | rfl | skip
  rename_i heq
  simp [finished, heq, hpc] at hf

/-- the holder of `queueListMutex` (a waiter evaluating its predicate) can always step -/
theorem step_isSome_of_holder {s : State} {u : Nat} {thu : Thread} (hg : s.threads[u]? = some thu)
    (hh : holdsM thu.pc = true) : (step s u 0).isSome = true := by
  unfold step
  simp only [getT_eq, hg]
  cases hpc : thu.pc <;> simp only [hpc, holdsM, Bool.false_eq_true] at hh <;> simp only [] <;>
    (repeat' split) <;> rfl

/-- a parked thread can take its spurious wake-up step -/
theorem step_isSome_of_parked {s : State} {u : Nat} {thu : Thread} (hg : s.threads[u]? = some thu)
    (hp : isParked thu = true) : (step s u 0).isSome = true := by
  unfold step
  simp only [getT_eq, hg]
  cases hpc : thu.pc <;> simp only [hpc, isParked, Bool.false_eq_true] at hp <;> simp

theorem holdsM_not_parked {th : Thread} (h : holdsM th.pc = true) : isParked th = false := by
  unfold isParked
  cases hpc : th.pc <;> simp only [hpc, holdsM, Bool.false_eq_true] at h <;> rfl

/-- `holdsM` spelled out -/
theorem holdsM_iff (pc : PC) : holdsM pc = true ↔
    (∃ timed ato, pc = .waitRead1 timed ato) ∨ (∃ timed ato, pc = .waitRead2 timed ato) ∨
    (∃ timed ato ne, pc = .waitRead3 timed ato ne) ∨ (∃ timed, pc = .waitPark timed) := by
  cases pc <;> simp [holdsM]

end Evp.Conc
