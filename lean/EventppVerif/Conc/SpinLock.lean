/-
  Model of `eventpp::SpinLock` (eventpolicies.h): a test-and-set lock.
      lock():   while(locked.test_and_set(acquire)) {}
      unlock(): locked.clear(release)
  Each `test_and_set` is one atomic micro-step (it returns the old value and leaves the flag set);
  `clear` is one micro-step.  Threads repeat: lock, critical section, unlock.  That the source has
  exactly this shape is re-read on every run (Generated/SpinFrag.lean).
-/
namespace Evp.Spin

inductive PC | idle | spinning | critical
deriving DecidableEq, Repr

structure State where
  flag : Bool := false
  pcs : List PC := []
deriving DecidableEq, Repr

/-- one micro-step of thread `t` -/
def step (s : State) (t : Nat) : State :=
  match s.pcs[t]? with
  | none => s
  | some .idle => { s with pcs := s.pcs.set t .spinning }               -- calls lock()
  | some .spinning =>
    -- test_and_set: old value false -> the lock is ours; true -> try again
    if s.flag then s else { flag := true, pcs := s.pcs.set t .critical }
  | some .critical => { flag := false, pcs := s.pcs.set t .idle }        -- unlock(): clear

def exec (s : State) : List Nat → State
  | [] => s
  | t :: r => exec (step s t) r

def init (n : Nat) : State := { pcs := List.replicate n .idle }

def isC (p : PC) : Nat := if p = .critical then 1 else 0

def cnt : List PC → Nat
  | [] => 0
  | p :: r => isC p + cnt r

def inCritical (s : State) : Nat := cnt s.pcs

/-- the flag is set exactly while somebody is in the critical section, and at most one thread is -/
def Inv (s : State) : Prop := inCritical s = (if s.flag then 1 else 0)

theorem cnt_set : ∀ (l : List PC) (t : Nat) (old new : PC), l[t]? = some old →
    cnt (l.set t new) + isC old = cnt l + isC new
  | [], t, _, _, h => by simp at h
  | a :: r, 0, old, new, h => by
    simp at h; subst h
    simp only [List.set_cons_zero, cnt]; omega
  | a :: r, k + 1, old, new, h => by
    simp at h
    have := cnt_set r k old new h
    simp only [List.set_cons_succ, cnt]; omega

theorem cnt_pos_of_mem : ∀ (l : List PC) (t : Nat), l[t]? = some .critical → 0 < cnt l
  | [], t, h => by simp at h
  | a :: r, 0, h => by simp at h; subst h; simp [cnt, isC]; omega
  | a :: r, k + 1, h => by
    simp at h
    have := cnt_pos_of_mem r k h
    simp only [cnt]; omega

theorem inv_step (s : State) (t : Nat) (h : Inv s) : Inv (step s t) := by
  unfold Inv inCritical at *
  unfold step
  cases hp : s.pcs[t]? with
  | none => simpa using h
  | some pc =>
    cases pc with
    | idle =>
      have := cnt_set s.pcs t .idle .spinning hp
      simp only [isC] at this
      simp at this ⊢
      rw [this]; exact h
    | spinning =>
      by_cases hf : s.flag = true
      · simpa [hf] using h
      · have hf' : s.flag = false := by simpa using hf
        have := cnt_set s.pcs t .spinning .critical hp
        simp only [isC] at this
        simp [hf'] at this h ⊢
        omega
    | critical =>
      have := cnt_set s.pcs t .critical .idle hp
      simp only [isC] at this
      have hpos := cnt_pos_of_mem s.pcs t hp
      simp at this ⊢
      by_cases hf : s.flag = true
      · simp [hf] at h; omega
      · have hf' : s.flag = false := by simpa using hf
        simp [hf'] at h; omega

theorem cnt_replicate_idle : ∀ n, cnt (List.replicate n PC.idle) = 0
  | 0 => rfl
  | n + 1 => by simp [List.replicate_succ, cnt, isC, cnt_replicate_idle n]

theorem inv_init (n : Nat) : Inv (init n) := by
  unfold Inv inCritical init
  simp [cnt_replicate_idle]

theorem inv_exec (s : State) (h : Inv s) : ∀ sched, Inv (exec s sched)
  | [] => h
  | t :: r => inv_exec (step s t) (inv_step s t h) r

/-- **mutual exclusion**: whatever the schedule, at most one thread is in the critical section -/
theorem mutual_exclusion (n : Nat) (sched : List Nat) : inCritical (exec (init n) sched) ≤ 1 := by
  have := inv_exec (init n) (inv_init n) sched
  unfold Inv at this
  split at this <;> omega

/-- a free lock can be taken: a spinning thread that is scheduled while the flag is clear enters -/
theorem progress (s : State) (t : Nat) (hp : s.pcs[t]? = some .spinning) (hf : s.flag = false) :
    (step s t).pcs[t]? = some .critical := by
  unfold step
  simp [hp, hf]
  have : t < s.pcs.length := by
    rcases Nat.lt_or_ge t s.pcs.length with h | h
    · exact h
    · simp [List.getElem?_eq_none h] at hp
  simp [this]

end Evp.Spin
