/-
  Balanced `DisableQueueNotify` scopes (WF (b)): in every reachable state each thread's remaining
  program closes exactly the objects the thread has open; in particular a finished thread owns none.
-/
import EventppVerif.Conc.WaitDqn

namespace Evp.Conc

/-- pcs of the destructor after the decrement -/
def dtorPc : PC → Bool
  | .dqnReadNc => true
  | .dqnReadEmpty => true
  | .dqnReadEc => true
  | .dqnNotify => true
  | _ => false

/-- objects the rest of the program (including the current call) still has to close -/
def dqnOpen (th : Thread) : Nat := if dtorPc th.pc = true then th.dqn + 1 else th.dqn

def callKind : Call → Nat
  | .dqnBegin => 1
  | .dqnEnd => 2
  | _ => 0

def pcKind : PC → Nat
  | .dqnInc => 1
  | .dqnDec => 2
  | .dqnReadNc => 2
  | .dqnReadEmpty => 2
  | .dqnReadEc => 2
  | .dqnNotify => 2
  | _ => 0

def bal (th : Thread) : Prop :=
  dqnBalanced (dqnOpen th) th.prog = true ∧
  (th.pc ≠ .idle → ∃ c r, th.prog = c :: r ∧ callKind c = pcKind th.pc)

def BInv (s : State) : Prop := ∀ t th, getT s t = some th → bal th

theorem dqnBalanced_kind0 {c : Call} (h : callKind c = 0) (d : Nat) (r : List Call) :
    dqnBalanced d (c :: r) = dqnBalanced d r := by
  cases c <;> simp [callKind] at h <;> rfl

theorem callKind_one {c : Call} (h : callKind c = 1) : c = .dqnBegin := by
  cases c <;> simp [callKind] at h; rfl

theorem callKind_two {c : Call} (h : callKind c = 2) : c = .dqnEnd := by
  cases c <;> simp [callKind] at h; rfl

theorem dtorPc_of_kind0 {pc : PC} (h : pcKind pc = 0) : dtorPc pc = false := by
  cases pc <;> simp [pcKind] at h <;> rfl

theorem bal_goto0 {th : Thread} (hb : bal th) (hk : pcKind th.pc = 0) (hni : th.pc ≠ .idle)
    (th' : Thread) (hprog : th'.prog = th.prog) (hd : th'.dqn = th.dqn)
    (hk' : pcKind th'.pc = 0) : bal th' := by
  obtain ⟨h1, h2⟩ := hb
  have e1 : dqnOpen th = th.dqn := by simp [dqnOpen, dtorPc_of_kind0 hk]
  have e2 : dqnOpen th' = th.dqn := by simp [dqnOpen, dtorPc_of_kind0 hk', hd]
  refine ⟨by rw [e2, hprog, ← e1]; exact h1, fun _ => ?_⟩
  obtain ⟨c, r, hp, hc⟩ := h2 hni
  exact ⟨c, r, by rw [hprog, hp], by rw [hc, hk, hk']⟩

theorem bal_finish0 {th : Thread} (hb : bal th) (hk : pcKind th.pc = 0) (hni : th.pc ≠ .idle)
    (th' : Thread) (hprog : th'.prog = th.prog.tail) (hd : th'.dqn = th.dqn)
    (hpc' : th'.pc = .idle) : bal th' := by
  obtain ⟨h1, h2⟩ := hb
  have e1 : dqnOpen th = th.dqn := by simp [dqnOpen, dtorPc_of_kind0 hk]
  have e2 : dqnOpen th' = th.dqn := by simp [dqnOpen, hpc', dtorPc, hd]
  obtain ⟨c, r, hp, hc⟩ := h2 hni
  refine ⟨?_, fun h => absurd hpc' h⟩
  rw [e2, hprog, hp, List.tail_cons]
  rw [e1, hp, dqnBalanced_kind0 (by rw [hc, hk])] at h1
  exact h1

/-- entering a call from idle -/
theorem bal_enter {th : Thread} (hb : bal th) (hi : th.pc = .idle) {c : Call} {r : List Call}
    (hp : th.prog = c :: r) (th' : Thread) (hprog : th'.prog = th.prog) (hd : th'.dqn = th.dqn)
    (hk' : pcKind th'.pc = callKind c) (hnd : dtorPc th'.pc = false) : bal th' := by
  obtain ⟨h1, _⟩ := hb
  have e1 : dqnOpen th = th.dqn := by simp [dqnOpen, hi, dtorPc]
  have e2 : dqnOpen th' = th.dqn := by simp [dqnOpen, hnd, hd]
  exact ⟨by rw [e2, hprog, ← e1]; exact h1, fun _ => ⟨c, r, by rw [hprog, hp], hk'.symm⟩⟩

theorem BInv_setT {s : State} (hB : BInv s) {t : Tid} {th : Thread} (hg : getT s t = some th)
    (s1 : State) (th' : Thread) (hthr : s1.threads = s.threads) (hb : bal th') :
    BInv (setT s1 t th') := by
  have hlt : t < s1.threads.length := by rw [hthr]; exact getT_lt hg
  have hget1 : ∀ u, getT s1 u = getT s u := by intro u; simp [getT, hthr]
  intro u thu hu
  by_cases hut : u = t
  · subst hut
    rw [getT_setT_self _ hlt] at hu
    cases hu; exact hb
  · rw [getT_setT_ne _ hut, hget1] at hu
    exact hB u thu hu

theorem BInv_notifyOne {s : State} (hB : BInv s) (ch : Nat) : BInv (notifyOne s ch) := by
  rcases notifyOne_casesW s ch with ⟨_, heq⟩ | ⟨w, thw, timed, hw, hwpc, heq⟩
  · rw [heq]; exact hB
  · rw [heq]
    exact BInv_setT hB hw s _ rfl
      (bal_goto0 (hB w thw hw) (by rw [hwpc]; rfl) (by rw [hwpc]; intro h; cases h) _ rfl rfl rfl)

theorem BInv_step {s s' : State} {t : Tid} {ch : Nat} (hB : BInv s) (h : step s t ch = some s') :
    BInv s' := by
  cases hg : getT s t with
  | none => simp [step, hg] at h
  | some th =>
    have hb := hB t th hg
    cases hpc : th.pc
    case idle =>
      simp only [step, hg, hpc] at h
      split at h
      · cases h
      case h_14 r hp =>
        -- dqnEnd
        have h1 := hb.1
        simp only [dqnOpen, hpc, dtorPc, hp, dqnBalanced, Bool.and_eq_true, decide_eq_true_eq] at h1
        split at h
        · rename_i h0
          simp [h0] at h1
        · cases h
          exact BInv_setT hB hg _ _ rfl (bal_enter hb hpc hp _ rfl rfl rfl rfl)
      all_goals
        rename_i hp
        cases h
        exact BInv_setT hB hg _ _ rfl (bal_enter hb hpc hp _ rfl rfl rfl rfl)
    case enqNotify =>
      simp only [step, hg, hpc] at h; cases h
      have hg' := getT_notifyOneW hg (by simp [isParked, hpc]) ch
      exact BInv_setT (BInv_notifyOne hB ch) hg' _ _ rfl
        (bal_finish0 hb (by rw [hpc]; rfl) (by rw [hpc]; intro h; cases h) _ rfl rfl rfl)
    case procPbNotify =>
      simp only [step, hg, hpc] at h; cases h
      have hg' := getT_notifyOneW hg (by simp [isParked, hpc]) ch
      exact BInv_setT (BInv_notifyOne hB ch) hg' _ _ rfl
        (bal_goto0 hb (by rw [hpc]; rfl) (by rw [hpc]; intro h; cases h) _ rfl rfl rfl)
    case dqnNotify =>
      simp only [step, hg, hpc] at h; cases h
      have hg' := getT_notifyOneW hg (by simp [isParked, hpc]) ch
      refine BInv_setT (BInv_notifyOne hB ch) hg' _ _ rfl ?_
      obtain ⟨h1, h2⟩ := hb
      obtain ⟨c, r, hp, hc⟩ := h2 (by rw [hpc]; intro h; cases h)
      rw [hpc] at hc
      have := callKind_two hc; subst this
      simp only [dqnOpen, hpc, dtorPc, hp, dqnBalanced, Bool.and_eq_true] at h1
      exact ⟨by simpa [dqnOpen, dtorPc, hp] using h1.2, fun h => absurd rfl h⟩
    case dqnInc =>
      simp only [step, hg, hpc] at h; cases h
      refine BInv_setT hB hg _ _ rfl ?_
      obtain ⟨h1, h2⟩ := hb
      obtain ⟨c, r, hp, hc⟩ := h2 (by rw [hpc]; intro h; cases h)
      rw [hpc] at hc
      have := callKind_one hc; subst this
      simp only [dqnOpen, hpc, dtorPc, hp, dqnBalanced] at h1
      exact ⟨by simpa [dqnOpen, dtorPc, hp] using h1, fun h => absurd rfl h⟩
    case dqnDec =>
      simp only [step, hg, hpc] at h
      split at h
      · cases h
      · cases h
        refine BInv_setT hB hg _ _ rfl ?_
        obtain ⟨h1, h2⟩ := hb
        obtain ⟨c, r, hp, hc⟩ := h2 (by rw [hpc]; intro h; cases h)
        rw [hpc] at hc
        have := callKind_two hc; subst this
        have h1' := h1
        simp [dqnOpen, hpc, dtorPc, hp, dqnBalanced] at h1'
        have e : th.dqn - 1 + 1 = th.dqn := by omega
        refine ⟨?_, fun _ => ⟨_, _, hp, rfl⟩⟩
        simp only [dqnOpen, dtorPc, e]
        simpa [dqnOpen, hpc, dtorPc] using h1
    case dqnReadNc =>
      simp only [step, hg, hpc] at h
      obtain ⟨h1, h2⟩ := hb
      obtain ⟨c, r, hp, hc⟩ := h2 (by rw [hpc]; intro h; cases h)
      rw [hpc] at hc
      have := callKind_two hc; subst this
      simp only [dqnOpen, hpc, dtorPc, hp, dqnBalanced, Bool.and_eq_true] at h1
      split at h <;> cases h
      · exact BInv_setT hB hg _ _ rfl ⟨by simpa [dqnOpen, dtorPc, hp, dqnBalanced] using h1.2, fun _ => ⟨_, _, hp, rfl⟩⟩
      · exact BInv_setT hB hg _ _ rfl ⟨by simpa [dqnOpen, dtorPc, hp] using h1.2, fun h => absurd rfl h⟩
    case dqnReadEmpty =>
      simp only [step, hg, hpc] at h
      obtain ⟨h1, h2⟩ := hb
      obtain ⟨c, r, hp, hc⟩ := h2 (by rw [hpc]; intro h; cases h)
      rw [hpc] at hc
      have := callKind_two hc; subst this
      simp only [dqnOpen, hpc, dtorPc, hp, dqnBalanced, Bool.and_eq_true] at h1
      split at h <;> cases h
      · exact BInv_setT hB hg _ _ rfl ⟨by simpa [dqnOpen, dtorPc, hp, dqnBalanced] using h1.2, fun _ => ⟨_, _, hp, rfl⟩⟩
      · exact BInv_setT hB hg _ _ rfl ⟨by simpa [dqnOpen, dtorPc, hp, dqnBalanced] using h1.2, fun _ => ⟨_, _, hp, rfl⟩⟩
    case dqnReadEc =>
      simp only [step, hg, hpc] at h
      obtain ⟨h1, h2⟩ := hb
      obtain ⟨c, r, hp, hc⟩ := h2 (by rw [hpc]; intro h; cases h)
      rw [hpc] at hc
      have := callKind_two hc; subst this
      simp only [dqnOpen, hpc, dtorPc, hp, dqnBalanced, Bool.and_eq_true] at h1
      split at h <;> cases h
      · exact BInv_setT hB hg _ _ rfl ⟨by simpa [dqnOpen, dtorPc, hp] using h1.2, fun h => absurd rfl h⟩
      · exact BInv_setT hB hg _ _ rfl ⟨by simpa [dqnOpen, dtorPc, hp, dqnBalanced] using h1.2, fun _ => ⟨_, _, hp, rfl⟩⟩
    all_goals
      simp only [step, hg, hpc] at h
      repeat' split at h
      all_goals
        first
        | (cases h; done)
        | (cases h
           first
           | exact BInv_setT hB hg _ _ rfl
               (bal_goto0 hb (by rw [hpc]; rfl) (by rw [hpc]; intro h; cases h) _ rfl rfl rfl)
           | exact BInv_setT hB hg _ _ rfl
               (bal_finish0 hb (by rw [hpc]; rfl) (by rw [hpc]; intro h; cases h) _ rfl rfl rfl))

theorem BInv_init {progs : List (List Call)} (hwf : ∀ p ∈ progs, dqnBalanced 0 p = true) (b : Bool) :
    BInv (init progs b) := by
  intro t th hg
  unfold getT init at hg
  simp only [List.getElem?_map] at hg
  cases hp : progs[t]? with
  | none => simp [hp] at hg
  | some p =>
    simp [hp] at hg; subst hg
    exact ⟨hwf p (List.mem_of_getElem? hp), fun h => absurd rfl h⟩

theorem BInv_reach {s0 s : State} (h0 : BInv s0) (hr : ReachFrom s0 s) : BInv s :=
  reachFrom_induction h0 (fun _ _ _ _ hB h => BInv_step hB h) s hr

/-- a finished thread of a balanced program owns no DisableQueueNotify object -/
theorem finished_dqn_zero {th : Thread} (hb : bal th) (hf : finished th = true) : th.dqn = 0 := by
  simp only [finished, Bool.and_eq_true, List.isEmpty_iff, beq_iff_eq] at hf
  have h1 := hb.1
  simpa [dqnOpen, hf.1, hf.2, dtorPc, dqnBalanced] using h1

theorem sumDqn_zero {l : List Thread} (h : ∀ (t : Nat) (th : Thread), l[t]? = some th → th.dqn = 0) : sumDqn l = 0 := by
  induction l with
  | nil => rfl
  | cons a r ih =>
    have ha : a.dqn = 0 := h 0 a (by simp)
    have hr : sumDqn r = 0 := ih (fun t th ht => h (t + 1) th (by simpa using ht))
    simp [sumDqn, ha, hr]

end Evp.Conc
