/-
  Definitions for the wake-up (C07) invariant of the concurrent queue model `Conc/Queue.lean`:
  well-formedness of thread programs, the per-thread and global parts of the inductive invariant,
  and an executable checker `checkJ` used to test the invariant on pseudo-random schedules before
  proving it (see `Conc/WaitInv.lean` for the proofs).
-/
import EventppVerif.Conc.Queue

namespace Evp.Conc

/-! ### well-formed programs -/

def headIsProcess : List Call → Bool
  | .process :: _ => true
  | _ => false

def headIsWait : List Call → Bool
  | .wait :: _ => true
  | .waitFor :: _ => true
  | _ => false

/-- (a) every `wait` / `waitFor` is immediately followed by a `process` call -/
def waitsFollowed : List Call → Bool
  | [] => true
  | .wait :: r => headIsProcess r && waitsFollowed r
  | .waitFor :: r => headIsProcess r && waitsFollowed r
  | _ :: r => waitsFollowed r

/-- (b) `dqnBegin` / `dqnEnd` are balanced: `d` objects are open before the program suffix -/
def dqnBalanced : Nat → List Call → Bool
  | d, [] => d == 0
  | d, .dqnBegin :: r => dqnBalanced (d + 1) r
  | d, .dqnEnd :: r => decide (0 < d) && dqnBalanced (d - 1) r
  | d, _ :: r => dqnBalanced d r

/-- the hypotheses of the no-lost-wake-up theorem on a family of thread programs.  `processIf` and
    `processUntil` calls are allowed: since both notify after putting events back (`procPbReadNc`,
    `procPbNotify`) no restriction on them is needed (see `C07_processIf_repaired` in
    `Properties/C07.lean` for the two schedules that lost a wake-up before that repair). -/
def WF (progs : List (List Call)) : Prop :=
  ∀ p ∈ progs, waitsFollowed p = true ∧ dqnBalanced 0 p = true

instance (progs : List (List Call)) : Decidable (WF progs) := by unfold WF; exact inferInstance

/-! ### classification of program counters -/

/-- the thread is inside `wait`'s critical section of `queueListMutex` -/
def holdsQm : PC → Bool
  | .waitRead1 _ _ => true
  | .waitRead2 _ _ => true
  | .waitRead3 _ _ _ => true
  | .waitPark _ => true
  | _ => false

def isWaitPc : PC → Bool
  | .waitLock _ => true
  | .waitRead1 _ _ => true
  | .waitRead2 _ _ => true
  | .waitRead3 _ _ _ => true
  | .waitPark _ => true
  | .parked _ => true
  | .woken _ _ => true
  | _ => false

/-- program counters at which a thread carries an *obligation*: it will, before it can finish or
    block, either make `queue ≠ [] ∧ nc = 0` false itself / see it false, or wake a parked waiter.

    A `processIf` / `processUntil` thread (modes 2/3, 4/5) is an obligation holder exactly after its put-back: at
    `procPutBack` the declined events are not in the list yet (and the step needs the mutex, so no
    waiter is between its predicate evaluation and its parking); the put-back step makes the list
    non-empty and the thread a holder (`procPbReadNc`), like `enqSplice` does for `enqueue`.
    `enqReadEc` / `dqnReadEc` (list read as empty, about to read `ec`) are NOT holders: they gave
    their obligation up when they read the list empty (the condition was false at that moment);
    if a put-back makes the list non-empty afterwards, the put-back thread is the holder. -/
def holderPc : PC → Bool
  | .enqReadEmpty => true
  | .procPbReadNc _ => true
  | .procPbNotify _ => true
  | .enqReadNc => true
  | .enqNotify => true
  | .dqnReadNc => true
  | .dqnReadEmpty => true
  | .dqnNotify => true
  | .woken _ _ => true
  | .waitRead1 _ _ => true
  | .waitRead3 _ _ _ => true
  | .procPre m => m == 0
  | .procInc m => m == 0
  | .procTake m => m == 0
  | _ => false

/-- obligation holders: the pcs above, and a thread whose next call is `process` -/
def holder (th : Thread) : Bool :=
  match th.pc with
  | .idle => headIsProcess th.prog
  | pc => holderPc pc

/-- per-thread part of the invariant -/
def thOKW (th : Thread) : Bool :=
  waitsFollowed th.prog && (!isWaitPc th.pc || headIsWait th.prog)

/-- the part of the invariant that relates one thread to the shared variables -/
def locOK (queue : List Nat) (nc : Nat) (qm : Option Tid) (t : Tid) (th : Thread) : Prop :=
  (holdsQm th.pc = true → qm = some t) ∧
  ((∃ a b, th.pc = .waitRead2 a b) → queue = []) ∧
  ((∃ a, th.pc = .waitPark a) → queue = [] ∨ nc ≠ 0)

/-- the condition under which a blocked waiter must be released -/
def cond (s : State) : Prop := s.queue ≠ [] ∧ s.nc = 0

/-- the part of the invariant that does not mention obligations -/
structure J0 (s : State) : Prop where
  locked : s.dqnLocked = true
  th : ∀ t th, getT s t = some th → thOKW th = true
  loc : ∀ t th, getT s t = some th → locOK s.queue s.nc s.qm t th

/-- KEY: events pending, notification enabled, somebody parked ⟹ somebody carries an obligation -/
def Key (s : State) : Prop :=
  cond s → (∃ t th, getT s t = some th ∧ isParked th = true) →
    ∃ t th, getT s t = some th ∧ holder th = true

/-- the inductive invariant -/
structure J (s : State) : Prop where
  base : J0 s
  key : Key s

/-! ### executable version, for testing -/

def locOKb (queue : List Nat) (nc : Nat) (qm : Option Tid) (t : Tid) (th : Thread) : Bool :=
  (!holdsQm th.pc || qm == some t) &&
  (match th.pc with | .waitRead2 _ _ => queue.isEmpty | _ => true) &&
  (match th.pc with | .waitPark _ => queue.isEmpty || nc != 0 | _ => true)

def checkJ (s : State) : Bool :=
  let ts := (List.range s.threads.length).filterMap (fun t => (s.threads[t]?).map (fun th => (t, th)))
  s.dqnLocked &&
  ts.all (fun p => thOKW p.2) &&
  ts.all (fun p => locOKb s.queue s.nc s.qm p.1 p.2) &&
  (s.queue.isEmpty || s.nc != 0 || !(ts.any (fun p => isParked p.2)) || ts.any (fun p => holder p.2))

/-- a terminal state with a lost wake-up -/
def lostWakeup (s : State) : Bool :=
  s.threads.all (fun th => finished th || isParked th) && s.threads.any isParked &&
  !s.queue.isEmpty && s.nc == 0

end Evp.Conc
