/-
  `queueNotifyCounter` equals the number of live `DisableQueueNotify` objects, in every reachable
  state and for both versions of the destructor (a thread at `dqnDec` still counts its object).
-/
import EventppVerif.Conc.WaitFrame

namespace Evp.Conc

def sumDqn : List Thread → Nat
  | [] => 0
  | th :: r => th.dqn + sumDqn r

theorem sumDqn_set {l : List Thread} {t : Nat} {th th' : Thread} (h : l[t]? = some th) :
    sumDqn (l.set t th') + th.dqn = sumDqn l + th'.dqn := by
  induction l generalizing t with
  | nil => simp at h
  | cons a r ih =>
    cases t with
    | zero =>
      simp at h; subst h
      simp [sumDqn]; omega
    | succ n =>
      simp at h
      have := ih h
      simp [sumDqn]; omega

theorem le_sumDqn {l : List Thread} {t : Nat} {th : Thread} (h : l[t]? = some th) : th.dqn ≤ sumDqn l := by
  induction l generalizing t with
  | nil => simp at h
  | cons a r ih =>
    cases t with
    | zero => simp at h; subst h; simp [sumDqn]
    | succ n => simp at h; have := ih h; simp [sumDqn]; omega

/-- the counter invariant -/
def DInv (s : State) : Prop :=
  s.nc = sumDqn s.threads ∧ ∀ t th, getT s t = some th → th.pc = .dqnDec → 1 ≤ th.dqn

theorem DInv_setT {s : State} (hD : DInv s) {t : Tid} {th : Thread} (hg : getT s t = some th)
    (s1 : State) (th' : Thread) (hthr : s1.threads = s.threads)
    (hnc : s1.nc + th.dqn = s.nc + th'.dqn) (hpc : th'.pc = .dqnDec → 1 ≤ th'.dqn) :
    DInv (setT s1 t th') := by
  have hlt : t < s1.threads.length := by rw [hthr]; exact getT_lt hg
  have hget1 : ∀ u, getT s1 u = getT s u := by intro u; simp [getT, hthr]
  refine ⟨?_, ?_⟩
  · show s1.nc = sumDqn (s1.threads.set t th')
    have := sumDqn_set (th' := th') (show s1.threads[t]? = some th by rw [hthr]; exact hg)
    rw [hthr] at this ⊢
    have h0 := hD.1
    omega
  · intro u thu hu hpcu
    by_cases hut : u = t
    · subst hut
      rw [getT_setT_self _ hlt] at hu
      cases hu; exact hpc hpcu
    · rw [getT_setT_ne _ hut, hget1] at hu
      exact hD.2 u thu hu hpcu

theorem DInv_notifyOne {s : State} (hD : DInv s) (ch : Nat) : DInv (notifyOne s ch) := by
  rcases notifyOne_casesW s ch with ⟨_, heq⟩ | ⟨w, thw, timed, hw, _, heq⟩
  · rw [heq]; exact hD
  · rw [heq]
    exact DInv_setT hD hw s _ rfl rfl (by intro h; cases h)

theorem getT_notifyOneW {s : State} {t : Tid} {th : Thread} (hg : getT s t = some th)
    (hnp : isParked th = false) (ch : Nat) : getT (notifyOne s ch) t = some th := by
  rcases notifyOne_casesW s ch with ⟨_, heq⟩ | ⟨w, thw, timed, hw, hwpc, heq⟩
  · rw [heq]; exact hg
  · rw [heq]
    have hwt : t ≠ w := by
      intro h; subst h
      rw [hg] at hw; cases hw
      simp [isParked, hwpc] at hnp
    rw [getT_setT_ne _ hwt]; exact hg

theorem notifyOne_nc (s : State) (ch : Nat) : (notifyOne s ch).nc = s.nc := by
  rcases notifyOne_casesW s ch with ⟨_, heq⟩ | ⟨w, thw, timed, _, _, heq⟩ <;> rw [heq] <;> rfl

theorem DInv_step {s s' : State} {t : Tid} {ch : Nat} (hD : DInv s) (h : step s t ch = some s') :
    DInv s' := by
  cases hg : getT s t with
  | none => simp [step, hg] at h
  | some th =>
    have hdec := hD.2 t th hg
    have hle : th.dqn ≤ s.nc := by rw [hD.1]; exact le_sumDqn hg
    cases hpc : th.pc
    case enqNotify =>
      simp only [step, hg, hpc] at h; cases h
      have hg' := getT_notifyOneW hg (by simp [isParked, hpc]) ch
      exact DInv_setT (DInv_notifyOne hD ch) hg' _ _ rfl rfl (by intro h; cases h)
    case dqnNotify =>
      simp only [step, hg, hpc] at h; cases h
      have hg' := getT_notifyOneW hg (by simp [isParked, hpc]) ch
      exact DInv_setT (DInv_notifyOne hD ch) hg' _ _ rfl rfl (by intro h; cases h)
    case procPbNotify =>
      simp only [step, hg, hpc] at h; cases h
      have hg' := getT_notifyOneW hg (by simp [isParked, hpc]) ch
      exact DInv_setT (DInv_notifyOne hD ch) hg' _ _ rfl rfl (by intro h; cases h)
    case dqnDec =>
      have h1 := hdec hpc
      simp only [step, hg, hpc] at h
      split at h
      · cases h
      · cases h
        refine DInv_setT hD hg _ _ rfl ?_ (by intro h; cases h)
        show s.nc - 1 + th.dqn = s.nc + (th.dqn - 1)
        omega
    case dqnInc =>
      simp only [step, hg, hpc] at h; cases h
      refine DInv_setT hD hg _ _ rfl ?_ (by intro h; cases h)
      show s.nc + 1 + th.dqn = s.nc + (th.dqn + 1)
      omega
    all_goals
      simp only [step, hg, hpc] at h
      repeat' split at h
      all_goals
        first
        | (cases h; done)
        | (cases h
           exact DInv_setT hD hg _ _ rfl rfl (by intro h; first | (cases h; done) | (show 1 ≤ th.dqn; omega)))

theorem DInv_init (progs : List (List Call)) (b : Bool) : DInv (init progs b) := by
  refine ⟨?_, ?_⟩
  · show 0 = sumDqn (progs.map (fun p => { prog := p }))
    induction progs with
    | nil => rfl
    | cons p r ih => simp [sumDqn, ← ih]
  · intro t th hg hpc
    unfold getT init at hg
    simp only [List.getElem?_map] at hg
    cases hp : progs[t]? with
    | none => simp [hp] at hg
    | some p => simp [hp] at hg; subst hg; cases hpc

theorem DInv_reach {s0 s : State} (h0 : DInv s0) (hr : ReachFrom s0 s) : DInv s :=
  reachFrom_induction h0 (fun _ _ _ _ hD h => DInv_step hD h) s hr

end Evp.Conc
