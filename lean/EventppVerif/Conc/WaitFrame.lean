/-
  Frame lemmas for the concurrent queue model: `getT`/`setT`, `notifyOne`, induction over `Reach`,
  and the generic preservation lemmas of the C07 invariant `J` for a step of the shape
  "change some shared variables, then replace thread `t`".
-/
import EventppVerif.Conc.WaitDefs

namespace Evp.Conc

/-! ### getT / setT -/

theorem getT_lt {s : State} {t : Tid} {th : Thread} (h : getT s t = some th) : t < s.threads.length := by
  unfold getT at h
  rcases List.getElem?_eq_some_iff.mp h with ⟨hlt, _⟩
  exact hlt

theorem getT_setT_self {s : State} {t : Tid} (th : Thread) (h : t < s.threads.length) :
    getT (setT s t th) t = some th := by
  simp [getT, setT, List.getElem?_set_self h]

theorem getT_setT_ne {s : State} {t u : Tid} (th : Thread) (h : u ≠ t) :
    getT (setT s t th) u = getT s u := by
  simp [getT, setT, List.getElem?_set_ne (Ne.symm h)]

/-! ### reachability -/

/-- states reachable with either version of the destructor -/
def ReachFrom (s0 : State) (s : State) : Prop := ∃ sched, exec s0 sched = s

theorem reach_iff (progs : List (List Call)) (s : State) : Reach progs s ↔ ReachFrom (init progs true) s :=
  Iff.rfl

theorem exec_induction {P : State → Prop}
    (hstep : ∀ s t ch s', P s → step s t ch = some s' → P s') :
    ∀ (sched : List (Tid × Nat)) (s : State), P s → P (exec s sched) := by
  intro sched
  induction sched with
  | nil => intro s h; exact h
  | cons a r ih =>
    intro s h
    obtain ⟨t, ch⟩ := a
    simp only [exec]
    cases hs : step s t ch with
    | none => exact ih s h
    | some s' => exact ih s' (hstep s t ch s' h hs)

theorem reachFrom_induction {P : State → Prop} {s0 : State} (h0 : P s0)
    (hstep : ∀ s t ch s', P s → step s t ch = some s' → P s') :
    ∀ s, ReachFrom s0 s → P s := by
  rintro s ⟨sched, rfl⟩
  exact exec_induction hstep sched s0 h0

/-! ### notifyOne -/

theorem mem_parkedTids {s : State} {t : Tid} :
    t ∈ parkedTids s ↔ ∃ th, getT s t = some th ∧ isParked th = true := by
  unfold parkedTids
  rw [List.mem_filter, List.mem_range]
  constructor
  · rintro ⟨_, h⟩
    cases hg : s.threads[t]? with
    | none => simp [hg] at h
    | some th =>
      refine ⟨th, hg, ?_⟩
      simp only [hg] at h
      unfold isParked
      exact h
  · rintro ⟨th, hg, hp⟩
    refine ⟨getT_lt hg, ?_⟩
    unfold getT at hg
    simp only [hg]
    unfold isParked at hp
    exact hp

/-- `notify_one` either finds nobody parked and does nothing, or turns exactly one parked thread
    into a woken one -/
theorem notifyOne_casesW (s : State) (ch : Nat) :
    ((∀ t th, getT s t = some th → isParked th = false) ∧ notifyOne s ch = s) ∨
    (∃ w thw timed, getT s w = some thw ∧ thw.pc = .parked timed ∧
       notifyOne s ch = setT s w { thw with pc := .woken timed false }) := by
  cases hps : parkedTids s with
  | nil =>
    left
    refine ⟨?_, ?_⟩
    · intro t th hg
      cases hp : isParked th with
      | false => rfl
      | true =>
        have : t ∈ parkedTids s := mem_parkedTids.mpr ⟨th, hg, hp⟩
        rw [hps] at this
        cases this
    · simp [notifyOne, hps]
  | cons a r =>
    right
    have hlen : 0 < (parkedTids s).length := by rw [hps]; simp
    have hidx : ch % (max (parkedTids s).length 1) < (parkedTids s).length := by
      have : max (parkedTids s).length 1 = (parkedTids s).length := by omega
      rw [this]
      exact Nat.mod_lt _ hlen
    have hmem : (parkedTids s)[ch % (max (parkedTids s).length 1)] ∈ parkedTids s := List.getElem_mem hidx
    obtain ⟨thw, hg, hp⟩ := mem_parkedTids.mp hmem
    have hget : (parkedTids s)[ch % (max (parkedTids s).length 1)]? =
        some ((parkedTids s)[ch % (max (parkedTids s).length 1)]) := List.getElem?_eq_getElem hidx
    generalize (parkedTids s)[ch % (max (parkedTids s).length 1)] = w at hget hg
    cases hpc : thw.pc with
    | parked timed =>
      refine ⟨w, thw, timed, hg, hpc, ?_⟩
      simp only [notifyOne, hget, hg, hpc]
    | _ => simp [isParked, hpc] at hp

/-! ### generic preservation lemmas -/

theorem locOK_of_not_holds {q : List Nat} {nc : Nat} {qm : Option Tid} {u : Tid} {thu : Thread}
    (h : holdsQm thu.pc = false) : locOK q nc qm u thu := by
  refine ⟨?_, ?_, ?_⟩
  · intro h'; rw [h] at h'; cases h'
  · rintro ⟨a, b, hp⟩; rw [hp] at h; cases h
  · rintro ⟨a, hp⟩; rw [hp] at h; cases h

/-- thread `t` is replaced by `th'` and the shared variables change from `s` to `s1` -/
theorem J0_setT {s : State} (hJ : J0 s) {t : Tid} {th : Thread} (hg : getT s t = some th)
    (s1 : State) (th' : Thread)
    (hthr : s1.threads = s.threads) (hlk : s1.dqnLocked = s.dqnLocked)
    (hth : thOKW th' = true)
    (hloc : locOK s1.queue s1.nc s1.qm t th')
    (hoth : (s1.queue = s.queue ∧ s1.qm = s.qm ∧ (s.nc ≠ 0 → s1.nc ≠ 0)) ∨ s.qm = none ∨ s.qm = some t) :
    J0 (setT s1 t th') := by
  have hlt : t < s1.threads.length := by rw [hthr]; exact getT_lt hg
  have hget1 : ∀ u, getT s1 u = getT s u := by intro u; simp [getT, hthr]
  refine ⟨?_, ?_, ?_⟩
  · show s1.dqnLocked = true
    rw [hlk]; exact hJ.locked
  · intro u thu hu
    by_cases hut : u = t
    · subst hut
      rw [getT_setT_self _ hlt] at hu
      cases hu; exact hth
    · rw [getT_setT_ne _ hut, hget1] at hu
      exact hJ.th u thu hu
  · intro u thu hu
    show locOK s1.queue s1.nc s1.qm u thu
    by_cases hut : u = t
    · subst hut
      rw [getT_setT_self _ hlt] at hu
      cases hu; exact hloc
    · rw [getT_setT_ne _ hut, hget1] at hu
      have hl := hJ.loc u thu hu
      rcases hoth with ⟨hq, hm, hn⟩ | hm
      · rw [hq, hm]
        refine ⟨hl.1, hl.2.1, ?_⟩
        intro hp
        rcases hl.2.2 hp with h | h
        · exact Or.inl h
        · exact Or.inr (hn h)
      · apply locOK_of_not_holds
        cases hh : holdsQm thu.pc with
        | false => rfl
        | true =>
          have := hl.1 hh
          rcases hm with hm | hm
          · rw [hm] at this; cases this
          · rw [hm] at this; cases this; exact absurd rfl hut

theorem key_setT {s : State} (hk : Key s) {t : Tid} {th : Thread} (hg : getT s t = some th)
    (s1 : State) (th' : Thread) (hthr : s1.threads = s.threads)
    (hkey : holder th' = true ∨ ¬ cond s1 ∨
      ((cond s1 → cond s) ∧ (holder th = true → holder th' = true) ∧
       (isParked th' = true → isParked th = true))) :
    Key (setT s1 t th') := by
  have hlt : t < s1.threads.length := by rw [hthr]; exact getT_lt hg
  have hget1 : ∀ u, getT s1 u = getT s u := by intro u; simp [getT, hthr]
  intro hc hp
  have hc1 : cond s1 := hc
  rcases hkey with hh | hn | ⟨hcs, hhh, hpp⟩
  · exact ⟨t, th', getT_setT_self _ hlt, hh⟩
  · exact absurd hc1 hn
  · obtain ⟨u, thu, hu, hup⟩ := hp
    have hps : ∃ u thu, getT s u = some thu ∧ isParked thu = true := by
      by_cases hut : u = t
      · subst hut
        rw [getT_setT_self _ hlt] at hu
        cases hu
        exact ⟨u, th, hg, hpp hup⟩
      · rw [getT_setT_ne _ hut, hget1] at hu
        exact ⟨u, thu, hu, hup⟩
    obtain ⟨v, thv, hv, hvh⟩ := hk (hcs hc1) hps
    by_cases hvt : v = t
    · subst hvt
      rw [hg] at hv; cases hv
      exact ⟨v, th', getT_setT_self _ hlt, hhh hvh⟩
    · refine ⟨v, thv, ?_, hvh⟩
      rw [getT_setT_ne _ hvt, hget1]; exact hv

theorem J_setT {s : State} (hJ : J s) {t : Tid} {th : Thread} (hg : getT s t = some th)
    (s1 : State) (th' : Thread)
    (hthr : s1.threads = s.threads) (hlk : s1.dqnLocked = s.dqnLocked)
    (hth : thOKW th' = true)
    (hloc : locOK s1.queue s1.nc s1.qm t th')
    (hoth : (s1.queue = s.queue ∧ s1.qm = s.qm ∧ (s.nc ≠ 0 → s1.nc ≠ 0)) ∨ s.qm = none ∨ s.qm = some t)
    (hkey : holder th' = true ∨ ¬ cond s1 ∨
      ((cond s1 → cond s) ∧ (holder th = true → holder th' = true) ∧
       (isParked th' = true → isParked th = true))) :
    J (setT s1 t th') :=
  ⟨J0_setT hJ.base hg s1 th' hthr hlk hth hloc hoth, key_setT hJ.key hg s1 th' hthr hkey⟩

/-- a notifying step: `notify_one`, then thread `t` (which is not parked) finishes its call
    (`enqNotify`, `dqnNotify`) or goes on to a pc outside `wait` (`procPbNotify → procDec`) -/
theorem J_notify {s : State} (hJ : J s) {t : Tid} {th : Thread} (hg : getT s t = some th)
    (hnp : isParked th = false) (ch : Nat) (th' : Thread)
    (hth : thOKW th' = true) (hpc : holdsQm th'.pc = false) (hnp' : isParked th' = false) :
    J (setT (notifyOne s ch) t th') := by
  have hloc' : ∀ q n m, locOK q n m t th' := by
    intro q n m; exact locOK_of_not_holds hpc
  rcases notifyOne_casesW s ch with ⟨hnone, heq⟩ | ⟨w, thw, timed, hw, hwpc, heq⟩
  · rw [heq]
    refine ⟨J0_setT hJ.base hg s th' rfl rfl hth (hloc' _ _ _) (Or.inl ⟨rfl, rfl, id⟩), ?_⟩
    intro _ hp
    obtain ⟨u, thu, hu, hup⟩ := hp
    by_cases hut : u = t
    · subst hut
      rw [getT_setT_self _ (getT_lt hg)] at hu
      cases hu
      rw [hnp'] at hup; cases hup
    · rw [getT_setT_ne _ hut] at hu
      rw [hnone u thu hu] at hup; cases hup
  · rw [heq]
    have hwt : w ≠ t := by
      intro h; subst h
      rw [hg] at hw; cases hw
      simp [isParked, hwpc] at hnp
    have hthw := hJ.base.th w thw hw
    have hJ1 : J0 (setT s w { thw with pc := .woken timed false }) := by
      refine J0_setT hJ.base hw s _ rfl rfl ?_ (locOK_of_not_holds rfl) (Or.inl ⟨rfl, rfl, id⟩)
      simpa [thOKW, hwpc, isWaitPc] using hthw
    have hg1 : getT (setT s w { thw with pc := .woken timed false }) t = some th := by
      rw [getT_setT_ne _ (Ne.symm hwt)]; exact hg
    refine ⟨J0_setT hJ1 hg1 _ th' rfl rfl hth (hloc' _ _ _) (Or.inl ⟨rfl, rfl, id⟩), ?_⟩
    intro _ _
    refine ⟨w, { thw with pc := .woken timed false }, ?_, rfl⟩
    rw [getT_setT_ne _ hwt, getT_setT_self _ (getT_lt hw)]

end Evp.Conc
