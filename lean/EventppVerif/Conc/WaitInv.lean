/-
  The C07 invariant `J` (Conc/WaitDefs.lean) is inductive: it holds initially for well-formed
  programs and every micro-step of `Conc/Queue.lean` preserves it.  One lemma per program counter.
-/
import EventppVerif.Conc.WaitFrame

namespace Evp.Conc

/-! ### per-thread facts -/

theorem waitsFollowed_tail {p : List Call} (h : waitsFollowed p = true) : waitsFollowed p.tail = true := by
  cases p with
  | nil => exact h
  | cons c r => cases c <;> simp_all [waitsFollowed]

theorem after_wait {p : List Call} (h : waitsFollowed p = true) (hw : headIsWait p = true) :
    headIsProcess p.tail = true := by
  cases p with
  | nil => cases hw
  | cons c r => cases c <;> simp_all [waitsFollowed, headIsWait]

theorem thOK_finish {th th' : Thread} (h : thOKW th = true) (hpc : th'.pc = .idle)
    (hprog : th'.prog = th.prog.tail) : thOKW th' = true := by
  simp only [thOKW, Bool.and_eq_true] at h ⊢
  rw [hpc, hprog]
  exact ⟨waitsFollowed_tail h.1, rfl⟩

theorem thOK_goto {th th' : Thread} (h : thOKW th = true) (hprog : th'.prog = th.prog)
    (hw : isWaitPc th'.pc = true → headIsWait th.prog = true) :
    thOKW th' = true := by
  simp only [thOKW, Bool.and_eq_true] at h ⊢
  rw [hprog]
  refine ⟨h.1, ?_⟩
  cases hh : isWaitPc th'.pc with
  | false => rfl
  | true => simp [hw hh]

theorem thOK_wait {th : Thread} (h : thOKW th = true) (hw : isWaitPc th.pc = true) :
    headIsWait th.prog = true := by
  simp only [thOKW, Bool.and_eq_true] at h
  have := h.2
  rw [hw] at this
  simpa using this

theorem locOK_intro {q : List Nat} {nc : Nat} {qm : Option Tid} {t : Tid} {th : Thread}
    (h1 : qm = some t) (h2 : ∀ a b, th.pc = .waitRead2 a b → q = [])
    (h3 : ∀ a, th.pc = .waitPark a → q = [] ∨ nc ≠ 0) : locOK q nc qm t th :=
  ⟨fun _ => h1, fun ⟨a, b, h⟩ => h2 a b h, fun ⟨a, h⟩ => h3 a h⟩

theorem holder_idle {th : Thread} (hpc : th.pc = .idle) : holder th = headIsProcess th.prog := by
  unfold holder; rw [hpc]

/-! ### the initial state -/

theorem getT_init {progs : List (List Call)} {b : Bool} {t : Tid} {th : Thread}
    (h : getT (init progs b) t = some th) : ∃ p ∈ progs, th = { prog := p } := by
  unfold getT init at h
  simp only [List.getElem?_map] at h
  cases hp : progs[t]? with
  | none => simp [hp] at h
  | some p =>
    simp [hp] at h
    exact ⟨p, List.mem_of_getElem? hp, h.symm⟩

theorem J_init {progs : List (List Call)} (hwf : WF progs) : J (init progs true) := by
  refine ⟨⟨rfl, ?_, ?_⟩, ?_⟩
  · intro t th hg
    obtain ⟨p, hp, rfl⟩ := getT_init hg
    obtain ⟨h1, _⟩ := hwf p hp
    simp [thOKW, h1, isWaitPc]
  · intro t th hg
    obtain ⟨p, hp, rfl⟩ := getT_init hg
    exact locOK_of_not_holds rfl
  · intro _ hp
    obtain ⟨t, th, hg, hpk⟩ := hp
    obtain ⟨p, hp, rfl⟩ := getT_init hg
    cases hpk

/-! ### preservation, one lemma per program counter

  Every non-notifying step has the shape `setT s1 t th'` with `s1` = `s` with some shared variables
  changed; `J_setT` reduces preservation to four side conditions:
  `th'` is well formed; `th'` satisfies `locOK`; the other threads' `locOK` survives (nothing they
  depend on changed, or nobody else holds the mutex); and for `Key` one of
  (kh) `th'` is an obligation holder, (kn) the condition is false in the new state,
  (kf) frame: the condition did not become true, `t` was no holder (or stays one), `t` did not park. -/

section
set_option hygiene false

local macro "jset" : tactic => `(tactic| refine J_setT hJ hg _ _ rfl rfl ?_ ?_ ?_ ?_)
local macro "thgoto" : tactic =>
  `(tactic| exact thOK_goto hth rfl (by first | (intro hh; cases hh; done) | (intro _; exact thOK_wait hth (by rw [hpc]; rfl))))
local macro "thfin" : tactic => `(tactic| exact thOK_finish hth rfl rfl)
local macro "noloc" : tactic => `(tactic| exact locOK_of_not_holds rfl)
local macro "same" : tactic => `(tactic| exact Or.inl ⟨rfl, rfl, id⟩)
local macro "kh" : tactic => `(tactic| exact Or.inl rfl)
local macro "kn" : tactic => `(tactic| (right; left; simp_all [cond]))
local macro "kf" : tactic =>
  `(tactic| (right; right; refine ⟨id, ?_, ?_⟩ <;> simp_all [holder, holderPc, isParked, headIsProcess]))
local macro "start" : tactic =>
  `(tactic| (have hth := hJ.base.th t th hg; have hloc := hJ.base.loc t th hg; have hlk := hJ.base.locked;
             simp [step, hg, hpc] at h))

variable {s s' : State} {t : Tid} {ch : Nat} {th : Thread}

theorem pres_idle (hJ : J s) (hg : getT s t = some th) (hpc : th.pc = .idle)
    (h : step s t ch = some s') : J s' := by
  have hth := hJ.base.th t th hg
  cases hprog : th.prog with
  | nil => simp [step, hg, hpc, hprog] at h
  | cons c r =>
    cases c with
    | process =>
      simp [step, hg, hpc, hprog] at h; cases h
      jset
      · thgoto
      · noloc
      · same
      · kh
    | dqnEnd =>
      simp [step, hg, hpc, hprog] at h
      split at h <;> cases h
      · jset
        · thfin
        · noloc
        · same
        · right; right; refine ⟨id, ?_, ?_⟩ <;> simp [holder, hpc, hprog, headIsProcess, isParked]
      · jset
        · thgoto
        · noloc
        · same
        · right; right; refine ⟨id, ?_, ?_⟩ <;> simp [holder, hpc, hprog, headIsProcess, isParked]
    | wait =>
      simp [step, hg, hpc, hprog] at h; cases h
      jset
      · exact thOK_goto hth rfl (by intro _; rw [hprog]; rfl)
      · noloc
      · same
      · right; right; refine ⟨id, ?_, ?_⟩ <;> simp [holder, hpc, hprog, headIsProcess, isParked]
    | waitFor =>
      simp [step, hg, hpc, hprog] at h; cases h
      jset
      · exact thOK_goto hth rfl (by intro _; rw [hprog]; rfl)
      · noloc
      · same
      · right; right; refine ⟨id, ?_, ?_⟩ <;> simp [holder, hpc, hprog, headIsProcess, isParked]
    | _ =>
      simp [step, hg, hpc, hprog] at h; cases h
      jset
      · thgoto
      · noloc
      · same
      · right; right; refine ⟨id, ?_, ?_⟩ <;> simp [holder, hpc, hprog, headIsProcess, isParked]

theorem pres_enqSplice (hJ : J s) (hg : getT s t = some th) (hpc : th.pc = .enqSplice)
    (h : step s t ch = some s') : J s' := by
  start
  obtain ⟨hq, rfl⟩ := h
  jset
  · thgoto
  · noloc
  · exact Or.inr (Or.inl hq)
  · kh

theorem pres_enqReadEmpty (hJ : J s) (hg : getT s t = some th) (hpc : th.pc = .enqReadEmpty)
    (h : step s t ch = some s') : J s' := by
  start
  split at h <;> cases h
  · jset
    · thgoto
    · noloc
    · same
    · kn
  · jset
    · thgoto
    · noloc
    · same
    · kh

theorem pres_enqReadEc (hJ : J s) (hg : getT s t = some th) (hpc : th.pc = .enqReadEc)
    (h : step s t ch = some s') : J s' := by
  start
  split at h <;> cases h
  · jset
    · thfin
    · noloc
    · same
    · kf
  · jset
    · thgoto
    · noloc
    · same
    · kh

theorem pres_enqReadNc (hJ : J s) (hg : getT s t = some th) (hpc : th.pc = .enqReadNc)
    (h : step s t ch = some s') : J s' := by
  start
  split at h <;> cases h
  · jset
    · thgoto
    · noloc
    · same
    · kh
  · jset
    · thfin
    · noloc
    · same
    · kn

theorem pres_enqNotify (hJ : J s) (hg : getT s t = some th) (hpc : th.pc = .enqNotify)
    (h : step s t ch = some s') : J s' := by
  start
  cases h
  exact J_notify hJ hg (by simp [isParked, hpc]) ch _ (thOK_finish hth rfl rfl) rfl rfl

/-! processing calls -/

theorem pres_procPre {m : Nat} (hJ : J s) (hg : getT s t = some th) (hpc : th.pc = .procPre m)
    (h : step s t ch = some s') : J s' := by
  start
  split at h <;> cases h
  · jset
    · thfin
    · noloc
    · same
    · kn
  · jset
    · thgoto
    · noloc
    · same
    · kf

theorem pres_procInc {m : Nat} (hJ : J s) (hg : getT s t = some th) (hpc : th.pc = .procInc m)
    (h : step s t ch = some s') : J s' := by
  start
  cases h
  jset
  · thgoto
  · noloc
  · same
  · kf

theorem pres_procTake {m : Nat} (hJ : J s) (hg : getT s t = some th) (hpc : th.pc = .procTake m)
    (h : step s t ch = some s') : J s' := by
  start
  obtain ⟨hq, h⟩ := h
  split at h
  · -- processOne
    rename_i hm1
    split at h <;> cases h
    · jset
      · thgoto
      · noloc
      · same
      · kf
    · rename_i e r hqe
      jset
      · thgoto
      · noloc
      · exact Or.inr (Or.inl hq)
      · right; right
        refine ⟨?_, ?_, ?_⟩
        · intro hc; exact ⟨by rw [hqe]; exact List.cons_ne_nil _ _, hc.2⟩
        · simp [holder, holderPc, hpc, hm1]
        · simp [isParked]
  · split at h <;> cases h
    · jset
      · thgoto
      · noloc
      · same
      · kn
    · jset
      · thgoto
      · noloc
      · exact Or.inr (Or.inl hq)
      · kn

theorem pres_procLoop {m : Nat} {todo kept : List Nat} {any : Bool} (hJ : J s)
    (hg : getT s t = some th) (hpc : th.pc = .procLoop m todo kept any)
    (h : step s t ch = some s') : J s' := by
  have hth := hJ.base.th t th hg
  cases todo with
  | nil =>
    simp only [step, hg, hpc] at h
    split at h <;> cases h
    · jset
      · thgoto
      · noloc
      · same
      · kf
    · jset
      · thgoto
      · noloc
      · same
      · kf
  | cons e r =>
    simp only [step, hg, hpc] at h
    split at h
    · -- `processUntil`: the predicate says stop; nothing shared changes (the rest is still local)
      cases h
      jset
      · thgoto
      · noloc
      · same
      · kf
    · split at h <;> cases h
      · jset
        · thgoto
        · noloc
        · same
        · kf
      · jset
        · thgoto
        · noloc
        · same
        · kf

/-- the put-back of `processIf` / `processUntil`: under the mutex (so no waiter is between its predicate evaluation
    and its parking); the list becomes non-empty and the thread becomes the obligation holder -/
theorem pres_procPutBack {kept : List Nat} {any : Bool} (hJ : J s)
    (hg : getT s t = some th) (hpc : th.pc = .procPutBack kept any)
    (h : step s t ch = some s') : J s' := by
  start
  obtain ⟨hq, rfl⟩ := h
  jset
  · thgoto
  · noloc
  · exact Or.inr (Or.inl hq)
  · kh

/-- `if(doCanNotifyQueueAvailable())` after the put-back: the obligation is passed on to
    `procPbNotify`, or dropped because `nc ≠ 0` (the condition is false now; whoever decrements `nc`
    to 0 becomes a holder at `dqnDec`) -/
theorem pres_procPbReadNc {any : Bool} (hJ : J s) (hg : getT s t = some th)
    (hpc : th.pc = .procPbReadNc any) (h : step s t ch = some s') : J s' := by
  start
  split at h <;> cases h
  · jset
    · thgoto
    · noloc
    · same
    · kh
  · jset
    · thgoto
    · noloc
    · same
    · kn

theorem pres_procPbNotify {any : Bool} (hJ : J s) (hg : getT s t = some th)
    (hpc : th.pc = .procPbNotify any) (h : step s t ch = some s') : J s' := by
  start
  cases h
  exact J_notify hJ hg (by simp [isParked, hpc]) ch _ (thOK_goto hth rfl (by intro hh; cases hh)) rfl rfl

theorem pres_procDec {res : Bool} (hJ : J s) (hg : getT s t = some th) (hpc : th.pc = .procDec res)
    (h : step s t ch = some s') : J s' := by
  start
  cases h
  jset
  · thfin
  · noloc
  · same
  · kf

/-! takeEvent / peekEvent / clearEvents / emptyQueue -/

theorem pres_takePre (hJ : J s) (hg : getT s t = some th) (hpc : th.pc = .takePre)
    (h : step s t ch = some s') : J s' := by
  start
  split at h <;> cases h
  · jset
    · thfin
    · noloc
    · same
    · kf
  · jset
    · thgoto
    · noloc
    · same
    · kf

theorem pres_takeLocked (hJ : J s) (hg : getT s t = some th) (hpc : th.pc = .takeLocked)
    (h : step s t ch = some s') : J s' := by
  start
  obtain ⟨hq, h⟩ := h
  split at h <;> cases h
  · jset
    · thfin
    · noloc
    · same
    · kf
  · rename_i e r hqe
    jset
    · thfin
    · noloc
    · exact Or.inr (Or.inl hq)
    · right; right
      refine ⟨?_, ?_, ?_⟩
      · intro hc; exact ⟨by rw [hqe]; exact List.cons_ne_nil _ _, hc.2⟩
      · simp [holder, holderPc, hpc]
      · simp [isParked]

theorem pres_peekPre (hJ : J s) (hg : getT s t = some th) (hpc : th.pc = .peekPre)
    (h : step s t ch = some s') : J s' := by
  start
  split at h <;> cases h
  · jset
    · thfin
    · noloc
    · same
    · kf
  · jset
    · thgoto
    · noloc
    · same
    · kf

theorem pres_peekLocked (hJ : J s) (hg : getT s t = some th) (hpc : th.pc = .peekLocked)
    (h : step s t ch = some s') : J s' := by
  start
  obtain ⟨hq, h⟩ := h
  cases h
  jset
  · thfin
  · noloc
  · same
  · kf

theorem pres_clearPre (hJ : J s) (hg : getT s t = some th) (hpc : th.pc = .clearPre)
    (h : step s t ch = some s') : J s' := by
  start
  split at h <;> cases h
  · jset
    · thfin
    · noloc
    · same
    · kf
  · jset
    · thgoto
    · noloc
    · same
    · kf

theorem pres_clearLocked (hJ : J s) (hg : getT s t = some th) (hpc : th.pc = .clearLocked)
    (h : step s t ch = some s') : J s' := by
  start
  obtain ⟨hq, h⟩ := h
  cases h
  jset
  · thfin
  · noloc
  · exact Or.inr (Or.inl hq)
  · kn

theorem pres_emptyRead1 {seen : Nat} (hJ : J s) (hg : getT s t = some th) (hpc : th.pc = .emptyRead1 seen)
    (h : step s t ch = some s') : J s' := by
  start
  split at h <;> cases h
  · jset
    · thgoto
    · noloc
    · same
    · kf
  · jset
    · thfin
    · noloc
    · same
    · kf

theorem pres_emptyRead2 {seen : Nat} (hJ : J s) (hg : getT s t = some th) (hpc : th.pc = .emptyRead2 seen)
    (h : step s t ch = some s') : J s' := by
  start
  cases h
  jset
  · thfin
  · noloc
  · same
  · kf

/-! wait / waitFor -/

theorem pres_waitLock {timed : Bool} (hJ : J s) (hg : getT s t = some th) (hpc : th.pc = .waitLock timed)
    (h : step s t ch = some s') : J s' := by
  start
  obtain ⟨hq, h⟩ := h
  cases h
  jset
  · thgoto
  · exact locOK_intro rfl (by intro a b hh; cases hh) (by intro a hh; cases hh)
  · exact Or.inr (Or.inl hq)
  · kh

theorem pres_woken {timed ato : Bool} (hJ : J s) (hg : getT s t = some th) (hpc : th.pc = .woken timed ato)
    (h : step s t ch = some s') : J s' := by
  start
  obtain ⟨hq, h⟩ := h
  cases h
  jset
  · thgoto
  · exact locOK_intro rfl (by intro a b hh; cases hh) (by intro a hh; cases hh)
  · exact Or.inr (Or.inl hq)
  · kh

theorem pres_parked {timed : Bool} (hJ : J s) (hg : getT s t = some th) (hpc : th.pc = .parked timed)
    (h : step s t ch = some s') : J s' := by
  have hth := hJ.base.th t th hg
  simp only [step, hg, hpc] at h
  split at h
  · cases h
    jset
    · thgoto
    · noloc
    · same
    · kh
  · split at h
    · cases h
      jset
      · thgoto
      · noloc
      · same
      · kh
    · cases h

theorem pres_waitRead1 {timed ato : Bool} (hJ : J s) (hg : getT s t = some th)
    (hpc : th.pc = .waitRead1 timed ato) (h : step s t ch = some s') : J s' := by
  have hqm : s.qm = some t := (hJ.base.loc t th hg).1 (by rw [hpc]; rfl)
  start
  split at h <;> cases h
  · rename_i hq
    jset
    · thgoto
    · exact locOK_intro hqm (fun _ _ _ => hq) (by intro a hh; cases hh)
    · same
    · kn
  · jset
    · thgoto
    · exact locOK_intro hqm (by intro a b hh; cases hh) (by intro a hh; cases hh)
    · same
    · kh

theorem pres_waitRead2 {timed ato : Bool} (hJ : J s) (hg : getT s t = some th)
    (hpc : th.pc = .waitRead2 timed ato) (h : step s t ch = some s') : J s' := by
  have hqm : s.qm = some t := (hJ.base.loc t th hg).1 (by rw [hpc]; rfl)
  have hq0 : s.queue = [] := (hJ.base.loc t th hg).2.1 ⟨_, _, hpc⟩
  have hth := hJ.base.th t th hg
  simp only [step, hg, hpc] at h
  split at h
  · cases h
    jset
    · thgoto
    · exact locOK_intro hqm (by intro a b hh; cases hh) (by intro a hh; cases hh)
    · same
    · kh
  · split at h <;> cases h
    · jset
      · thfin
      · noloc
      · exact Or.inr (Or.inr hqm)
      · right; left; simp [cond, hq0]
    · jset
      · thgoto
      · exact locOK_intro hqm (by intro a b hh; cases hh) (fun _ _ => Or.inl hq0)
      · same
      · right; left; simp [cond, hq0]

theorem pres_waitRead3 {timed ato ne : Bool} (hJ : J s) (hg : getT s t = some th)
    (hpc : th.pc = .waitRead3 timed ato ne) (h : step s t ch = some s') : J s' := by
  have hqm : s.qm = some t := (hJ.base.loc t th hg).1 (by rw [hpc]; rfl)
  have hth := hJ.base.th t th hg
  have hw : headIsWait th.prog = true := thOK_wait hth (by rw [hpc]; rfl)
  have hwf : waitsFollowed th.prog = true := by
    simp only [thOKW, Bool.and_eq_true] at hth; exact hth.1
  simp only [step, hg, hpc] at h
  split at h
  · cases h
    jset
    · thfin
    · noloc
    · exact Or.inr (Or.inr hqm)
    · left
      rw [holder_idle rfl]
      exact after_wait hwf hw
  · rename_i hnc
    have hnc' : s.nc ≠ 0 := by simpa using hnc
    split at h <;> cases h
    · jset
      · thfin
      · noloc
      · exact Or.inr (Or.inr hqm)
      · right; left; intro hc; exact hnc' hc.2
    · jset
      · thgoto
      · exact locOK_intro hqm (by intro a b hh; cases hh) (fun _ _ => Or.inr hnc')
      · same
      · right; left; intro hc; exact hnc' hc.2

theorem pres_waitPark {timed : Bool} (hJ : J s) (hg : getT s t = some th)
    (hpc : th.pc = .waitPark timed) (h : step s t ch = some s') : J s' := by
  have hqm : s.qm = some t := (hJ.base.loc t th hg).1 (by rw [hpc]; rfl)
  have hc : s.queue = [] ∨ s.nc ≠ 0 := (hJ.base.loc t th hg).2.2 ⟨_, hpc⟩
  have hth := hJ.base.th t th hg
  simp only [step, hg, hpc] at h
  cases h
  jset
  · thgoto
  · noloc
  · exact Or.inr (Or.inr hqm)
  · right; left
    intro hcc
    rcases hc with hc | hc
    · exact hcc.1 hc
    · exact hc hcc.2

/-! DisableQueueNotify -/

theorem pres_dqnInc (hJ : J s) (hg : getT s t = some th) (hpc : th.pc = .dqnInc)
    (h : step s t ch = some s') : J s' := by
  start
  cases h
  jset
  · thfin
  · noloc
  · exact Or.inl ⟨rfl, rfl, fun _ => Nat.succ_ne_zero _⟩
  · right; left; intro hc; exact Nat.succ_ne_zero _ hc.2

theorem pres_dqnDec (hJ : J s) (hg : getT s t = some th) (hpc : th.pc = .dqnDec)
    (h : step s t ch = some s') : J s' := by
  start
  obtain ⟨hq, h⟩ := h
  cases h
  jset
  · thgoto
  · noloc
  · exact Or.inr (Or.inl (hq hlk))
  · kh

theorem pres_dqnReadNc (hJ : J s) (hg : getT s t = some th) (hpc : th.pc = .dqnReadNc)
    (h : step s t ch = some s') : J s' := by
  start
  split at h <;> cases h
  · jset
    · thgoto
    · noloc
    · same
    · kh
  · jset
    · thfin
    · noloc
    · same
    · kn

theorem pres_dqnReadEmpty (hJ : J s) (hg : getT s t = some th) (hpc : th.pc = .dqnReadEmpty)
    (h : step s t ch = some s') : J s' := by
  start
  split at h <;> cases h
  · jset
    · thgoto
    · noloc
    · same
    · kn
  · jset
    · thgoto
    · noloc
    · same
    · kh

theorem pres_dqnReadEc (hJ : J s) (hg : getT s t = some th) (hpc : th.pc = .dqnReadEc)
    (h : step s t ch = some s') : J s' := by
  start
  split at h <;> cases h
  · jset
    · thfin
    · noloc
    · same
    · kf
  · jset
    · thgoto
    · noloc
    · same
    · kh

theorem pres_dqnNotify (hJ : J s) (hg : getT s t = some th) (hpc : th.pc = .dqnNotify)
    (h : step s t ch = some s') : J s' := by
  start
  cases h
  exact J_notify hJ hg (by simp [isParked, hpc]) ch _ (thOK_finish hth rfl rfl) rfl rfl

/-- every micro-step preserves the invariant -/
theorem J_step (hJ : J s) (h : step s t ch = some s') : J s' := by
  cases hg : getT s t with
  | none => simp [step, hg] at h
  | some th =>
    cases hpc : th.pc with
    | idle => exact pres_idle hJ hg hpc h
    | enqSplice => exact pres_enqSplice hJ hg hpc h
    | enqReadEmpty => exact pres_enqReadEmpty hJ hg hpc h
    | enqReadEc => exact pres_enqReadEc hJ hg hpc h
    | enqReadNc => exact pres_enqReadNc hJ hg hpc h
    | enqNotify => exact pres_enqNotify hJ hg hpc h
    | procPre m => exact pres_procPre hJ hg hpc h
    | procInc m => exact pres_procInc hJ hg hpc h
    | procTake m => exact pres_procTake hJ hg hpc h
    | procLoop m todo kept any => exact pres_procLoop hJ hg hpc h
    | procPutBack kept any => exact pres_procPutBack hJ hg hpc h
    | procPbReadNc any => exact pres_procPbReadNc hJ hg hpc h
    | procPbNotify any => exact pres_procPbNotify hJ hg hpc h
    | procDec res => exact pres_procDec hJ hg hpc h
    | takePre => exact pres_takePre hJ hg hpc h
    | takeLocked => exact pres_takeLocked hJ hg hpc h
    | peekPre => exact pres_peekPre hJ hg hpc h
    | peekLocked => exact pres_peekLocked hJ hg hpc h
    | clearPre => exact pres_clearPre hJ hg hpc h
    | clearLocked => exact pres_clearLocked hJ hg hpc h
    | emptyRead1 seen => exact pres_emptyRead1 hJ hg hpc h
    | emptyRead2 seen => exact pres_emptyRead2 hJ hg hpc h
    | waitLock timed => exact pres_waitLock hJ hg hpc h
    | waitRead1 timed ato => exact pres_waitRead1 hJ hg hpc h
    | waitRead2 timed ato => exact pres_waitRead2 hJ hg hpc h
    | waitRead3 timed ato ne => exact pres_waitRead3 hJ hg hpc h
    | waitPark timed => exact pres_waitPark hJ hg hpc h
    | parked timed => exact pres_parked hJ hg hpc h
    | woken timed ato => exact pres_woken hJ hg hpc h
    | dqnInc => exact pres_dqnInc hJ hg hpc h
    | dqnDec => exact pres_dqnDec hJ hg hpc h
    | dqnReadNc => exact pres_dqnReadNc hJ hg hpc h
    | dqnReadEmpty => exact pres_dqnReadEmpty hJ hg hpc h
    | dqnReadEc => exact pres_dqnReadEc hJ hg hpc h
    | dqnNotify => exact pres_dqnNotify hJ hg hpc h

end

/-- `J` holds in every reachable state of well-formed programs (repaired destructor) -/
theorem J_reach {progs : List (List Call)} (hwf : WF progs) {s : State} (hr : Reach progs s) : J s :=
  reachFrom_induction (J_init hwf) (fun _ _ _ _ hJ h => J_step hJ h) s hr

end Evp.Conc
