import EventppVerif.CL.PropAux
import EventppVerif.Properties.C02
/-
  Property C01 — CallbackList invokes exactly the current callbacks, once each, in list order.

  "For every sequence of append, prepend, insert and remove calls on a callback list, an
  invocation calls exactly the callbacks that were added and not yet removed, each exactly once,
  in list order (append at the back, prepend at the front, insert immediately before the
  referenced callback, or at the back when that callback is no longer in the list), and passes
  every callback the invocation's arguments.  remove returns true exactly when it took a callback
  out of the list, and empty, forEach, forEachIf, ownsHandle always describe that same content."

  Model: the pointer-level machine `MCfg` (CL/Model.lean, CL/Machine.lean).
  Spec: the list machine `SCfg`; a callback list is a `List Entry` (`SList`, CL/Spec.lean) whose
  order is the invocation order.

  The statement is split in three layers:
  * `C01_refines`, `C01_results`, `C01_model_queries`: the Model does what the Spec does (same
    calls, same results of every operation, same content), for every program;
  * `C01_spec_invoke` / `C01_spec_enum` / `C01_spec_enum_stop` and their Model versions
    `C01_model_invoke` / `C01_model_enum` / `C01_model_enum_stop`: what one invocation
    (`operator()`, `forEach`) or verdict-honouring enumeration (`forEachIf`) does: it calls the
    entries of the list, each once, in list order, with the invocation's argument;
  * the operation laws `C01_append` … `C01_remove_absent`: what the list is after each operation.
-/
namespace Evp

/-! ### the Model does what the Spec does -/

/-- The behaviour table in which no callback does anything. -/
def flatBeh : Beh := fun _ _ => .ret true

/-- **C01 (refinement).** Callbacks that do nothing: for every program `p` (any sequence of
    append / prepend / insert / remove / invoke / forEachIf / ownsHandle / empty / copy / move /
    swap, each chosen depending on every earlier result), every pair of related start states (in
    particular the empty worlds, `C02_init`) and every number `n` of steps during which no
    generation counter wraps (the wrap is C19), the pointer Model and the list Spec produce the same
    trace (every callback call with list, handle, callback, argument; every operation result), the
    same halted / not halted outcome, related final states, and the Model's `head`/`next` chain of
    every list is the Spec's list. -/
theorem C01_refines (n : Nat) (m : MCfg) (s : SCfg) (h : Sim m s)
    (nowrap : (MCfg.runN flatBeh n m).1.wraps = m.wraps) :
    Sim (MCfg.runN flatBeh n m).1 (SCfg.runN flatBeh n s).1 ∧
    (MCfg.runN flatBeh n m).1.trace = (SCfg.runN flatBeh n s).1.trace ∧
    (MCfg.runN flatBeh n m).2 = (SCfg.runN flatBeh n s).2 ∧
    ∀ l, chainOf ((MCfg.runN flatBeh n m).1.lists l).heap ((MCfg.runN flatBeh n m).1.nextId + 1)
        ((MCfg.runN flatBeh n m).1.lists l).head = ((SCfg.runN flatBeh n s).1.lists l).ids := by
  have := C02_simulation flatBeh n m s h nowrap
  exact ⟨this.1, this.2.1, this.2.2, fun l => (C02_content this.1 l).1⟩

/-- **C01 (results).** In related states every operation other than an invocation returns the
    same result in the Model and in the Spec: the handle of `append`/`prepend`/`insert`, the
    `bool` of `remove`, `ownsHandle`, `empty`.  (`ms`/`ss` are the stacks under the running
    program; they only matter for the "list is being traversed" test of copy/move/swap.) -/
theorem C01_results {m : MCfg} {s : SCfg} {ms ss} (h : SimOn m s ms ss) (cmd : Cmd) :
    (m.apply (busyOn MFrame.isIterOn ms) cmd).2 = (s.apply (busyOn SFrame.isIterOn ss) cmd).2 :=
  (sim_apply h cmd).1

/-- **C01 (queries).** In related states `ownsHandle` and `empty` of the pointer Model (the
    `while(node->previous)` walk compared with `head`; `head == nullptr`) answer exactly "is the
    handle in the list" / "is the list empty" of the Spec, for every list `l` and handle `h`
    (issued, removed or never issued). -/
theorem C01_model_queries {m : MCfg} {s : SCfg} (h : Sim m s) (l : Nat) (hd : Hd) :
    (m.lists l).owns (m.nextId + 1) hd = (s.lists l).present hd ∧
    (m.lists l).isEmpty = (s.lists l).isEmpty :=
  ⟨rep_owns (h.rep l) hd, rep_isEmpty (h.rep l)⟩

/-! ### one invocation, Spec machine -/

/-- **C01 (invoke, Spec).** From any Spec configuration `c` whose running program is about to
    `invoke l arg` (continuation `k`, anything `rest` below), if every callback of list `l`
    returns immediately when called with `arg` (any verdict — `operator()` ignores it): after
    exactly `length + 1` steps the program continues with `k .unit`, nothing but the trace and the
    stack changed, and the trace grew by exactly one call per entry of the list — list `l`, the
    entry's handle, its callback, the argument `arg` — in list order (the trace is newest first,
    hence the `reverse`), followed by the result `unit`. -/
theorem C01_spec_invoke (beh : Beh) (c : SCfg) (l arg : Nat) (k : Res → Prog) (rest : List SFrame)
    (hst : c.stack = .prog (.op (.invoke l arg) k) :: rest)
    (hb : ∀ e ∈ c.lists l, ∀ n, ∃ v, beh ⟨l, e.id, e.cb, arg, false⟩ n = .ret v) :
    SCfg.runN beh ((c.lists l).length + 1) c =
      ({ c with stack := .prog (k .unit) :: rest,
                trace := .res .unit :: ((callsOf l arg false (c.lists l)).reverse ++ c.trace) }, false) :=
  spec_invoke_all beh c l arg k rest hst hb

/-- **C01 (forEachIf completes, Spec).** Same for the verdict-honouring enumeration when every
    callback of the list returns `true`: every entry is visited once in list order and the result
    is `true`. -/
theorem C01_spec_enum (beh : Beh) (c : SCfg) (l arg : Nat) (k : Res → Prog) (rest : List SFrame)
    (hst : c.stack = .prog (.op (.enum l arg) k) :: rest)
    (hb : ∀ e ∈ c.lists l, ∀ n, beh ⟨l, e.id, e.cb, arg, true⟩ n = .ret true) :
    SCfg.runN beh ((c.lists l).length + 1) c =
      ({ c with stack := .prog (k (.bool true)) :: rest,
                trace := .res (.bool true) :: ((callsOf l arg true (c.lists l)).reverse ++ c.trace) }, false) :=
  spec_enum_all beh c l arg k rest hst hb

/-- **C01 (forEachIf stops, Spec).** If the list is `P ++ e :: Q`, the entries of `P` answer `true`
    and `e` answers `false`: exactly the entries of `P` and then `e` are visited (each once, in
    order), nothing of `Q` is, and the result is `false`. -/
theorem C01_spec_enum_stop (beh : Beh) (c : SCfg) (l arg : Nat) (k : Res → Prog) (rest : List SFrame)
    (P : List Entry) (e : Entry) (Q : List Entry)
    (hst : c.stack = .prog (.op (.enum l arg) k) :: rest)
    (hl : c.lists l = P ++ e :: Q)
    (hb : ∀ x ∈ P, ∀ n, beh ⟨l, x.id, x.cb, arg, true⟩ n = .ret true)
    (he : ∀ n, beh ⟨l, e.id, e.cb, arg, true⟩ n = .ret false) :
    SCfg.runN beh (P.length + 2) c =
      ({ c with stack := .prog (k (.bool false)) :: rest,
                trace := .res (.bool false) :: ((callsOf l arg true (P ++ [e])).reverse ++ c.trace) }, false) :=
  spec_enum_stop beh c l arg k rest P e Q hst hl hb he

/-- **C01 (exactly once).** In the calls of one invocation of a list without duplicate handles
    (every list of a state related to a Model state: `(h.rep l).wf.nodup`), handle `h` is called
    once if it is in the list and not at all otherwise. -/
theorem C01_once (l arg : Nat) (ho : Bool) (L : SList) (hnd : L.ids.Nodup) (h : Hd) :
    callsOfHandle (callsOf l arg ho L) l h = if L.present h then 1 else 0 :=
  callsOfHandle_callsOf l arg ho h L hnd

/-- every list of a Spec state that is related to a Model state has pairwise distinct handles -/
theorem C01_nodup {m : MCfg} {s : SCfg} (h : Sim m s) (l : Nat) : (s.lists l).ids.Nodup :=
  (h.rep l).wf.nodup

/-! ### one invocation, Model machine -/

/-- **C01 (invoke, Model).** The pointer Model, from any state `m` related to a Spec state `s`
    (every reachable state, C02), about to `invoke l arg`, callbacks returning at once: after
    `length + 1` steps its trace grew by exactly the calls of the entries of `s.lists l` — which is
    the Model's own `head`/`next` chain with the stored callbacks (`C02_content`) — each once, in
    list order, with argument `arg`, then the result; no list object changed, no counter wrapped,
    and the Model is again related to the Spec state that `C01_spec_invoke` describes. -/
theorem C01_model_invoke (beh : Beh) {m : MCfg} {s : SCfg} (h : Sim m s) (l arg : Nat)
    (k : Res → Prog) (mrest : List MFrame)
    (hst : m.stack = .prog (.op (.invoke l arg) k) :: mrest)
    (hb : ∀ e ∈ s.lists l, ∀ n, ∃ v, beh ⟨l, e.id, e.cb, arg, false⟩ n = .ret v) :
    (MCfg.runN beh ((s.lists l).length + 1) m).1.trace =
      .res .unit :: ((callsOf l arg false (s.lists l)).reverse ++ m.trace) ∧
    (MCfg.runN beh ((s.lists l).length + 1) m).1.lists = m.lists ∧
    (MCfg.runN beh ((s.lists l).length + 1) m).1.wraps = m.wraps ∧
    ∃ srest, s.stack = .prog (.op (.invoke l arg) k) :: srest ∧
      Sim (MCfg.runN beh ((s.lists l).length + 1) m).1
        { s with stack := .prog (k .unit) :: srest,
                 trace := .res .unit :: ((callsOf l arg false (s.lists l)).reverse ++ s.trace) } := by
  obtain ⟨srest, hs, hw, hl, _, hsim⟩ := model_traverse_prefix beh h l arg false k mrest hst
    (s.lists l) [] (by simp)
    (fun e he n => by obtain ⟨v, hv⟩ := hb e he n; exact ⟨v, hv, fun h => by cases h⟩)
  rw [SCfg.called_done] at hsim
  exact ⟨by rw [hsim.trace, h.trace]; rfl, hl, hw, srest, hs, hsim⟩

/-- **C01 (forEachIf completes, Model).** -/
theorem C01_model_enum (beh : Beh) {m : MCfg} {s : SCfg} (h : Sim m s) (l arg : Nat)
    (k : Res → Prog) (mrest : List MFrame)
    (hst : m.stack = .prog (.op (.enum l arg) k) :: mrest)
    (hb : ∀ e ∈ s.lists l, ∀ n, beh ⟨l, e.id, e.cb, arg, true⟩ n = .ret true) :
    (MCfg.runN beh ((s.lists l).length + 1) m).1.trace =
      .res (.bool true) :: ((callsOf l arg true (s.lists l)).reverse ++ m.trace) ∧
    (MCfg.runN beh ((s.lists l).length + 1) m).1.lists = m.lists ∧
    (MCfg.runN beh ((s.lists l).length + 1) m).1.wraps = m.wraps ∧
    ∃ srest, s.stack = .prog (.op (.enum l arg) k) :: srest ∧
      Sim (MCfg.runN beh ((s.lists l).length + 1) m).1
        { s with stack := .prog (k (.bool true)) :: srest,
                 trace := .res (.bool true) :: ((callsOf l arg true (s.lists l)).reverse ++ s.trace) } := by
  obtain ⟨srest, hs, hw, hl, _, hsim⟩ := model_traverse_prefix beh h l arg true k mrest hst
    (s.lists l) [] (by simp) (fun e he n => ⟨true, hb e he n, fun _ => rfl⟩)
  rw [SCfg.called_done] at hsim
  exact ⟨by rw [hsim.trace, h.trace]; rfl, hl, hw, srest, hs, hsim⟩

/-- **C01 (forEachIf stops, Model).** -/
theorem C01_model_enum_stop (beh : Beh) {m : MCfg} {s : SCfg} (h : Sim m s) (l arg : Nat)
    (k : Res → Prog) (mrest : List MFrame)
    (hst : m.stack = .prog (.op (.enum l arg) k) :: mrest)
    (P : List Entry) (e : Entry) (Q : List Entry) (hl : s.lists l = P ++ e :: Q)
    (hb : ∀ x ∈ P, ∀ n, beh ⟨l, x.id, x.cb, arg, true⟩ n = .ret true)
    (he : ∀ n, beh ⟨l, e.id, e.cb, arg, true⟩ n = .ret false) :
    (MCfg.runN beh (P.length + 2) m).1.trace =
      .res (.bool false) :: ((callsOf l arg true (P ++ [e])).reverse ++ m.trace) ∧
    (MCfg.runN beh (P.length + 2) m).1.lists = m.lists ∧
    (MCfg.runN beh (P.length + 2) m).1.wraps = m.wraps ∧
    ∃ srest, s.stack = .prog (.op (.enum l arg) k) :: srest ∧
      Sim (MCfg.runN beh (P.length + 2) m).1
        { s with stack := .prog (k (.bool false)) :: srest,
                 trace := .res (.bool false) :: ((callsOf l arg true (P ++ [e])).reverse ++ s.trace) } := by
  obtain ⟨srest, hs, hw, hls, _, hsim⟩ := model_enum_stop beh h l arg k mrest hst P e Q hl hb he
  exact ⟨by rw [hsim.trace, h.trace], hls, hw, srest, hs, hsim⟩

/-! ### what the list is after each operation (Spec; the Model follows by `C01_refines`) -/

/-- append puts the new callback at the back -/
theorem C01_append (L : SList) (id : Hd) (cb : Cb) :
    L.append id cb = L ++ [⟨id, cb⟩] ∧ (L.append id cb).ids = L.ids ++ [id] ∧
    ∀ x, (L.append id cb).present x = (L.present x || x == id) :=
  ⟨rfl, SList.ids_append L id cb, SList.present_append L id cb⟩

/-- prepend puts the new callback at the front -/
theorem C01_prepend (L : SList) (id : Hd) (cb : Cb) :
    L.prepend id cb = ⟨id, cb⟩ :: L ∧ (L.prepend id cb).ids = id :: L.ids ∧
    ∀ x, (L.prepend id cb).present x = (L.present x || x == id) :=
  ⟨rfl, SList.ids_prepend L id cb, SList.present_prepend L id cb⟩

/-- insert before a callback `x` that is in the list puts the new callback immediately before it
    (`P` = what is in front of `x`, not containing `x`'s handle; `Q` = what follows) -/
theorem C01_insert_present (P Q : SList) (x : Entry) (id : Hd) (cb : Cb) (hn : x.id ∉ P.ids) :
    (P ++ x :: Q).insert id cb x.id = P ++ ⟨id, cb⟩ :: x :: Q :=
  SList.insert_split id cb hn

/-- the same on handles, for a list with distinct handles -/
theorem C01_insert_present_ids (L : SList) (P Q : List Hd) (before id : Hd) (cb : Cb)
    (hnd : L.ids.Nodup) (h : L.ids = P ++ before :: Q) :
    (L.insert id cb before).ids = P ++ id :: before :: Q :=
  SList.ids_insert_present id cb hnd h

/-- insert before a handle that is not (or no longer) in the list appends -/
theorem C01_insert_absent (L : SList) (before id : Hd) (cb : Cb) (h : L.present before = false) :
    L.insert id cb before = L ++ [⟨id, cb⟩] :=
  SList.insert_absent id cb h

/-- after insert the list holds what it held, plus the new handle -/
theorem C01_insert_mem (L : SList) (before id : Hd) (cb : Cb) (x : Hd) :
    (L.insert id cb before).present x = (L.present x || x == id) :=
  SList.present_insert L id cb before x

/-- remove returns `true` exactly when the handle was in the list; the list afterwards is the old
    one without that entry, order kept (and unchanged if the handle was not in it) -/
theorem C01_remove (L : SList) (h : Hd) :
    (L.remove h).2 = L.present h ∧
    (L.remove h).1 = L.filter (fun e => e.id != h) ∧
    (∀ x, (L.remove h).1.present x = (L.present x && x != h)) ∧
    (L.ids.Nodup → (L.remove h).1.ids = L.ids.erase h) :=
  ⟨SList.remove_snd L h, SList.remove_fst L h, SList.present_remove L h, SList.ids_remove L h⟩

/-- remove of a handle that is not in the list changes nothing and returns `false` -/
theorem C01_remove_absent (L : SList) (h : Hd) (hp : L.present h = false) : L.remove h = (L, false) :=
  SList.remove_absent L h hp

/-! ### non-vacuity -/

/-- append 10, append 11, prepend 12, insert 13 before handle 1, remove handle 0, remove it again,
    ownsHandle 0 / 1, empty, invoke with argument 7, forEachIf with argument 8 -/
def c01Prog : Prog :=
  .op (.append 0 10) fun _ => .op (.append 0 11) fun _ => .op (.prepend 0 12) fun _ =>
  .op (.insert 0 13 1) fun _ => .op (.remove 0 0) fun _ => .op (.remove 0 0) fun _ =>
  .op (.owns 0 0) fun _ => .op (.owns 0 1) fun _ => .op (.empty 0) fun _ =>
  .op (.invoke 0 7) fun _ => .op (.enum 0 8) fun _ => .ret true

/-- the Model run computed by the kernel: the content is handles `2, 3, 1` (callbacks 12, 13, 11),
    the invocation calls exactly these in this order with argument 7, `remove` answers `true` then
    `false`, and the Spec run gives the same trace (so `C01_refines`' hypotheses hold here). -/
example :
    let m := (MCfg.runN flatBeh 40 { stack := [.prog c01Prog] }).1
    let s := (SCfg.runN flatBeh 40 { stack := [.prog c01Prog] }).1
    m.wraps = 0 ∧ m.trace = s.trace ∧ (s.lists 0).ids = [2, 3, 1] ∧
    chainOf (m.lists 0).heap 10 (m.lists 0).head = [2, 3, 1] ∧
    m.trace.reverse =
      [.res (.handle 0), .res (.handle 1), .res (.handle 2), .res (.handle 3),
       .res (.bool true), .res (.bool false), .res (.bool false), .res (.bool true), .res (.bool false),
       .call ⟨0, 2, 12, 7, false⟩, .call ⟨0, 3, 13, 7, false⟩, .call ⟨0, 1, 11, 7, false⟩, .res .unit,
       .call ⟨0, 2, 12, 8, true⟩, .call ⟨0, 3, 13, 8, true⟩, .call ⟨0, 1, 11, 8, true⟩, .res (.bool true)] := by
  decide +kernel

/-- the first nine operations of `c01Prog` -/
def c01Pre : Prog :=
  .op (.append 0 10) fun _ => .op (.append 0 11) fun _ => .op (.prepend 0 12) fun _ =>
  .op (.insert 0 13 1) fun _ => .op (.remove 0 0) fun _ => .op (.remove 0 0) fun _ =>
  .op (.owns 0 0) fun _ => .op (.owns 0 1) fun _ => .op (.empty 0) fun _ => .ret true

/-- the (reachable, non-empty) state after them, about to run `invoke 0 7` -/
def c01Before : MCfg :=
  { (MCfg.runN flatBeh 10 { stack := [.prog c01Pre] }).1 with
    stack := [.prog (.op (.invoke 0 7) fun _ => .ret true)] }
def c01BeforeS : SCfg :=
  { (SCfg.runN flatBeh 10 { stack := [.prog c01Pre] }).1 with
    stack := [.prog (.op (.invoke 0 7) fun _ => .ret true)] }

theorem c01Before_sim : Sim c01Before c01BeforeS :=
  (C02_simulation flatBeh 10 _ _ (C02_init 1 c01Pre) (by decide +kernel)).1.restack _

/-- the hypotheses of `C01_model_invoke` hold in that state, and its conclusion is the three
    calls above -/
example :
    (MCfg.runN flatBeh 4 c01Before).1.trace =
      .res .unit :: ([.call ⟨0, 2, 12, 7, false⟩, .call ⟨0, 3, 13, 7, false⟩,
        .call ⟨0, 1, 11, 7, false⟩].reverse ++ c01Before.trace) := by
  have hl : c01BeforeS.lists 0 = [⟨2, 12⟩, ⟨3, 13⟩, ⟨1, 11⟩] := by decide +kernel
  have := (C01_model_invoke flatBeh c01Before_sim 0 7 _ _ rfl (fun _ _ _ => ⟨true, rfl⟩)).1
  rw [hl] at this
  simpa [callsOf] using this

/-- `C01_spec_enum_stop` applies to a concrete state: list `[a, b, c]`, `b` answers `false` -/
example :
    let beh : Beh := fun c _ => .ret (c.cb != 21)
    let c : SCfg := { lists := upd {} 0 [⟨0, 20⟩, ⟨1, 21⟩, ⟨2, 22⟩], nextId := 3,
                      stack := [.prog (.op (.enum 0 5) fun _ => .ret true)] }
    (SCfg.runN beh 3 c).1.trace =
      [.res (.bool false), .call ⟨0, 1, 21, 5, true⟩, .call ⟨0, 0, 20, 5, true⟩] := by
  intro beh c
  have : SCfg.runN beh 3 c = _ :=
    C01_spec_enum_stop beh c 0 5 (fun _ => .ret true) [] [⟨0, 20⟩] ⟨1, 21⟩ [⟨2, 22⟩] rfl
      (by simp [c]) (by intro x hx n; simp at hx; subst hx; rfl) (fun n => rfl)
  rw [this]
  rfl

end Evp
