import EventppVerif.CL.Machine
