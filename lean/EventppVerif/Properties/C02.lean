import EventppVerif.CL.Sim
/-
  Property C02 — callbacks may mutate or re-invoke the list that is invoking them, safely.

  Model: the pointer-level machine `MCfg` (CL/Model.lean, CL/Machine.lean): `doForEachIf` exactly
  as written (loop variable, captured generation, guard `counter != 0 && captured >= counter`,
  `node = node->next` read *after* the callback returned), `doFreeNode` keeping the removed
  node's links, handles of removed nodes inert.
  Spec: the list machine `SCfg`: an invocation iterates over a snapshot and skips what is no
  longer in the list — the statement of the property.

  The theorems quantify over every behaviour table `beh` (what every callback does on every call:
  any program of list operations and nested invocations, chosen from the results seen so far),
  every number of steps, every pair of related states (in particular every reachable one) and
  every world of lists (a dispatcher's per-event lists).
-/
namespace Evp

/-- The empty worlds are related. -/
theorem C02_init (k : Nat) (p : Prog) :
    Sim { nlists := k, stack := [.prog p] } { nlists := k, stack := [.prog p] } := by
  refine ⟨rfl, rfl, rfl, ?_, ?_⟩
  · intro l
    have : (({} : Store CL) l) = ({} : CL) := Store.empty_get l
    show Rep (({} : Store CL) l) (({} : Store SList) l) 0
    rw [this]
    have h2 : (({} : Store SList) l) = ([] : SList) := Store.empty_get l
    rw [h2]
    exact Rep.empty 0
  · exact StackSim.cons (FrameSim.prog p) StackSim.nil

/-- **C02 (simulation).** For every behaviour of the callbacks and every number of steps, as long
    as no generation counter wraps during those steps (the wrap is C19), the pointer-level Model
    and the Spec stay in lock-step: same event trace (every callback call with its list, handle,
    callback, argument, and the result of every operation at every nesting depth), same
    halted/not-halted outcome, related final states. -/
theorem C02_simulation (beh : Beh) (n : Nat) (m : MCfg) (s : SCfg) (h : Sim m s)
    (nowrap : (MCfg.runN beh n m).1.wraps = m.wraps) :
    Sim (MCfg.runN beh n m).1 (SCfg.runN beh n s).1 ∧
    (MCfg.runN beh n m).1.trace = (SCfg.runN beh n s).1.trace ∧
    (MCfg.runN beh n m).2 = (SCfg.runN beh n s).2 := by
  have := sim_runN beh n h nowrap
  exact ⟨this.1, this.1.trace, this.2⟩

/-- **C02 (final content).** In related states the Model's live chain of every list, read through
    `head`/`next`, is the Spec list: "when the outermost invocation returns the list holds exactly
    what the same operations would have produced". -/
theorem C02_content {m : MCfg} {s : SCfg} (h : Sim m s) (l : Nat) :
    chainOf (m.lists l).heap (m.nextId + 1) (m.lists l).head = (s.lists l).ids ∧
    ∀ e ∈ s.lists l, ((m.lists l).heap e.id).cb = e.cb := by
  have r := h.rep l
  refine ⟨?_, r.cbs⟩
  apply chainOf_seg r.wf.fwd
  have := nodup_lt_length _ _ r.wf.nodup r.wf.lt
  omega

/-- **C02 (memory safety of the model).** No operation of any run dereferences a null pointer
    (the model's `ub` flag), wrap or not, and every traversal's pointer walks stay inside allocated
    nodes (part of `MInv`, see `minv_runN`). -/
theorem C02_no_ub (beh : Beh) (n : Nat) (m : MCfg) (h : MInv m) (l : Nat) :
    ((MCfg.runN beh n m).1.lists l).ub = false :=
  minv_no_ub (minv_runN beh n h) l

/-- Handles of removed callbacks are inert, stated on the Spec (which the Model follows):
    `remove` returns `false` and changes nothing, `insert` before it appends, `ownsHandle` is
    `false`. -/
theorem C02_inert (L : SList) (h : Hd) (hn : L.present h = false) (id : Hd) (cb : Cb) :
    L.remove h = (L, false) ∧ L.insert id cb h = L.append id cb := by
  simp [SList.remove, SList.insert, hn]

/-- Non-vacuity: the D1 script (a callback removes itself, inserts before its successor, removes
    itself again, asks ownsHandle, inserts before itself) — Model and Spec computed by `decide`
    agree on the trace and on the final content `A X C Y`. -/
def d1Beh : Beh := fun c nth =>
  if c.cb = 2 ∧ nth = 0 then
    .op (.remove 0 1) fun _ => .op (.insert 0 9 2) fun _ => .op (.remove 0 1) fun _ =>
    .op (.owns 0 1) fun _ => .op (.insert 0 8 1) fun _ => .ret true
  else .ret true

def d1Prog : Prog :=
  .op (.append 0 1) fun _ => .op (.append 0 2) fun _ => .op (.append 0 3) fun _ =>
  .op (.invoke 0 7) fun _ => .ret true

example :
    let m := (MCfg.runN d1Beh 40 { stack := [.prog d1Prog] }).1
    let s := (SCfg.runN d1Beh 40 { stack := [.prog d1Prog] }).1
    m.trace = s.trace ∧ (s.lists 0).ids = [0, 3, 2, 4] ∧
      chainOf (m.lists 0).heap 10 (m.lists 0).head = [0, 3, 2, 4] ∧ m.wraps = 0 := by
  decide +kernel

end Evp
