import EventppVerif.CL.PtrBridge
import EventppVerif.CL.WF
/-
  Properties C01 / C02 — bridge from the pointer Model to the source text of callbacklist.h.

  The simulation theorem (C02) and everything built on it speak about the hand-written pointer
  Model (`CL.linkBack`, `CL.linkBefore`, `CL.freeNode`, `guard`, `CL.remove`).  The bodies of
  `doAppend`, `doInsert`, `doFreeNode`, the test in the loop of `doForEachIf` and the test in
  `remove()` are re-read from /repo on every run (Generated/ClFrag.lean, as terms of the little
  pointer language `PL.Stmt` and as boolean functions).  The theorems below say that on every
  well-formed list state (every reachable state: `MInv`, C02) executing the SOURCE statements gives
  exactly the Model's result — same heap at every address, same `head`, same `tail`, no null
  dereference.
-/
namespace Evp
open Evp.PL Evp.Gen.Cl

/-- in a well-formed list no node is its own successor or predecessor -/
theorem WF.no_self {l : CL} {L : List Nat} {b : Nat} (w : WF l L b) {n : Nat} (hn : n ∈ L) :
    (l.heap n).next ≠ some n ∧ (l.heap n).prev ≠ some n := by
  obtain ⟨P, S, rfl⟩ := List.append_of_mem hn
  have hnd := w.nodup
  constructor
  · have hf := w.fwd
    obtain ⟨m, _, h2⟩ := seg_append.mp hf
    obtain ⟨_, h3⟩ := seg_cons.mp h2
    cases S with
    | nil => have := seg_nil.mp h3; simp [nextF] at this; simp [this]
    | cons a r =>
      obtain ⟨h4, _⟩ := seg_cons.mp h3
      simp only [nextF] at h4
      rw [h4]
      intro h
      cases h
      have := List.nodup_append.mp hnd
      simp at this
  · have hb := w.bwd
    rw [List.reverse_append, List.reverse_cons, List.append_assoc] at hb
    obtain ⟨m, _, h2⟩ := seg_append.mp hb
    obtain ⟨_, h3⟩ := seg_cons.mp (by simpa using h2)
    cases hP : P.reverse with
    | nil => rw [hP] at h3; have := seg_nil.mp h3; simp [prevF] at this; simp [this]
    | cons a r =>
      rw [hP] at h3
      obtain ⟨h4, _⟩ := seg_cons.mp h3
      simp only [prevF] at h4
      rw [h4]
      intro h
      cases h
      have ha : n ∈ P := by
        have : n ∈ P.reverse := by rw [hP]; simp
        simpa using this
      have := List.nodup_append.mp hnd
      simp at this
      exact (this.2.2 n ha).1 rfl

/-- **`doFreeNode` (source) = `freeNode` (Model)** on every well-formed list, for every node of the
    list. -/
theorem C02_bridge_doFreeNode (fuel : Nat) {l : CL} {L : List Nat} {b : Nat} (w : WF l L b) {n : Nat} (hn : n ∈ L) :
    Agrees (exec fuel doFreeNode (ofCL l (some n) none)) (l.freeNode n) :=
  bridge_doFreeNode fuel l n (w.no_self hn).1 (w.no_self hn).2

/-- **`doAppend` (source) = `linkBack` (Model)** on every well-formed list, for a freshly allocated
    node. -/
theorem C02_bridge_doAppend (fuel : Nat) {l : CL} {L : List Nat} {b : Nat} (w : WF l L b) (id : Nat) (hid : b ≤ id)
    (cb : Cb) (c : Nat) :
    Agrees (exec fuel doAppend (ofCL (allocated l id cb c) (some id) none)) (l.linkBack id cb c) := by
  apply bridge_doAppend
  intro hh
  rw [w.head_eq] at hh
  cases hL : L.getLast? with
  | none =>
    have : L = [] := by simpa using hL
    subst this; simp at hh
  | some t =>
    refine ⟨t, by rw [w.tail_eq, hL], ?_⟩
    have ht : t ∈ L := List.mem_of_getLast? hL
    have := w.lt t ht
    omega

/-- **`doInsert` (source) = `linkBefore` (Model)** on every well-formed list, for a freshly
    allocated node and a `before` node of the list. -/
theorem C02_bridge_doInsert (fuel : Nat) {l : CL} {L : List Nat} {b : Nat} (w : WF l L b) (id : Nat) (hid : b ≤ id)
    (cb : Cb) (c : Nat) {bn : Nat} (hbn : bn ∈ L) :
    Agrees (exec fuel doInsert (ofCL (allocated l id cb c) (some id) (some bn))) (l.linkBefore id cb c bn) := by
  apply bridge_doInsert
  have := w.lt bn hbn
  omega

/-- **the wrap branch of `getNextCounter` (source) = the Model's.**  When the next draw wraps, the
    Model's `nextCounter` leaves the heap that the source's reset loop computes (every node linked
    from `head` gets generation 1), `head` and `tail` untouched, and the loop runs under the list mutex
    (so it is one critical section in the concurrent model). -/
theorem C19_bridge_wrapReset (fuel : Nat) (l : CL) (hw : l.willWrap = true) :
    (l.nextCounter fuel).1.heap = (exec fuel wrapReset (ofCL l none none)).heap ∧
    (exec fuel wrapReset (ofCL l none none)).head = l.head ∧
    (exec fuel wrapReset (ofCL l none none)).tail = l.tail ∧
    (exec fuel wrapReset (ofCL l none none)).ub = false ∧
    wrapResetLocked = true := by
  obtain ⟨h1, h2, h3, h4⟩ := bridge_wrapReset fuel l
  refine ⟨?_, h2, h3, h4, by decide⟩
  rw [h1]
  unfold CL.willWrap at hw
  have : (l.cur + 1) % l.M = 0 := by simpa using hw
  simp [CL.nextCounter, this]

/-- the traversal test of `doForEachIf` in the source is the Model's `guard` -/
theorem C02_bridge_guard (nc cap : Nat) : Gen.Cl.guard nc cap = Evp.guard nc cap := rfl

/-- the test of `remove()` in the source is the Model's: `remove` acts, and returns true, exactly
    when the handle locks and the node's counter is not `removedCounter` -/
theorem C02_bridge_remove (l : CL) (h : Hd) : (l.remove h).2 = removeTest true ((l.heap h).counter) :=
  bridge_removeTest l h

/-- the test of `insert()` in the source is the Model's: link before `before` exactly when that
    node is still in the list, otherwise at the back -/
theorem C02_bridge_insert (l : CL) (fuel id : Nat) (cb : Cb) (before : Hd) :
    l.insert fuel id cb before =
      if insertTest (((l.nextCounter fuel).1.heap before).counter) then
        (l.nextCounter fuel).1.linkBefore id cb (l.nextCounter fuel).2 before
      else (l.nextCounter fuel).1.linkBack id cb (l.nextCounter fuel).2 := by
  unfold CL.insert insertTest
  by_cases h : ((l.nextCounter fuel).1.heap before).counter = 0 <;> simp [h]

/-- … and it is made under the list mutex, in the block that links the node: in the concurrent model
    (Conc/CList.lean) the test and the link are one critical section -/
theorem C03_bridge_insert_locked : insertTestLocked = true := by decide

end Evp
