import EventppVerif.Conc.CList
import EventppVerif.Conc.CListInv
import EventppVerif.Conc.CListLin
import EventppVerif.Conc.CListVisit
/-
  Property C03 — one callback list used by any number of threads.

  "With the multi-threaded policy, any number of threads may concurrently append, prepend, insert,
  remove, query, enumerate, invoke and dispatch on one callback list …: every call returns without
  deadlock, crash or memory error, and the results of the adding, removing and querying calls
  together with the final listener order are those of some sequential execution of the same calls
  that respects each thread's program order and the real-time order of non-overlapping calls, so
  that each callback is removed successfully at most once and none is lost or duplicated.  Every
  invocation or enumeration visits each callback that stayed in the list for its whole duration
  exactly once, visits no callback twice, and respects list order."

  Model (Conc/CList.lean): threads run lists of calls on ONE list object, the pointer model `CL` of
  the sequential development.  `step s t` is one micro-step of thread `t`: the atomic counter
  increment (`draw`), each critical section of the list mutex (`link`, `removeCs`, `ownsCs`,
  `travStart`, `travNext`), each unlocked read (`emptyRead`, `insBefore`, `travCap`, `travCheck`),
  each callback call (`travCall`).  A schedule is a list of thread ids; `Reach progs s` says `s` is
  the state after some schedule from `init progs`.  All theorems quantify over every family of
  thread programs and every schedule.  The counter wrap is outside this model (`draw` sets
  `unsupported` instead of wrapping); the invariant below holds regardless of that flag.

  The invariant (`Inv`, Conc/CListInv.lean):
  * the list object represents a Spec list `SL` (`Rep s.list SL s.nextId`, the well-formedness of
    the sequential development) — the ghost Spec list is unique and equals `specOf s`, the object
    read through `head`/`next`;
  * every pending `link … id c` of any thread has `1 ≤ c ≤ cur`, `id < nextId`, and node `id` is not
    linked; distinct threads hold distinct pending nodes;
  * every traversal in progress standing on node `n` satisfies the structural invariant `WalkV`:
    following `next` from `n` walks a duplicate-free list `R` of removed nodes — allocated, NOT
    pending, hence never written again — and then enters a suffix `S` of the live chain; no node the
    invocation has called so far lies on `R ++ S` (except `n` itself once it has been dealt with);
    the called nodes still in the list form a sublist of the chain before `S`; (in the window
    invariant of Conc/CListVisit.lean, with `G` the nodes in the list when the invocation started)
    every node of `G` still in the list has been called or lies ahead on `S`;
  * each thread's program counter belongs to the call at the head of its program; no recorded
    invocation has called a node twice; every record restricted to the live nodes is in list order.

  What is proved:
  1. `C03_wellformed`(`_meaning`), `C03_pending`: the invariant holds after every micro-step of
     every interleaving.
  2. `C03_linearizable` with the table `C03_table_*`, `C03_history`, `C03_program_order`,
     `C03_real_time`, `C03_handles_new`, `C03_removed_once`, `C03_none_lost`: linearizability by
     fixed linearization points, the ghost log is a legal sequential history, and its consequences.
  3. `C03_progress`: no micro-step ever blocks.
  4. `C03_visit_live`, `C03_call`, `C03_traversal_safe`, `C03_cb_stable`: what a traversal reads
     and calls.  NOTE: "a removed callback is never called after its removal" is FALSE in the model
     as in the source — the guard `node->counter != removedCounter` is read without the mutex, the
     callback is called afterwards, and a `remove` may run in between (`C03_call_after_remove`).
     What holds: the node was in the list when its guard was read.
  5. `C03_visit_once`: no invocation calls a node twice; `C03_visit_all`: an invocation calls every
     callback that is in the list from its start to its end; `C03_visit_order`: the callbacks an
     invocation called that are still in the list were called in list order.
  6. concrete 3-thread runs.
  Not proved (see the comment at the end): that every call returns under a fair schedule
  (termination); `C03_progress` only says that no step ever blocks.
-/
namespace Evp.ConcL
open Evp

/-! ### 1. well-formedness after every micro-step -/

/-- **C03 (well-formedness).**  In every state reachable by any schedule of any thread programs the
    list object represents a Spec list. -/
theorem C03_wellformed {progs : List (List Call)} {s : State} (h : Reach progs s) :
    ∃ SL, Rep s.list SL s.nextId := by
  obtain ⟨SL, hw⟩ := inv_reach h
  exact ⟨SL, hw.rep⟩

/-- the Spec list is the one read through `head`/`next`; it is unique -/
theorem C03_spec_unique {progs : List (List Call)} {s : State} (h : Reach progs s) :
    Rep s.list (specOf s) s.nextId ∧ ∀ SL, Rep s.list SL s.nextId → SL = specOf s := by
  obtain ⟨SL, hw⟩ := inv_reach h
  rw [hw.spec]
  exact ⟨hw.rep, fun SL' r => r.unique hw.rep⟩

/-- **C03 (what well-formedness says).**  With `L` the `head`/`next` chain: `L` has no duplicates,
    `head` starts it and the `next` of its last node is null, `tail`/`previous` walk it backwards, a
    node is on the chain iff its counter is not `removedCounter`, the counters on the chain are in
    `[1, currentCounter]`, all nodes on it were allocated, and no null pointer was ever
    dereferenced. -/
theorem C03_wellformed_meaning {progs : List (List Call)} {s : State} (h : Reach progs s) :
    let L := chainOf s.list.heap (s.nextId + 1) s.list.head
    L.Nodup ∧ Seg nextF s.list.heap s.list.head L none ∧ Seg prevF s.list.heap s.list.tail L.reverse none ∧
    (∀ n, n ∈ L ↔ (s.list.heap n).counter ≠ 0) ∧
    (∀ n ∈ L, 1 ≤ (s.list.heap n).counter ∧ (s.list.heap n).counter ≤ s.list.cur) ∧
    (∀ n ∈ L, n < s.nextId) ∧ (∀ n, s.nextId ≤ n → (s.list.heap n).counter = 0) ∧ s.list.ub = false := by
  obtain ⟨SL, r⟩ := C03_wellformed h
  intro L
  have hL : L = SL.ids := r.chain
  rw [hL]
  have w := r.wf
  exact ⟨w.nodup, w.fwd, w.bwd, w.live, fun n hn => ⟨Nat.pos_of_ne_zero ((w.live n).mp hn), w.cnt n hn⟩,
    w.lt, r.fresh, w.ub⟩

/-- **C03 (pending links).**  A thread between its `draw` and its `link` holds a generation in
    `[1, currentCounter]` and a node that is allocated and not linked; two threads never hold the
    same node. -/
theorem C03_pending {progs : List (List Call)} {s : State} (h : Reach progs s) :
    (∀ t th k cb bf id c, getT s t = some th → th.pc = .link k cb bf id c →
      1 ≤ c ∧ c ≤ s.list.cur ∧ id < s.nextId ∧ (s.list.heap id).counter = 0) ∧
    (∀ t u th th' k cb bf c k' cb' bf' c' id, getT s t = some th → getT s u = some th' →
      th.pc = .link k cb bf id c → th'.pc = .link k' cb' bf' id c' → t = u) := by
  obtain ⟨SL, hw⟩ := inv_reach h
  refine ⟨fun t th k cb bf id c hg hpc => (hw.thr t th hg).link k cb bf id c hpc, ?_⟩
  intro t u th th' k cb bf c k' cb' bf' c' id hg hg' hpc hpc'
  exact hw.uniq t u th th' id hg hg' (by rw [hpc]; rfl) (by rw [hpc']; rfl)

/-- the invariant is inductive: it holds initially and every micro-step of every thread keeps it -/
theorem C03_inv_init (progs : List (List Call)) : Inv (init progs) := ⟨[], invW_init progs⟩
theorem C03_inv_step {s s' : State} {t : Nat} (h : Inv s) (hs : step s t = some s') : Inv s' := inv_step h hs

/-! ### 2. linearizability -/

/-- **C03 (linearization points).**  Every micro-step acts on the ghost Spec list `specOf s` exactly
    as the table `specEffect` says: the table's list is the Spec list afterwards, and if the table
    gives a result then this step records that result for the call at the head of the thread's
    program and ends the call.  The table (`C03_table_*`): `link` is the Spec's `append` / `prepend` /
    `insert` with the new handle as result, `removeCs` the Spec's `remove` with its verdict, `ownsCs`
    and `emptyRead` read `present` / `isEmpty`; every other micro-step — `draw`, `insBefore`, all
    traversal steps, starting a call — leaves the Spec list unchanged and records no result for an
    adding, removing or querying call.  So each such call takes effect at exactly one micro-step. -/
theorem C03_linearizable {s s' : State} {t : Nat} {th : Thread} (h : Inv s)
    (hg : getT s t = some th) (hs : step s t = some s') :
    specOf s' = (specEffect th.pc (specOf s)).1 ∧
    (∀ r, (specEffect th.pc (specOf s)).2 = some r →
      th.prog.head? = callOf th.pc ∧
      ∃ th', getT s' t = some th' ∧ th'.rets = th.rets ++ [r] ∧ th'.prog = th.prog.tail ∧ th'.pc = .idle) ∧
    ((specEffect th.pc (specOf s)).2 = none →
      ∃ th', getT s' t = some th' ∧ (th'.rets = th.rets ∨ (callOf th.pc = some .invoke ∧ th'.rets = th.rets ++ [.unit]))) ∧
    (∀ v, v ≠ t → getT s' v = getT s v) := by
  obtain ⟨SL, hw⟩ := h
  have hst := invW_step hw hg hs
  obtain ⟨th', hsh⟩ := step_shape hg hs
  rw [hst.1.spec, hw.spec]
  refine ⟨rfl, fun r hr => ⟨?_, hst.2 r hr⟩, fun hn => ⟨th', hsh.getT_self hg, ?_⟩, fun v hv => hsh.getT_other hv⟩
  · cases hc : callOf th.pc with
    | none => cases hpc : th.pc <;> rw [hpc] at hc hr <;> simp [callOf, specEffect] at hc hr
    | some c => exact (hw.thr t th hg).call c hc
  · rcases hsh.2.2.2 with h4 | h4
    · exact Or.inl h4.2.1
    · rcases h4.2.2 with h5 | h5
      · obtain ⟨c, r, _, h2, _⟩ := lin_table h5 SL
        rw [hn] at h2; cases h2
      · exact Or.inr h5

theorem C03_table_append (cb bf id c) (SL : SList) :
    specEffect (.link 0 cb bf id c) SL = (SL.append id cb, some (.handle id)) := rfl
theorem C03_table_prepend (cb bf id c) (SL : SList) :
    specEffect (.link 1 cb bf id c) SL = (SL.prepend id cb, some (.handle id)) := rfl
theorem C03_table_insert (cb bf id c) (SL : SList) :
    specEffect (.link 2 cb bf id c) SL = (SL.insert id cb bf, some (.handle id)) := rfl
theorem C03_table_remove (h : Hd) (SL : SList) :
    specEffect (.removeCs h) SL = ((SL.remove h).1, some (.bool (SL.remove h).2)) := rfl
theorem C03_table_owns (h : Hd) (SL : SList) :
    specEffect (.ownsCs h) SL = (SL, some (.bool (SL.present h))) := rfl
theorem C03_table_empty (SL : SList) :
    specEffect .emptyRead SL = (SL, some (.bool SL.isEmpty)) := rfl
/-- every other micro-step has no effect and no result -/
theorem C03_table_other (pc : PC) (hl : pc.isLin = false) (SL : SList) : specEffect pc SL = (SL, none) := by
  cases pc <;> simp [PC.isLin] at hl <;> rfl

/-- **C03 (the log is a legal sequential history).**  Replay any schedule from the start; `logOf`
    records `(thread, call, result)` at every linearization step, where `call` is the head of the
    thread's program and `result` the value the step appended to the thread's results (see
    `linEntry`).  Running the logged calls one after the other on the Spec, starting from the empty
    list, every logged result is the result the Spec gives (`specRun` is `some`), and the list the
    Spec ends with is the final list of the concurrent run. -/
theorem C03_history (progs : List (List Call)) (sched : List Nat) :
    specRun [] (logOf (init progs) sched) = some (specOf (exec (init progs) sched)) := by
  obtain ⟨SLf, h1, h2⟩ := log_legal (invW_init progs) sched
  rw [h1.spec]; exact h2

/-- the same from any state satisfying the invariant (e.g. any reachable state) -/
theorem C03_history_from {s : State} (h : Inv s) (sched : List Nat) :
    specRun (specOf s) (logOf s sched) = some (specOf (exec s sched)) := by
  obtain ⟨SL, hw⟩ := h
  obtain ⟨SLf, h1, h2⟩ := log_legal hw sched
  rw [h1.spec, hw.spec]; exact h2

/-- **C03 (program order).**  The adding, removing and querying calls of thread `t` appear in the log
    in the order of `t`'s program: they are a prefix of these calls of the program, the rest being
    the ones `t` has not completed. -/
theorem C03_program_order (progs : List (List Call)) (sched : List Nat) (t : Nat) :
    callsIn (logOf (init progs) sched) t ++ pendingCalls (exec (init progs) sched) t
      = ((progs[t]?).getD []).filter (fun c => c != .invoke) := by
  rw [program_order (invW_init progs) sched t]
  unfold pendingCalls
  show (match (progs.map (fun p => ({ prog := p } : Thread)))[t]? with
    | some th => th.prog.filter (fun c => c != Call.invoke) | none => []) = _
  rw [List.getElem?_map]
  cases progs[t]? <;> rfl

/-- **C03 (real-time order).**  The log is written in schedule order: the log of a schedule `a ++ b`
    is the log of `a` followed by the log of `b` from the state `a` leads to.  Every entry is written
    by a micro-step of the call it records (its last one), so if call A returns before call B starts
    — A's last step is in `a`, B's first step in `b` — then A's entry precedes B's. -/
theorem C03_real_time (s : State) (a b : List Nat) :
    logOf s (a ++ b) = logOf s a ++ logOf (exec s a) b ∧ exec s (a ++ b) = exec (exec s a) b :=
  ⟨logOf_append s a b, exec_append s a b⟩

/-- **C03 (handles are new).**  The handles returned by the adding calls of a run are pairwise
    distinct. -/
theorem C03_handles_new (progs : List (List Call)) (sched : List Nat) :
    (adds (logOf (init progs) sched)).Nodup := (adds_fresh (invW_init progs) sched).2

/-- **C03 (removed at most once).**  In the log of any run, the handles of the `remove` calls that
    returned `true` are pairwise distinct: each callback is removed successfully at most once. -/
theorem C03_removed_once (progs : List (List Call)) (sched : List Nat) :
    (rems (logOf (init progs) sched)).Nodup := by
  have hf := adds_fresh (invW_init progs) sched
  exact rems_nodup _ (C03_history progs sched) (fun a _ => by simp) hf.2

/-- **C03 (none lost, none duplicated).**  The final list holds exactly the handles that were handed
    out and not removed successfully, each once. -/
theorem C03_none_lost (progs : List (List Call)) (sched : List Nat) :
    let final := specOf (exec (init progs) sched)
    let log := logOf (init progs) sched
    (∀ x, x ∈ final.ids ↔ x ∈ adds log ∧ x ∉ rems log) ∧ final.ids.Nodup := by
  intro final log
  have hf := adds_fresh (invW_init progs) sched
  refine ⟨fun x => ?_, ?_⟩
  · have := ids_final _ (C03_history progs sched) (fun a _ => by simp) hf.2 x
    simpa using this
  · obtain ⟨SLf, h1, _⟩ := log_legal (invW_init progs) sched
    show (specOf (exec (init progs) sched)).ids.Nodup
    rw [h1.spec]; exact h1.rep.wf.nodup

/-! ### 3. no deadlock -/

/-- **C03 (progress).**  No micro-step ever blocks: every thread that has not finished its program
    can take its next step in every state (critical sections are atomic steps; the locks are not
    held across steps). -/
theorem C03_progress {s : State} {t : Nat} {th : Thread} (hg : getT s t = some th)
    (hu : th.pc ≠ .idle ∨ th.prog ≠ []) : ∃ s', step s t = some s' := by
  unfold step
  rw [hg]
  simp only
  cases hpc : th.pc with
  | idle =>
    simp only
    cases hprog : th.prog with
    | nil => rcases hu with hu | hu; exact absurd hpc hu; exact absurd hprog hu
    | cons c rest => cases c <;> exact ⟨_, rfl⟩
  | draw k cb b => simp only; split <;> exact ⟨_, rfl⟩
  | travCap node => cases node <;> exact ⟨_, rfl⟩
  | travCheck n cap => simp only; split <;> exact ⟨_, rfl⟩
  | travNext n cap => simp only; split <;> exact ⟨_, rfl⟩
  | _ => exact ⟨_, rfl⟩

/-- a step is refused only to a thread that does not exist or has finished -/
theorem C03_progress' {s : State} {t : Nat} (hs : step s t = none) :
    getT s t = none ∨ ∃ th, getT s t = some th ∧ th.pc = .idle ∧ th.prog = [] := by
  cases hg : getT s t with
  | none => exact Or.inl rfl
  | some th =>
    refine Or.inr ⟨th, rfl, ?_⟩
    by_cases h1 : th.pc = .idle
    · by_cases h2 : th.prog = []
      · exact ⟨h1, h2⟩
      · obtain ⟨s', h⟩ := C03_progress hg (Or.inr h2); rw [hs] at h; cases h
    · obtain ⟨s', h⟩ := C03_progress hg (Or.inl h1); rw [hs] at h; cases h

/-! ### 4. what a traversal reads and calls -/

/-- **C03 (memory safety and termination of the walk).**  Whenever a traversal holds node `n` (after
    reading `head`, at the guard, at the call, at `node = node->next`), `n` is an allocated node,
    and following `next` from `n` is a finite duplicate-free chain ending in null: removed nodes `R`
    followed by a suffix `S` of the list as it is now.  This holds whatever the other threads have
    done since the traversal reached `n`. -/
theorem C03_traversal_safe {progs : List (List Call)} {s : State} (h : Reach progs s) {t : Nat}
    {th : Thread} {n : Nat} (hg : getT s t = some th) (hn : th.pc.node = some n) :
    n < s.nextId ∧ ∃ R S : List Nat,
      chainOf s.list.heap (s.nextId + 1) (some n) = R ++ S ∧
      Seg nextF s.list.heap (some n) (R ++ S) none ∧ (R ++ S).Nodup ∧ (R ++ S).head? = some n ∧
      (∀ x ∈ R ++ S, x < s.nextId) ∧
      (∀ x ∈ R, (s.list.heap x).counter = 0) ∧ S <:+ (specOf s).ids := by
  obtain ⟨SL, hw⟩ := inv_reach h
  rw [hw.spec]
  obtain ⟨h0, R, S, h1, h2, h3, h4, h5, _, h7, h8, _⟩ := walkV_chain hw.rep ((hw.thr t th hg).walk n hn)
  exact ⟨h0, R, S, h3, h7, h4, h5, h8, h2, h1⟩

/-- **C03 (a called callback was in the list when its guard was read).**  If the guard step of a
    traversal (`travCheck n cap`) admits node `n` — the thread's next step calls `n`'s callback —
    then at that moment `n` is in the list, with the callback stored in the node, and its generation
    is at most the captured one. -/
theorem C03_visit_live {progs : List (List Call)} {s : State} (h : Reach progs s) {t : Nat}
    {th : Thread} {n cap : Nat} (hg : getT s t = some th) (hpc : th.pc = .travCheck n cap) :
    step s t = some (goto s t th (if guard (s.list.heap n).counter cap then .travCall n cap else .travNext n cap)) ∧
    (guard (s.list.heap n).counter cap = true →
      (s.list.heap n).counter ≠ 0 ∧ (s.list.heap n).counter ≤ cap ∧ n ∈ (specOf s).ids ∧
      (⟨n, (s.list.heap n).cb⟩ : Entry) ∈ specOf s) := by
  refine ⟨step_travCheck hg hpc, fun hgd => ?_⟩
  obtain ⟨SL, hw⟩ := inv_reach h
  rw [hw.spec]
  have h0 : (s.list.heap n).counter ≠ 0 ∧ (s.list.heap n).counter ≤ cap := by
    simpa [guard] using hgd
  have hm : n ∈ SL.ids := (hw.rep.wf.live n).mpr h0.1
  refine ⟨h0.1, h0.2, hm, ?_⟩
  obtain ⟨e, he, hid⟩ := List.mem_map.mp hm
  have := hw.rep.cbs e he
  have hid' : e.id = n := hid
  rw [hid'] at this
  rw [this, ← hid']
  exact he

/-- **C03 (the call step).**  At `travCall n cap` the thread records `(n, callback stored in n)`;
    `n` is an allocated node that has been linked (it is not pending), so by `C03_cb_stable` the
    stored callback is the one `n` was added with; if `n` is still in the list it is the callback of
    `n`'s entry. -/
theorem C03_call {progs : List (List Call)} {s : State} (h : Reach progs s) {t : Nat}
    {th : Thread} {n cap : Nat} (hg : getT s t = some th) (hpc : th.pc = .travCall n cap) :
    (∃ th', step s t = some (setT s t th') ∧ th'.pc = .travNext n cap ∧
      curVisit th' = curVisit th ++ [(n, (s.list.heap n).cb)]) ∧
    n < s.nextId ∧ ¬ Pend s.threads n ∧
    ((s.list.heap n).counter ≠ 0 → (⟨n, (s.list.heap n).cb⟩ : Entry) ∈ specOf s) := by
  obtain ⟨SL, hw⟩ := inv_reach h
  rw [hw.spec]
  have hwk := (hw.thr t th hg).walk n (by rw [hpc]; rfl)
  obtain ⟨a1, a2⟩ := walkV_node hw.rep (fun x hx => (hw.pend_counter x hx).1) hwk
  refine ⟨⟨_, step_travCall hg hpc, rfl, addVisit_curVisit _ _ _⟩, a1, a2, fun h0 => ?_⟩
  have hm : n ∈ SL.ids := (hw.rep.wf.live n).mpr h0
  obtain ⟨e, he, hid⟩ := List.mem_map.mp hm
  have := hw.rep.cbs e he
  have hid' : e.id = n := hid
  rw [hid'] at this
  rw [this, ← hid']
  exact he

/-- **C03 (stored callbacks never change).**  A micro-step changes the callback stored in a node only
    if it is the `link` of that node. -/
theorem C03_cb_stable {s s' : State} {t : Nat} {th : Thread} (h : Inv s)
    (hg : getT s t = some th) (hs : step s t = some s') (x : Nat)
    (hx : ∀ k cb bf c, th.pc ≠ .link k cb bf x c) :
    (s'.list.heap x).cb = (s.list.heap x).cb := by
  obtain ⟨SL, hw⟩ := h
  refine cb_stable hw hg hs x ?_
  intro hp
  cases hpc : th.pc <;> rw [hpc] at hp <;> simp [PC.pendId] at hp
  subst hp
  exact hx _ _ _ _ hpc

/-! ### 5. no callback is called twice -/

/-- **C03 (visits no callback twice).**  In every reachable state, every invocation record of every
    thread — finished or in progress — lists pairwise distinct nodes. -/
theorem C03_visit_once {progs : List (List Call)} {s : State} (h : Reach progs s) {t : Nat}
    {th : Thread} (hg : getT s t = some th) : ∀ V ∈ th.visits, (V.map (·.1)).Nodup := by
  obtain ⟨SL, hw⟩ := inv_reach h
  exact (hw.thr t th hg).vis

/-- **C03 (visits every callback that stays in the list).**  Let `s0` be a reachable state in which
    thread `t` is about to read `head` for an invocation (`travStart`), run any schedule from it, and
    suppose that in the state reached `t` is about to end that same invocation (its program is still
    the one it had in `s0` — a program only ever loses its head, when a call ends — and its next step
    is the final one: `head` was null, or `node->next` is null).  Then every handle that was in the
    list in `s0` and is in the list now has been called by this invocation.  (A handle in the list at
    both moments was in the list all the time between: handles are never re-issued.)  With
    `C03_visit_once`: exactly once. -/
theorem C03_visit_all {progs : List (List Call)} {s0 : State} (h0 : Reach progs s0) {t : Nat}
    {th0 : Thread} (hg0 : getT s0 t = some th0) (hpc0 : th0.pc = .travStart) (sched : List Nat)
    {th : Thread} (hg : getT (exec s0 sched) t = some th) (hprog : th.prog = th0.prog)
    (hend : th.pc = .travCap none ∨
      ∃ n cap, th.pc = .travNext n cap ∧ ((exec s0 sched).list.heap n).next = none) :
    (∀ x, x ∈ (specOf s0).ids → x ∈ (specOf (exec s0 sched)).ids → x ∈ curV th) ∧
    step (exec s0 sched) t = some (finish (exec s0 sched) t th .unit) := by
  obtain ⟨SL0, hw0⟩ := inv_reach h0
  obtain ⟨SL, hw⟩ := inv_exec ⟨SL0, hw0⟩ sched
  have hwin := win_exec (win_start hw0 hg0 hpc0) sched
  have := win_end hwin hg hprog hend
  rw [hw0.spec, hw.spec]
  refine ⟨fun x hx0 hx => this x hx0 ((hw.rep.wf.live x).mp hx), ?_⟩
  rcases hend with hc | ⟨n, cap, hpc, hnx⟩
  · exact step_travCap_none hg hc
  · exact step_travNext_none hg hpc hnx

/-- **C03 (respects list order).**  In every reachable state, every invocation record of every
    thread — finished or in progress — restricted to the nodes that are still in the list, is in list
    order: it is a sublist of the list's chain.  In particular when an invocation ends, the callbacks
    it called that are still registered were called in the order of the list. -/
theorem C03_visit_order {progs : List (List Call)} {s : State} (h : Reach progs s) {t : Nat}
    {th : Thread} (hg : getT s t = some th) :
    ∀ V ∈ th.visits, ((V.map (·.1)).filter (fun v => decide (v ∈ (specOf s).ids))).Sublist (specOf s).ids := by
  obtain ⟨SL, hw⟩ := inv_reach h
  rw [hw.spec]
  intro V hV
  have := (hw.thr t th hg).ord V hV
  unfold liveIn at this
  have e : (V.map (·.1)).filter (fun v => decide (v ∈ SL.ids)) =
      (V.map (·.1)).filter (fun v => (s.list.heap v).counter != 0) := by
    apply List.filter_congr
    intro v _
    rw [Bool.eq_iff_iff]
    simp [hw.rep.wf.live v]
  rw [e]; exact this

/-! ### 6. non-vacuity: concrete runs -/

/-- thread 0 fills the list with callbacks 10, 11, 12 (handles 0, 1, 2) and invokes; thread 1 removes
    handle 1; thread 2 inserts callback 30 before handle 1 -/
def c03Progs : List (List Call) :=
  [[.append 10, .append 11, .append 12, .invoke], [.remove 1], [.insert 30 1]]

/-- the invoker calls node 0; the inserter reads `before` and draws; the invoker moves to node 1;
    the remover removes it; the invoker sees it removed; the inserter links (at the back: its
    `before` is gone); the invoker walks on from the removed node, calls node 2, skips the new node 3
    (generation 4 > captured 3) and ends -/
def c03Sched : List Nat :=
  [0,0,0, 0,0,0, 0,0,0,  0,0,0,0,0,  2,2,2,  0,  1,1,  0,  2,  0,0,0,0,0,0,0]

/-- the inserter links before the remover runs: the new node goes before node 1 -/
def c03Sched2 : List Nat :=
  [0,0,0, 0,0,0, 0,0,0,  0,0,0,0,0,  2,2,2,2,  0,  1,1,  0,  0,0,0,0,0,0,0,0,0,0]

example :
    let s := exec (init c03Progs) c03Sched
    s.threads.map (·.rets) = [[.handle 0, .handle 1, .handle 2, .unit], [.bool true], [.handle 3]] ∧
    s.threads.map (·.visits) = [[[(0, 10), (2, 12)]], [], []] ∧
    s.threads.map (·.prog) = [[], [], []] ∧
    chainOf s.list.heap (s.nextId + 1) s.list.head = [0, 2, 3] ∧
    specOf s = [⟨0, 10⟩, ⟨2, 12⟩, ⟨3, 30⟩] ∧ s.unsupported = false ∧
    logOf (init c03Progs) c03Sched =
      [(0, .append 10, .handle 0), (0, .append 11, .handle 1), (0, .append 12, .handle 2),
       (1, .remove 1, .bool true), (2, .insert 30 1, .handle 3)] := by
  decide +kernel

example :
    let s := exec (init c03Progs) c03Sched2
    s.threads.map (·.rets) = [[.handle 0, .handle 1, .handle 2, .unit], [.bool true], [.handle 3]] ∧
    s.threads.map (·.visits) = [[[(0, 10), (2, 12)]], [], []] ∧
    specOf s = [⟨0, 10⟩, ⟨3, 30⟩, ⟨2, 12⟩] ∧
    logOf (init c03Progs) c03Sched2 =
      [(0, .append 10, .handle 0), (0, .append 11, .handle 1), (0, .append 12, .handle 2),
       (2, .insert 30 1, .handle 3), (1, .remove 1, .bool true)] := by
  decide +kernel

/-- the theorems instantiated on the first run -/
example : ∃ SL, Rep (exec (init c03Progs) c03Sched).list SL (exec (init c03Progs) c03Sched).nextId :=
  C03_wellformed ⟨c03Sched, rfl⟩

example : specRun [] (logOf (init c03Progs) c03Sched) = some [⟨0, 10⟩, ⟨2, 12⟩, ⟨3, 30⟩] := by
  rw [C03_history]; decide +kernel

/-- a state in the middle of that run in which all three threads are inside a call: the invoker at
    the guard of node 1, the remover in front of its critical section, the inserter holding the
    pending node 3 with generation 4 -/
example :
    let s := exec (init c03Progs) (c03Sched.take 19)
    s.threads.map (·.pc) = [.travCheck 1 3, .removeCs 1, .link 2 30 1 3 4] := by
  decide +kernel

/-- the state of the first run in which thread 0 is about to read `head` -/
def c03S0 : State := exec (init c03Progs) (c03Sched.take 10)
/-- the rest of the first run up to thread 0's last step -/
def c03Win : List Nat := (c03Sched.drop 10).take 17

/-- `C03_visit_all` instantiated on the first run: the window from thread 0's `travStart` to the
    state before its last step; the list was `[0, 1, 2]` at the start and is `[0, 2, 3]` at the end,
    and the invocation has called 0 and 2. -/
example :
    (specOf c03S0).ids = [0, 1, 2] ∧ (specOf (exec c03S0 c03Win)).ids = [0, 2, 3] ∧
    ∀ th, getT (exec c03S0 c03Win) 0 = some th →
      ∀ x, x ∈ (specOf c03S0).ids → x ∈ (specOf (exec c03S0 c03Win)).ids → x ∈ curV th := by
  refine ⟨by decide +kernel, by decide +kernel, fun th hg => ?_⟩
  have h0 : Reach c03Progs c03S0 := ⟨_, rfl⟩
  have e0 : (getT c03S0 0).map (fun th => (th.pc, th.prog)) = some (.travStart, [.invoke]) := by
    decide +kernel
  have e1 : (getT (exec c03S0 c03Win) 0).map (fun th => (th.pc, th.prog)) = some (.travNext 3 3, [.invoke]) := by
    decide +kernel
  have e2 : (((exec c03S0 c03Win).list.heap 3).next) = none := by decide +kernel
  cases hg0 : getT c03S0 0 with
  | none => rw [hg0] at e0; cases e0
  | some th0 =>
    rw [hg0] at e0
    rw [hg] at e1
    simp only [Option.map_some, Option.some.injEq, Prod.mk.injEq] at e0 e1
    exact (C03_visit_all h0 hg0 e0.1 c03Win hg (by rw [e1.2, e0.2]) (Or.inr ⟨3, 3, e1.1, e2⟩)).1

/-- **a callback can be called after its removal** (why `C03_visit_live` speaks about the guard step):
    thread 0 appends callback 10 and invokes; after its guard has admitted node 0, thread 1 removes
    handle 0 successfully; thread 0's next step still calls callback 10. -/
def c03ProgsCE : List (List Call) := [[.append 10, .invoke], [.remove 0]]

theorem C03_call_after_remove :
    let s := exec (init c03ProgsCE) [0,0,0, 0,0,0,0, 1,1]
    s.threads.map (·.pc) = [.travCall 0 1, .idle] ∧ s.threads.map (·.rets) = [[.handle 0], [.bool true]] ∧
    (s.list.heap 0).counter = 0 ∧ specOf s = [] ∧
    (exec s [0]).threads.map (·.visits) = [[[(0, 10)]], []] := by
  decide +kernel

/-
  NOT PROVED (termination):

    "every call returns" in the sense that every fair schedule completes every call.

  `C03_progress` shows that no micro-step ever blocks (there is no deadlock: whichever thread is
  scheduled can move), and `C03_traversal_safe` that the walk ahead of a traversal is finite in every
  state.  That every call completes after finitely many of its own steps is immediate for the
  adding, removing and querying calls (at most four micro-steps each, see `step`).  For an
  invocation it needs a measure that decreases with each of its steps although other threads may
  lengthen the chain ahead of it: with finite programs the number of nodes ever allocated is bounded
  by the number of adding calls, and a traversal never walks a node twice, so
  `3 * (bound - walked) + phase` would do; this needs the set of *walked* (not only *called*) nodes
  in `WalkV` and is not done.  (With unbounded programs a traversal can be outrun forever by a
  thread that keeps appending — in the model as in the source.)  The counter wrap is outside the
  model: a `draw` that would wrap sets `unsupported` and does not advance.
-/

end Evp.ConcL
