import EventppVerif.Conc.CList
