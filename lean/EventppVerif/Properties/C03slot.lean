import EventppVerif.Conc.HeterSlot
/-
  Property C03 for the heterogeneous callback list: concurrent first use of a prototype slot.

  "… any number of threads may concurrently append … on one callback list or dispatcher … none is
  lost or duplicated."  A `HeterCallbackList` keeps one callback list per prototype and creates it
  on first use with double-checked locking (`doGetCallbackList`).  Conc/HeterSlot.lean models the
  slot with one micro-step per unlocked read, one for the critical section and one for the append
  to the list that was read; the list's own concurrency is the list model of C03.
-/
namespace Evp.HSlot

/-- **C03 (heterogeneous list, no callback lost at the first use of a slot).**  For every family of
    thread programs and every schedule: at most one list object is ever created for the slot, and
    the list the slot points to holds exactly the appends that have returned, in the order in which
    they returned. -/
theorem C03_heter_slot_no_loss (progs : List (List Nat)) (sched : List Tid) :
    (exec (init progs) sched).lists.length ≤ 1 ∧
    current (exec (init progs) sched) = (exec (init progs) sched).log :=
  no_loss progs sched

/-- the invariant behind it holds after every micro-step of every schedule -/
theorem C03_heter_slot_inv (progs : List (List Nat)) (sched : List Tid) : Inv (exec (init progs) sched) :=
  inv_exec (inv_init progs) sched

/-- no call blocks: a thread with a call left can always take its next micro-step -/
theorem C03_heter_slot_progress (s : State) (t : Tid) (th : Thread) (hg : getT s t = some th)
    (h : th.prog ≠ []) : (step s t).isSome = true :=
  progress s t th hg h

/-- the inner re-check is what makes it true: without it the model loses a completed append
    (two threads, one append each; the schedule is the one the baton scheduler finds on the real code
    when the re-check is removed — seeded change C03c) -/
theorem C03_heter_slot_counterexample :
    let s := exec (init [[10], [20]] false) [0, 1, 1, 1, 1, 0, 0, 0]
    s.log = [20, 10] ∧ current s = [10] ∧ s.lists.length = 2 :=
  loss_without_recheck

end Evp.HSlot
