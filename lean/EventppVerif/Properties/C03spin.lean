import EventppVerif.Conc.SpinLock
import EventppVerif.Generated.SpinFrag
/-
  Properties C03 / C06 with the SpinLock mutex policy ("mutex policy std::mutex or SpinLock"): the
  concurrent models treat a critical section as atomic because the mutex excludes everybody else.
  For `std::mutex` that is the standard's guarantee; `eventpp::SpinLock` is library code.
  Conc/SpinLock.lean is its model (test-and-set loop); Generated/SpinFrag.lean re-reads on every run
  that the source still has that shape; harness/spin_stress.cpp exercises the real lock with real
  threads.
-/
namespace Evp.Spin

/-- **SpinLock excludes.**  For any number of threads and every schedule of their micro-steps
    (each `test_and_set`, each `clear`), at most one thread is inside the critical section. -/
theorem C03_spinlock_mutual_exclusion (n : Nat) (sched : List Nat) : inCritical (exec (init n) sched) ≤ 1 :=
  mutual_exclusion n sched

/-- the flag is set exactly while a thread is inside (invariant of every reachable state) -/
theorem C03_spinlock_inv (n : Nat) (sched : List Nat) : Inv (exec (init n) sched) :=
  inv_exec (init n) (inv_init n) sched

/-- no deadlock: a thread that spins while the lock is free enters at its next step -/
theorem C03_spinlock_progress (s : State) (t : Nat) (hp : s.pcs[t]? = some .spinning) (hf : s.flag = false) :
    (step s t).pcs[t]? = some .critical :=
  progress s t hp hf

/-- bridge: the source's `lock()` / `unlock()` are the test-and-set loop and the clear of the model -/
theorem C03_bridge_spinlock : Gen.Spin.lockIsTasLoop = true ∧ Gen.Spin.unlockIsClear = true := by decide

/-- non-vacuity: three threads, a schedule in which thread 1 spins while thread 0 is inside -/
example :
    let s := exec (init 3) [0, 0, 1, 1, 1, 2, 0, 1]
    s.pcs = [.idle, .critical, .spinning] ∧ s.flag = true ∧ inCritical s = 1 := by decide

end Evp.Spin
