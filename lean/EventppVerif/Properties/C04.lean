import EventppVerif.Q.DispAux
/-
  Property C04 — dispatch reaches exactly the dispatched event's listeners, arguments intact
  (machine part).

  Model: Q/Machine.lean.  A dispatcher is a world of per-event listener lists `c.lists key`
  (Spec-level callback lists, `SList`; that the pointer lists of the library behave like them is
  C01/C02).  `dispatch key arg` runs the filter phase (C12) and then iterates over a snapshot of
  `c.lists key`, skipping entries that are no longer present.

  * `C04_route_flat`: without filters and with listeners that return immediately, `dispatch key arg`
    calls exactly the entries of `c.lists key` that the `CanContinueInvoking` policy lets run
    (`policyCut`: all of them when `b.cont arg`, as with the default policy; otherwise the first
    only), in order, once each, each with `arg`; no list of any event changes.
    `C04_route_flat_all` is the case `b.cont arg = true`.
  * `C04_ops_*`: every listener-management command is the `SList` operation on that event's list and
    leaves the lists of all other events unchanged.
  * `C04_reentrant_route*`: for arbitrary (re-entrant) behaviours, every listener call a dispatch of
    `key` makes is of a handle that is in `c.lists key` at the time of the call.
-/
namespace Evp.Q
open Evp QCfg

/-- **C04 (routing).**  No filters; the listeners return immediately.  From any configuration that
    is about to execute `dispatch key arg` there is a number of steps after which the program
    continues on the same stack and the trace has gained exactly one call per entry of
    `c.lists key` that the `CanContinueInvoking` policy `b.cont` lets run (`policyCut`: the whole
    list if `b.cont arg`, its first entry only if not) — same order, each with handle and callback
    of the entry and with the argument `arg` unchanged — followed by the result of the command; the
    listeners of every other event are neither called nor affected: `lists k'` is unchanged for
    every `k'`. -/
theorem C04_route_flat (b : QBeh) (verdict : Cb → Nat → Bool) (hb : Flat b verdict) (c : QCfg)
    (key arg : Nat) (k : QRes → QProg) (rest : List QFrame) (hf : c.filters = [])
    (hst : c.stack = .prog (.op (.dispatch key arg) k) :: rest) :
    ∃ n, (runN b n c).1.stack = .prog (k .unit) :: rest ∧
      (∀ k', (runN b n c).1.lists k' = c.lists k') ∧
      (runN b n c).1.queue = c.queue ∧
      (runN b n c).1.trace =
        .res .unit ::
          ((policyCut b.cont arg (c.lists key)).map
            (fun e => QEv.call ⟨.listener, key, e.id, e.cb, arg⟩)).reverse
            ++ c.trace := by
  obtain ⟨n, hn⟩ := dispatch_flat hb c key arg k rest hst
  refine ⟨n, by rw [hn], fun k' => by rw [hn], by rw [hn], ?_⟩
  rw [hn, hf]
  simp [dispatchCalls, callsFrom, listenerCalls, List.map_map, Function.comp_def]

/-- **C04 (routing), the policy lets the dispatch continue** (hypothesis `b.cont arg = true`; it
    holds for every `arg` with the default policy): *every* entry of `c.lists key` is called, in
    order, once, with `arg`. -/
theorem C04_route_flat_all (b : QBeh) (verdict : Cb → Nat → Bool) (hb : Flat b verdict) (c : QCfg)
    (key arg : Nat) (k : QRes → QProg) (rest : List QFrame) (hf : c.filters = [])
    (hc : b.cont arg = true)
    (hst : c.stack = .prog (.op (.dispatch key arg) k) :: rest) :
    ∃ n, (runN b n c).1.stack = .prog (k .unit) :: rest ∧
      (∀ k', (runN b n c).1.lists k' = c.lists k') ∧
      (runN b n c).1.queue = c.queue ∧
      (runN b n c).1.trace =
        .res .unit ::
          ((c.lists key).map (fun e => QEv.call ⟨.listener, key, e.id, e.cb, arg⟩)).reverse
            ++ c.trace := by
  have := C04_route_flat b verdict hb c key arg k rest hf hst
  rwa [policyCut_true hc] at this

/-! ### listener management -/

/-- `appendListener(key, cb)` appends to the list of `key` (fresh handle `nextId`, returned) and
    leaves every other event's list unchanged. -/
theorem C04_ops_listen (c : QCfg) (key : Nat) (cb : Cb) :
    (c.apply (.listen key cb)).1.lists key = (c.lists key).append c.nextId cb ∧
    (∀ k, k ≠ key → (c.apply (.listen key cb)).1.lists k = c.lists k) ∧
    (c.apply (.listen key cb)).2 = .handle c.nextId :=
  apply_listen c key cb

/-- `prependListener(key, cb)` -/
theorem C04_ops_listenFront (c : QCfg) (key : Nat) (cb : Cb) :
    (c.apply (.listenFront key cb)).1.lists key = (c.lists key).prepend c.nextId cb ∧
    (∀ k, k ≠ key → (c.apply (.listenFront key cb)).1.lists k = c.lists k) ∧
    (c.apply (.listenFront key cb)).2 = .handle c.nextId :=
  apply_listenFront c key cb

/-- `insertListener(key, cb, before)`, for a handle that is not a listener of another event
    (`foreign`: outside every property, skipped by machine and harness alike) -/
theorem C04_ops_listenBefore (c : QCfg) (key : Nat) (cb : Cb) (h : Hd)
    (hf : c.foreign key h = false) :
    (c.apply (.listenBefore key cb h)).1.lists key = (c.lists key).insert c.nextId cb h ∧
    (∀ k, k ≠ key → (c.apply (.listenBefore key cb h)).1.lists k = c.lists k) ∧
    (c.apply (.listenBefore key cb h)).2 = .handle c.nextId :=
  apply_listenBefore c key cb h hf

/-- `removeListener(key, handle)`: `SList.remove` on the list of `key`; the result is `true` iff the
    handle was in that list; every other event's list is unchanged. -/
theorem C04_ops_unlisten (c : QCfg) (key : Nat) (h : Hd) (hf : c.foreign key h = false) :
    (c.apply (.unlisten key h)).1.lists key = ((c.lists key).remove h).1 ∧
    (∀ k, k ≠ key → (c.apply (.unlisten key h)).1.lists k = c.lists k) ∧
    (c.apply (.unlisten key h)).2 = .bool ((c.lists key).present h) :=
  apply_unlisten c key h hf

/-- `hasAnyListener(key)` changes nothing and reports whether the list of `key` is non-empty -/
theorem C04_ops_hasAny (c : QCfg) (key : Nat) :
    (c.apply (.hasAny key)).1 = c ∧ (c.apply (.hasAny key)).2 = .bool (!(c.lists key).isEmpty) :=
  apply_hasAny c key

/-- every other command executed by `apply` (queue and filter commands) leaves all listener lists
    unchanged -/
theorem C04_ops_other (c : QCfg) (cmd : QCmd)
    (h : ∀ key cb, cmd ≠ .listen key cb) (h2 : ∀ key cb, cmd ≠ .listenFront key cb)
    (h3 : ∀ key cb hd, cmd ≠ .listenBefore key cb hd) (h4 : ∀ key hd, cmd ≠ .unlisten key hd) :
    (c.apply cmd).1.lists = c.lists :=
  apply_lists_other c cmd h h2 h3 h4

/-! ### arbitrary behaviours -/

/-- **C04 (routing, re-entrant).**  Whatever the listeners do (add, remove, dispatch, process, to any
    depth): if continuing the dispatch of `key` records a call, it is a listener call for `key`
    with the dispatch's argument, of an entry of the snapshot whose handle is in `c.lists key` *now*.
    Listeners of other events (their handles are not in `c.lists key`) and removed listeners are
    never called.  (The snapshot entry is identified by its handle; handles identify listeners.) -/
theorem C04_reentrant_route (b : QBeh) (c : QCfg) (key arg : Nat) (snap : List Entry)
    (below : List QFrame) (call : QCall)
    (h : (nextListener b c key arg snap below).trace = .call call :: c.trace) :
    call.kind = .listener ∧ call.key = key ∧ call.arg = arg ∧
    (c.lists key).present call.h = true ∧ (⟨call.h, call.cb⟩ : Entry) ∈ snap := by
  rcases nextListener_trace b c key arg below snap with h' | ⟨e, he, hp, h'⟩
  · rw [h'] at h; exact (cons_ne_self' _ _ h).elim
  · rw [h'] at h
    cases h
    exact ⟨rfl, rfl, rfl, hp, he⟩

/-- … and it is either that call or the end of the dispatch: `nextListener` never records anything
    else. -/
theorem C04_reentrant_route_total (b : QBeh) (c : QCfg) (key arg : Nat) (snap : List Entry)
    (below : List QFrame) :
    (nextListener b c key arg snap below).trace = c.trace ∨
    ∃ e ∈ snap, (c.lists key).present e.id = true ∧
      (nextListener b c key arg snap below).trace = .call ⟨.listener, key, e.id, e.cb, arg⟩ :: c.trace :=
  nextListener_trace b c key arg below snap

/-- **C04 (routing, every step of every run).**  Every listener call recorded by any step of the
    machine, at any nesting depth, is of a handle that is in the list of the call's own event at
    that moment. -/
theorem C04_calls_are_current (b : QBeh) (c c' : QCfg) (hs : step b c = some c') :
    ∃ new, c'.trace = new ++ c.trace ∧
      ∀ call, QEv.call call ∈ new → call.kind = .listener →
        (c.lists call.key).present call.h = true := by
  obtain ⟨new, hn, hc⟩ := step_NC hs
  refine ⟨new, hn, ?_⟩
  intro call hm hk
  have := hc call hm
  unfold CallOK at this
  rw [hk] at this
  exact this

/-! ### non-vacuity -/

namespace C04ex

def seqP : List QCmd → QProg
  | [] => .ret true
  | c :: r => .op c (fun _ => seqP r)

def beh : QBeh where
  run := fun _ _ => .ret true
  rewrite := fun _ a => a

theorem beh_flat : Flat beh (fun _ _ => true) := ⟨fun _ _ _ => rfl, fun _ _ _ => ⟨true, rfl⟩⟩

def calls (tr : List QEv) : List QCall := tr.reverse.filterMap (fun | .call c => some c | _ => none)

def c0 : QCfg :=
  { nkeys := 3, stack := [.prog (seqP [.listen 1 10, .listen 2 20, .listenFront 1 11, .listen 1 12,
                                       .dispatch 1 5, .dispatch 2 6, .dispatch 0 7])] }

/-- event 1 has listeners 11, 10, 12 (in list order), event 2 has listener 20, event 0 none:
    each dispatch reaches exactly its event's listeners, in order, with its argument -/
example : calls (runN beh 40 c0).1.trace =
    [⟨.listener, 1, 2, 11, 5⟩, ⟨.listener, 1, 0, 10, 5⟩, ⟨.listener, 1, 3, 12, 5⟩,
     ⟨.listener, 2, 1, 20, 6⟩] ∧ (runN beh 40 c0).2 = true := by
  decide +kernel

/-- the hypotheses of `C04_route_flat` hold at step 4 of this run -/
example : ∃ k rest, (runN beh 4 c0).1.stack = .prog (.op (.dispatch 1 5) k) :: rest ∧
    (runN beh 4 c0).1.filters = [] ∧ (runN beh 4 c0).1.lists 1 = [⟨2, 11⟩, ⟨0, 10⟩, ⟨3, 12⟩] :=
  ⟨_, _, rfl, rfl, by decide +kernel⟩

/-- a listener that removes the next listener of its own event and adds one to another event while
    being dispatched: the removed one is not called, the other event's listener is not called by
    this dispatch (re-entrant routing) -/
def beh2 : QBeh where
  run := fun call nth =>
    if call.cb = 10 ∧ nth = 0 then .op (.unlisten 1 1) (fun _ => .op (.listen 2 30) (fun _ => .ret true))
    else .ret true
  rewrite := fun _ a => a

example : calls (runN beh2 40
      { nkeys := 3, stack := [.prog (seqP [.listen 1 10, .listen 1 11, .listen 1 12,
                                           .dispatch 1 5, .dispatch 2 6])] }).1.trace =
    [⟨.listener, 1, 0, 10, 5⟩, ⟨.listener, 1, 2, 12, 5⟩, ⟨.listener, 2, 3, 30, 6⟩] := by
  decide +kernel

end C04ex
end Evp.Q
