import EventppVerif.Q.Machine
