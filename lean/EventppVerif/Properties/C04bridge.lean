import EventppVerif.Generated.DispatchFrag
/-
  Property C04, bridge to the source for the `getEvent` policy.

  "dispatch … invokes exactly the listeners currently registered for the event that the getEvent
  policy (by default the first argument) yields from the call's own arguments".

  In the machine (Q/Machine.lean) `dispatch key arg` / `enqueue key arg` take the event `key` that
  the policy yielded.  In the source the policy in force at a call site is chosen by
      SelectGetEvent<Policies_, EventType_, HasFunctionGetEvent<Policies_, X...>::value>::Type
  which silently falls back to "the first argument is the event" when the user's policy is not
  callable with the argument list `X...` the probe was instantiated with.  The user's policy is
  therefore applied to the call's own arguments only if `X...` is the argument list of the call.
  `getEventSites` is regenerated from the four headers on every run: one row per
  `GetEvent::getEvent(…)` call with the probe of the alias in scope.  (`selected`, the small model
  of that selection, is below; the harness variants with a user getEvent policy — VH_GETEVENT —
  exercise the same sites on the real code.)
-/
namespace Evp.C04Bridge
open Evp.Gen.Dispatch

/-- which policy a call site uses: the user's if the probe instantiated with `probe` finds it
    callable, the default (first argument) otherwise -/
def selected (userCallableWith : String → Bool) (probe : String) : String :=
  if userCallableWith probe then "user" else "default"

/-- **C04 (bridge).**  Every call of the getEvent policy is selected by a probe instantiated with the
    call's own argument list. -/
theorem C04_bridge_getevent_probe : ∀ s ∈ getEventSites, s.2.1 = s.2.2 := by decide

/-- hence: a user policy that is callable with the arguments of a call is the policy that call uses,
    at every site -/
theorem C04_getevent_selected (userCallableWith : String → Bool) :
    ∀ s ∈ getEventSites, userCallableWith s.2.2 = true → selected userCallableWith s.2.1 = "user" := by
  intro s hs hc
  have := C04_bridge_getevent_probe s hs
  simp [selected, this, hc]

/-- all eight sites are present (two per header) -/
theorem C04_bridge_sites : getEventSites.length = 8 := by decide

end Evp.C04Bridge
