import EventppVerif.Q.Demo
/-
  Property C05 — every enqueued event is processed exactly once, with its arguments, in order.

  Model: Q/Machine.lean.  Every event gets a ghost sequence number at `enqueue`
  (`seq = nextSeq`); the trace records `consumed seq how` when the event leaves for good
  (0 = its dispatch by a processing call has ended, 1 = `takeEvent`, 2 = `clearEvents`).

  All theorems quantify over every behaviour `b` of listeners, filters and predicates (arbitrary
  programs that may enqueue, process, take, clear … re-entrantly to any depth), every program and
  every reachable configuration (`Reachable`, Q/Inv.lean; by `C05_reachable_runN` these are the
  configurations `runN` produces from an initial one).  `C05_exactly_once`, `C05_args_intact` and
  `C05_results` hold for every ordering policy, `C05_fifo` is about the `std::list` policy
  (`ordered = none`).
  Proofs: Q/InvView.lean (abstract transitions), Q/InvProofs.lean (the machine), Q/InvCor.lean.
-/
namespace Evp.Q
open Evp

theorem C05_reachable_runN (b : QBeh) (n : Nat) (c0 : QCfg) (h0 : Init c0) :
    Reachable b (QCfg.runN b n c0).1 := (Reachable.init h0).runN n

/-! ### exactly once -/

/-- **C05 (exactly once).** In every reachable configuration the sequence numbers of the events
    pending in the queue, of the events held by running processing calls and of the consumed
    events are, together, a permutation of `0 … nextSeq-1`: every event ever enqueued is either
    still pending, or held by exactly one running processing call, or was consumed exactly once
    (dispatched by exactly one processing call, or taken by one `takeEvent`, or discarded by one
    `clearEvents`) — never lost, never processed twice, whatever the callbacks do. -/
theorem C05_exactly_once (b : QBeh) (c : QCfg) (h : Reachable b c) :
    (seqsOf c.queue ++ seqsOf c.inflight ++ consumedSeqs c.trace).Perm (List.range c.nextSeq) :=
  h.once_perm

/-- In particular there are no duplicates … -/
theorem C05_no_duplicates (b : QBeh) (c : QCfg) (h : Reachable b c) :
    (seqsOf c.queue ++ seqsOf c.inflight ++ consumedSeqs c.trace).Nodup :=
  h.once_nodup

/-- … an event that is still stored has not been consumed (a dispatch is recorded when it has
    ended, at the moment `endDispatch` clears the slot) … -/
theorem C05_stored_not_consumed (b : QBeh) (c : QCfg) (h : Reachable b c) (s : Slot) (e : QEvent)
    (hs : s ∈ c.queue ++ c.inflight) (he : s.ev = some e) : e.seq ∉ consumedSeqs c.trace :=
  h.not_consumed_while_stored hs he

/-- … and when the program has ended, or whenever `emptyQueue` answers `true`, every event ever
    enqueued has been consumed exactly once (see also `C11_empty_means_consumed`). -/
theorem C05_all_consumed (b : QBeh) (c : QCfg) (h : Reachable b c) (he : c.emptyQueue = true) :
    (consumedSeqs c.trace).Perm (List.range c.nextSeq) :=
  (h.empty_consumed he).2.2.2

/-- The same for `runN`. -/
theorem C05_exactly_once_runN (b : QBeh) (n : Nat) (c0 : QCfg) (h0 : Init c0) :
    let c := (QCfg.runN b n c0).1
    (seqsOf c.queue ++ seqsOf c.inflight ++ consumedSeqs c.trace).Perm (List.range c.nextSeq) :=
  ((Reachable.init h0).runN (b := b) n).once_perm

/-! ### arguments intact -/

/-- **C05 (arguments intact), static part.** Every occupied slot anywhere holds an event enqueued
    earlier (`seq < nextSeq`), and no two slots hold events with the same sequence number: a stored
    event is identified by its sequence number. -/
theorem C05_args_intact (b : QBeh) (c : QCfg) (h : Reachable b c) :
    (∀ s ∈ c.queue ++ c.inflight, ∀ e, s.ev = some e → e.seq < c.nextSeq) ∧
    (c.queue ++ c.inflight).Pairwise
      (fun s t => ∀ e1 e2, s.ev = some e1 → t.ev = some e2 → e1.seq ≠ e2.seq) :=
  ⟨fun _ hs _ he => h.seq_lt hs he, h.seq_unique⟩

/-- **C05 (arguments intact), dynamic part.** A step never alters a stored event: every event
    stored after a step whose sequence number existed before the step was stored before the step
    with the same key and the same argument (events are compared as triples `seq, key, arg`).
    Together with `C05_args_intact`: from `enqueue` until it is consumed, the event with a given
    sequence number keeps its key and argument, however often its slot is spliced between lists. -/
theorem C05_args_intact_step (b : QBeh) (c c' : QCfg) (h : Reachable b c)
    (hs : QCfg.step b c = some c') (s' : Slot) (e : QEvent)
    (hm : s' ∈ c'.queue ++ c'.inflight) (he : s'.ev = some e) (hlt : e.seq < c.nextSeq) :
    ∃ s ∈ c.queue ++ c.inflight, s.ev = some e :=
  h.args_intact_step hs hm he hlt

/-- The dispatch of a queued event runs the filters and listeners of exactly its key with exactly
    its argument (`process`, `processOne`; also after the predicate accepted, see `QCfg.step`). -/
theorem C05_dispatch_args (b : QBeh) (c : QCfg) (mode : PMode) (s : Slot)
    (rest kept idle : List Slot) (below : List QFrame) (e : QEvent) (he : s.ev = some e)
    (hm : mode.hasPred = false) :
    QCfg.procNext b c mode (s :: rest) kept idle below =
      QCfg.nextFilter b c e.key e.arg c.filters (.proc mode (s :: rest) kept idle .disp :: below) :=
  procNext_dispatch b c mode s rest kept idle below e he hm

/-- The predicate of `processIf`/`processUntil` is called with exactly the event's key and
    argument. -/
theorem C05_pred_args (b : QBeh) (c : QCfg) (mode : PMode) (p : Cb) (s : Slot)
    (rest kept idle : List Slot) (below : List QFrame) (e : QEvent) (he : s.ev = some e)
    (hm : mode = .ifp p ∨ mode = .untilp p) :
    QCfg.procNext b c mode (s :: rest) kept idle below =
      { c with
        trace := .call ⟨.pred, e.key, 0, p, e.arg⟩ :: c.trace
        stack := .prog (QCfg.callProg b c ⟨.pred, e.key, 0, p, e.arg⟩) ::
                 .proc mode (s :: rest) kept idle .pred :: below } :=
  procNext_pred b c mode p s rest kept idle below e he hm

/-! ### FIFO -/

/-- **C05 (FIFO), `std::list` policy.** Take the running processing calls from the outermost to
    the innermost, of each the declined events followed by the events not yet examined
    (`pendS c.stack`), then the queue: the sequence numbers are strictly increasing (and below
    `nextSeq`). -/
theorem C05_fifo (b : QBeh) (c : QCfg) (h : Reachable b c) (ho : c.ordered = none) :
    (seqsOf (pendS c.stack ++ c.queue)).Pairwise (· < ·) ∧
    ∀ n ∈ seqsOf (pendS c.stack ++ c.queue), n < c.nextSeq :=
  ⟨h.fifo ho, h.fifo_lt⟩

/-- The pending queue is always in enqueue order. -/
theorem C05_queue_in_order (b : QBeh) (c : QCfg) (h : Reachable b c) (ho : c.ordered = none) :
    (seqsOf c.queue).Pairwise (· < ·) :=
  h.queue_sorted ho

/-- For every running processing call: the events the predicate declined, then the events still
    to be examined, then everything in the queue (in particular everything enqueued since the call
    started) are in enqueue order.  So a processing call dispatches the events it took in enqueue
    order (it always dispatches the head of `todo`), and the declined events, which `finishProc`
    puts back as `kept ++ queue`, stay ahead of newer events in their original order. -/
theorem C05_frame_in_order (b : QBeh) (c : QCfg) (h : Reachable b c) (ho : c.ordered = none)
    (mode : PMode) (todo kept idle : List Slot) (ph : Phase)
    (hm : QFrame.proc mode todo kept idle ph ∈ c.stack) :
    (seqsOf (kept ++ todo ++ c.queue)).Pairwise (· < ·) :=
  h.frame_sorted ho hm

/-- Events enqueued while a processing call runs are not dispatched by it: an `enqueue` issued
    anywhere (e.g. by a listener) appends the new event, with the next sequence number, to `queue`
    and leaves the slot lists of all running processing calls as they are; a processing call only
    ever dispatches from its own `todo` (`QCfg.endDispatch`, `QCfg.procNext`). -/
theorem C05_enqueue_goes_to_queue (b : QBeh) (c : QCfg) (key arg : Nat) (k : QRes → QProg)
    (rest : List QFrame) (hst : c.stack = .prog (.op (.enqueue key arg) k) :: rest) :
    ∃ c', QCfg.step b c = some c' ∧ c'.inflight = c.inflight ∧ c'.nextSeq = c.nextSeq + 1 ∧
      pendS c'.stack = pendS c.stack ∧
      ∃ s, s.ev = some ⟨c.nextSeq, key, arg⟩ ∧ c'.queue = QCfg.settle c.ordered (c.queue ++ [s]) :=
  step_enqueue b c key arg k rest hst

/-! ### results -/

/-- **C05 (results).**
    1. A processing call on an empty queue delivers `false` and touches nothing.
    2. On a non-empty queue it takes the whole queue (`processOne`: the first event) into a new
       frame above the suspended caller and starts examining it.
    3. When it ends it delivers `procResult mode idle`: `true` for `process`/`processOne`,
       "`idle` is non-empty" for `processIf`/`processUntil`; the declined slots go back in front
       of the queue, the idle ones to the free list, the guard is dropped.
    4. `idle` is exactly the list of slots whose dispatch by this call has ended: by
       `C05_step_views` every machine step acts on the slot lists as a sequence of the transitions
       `VStep` (Q/Inv.lean), of which `start` creates a frame with `idle = []`, `clearHead` (the end
       of a dispatch) appends one slot to `idle`, `decline` and all others leave it alone.
    5. `peek`/`take` return the key and argument of the queue head iff the queue is non-empty
       (`C05_peek_take`). -/
theorem C05_results (b : QBeh) (c : QCfg) (mode : PMode) (k : QRes → QProg) (rest : List QFrame) :
    (c.queue = [] → QCfg.startProc b c mode k rest =
      { c with stack := .prog (k (.bool false)) :: rest, trace := .res (.bool false) :: c.trace }) ∧
    (c.queue ≠ [] → QCfg.startProc b c .one k rest =
      QCfg.procNext b { c with queue := c.queue.drop 1, ec := c.ec + 1 } .one (c.queue.take 1) [] []
        (.wait k :: rest)) ∧
    (c.queue ≠ [] → mode ≠ .one → QCfg.startProc b c mode k rest =
      QCfg.procNext b { c with queue := [], ec := c.ec + 1 } mode c.queue [] [] (.wait k :: rest)) ∧
    (∀ kept idle, QCfg.finishProc c mode kept idle (.wait k :: rest) =
      { c with
        queue := putBack c.ordered kept c.queue
        free := recycle c.ordered c.free idle
        ec := c.ec - 1
        stack := .prog (k (.bool (procResult mode idle))) :: rest
        trace := .res (.bool (procResult mode idle)) :: c.trace }) ∧
    (∀ idle, procResult .all idle = true ∧ procResult .one idle = true) ∧
    (∀ p idle, procResult (.ifp p) idle = !idle.isEmpty ∧ procResult (.untilp p) idle = !idle.isEmpty) :=
  ⟨startProc_empty b c mode k rest, startProc_one b c k rest, startProc_whole b c mode k rest,
   fun kept idle => finishProc_wait c mode kept idle k rest, fun _ => ⟨rfl, rfl⟩, fun _ _ => ⟨rfl, rfl⟩⟩

/-- Every step of a reachable configuration acts on the slot lists, the guard, the counters and
    the consumed events as a finite sequence of the abstract transitions `VStep`. -/
theorem C05_step_views (b : QBeh) (c c' : QCfg) (h : Reachable b c) (hs : QCfg.step b c = some c') :
    VSteps (view c) (view c') :=
  h.step_views hs

/-- `peekEvent`/`takeEvent` report `false` iff the queue is empty; otherwise they return the key and
    argument of the queue head, and `takeEvent` removes it and consumes it. -/
theorem C05_peek_take (b : QBeh) (c : QCfg) (h : Reachable b c) :
    (c.queue = [] → c.apply .peek = (c, .bool false) ∧ c.apply .take = (c, .bool false)) ∧
    (∀ s r, c.queue = s :: r → ∃ e, s.ev = some e ∧
      c.apply .peek = (c, .ev e.key e.arg) ∧
      (c.apply .take).2 = .ev e.key e.arg ∧ (c.apply .take).1.queue = r ∧
      (c.apply .take).1.trace = .consumed e.seq 1 :: c.trace) := by
  refine ⟨fun hq => ⟨h.peek_result.1 hq, h.take_result.1 hq⟩, ?_⟩
  intro s r hq
  obtain ⟨e, he, hp⟩ := h.peek_result.2 s r hq
  obtain ⟨e', he', ht⟩ := h.take_result.2 s r hq
  cases he.symm.trans he'
  exact ⟨e, he, hp, ht⟩

/-! ### non-vacuity

`Demo.main`: `listen 0 1; enqueue 0 10; enqueue 0 11; enqueue 0 12; processIf 7; process; emptyq`
where listener 1 enqueues (0, 99) on its first call and predicate 7 declines argument 11. -/

example : Reachable Demo.beh (Demo.at_ 10) := Demo.at_reachable 10

/-- step 10: `processIf` has dispatched event 0 (whose listener enqueued event 3), has declined
    event 1 and is asking the predicate about event 2 -/
example : seqsOf (Demo.at_ 10).queue = [3] ∧ seqsOf (pendS (Demo.at_ 10).stack) = [1, 2] ∧
    consumedSeqs (Demo.at_ 10).trace = [0] ∧ (Demo.at_ 10).nextSeq = 4 := by decide +kernel

/-- step 13, after `processIf` (which delivered `true`): the declined event 1 is ahead of the
    newer event 3, with their arguments; events 0 and 2 were dispatched -/
example : (Demo.at_ 13).queue = [⟨1, some ⟨1, 0, 11⟩⟩, ⟨3, some ⟨3, 0, 99⟩⟩] ∧
    consumedSeqs (Demo.at_ 13).trace = [2, 0] ∧
    (Demo.at_ 13).trace.head? = some (.res (.bool true)) := by decide +kernel

/-- the run ends after 20 steps; every event was dispatched exactly once (trace newest first),
    the listener saw the arguments 10, 12, 11, 99 in this order -/
example : (QCfg.runN Demo.beh 20 Demo.c0).2 = true ∧
    consumedSeqs (Demo.at_ 20).trace = [3, 1, 2, 0] ∧
    ((Demo.at_ 20).trace.filterMap (fun ev => match ev with
      | .call ⟨.listener, _, _, _, a⟩ => some a | _ => none)) = [99, 11, 12, 10] := by decide +kernel

end Evp.Q
