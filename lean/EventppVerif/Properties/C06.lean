/-
  Property C06 — "Concurrent producers and consumers never lose or duplicate an event".

  "For any interleaving of threads that enqueue and threads that call process, processOne,
   processIf, processUntil, takeEvent, peekEvent or clearEvents on one queue, no event is dispatched
   or taken more than once and none disappears: once the producers are done and the queue has been
   drained, the events dispatched, taken and cleared are together exactly the events enqueued, each
   with its payload intact.  Events enqueued by one thread and consumed by one thread are consumed
   in the order they were enqueued, and no call deadlocks."

  Model: Conc/Queue.lean — any number of threads, each running an arbitrary list of calls, one
  micro-step per unprotected shared access; events are ghost ids (the id stands for the payload: the
  model never copies or rebuilds an event, it only moves ids between `queue`, the local lists of a
  processing call and `consumed`).

  Every theorem quantifies over EVERY family of programs `progs` (any number of threads), both
  values of the `dqnLocked` flag and EVERY schedule (`ReachF progs flag s`; `Reach = ReachF · true`).
  Proofs: invariants preserved by every `step` — Conc/QueueInv.lean (frame lemmas, `step_cases`),
  Conc/QueueInvA.lean (`ConsInv`, `EnqInv`, `GuardInv`, `MutexInv`), Conc/QueueInvB.lean
  (`NoIfInv`, `QRange`, `OrderInv`), Conc/QueueInvC.lean (`ScThInv`, `ScOrder`, `KeptInv`: single
  consumer with `processUntil`), Conc/QueueProgress.lean (enabledness).

  `processUntil` (modes 4/5 of the processing pcs: pre-check, `++ec`, swap everything out, dispatch
  the events in front of the first one the predicate stops at, put that one and everything behind it
  back IN FRONT of the queue, notify, `--ec`) is part of the model: conservation, exactly-once,
  nothing-lost, drained, mutex and progress (sections 1, 2, 4) hold for every family of programs,
  with or without it.  Order (section 3): `C06_order` is the statement for ANY number of concurrent
  consumers and needs programs without put-back (`NoIf`: neither `processIf` nor `processUntil`);
  `C06_order_single_consumer` (3b) is the statement for programs WITH `processUntil` and one consuming
  thread — with two consumers it is false for the code itself
  (`C06_processUntil_two_consumers_out_of_order`).  `C06_processUntil_putback_front` (3c) is the put-back
  itself: whatever the other threads do between the stop and the put-back, the undispatched events
  return to the front of the queue in their original order, ahead of everything spliced in meanwhile.
-/
import EventppVerif.Conc.QueueInvC
import EventppVerif.Conc.QueueProgress

namespace Evp.Conc
open List

section
variable {progs : List (List Call)} {flag : Bool} {s : State}

/-! ### 1. conservation -/

/-- **C06 (conservation).** In every reachable state the pending events, the events held locally by
    running processing calls and the consumed events are together exactly the ids handed out so
    far, each once; and ids are handed out in splice-in order. -/
theorem C06_conservation (h : ReachF progs flag s) :
    (s.queue ++ inflight s ++ consumedIds s).Perm (List.range s.nextEv) ∧
    enqueuedIds s = List.range s.nextEv := by
  refine ⟨?_, h.enq⟩
  rw [List.perm_iff_count]
  intro a
  have := h.cons a
  simp only [List.count_append, count_range, inflight, consumedIds]
  omega

/-- the same for `Reach` (the repaired code, `dqnLocked = true`) -/
theorem C06_conservation_reach (h : Reach progs s) :
    (s.queue ++ inflight s ++ consumedIds s).Perm (List.range s.nextEv) ∧
    enqueuedIds s = List.range s.nextEv :=
  C06_conservation h.reachF

/-- **C06 (no duplication).** No id occurs twice among pending, in-flight and consumed events. -/
theorem C06_no_dup (h : ReachF progs flag s) : (s.queue ++ inflight s ++ consumedIds s).Nodup :=
  (C06_conservation h).1.nodup_iff.mpr List.nodup_range

/-- no event is dispatched, taken or cleared more than once -/
theorem C06_consumed_once (h : ReachF progs flag s) : (consumedIds s).Nodup :=
  (List.nodup_append.mp (C06_no_dup h)).2.1

/-- no event is both consumed and still pending (in the queue or in a processing call's lists),
    and no event is both in the queue and in a processing call's lists -/
theorem C06_pending_not_consumed (h : ReachF progs flag s) :
    (∀ e ∈ s.queue, e ∉ consumedIds s) ∧ (∀ e ∈ inflight s, e ∉ consumedIds s) ∧
    (∀ e ∈ s.queue, e ∉ inflight s) := by
  have h1 := List.nodup_append.mp (C06_no_dup h)
  have h2 := List.nodup_append.mp h1.1
  refine ⟨fun e he hc => h1.2.2 e (List.mem_append_left _ he) e hc rfl,
    fun e he hc => h1.2.2 e (List.mem_append_right _ he) e hc rfl,
    fun e he hi => h2.2.2 e he e hi rfl⟩

/-- **C06 (nothing disappears).** Every event ever enqueued is pending, in flight, or consumed. -/
theorem C06_none_lost (h : ReachF progs flag s) :
    ∀ e ∈ enqueuedIds s, e ∈ s.queue ∨ e ∈ inflight s ∨ e ∈ consumedIds s := by
  intro e he
  rw [(C06_conservation h).2] at he
  have := (C06_conservation h).1.mem_iff.mpr he
  simp only [List.mem_append] at this
  rcases this with (h1 | h1) | h1
  · exact Or.inl h1
  · exact Or.inr (Or.inl h1)
  · exact Or.inr (Or.inr h1)

/-- and everything consumed was enqueued -/
theorem C06_consumed_was_enqueued (h : ReachF progs flag s) : ∀ e ∈ consumedIds s, e ∈ enqueuedIds s := by
  intro e he
  rw [(C06_conservation h).2]
  exact (C06_conservation h).1.mem_iff.mp (List.mem_append_right _ he)

/-! ### 2. drained -/

theorem inflightL_of_idle : ∀ (l : List Thread), (∀ th ∈ l, finished th = true) → inflightL l = []
  | [], _ => rfl
  | th :: r, h => by
    have h1 : finished th = true := h th (List.mem_cons_self ..)
    have h2 : th.pc = .idle := by
      simp only [finished, Bool.and_eq_true, beq_iff_eq] at h1; exact h1.2
    have ih := inflightL_of_idle r (fun x hx => h x (List.mem_cons_of_mem _ hx))
    simp only [inflightL, List.flatMap_cons] at ih ⊢
    rw [ih, h2]; rfl

/-- **C06 (drained).** Once every thread has finished its program and the queue is empty, the
    events dispatched, taken and cleared are together exactly the events enqueued. -/
theorem C06_drained (h : ReachF progs flag s) (hfin : ∀ th ∈ s.threads, finished th = true)
    (hq : s.queue = []) : (consumedIds s).Perm (enqueuedIds s) := by
  obtain ⟨h1, h2⟩ := C06_conservation h
  have hi : inflight s = [] := inflightL_of_idle s.threads hfin
  rw [hq, hi] at h1
  rw [h2]
  simpa using h1

/-! ### 3. order -/

/-- ids of the events spliced in by ONE producer `p` are increasing in splice-in order (ids are
    handed out in splice-in order), for every family of programs -/
theorem C06_order_producer (h : ReachF progs flag s) (p : Tid) :
    ((s.enqueued.filter (·.2 == p)).map (·.1)).Pairwise (· < ·) := by
  have h1 : (s.enqueued.map (·.1)).Pairwise (· < ·) := by
    rw [show s.enqueued.map (·.1) = List.range s.nextEv from h.enq]; exact List.pairwise_lt_range
  exact List.Pairwise.sublist (List.Sublist.map _ List.filter_sublist) h1

/-- **C06 (order).** Without `processIf` and without `processUntil` (`NoIf`; non-selective consumers:
    nothing is put back — before `processUntil` was modelled `NoIf` only had `processIf` to exclude;
    for programs with `processUntil` see `C06_order_single_consumer`):
    * the queue is strictly increasing, and everything that has left it (in flight or consumed) is
      smaller than everything still in it;
    * each thread's local list is strictly increasing, smaller than the whole queue and larger than
      everything that thread consumed before;
    * the events consumed by any ONE thread `t` appear in `consumed` in increasing id order.
    Since ids are handed out in splice-in order (`C06_conservation`, `C06_order_producer`), the last
    item says: the events consumed by one thread are consumed in the order they were enqueued — in
    particular those of any single producer.  This holds for EVERY thread, also when several
    threads consume concurrently (no "only consumer" hypothesis is needed). -/
theorem C06_order (hno : NoIf progs) (h : ReachF progs flag s) :
    s.queue.Pairwise (· < ·) ∧
    (∀ x, x ∈ inflight s ∨ x ∈ consumedIds s → ∀ y ∈ s.queue, x < y) ∧
    (∀ u thu, getT s u = some thu →
      (inflightOf thu.pc).Pairwise (· < ·) ∧
      (∀ x ∈ inflightOf thu.pc, ∀ y ∈ s.queue, x < y) ∧
      (∀ x ∈ (s.consumed.filter (·.2.2 == u)).map (·.1), ∀ y ∈ inflightOf thu.pc, x < y)) ∧
    (∀ t, ((s.consumed.filter (·.2.2 == t)).map (·.1)).Pairwise (· < ·)) := by
  have ha := h.noIfAll hno
  refine ⟨ha.qrange.pairwise, fun x hx => lt_queue_of ha.cons ha.qrange hx, ?_, fun t => (ha.order t).1⟩
  intro u thu hu
  have h1 := (ha.order u).2 thu hu
  exact ⟨h1.1, fun x hx => lt_queue_of ha.cons ha.qrange (Or.inl (mem_inflightL hu x hx)), h1.2⟩

/-- the consumer half of `C06_order` on its own -/
theorem C06_order_consumer (hno : NoIf progs) (h : ReachF progs flag s) (t : Tid) :
    ((s.consumed.filter (·.2.2 == t)).map (·.1)).Pairwise (· < ·) :=
  (C06_order hno h).2.2.2 t


/-! ### 3b. order with `processUntil`: one consumer -/

/-- **C06 (order, single consumer, `processUntil` allowed).** Thread `c` is the only thread that
    removes events (`process`, `processOne`, `processUntil`, `takeEvent`, `clearEvents` — no
    `processIf`); any number of other threads enqueue, peek, call `emptyQueue`, wait, use
    DisableQueueNotify.  Then in every reachable state
    * every consumed event was consumed by `c`;
    * the consumed ids in consumption order, followed by `c`'s local list, followed by the queue, form
      ONE strictly increasing list.
    Since ids are handed out in splice-in order (`C06_conservation`) this says: the events are
    dispatched / taken / cleared in exactly the order they were enqueued — in particular those of
    each single producer (`C06_order_producer`) —, what `c` holds locally is older than everything
    in the queue, and `processUntil`'s put-back re-establishes the enqueue order of the queue. -/
theorem C06_order_single_consumer {c : Tid} (hsc : SingleConsumer progs c) (h : ReachF progs flag s) :
    (∀ x ∈ s.consumed, x.2.2 = c) ∧
    (consumedIds s ++ s.queue).Pairwise (· < ·) ∧
    (∀ thc, getT s c = some thc → (consumedIds s ++ inflightOf thc.pc ++ s.queue).Pairwise (· < ·)) :=
  (h.scAll hsc).order

/-- … in particular the whole consumption sequence is in enqueue order, and the queue is in enqueue
    order and entirely younger than everything consumed -/
theorem C06_order_single_consumer_consumed {c : Tid} (hsc : SingleConsumer progs c) (h : ReachF progs flag s) :
    (consumedIds s).Pairwise (· < ·) ∧ s.queue.Pairwise (· < ·) ∧
    (∀ x ∈ consumedIds s, ∀ y ∈ s.queue, x < y) ∧
    ∀ t, ((s.consumed.filter (·.2.2 == t)).map (·.1)).Pairwise (· < ·) := by
  have h1 := List.pairwise_append.mp (C06_order_single_consumer hsc h).2.1
  refine ⟨h1.1, h1.2.1, h1.2.2, fun t => ?_⟩
  exact List.Pairwise.sublist (List.Sublist.map _ List.filter_sublist) h1.1

/-! ### 3c. the put-back of `processUntil` -/

/-- In every family of programs the `kept` list of a processing call that is not a `processIf`
    (modes 0, 1, 4, 5) is empty: `processUntil` never declines an event and carries on, it stops. -/
theorem C06_processUntil_kept_nil (h : ReachF progs flag s) {t : Tid} {th : Thread} {m : Nat}
    {todo kept : List Nat} {any : Bool} (ht : getT s t = some th) (hpc : th.pc = .procLoop m todo kept any)
    (hm : m ≠ 2 ∧ m ≠ 3) : kept = [] := by
  have := h.kept t th ht
  rw [hpc] at this
  exact this hm

/-- **C06 (`processUntil` puts back in front).** For EVERY family of programs: thread `t` is inside a
    `processUntil` (mode 4 / 5) whose predicate says stop at the head `e` of what is left of the events
    it swapped out (`e :: r`, a suffix of the queue as it was at the swap).  Then
    * its next micro-step (the predicate call) consumes nothing and leaves the queue alone;
    * however the OTHER threads are scheduled after that (`others`: any schedule without steps of
      `t` — enqueues, other consumers, anything), `t` still holds exactly `e :: r`;
    * and whenever `queueListMutex` is free, `t`'s put-back step is enabled and yields
      `queue = e :: r ++ (the queue at that moment)`: the events `processUntil` did not consume return
      to the FRONT of the queue, in their original order, ahead of everything spliced in meanwhile;
      nothing is consumed by that step and `t` holds no event afterwards. -/
theorem C06_processUntil_putback_front (h : ReachF progs flag s) {t : Tid} {th : Thread} {m e : Nat}
    {r kept : List Nat} {any : Bool} (ht : getT s t = some th)
    (hpc : th.pc = .procLoop m (e :: r) kept any) (hm : m = 4 ∨ m = 5) (hstop : stopPred m e = true) :
    ∃ s1, (∀ ch, step s t ch = some s1) ∧ s1.queue = s.queue ∧ s1.consumed = s.consumed ∧
      ∀ others : List (Tid × Nat), (∀ x ∈ others, x.1 ≠ t) →
        getT (exec s1 others) t = some { th with pc := .procPutBack (e :: r) any } ∧
        ((exec s1 others).qm = none → ∀ ch, ∃ s3, step (exec s1 others) t ch = some s3 ∧
          s3.queue = e :: r ++ (exec s1 others).queue ∧ s3.consumed = (exec s1 others).consumed ∧
          ∃ th3, getT s3 t = some th3 ∧ inflightOf th3.pc = []) := by
  have hk : kept = [] := C06_processUntil_kept_nil h ht hpc (by omega)
  subst hk
  refine ⟨goto s t th (.procPutBack (e :: r) any), fun ch => by simp [step, ht, hpc, hstop], rfl, rfl, ?_⟩
  intro others hne
  have hg1 : (goto s t th (.procPutBack (e :: r) any)).threads[t]? =
      some { th with pc := .procPutBack (e :: r) any } := by
    rw [goto_eq, setT_threads]; exact set_self ht _
  have hg2 := exec_others_thread (th := { th with pc := .procPutBack (e :: r) any })
    (by intro timed hh; cases hh) others _ hne hg1
  refine ⟨hg2, fun hq ch => ?_⟩
  generalize exec (goto s t th (.procPutBack (e :: r) any)) others = s2 at hg2 hq
  refine ⟨goto { s2 with queue := (e :: r) ++ s2.queue } t { th with pc := .procPutBack (e :: r) any }
    (.procPbReadNc any), ?_, rfl, rfl,
    { th with pc := .procPbReadNc any }, ?_, rfl⟩
  · simp [step, getT, hg2, hq]
  · rw [goto_eq, getT, setT_threads]; exact set_self hg2 _

/-! ### 4. the mutex; no deadlock -/

/-- **C06 (mutex).** `queueListMutex` is held across micro-steps exactly by a waiter that is
    evaluating its predicate (`waitRead1/2/3`, `waitPark`: see `holdsM_iff`). -/
theorem C06_mutex (h : ReachF progs flag s) (t : Tid) :
    s.qm = some t ↔ ∃ th, getT s t = some th ∧ holdsM th.pc = true := by
  have hm := h.mutex
  constructor
  · intro hq
    have hlt := hm.2 t hq
    refine ⟨s.threads[t], List.getElem?_eq_getElem hlt, ?_⟩
    exact (hm.1 t _ (List.getElem?_eq_getElem hlt)).mpr hq
  · rintro ⟨th, hg, hh⟩
    exact (hm.1 t th hg).mp hh

/-- at most one thread is in such a state -/
theorem C06_mutex_unique (h : ReachF progs flag s) {t u : Tid} {th thu : Thread}
    (ht : getT s t = some th) (hu : getT s u = some thu)
    (h1 : holdsM th.pc = true) (h2 : holdsM thu.pc = true) : t = u := by
  have a := (h.mutex.1 t th ht).mp h1
  have b := (h.mutex.1 u thu hu).mp h2
  rw [a] at b; exact Option.some.inj b

/-- **C06 (progress, per thread).** Every thread that has not finished its program can take a
    micro-step, or it is waiting for `queueListMutex`, whose holder is another thread that can take
    a micro-step (the holder is always a waiter evaluating its predicate: it never blocks). -/
theorem C06_progress_thread (h : ReachF progs flag s) {u : Tid} {thu : Thread}
    (hu : getT s u = some thu) (hf : finished thu = false) :
    (step s u 0).isSome = true ∨
    ∃ hd thd, s.qm = some hd ∧ hd ≠ u ∧ getT s hd = some thd ∧ isParked thd = false ∧
      (step s hd 0).isSome = true := by
  cases hq : s.qm with
  | none => exact Or.inl (step_isSome_of_free hu hf hq)
  | some hd =>
    obtain ⟨thd, hg, hh⟩ := (C06_mutex h hd).mp hq
    by_cases hdu : hd = u
    · subst hdu; exact Or.inl (step_isSome_of_holder hg hh)
    · exact Or.inr ⟨hd, thd, rfl, hdu, hg, holdsM_not_parked hh, step_isSome_of_holder hg hh⟩

/-- **C06 (no deadlock).** In every reachable state, if some thread is neither finished nor parked
    in `wait`, then some thread that is not parked can take a micro-step (so the witness is a real
    step, not the spurious wake-up of a parked waiter). -/
theorem C06_progress (h : ReachF progs flag s)
    (hex : ∃ u thu, getT s u = some thu ∧ finished thu = false ∧ isParked thu = false) :
    ∃ t th ch, getT s t = some th ∧ isParked th = false ∧ (step s t ch).isSome = true := by
  obtain ⟨u, thu, hu, hf, hp⟩ := hex
  rcases C06_progress_thread h hu hf with h1 | ⟨hd, thd, _, _, hg, hp', h1⟩
  · exact ⟨u, thu, 0, hu, hp, h1⟩
  · exact ⟨hd, thd, 0, hg, hp', h1⟩

/-- a parked waiter is blocked only until a notification, its time-out or a spurious wake-up: the
    spurious wake-up step is always available -/
theorem C06_parked_can_wake {u : Tid} {thu : Thread} (hu : getT s u = some thu) (hp : isParked thu = true) :
    (step s u 0).isSome = true :=
  step_isSome_of_parked hu hp

end

/-! ### 5. non-vacuity

Three threads: a producer (three `enqueue`s), a `processOne` consumer that later calls `clearEvents`,
and a `processIf` consumer (declines odd ids and puts them back) that later calls `takeEvent`. -/

namespace C06Demo

def rep (t n : Nat) : List (Tid × Nat) := List.replicate n (t, 0)

def prog3 : List (List Call) :=
  [[.enqueue, .enqueue, .enqueue], [.processOne, .clearEvents], [.processIf true, .takeEvent]]

/-- producer enqueues 0 and 1; both consumers pass the pre-check and raise `ec`; thread 1 takes
    event 0, thread 2 swaps out [1]; the producer enqueues 2; thread 1 dispatches 0; thread 2
    declines 1 and puts it back in front of 2; both finish their first call -/
def sched1 : List (Tid × Nat) :=
  rep 0 10 ++ rep 1 3 ++ rep 2 3 ++ rep 1 1 ++ rep 2 1 ++ rep 0 5 ++ rep 1 1 ++ rep 2 6 ++ rep 1 2

/-- the point where both consumers hold an event locally and the producer is mid-`enqueue` -/
def schedMid : List (Tid × Nat) := rep 0 10 ++ rep 1 3 ++ rep 2 3 ++ rep 1 1 ++ rep 2 1 ++ rep 0 2

/-- then thread 2 takes event 1 and thread 1 clears event 2 -/
def sched2 : List (Tid × Nat) := sched1 ++ rep 2 3 ++ rep 1 3

theorem reach (sched : List (Tid × Nat)) : Reach prog3 (exec (init prog3) sched) := ⟨sched, rfl⟩

example : (exec (init prog3) schedMid).queue = [2] ∧ inflight (exec (init prog3) schedMid) = [0, 1] ∧
    (exec (init prog3) schedMid).ec = 2 ∧ (exec (init prog3) schedMid).consumed = [] := by decide +kernel

example : (exec (init prog3) sched1).queue = [1, 2] ∧
    (exec (init prog3) sched1).consumed = [(0, .dispatched, 1)] ∧
    (exec (init prog3) sched1).threads.map (·.rets) = [[.unit, .unit, .unit], [.bool true], [.bool false]] := by
  decide +kernel

/-- drained: every thread finished, the queue empty, and dispatched ∪ taken ∪ cleared = enqueued -/
example : (exec (init prog3) sched2).queue = [] ∧
    (exec (init prog3) sched2).threads.all finished = true ∧
    (exec (init prog3) sched2).consumed = [(0, .dispatched, 1), (1, .taken, 2), (2, .cleared, 1)] ∧
    (exec (init prog3) sched2).enqueued = [(0, 0), (1, 0), (2, 0)] ∧
    (exec (init prog3) sched2).threads.map (·.rets) =
      [[.unit, .unit, .unit], [.bool true, .unit], [.bool false, .bool true]] := by
  decide +kernel

/-- the hypotheses of `C06_drained` are satisfiable -/
example : (consumedIds (exec (init prog3) sched2)).Perm (enqueuedIds (exec (init prog3) sched2)) :=
  C06_drained (reach sched2).reachF (by decide +kernel) (by decide +kernel)

/-- a program family without `processIf`, for `C06_order` -/
def progsNoIf : List (List Call) :=
  [[.enqueue, .enqueue, .enqueue], [.processOne, .process], [.takeEvent]]

theorem progsNoIf_ok : NoIf progsNoIf := by unfold NoIf progsNoIf; decide

def sched3 : List (Tid × Nat) := rep 0 10 ++ rep 1 4 ++ rep 2 3 ++ rep 0 5 ++ rep 1 20

example : (exec (init progsNoIf) sched3).consumed = [(1, .taken, 2), (0, .dispatched, 1), (2, .dispatched, 1)] ∧
    (exec (init progsNoIf) sched3).queue = [] := by decide +kernel

/-- `C06_order` applies to it: e.g. thread 1's consumed ids `[0, 2]` are increasing -/
example : (((exec (init progsNoIf) sched3).consumed.filter (·.2.2 == 1)).map (·.1)).Pairwise (· < ·) :=
  C06_order_consumer progsNoIf_ok (⟨sched3, rfl⟩ : ReachF progsNoIf true _) 1

example : ((exec (init progsNoIf) sched3).consumed.filter (·.2.2 == 1)).map (·.1) = [0, 2] := by decide +kernel

/-- `C06_progress` applies in the mid-run state: somebody can step -/
example : ∃ t th ch, getT (exec (init prog3) schedMid) t = some th ∧ isParked th = false ∧
    (step (exec (init prog3) schedMid) t ch).isSome = true :=
  C06_progress (reach schedMid).reachF
    ⟨0, { prog := [.enqueue], pc := .enqReadEmpty, rets := [.unit, .unit] }, by decide +kernel, rfl, rfl⟩


end C06Demo

/-! ### 6. `processUntil`: concrete schedules (outside `C06Demo` so that the audit collects them) -/

open C06Demo (rep)

/-- a producer and ONE consumer that runs `processUntil` (stop at the first odd id), then `process` -/
def progsUntil : List (List Call) := [[.enqueue, .enqueue, .enqueue], [.processUntil true, .process]]

theorem reachU (sched : List (Tid × Nat)) : Reach progsUntil (exec (init progsUntil) sched) := ⟨sched, rfl⟩

theorem progsUntil_ok : SingleConsumer progsUntil 1 := by decide

/-- the producer enqueues 0 and 1; the consumer passes the pre-check, raises `ec` and swaps `[0, 1]`
    out (TAKE); the producer enqueues 2 — it lands in the emptied `queueList` —; the consumer
    dispatches 0 and its predicate stops at 1 -/
def schedU1 : List (Tid × Nat) := rep 0 10 ++ rep 1 4 ++ rep 0 6 ++ rep 1 2

/-- … the PUT-BACK: `[1]` goes in front of `[2]` -/
def schedU2 : List (Tid × Nat) := schedU1 ++ rep 1 1

/-- … the consumer finishes `processUntil` (reads `nc`, notifies, `--ec`; result `true`) and drains the
    queue with `process` -/
def schedU3 : List (Tid × Nat) := schedU2 ++ rep 1 3 ++ rep 1 8

/-- **Example: an enqueue between the take and the put-back of a `processUntil`.**  After the take the
    queue is empty and the consumer holds `[0, 1]`; event 2 is spliced in meanwhile; at the stop the
    consumer is about to put back `[1]` while the queue is `[2]`; the put-back gives `[1, 2]`; the final
    consumption order of the single consumer is the enqueue order 0, 1, 2. -/
theorem C06_processUntil_example :
    (let s := exec (init progsUntil) (rep 0 10 ++ rep 1 4)
     s.queue = [] ∧ s.threads.map (·.pc) = [.idle, .procLoop 5 [0, 1] [] false] ∧ s.ec = 1) ∧
    (let s := exec (init progsUntil) schedU1
     s.queue = [2] ∧ s.threads.map (·.pc) = [.idle, .procPutBack [1] true] ∧
     s.consumed = [(0, .dispatched, 1)] ∧ s.enqueued = [(0, 0), (1, 0), (2, 0)]) ∧
    (let s := exec (init progsUntil) schedU2
     s.queue = [1, 2] ∧ s.threads.map (·.pc) = [.idle, .procPbReadNc true] ∧ s.ec = 1) ∧
    (let s := exec (init progsUntil) schedU3
     s.queue = [] ∧ s.threads.all finished = true ∧ s.ec = 0 ∧
     s.consumed = [(0, .dispatched, 1), (1, .dispatched, 1), (2, .dispatched, 1)] ∧
     s.threads.map (·.rets) = [[.unit, .unit, .unit], [.bool true, .bool true]]) := by
  decide +kernel

/-- `C06_order_single_consumer` applies to it (every schedule, not just this one) -/
example (sched : List (Tid × Nat)) : (consumedIds (exec (init progsUntil) sched)).Pairwise (· < ·) :=
  (C06_order_single_consumer_consumed progsUntil_ok (⟨sched, rfl⟩ : ReachF progsUntil true _)).1

/-- `C06_processUntil_putback_front` applies at the state right before the stop: the hypotheses are
    satisfiable (thread 1 at `procLoop 5 [1] [] true`, the predicate stops at 1) -/
example : ∃ s1, (∀ ch, step (exec (init progsUntil) (rep 0 10 ++ rep 1 4 ++ rep 0 6 ++ rep 1 1)) 1 ch = some s1) ∧
    s1.queue = [2] ∧ s1.consumed = [(0, .dispatched, 1)] := by
  obtain ⟨s1, h1, h2, h3, _⟩ := C06_processUntil_putback_front
    (reachU (rep 0 10 ++ rep 1 4 ++ rep 0 6 ++ rep 1 1)).reachF (t := 1)
    (th := { prog := [.processUntil true, .process], pc := .procLoop 5 [1] [] true }) (m := 5) (e := 1) (r := [])
    (kept := []) (any := true) (by decide +kernel) rfl (Or.inr rfl) (by decide)
  exact ⟨s1, h1, by rw [h2]; decide +kernel, by rw [h3]; decide +kernel⟩

/-- TWO consumers: a `processUntil` thread (stop at the first odd id) and a thread calling `process`
    twice.  Thread 1 swaps `[0, 1, 2]` out; event 3 is enqueued; thread 2 swaps `[3]` out and dispatches
    it; thread 1 dispatches 0, stops at 1 and puts `[1, 2]` back; thread 2's second `process` dispatches
    1 and 2.  Thread 2 has consumed 3, 1, 2 — events of ONE producer, consumed by ONE thread, out of
    enqueue order: with several consumers `processUntil` (like `processIf`) breaks the order clause in
    the code itself, so `C06_order` must exclude it and `C06_order_single_consumer` needs its
    hypothesis. -/
def progsUntil2 : List (List Call) :=
  [[.enqueue, .enqueue, .enqueue, .enqueue], [.processUntil true], [.process, .process]]

def schedUntil2 : List (Tid × Nat) := rep 0 15 ++ rep 1 4 ++ rep 0 6 ++ rep 2 7 ++ rep 1 6 ++ rep 2 8

theorem C06_processUntil_two_consumers_out_of_order :
    let s := exec (init progsUntil2) schedUntil2
    s.threads.all finished = true ∧ s.queue = [] ∧
    s.consumed = [(3, .dispatched, 2), (0, .dispatched, 1), (1, .dispatched, 2), (2, .dispatched, 2)] ∧
    (s.consumed.filter (·.2.2 == 2)).map (·.1) = [3, 1, 2] ∧
    s.enqueued = [(0, 0), (1, 0), (2, 0), (3, 0)] := by
  decide +kernel


end Evp.Conc
