/-
  C07 — wake-up of threads blocked in `wait` / `waitFor` (concurrent model `Conc/Queue.lean`).

  Property text: "A thread blocked in wait or waitFor is released once the queue holds an event and
  no DisableQueueNotify object is alive: neither an enqueue made while notification is enabled nor
  the destruction of the last DisableQueueNotify with events pending can go unnoticed, so no
  interleaving leaves every waiter blocked forever while events are pending, notification is
  enabled and woken consumers drain the queue.  A wait during whose entire duration a
  DisableQueueNotify object is alive does not return; wait returns, and waitFor returns true, only
  after observing a non-empty queue with notification enabled, and waitFor returns false only after
  its timeout."

  Contents
  * `C07_no_lost_wakeup` — MAIN: for well-formed programs (`WF`: every wait/waitFor is followed by
    `process`, DisableQueueNotify scopes are balanced; `processIf` and `processUntil` calls ARE allowed) and the
    repaired destructor, no reachable state has all threads finished-or-parked, somebody parked,
    events pending and notification enabled.  Proved from the inductive invariant `J`
    (`Conc/WaitDefs.lean`, `Conc/WaitInv.lean`); `C07_obligation` is the invariant's key clause and
    `C07_window` the mutual-exclusion window the repairs rely on.  `C07_no_lost_wakeup_events`
    is the corollary that uses the balance hypothesis to discharge `nc = 0`.
  * `C07_counterexample_unlocked` / `C07_same_schedule_repaired` — the destructor that decrements
    outside `queueListMutex` loses a wake-up (defect D3); the repaired one blocks at `dqnDec` while
    the waiter holds the mutex and then wakes it.
  * `C07_processIf_repaired` — defect D11 (processIf put-back lost wake-up), repaired.  `emptyQueue()`
    — used by `doCanProcess()` in `enqueue` and in `~DisableQueueNotify` — reads `queueList.empty()`
    and then `queueEmptyCounter` as two separate accesses.  A concurrent `processIf` that has swapped
    the list out (so the list read sees "empty"), then splices the declined events back and drops its
    CounterGuard (so the counter read sees 0) makes the notifier conclude "queue empty" although an
    event was pending throughout.  Before the repair `processIf` itself never notified and the two
    schedules below ended with the waiter parked for ever, event 0 pending, `nc = 0`.  The repair
    (`if(doCanNotifyQueueAvailable()) notify_one()` after the put-back splice; in the model the pcs
    `procPbReadNc`, `procPbNotify` after `procPutBack`) makes `processIf` the notifier of the events it
    puts back: the same schedules now wake the waiter, which drains the queue.
    `C07_processIf_no_schedule_loses`: by the main theorem no schedule of the two programs does.
  * `C07_processUntil_putback_notifies`, `C07_processUntil_no_schedule_loses` — the same window for
    `processUntil` (model modes 4/5; it shares `procPutBack`, `procPbReadNc`, `procPbNotify` with
    `processIf`, as the source shares the code after the loop): the events it stops at are invisible to
    `emptyQueue()` between the swap and the put-back, and it notifies on behalf of the notifier that
    skipped.  `WF` puts no restriction on `processUntil`; `J_step` covers it (the stop step changes no
    shared variable; the put-back step is the `processIf` one).
  * `C07_returns_only_enabled`, `C07_read3_observed`, `C07_timeout_only`, `C07_timeout_origin` —
    what a returning `wait` / `waitFor` has observed.
  * `C07_counter`, `C07_disabled` — `nc` counts the live DisableQueueNotify objects; while one is
    alive no wait returns.
  * `C07_nonvacuous_*` — a well-formed three-thread run that ends with the queue drained.

  Why `processIf` needs no restriction (the argument of `J_step` for the new cases): the key clause
  speaks about `queue ≠ []`; events held by a `processIf` thread in `todo` / `kept` are not in the
  list.  The put-back step needs `queueListMutex`, so no waiter is between its predicate evaluation
  and its parking when it happens (`C07_window`); it makes the list non-empty and its own thread the
  obligation holder (`procPbReadNc`, `procPbNotify` are in `holderPc`), exactly as `enqSplice` does
  for `enqueue`.  `procPbReadNc` drops the obligation only on reading `nc ≠ 0` (condition false at
  that moment; the destructor that later brings `nc` to 0 becomes a holder at `dqnDec`), and
  `procPbNotify` wakes a parked waiter (then `woken` is the holder) or finds nobody parked.
  The notifier pcs that have read the list as empty (`enqReadEc`, `dqnReadEc`) were never holders —
  they dropped the obligation when they read the list empty — so their skipping the notification
  after a put-back in between is harmless: the put-back thread holds the obligation.
  The invariant was validated on 3000 pseudo-random programs/schedules with `processIf`
  (`scratch/C07RandomTest.lean`) before it was proved.

  Note on `WF`: clause (b) (balanced DisableQueueNotify scopes) is not needed by
  `C07_no_lost_wakeup`, whose conclusion already carries `nc = 0`; it is used by
  `C07_no_lost_wakeup_events`.
-/
import EventppVerif.Generated.QueueFrag
import EventppVerif.Conc.DqnCount
import EventppVerif.Conc.WaitInv
import EventppVerif.Conc.WaitDqn
import EventppVerif.Conc.WaitBal

namespace Evp.Conc

/-! ## 1. The main theorem -/

/-- KEY clause of the invariant: whenever events are pending, notification is enabled and some
    thread is parked, some thread carries an obligation (see `holderPc`, `holder`). -/
theorem C07_obligation {progs : List (List Call)} (hwf : WF progs) {s : State} (hr : Reach progs s)
    (hc : s.queue ≠ [] ∧ s.nc = 0) (hp : ∃ t th, getT s t = some th ∧ isParked th = true) :
    ∃ t th, getT s t = some th ∧ holder th = true :=
  (J_reach hwf hr).key hc hp

/-- The window: while a waiter is between its predicate evaluation and its parking it holds
    `queueListMutex`, so neither an enqueue's splice, nor (repaired) a DisableQueueNotify
    destructor's decrement, nor the put-back splice of a `processIf` / `processUntil` can execute.  (Needs no
    hypothesis on the programs beyond `WF`.) -/
theorem C07_window {progs : List (List Call)} (hwf : WF progs) {s : State} (hr : Reach progs s)
    {u : Tid} {thu : Thread} (hu : getT s u = some thu) (hpcu : holdsQm thu.pc = true)
    {t : Tid} {th : Thread} (hg : getT s t = some th)
    (hpc : th.pc = .enqSplice ∨ th.pc = .dqnDec ∨ (∃ k a, th.pc = .procPutBack k a)) (ch : Nat) :
    step s t ch = none := by
  have hJ := J_reach hwf hr
  have hqm : s.qm = some u := (hJ.base.loc u thu hu).1 hpcu
  have hlk := hJ.base.locked
  rcases hpc with hpc | hpc | ⟨k, a, hpc⟩ <;> simp [step, hg, hpc, hqm, hlk]

/-- **C07, no lost wake-up.**  For well-formed programs and the repaired destructor, no schedule
    reaches a state in which every thread is finished or parked, at least one is parked, and yet
    events are pending with notification enabled. -/
theorem C07_no_lost_wakeup (progs : List (List Call)) (hwf : WF progs) (s : State)
    (hr : Reach progs s)
    (hall : ∀ t th, getT s t = some th → finished th = true ∨ isParked th = true)
    (hex : ∃ t th, getT s t = some th ∧ isParked th = true) :
    ¬ (s.queue ≠ [] ∧ s.nc = 0) := by
  intro hc
  obtain ⟨v, thv, hv, hh⟩ := C07_obligation hwf hr hc hex
  rcases hall v thv hv with hf | hp
  · -- a finished thread is idle with an empty program: no obligation
    simp only [finished, Bool.and_eq_true, List.isEmpty_iff, beq_iff_eq] at hf
    rw [holder_idle hf.2, hf.1] at hh
    cases hh
  · -- a parked thread carries no obligation
    unfold isParked at hp
    unfold holder at hh
    split at hp
    · rename_i timed hpc
      rw [hpc] at hh; cases hh
    · cases hp

/-- Corollary using the balance hypothesis WF (b) (which `C07_no_lost_wakeup` itself does not need):
    `nc = 0` follows when no *parked* thread is inside a DisableQueueNotify scope of its own, because
    finished threads of balanced programs own no object and `nc` counts the live objects.  So: if a
    schedule ends with every thread finished or parked, somebody parked, and no parked thread
    blocking itself by its own DisableQueueNotify, then no event is pending. -/
theorem C07_no_lost_wakeup_events (progs : List (List Call)) (hwf : WF progs) (s : State)
    (hr : Reach progs s)
    (hall : ∀ t th, getT s t = some th → finished th = true ∨ isParked th = true)
    (hex : ∃ t th, getT s t = some th ∧ isParked th = true)
    (hown : ∀ t th, getT s t = some th → isParked th = true → th.dqn = 0) :
    s.queue = [] := by
  have hB : BInv s := BInv_reach (BInv_init (fun p hp => (hwf p hp).2) true) hr
  have hnc : s.nc = 0 := by
    rw [(DInv_reach (DInv_init progs true) hr).1]
    apply sumDqn_zero
    intro t th ht
    rcases hall t th ht with hf | hp
    · exact finished_dqn_zero (hB t th ht) hf
    · exact hown t th ht hp
  cases hq : s.queue with
  | nil => rfl
  | cons e r =>
    exact absurd ⟨by rw [hq]; exact List.cons_ne_nil _ _, hnc⟩
      (C07_no_lost_wakeup progs hwf s hr hall hex)

/-- The same, for the executable predicate `lostWakeup` used by the counter-examples and the test
    harness: no reachable state of well-formed programs (with or without `processIf` / `processUntil`) is a terminal
    state with a lost wake-up. -/
theorem C07_lostWakeup_false (progs : List (List Call)) (hwf : WF progs) (s : State)
    (hr : Reach progs s) : lostWakeup s = false := by
  cases hl : lostWakeup s with
  | false => rfl
  | true =>
    exfalso
    simp only [lostWakeup, Bool.and_eq_true, List.all_eq_true, List.any_eq_true, Bool.or_eq_true,
      Bool.not_eq_true', beq_iff_eq] at hl
    obtain ⟨⟨⟨hall, ⟨thp, hmem, hpk⟩⟩, hq⟩, hnc⟩ := hl
    obtain ⟨u, hu⟩ := List.getElem?_of_mem hmem
    refine C07_no_lost_wakeup progs hwf s hr (fun t th ht => hall th (List.mem_of_getElem? ht))
      ⟨u, thp, hu, hpk⟩ ⟨?_, hnc⟩
    intro h0; rw [h0] at hq; cases hq

/-! ## 2. Counter-examples -/

def progsD3 : List (List Call) := [[.wait, .process], [.dqnBegin, .enqueue, .dqnEnd]]

def schedD3 : List (Tid × Nat) :=
  [(1,0),(1,0),(1,0),(1,0),(1,0),(1,0),(0,0),(0,0),(0,0),(0,0),(1,0),(1,0),(1,0),(1,0),(1,0),(0,0)]

/-- Defect D3: the destructor that decrements `nc` outside `queueListMutex` runs completely inside
    the waiter's window (after the waiter read `nc = 1`, before it parks): lost wake-up. -/
theorem C07_counterexample_unlocked :
    let s := exec (init progsD3 false) schedD3
    s.threads.map (·.pc) = [.parked false, .idle] ∧ s.threads.map finished = [false, true] ∧
    s.queue = [0] ∧ s.nc = 0 ∧ lostWakeup s = true := by
  decide

/-- The same schedule with the repaired destructor: after the first 11 steps thread 0 is at
    `waitPark` holding the mutex and thread 1 is blocked at `dqnDec`; at the end of the schedule
    thread 0 is parked, thread 1 still at `dqnDec` with `nc = 1`; four more steps of thread 1 run
    the destructor, which wakes thread 0; thread 0 then returns from `wait` and drains the queue. -/
theorem C07_same_schedule_repaired :
    (let s := exec (init progsD3 true) (schedD3.take 11)
     s.threads.map (·.pc) = [.waitPark false, .dqnDec] ∧ s.qm = some 0 ∧ s.nc = 1 ∧
     step s 1 0 = none) ∧
    (let s := exec (init progsD3 true) schedD3
     s.threads.map (·.pc) = [.parked false, .dqnDec] ∧ s.queue = [0] ∧ s.nc = 1) ∧
    (let s := exec (init progsD3 true) (schedD3 ++ List.replicate 4 (1,0))
     s.threads.map (·.pc) = [.woken false false, .idle] ∧ s.queue = [0] ∧ s.nc = 0) ∧
    (let s := exec (init progsD3 true) (schedD3 ++ List.replicate 4 (1,0) ++ List.replicate 11 (0,1))
     s.threads.map finished = [true, true] ∧ s.queue = [] ∧ s.nc = 0 ∧
     s.consumed = [(0, .dispatched, 0)] ∧ lostWakeup s = false) := by
  decide

/-- D11, enqueue side.  Thread 0 waits, thread 1 enqueues, thread 2 runs a `processIf` that declines
    event 0.  Thread 0 parks on the empty queue; thread 1 splices event 0 in; thread 2 swaps the list
    out and declines event 0; thread 1 reads "list empty"; thread 2 puts event 0 back, (NEW) reads
    `nc = 0` and notifies — waking thread 0 —, and decrements `queueEmptyCounter`; thread 1 reads
    `ec = 0` and does not notify. -/
def progsPIe : List (List Call) := [[.wait, .process], [.enqueue], [.processIf false]]

def schedPIe : List (Tid × Nat) :=
  List.replicate 5 (0,1) ++ [(1,0),(1,0)] ++ List.replicate 6 (2,0) ++ [(1,0)] ++
  List.replicate 4 (2,0) ++ [(1,0)]

/-- D11, destructor side.  Thread 1 holds a DisableQueueNotify while thread 3 enqueues event 0 and
    thread 0 parks; thread 2's `processIf` swaps the list out and declines event 0; the (repaired)
    destructor of thread 1 decrements `nc` to 0, reads `nc = 0`, reads "list empty"; thread 2 puts
    event 0 back, (NEW) reads `nc = 0` and notifies — waking thread 0 —, and decrements `ec`; the
    destructor reads `ec = 0` and does not notify. -/
def progsPId : List (List Call) :=
  [[.wait, .process], [.dqnBegin, .dqnEnd], [.processIf false], [.enqueue]]

def schedPId : List (Tid × Nat) :=
  [(1,0),(1,0)] ++ List.replicate 4 (3,0) ++ List.replicate 5 (0,1) ++ List.replicate 6 (2,0) ++
  List.replicate 4 (1,0) ++ List.replicate 4 (2,0) ++ [(1,0)]

/-- **Defect D11 repaired.**  The two schedules that lost a wake-up before `processIf` notified
    after its put-back (they ended in `[.parked false, .idle, …]`, `queue = [0]`, `nc = 0`,
    `lostWakeup = true`): in both, right before the put-back the waiter is parked, the notifier has
    read the list as empty and thread 2 is at `procPutBack [0]`; at the end of the schedule the
    notifier has skipped its notification (`ec = 0`) but the waiter has been woken by thread 2; eleven
    more steps of thread 0 return from `wait` and drain the queue.  Both programs are `WF`. -/
theorem C07_processIf_repaired :
    (WF progsPIe ∧
     (let s := exec (init progsPIe true) (schedPIe.take 14)
      s.threads.map (·.pc) = [.parked false, .enqReadEc, .procPutBack [0] false] ∧ s.queue = []) ∧
     (let s := exec (init progsPIe true) schedPIe
      s.threads.map (·.pc) = [.woken false false, .idle, .idle] ∧
      s.threads.map finished = [false, true, true] ∧
      s.queue = [0] ∧ s.nc = 0 ∧ s.ec = 0 ∧ lostWakeup s = false ∧ checkJ s = true) ∧
     (let s := exec (init progsPIe true) (schedPIe ++ List.replicate 11 (0,1))
      s.threads.map finished = [true, true, true] ∧ s.queue = [] ∧
      s.consumed = [(0, .dispatched, 0)] ∧
      s.threads.map (·.rets) = [[.unit, .bool true], [.unit], [.bool false]])) ∧
    (WF progsPId ∧
     (let s := exec (init progsPId true) (schedPId.take 21)
      s.threads.map (·.pc) = [.parked false, .dqnReadEc, .procPutBack [0] false, .idle] ∧
      s.queue = [] ∧ s.nc = 0) ∧
     (let s := exec (init progsPId true) schedPId
      s.threads.map (·.pc) = [.woken false false, .idle, .idle, .idle] ∧
      s.threads.map finished = [false, true, true, true] ∧
      s.queue = [0] ∧ s.nc = 0 ∧ s.ec = 0 ∧ lostWakeup s = false ∧ checkJ s = true) ∧
     (let s := exec (init progsPId true) (schedPId ++ List.replicate 11 (0,1))
      s.threads.map finished = [true, true, true, true] ∧ s.queue = [] ∧
      s.consumed = [(0, .dispatched, 0)] ∧
      s.threads.map (·.rets) = [[.unit, .bool true], [.unit, .unit], [.bool false], [.unit]])) := by
  decide

/-- … and by the main theorem NO schedule of these two programs ends in a lost wake-up. -/
theorem C07_processIf_no_schedule_loses (sched : List (Tid × Nat)) :
    lostWakeup (exec (init progsPIe) sched) = false ∧ lostWakeup (exec (init progsPId) sched) = false :=
  ⟨C07_lostWakeup_false progsPIe (by decide) _ ⟨sched, rfl⟩,
   C07_lostWakeup_false progsPId (by decide) _ ⟨sched, rfl⟩⟩

/-- The D11 window with `processUntil` (stop at the first even id: it stops at event 0 at once and puts
    it back).  Thread 0 parks on the empty queue; thread 1 splices event 0 in; thread 2 swaps the list
    out and stops at event 0; thread 1 reads "list empty"; thread 2 puts event 0 back, reads `nc = 0`
    and notifies — waking thread 0 —, and decrements `queueEmptyCounter`; thread 1 reads `ec = 0` and
    does not notify. -/
def progsPUe : List (List Call) := [[.wait, .process], [.enqueue], [.processUntil false]]

def schedPUe : List (Tid × Nat) :=
  List.replicate 5 (0,1) ++ [(1,0),(1,0)] ++ List.replicate 5 (2,0) ++ [(1,0)] ++
  List.replicate 4 (2,0) ++ [(1,0)]

/-- `processUntil` notifies after its put-back: right before the put-back the waiter is parked, the
    enqueuer has read the list as empty and thread 2 is at `procPutBack [0]`; at the end of the schedule
    the enqueuer has skipped its notification but the waiter has been woken by thread 2; eleven more
    steps of thread 0 return from `wait` and drain the queue. -/
theorem C07_processUntil_putback_notifies :
    WF progsPUe ∧
    (let s := exec (init progsPUe true) (schedPUe.take 13)
     s.threads.map (·.pc) = [.parked false, .enqReadEc, .procPutBack [0] false] ∧ s.queue = []) ∧
    (let s := exec (init progsPUe true) schedPUe
     s.threads.map (·.pc) = [.woken false false, .idle, .idle] ∧
     s.threads.map finished = [false, true, true] ∧
     s.queue = [0] ∧ s.nc = 0 ∧ s.ec = 0 ∧ lostWakeup s = false ∧ checkJ s = true) ∧
    (let s := exec (init progsPUe true) (schedPUe ++ List.replicate 11 (0,1))
     s.threads.map finished = [true, true, true] ∧ s.queue = [] ∧
     s.consumed = [(0, .dispatched, 0)] ∧
     s.threads.map (·.rets) = [[.unit, .bool true], [.unit], [.bool false]]) := by
  decide

/-- … and by the main theorem NO schedule of this program ends in a lost wake-up. -/
theorem C07_processUntil_no_schedule_loses (sched : List (Tid × Nat)) :
    lostWakeup (exec (init progsPUe) sched) = false :=
  C07_lostWakeup_false progsPUe (by decide) _ ⟨sched, rfl⟩

/-! ## 3. What a returning `wait` / `waitFor` has observed

  All four lemmas are about ONE micro-step `step s t ch = some s'` of a thread `t` that is inside a
  `wait` / `waitFor` call (`isWaitPc`); `th` / `th'` are `t`'s thread records before / after. -/

/-- the `afterTimeout` flag carried by a wait pc -/
def atoFlag : PC → Bool
  | .waitRead1 _ a => a
  | .waitRead2 _ a => a
  | .waitRead3 _ a _ => a
  | .woken _ a => a
  | _ => false

section
variable {s s' : State} {t : Tid} {ch : Nat} {th th' : Thread}

/-- `wait` returns (`.unit`) and `waitFor` returns `true` only by the step from `waitRead3` — i.e.
    after the non-emptiness observation of `C07_read3_observed` — that reads `nc = 0`. -/
theorem C07_returns_only_enabled (hg : getT s t = some th) (hw : isWaitPc th.pc = true)
    (h : step s t ch = some s') (hg' : getT s' t = some th')
    (hret : th'.rets = th.rets ++ [.unit] ∨ th'.rets = th.rets ++ [.bool true]) :
    s.nc = 0 ∧ ∃ timed ato ne, th.pc = .waitRead3 timed ato ne ∧
      th'.rets = th.rets ++ [if timed then .bool true else .unit] := by
  cases hpc : th.pc <;> simp [isWaitPc, hpc] at hw
  all_goals
    simp only [step, hg, hpc] at h
    repeat' split at h
    all_goals
      first
      | (cases h; done)
      | (cases h
         simp [goto, finish, setT, getT, getT_lt hg] at hg'
         subst hg'
         simp_all)

/-- a thread reaches `waitRead3` only with the flag `nonEmpty = true`, and only by reading a
    non-empty list (from `waitRead1`) or, the list being empty, `queueEmptyCounter ≠ 0` (from
    `waitRead2`) — `emptyQueue()` returned false. -/
theorem C07_read3_observed (hg : getT s t = some th) (hw : isWaitPc th.pc = true)
    (h : step s t ch = some s') (hg' : getT s' t = some th')
    {timed ato ne : Bool} (hpc' : th'.pc = .waitRead3 timed ato ne) :
    ne = true ∧ ((th.pc = .waitRead1 timed ato ∧ s.queue ≠ []) ∨
                 (th.pc = .waitRead2 timed ato ∧ s.ec ≠ 0)) := by
  cases hpc : th.pc <;> simp [isWaitPc, hpc] at hw
  all_goals
    simp only [step, hg, hpc] at h
    repeat' split at h
    all_goals
      first
      | (cases h; done)
      | (cases h
         simp [goto, finish, setT, getT, getT_lt hg] at hg'
         subst hg'
         simp_all)

/-- `waitFor` returns `false` only from a pc whose `afterTimeout` flag is set … -/
theorem C07_timeout_only (hg : getT s t = some th) (hw : isWaitPc th.pc = true)
    (h : step s t ch = some s') (hg' : getT s' t = some th')
    (hret : th'.rets = th.rets ++ [.bool false]) : atoFlag th.pc = true := by
  cases hpc : th.pc <;> simp [isWaitPc, hpc] at hw
  all_goals
    simp only [step, hg, hpc] at h
    repeat' split at h
    all_goals
      first
      | (cases h; done)
      | (cases h
         simp [goto, finish, setT, getT, getT_lt hg] at hg'
         subst hg'
         simp_all [atoFlag])

/-- … and the flag is set only by the time-out step (`ch = 1`) of a thread parked in `waitFor`
    (`notifyOne` of another thread sets it to `false`, see `notifyOne`). -/
theorem C07_timeout_origin (hg : getT s t = some th) (hw : isWaitPc th.pc = true)
    (h : step s t ch = some s') (hg' : getT s' t = some th')
    (hato : atoFlag th'.pc = true) : atoFlag th.pc = true ∨ (th.pc = .parked true ∧ ch = 1) := by
  cases hpc : th.pc <;> simp [isWaitPc, hpc] at hw
  all_goals
    simp only [step, hg, hpc] at h
    repeat' split at h
    all_goals
      first
      | (cases h; done)
      | (cases h
         simp [goto, finish, setT, getT, getT_lt hg] at hg'
         subst hg'
         simp_all [atoFlag])

end

/-! ## 4. Notification disabled -/

/-- `queueNotifyCounter` = number of live DisableQueueNotify objects (either destructor version) -/
theorem C07_counter (progs : List (List Call)) (b : Bool) {s : State}
    (hr : ReachFrom (init progs b) s) : s.nc = sumDqn s.threads :=
  (DInv_reach (DInv_init progs b) hr).1

/-- While some thread owns a live DisableQueueNotify object, no step completes a `wait`
    (`.unit`) or a `waitFor` with `true`.  Hence a wait during whose entire duration such an object
    is alive does not return (a `waitFor` can only time out). -/
theorem C07_disabled (progs : List (List Call)) (b : Bool) {s s' : State}
    (hr : ReachFrom (init progs b) s)
    {u : Tid} {thu : Thread} (hu : getT s u = some thu) (hlive : 1 ≤ thu.dqn)
    {t : Tid} {ch : Nat} {th th' : Thread}
    (hg : getT s t = some th) (hw : isWaitPc th.pc = true)
    (h : step s t ch = some s') (hg' : getT s' t = some th') :
    th'.rets ≠ th.rets ++ [.unit] ∧ th'.rets ≠ th.rets ++ [.bool true] := by
  have hnc : 1 ≤ s.nc := by
    rw [C07_counter progs b hr]
    exact Nat.le_trans hlive (le_sumDqn hu)
  refine ⟨fun hret => ?_, fun hret => ?_⟩
  · have := (C07_returns_only_enabled hg hw h hg' (Or.inl hret)).1; omega
  · have := (C07_returns_only_enabled hg hw h hg' (Or.inr hret)).1; omega

/-! ## 5. Non-vacuity -/

/-- a waiter that drains the queue, an enqueuer inside a DisableQueueNotify scope, a plain enqueuer -/
def progsNV : List (List Call) := [[.wait, .process], [.dqnBegin, .enqueue, .dqnEnd], [.enqueue]]

/-- thread 0 parks on the empty queue; thread 1 enqueues event 0 silently and wakes thread 0 from
    its destructor; thread 2 enqueues event 1; thread 0 returns from `wait` and dispatches both -/
def schedNV : List (Tid × Nat) :=
  List.replicate 5 (0,1) ++ List.replicate 11 (1,0) ++ List.replicate 5 (2,0) ++ List.replicate 13 (0,1)

theorem C07_nonvacuous_wf : WF progsNV := by decide

theorem C07_nonvacuous_run :
    (let s := exec (init progsNV) (schedNV.take 5)
     s.threads.map (·.pc) = [.parked false, .idle, .idle] ∧ s.queue = []) ∧
    (let s := exec (init progsNV) (schedNV.take 16)
     s.threads.map (·.pc) = [.woken false false, .idle, .idle] ∧ s.queue = [0] ∧ s.nc = 0) ∧
    (let s := exec (init progsNV) schedNV
     Reach progsNV s ∧ s.threads.map finished = [true, true, true] ∧ s.queue = [] ∧ s.nc = 0 ∧
     s.threads.map (·.rets) = [[.unit, .bool true], [.unit, .unit, .unit], [.unit]] ∧
     s.consumed = [(0, .dispatched, 0), (1, .dispatched, 0)] ∧ checkJ s = true) :=
  ⟨by decide, by decide, ⟨⟨schedNV, rfl⟩, by decide⟩⟩

/-- the hypotheses of `C07_no_lost_wakeup` (all threads finished or parked, one parked) are
    satisfiable by a reachable state of a well-formed program: the waiter parked on an empty queue
    after everybody else has finished — there the conclusion holds because the queue is empty. -/
theorem C07_nonvacuous_terminal :
    let progs : List (List Call) := [[.enqueue, .process], [.wait, .process]]
    let s := exec (init progs) (List.replicate 20 (0,1) ++ List.replicate 5 (1,1))
    WF progs ∧ Reach progs s ∧ s.threads.map finished = [true, false] ∧
    s.threads.map isParked = [false, true] ∧ s.queue = [] ∧ s.nc = 0 :=
  ⟨by decide, ⟨_, rfl⟩, by decide⟩

/-! ### bridge to the source (regenerated on every run, Generated/QueueFrag.lean)

The theorems above are about the model with `dqnLocked = true`, `emptyQueue()` reading the list
before the counter and `doCanProcess()` evaluating `emptyQueue()` before the notify counter.  These
facts - and that the model's `nc` is the number of LIVE DisableQueueNotify objects: every constructor,
the copy constructor included, registers the object once and no special member hands a registration over
(D13) - are re-read from eventqueue.h / hetereventqueue.h on every run; if the source stops
decrementing under the mutex, reorders the reads or lets two objects share one registration, this theorem
no longer checks. -/
theorem C07_bridge_source :
    Evp.Gen.Queue.homo_dqnLocked = true ∧ Evp.Gen.Queue.homo_dqnCopyCounts = true ∧ Evp.Gen.Queue.homo_listFirst = true ∧
    Evp.Gen.Queue.homo_emptyFirst = true ∧ Evp.Gen.Queue.heter_listFirst = true ∧
    Evp.Gen.Queue.heter_emptyFirst = true := by decide

/-! ### `nc` is the number of live DisableQueueNotify objects (D13)

The model's `dqnBegin` / `dqnEnd` are "an object comes to life / goes away".  For the class itself
(Conc/DqnCount: constructions, copies and destructions in any order) that reading holds when the copy
constructor registers the copy - which is what `homo_dqnCopyCounts` re-reads from the source - and fails
for the implicit copy the class had. -/

/-- after any history of constructions, copies and destructions the library's counter is the number of
    live objects, so notification is enabled exactly when no DisableQueueNotify object is alive -/
theorem C07_dqn_counts_live (ops : List Evp.Dqn.Op) :
    (Evp.Dqn.run .registers {} ops).nc = ((Evp.Dqn.run .registers {} ops).live : Int) ∧
    ((Evp.Dqn.run .registers {} ops).nc = 0 ↔ (Evp.Dqn.run .registers {} ops).live = 0) :=
  ⟨Evp.Dqn.counts_run ops {} (by simp [Evp.Dqn.Counts]), Evp.Dqn.enabled_iff_none_alive ops⟩

/-- the class as it was: a copy that shares the registration leaves the counter at 0 with an object alive,
    and at -1 with none (found on the real code, D13) -/
theorem C07_dqn_copy_counterexample :
    Evp.Dqn.run .shares {} [.construct, .copy, .destroy] = { nc := 0, live := 1 } ∧
    Evp.Dqn.run .shares {} [.construct, .copy, .destroy, .destroy] = { nc := -1, live := 0 } :=
  Evp.Dqn.shared_copy_counterexample

end Evp.Conc
