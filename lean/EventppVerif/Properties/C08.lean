import EventppVerif.CL.PropAux2
import EventppVerif.Properties.C02
/-
  Property C08 (list part) — stored callbacks are destroyed exactly once, never leaked.

  In the source a node (and the callback stored in it) lives exactly as long as some
  `shared_ptr` points to it: the list object's `head` / `tail`, the `next` / `previous` of another
  living node, or the local `node` variable of a running traversal.  The Model keeps every node
  ever allocated in a total heap, so "destroyed" is stated as "not reachable": `Reach l n`
  (CL/PropAux2.lean) holds for the nodes reachable from `l.head` / `l.tail` by following `next` /
  `prev` of reachable nodes.

  What is proved here, for every list object `l` that represents a Spec list `SL` (`Rep l SL b` —
  every list of every reachable state, by `minv_runN` / `C19_inv`, wrap or not):
  * no leak and no early destruction: with no traversal running, the retained nodes are exactly
    the callbacks currently in the list (`C08_list_quiescent`);
  * the live nodes only point to live nodes (`C08_list_live_closed`), so a removed node, although
    it keeps its own links, is not kept alive by the list, and it keeps nothing alive that the
    list does not keep anyway;
  * `remove` releases exactly the removed node (`C08_remove_releases`), a move leaves the source
    retaining nothing and hands every node to the target (`C08_moved_from`).
  The reference-count bookkeeping itself (who decrements when) is below the abstraction level of
  this Model; it is covered by the harness run under the leak checker (see DESIGN.md, C08).
-/
namespace Evp

/-- **C08 (no leak, no early release; quiescent list).**  For every list object `l` representing
    `SL` and every node id `n`: the object retains `n` iff `n` is the handle of a callback currently
    in the list. -/
theorem C08_list_quiescent {l : CL} {SL : SList} {b : Nat} (r : Rep l SL b) (n : Nat) :
    Reach l n ↔ n ∈ SL.ids :=
  ⟨r.wf.reach_mem, r.wf.mem_reach⟩

/-- the same, stated on the Model alone: retained ⇔ on the `head`/`next` chain ⇔ not marked
    removed, for every list `l` of every world satisfying the invariant `MInv` -/
theorem C08_world_quiescent {m : MCfg} (h : MInv m) (l n : Nat) :
    (Reach (m.lists l) n ↔ n ∈ chainOf (m.lists l).heap (m.nextId + 1) (m.lists l).head) ∧
    (Reach (m.lists l) n ↔ ((m.lists l).heap n).counter ≠ 0) := by
  obtain ⟨SL, r⟩ := h l
  rw [r.chain]
  exact ⟨C08_list_quiescent r n, (C08_list_quiescent r n).trans (r.wf.live n)⟩

/-- **C08 (live nodes point only to live nodes).**  For every node `n` in the chain, `next` and
    `previous` of `n` are `none` or again in the chain. -/
theorem C08_list_live_closed {l : CL} {SL : SList} {b : Nat} (r : Rep l SL b) (n : Nat) (hn : n ∈ SL.ids) :
    (∀ x, (l.heap n).next = some x → x ∈ SL.ids) ∧ (∀ x, (l.heap n).prev = some x → x ∈ SL.ids) :=
  ⟨fun _ hx => r.wf.next_mem hn hx, fun _ hx => r.wf.prev_mem hn hx⟩

/-- **C08 (remove releases exactly the removed callback).**  After `remove h` the object retains
    exactly the previously retained nodes other than `h`; in particular `h` itself is released,
    whether or not it was in the list. -/
theorem C08_remove_releases {l : CL} {SL : SList} {b : Nat} (r : Rep l SL b) (h n : Nat) :
    Reach (l.remove h).1 n ↔ (Reach l n ∧ n ≠ h) := by
  rw [C08_list_quiescent (rep_remove r h).1, C08_list_quiescent r, ← SList.present_iff, ← SList.present_iff]
  rw [SList.remove]
  split
  · rw [SList.present_erase]; simp
  · rename_i hp
    simp only [Bool.not_eq_true] at hp
    constructor
    · intro hn
      exact ⟨hn, fun e => by rw [e, hp] at hn; cases hn⟩
    · exact fun hn => hn.1

/-- **C08 (append retains the new callback and everything retained before).** -/
theorem C08_append_retains {l : CL} {SL : SList} {b : Nat} (r : Rep l SL b) (cb : Cb) (n : Nat) :
    Reach (l.append (b + 1) b cb) n ↔ (Reach l n ∨ n = b) := by
  rw [C08_list_quiescent (rep_append r cb), C08_list_quiescent r, SList.ids_append]
  simp

/-- **C08 (moved-from / cleared object).**  The object left behind by a move assignment (fresh
    object keeping only the counter) retains nothing. -/
theorem C08_cleared (cur M : Nat) (n : Nat) : ¬ Reach { cur := cur, M := M } n :=
  reach_empty rfl rfl n

/-- **C08 (move, machine level).**  After `dst = std::move(src)` (executed, i.e. `dst ≠ src` and
    neither list is being traversed) the source retains no node, and the target *is* the old
    source object, so it retains exactly what the source retained: nothing is leaked, nothing is
    destroyed twice.  What `dst` retained before is released (no longer reachable from any list
    object unless it was also in `src`, which distinct objects never share). -/
theorem C08_moved_from (m : MCfg) (busy : Nat → Bool) (dst src : Nat)
    (hne : dst ≠ src) (hb1 : busy dst = false) (hb2 : busy src = false) (n : Nat) :
    ¬ Reach ((m.apply busy (.moveAssign dst src)).1.lists src) n ∧
    (m.apply busy (.moveAssign dst src)).1.lists dst = m.lists src := by
  simp only [MCfg.apply, hne, hb1, hb2, or_self, Bool.false_eq_true, ↓reduceIte, upd_same]
  refine ⟨reach_empty rfl rfl n, ?_⟩
  rw [upd_other _ _ _ _ hne, upd_same]

/-- **C08 (copy).**  The copy made by `dst = src` retains exactly its own fresh nodes
    `nextId … nextId + length - 1` — none of the source's. -/
theorem C08_clone_retains {l : CL} {SL : SList} {b : Nat} (r : Rep l SL b) (n : Nat) :
    Reach (l.clone (b + 1) b) n ↔ (b ≤ n ∧ n < b + SL.length) := by
  rw [C08_list_quiescent (rep_clone r).1, SList.cloneWith_ids, List.mem_range'_1]

/-! ### non-vacuity -/

/-- callbacks that do nothing -/
def c08Beh : Beh := fun _ _ => .ret true

/-- three appends, the middle one removed, one more prepended -/
def c08Prog : Prog :=
  .op (.append 0 10) fun _ => .op (.append 0 11) fun _ => .op (.append 0 12) fun _ =>
  .op (.remove 0 1) fun _ => .op (.prepend 0 13) fun _ => .ret true

/-- `Rep` holds for the list of a concrete reachable state, and there the retained nodes are
    exactly `3, 0, 2`: node `1` (removed) is released although `(heap 1).next = some 2` still
    points into the list. -/
example :
    let m := (MCfg.runN c08Beh 6 { stack := [.prog c08Prog] }).1
    (∀ n, Reach (m.lists 0) n ↔ n ∈ [3, 0, 2]) ∧ ¬ Reach (m.lists 0) 1 ∧
    ((m.lists 0).heap 1).next = some 2 := by
  intro m
  have hs := (C02_simulation c08Beh 6 _ _ (C02_init 1 c08Prog) (by decide +kernel)).1
  have hids : ((SCfg.runN c08Beh 6 { stack := [.prog c08Prog] }).1.lists 0).ids = [3, 0, 2] := by
    decide +kernel
  have key : ∀ n, Reach (m.lists 0) n ↔ n ∈ [3, 0, 2] := fun n => by
    rw [← hids]; exact C08_list_quiescent (hs.rep 0) n
  exact ⟨key, fun h => by have := (key 1).mp h; simp at this, by decide +kernel⟩

end Evp
