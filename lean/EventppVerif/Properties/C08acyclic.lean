import EventppVerif.CL.Acyclic
import EventppVerif.Properties.C08
/-
  Property C08 (list part, continued) — the garbage has no `shared_ptr` cycle.

  In the source `head`, `tail` and every node's `next` / `previous` are `std::shared_ptr`s.
  `doFreeNode` unlinks a node from its neighbours and marks it removed but leaves the node's own
  `next` / `previous` untouched (a running traversal may stand on it), so removed nodes keep stale
  owning pointers to other nodes.  C08.lean shows that the list object retains exactly the live
  nodes and that live nodes point only to live nodes; what it does not show is that the nodes the
  object no longer retains are actually *released* by reference counting, which needs: no cycle
  of owning pointers among them.

  Proved here, for every list object of every reachable state of the Model machine (every
  behaviour of the callbacks, every number of steps, every command including the whole-object
  ones, generation-counter wraps included):
  * `C08_removed_fields_frozen`: `append`, `prepend`, `insert`, `remove` never write a node that
    is already removed;
  * `C08_remove_links_live`: at the moment a node is removed its own links lead to live nodes only;
  * hence an edge between two removed nodes leads from the earlier removed to the later removed
    one: `Ranked` (CL/Acyclic.lean) — a rank (removal time) strictly increases along every
    `next` / `previous` edge between removed nodes — is an invariant (`C08_garbage_ranked_ops`,
    `C08_garbage_ranked_runN`, `C08_garbage_ranked_init`);
  * so there is no cycle of removed nodes (`C08_garbage_acyclic`, `C08_garbage_acyclic_list`), and
    "removed" is the same as "not retained by the list object" (`C08_gedge_unretained`).
  Consequently every removed node is released as soon as no running traversal and no locked handle
  holds it (the reference-count bookkeeping itself is below the abstraction level of the Model; it
  is covered by the harness run under the leak checker, see DESIGN.md, C08).
-/
namespace Evp

/-- **C08 (removed nodes are frozen).**  Let `l` represent `SL` (`b` = the next fresh node id) and
    let `a` be a node that is already removed (and is not the id `b` the operation is about to
    allocate).  Then `append`, `prepend`, `insert` (also across a generation-counter wrap) and
    `remove` leave the whole node `a` — `next`, `previous`, callback, counter — unchanged; in
    particular it stays removed and keeps its stale links. -/
theorem C08_removed_fields_frozen {l : CL} {SL : SList} {b : Nat} (r : Rep l SL b) (a : Nat)
    (ha : (l.heap a).counter = 0) (hab : a ≠ b) (cb : Cb) (h : Hd) :
    (l.append (b + 1) b cb).heap a = l.heap a ∧
    (l.prepend (b + 1) b cb).heap a = l.heap a ∧
    (l.insert (b + 1) b cb h).heap a = l.heap a ∧
    (l.remove h).1.heap a = l.heap a := by
  have hne : some b ≠ some a := fun e => hab (Option.some.inj e).symm
  refine ⟨(append_frame r.wf b cb).fwd a ha hne, (prepend_frame r.wf b cb).fwd a ha hne,
    (insert_frame r.wf b cb h).fwd a ha hne, ?_⟩
  unfold CL.remove
  split
  · rename_i hl
    exact (freeNode_removed r.wf hl).1 a ha
  · rfl

/-- **C08 (no node is revived, only `remove` removes).**  A node that is removed after `append`,
    `prepend` or `insert` was removed before (and is not the new node); a node that is removed
    after `remove h` is `h` or was removed before. -/
theorem C08_removed_only_by_remove {l : CL} {SL : SList} {b : Nat} (r : Rep l SL b) (a : Nat) (cb : Cb) (h : Hd) :
    (((l.append (b + 1) b cb).heap a).counter = 0 → (l.heap a).counter = 0 ∧ a ≠ b) ∧
    (((l.prepend (b + 1) b cb).heap a).counter = 0 → (l.heap a).counter = 0 ∧ a ≠ b) ∧
    (((l.insert (b + 1) b cb h).heap a).counter = 0 → (l.heap a).counter = 0 ∧ a ≠ b) ∧
    (((l.remove h).1.heap a).counter = 0 → (l.heap a).counter = 0 ∨ a = h) := by
  have key : ∀ {l' : CL}, Frame l l' (some b) → (l'.heap a).counter = 0 → (l.heap a).counter = 0 ∧ a ≠ b :=
    fun f h0 => ⟨(f.bwd a h0).1, fun e => (f.bwd a h0).2 (by rw [e])⟩
  refine ⟨key (append_frame r.wf b cb), key (prepend_frame r.wf b cb), key (insert_frame r.wf b cb h), ?_⟩
  unfold CL.remove
  split
  · rename_i hl
    intro h0
    rcases ((freeNode_removed r.wf hl).2.1 a).mp h0 with e | e
    · exact Or.inr e
    · exact Or.inl e
  · exact Or.inl

/-- **C08 (at its removal a node points to live nodes only).**  After `remove h` of a callback `h`
    that is in the list, `h` still has the `next` / `previous` it had (the stale links), and every
    node they lead to is live after the removal: the only edges between `h` and other removed
    nodes are edges *into* `h`. -/
theorem C08_remove_links_live {l : CL} {SL : SList} {b : Nat} (r : Rep l SL b) (h : Hd)
    (hl : (l.heap h).counter ≠ 0) :
    ((l.remove h).1.heap h).next = (l.heap h).next ∧ ((l.remove h).1.heap h).prev = (l.heap h).prev ∧
    ∀ x, (l.remove h).1.edge h x → ((l.remove h).1.heap x).counter ≠ 0 := by
  obtain ⟨_, _, f3, f4, f5⟩ := freeNode_removed r.wf hl
  have e : (l.remove h).1 = l.freeNode h := by unfold CL.remove; rw [if_pos hl]
  rw [e]
  refine ⟨f3, f4, fun x hx => f5 x ?_⟩
  unfold CL.edge at hx ⊢
  rw [f3, f4] at hx
  exact hx

/-- **C08 (the ranking is kept by every list operation).**  The empty list object is ranked; if
    `l` represents `SL` and is ranked then so is the object after `append`, `prepend`, `insert`
    (wrap or not) and `remove`; a copy (`cloneFrom` into a fresh object) and a cleared / moved-from
    object are ranked outright — every node in their heaps is live, respectively there is none. -/
theorem C08_garbage_ranked_ops {l : CL} {SL : SList} {b : Nat} (r : Rep l SL b) (hr : Ranked l)
    (cb : Cb) (h : Hd) :
    Ranked ({} : CL) ∧
    Ranked (l.append (b + 1) b cb) ∧ Ranked (l.prepend (b + 1) b cb) ∧
    Ranked (l.insert (b + 1) b cb h) ∧ Ranked (l.remove h).1 ∧
    Ranked (l.clone (b + 1) b) ∧ Ranked { cur := l.cur, M := l.M } :=
  ⟨Ranked.empty, hr.frame (append_frame r.wf b cb), hr.frame (prepend_frame r.wf b cb),
    hr.frame (insert_frame r.wf b cb h), remove_ranked r.wf hr h, clone_ranked l _ _,
    ranked_of_heap_empty rfl⟩

/-- **C08 (the ranking is an invariant of the machine).**  For every behaviour of the callbacks,
    every number of steps and every start world whose list objects are well formed (`MInv`) and
    ranked: every list object is ranked afterwards.  All commands are covered (`append`, `prepend`,
    `insert`, `remove`, `owns`, `empty`, `invoke`, `enum` to any nesting depth, `copyAssign`,
    `moveAssign`, `swap`, `setCounter`), generation-counter wraps included. -/
theorem C08_garbage_ranked_runN (beh : Beh) (n : Nat) {m : MCfg} (h : MInv m)
    (hr : ∀ l, Ranked (m.lists l)) : ∀ l, Ranked ((MCfg.runN beh n m).1.lists l) :=
  ranked_runN beh n h hr

/-- the empty world (`k` list objects, about to run `p`) is well formed -/
theorem C08_init_inv (k : Nat) (p : Prog) : MInv { nlists := k, stack := [.prog p] } :=
  fun l => ⟨_, (C02_init k p).rep l⟩

/-- **C08 (ranking, from the empty world).**  In every state reachable from the empty world by any
    program `p` with any callbacks, some rank strictly increases along every `next` / `previous`
    edge that leads from a removed node to a removed node. -/
theorem C08_garbage_ranked_init (beh : Beh) (n k : Nat) (p : Prog) (l : Nat) :
    let cl := (MCfg.runN beh n { nlists := k, stack := [.prog p] }).1.lists l
    ∃ rank : Nat → Nat, ∀ a, (cl.heap a).counter = 0 →
      ∀ b, ((cl.heap a).next = some b ∨ (cl.heap a).prev = some b) → (cl.heap b).counter = 0 →
      rank a < rank b :=
  (ranked_runN beh n (C08_init_inv k p) (ranked_init _ rfl) l).rank

/-- **C08 (no cycle of removed nodes).**  In every world reachable from a well-formed ranked world
    (in particular from the empty world, `C08_garbage_acyclic_init`) no list object has a non-empty
    path `a → … → a` all of whose nodes are removed, `→` being `next` or `previous`
    (`GPath`, CL/Acyclic.lean). -/
theorem C08_garbage_acyclic (beh : Beh) (n : Nat) {m : MCfg} (h : MInv m)
    (hr : ∀ l, Ranked (m.lists l)) (l a : Nat) : ¬ GPath ((MCfg.runN beh n m).1.lists l) a a :=
  acyclic_of_ranked (ranked_runN beh n h hr l) a

/-- **C08 (no cycle of removed nodes, from the empty world).**  For every program `p`, every
    behaviour of the callbacks and every number of steps from the empty world: no list object has
    a cycle of removed nodes. -/
theorem C08_garbage_acyclic_init (beh : Beh) (n k : Nat) (p : Prog) (l a : Nat) :
    ¬ GPath ((MCfg.runN beh n { nlists := k, stack := [.prog p] }).1.lists l) a a :=
  C08_garbage_acyclic beh n (C08_init_inv k p) (ranked_init _ rfl) l a

/-- **C08 (no cycle of removed nodes, paths as lists).**  The same with the path given as the list of its nodes: if `a → a₁ → … → a_k` with all nodes
    removed then no `aᵢ` is `a` -/
theorem C08_garbage_acyclic_list (beh : Beh) (n : Nat) {m : MCfg} (h : MInv m)
    (hr : ∀ l, Ranked (m.lists l)) (l a : Nat) (p : List Nat)
    (hp : IsGPath ((MCfg.runN beh n m).1.lists l) a p) : a ∉ p :=
  acyclic_of_ranked_list (ranked_runN beh n h hr l) a p hp

/-- **C08 (removed = not retained).**  For a list object representing a list, an edge between two
    removed nodes is the same as an edge between two nodes the object does not retain (`Reach`,
    `C08_list_quiescent`): the graph that `C08_garbage_acyclic` speaks about is the graph of the
    nodes not retained by the list object. -/
theorem C08_gedge_unretained {l : CL} {SL : SList} {b : Nat} (r : Rep l SL b) (a c : Nat) :
    l.gedge a c ↔ (¬ Reach l a ∧ ¬ Reach l c ∧ l.edge a c) := by
  have key : ∀ n, (l.heap n).counter = 0 ↔ ¬ Reach l n := fun n => by
    rw [C08_list_quiescent r n, r.wf.live n]
    exact Decidable.not_not.symm
  unfold CL.gedge
  rw [key a, key c]

/-! ### non-vacuity -/

instance (l : CL) (a b : Nat) : Decidable (l.edge a b) := by unfold CL.edge; exact inferInstance
instance (l : CL) (a b : Nat) : Decidable (l.gedge a b) := by unfold CL.gedge; exact inferInstance

/-- three appends (nodes 0, 1, 2), then the adjacent nodes 1 and 2 are removed, 1 first -/
def c08aProg12 : Prog :=
  .op (.append 0 10) fun _ => .op (.append 0 11) fun _ => .op (.append 0 12) fun _ =>
  .op (.remove 0 1) fun _ => .op (.remove 0 2) fun _ => .ret true

/-- the same, 2 first -/
def c08aProg21 : Prog :=
  .op (.append 0 10) fun _ => .op (.append 0 11) fun _ => .op (.append 0 12) fun _ =>
  .op (.remove 0 2) fun _ => .op (.remove 0 1) fun _ => .ret true

/-- Removing 1 and then 2: both are removed, node 1 still holds its stale `next = some 2` and
    `previous = some 0`, node 2 holds `previous = some 0` (1 was unlinked before 2 was removed):
    there is an edge `1 → 2` between removed nodes and none back, the list is ranked, and every
    ranking has `rank 1 < rank 2` (removal order). -/
example :
    let cl := (MCfg.runN c08Beh 6 { stack := [.prog c08aProg12] }).1.lists 0
    (cl.heap 1).counter = 0 ∧ (cl.heap 2).counter = 0 ∧
    (cl.heap 1).next = some 2 ∧ (cl.heap 1).prev = some 0 ∧
    (cl.heap 2).next = none ∧ (cl.heap 2).prev = some 0 ∧
    cl.gedge 1 2 ∧ ¬ cl.gedge 2 1 ∧ Ranked cl ∧
    (∀ rank B, RankedBy cl rank B → rank 1 < rank 2) ∧ ¬ GPath cl 1 1 := by
  intro cl
  have hr : Ranked cl := ranked_runN c08Beh 6 (C08_init_inv 1 c08aProg12) (ranked_init _ rfl) 0
  have hg : cl.gedge 1 2 := by decide +kernel
  exact ⟨by decide +kernel, by decide +kernel, by decide +kernel, by decide +kernel, by decide +kernel,
    by decide +kernel, hg, by decide +kernel, hr, fun rank B h => h.2 1 2 hg, acyclic_of_ranked hr 1⟩

/-- Removing 2 and then 1: now node 2 holds the stale `previous = some 1`, node 1 holds
    `next = none` (2 was unlinked before 1 was removed): the edge between the removed nodes is
    `2 → 1`, again from the earlier removed to the later removed node, and none back. -/
example :
    let cl := (MCfg.runN c08Beh 6 { stack := [.prog c08aProg21] }).1.lists 0
    (cl.heap 1).counter = 0 ∧ (cl.heap 2).counter = 0 ∧
    (cl.heap 2).prev = some 1 ∧ (cl.heap 2).next = none ∧
    (cl.heap 1).next = none ∧ (cl.heap 1).prev = some 0 ∧
    cl.gedge 2 1 ∧ ¬ cl.gedge 1 2 ∧ Ranked cl ∧
    (∀ rank B, RankedBy cl rank B → rank 2 < rank 1) ∧ ¬ GPath cl 2 2 := by
  intro cl
  have hr : Ranked cl := ranked_runN c08Beh 6 (C08_init_inv 1 c08aProg21) (ranked_init _ rfl) 0
  have hg : cl.gedge 2 1 := by decide +kernel
  exact ⟨by decide +kernel, by decide +kernel, by decide +kernel, by decide +kernel, by decide +kernel,
    by decide +kernel, hg, by decide +kernel, hr, fun rank B h => h.2 2 1 hg, acyclic_of_ranked hr 2⟩

/-- ids beyond the backing array were never allocated: they hold the default node -/
theorem c08a_heap_beyond (h : Heap) (k : Nat) (hs : h.arr.size ≤ k) (a : Nat) (ha : k ≤ a) :
    h a = default := by
  show Store.get h a = default
  unfold Store.get
  have : h.arr[a]? = none := by simp; omega
  rw [this]; rfl

/-- an explicit ranking from finitely many checks: `rank` works if it is below `B`, the ids from
    `k` on were never allocated, and it increases along the edges out of the removed nodes below `k` -/
theorem c08a_rankedBy_of_check (cl : CL) (rank : Nat → Nat) (B k : Nat) (hB : ∀ a, rank a < B)
    (hs : cl.heap.arr.size ≤ k)
    (hk : ∀ a, a < k → (cl.heap a).counter = 0 →
      ∀ b ∈ (cl.heap a).next.toList ++ (cl.heap a).prev.toList, (cl.heap b).counter = 0 → rank a < rank b) :
    RankedBy cl rank B := by
  refine ⟨hB, fun a b hg => ?_⟩
  obtain ⟨ha, hb, he⟩ := hg
  by_cases h3 : a < k
  · refine hk a h3 ha b ?_ hb
    rcases he with he | he <;> simp [he]
  · have hd := c08a_heap_beyond cl.heap k hs a (by omega)
    unfold CL.edge at he
    rw [hd] at he
    rcases he with he | he <;> cases he

/-- explicit rankings of the two examples: in the first one (1 removed before 2) the node id itself
    (capped at 3) is a rank, in the second one (2 removed before 1) the reversed id is -/
example :
    RankedBy ((MCfg.runN c08Beh 6 { stack := [.prog c08aProg12] }).1.lists 0) (fun x => min x 3) 4 ∧
    RankedBy ((MCfg.runN c08Beh 6 { stack := [.prog c08aProg21] }).1.lists 0) (fun x => 3 - min x 3) 4 :=
  ⟨c08a_rankedBy_of_check _ _ 4 3 (fun a => by show min a 3 < 4; omega) (by decide +kernel) (by decide +kernel),
   c08a_rankedBy_of_check _ _ 4 3 (fun a => by show 3 - min a 3 < 4; omega) (by decide +kernel) (by decide +kernel)⟩

end Evp
