import EventppVerif.Q.Demo
/-
  Property C08 (queue part) — slot discipline of `EventQueue`.

  Model: Q/Machine.lean.  A slot (`BufferedItem`) is, at every moment, in exactly one of
  `queueList` (`queue`), `freeList` (`free`) or the local `tempList`/`idleList` of one running
  processing call (`todo`/`kept`/`idle` of a `.proc` frame); it is occupied exactly where the C++
  code assumes so.  Hence `set` (placement-new) is only applied to empty storage and `get`/`clear`
  (destructor) only to constructed storage, and the defensive branches of the model are dead.

  All theorems quantify over every behaviour `b` of listeners, filters and predicates (arbitrary
  re-entrant programs), every program, every ordering policy and every reachable configuration
  (`Reachable`, Q/Inv.lean; `C08_reachable_runN` ties it to `QCfg.runN`).
  Proofs: Q/InvView.lean (abstract transitions), Q/InvProofs.lean (the machine), Q/InvCor.lean.
-/
namespace Evp.Q
open Evp

/-- Every configuration produced by `runN` from an initial configuration is `Reachable`, and
    conversely. -/
theorem C08_reachable_runN (b : QBeh) (c : QCfg) :
    Reachable b c ↔ ∃ n c0, Init c0 ∧ (QCfg.runN b n c0).1 = c := reachable_iff

/-- **C08 (slot discipline).** In every reachable configuration
    * every queued slot is occupied, every free slot is empty;
    * in every running processing call the slots still to be examined (`todo`) and the declined
      ones (`kept`) are occupied, the dispatched-and-cleared ones (`idle`) are empty;
    * the slot ids over `queue ++ free ++ inflight` are a permutation of `0 … nextSlot-1`: every
      slot ever created is in exactly one list, exactly once — never duplicated, never lost. -/
theorem C08_queue_slots (b : QBeh) (c : QCfg) (h : Reachable b c) :
    (∀ s ∈ c.queue, s.ev.isSome = true) ∧
    (∀ s ∈ c.free, s.ev = none) ∧
    (∀ mode todo kept idle ph, QFrame.proc mode todo kept idle ph ∈ c.stack →
      (∀ s ∈ todo, s.ev.isSome = true) ∧ (∀ s ∈ kept, s.ev.isSome = true) ∧ (∀ s ∈ idle, s.ev = none)) ∧
    (sidsOf (c.queue ++ c.free ++ c.inflight)).Perm (List.range c.nextSlot) :=
  ⟨h.queue_occupied, h.free_empty, fun _ _ _ _ _ hm => h.frame_slots hm, h.sids_perm⟩

/-- The same for `runN`. -/
theorem C08_queue_slots_runN (b : QBeh) (n : Nat) (c0 : QCfg) (h0 : Init c0) :
    let c := (QCfg.runN b n c0).1
    (∀ s ∈ c.queue, s.ev.isSome = true) ∧ (∀ s ∈ c.free, s.ev = none) ∧
    (sidsOf (c.queue ++ c.free ++ c.inflight)).Perm (List.range c.nextSlot) :=
  have h := (Reachable.init h0).runN (b := b) n
  ⟨h.queue_occupied, h.free_empty, h.sids_perm⟩

/-- Consequences of the permutation: slot ids are pairwise distinct, all below `nextSlot`, and the
    three kinds of lists together hold exactly `nextSlot` slots. -/
theorem C08_slots_distinct (b : QBeh) (c : QCfg) (h : Reachable b c) :
    (sidsOf (c.queue ++ c.free ++ c.inflight)).Nodup ∧
    (∀ s ∈ c.queue ++ c.free ++ c.inflight, s.sid < c.nextSlot) ∧
    c.queue.length + c.free.length + c.inflight.length = c.nextSlot :=
  ⟨h.sids_nodup, h.sids_lt, h.slots_length⟩

/-- `set` is only applied to an empty slot: `enqueue` recycles the head of `free` (or makes a new
    slot), and that head is empty. -/
theorem C08_set_on_empty (b : QBeh) (c : QCfg) (h : Reachable b c) (s : Slot) (fr : List Slot)
    (hf : c.free = s :: fr) : s.ev = none :=
  h.free_empty s (by simp [hf])

/-- `get`/`clear` are only applied to occupied slots: the queue head read by `peek`/`take` is
    occupied (their `none` branches are dead) … -/
theorem C08_get_on_occupied (b : QBeh) (c : QCfg) (h : Reachable b c) (s : Slot) (r : List Slot)
    (hq : c.queue = s :: r) : s.ev.isSome = true :=
  h.queue_occupied s (by simp [hq])

/-- … and when a dispatch has ended (`.done` on top) what is below is either the suspended
    caller of `dispatch` or the processing call that started the dispatch, in phase `.disp`, with
    a non-empty `todo` whose head — the slot `endDispatch` clears — is occupied, directly above
    the suspended caller of `process…`. -/
theorem C08_done_below (b : QBeh) (c : QCfg) (h : Reachable b c) (below : List QFrame)
    (hst : c.stack = .done :: below) :
    (∃ k r, below = .wait k :: r) ∨
    (∃ mode s rest kept idle k r,
      below = .proc mode (s :: rest) kept idle .disp :: .wait k :: r ∧ s.ev.isSome = true) :=
  h.done_below hst

/-- The dead branch `| _, _ => none` of `step`: when a predicate returns, the slot it examined is
    occupied and the processing call is a `processIf`/`processUntil`. -/
theorem C08_pred_frame (b : QBeh) (c : QCfg) (h : Reachable b c) (v : Bool) (mode : PMode) (s : Slot)
    (rest kept idle : List Slot) (below : List QFrame)
    (hst : c.stack = .prog (.ret v) :: .proc mode (s :: rest) kept idle .pred :: below) :
    s.ev.isSome = true ∧ ((∃ p, mode = .ifp p) ∨ (∃ p, mode = .untilp p)) :=
  h.pred_frame hst

/-- The dead branch `s.ev = none` of `procNext`: `procNext` examines the head of a `todo` list,
    and every `todo` list that exists (`C08_queue_slots`) or is about to exist (`startProc` takes a
    prefix of `queue`) consists of occupied slots; on an occupied head `procNext` dispatches it
    (`process`, `processOne`) … -/
theorem C08_procNext_dispatch (b : QBeh) (c : QCfg) (mode : PMode) (s : Slot)
    (rest kept idle : List Slot) (below : List QFrame) (e : QEvent) (he : s.ev = some e)
    (hm : mode.hasPred = false) :
    QCfg.procNext b c mode (s :: rest) kept idle below =
      QCfg.nextFilter b c e.key e.arg c.filters (.proc mode (s :: rest) kept idle .disp :: below) :=
  procNext_dispatch b c mode s rest kept idle below e he hm

/-- … or asks the predicate (`processIf`, `processUntil`). -/
theorem C08_procNext_pred (b : QBeh) (c : QCfg) (mode : PMode) (p : Cb) (s : Slot)
    (rest kept idle : List Slot) (below : List QFrame) (e : QEvent) (he : s.ev = some e)
    (hm : mode = .ifp p ∨ mode = .untilp p) :
    QCfg.procNext b c mode (s :: rest) kept idle below =
      { c with
        trace := .call ⟨.pred, e.key, 0, p, e.arg⟩ :: c.trace
        stack := .prog (QCfg.callProg b c ⟨.pred, e.key, 0, p, e.arg⟩) ::
                 .proc mode (s :: rest) kept idle .pred :: below } :=
  procNext_pred b c mode p s rest kept idle below e he hm

/-- Stack shape (`StackOk`, Q/Inv.lean): a running program sits on nothing, on the dispatch that
    called it (`.filt`, `.iter`) or on the `.pred` frame of a processing call; a dispatch sits on
    the suspended caller (`.wait`) or on the `.disp` frame of a processing call; every processing
    call has a non-empty `todo` and sits directly on the suspended caller of `process…`. -/
theorem C08_stack_shape (b : QBeh) (c : QCfg) (h : Reachable b c) :
    StackOk c.stack ∧
    (∀ mode todo kept idle ph, QFrame.proc mode todo kept idle ph ∈ c.stack → todo ≠ []) ∧
    (∀ st1 st2 mode todo kept idle ph, c.stack = st1 ++ QFrame.proc mode todo kept idle ph :: st2 →
      ∃ k r, st2 = .wait k :: r) :=
  ⟨h.shape, fun _ _ _ _ _ hm => h.todo_ne_nil hm, fun _ _ _ _ _ _ _ hst => h.proc_above_wait hst⟩

/-- No `none` branch of `step` is ever taken before the program has ended: a reachable
    configuration with a non-empty stack can step. -/
theorem C08_never_stuck (b : QBeh) (c : QCfg) (h : Reachable b c) (hne : c.stack ≠ []) :
    (QCfg.step b c).isSome = true :=
  h.progress hne

/-! ### non-vacuity

`Demo.main`: `listen 0 1; enqueue 0 10; enqueue 0 11; enqueue 0 12; processIf 7; process; emptyq`
where listener 1 enqueues (0, 99) on its first call and predicate 7 declines argument 11. -/

/-- after 7 steps the machine is inside listener 1, called by `processIf` for the first event:
    the three slots taken are in flight, the re-entrant `enqueue` got a fourth slot -/
example : Reachable Demo.beh (Demo.at_ 7) := Demo.at_reachable 7
example : (Demo.at_ 7).queue = [⟨3, some ⟨3, 0, 99⟩⟩] ∧ (Demo.at_ 7).free = [] ∧
    sidsOf (Demo.at_ 7).inflight = [0, 1, 2] ∧ (Demo.at_ 7).nextSlot = 4 := by decide +kernel

/-- after `processIf`: the declined slot is back in front of the queue, the two dispatched slots
    are recycled, empty -/
example : (Demo.at_ 13).queue = [⟨1, some ⟨1, 0, 11⟩⟩, ⟨3, some ⟨3, 0, 99⟩⟩] ∧
    (Demo.at_ 13).free = [⟨0, none⟩, ⟨2, none⟩] ∧ (Demo.at_ 13).inflight = [] := by decide +kernel

/-- the run ends (stack empty) after 20 steps with all four slots free -/
example : (QCfg.runN Demo.beh 20 Demo.c0).2 = true ∧
    (Demo.at_ 20).free = [⟨0, none⟩, ⟨2, none⟩, ⟨1, none⟩, ⟨3, none⟩] := by decide +kernel

end Evp.Q
