import EventppVerif.Basic
