import EventppVerif.Util.Fault
import EventppVerif.Q.Unwind
import EventppVerif.Q.Demo
/-
  Property C09 — exception safety.

  "If a callback, listener, filter, predicate, or a copy, move or comparison of a user type
  throws, or a memory allocation fails, during any operation, the exception reaches the caller,
  nothing leaks, and the object stays fully usable.  Listener-management operations (directly or
  through the remover utilities), enqueue, peekEvent and callback-list assignment leave the object
  exactly as it was before the call, a failed copy of any container leaves its source untouched
  and its destination valid, and an exception escaping an invocation, dispatch or processing call
  leaves the listener lists as the callbacks themselves left them, discards only the events that
  processing call had already taken out of the queue, and leaves emptiness reporting and waiting
  correct."

  Quantifier: for every operation in every reachable state, a throw at each individual point where
  user code runs or memory is allocated (the k-th such point, for every k), singly and in
  succession.

  Three layers:

  1. `Util/Fault.lean`: an operation is a table of fault points and writes; `runFault steps k s`
     lets the k-th fault point throw.  Proved here for EVERY table, state and k: whether it throws
     (`C09_runFault_throws_iff`), the state at the throw (`C09_basic`), the strong guarantee for
     tables whose fault points all precede their writes (`C09_strong`), invariants
     (`C09_usable`), and successions of faulted and unfaulted operations (`C09_succession`).
  2. the tables of the operations the property names (read off the source, cited at each table in
     `Util/Fault.lean`) and their shape; the one operation whose table does NOT have the shape —
     `ScopedRemover::append*` — with the resulting violation (`C09_scopedremover_counterexample`,
     the recorded known finding `rem.append:unrecorded-listener`).
  3. `Q/Unwind.lean`: an exception escaping a processing call of the queue machine, as stack
     unwinding, for every reachable configuration (`C09_unwind_*`).

  Tie to the source: the fault harness (`harness/fault.cpp`) enumerates the k-th fault point of
  every operation against the real headers and checks the same statements with an oracle; the
  tables here are what its operation list instantiates.  "Nothing leaks" is checked there (every
  allocation and every user object is counted); it has no counterpart in this file.

  `HeterCallbackListBase::operator=(const &)` used to be declared `noexcept` although it copies
  (copy-and-swap, same table as `assignSteps`): any throw called `std::terminate` instead of
  reaching the caller.  That is a property of the declaration, not of the table; fixed in the
  source (cdc8c7c), nothing to model.
-/
namespace Evp.Fault
open Evp

variable {σ : Type}

/-! ## Part 1 — every table -/

/-- **The exception reaches the caller exactly when a fault point is hit**: the run with the k-th
    fault point throwing reports a throw iff the table has more than `k` fault points; otherwise it
    is the run without fault. -/
theorem C09_runFault_throws_iff (steps : List (Step σ)) (k : Nat) (s : σ) :
    ((runFault steps k s).2 = true ↔ k < faultPoints steps) ∧
    (faultPoints steps ≤ k → runFault steps k s = (runAll steps s, false)) := by
  refine ⟨?_, fun h => runFault_of_ge h s⟩
  rw [runFault_snd]
  simp

theorem runFault_throws_iff (steps : List (Step σ)) (k : Nat) (s : σ) :
    (runFault steps k s).2 = true ↔ k < faultPoints steps :=
  (C09_runFault_throws_iff steps k s).1

/-- **Strong guarantee**: in a table whose fault points all precede its writes, for every state
    and every `k`: if the k-th fault point throws, the state the caller finds is exactly the state
    before the call. -/
theorem C09_strong {steps : List (Step σ)} (hf : FaultsFirst steps) (k : Nat) (s : σ)
    (ht : (runFault steps k s).2 = true) : (runFault steps k s).1 = s := by
  obtain ⟨pre, post, rfl, hpre, hpost⟩ := hf
  rcases runFault_append_noMutate hpre post k s with h | ⟨k', h⟩
  · rw [h]
  · rw [h, runFault_noFault hpost] at ht
    cases ht

/-- the same, for every fault point of the table at once, with the throw spelled out -/
theorem C09_strong_all {steps : List (Step σ)} (hf : FaultsFirst steps) (s : σ) :
    ∀ k, k < faultPoints steps → runFault steps k s = (s, true) := by
  intro k hk
  have ht := (runFault_throws_iff steps k s).mpr hk
  have := C09_strong hf k s ht
  exact Prod.ext this ht

/-- **Basic guarantee, stated precisely**: for every table, state and `k`, the state at the throw
    is the result of exactly the steps in front of the k-th fault point — the writes that were
    made are there, none is rolled back, none of the later ones has happened ("as the callbacks
    themselves left them").  `prefixBefore steps k` is that part of the table: a prefix, followed
    by a fault point, containing exactly `k` fault points. -/
theorem C09_basic (steps : List (Step σ)) (k : Nat) (s : σ) :
    (runFault steps k s).1 = runAll (prefixBefore steps k) s ∧
    prefixBefore steps k <+: steps ∧
    (k < faultPoints steps → ∃ fp rest, steps = prefixBefore steps k ++ fp :: rest ∧
      fp.isFaultPoint = true ∧ faultPoints (prefixBefore steps k) = k) :=
  ⟨runFault_fst steps k s, prefixBefore_prefix steps k, prefixBefore_spec⟩

/-- **The object stays usable**: whatever every write of the table preserves (the representation
    invariant of the object) holds at the throw, for every `k`. -/
theorem C09_usable {P : σ → Prop} {steps : List (Step σ)}
    (h : ∀ f, Step.mutate f ∈ steps → ∀ s, P s → P (f s)) (k : Nat) {s : σ} (hs : P s) :
    P (runFault steps k s).1 := runFault_preserves h k hs

/-- **In succession**: a history of operations, each run with or without an injected fault.  If
    every operation of the history that threw has the `FaultsFirst` shape, the final state is the
    state reached by running only the operations that did not throw: each exception left no
    trace, however many there were and wherever they hit. -/
theorem C09_succession (h : List (Op σ)) (hf : ∀ op ∈ h, op.threw = true → FaultsFirst op.1) (s : σ) :
    runHistory h s = runHistory (unfaulted h) s := by
  induction h generalizing s with
  | nil => rfl
  | cons op r ih =>
    have ihr := fun s => ih (fun o ho => hf o (by simp [ho])) s
    cases ht : op.threw with
    | true =>
      have hstrong : op.run s = s := by
        have hff := hf op (by simp) ht
        rcases op with ⟨steps, _ | k⟩
        · simp [Op.threw] at ht
        · simp only [Op.threw, decide_eq_true_eq] at ht
          exact C09_strong hff k s ((runFault_throws_iff steps k s).mpr ht)
      simp only [runHistory, List.foldl_cons, unfaulted, ht, List.filter_cons, Bool.not_true,
        Bool.false_eq_true, if_false]
      rw [hstrong]
      exact ihr s
    | false =>
      simp only [runHistory, List.foldl_cons, unfaulted, ht, List.filter_cons, Bool.not_false,
        if_true, List.map_cons]
      rw [Op.run_of_not_threw ht]
      exact ihr _

/-- the operations of `unfaulted h` are run without fault: the right-hand side of
    `C09_succession` is a plain run -/
theorem C09_succession_plain (h : List (Op σ)) (s : σ) :
    runHistory (unfaulted h) s =
      ((h.filter (fun op => !op.threw)).map (·.1)).foldl (fun s steps => runAll steps s) s := by
  simp only [runHistory, unfaulted, List.foldl_map]
  rfl

/-! ## Part 1, continued — the operations the property names -/

/-- **Listener management leaves the list exactly as it was**: `append`, `prepend`, `insert`,
    `remove` of a callback list (hence `appendListener` … of a dispatcher, which forward to them),
    for every list, every argument, every fault point. -/
theorem C09_listener_management (l : CL) (cb i k : Nat) :
    (k < 2 → runFault (appendSteps cb) k l = (l, true)) ∧
    (k < 2 → runFault (prependSteps cb) k l = (l, true)) ∧
    (k < 2 → runFault (insertSteps cb i) k l = (l, true)) ∧
    (runFault (removeSteps i) k l).2 = false :=
  ⟨fun h => C09_strong_all (appendSteps_faultsFirst cb) l k h,
   fun h => C09_strong_all (prependSteps_faultsFirst cb) l k h,
   fun h => C09_strong_all (insertSteps_faultsFirst cb i) l k h,
   rfl⟩

/-- **Callback-list assignment leaves the destination exactly as it was**, at every one of the
    `2 * other.length` fault points (one allocation and one callback copy per element). -/
theorem C09_assign (l other : CL) (k : Nat) (hk : k < 2 * other.length) :
    runFault (assignSteps other) k l = (l, true) :=
  C09_strong_all (assignSteps_faultsFirst other) l k (by rw [faultPoints_assignSteps]; exact hk)

/-- … and without fault it is the assignment -/
theorem C09_assign_completes (l other : CL) : runAll (assignSteps other) l = other := by
  rw [assignSteps, runAll_append]
  rfl

/-- **enqueue and peekEvent leave the queue exactly as it was**, at each of their fault points. -/
theorem C09_enqueue_peek (q : Qu) (e k : Nat) :
    (k < 3 → runFault (enqueueSteps e) k q = (q, true)) ∧
    (k < 1 → runFault peekSteps k q = (q, true)) :=
  ⟨fun h => C09_strong_all (enqueueSteps_faultsFirst e) q k h,
   fun h => C09_strong_all peekSteps_faultsFirst q k h⟩

/-- **A failed copy leaves its source untouched and its destination valid**: wherever the copy
    construction of a container is interrupted, the source is what it was and the destination is
    a well-formed list holding a prefix of the source's elements. -/
theorem C09_copy (src : List Nat) (k : Nat) :
    (runFault (copyCtorSteps src) k ⟨src, []⟩).1.src = src ∧
    (runFault (copyCtorSteps src) k ⟨src, []⟩).1.dst <+: src := by
  obtain ⟨h1, m, hm, h2⟩ := copyCtor_fault src k src []
  exact ⟨h1, by rw [h2]; simpa using hm⟩

/-- **Remover utilities, as they should be**: with the record reserved before the listener is
    attached, the remover and its list are exactly as before at each of the three fault points. -/
theorem C09_remover_fixed (s : RS) (cb k : Nat) (hk : k < 3) :
    runFault (removerAppendFixedSteps cb) k s = (s, true) :=
  C09_strong_all (removerAppendFixedSteps_faultsFirst cb) s k hk

/-- **Remover utilities, as they are (KNOWN FINDING `rem.append:unrecorded-listener`)**: the table
    of the real `ScopedRemover::append*` attaches first and allocates the record afterwards; it is
    not `FaultsFirst`, and for every state the fault in the record allocation (fault point 2) does
    reach the caller but leaves the object changed: the listener is attached and the remover does
    not know it. -/
theorem C09_scopedremover_counterexample (s : RS) (cb : Nat) :
    ¬ FaultsFirst (scopedRemoverAppendSteps cb) ∧
    (runFault (scopedRemoverAppendSteps cb) 2 s).2 = true ∧
    (runFault (scopedRemoverAppendSteps cb) 2 s).1 ≠ s ∧
    (runFault (scopedRemoverAppendSteps cb) 2 s).1 =
      { attached := s.attached ++ [cb], recorded := s.recorded } := by
  refine ⟨scopedRemoverAppendSteps_not_faultsFirst cb, rfl, ?_, rfl⟩
  intro h
  have : (s.attached ++ [cb]).length = s.attached.length := congrArg (fun r => r.attached.length) h
  simp at this

/-- the first two fault points of the real table are harmless: the finding is exactly fault
    point 2 -/
theorem C09_scopedremover_other_points (s : RS) (cb : Nat) :
    runFault (scopedRemoverAppendSteps cb) 0 s = (s, true) ∧
    runFault (scopedRemoverAppendSteps cb) 1 s = (s, true) ∧
    faultPoints (scopedRemoverAppendSteps cb) = 3 := ⟨rfl, rfl, rfl⟩

/-! ## Part 2 — the statements are not vacuous -/

/-- append on `[1, 2]`: both fault points throw and leave `[1, 2]`; without fault `[1, 2, 7]` -/
example : runFault (appendSteps 7) 0 [1, 2] = ([1, 2], true) ∧
          runFault (appendSteps 7) 1 [1, 2] = ([1, 2], true) ∧
          runFault (appendSteps 7) 2 [1, 2] = ([1, 2, 7], false) := by decide

example : runFault (insertSteps 7 1) 1 [1, 2] = ([1, 2], true) ∧
          runAll (insertSteps 7 1) [1, 2] = [1, 7, 2] ∧
          runAll (prependSteps 7) [1, 2] = [7, 1, 2] ∧
          runAll (removeSteps 0) [1, 2] = [2] := by decide

/-- assignment of a three-element list: six fault points, each leaves the destination alone -/
example : faultPoints (assignSteps [4, 5, 6]) = 6 ∧
          (∀ k < 6, runFault (assignSteps [4, 5, 6]) k [1, 2] = ([1, 2], true)) ∧
          runFault (assignSteps [4, 5, 6]) 6 [1, 2] = ([4, 5, 6], false) := by decide

example : (∀ k < 3, runFault (enqueueSteps 9) k [3] = ([3], true)) ∧
          runFault (enqueueSteps 9) 3 [3] = ([3, 9], false) ∧
          runFault peekSteps 0 [3] = ([3], true) := by decide

/-- a copy interrupted at its 5th fault point: two elements made it, the source is intact -/
example : runFault (copyCtorSteps [4, 5, 6]) 4 ⟨[4, 5, 6], []⟩ = (⟨[4, 5, 6], [4, 5]⟩, true) := by
  decide

/-- the known finding on a concrete state: listener 65 attached, not recorded -/
example : runFault (scopedRemoverAppendSteps 65) 2 ⟨[10], [10]⟩ = (⟨[10, 65], [10]⟩, true) ∧
          runFault (removerAppendFixedSteps 65) 2 ⟨[10], [10]⟩ = (⟨[10], [10]⟩, true) ∧
          runAll (removerAppendFixedSteps 65) ⟨[10], [10]⟩ = ⟨[10, 65], [10, 65]⟩ := by decide

/-- a table that is not `FaultsFirst` has a fault point at which the strong guarantee fails, so
    `FaultsFirst` is not a decoration of `C09_strong` -/
example : ∃ (steps : List (Step Nat)) (k : Nat), (runFault steps k 0).2 = true ∧ (runFault steps k 0).1 ≠ 0 :=
  ⟨[.mutate (· + 1), .alloc], 0, by decide⟩

/-- a history: append 7 faulted at point 1, append 8 unfaulted, assignment faulted at point 3,
    append 9 with a fault index beyond its fault points (runs to the end) -/
example :
    runHistory [(appendSteps 7, some 1), (appendSteps 8, none), (assignSteps [4, 5], some 3),
                (appendSteps 9, some 2)] [1] = [1, 8, 9] ∧
    (unfaulted [(appendSteps 7, some 1), (appendSteps 8, none), (assignSteps [4, 5], some 3),
                (appendSteps 9, some 2)]).length = 2 := by decide

/-- `C09_basic` on a table with a write in front of the fault: exactly that write is there -/
example : runFault (scopedRemoverAppendSteps 65) 2 ⟨[], []⟩ =
    (runAll (prefixBefore (scopedRemoverAppendSteps 65) 2) ⟨[], []⟩, true) ∧
    (prefixBefore (scopedRemoverAppendSteps 65) 2).length = 3 := by decide

end Evp.Fault

/-! ## Part 3 — an exception escaping a processing call of the queue machine -/

namespace Evp.Q
open Evp QCfg

variable {b : QBeh} {c : QCfg}

/-- what `unwind` removes, for a reachable configuration in which a processing call is running:
    the frames of the running dispatch (no processing call among them), the innermost `.proc`
    frame, and the `.wait` frame under it; the slots that vanish are that frame's
    `todo ++ kept ++ idle`. -/
theorem C09_unwind_frame (h : Reachable b c) (hp : 0 < procCount c.stack) :
    ∃ above mode todo kept idle ph k below,
      c.stack = above ++ .proc mode todo kept idle ph :: .wait k :: below ∧
      procCount above = 0 ∧ (unwind c).stack = below ∧ poppedSlots c.stack = todo ++ kept ++ idle := by
  obtain ⟨above, mode, todo, kept, idle, ph, r, h1, h2, h3, h4, _⟩ := exists_innermost hp
  obtain ⟨k, below, rfl⟩ := h.proc_above_wait h1
  exact ⟨above, mode, todo, kept, idle, ph, k, below, h1, h2, h3, h4⟩

/-- **(a) Emptiness reporting stays correct**: after the exception has left the processing call,
    `queueEmptyCounter` again counts exactly the processing calls still running; if the call was
    the only one, the counter is 0 and `emptyQueue()` is true exactly when nothing is queued. -/
theorem C09_unwind_guard (h : Reachable b c) :
    (unwind c).ec = procCount (unwind c).stack ∧
    (procCount c.stack = 1 →
      (unwind c).ec = 0 ∧ ((unwind c).emptyQueue = true ↔ c.queue = [])) := by
  refine ⟨unwind_guard h.guard, ?_⟩
  intro h1
  have h0 : (unwind c).ec = 0 := by simp [h.guard, h1]
  refine ⟨h0, ?_⟩
  simp [QCfg.emptyQueue, h.guard, h1]

/-- **(b) Nothing is rolled back and nothing else is lost**: the listener lists and the filter
    list are as the callbacks left them, the queue holds what it held (the events the call had not
    taken, and those enqueued meanwhile), the free list, the trace and the counters are
    untouched.  `wait` / `waitFor` test `!queueList.empty()` only, so they too see what they
    should. -/
theorem C09_unwind_keeps (c : QCfg) :
    (unwind c).queue = c.queue ∧ (unwind c).lists = c.lists ∧ (unwind c).filters = c.filters ∧
    (unwind c).free = c.free ∧ (unwind c).trace = c.trace ∧ (unwind c).nextSeq = c.nextSeq ∧
    (unwind c).nextSlot = c.nextSlot ∧ (unwind c).nextId = c.nextId :=
  ⟨rfl, rfl, rfl, rfl, rfl, rfl, rfl, rfl⟩

/-- **(c) Exactly the events of the abandoned call are discarded**: every event ever enqueued is,
    exactly once, still queued, or still held by one of the remaining processing calls, or was
    consumed (dispatched / taken / cleared), or was in a slot of the abandoned call. -/
theorem C09_unwind_discards (h : Reachable b c) :
    (seqsOf (unwind c).queue ++ seqsOf (unwind c).inflight ++ consumedSeqs (unwind c).trace ++
      seqsOf (poppedSlots c.stack)).Perm (List.range (unwind c).nextSeq) := by
  have h1 := h.once_perm
  have h2 : c.inflight = poppedSlots c.stack ++ (unwind c).inflight := inflightS_belowProc c.stack
  rw [h2, seqsOf_append] at h1
  exact (perm_move_mid _ _ _ _).trans h1

/-- with no processing call running (the exception escapes a plain `dispatch`), no event is
    discarded and the counter is untouched: only the stack goes -/
theorem C09_unwind_dispatch_only (h : Reachable b c) (hp : procCount c.stack = 0) :
    unwind c = { c with stack := [] } ∧ poppedSlots c.stack = [] := by
  refine ⟨?_, poppedSlots_of_procCount_zero hp⟩
  have : c.ec = 0 := by rw [h.guard, hp]
  simp [unwind, belowProc_of_procCount_zero hp, this]

/-- **(d) Slot discipline is untouched**: queued slots are occupied, free slots are empty, the
    slots of the remaining processing calls are as they must be, and the slots of queue, free
    list and remaining calls together with the destroyed ones are exactly the slots ever created,
    each once — in particular no slot is both destroyed and still linked somewhere. -/
theorem C09_unwind_slots (h : Reachable b c) :
    (∀ s ∈ (unwind c).queue, s.ev.isSome) ∧ (∀ s ∈ (unwind c).free, s.ev = none) ∧
    (∀ mode todo kept idle ph, QFrame.proc mode todo kept idle ph ∈ (unwind c).stack →
      (∀ s ∈ todo, s.ev.isSome) ∧ (∀ s ∈ kept, s.ev.isSome) ∧ (∀ s ∈ idle, s.ev = none) ∧ todo ≠ []) ∧
    (sidsOf ((unwind c).queue ++ (unwind c).free ++ (unwind c).inflight) ++
      sidsOf (poppedSlots c.stack)).Perm (List.range (unwind c).nextSlot) := by
  refine ⟨h.queue_occupied, h.free_empty, ?_, ?_⟩
  · intro mode todo kept idle ph hm
    have hm' : QFrame.proc mode todo kept idle ph ∈ c.stack := (belowProc_suffix c.stack).subset hm
    have := h.frame_slots hm'
    exact ⟨this.1, this.2.1, this.2.2, h.todo_ne_nil hm'⟩
  · have h1 := h.sids_perm
    have h2 : c.inflight = poppedSlots c.stack ++ (unwind c).inflight := inflightS_belowProc c.stack
    rw [h2] at h1
    refine List.Perm.trans ?_ h1
    rw [List.perm_iff_count]
    intro x
    simp only [sidsOf_append, List.count_append, unwind_queue, unwind_free]
    omega

/-- **The object stays usable**: what is left is a stack a program may run on — the caller's
    handler, whatever it does (`p` arbitrary), finds a well-shaped stack with an exact guard. -/
theorem C09_unwind_resumable (h : Reachable b c) (p : QProg) :
    StackOk (resume c p).stack ∧ (resume c p).ec = procCount (resume c p).stack ∧
    (resume c p).queue = c.queue ∧ (resume c p).lists = c.lists ∧ (resume c p).filters = c.filters :=
  ⟨unwind_resumable h.shape p, by
    show (unwind c).ec = procCount (.prog p :: (unwind c).stack)
    rw [procCount_cons]; simpa [isProc] using unwind_guard h.guard, rfl, rfl, rfl⟩

/-- the events still pending in the remaining calls and in the queue are still in enqueue order
    (`std::list` policy) -/
theorem C09_unwind_fifo (h : Reachable b c) (ho : c.ordered = none) :
    (seqsOf (pendS (unwind c).stack ++ (unwind c).queue)).Pairwise (· < ·) := by
  have h1 := h.fifo ho
  rw [pendS_belowProc] at h1
  refine h1.sublist (List.Sublist.filterMap _ ?_)
  simp only [unwind_stack, unwind_queue, List.append_assoc]
  exact (List.Sublist.refl _).append (List.sublist_append_right _ _)

/-- **In succession**: the exception keeps travelling through `n` enclosing processing calls.
    After each of them the guard is exact, queue / listeners / filters / free list are what they
    were, and the discarded events are exactly those of the abandoned calls. -/
theorem C09_unwind_succession (h : Reachable b c) (n : Nat) :
    (unwindN n c).ec = procCount (unwindN n c).stack ∧
    (unwindN n c).queue = c.queue ∧ (unwindN n c).lists = c.lists ∧
    (unwindN n c).filters = c.filters ∧ (unwindN n c).free = c.free ∧
    (seqsOf (unwindN n c).queue ++ seqsOf (unwindN n c).inflight ++ consumedSeqs (unwindN n c).trace ++
      seqsOf (discardedN n c.stack)).Perm (List.range (unwindN n c).nextSeq) ∧
    (0 < n → ∀ p, StackOk (.prog p :: (unwindN n c).stack)) := by
  obtain ⟨hq, hf, hl, hfi, htr, hns, _, _⟩ := unwindN_keeps c n
  refine ⟨unwindN_guard h.guard n, hq, hl, hfi, hf, ?_, ?_⟩
  · have h1 := h.once_perm
    rw [unwindN_inflight c n, seqsOf_append] at h1
    rw [hq, htr, hns]
    exact (perm_move_mid _ _ _ _).trans h1
  · intro hn p
    cases n with
    | zero => omega
    | succ n =>
      have : ∀ (m : Nat) (c : QCfg), COk false c.stack → COk false (unwindN m c).stack := by
        intro m
        induction m with
        | zero => exact fun _ h => h
        | succ m ih => exact fun c hc => ih (unwind c) hc.belowProc
      exact .prog (this n (unwind c) h.shape.belowProc)

/-! ### Part 3 is not vacuous

The run of `Q/Demo.lean`: `listen 0 1; enqueue 10; enqueue 11; enqueue 12; processIf 7; process;
emptyq`, where listener 1 enqueues (0, 99) on its first call and predicate 7 declines argument 11.
At step 11 `processIf` has dispatched event 0, has put event 1 aside (`kept`), and the listener
called for event 2 is running; event 3 was enqueued by the listener meanwhile. -/

example : Reachable Demo.beh (Demo.at_ 11) := Demo.at_reachable 11

/-- the listener throws at step 11: events 2 and 1 (held by the call) are discarded, event 3 stays
    queued, event 0 stays consumed, the guard drops to 0, the queue does not report empty, and the
    cleared slot of event 0 is destroyed with the other two -/
example : procCount (Demo.at_ 11).stack = 1 ∧ (Demo.at_ 11).ec = 1 ∧
    seqsOf (poppedSlots (Demo.at_ 11).stack) = [2, 1] ∧ sidsOf (poppedSlots (Demo.at_ 11).stack) = [2, 1, 0] ∧
    seqsOf (unwind (Demo.at_ 11)).queue = [3] ∧ (unwind (Demo.at_ 11)).inflight = [] ∧
    consumedSeqs (unwind (Demo.at_ 11)).trace = [0] ∧ (unwind (Demo.at_ 11)).nextSeq = 4 ∧
    (unwind (Demo.at_ 11)).ec = 0 ∧ (unwind (Demo.at_ 11)).emptyQueue = false ∧
    (unwind (Demo.at_ 11)).stack.length = 0 := by decide +kernel

namespace C09Demo
open Demo

/-- the first listener call enqueues two events and calls `processOne` (a processing call nested
    in a processing call); later listener calls just look at the list -/
def beh : QBeh where
  run call nth :=
    match call.kind with
    | .listener => if nth = 0 then seqProg [.enqueue 0 20, .enqueue 0 21, .processOne] else seqProg [.hasAny 0]
    | .filter => .ret true
    | .pred => .ret true
  rewrite _ a := a

def main : QProg := seqProg [.listen 0 1, .enqueue 0 10, .enqueue 0 11, .process]
def c0 : QCfg := { stack := [.prog main] }
def at_ (n : Nat) : QCfg := (QCfg.runN beh n c0).1
theorem at_reachable (n : Nat) : Reachable beh (at_ n) :=
  (Reachable.init ⟨rfl, rfl, rfl, rfl, rfl, rfl, main, rfl⟩).runN n

/-- step 8: `process` took events 0 and 1; the listener for event 0 enqueued events 2 and 3 and
    called `processOne`, which took event 2, whose listener is running -/
example : procCount (at_ 8).stack = 2 ∧ (at_ 8).ec = 2 ∧ seqsOf (at_ 8).queue = [3] ∧
    seqsOf (at_ 8).inflight = [2, 0, 1] := by decide +kernel

/-- it throws and the first listener does not catch: first the inner call goes (event 2), then the
    outer one (events 0 and 1); event 3 stays queued throughout -/
example : seqsOf (poppedSlots (at_ 8).stack) = [2] ∧ (unwindN 1 (at_ 8)).ec = 1 ∧
    procCount (unwindN 1 (at_ 8)).stack = 1 ∧ seqsOf (unwindN 1 (at_ 8)).inflight = [0, 1] ∧
    seqsOf (unwindN 1 (at_ 8)).queue = [3] ∧ (unwindN 1 (at_ 8)).emptyQueue = false ∧
    seqsOf (discardedN 2 (at_ 8).stack) = [2, 0, 1] ∧ (unwindN 2 (at_ 8)).ec = 0 ∧
    (unwindN 2 (at_ 8)).stack.length = 0 ∧ seqsOf (unwindN 2 (at_ 8)).queue = [3] ∧
    (unwindN 2 (at_ 8)).emptyQueue = false := by decide +kernel

/-- the first listener does catch (and returns): the machine runs on to the end of the program —
    the outer `process` finishes events 0 and 1, event 3 is still queued, the guard is 0, the two
    surviving slots are recycled -/
example : (QCfg.runN beh 20 (resume (at_ 8) (.ret true))).2 = true ∧
    consumedSeqs (QCfg.runN beh 20 (resume (at_ 8) (.ret true))).1.trace = [1, 0] ∧
    seqsOf (QCfg.runN beh 20 (resume (at_ 8) (.ret true))).1.queue = [3] ∧
    (QCfg.runN beh 20 (resume (at_ 8) (.ret true))).1.ec = 0 ∧
    (QCfg.runN beh 20 (resume (at_ 8) (.ret true))).1.emptyQueue = false ∧
    sidsOf (QCfg.runN beh 20 (resume (at_ 8) (.ret true))).1.free = [0, 1] := by decide +kernel

end C09Demo

end Evp.Q

section Axioms
open Evp.Fault Evp.Q
end Axioms
