import EventppVerif.CL.PropAux2
import EventppVerif.Properties.C02
/-
  Property C10 (list part) — copies are independent, moves transfer, swaps exchange.

  Spec: a world of lists `SCfg.lists : Nat → SList`; `SCfg.apply` gives the meaning of
  `dst = src` (`copyAssign`; copy construction is assignment into an unused slot),
  `dst = std::move(src)` (`moveAssign`) and `swap(a, b)`.
  Model: `MCfg.apply` on pointer objects: `clone` builds new nodes with new handles by walking the
  source chain, move transfers the object and leaves a fresh one, swap exchanges the objects.

  As everywhere, the three commands are only executed when none of the lists involved is being
  traversed (`busy l = false`; assigning to a list from inside one of its own callbacks is outside
  the property, the harness does not generate it and both machines skip the command).

  Layers: `C10_copy` … `C10_independent` say what the Spec does (that *is* the property);
  `C10_model_follows` says the Model stays related to the Spec across these commands (no wrap
  hypothesis needed: they never draw a generation); `C10_model_copy` / `C10_model_move` /
  `C10_model_swap` restate the content on the Model alone through the abstraction function
  `absList` (object ↦ handles and callbacks along `head`/`next`).
-/
namespace Evp

/-! ### Spec -/

/-- **C10 (copy).**  After `dst = src` the target holds the same callbacks in the same order as
    the source, under fresh handles `nextId, nextId+1, …`; every other list — in particular the
    source — is unchanged, and `nextId` advanced past the new handles. -/
theorem C10_copy (s : SCfg) (busy : Nat → Bool) (dst src : Nat)
    (hne : dst ≠ src) (hb1 : busy dst = false) (hb2 : busy src = false) :
    let s' := (s.apply busy (.copyAssign dst src)).1
    (s'.lists dst).map (·.cb) = (s.lists src).map (·.cb) ∧
    (s'.lists dst).ids = List.range' s.nextId (s.lists src).length ∧
    s'.nextId = s.nextId + (s.lists src).length ∧
    (∀ b, b ≠ dst → s'.lists b = s.lists b) := by
  simp only [SCfg.apply, hne, hb1, hb2, or_self, Bool.false_eq_true, ↓reduceIte, upd_same]
  exact ⟨SList.cloneWith_cbs _ _, SList.cloneWith_ids _ _, trivial, fun b hb => upd_other _ _ _ _ hb⟩

/-- **C10 (a copy's handles are new).**  In a Spec state related to a Model state (every reachable
    state) no handle of the copy is a handle of any list of the world before the copy: removing
    through an old handle can never hit the copy and vice versa. -/
theorem C10_copy_fresh {m : MCfg} {s : SCfg} (h : Sim m s) (busy : Nat → Bool) (dst src : Nat)
    (hne : dst ≠ src) (hb1 : busy dst = false) (hb2 : busy src = false) (l' : Nat) (x : Hd)
    (hx : x ∈ (s.lists l').ids) :
    x ∉ ((s.apply busy (.copyAssign dst src)).1.lists dst).ids := by
  simp only [SCfg.apply, hne, hb1, hb2, or_self, Bool.false_eq_true, ↓reduceIte, upd_same]
  intro hm
  have h1 := (SList.cloneWith_fresh hm).1
  have h2 := (h.rep l').wf.lt x hx
  rw [h.nextId] at h2
  omega

/-- **C10 (move).**  After `dst = std::move(src)` the target holds exactly the source's entries
    (same handles, same callbacks, same order), the source is empty, every other list is
    unchanged and no handle was issued. -/
theorem C10_move (s : SCfg) (busy : Nat → Bool) (dst src : Nat)
    (hne : dst ≠ src) (hb1 : busy dst = false) (hb2 : busy src = false) :
    let s' := (s.apply busy (.moveAssign dst src)).1
    s'.lists dst = s.lists src ∧ s'.lists src = [] ∧ s'.nextId = s.nextId ∧
    (∀ b, b ≠ dst → b ≠ src → s'.lists b = s.lists b) := by
  simp only [SCfg.apply, hne, hb1, hb2, or_self, Bool.false_eq_true, ↓reduceIte]
  refine ⟨by rw [upd_other _ _ _ _ hne, upd_same], upd_same _ _ _, trivial, fun b h1 h2 => ?_⟩
  rw [upd_other _ _ _ _ h2, upd_other _ _ _ _ h1]

/-- **C10 (swap).**  After `swap(a, b)` list `a` holds what `b` held and vice versa (entries with
    their handles), everything else is unchanged.  With `a = b` this says nothing changes. -/
theorem C10_swap (s : SCfg) (busy : Nat → Bool) (a b : Nat) (hb1 : busy a = false) (hb2 : busy b = false) :
    let s' := (s.apply busy (.swap a b)).1
    s'.lists a = s.lists b ∧ s'.lists b = s.lists a ∧ s'.nextId = s.nextId ∧
    (∀ c, c ≠ a → c ≠ b → s'.lists c = s.lists c) := by
  simp only [SCfg.apply, hb1, hb2, or_self, Bool.false_eq_true, ↓reduceIte]
  refine ⟨?_, upd_same _ _ _, trivial, fun c h1 h2 => ?_⟩
  · rw [upd_get, upd_same]; split
    · next e => rw [e]
    · rfl
  · rw [upd_other _ _ _ _ h2, upd_other _ _ _ _ h1]

/-- **C10 (self-assignment).**  `l = l` and `l = std::move(l)` change nothing at all. -/
theorem C10_self (s : SCfg) (busy : Nat → Bool) (l : Nat) :
    (s.apply busy (.copyAssign l l)).1 = s ∧ (s.apply busy (.moveAssign l l)).1 = s := by
  simp [SCfg.apply]

/-- **C10 (independence).**  Every command leaves every list it does not name as a target
    (`Cmd.targets`: the list of append/prepend/insert/remove, the target of a copy, both sides of a
    move or swap) exactly as it was — so after a copy, operations on the copy do not affect the
    original and vice versa.  Spec and Model (for the Model: the very same object). -/
theorem C10_independent (s : SCfg) (m : MCfg) (busy : Nat → Bool) (cmd : Cmd) (b : Nat) (hb : b ∉ cmd.targets) :
    (s.apply busy cmd).1.lists b = s.lists b ∧ (m.apply busy cmd).1.lists b = m.lists b :=
  ⟨SCfg.apply_other s busy cmd b hb, MCfg.apply_other m busy cmd b hb⟩

/-! ### Model -/

/-- the three whole-list commands -/
def Cmd.isAssign : Cmd → Bool
  | .copyAssign _ _ => true
  | .moveAssign _ _ => true
  | .swap _ _ => true
  | _ => false

/-- **C10 (the Model follows).**  In related states (stacks `ms`/`ss` under the running program),
    copy / move / swap give the same result and lead to related states again — every list object
    of the Model represents the corresponding Spec list, every running traversal is still in
    correspondence — unconditionally (these commands never wrap a counter). -/
theorem C10_model_follows {m : MCfg} {s : SCfg} {ms ss} (h : SimOn m s ms ss) (cmd : Cmd)
    (hc : cmd.isAssign = true) :
    (m.apply (busyOn MFrame.isIterOn ms) cmd).2 = (s.apply (busyOn SFrame.isIterOn ss) cmd).2 ∧
    SimOn (m.apply (busyOn MFrame.isIterOn ms) cmd).1 (s.apply (busyOn SFrame.isIterOn ss) cmd).1 ms ss := by
  obtain ⟨h1, h2⟩ := sim_apply h cmd
  refine ⟨h1, h2 ?_⟩
  cases cmd <;> simp only [Cmd.isAssign, Bool.false_eq_true] at hc <;>
    simp only [MCfg.apply] <;> split <;> rfl

/-- **C10 (copy, Model alone).**  In every world satisfying the invariant `MInv` (every reachable
    one, `C19_inv`): after `dst = src` the content of the target object, read through `head`/`next`,
    is the content of the source with handles `nextId, nextId+1, …`; every other object (the source
    too) is untouched. -/
theorem C10_model_copy {m : MCfg} (h : MInv m) (busy : Nat → Bool) (dst src : Nat)
    (hne : dst ≠ src) (hb1 : busy dst = false) (hb2 : busy src = false) :
    let m' := (m.apply busy (.copyAssign dst src)).1
    absList (m'.lists dst) (m'.nextId + 1) = (absList (m.lists src) (m.nextId + 1)).cloneWith m.nextId ∧
    m'.nextId = m.nextId + (absList (m.lists src) (m.nextId + 1)).length ∧
    (∀ b, b ≠ dst → m'.lists b = m.lists b) := by
  obtain ⟨SL, r⟩ := h src
  obtain ⟨rc, hlen⟩ := rep_clone r
  simp only [MCfg.apply, hne, hb1, hb2, or_self, Bool.false_eq_true, ↓reduceIte, upd_same, MCfg.fuel]
  rw [hlen, r.abs]
  exact ⟨rc.abs, rfl, fun b hb => upd_other _ _ _ _ hb⟩

/-- **C10 (move, Model alone).**  The target becomes the source object itself, the source a fresh
    empty object. -/
theorem C10_model_move (m : MCfg) (busy : Nat → Bool) (dst src : Nat)
    (hne : dst ≠ src) (hb1 : busy dst = false) (hb2 : busy src = false) :
    let m' := (m.apply busy (.moveAssign dst src)).1
    m'.lists dst = m.lists src ∧ (∀ fuel, absList (m'.lists src) fuel = []) ∧ m'.nextId = m.nextId ∧
    (∀ b, b ≠ dst → b ≠ src → m'.lists b = m.lists b) := by
  simp only [MCfg.apply, hne, hb1, hb2, or_self, Bool.false_eq_true, ↓reduceIte]
  refine ⟨by rw [upd_other _ _ _ _ hne, upd_same], fun fuel => ?_, trivial, fun b h1 h2 => ?_⟩
  · rw [upd_same]; exact absList_head_none rfl fuel
  rw [upd_other _ _ _ _ h2, upd_other _ _ _ _ h1]

/-- **C10 (swap, Model alone).**  The two objects are exchanged. -/
theorem C10_model_swap (m : MCfg) (busy : Nat → Bool) (a b : Nat) (hb1 : busy a = false) (hb2 : busy b = false) :
    let m' := (m.apply busy (.swap a b)).1
    m'.lists a = m.lists b ∧ m'.lists b = m.lists a ∧ m'.nextId = m.nextId ∧
    (∀ c, c ≠ a → c ≠ b → m'.lists c = m.lists c) := by
  simp only [MCfg.apply, hb1, hb2, or_self, Bool.false_eq_true, ↓reduceIte]
  refine ⟨?_, upd_same _ _ _, trivial, fun c h1 h2 => ?_⟩
  · rw [upd_get, upd_same]; split
    · next e => rw [e]
    · rfl
  · rw [upd_other _ _ _ _ h2, upd_other _ _ _ _ h1]

/-! ### non-vacuity -/

def c10Beh : Beh := fun _ _ => .ret true

/-- list 0 = [10, 11]; list 1 = copy of list 0; append 12 to the copy, remove the first callback of
    the original through its handle, try to remove it from the copy (no effect: `false`);
    list 2 = move of list 0; swap lists 1 and 2; invoke all three. -/
def c10Prog : Prog :=
  .op (.append 0 10) fun _ => .op (.append 0 11) fun _ =>
  .op (.copyAssign 1 0) fun _ => .op (.append 1 12) fun _ =>
  .op (.remove 0 0) fun _ => .op (.remove 1 0) fun _ =>
  .op (.moveAssign 2 0) fun _ => .op (.swap 1 2) fun _ =>
  .op (.invoke 0 7) fun _ => .op (.invoke 1 7) fun _ => .op (.invoke 2 7) fun _ => .ret true

/-- Model and Spec computed by the kernel agree; at the end list 0 is empty, list 1 holds the
    original's remaining callback (handle 1), list 2 the copy `10, 11` (handles 2, 3) plus `12`. -/
example :
    let m := (MCfg.runN c10Beh 40 { nlists := 3, stack := [.prog c10Prog] }).1
    let s := (SCfg.runN c10Beh 40 { nlists := 3, stack := [.prog c10Prog] }).1
    m.trace = s.trace ∧ m.wraps = 0 ∧
    s.lists 0 = [] ∧ s.lists 1 = [⟨1, 11⟩] ∧ s.lists 2 = [⟨2, 10⟩, ⟨3, 11⟩, ⟨4, 12⟩] ∧
    absList (m.lists 0) 10 = [] ∧ absList (m.lists 1) 10 = [⟨1, 11⟩] ∧
    absList (m.lists 2) 10 = [⟨2, 10⟩, ⟨3, 11⟩, ⟨4, 12⟩] ∧
    m.trace.reverse =
      [.res (.handle 0), .res (.handle 1), .res .unit, .res (.handle 4),
       .res (.bool true), .res (.bool false), .res .unit, .res .unit,
       .res .unit,
       .call ⟨1, 1, 11, 7, false⟩, .res .unit,
       .call ⟨2, 2, 10, 7, false⟩, .call ⟨2, 3, 11, 7, false⟩, .call ⟨2, 4, 12, 7, false⟩, .res .unit] := by
  decide +kernel

/-- the hypotheses of `C10_copy_fresh` / `C10_model_follows` / `C10_model_copy` are satisfiable:
    the state after the two appends is related to its Spec state, satisfies `MInv`, nothing is
    busy, and the theorems apply to `copyAssign 1 0` there. -/
example :
    let m := (MCfg.runN c10Beh 2 { nlists := 3, stack := [.prog c10Prog] }).1
    let s := (SCfg.runN c10Beh 2 { nlists := 3, stack := [.prog c10Prog] }).1
    (∀ x ∈ (s.lists 0).ids, x ∉ ((s.apply (fun _ => false) (.copyAssign 1 0)).1.lists 1).ids) ∧
    absList ((m.apply (fun _ => false) (.copyAssign 1 0)).1.lists 1)
      ((m.apply (fun _ => false) (.copyAssign 1 0)).1.nextId + 1)
      = (absList (m.lists 0) (m.nextId + 1)).cloneWith m.nextId := by
  intro m s
  have hs : Sim m s := (C02_simulation c10Beh 2 _ _ (C02_init 3 c10Prog) (by decide +kernel)).1
  have hinv : MInv m := fun l => ⟨_, hs.rep l⟩
  exact ⟨fun x hx => C10_copy_fresh hs (fun _ => false) 1 0 (by decide) rfl rfl 0 x hx,
    (C10_model_copy hinv (fun _ => false) 1 0 (by decide) rfl rfl).1⟩

end Evp
