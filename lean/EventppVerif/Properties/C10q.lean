import EventppVerif.Q.Copy
import EventppVerif.Generated.CtorFrag
/-
  Property C10, queue / dispatcher part (the callback-list part is Properties/C10.lean):
  a copy-constructed or move-constructed queue holds the same listeners and filters in the same
  order, no pending events, reports empty, and none of its state depends on what its storage held
  before: every scalar member is named in every constructor's initialiser list (table regenerated
  from the source on every run, Generated/CtorFrag.lean).
-/
namespace Evp.Q
open Evp Evp.Gen.Ctor

/-- **No member is left to the previous content of memory**: in every constructor (default, copy,
    move) of `EventQueueBase`, `HeterEventQueueBase` and `CallbackListBase`, every scalar data member
    (the atomic counters) is initialised — for the table regenerated from the current source. -/
theorem C10_init : ∀ e ∈ table, e.scalar = true → e.initialised = true := by decide

/-- **… and a copied / moved / fresh object starts with its own counters at zero**: every scalar member
    is initialised with the literal `0` (or by a constructor that delegates to one that does) — a copy
    does not inherit the source's `queueNotifyCounter` (a `DisableQueueNotify` alive on the source does
    not disable the copy) nor its `queueEmptyCounter`. -/
theorem C10_counters_zero : ∀ e ∈ table, e.scalar = true → e.cls ≠ "SpinLock" →
    e.init = "0" ∨ e.init = "<delegated>" := by decide

/-- the table really covers the three constructors of the three classes (non-vacuity) -/
theorem C10_init_covers :
    (table.filter (fun e => e.scalar)).length ≥ 15 ∧
    (∃ e ∈ table, e.cls = "EventQueueBase" ∧ e.ctor = "copy" ∧ e.member = "queueEmptyCounter") ∧
    (∃ e ∈ table, e.cls = "HeterEventQueueBase" ∧ e.ctor = "move" ∧ e.member = "queueNotifyCounter") := by decide

theorem cloneWith_cbs (L : SList) (id : Nat) : (L.cloneWith id).map (·.cb) = L.map (·.cb) := by
  induction L generalizing id with
  | nil => rfl
  | cons e r ih => simp [SList.cloneWith, ih]

theorem cloneLists_get (lists : Store SList) : ∀ (n id k : Nat), k < n →
    ∃ id', ((cloneLists lists n id).1 k) = (lists k).cloneWith id'
  | 0, _, _, h => by omega
  | n + 1, id, k, h => by
    simp only [cloneLists]
    by_cases hk : k = n
    · subst hk; exact ⟨(cloneLists lists k id).2, by simp⟩
    · have := cloneLists_get lists n id k (by omega)
      obtain ⟨id', h'⟩ := this
      exact ⟨id', by simp [hk, h']⟩

/-- **Copy**: the copy has the same listener callbacks in the same order for every event, the same
    filters in the same order, no pending event, nothing in flight, and reports empty. -/
theorem C10_queue_copy (c : QCfg) :
    (∀ k < c.nkeys, ((c.copyOf.lists k).map (·.cb)) = (c.lists k).map (·.cb)) ∧
    c.copyOf.filters.map (·.cb) = c.filters.map (·.cb) ∧
    c.copyOf.queue = [] ∧ c.copyOf.ec = 0 ∧ c.copyOf.emptyQueue = true := by
  refine ⟨?_, ?_, rfl, rfl, rfl⟩
  · intro k hk
    obtain ⟨id', h⟩ := cloneLists_get c.lists c.nkeys c.nextId k hk
    simp only [QCfg.copyOf]
    rw [h, cloneWith_cbs]
  · simp [QCfg.copyOf, cloneWith_cbs]

/-- **Move**: the listeners and filters travel unchanged (same handles), the pending events do not;
    the new object reports empty. -/
theorem C10_queue_move (c : QCfg) :
    c.moveOf.lists = c.lists ∧ c.moveOf.filters = c.filters ∧ c.moveOf.queue = [] ∧
    c.moveOf.ec = 0 ∧ c.moveOf.emptyQueue = true := ⟨rfl, rfl, rfl, rfl, rfl⟩

/-- the new object is a legitimate starting point for every theorem about reachable
    configurations once a program is put on its stack: its queue, free list and guard are those of
    a fresh queue -/
theorem C10_queue_fresh (c : QCfg) :
    c.copyOf.queue = [] ∧ c.copyOf.free = [] ∧ c.copyOf.ec = 0 ∧
    c.moveOf.queue = [] ∧ c.moveOf.free = [] ∧ c.moveOf.ec = 0 := ⟨rfl, rfl, rfl, rfl, rfl, rfl⟩

end Evp.Q
